(* C20 -- rotation: order on names, the sorted listing, what a rollover removes. *)
From Coq Require Import List Arith ZArith Bool NArith Lia Sorted.
Import ListNotations.
Require Import FV.Gen.C20 FV.C20.Model FV.C20.Lemmas.

(* ------------------------------------------------------------------ python string order on code points *)
Lemma name_leb_refl a : name_leb a a = true.
Proof. induction a; simpl; auto. rewrite N.ltb_irrefl, N.eqb_refl. auto. Qed.

Lemma name_leb_total a : forall b, name_leb a b = false -> name_leb b a = true.
Proof.
  induction a as [|x a IH]; destruct b as [|y b]; simpl; intros H; try discriminate; auto.
  destruct (N.ltb_spec x y); try discriminate. destruct (N.eqb_spec x y).
  - subst. rewrite N.ltb_irrefl, N.eqb_refl. apply IH; auto.
  - assert (y < x)%N as L by lia. apply N.ltb_lt in L. rewrite L. auto.
Qed.

Lemma name_leb_trans a : forall b c, name_leb a b = true -> name_leb b c = true -> name_leb a c = true.
Proof.
  induction a as [|x a IH]; intros [|y b] [|z c]; simpl; auto; try discriminate.
  intros H1 H2.
  destruct (N.ltb_spec x y) as [Lxy|Lxy].
  - destruct (N.ltb_spec y z) as [Lyz|Lyz].
    + assert (x < z)%N as L by lia. apply N.ltb_lt in L. rewrite L. auto.
    + destruct (N.eqb_spec y z); [|discriminate]. subst. apply N.ltb_lt in Lxy. rewrite Lxy. auto.
  - destruct (N.eqb_spec x y); [|discriminate]. subst.
    destruct (N.ltb y z); auto. destruct (N.eqb y z); [|discriminate]. eapply IH; eauto.
Qed.

Lemma name_leb_antisym a : forall b, name_leb a b = true -> name_leb b a = true -> a = b.
Proof.
  induction a as [|x a IH]; destruct b as [|y b]; simpl; auto; try discriminate.
  intros H1 H2.
  destruct (N.ltb_spec x y) as [Lxy|Lxy].
  - destruct (N.ltb_spec y x); [lia|]. destruct (N.eqb_spec y x); [lia|discriminate].
  - destruct (N.eqb_spec x y); [|discriminate]. subst.
    rewrite N.ltb_irrefl, N.eqb_refl in H2. f_equal. apply IH; auto.
Qed.

(* ------------------------------------------------------------------ insertion sort *)
Definition R (a b : entry) : Prop := entry_leb a b = true.

Lemma insert_in x e l : In x (insert e l) <-> x = e \/ In x l.
Proof.
  induction l as [|a r]; simpl.
  - split; intros [H|H]; auto.
  - destruct (entry_leb e a); simpl.
    + split; intros [H|H]; auto.
    + rewrite IHr. split; intros H; tauto.
Qed.

Lemma insert_length e l : length (insert e l) = S (length l).
Proof. induction l as [|a r]; simpl; auto. destruct (entry_leb e a); simpl; auto. Qed.

Lemma insert_sorted e l : StronglySorted R l -> StronglySorted R (insert e l).
Proof.
  induction l as [|a r]; simpl; intros H.
  - constructor; auto.
  - inversion H as [|? ? Hr Ha]; subst. destruct (entry_leb e a) eqn:E.
    + constructor; auto. constructor; auto.
      rewrite Forall_forall in *. intros x I. unfold R, entry_leb in *.
      eapply name_leb_trans; eauto.
    + constructor; auto. rewrite Forall_forall in *. intros x I. apply insert_in in I as [I|I].
      * subst. unfold R, entry_leb in *. apply name_leb_total; auto.
      * auto.
Qed.

Lemma sort_in x l : In x (sort l) <-> In x l.
Proof.
  induction l as [|a r]; simpl; [tauto|]. rewrite insert_in, IHr. split; intros [H|H]; auto.
Qed.

Lemma sort_length l : length (sort l) = length l.
Proof. induction l as [|a r]; simpl; auto. rewrite insert_length. auto. Qed.

Lemma sort_sorted l : StronglySorted R (sort l).
Proof. induction l as [|a r]; simpl; [constructor|]. apply insert_sorted; auto. Qed.

Lemma sorted_app_le l1 : forall l2 a b,
  StronglySorted R (l1 ++ l2) -> In a l1 -> In b l2 -> R a b.
Proof.
  induction l1 as [|x r]; simpl; intros l2 a b H Ia Ib; [destruct Ia|].
  inversion H as [|? ? Hr Hx]; subst. destruct Ia as [Ia|Ia].
  - subst. rewrite Forall_forall in Hx. apply Hx. apply in_or_app; auto.
  - eapply IHr; eauto.
Qed.

Lemma sorted_split l n a b :
  StronglySorted R l -> In a (firstn n l) -> In b (skipn n l) -> R a b.
Proof. intros H. rewrite <- (firstn_skipn n l) in H. eapply sorted_app_le; eauto. Qed.

Lemma last_in (l : list entry) d : l <> [] -> In (last l d) l.
Proof.
  induction l as [|a r]; intros H; [contradiction|]. destruct r as [|b r'].
  - simpl; auto.
  - change (last (a :: b :: r') d) with (last (b :: r') d). right. apply IHr. discriminate.
Qed.

(* the last element of a sorted list is above every element *)
Lemma sorted_last_max l : StronglySorted R l -> forall x d, In x l -> R x (last l d).
Proof.
  induction l as [|a r]; intros H x d I; [destruct I|].
  inversion H as [|? ? Hr Ha]; subst. destruct r as [|b r'].
  - destruct I as [I|[]]. subst. simpl. unfold R, entry_leb. apply name_leb_refl.
  - change (last (a :: b :: r') d) with (last (b :: r') d). destruct I as [I|I].
    + subst. rewrite Forall_forall in Ha. apply Ha. apply last_in. discriminate.
    + apply IHr; auto.
Qed.

(* ------------------------------------------------------------------ directories *)
Lemma has_name_in n d : has_name n d = true <-> exists e, In e d /\ e_name e = n.
Proof.
  induction d as [|a r]; simpl.
  - split; [discriminate|intros (e & [] & _)].
  - rewrite orb_true_iff, IHr, name_eqb_eq. split.
    + intros [H|(e & I & E)]; [exists a; auto | exists e; auto].
    + intros (e & [I|I] & E); [left; subst; auto | right; exists e; auto].
Qed.

Lemma has_del n x d : has_name n (del_name x d) = if name_eqb n x then false else has_name n d.
Proof.
  induction d as [|a r]; simpl.
  - destruct (name_eqb n x); auto.
  - destruct (name_eqb x (e_name a)) eqn:E.
    + apply name_eqb_eq in E. subst x. rewrite IHr. destruct (name_eqb n (e_name a)); auto.
    + simpl. rewrite IHr. destruct (name_eqb n x) eqn:E2; auto.
      apply name_eqb_eq in E2; subst n. rewrite E. auto.
Qed.

Lemma del_in e x d : In e (del_name x d) -> In e d.
Proof.
  induction d as [|a r]; simpl; auto. destruct (name_eqb x (e_name a)); simpl; intros H; auto.
  destruct H; auto.
Qed.

Lemma del_keeps e x d : In e d -> e_name e <> x -> In e (del_name x d).
Proof.
  induction d as [|a r]; simpl; auto. intros [H|H] N.
  - subst. destruct (name_eqb x (e_name e)) eqn:E.
    + apply name_eqb_eq in E; congruence.
    + left; auto.
  - destruct (name_eqb x (e_name a)); simpl; auto.
Qed.

Lemma has_app n a b : has_name n (a ++ b) = has_name n a || has_name n b.
Proof. induction a as [|x a IH]; simpl; auto. rewrite IH, orb_assoc; auto. Qed.

Lemma in_firstn {A} (x : A) n l : In x (firstn n l) -> In x l.
Proof. intros H. rewrite <- (firstn_skipn n l). apply in_or_app; auto. Qed.
Lemma in_skipn {A} (x : A) n l : In x (skipn n l) -> In x l.
Proof. intros H. rewrite <- (firstn_skipn n l). apply in_or_app; auto. Qed.

(* the removal loop *)
Lemma remove_loop_sub : forall vs d e, In e (remove_loop d vs) -> In e d.
Proof.
  induction vs as [|v r]; simpl; intros d e H; auto. apply IHr in H. eapply del_in; eauto.
Qed.

Lemma remove_loop_names n : forall vs d,
  has_name n (remove_loop d vs) = has_name n d && negb (has_name n vs).
Proof.
  induction vs as [|v r]; simpl; intros d.
  - rewrite andb_true_r; auto.
  - rewrite IHr, has_del. destruct (name_eqb n (e_name v)); simpl; auto. rewrite andb_false_r. auto.
Qed.

Lemma remove_loop_keeps_entry e : forall vs d,
  In e d -> has_name (e_name e) vs = false -> In e (remove_loop d vs).
Proof.
  induction vs as [|v r]; simpl; intros d I H; auto. apply orb_false_iff in H as [H1 H2].
  apply IHr; auto. apply del_keeps; auto. apply name_eqb_neq in H1. auto.
Qed.

(* str.startswith / str.endswith *)
Lemma starts_with_app p x : starts_with (p ++ x) p = true.
Proof. induction p as [|a p IH]; simpl; [destruct x; auto|]. rewrite N.eqb_refl. auto. Qed.

Lemma ends_with_app x s : ends_with (x ++ s) s = true.
Proof. unfold ends_with. rewrite rev_app_distr. apply starts_with_app. Qed.

Lemma log_name_own root date : own_log root {| e_name := log_name root date; e_file := true |} = true.
Proof.
  unfold own_log, log_name. simpl e_name. simpl e_file.
  replace (root ++ [45%N] ++ date ++ dot_log) with ((root ++ [45%N]) ++ date ++ dot_log) at 1
    by (rewrite <- app_assoc; reflexivity).
  rewrite starts_with_app.
  assert (root ++ [45%N] ++ date ++ dot_log = (root ++ [45%N] ++ date) ++ dot_log) as E
    by (rewrite <- !app_assoc; reflexivity).
  simpl in E. rewrite E. rewrite ends_with_app. reflexivity.
Qed.

(* the listing: the handler's own log files only *)
Lemma listing_in p e d : In e (listing p d) <-> In e d /\ own_log p e = true.
Proof. unfold listing. rewrite sort_in, filter_In. tauto. Qed.

Lemma listing_sorted p d : StronglySorted R (listing p d).
Proof. apply sort_sorted. Qed.

(* what is not a regular file named <root>-*.log is never a victim *)
Lemma foreign_not_listed p d e :
  NoDup (map e_name d) -> In e d -> own_log p e = false -> has_name (e_name e) (listing p d) = false.
Proof.
  intros ND I F. destruct (has_name (e_name e) (listing p d)) eqn:H; auto.
  apply has_name_in in H as (x & Ix & N). apply listing_in in Ix as [Ix O].
  assert (x = e); [|subst; congruence].
  clear O F. induction d as [|a r]; [destruct I|]. simpl in ND. inversion ND as [|? ? Na Nr]; subst.
  destruct I as [I|I], Ix as [Ix|Ix]; subst; auto.
  - exfalso. apply Na. rewrite <- N. apply in_map; auto.
  - exfalso. apply Na. rewrite N. apply in_map; auto.
Qed.

(* _open *)
Definition cur_entry : entry := {| e_name := cur_name; e_file := false |}.
Definition file_entry (fn : name) : entry := {| e_name := fn; e_file := true |}.

Lemma open_has_current d fn : has_name cur_name (open_file d fn) = true.
Proof.
  unfold open_file. destruct (has_name fn _); rewrite ?has_app; simpl; rewrite ?orb_true_r; auto.
Qed.

Lemma open_has_file d fn : has_name fn (open_file d fn) = true.
Proof.
  unfold open_file. destruct (has_name fn (del_name cur_name d ++ _)) eqn:E; auto.
  rewrite has_app. simpl. rewrite name_eqb_refl. rewrite orb_true_r. auto.
Qed.

Lemma open_keeps e d fn : In e d -> e_name e <> cur_name -> In e (open_file d fn).
Proof.
  intros I N. unfold open_file. destruct (has_name fn _); repeat (apply in_or_app; left);
    apply del_keeps; auto.
Qed.

Lemma open_sub e d fn : In e (open_file d fn) -> In e d \/ e = cur_entry \/ e = file_entry fn.
Proof.
  unfold open_file. destruct (has_name fn _); intros H;
    repeat (apply in_app_or in H as [H|H]); try (left; eapply del_in; eauto; fail);
    simpl in H; destruct H as [H|[]]; subst; auto.
Qed.

Lemma log_name_not_current p d : log_name p d <> cur_name.
Proof.
  intros H. apply (f_equal (fun l => last l 0%N)) in H. unfold log_name, dot_log in H.
  replace (p ++ [45%N] ++ d ++ [46%N; 108%N; 111%N; 103%N])
    with ((p ++ [45%N] ++ d ++ [46%N; 108%N; 111%N]) ++ [103%N]) in H
    by (rewrite <- !app_assoc; reflexivity).
  rewrite last_last in H. simpl in H. discriminate.
Qed.

Lemma own_not_current p e : own_log p e = true -> e_name e <> cur_name.
Proof.
  unfold own_log. intros H N. rewrite N in H. apply andb_true_iff in H as [H _].
  apply andb_true_iff in H as [_ H]. vm_compute in H. discriminate.
Qed.

(* ------------------------------------------------------------------ unique names (a real directory) *)
Definition names (d : dir) : list name := map e_name d.

Lemma has_name_names n d : has_name n d = true <-> In n (names d).
Proof.
  rewrite has_name_in. unfold names. rewrite in_map_iff. split; intros (e & A & B); exists e; auto.
Qed.

Lemma has_name_false n d : has_name n d = false <-> ~ In n (names d).
Proof.
  rewrite <- has_name_names. destruct (has_name n d); split; intros H; auto; try discriminate.
  exfalso; apply H; auto.
Qed.

Lemma nodup_snoc {A} (a : list A) x : NoDup a -> ~ In x a -> NoDup (a ++ [x]).
Proof.
  induction a as [|y r]; simpl; intros H N.
  - repeat constructor; auto.
  - inversion H; subst. constructor.
    + intros I. apply in_app_or in I as [I|[I|[]]]; auto.
    + apply IHr; auto.
Qed.

Lemma names_app a b : names (a ++ b) = names a ++ names b.
Proof. apply map_app. Qed.

Lemma del_names_sub n x d : In n (names (del_name x d)) -> In n (names d).
Proof.
  induction d as [|a r]; simpl; auto. destruct (name_eqb x (e_name a)); simpl; intros H; auto.
  destruct H; auto.
Qed.

Lemma del_nodup x d : NoDup (names d) -> NoDup (names (del_name x d)).
Proof.
  induction d as [|a r]; simpl; intros H; auto. inversion H; subst.
  destruct (name_eqb x (e_name a)); simpl; auto. constructor; auto.
  intros I. apply del_names_sub in I. contradiction.
Qed.

Lemma open_nodup d fn : NoDup (names d) -> NoDup (names (open_file d fn)).
Proof.
  intros H. unfold open_file.
  assert (NoDup (names (del_name cur_name d ++ [cur_entry]))) as H1.
  { rewrite names_app. simpl. apply nodup_snoc; [apply del_nodup; auto|].
    apply has_name_false. rewrite has_del. rewrite name_eqb_refl. auto. }
  fold cur_entry. destruct (has_name fn (del_name cur_name d ++ [cur_entry])) eqn:E; auto.
  rewrite names_app. simpl. apply nodup_snoc; auto. apply has_name_false; auto.
Qed.

Lemma filter_names_sub f n (d : dir) : In n (names (filter f d)) -> In n (names d).
Proof.
  induction d as [|a r]; simpl; auto. destruct (f a); simpl; intros H; auto. destruct H; auto.
Qed.

Lemma filter_nodup f (d : dir) : NoDup (names d) -> NoDup (names (filter f d)).
Proof.
  induction d as [|a r]; simpl; intros H; auto. inversion H; subst.
  destruct (f a); simpl; auto. constructor; auto. intros I. apply filter_names_sub in I. contradiction.
Qed.

Lemma insert_names n e l : In n (names (insert e l)) <-> n = e_name e \/ In n (names l).
Proof.
  unfold names. rewrite !in_map_iff. split.
  - intros (x & A & B). apply insert_in in B as [B|B]; subst; auto. right. exists x; auto.
  - intros [H|(x & A & B)].
    + exists e. split; auto. apply insert_in; auto.
    + exists x. split; auto. apply insert_in; auto.
Qed.

Lemma insert_nodup e l : NoDup (names l) -> ~ In (e_name e) (names l) -> NoDup (names (insert e l)).
Proof.
  induction l as [|a r]; simpl; intros H N.
  - constructor; auto.
  - inversion H; subst. destruct (entry_leb e a); simpl.
    + constructor; auto.
    + constructor.
      * intros I. apply insert_names in I as [I|I]; [apply N; left; auto|auto].
      * apply IHr; auto.
Qed.

Lemma sort_names n l : In n (names (sort l)) <-> In n (names l).
Proof.
  unfold names. rewrite !in_map_iff. split; intros (x & A & B); exists x; split; auto; apply sort_in; auto.
Qed.

Lemma sort_nodup l : NoDup (names l) -> NoDup (names (sort l)).
Proof.
  induction l as [|a r]; simpl; intros H; auto. inversion H; subst.
  apply insert_nodup; auto. rewrite sort_names. auto.
Qed.

Lemma listing_nodup p d : NoDup (names d) -> NoDup (names (listing p d)).
Proof. intros H. unfold listing. apply sort_nodup. apply filter_nodup. auto. Qed.

Lemma nodup_app_disjoint {A} (a b : list A) x : NoDup (a ++ b) -> In x a -> In x b -> False.
Proof.
  induction a as [|y r]; simpl; intros H Ia Ib; auto. inversion H; subst. destruct Ia as [Ia|Ia].
  - subst. apply H2. apply in_or_app; auto.
  - apply IHr; auto.
Qed.

(* in a directory with unique names an entry of the tail of the listing has no namesake in the head *)

(* ------------------------------------------------------------------ what a rollover does *)
Lemma name_ltb_irrefl a : name_ltb a a = false.
Proof. unfold name_ltb. rewrite name_leb_refl. reflexivity. Qed.

Lemma name_ltb_leb a b : name_ltb a b = true -> name_leb a b = true.
Proof. unfold name_ltb. intros H. apply negb_true_iff in H. apply name_leb_total; auto. Qed.

Lemma earlier_in fn files e : In e (earlier fn files) <-> In e files /\ name_ltb (e_name e) fn = true.
Proof. unfold earlier. apply filter_In. Qed.

Lemma filter_sorted (f : entry -> bool) l : StronglySorted R l -> StronglySorted R (filter f l).
Proof.
  induction l as [|a r]; simpl; intros H; [constructor|]. inversion H as [|? ? Hr Ha]; subst.
  destruct (f a); auto. constructor; auto.
  rewrite Forall_forall in *. intros x I. apply filter_In in I as [I _]. auto.
Qed.

Lemma earlier_sorted fn p d : StronglySorted R (earlier fn (listing p d)).
Proof. apply filter_sorted. apply listing_sorted. Qed.

(* every victim is an own log file of the directory dated before the file being written *)
Lemma victims_spec p n fn d e :
  In e (victims n (earlier fn (listing p d))) -> In e d /\ own_log p e = true /\ name_ltb (e_name e) fn = true.
Proof.
  unfold victims. intros I. apply in_firstn in I. apply earlier_in in I as [I L].
  apply listing_in in I as [I O]. auto.
Qed.

(* nothing but `current` and the file of the day is created; `current` is never removed *)
Lemma rollover_frame prefix n d date :
  (forall e, In e (do_rollover prefix n d date) -> In e (open_file d (log_name prefix date))) /\
  has_name cur_name (do_rollover prefix n d date) = true.
Proof.
  unfold do_rollover. destruct n as [|n].
  - split; auto. apply open_has_current.
  - split.
    + intros e. apply remove_loop_sub.
    + rewrite remove_loop_names, open_has_current. simpl andb.
      destruct (has_name cur_name (victims (S n) _)) eqn:E; auto.
      apply has_name_in in E as (e & I & N). apply victims_spec in I as (_ & O & _).
      apply own_not_current in O. contradiction.
Qed.

(* a name disappears iff it is the name of a victim *)
Lemma rollover_names prefix n d date nm :
  let fn := log_name prefix date in
  let d1 := open_file d fn in
  has_name nm (do_rollover prefix (S n) d date) =
  has_name nm d1 && negb (has_name nm (victims (S n) (earlier fn (listing prefix d1)))).
Proof. intros fn d1. unfold do_rollover. apply remove_loop_names. Qed.

(* an entry of the directory stays unless it is (the namesake of) a victim *)
Lemma rollover_keeps_entry prefix n d date e :
  let fn := log_name prefix date in
  let d1 := open_file d fn in
  In e d1 -> has_name (e_name e) (victims (S n) (earlier fn (listing prefix d1))) = false ->
  In e (do_rollover prefix (S n) d date).
Proof. intros fn d1 I H. unfold do_rollover. apply remove_loop_keeps_entry; auto. Qed.

(* in a directory with unique names: an entry which is no victim has no namesake among the victims *)
Lemma unique_entry (d : dir) x e : NoDup (names d) -> In x d -> In e d -> e_name x = e_name e -> x = e.
Proof.
  induction d as [|a r]; intros ND Ix Ie N; [destruct Ix|]. simpl in ND. inversion ND as [|? ? Na Nr]; subst.
  destruct Ix as [Ix|Ix], Ie as [Ie|Ie]; subst; auto.
  - exfalso. apply Na. rewrite N. unfold names. apply in_map; auto.
  - exfalso. apply Na. rewrite <- N. unfold names. apply in_map; auto.
Qed.

(* the file being written is never removed *)
Lemma rollover_keeps_written prefix n d date :
  has_name (log_name prefix date) (do_rollover prefix n d date) = true.
Proof.
  destruct n as [|n]; [apply open_has_file|].
  rewrite rollover_names, open_has_file. simpl andb.
  destruct (has_name (log_name prefix date) (victims (S n) _)) eqn:E; auto.
  apply has_name_in in E as (e & I & N). apply victims_spec in I as (_ & _ & L).
  rewrite N, name_ltb_irrefl in L. discriminate.
Qed.

(* entries that are not own log files dated before the file being written always stay: foreign files, sub-directories,
   links, the file being written, own log files dated later *)
Lemma rollover_keeps_others prefix n d date e :
  NoDup (names d) ->
  In e (open_file d (log_name prefix date)) ->
  own_log prefix e = false \/ name_ltb (e_name e) (log_name prefix date) = false ->
  In e (do_rollover prefix n d date).
Proof.
  intros ND I F. destruct n as [|n]; auto.
  apply rollover_keeps_entry; auto.
  destruct (has_name (e_name e) (victims (S n) _)) eqn:H; auto.
  apply has_name_in in H as (x & Ix & N). apply victims_spec in Ix as (Ix & O & L).
  assert (x = e) by (apply (unique_entry (open_file d (log_name prefix date))); auto; apply open_nodup; auto). subst x.
  destruct F as [F|F]; congruence.
Qed.

Lemma rollover_zero prefix d date :
  do_rollover prefix 0 d date = open_file d (log_name prefix date) /\
  (forall e, In e d -> e_name e <> cur_name -> In e (do_rollover prefix 0 d date)) /\
  has_name (log_name prefix date) (do_rollover prefix 0 d date) = true.
Proof.
  split; [reflexivity|]. split.
  - intros e I N. simpl. apply open_keeps; auto.
  - simpl. apply open_has_file.
Qed.

(* in a list with unique names an entry of the tail has no namesake in the head *)
Lemma kept_not_removed (files : list entry) k e :
  NoDup (names files) -> In e (skipn k files) -> has_name (e_name e) (firstn k files) = false.
Proof.
  intros ND I. apply has_name_false. intros I2.
  rewrite <- (firstn_skipn k files) in ND. rewrite names_app in ND.
  eapply nodup_app_disjoint; eauto. unfold names. apply in_map; auto.
Qed.

(* retention N = S n: the n newest earlier own log files are kept, the others -- all older -- are the victims *)
Lemma retention_earlier prefix n d date :
  let fn := log_name prefix date in
  let d1 := open_file d fn in
  let earl := earlier fn (listing prefix d1) in
  let removed := firstn (length earl - n) earl in
  let kept := skipn (length earl - n) earl in
  victims (S n) earl = removed /\
  length kept = Nat.min n (length earl) /\
  (forall r k, In r removed -> In k kept -> name_leb (e_name r) (e_name k) = true) /\
  (NoDup (names d) -> forall k, In k kept -> In k (do_rollover prefix (S n) d date)).
Proof.
  intros fn d1 earl removed kept.
  assert (victims (S n) earl = removed) as V.
  { unfold victims, removed. simpl. rewrite Nat.sub_0_r. reflexivity. }
  split; auto. split; [|split].
  - unfold kept. rewrite skipn_length. lia.
  - intros r k Ir Ik.
    apply (sorted_split earl (length earl - n) r k (earlier_sorted fn prefix d1) Ir Ik).
  - intros ND k Ik. apply rollover_keeps_entry.
    + apply in_skipn in Ik. apply earlier_in in Ik as [Ik _]. apply listing_in in Ik as [Ik _]. auto.
    + fold fn d1 earl. rewrite V. apply (kept_not_removed earl _ k); auto.
      unfold earl, earlier. apply filter_nodup. apply listing_nodup. apply open_nodup. auto.
Qed.
