(* C20 -- executable model of frappy remote logging (RemoteLogHandler.handle / set_conn_level / check_level,
   Module.setRemoteLogging, Dispatcher.handle_logging / set_all_log_levels / reset_connection /
   remove_connection) and of LogfileHandler.doRollover with retention (as repaired by 8755e5f, f977176, deef1e5; handle as repaired by 22ea150).  No proofs in this file.
   OFF and COMLOG come from the generated FV.Gen.C20. *)
From Coq Require Import List Arith ZArith Bool NArith.
Import ListNotations.
Require Import FV.Gen.C20.

Definition name := list N.           (* module names, level names, file names: code points *)
Definition conn := nat.              (* identity of a connection object *)

Fixpoint name_eqb (a b : name) : bool :=
  match a, b with
  | [], [] => true
  | x :: a', y :: b' => N.eqb x y && name_eqb a' b'
  | _, _ => false
  end.

Fixpoint mem_name (m : name) (l : list name) : bool :=
  match l with [] => false | x :: r => name_eqb m x || mem_name m r end.

(* ------------------------------------------------------------------ levels *)
(* mlzlog.LOGLEVELS (library data; the driver checks the table it sees at run time against log_levels) *)
Definition s_debug : name := [100;101;98;117;103]%N.
Definition s_info : name := [105;110;102;111]%N.
Definition s_warning : name := [119;97;114;110;105;110;103]%N.
Definition s_error : name := [101;114;114;111;114]%N.
Definition s_off : name := [111;102;102]%N.
Definition s_comlog : name := [99;111;109;108;111;103]%N.

(* LOG_LEVELS = dict(mlzlog.LOGLEVELS, off=OFF, comlog=COMLOG), in dict order *)
Definition log_levels : list (name * Z) :=
  [(s_debug, 10%Z); (s_info, 20%Z); (s_warning, 30%Z); (s_error, 40%Z); (s_off, OFF); (s_comlog, COMLOG)].

Fixpoint level_of_name (s : name) (t : list (name * Z)) : option Z :=
  match t with [] => None | (n, z) :: r => if name_eqb s n then Some z else level_of_name s r end.

(* LEVEL_NAMES = {v: k for k, v in LOG_LEVELS.items()}: a later item overrides an earlier one *)
Fixpoint name_of_level (z : Z) (t : list (name * Z)) : option name :=
  match t with
  | [] => None
  | (n, v) :: r => match name_of_level z r with
                   | Some n' => Some n'
                   | None => if Z.eqb z v then Some n else None
                   end
  end.
Definition level_name (z : Z) : option name := name_of_level z log_levels.

(* the level argument of a logging request, as python sees it *)
Inductive lvdata :=
| LStr (lowered : name)     (* a str; the argument is level.lower(), computed by python *)
| LNum (z : Z)              (* an int / bool, or a float equal to that int *)
| LOther                    (* any other hashable object: None, 2.5, nan, a tuple *)
| LUnhashable.              (* list / dict: `level in LEVEL_NAMES` raises TypeError *)

Inductive exn := EValue | EType | EKey.

(* check_level *)
Definition check_level (d : lvdata) : Z + exn :=
  match d with
  | LStr s => match level_of_name s log_levels with Some z => inl z | None => inr EValue end
  | LNum z => match level_name z with Some _ => inl z | None => inr EValue end
  | LOther => inr EValue
  | LUnhashable => inr EType
  end.

(* ------------------------------------------------------------------ RemoteLogHandler *)
(* self.subscriptions: dict[modname] of dict[conn] of level, both in insertion order *)
Definition subs := list (conn * Z).
Definition table := list (name * subs).

Fixpoint conn_set (c : conn) (lv : Z) (l : subs) : subs :=       (* subscriptions[conn] = level *)
  match l with
  | [] => [(c, lv)]
  | (c', x) :: r => if Nat.eqb c c' then (c', lv) :: r else (c', x) :: conn_set c lv r
  end.
Fixpoint conn_pop (c : conn) (l : subs) : subs :=                (* subscriptions.pop(conn, None) *)
  match l with
  | [] => []
  | (c', x) :: r => if Nat.eqb c c' then conn_pop c r else (c', x) :: conn_pop c r
  end.
Fixpoint conn_get (c : conn) (l : subs) : option Z :=
  match l with [] => None | (c', x) :: r => if Nat.eqb c c' then Some x else conn_get c r end.

(* subscriptions = self.subscriptions.setdefault(modname, {}); then f is applied to it *)
Fixpoint upd_mod (m : name) (f : subs -> subs) (t : table) : table :=
  match t with
  | [] => [(m, f [])]
  | (m', l) :: r => if name_eqb m m' then (m', f l) :: r else (m', l) :: upd_mod m f r
  end.
Fixpoint get_mod (m : name) (t : table) : option subs :=
  match t with [] => None | (m', l) :: r => if name_eqb m m' then Some l else get_mod m r end.

Definition set_conn_level (t : table) (m : name) (c : conn) (d : lvdata) : table * option exn :=
  match check_level d with
  | inr e => (t, Some e)
  | inl lv => (upd_mod m (if Z.eqb lv OFF then conn_pop c else conn_set c lv) t, None)
  end.

(* a message handed to send_log: (connection, module name, level name) *)
Definition delivery := (conn * name * name)%type.

(* levelname = LEVEL_NAMES.get(record.levelno) or record.levelname.lower(): a level number without SECoP name is sent
   under the (lower-cased) name python's logging module gives it; that name is data supplied with the record *)
Definition record_name (lv : Z) (pyname : name) : name :=
  match level_name lv with Some nm => nm | None => pyname end.

(* handle(record): for conn, lev in subscriptions.items(): if record.levelno >= lev: send_log(conn, modname, levelname, msg) *)
Fixpoint handle_loop (m nm : name) (lv : Z) (l : subs) : list delivery :=
  match l with
  | [] => []
  | (c, x) :: r => if Z.leb x lv then (c, m, nm) :: handle_loop m nm lv r else handle_loop m nm lv r
  end.
Definition handle (t : table) (m : name) (lv : Z) (pyname : name) : list delivery :=
  match get_mod m t with
  | None => []
  | Some l => handle_loop m (record_name lv pyname) lv l
  end.

(* ------------------------------------------------------------------ Dispatcher *)
(* set_all_log_levels: for modobj in secnode.modules.values(): modobj.setRemoteLogging(conn, level, send) *)
Fixpoint set_all (t : table) (mods : list name) (c : conn) (d : lvdata) : table * option exn :=
  match mods with
  | [] => (t, None)
  | m :: r => match set_conn_level t m c d with
              | (t', None) => set_all t' r c d
              | (t', Some e) => (t', Some e)
              end
  end.

(* `if specifier and specifier != '.'`: None, '' and '.' address all modules *)
Definition is_all (spec : option name) : bool :=
  match spec with
  | None => true
  | Some [] => true
  | Some [c] => N.eqb c 46%N
  | Some _ => false
  end.

Definition handle_logging (mods : list name) (t : table) (c : conn) (spec : option name) (d : lvdata)
  : table * option exn :=
  if is_all spec then set_all t mods c d
  else match spec with
       | Some m => if mem_name m mods then set_conn_level t m c d else (t, Some EKey)   (* secnode.modules[specifier] *)
       | None => (t, None)
       end.

(* reset_connection (called by handle__ident and by remove_connection): set_all_log_levels(conn, 'off') *)
Definition reset_connection (mods : list name) (t : table) (c : conn) : table * option exn :=
  set_all t mods c (LStr s_off).

Inductive op :=
| OLogging (c : conn) (spec : option name) (d : lvdata)   (* request `logging <spec> <level>` *)
| OEmit (m : name) (lv : Z) (pyname : name)                (* a record of module m with level number lv; pyname: record.levelname.lower() *)
| OIdent (c : conn)                                        (* request `*IDN?` *)
| ODisconnect (c : conn)                                   (* remove_connection *)
| OActivate (c : conn) (spec : option name)                (* request `activate [<module>[:<parameter>]]` (event subscriptions) *)
| ODeactivate (c : conn) (spec : option name).             (* request `deactivate [<module>[:<parameter>]]` *)

Definition step (mods : list name) (t : table) (o : op) : table * (list delivery * option exn) :=
  match o with
  | OLogging c spec d => let '(t', e) := handle_logging mods t c spec d in (t', ([], e))
  | OEmit m lv py => (t, (handle t m lv py, None))
  | OIdent c => let '(t', e) := reset_connection mods t c in (t', ([], e))
  | ODisconnect c => let '(t', e) := reset_connection mods t c in (t', ([], e))
  (* handle_activate / handle_deactivate work on Dispatcher._subscriptions / _active_connections (property C08) only:
     they do not call reset_connection / set_all_log_levels / setRemoteLogging (translator fact
     activation_handlers_leave_logging_alone, an obligation), so the subscription table of the log handler is not
     touched and no log message is sent.  Whether such a request is accepted or rejected (unknown module, data given)
     is C08's business: the exception component is None here and Run.v does not compare it for these two operations. *)
  | OActivate _ _ | ODeactivate _ _ => (t, ([], None))
  end.

(* the two requests about event subscriptions (not about logging) *)
Definition is_activation (o : op) : bool :=
  match o with OActivate _ _ | ODeactivate _ _ => true | _ => false end.

Definition run (mods : list name) (ops : list op) : table :=
  fold_left (fun t o => fst (step mods t o)) ops [].

(* ------------------------------------------------------------------ the node *)
(* secnode.modules in dict order; every module carries its `export` property (False: an internal module, e.g. a
   communicator, which does not appear in the description).  The dispatcher looks a named module up in secnode.modules
   (handle_logging) and set_all_log_levels iterates secnode.modules.values() WITHOUT a filter (translator fact
   set_all_iterates_all_modules, an obligation): the `mods` every function above ranges over is node_modules, the export
   flag plays no role in the routing.  node_exported is what the description shows; it is used by the specification side
   (a stop must cover the modules outside of it too) and by the variant of LemmasNode.v only. *)
Definition node := list (name * bool).
Definition node_modules (nd : node) : list name := map fst nd.
Definition node_exported (nd : node) : list name := map fst (filter snd nd).
Definition run_node (nd : node) (ops : list op) : table := run (node_modules nd) ops.

(* ------------------------------------------------------------------ LogfileHandler.doRollover *)
(* a directory entry: its name and whether it is a regular file (entry.is_file(follow_symlinks=False));
   sub-directories and symbolic links such as `current` are not *)
Record entry := { e_name : name; e_file : bool }.
Definition dir := list entry.

Definition cur_name : name := [99;117;114;114;101;110;116]%N.          (* 'current' *)
Definition dot_log : name := [46;108;111;103]%N.                        (* '.log' *)
Definition log_name (prefix date : name) : name := prefix ++ [45%N] ++ date ++ dot_log.

Fixpoint has_name (n : name) (d : dir) : bool :=
  match d with [] => false | e :: r => name_eqb n (e_name e) || has_name n r end.
Fixpoint del_name (n : name) (d : dir) : dir :=
  match d with [] => [] | e :: r => if name_eqb n (e_name e) then del_name n r else e :: del_name n r end.

(* _open: os.remove(current) (errors ignored), os.symlink(..., current) (errors ignored), open(file, 'a') *)
Definition open_file (d : dir) (fn : name) : dir :=
  let d1 := del_name cur_name d in
  let d2 := d1 ++ [{| e_name := cur_name; e_file := false |}] in
  if has_name fn d2 then d2 else d2 ++ [{| e_name := fn; e_file := true |}].

(* python str comparison: lexicographic on code points *)
Fixpoint name_leb (a b : name) : bool :=
  match a, b with
  | [], _ => true
  | _ :: _, [] => false
  | x :: a', y :: b' => if N.ltb x y then true else if N.eqb x y then name_leb a' b' else false
  end.
Definition entry_leb (a b : entry) : bool := name_leb (e_name a) (e_name b).

Fixpoint insert (e : entry) (l : list entry) : list entry :=
  match l with
  | [] => [e]
  | x :: r => if entry_leb e x then e :: x :: r else x :: insert e r
  end.
Fixpoint sort (l : list entry) : list entry :=
  match l with [] => [] | e :: r => insert e (sort r) end.

(* str.startswith / str.endswith *)
Fixpoint starts_with (s p : name) : bool :=
  match p, s with
  | [], _ => true
  | _ :: _, [] => false
  | x :: p', y :: s' => N.eqb x y && starts_with s' p'
  end.
Definition ends_with (s suffix : name) : bool := starts_with (rev s) (rev suffix).

(* entry.name.startswith(self.rootname + '-') and entry.name.endswith('.log') and entry.is_file(follow_symlinks=False) *)
Definition own_log (rootname : name) (e : entry) : bool :=
  starts_with (e_name e) (rootname ++ [45%N]) && ends_with (e_name e) dot_log && e_file e.

(* files = sorted(entry.path for entry in it if <own_log>) *)
Definition listing (rootname : name) (d : dir) : list entry := sort (filter (own_log rootname) d).

(* p < self.baseFilename on python strings *)
Definition name_ltb (a b : name) : bool := negb (name_leb b a).

(* earlier = [p for p in files if p < self.baseFilename] *)
Definition earlier (fn : name) (files : list entry) : list entry :=
  filter (fun e => name_ltb (e_name e) fn) files.

(* earlier[:max(0, len(earlier) - (max_days - 1))]   (max_days > 0; subtraction on nat stops at 0) *)
Definition victims (max_days : nat) (earl : list entry) : list entry :=
  firstn (length earl - (max_days - 1)) earl.

(* for filepath in ...: os.remove(filepath) -- every victim is a regular file *)
Fixpoint remove_loop (d : dir) (vs : list entry) : dir :=
  match vs with
  | [] => d
  | v :: r => remove_loop (del_name (e_name v) d) r
  end.

Definition do_rollover (rootname : name) (max_days : nat) (d : dir) (date : name) : dir :=
  let fn := log_name rootname date in
  let d1 := open_file d fn in
  match max_days with
  | 0 => d1
  | S _ => remove_loop d1 (victims max_days (earlier fn (listing rootname d1)))
  end.

Fixpoint rollovers (rootname : name) (max_days : nat) (d : dir) (dates : list name) : dir :=
  match dates with
  | [] => d
  | dt :: r => rollovers rootname max_days (do_rollover rootname max_days d dt) r
  end.
