(* C20 -- concurrent layer, emissions: handle takes an atomic snapshot of the module's dict and delivers from it.  For ALL
   programs and schedules: what a thread hands to send_log is exactly the concatenation of its emissions, each the
   messages the sequential handle computes from the table at the moment of the snapshot; hence a subscriber whose entry
   nobody writes between the start of the emission and the snapshot receives the record exactly once iff its level suffices. *)
From Coq Require Import List Arith ZArith Bool NArith Lia.
Import ListNotations.
Require Import FV.Gen.C20 FV.C20.Model FV.C20.ConcModel FV.C20.Lemmas FV.C20.LemmasConc.

Definition pend_at (st : cstate) (j : nat) : list delivery := l_pend (nth j (c_loc st) loc0).

Record einv (t0 : table) (st : cstate) : Prop := {
  ei_len : length (c_loc st) = length (c_progs st);
  ei_msgs : forall i, msgs_by i st ++ pend_at st i = flat_map em_msgs (emissions_by i st);
  ei_emis : forall e, In e (c_emis st) ->
              em_start e <= em_pos e /\ em_pos e <= length (lin st) /\
              em_table e = table_after t0 (firstn (em_pos e) (lin st)) /\
              em_found e = has_mod (em_mod e) (table_after t0 (firstn (em_start e) (lin st))) /\
              nth_error (lin st) (em_start e) = Some (em_thread e, AGet (em_mod e)) /\
              nth_error (lin st) (em_pos e) = Some (em_thread e, ASnap (em_lv e) (em_py e));
  ei_loc : forall i m f s, l_get (nth i (c_loc st) loc0) = Some (m, f, s) ->
              s <= length (lin st) /\ f = has_mod m (table_after t0 (firstn s (lin st))) /\
              nth_error (lin st) s = Some (i, AGet m)
}.

Lemma firstn_app_le {A} (l r : list A) n : n <= length l -> firstn n (l ++ r) = firstn n l.
Proof.
  intros H. rewrite firstn_app. replace (n - length l) with 0 by lia. simpl. apply app_nil_r.
Qed.

Lemma einv_init progs t0 : einv t0 (init progs t0).
Proof.
  constructor; simpl.
  - apply map_length.
  - intros i. unfold msgs_by, emissions_by, pend_at. simpl.
    destruct (nth_in_or_default i (map (fun _ : list aop => loc0) progs) loc0) as [I|D].
    + apply in_map_iff in I as (x & X & _). rewrite <- X. reflexivity.
    + rewrite D. reflexivity.
  - intros e [].
  - intros i m f s H.
    destruct (nth_in_or_default i (map (fun _ : list aop => loc0) progs) loc0) as [I|D].
    + apply in_map_iff in I as (x & X & _). rewrite <- X in H. discriminate.
    + rewrite D in H. discriminate.
Qed.

Lemma inv_table_after progs t0 st : inv progs t0 st -> c_table st = table_after t0 (lin st).
Proof. intros [IT _ _]. exact IT. Qed.

Lemma pend_nonempty_lt st i d pr : l_pend (nth i (c_loc st) loc0) = d :: pr -> i < length (c_loc st).
Proof.
  intros H. destruct (Nat.lt_ge_cases i (length (c_loc st))) as [L|G]; auto.
  rewrite nth_overflow in H by auto. discriminate.
Qed.

Lemma einv_step progs t0 st i : inv progs t0 st -> einv t0 st -> einv t0 (cstep st i).
Proof.
  intros I [EL EM EE EO]. pose proof (inv_table_after _ _ _ I) as IT.
  unfold cstep. destruct (l_pend (nth i (c_loc st) loc0)) as [|d pr] eqn:P.
  - (* a program step *)
    destruct (nth_error (c_progs st) i) as [[|a rest]|] eqn:E; try (constructor; auto; fail).
    destruct (enabled (c_lock st) a); [|constructor; auto].
    destruct (nth_error_nth _ _ _ [] E) as [_ LT]. rewrite <- EL in LT.
    set (lo := nth i (c_loc st) loc0) in *.
    assert (LIN : forall x, rev ((i, a) :: c_done st) = lin st ++ [x] -> x = (i, a)).
    { intros x H. simpl in H. apply app_inv_head in H. congruence. }
    assert (LEN : length (c_done st) = length (lin st)) by (unfold lin; rewrite rev_length; auto).
    constructor; simpl.
    + rewrite !set_nth_length. auto.
    + (* messages *)
      intros k. unfold msgs_by, pend_at, emissions_by. simpl.
      fold (msgs_by k st).
      destruct (Nat.eq_dec i k) as [->|N].
      * rewrite nth_set_nth_same by auto. fold lo.
        specialize (EM k). unfold pend_at in EM. fold lo in EM. rewrite P, app_nil_r in EM.
        destruct a; simpl; try (rewrite P, app_nil_r; exact EM).
        -- rewrite app_nil_r. exact EM.
        -- destruct (l_get lo) as [[[m f] s]|] eqn:G; simpl.
           ++ rewrite filter_app, flat_map_app. simpl. rewrite Nat.eqb_refl. simpl. rewrite app_nil_r.
              fold (emissions_by k st). rewrite <- EM. reflexivity.
           ++ rewrite P, app_nil_r. exact EM.
      * rewrite nth_set_nth_other by auto.
        assert (EQ : filter (fun e : emission => Nat.eqb (em_thread e) k) (rev (emis_after st i lo a)) = emissions_by k st).
        { unfold emis_after. destruct a; auto. destruct (l_get lo) as [[[m f] s]|]; auto.
          simpl. rewrite filter_app. simpl. apply Nat.eqb_neq in N. rewrite N. apply app_nil_r. }
        rewrite EQ. apply EM.
    + (* emissions *)
      intros e He.
      assert (OLD : In e (c_emis st) ->
                em_start e <= em_pos e /\ em_pos e <= length (lin st ++ [(i, a)]) /\
                em_table e = table_after t0 (firstn (em_pos e) (lin st ++ [(i, a)])) /\
                em_found e = has_mod (em_mod e) (table_after t0 (firstn (em_start e) (lin st ++ [(i, a)]))) /\
                nth_error (lin st ++ [(i, a)]) (em_start e) = Some (em_thread e, AGet (em_mod e)) /\
                nth_error (lin st ++ [(i, a)]) (em_pos e) = Some (em_thread e, ASnap (em_lv e) (em_py e))).
      { intros Ho. destruct (EE e Ho) as (A & B & C & D & G1 & G2). rewrite app_length. simpl.
        rewrite !firstn_app_le by lia.
        rewrite !nth_error_app1 by (apply nth_error_Some; congruence).
        repeat split; auto. lia. }
      unfold lin. simpl. fold (lin st).
      unfold emis_after in He. destruct a; auto.
      destruct (l_get lo) as [[[m f] s]|] eqn:G; auto.
      destruct He as [<-|Ho]; auto. simpl.
      destruct (EO i m f s G) as (S1 & S2 & S3). rewrite app_length. simpl. rewrite LEN.
      rewrite !firstn_app_le by lia. rewrite firstn_all.
      rewrite nth_error_app1 by (apply nth_error_Some; congruence).
      rewrite nth_error_app2 by lia. rewrite Nat.sub_diag. simpl.
      repeat split; auto; lia.
    + (* local states *)
      intros k m f s. unfold lin. simpl. fold (lin st). rewrite app_length. simpl.
      destruct (Nat.eq_dec i k) as [->|N].
      * rewrite nth_set_nth_same by auto. fold lo.
        assert (OLD : l_get lo = Some (m, f, s) ->
                  s <= length (lin st) + 1 /\ f = has_mod m (table_after t0 (firstn s (lin st ++ [(k, a)]))) /\
                  nth_error (lin st ++ [(k, a)]) s = Some (k, AGet m)).
        { intros G. destruct (EO k m f s G) as (S1 & S2 & S3). rewrite firstn_app_le by lia.
          rewrite nth_error_app1 by (apply nth_error_Some; congruence). split; auto. lia. }
        destruct a; simpl; auto.
        -- intros H. inversion H; subst. rewrite LEN. rewrite firstn_app_le by lia. rewrite firstn_all.
           rewrite nth_error_app2 by lia. rewrite Nat.sub_diag. simpl.
           split; [lia|]. rewrite IT. split; reflexivity.
        -- destruct (l_get lo) as [[[m' f'] s']|] eqn:G; simpl; auto. rewrite G. auto.
      * rewrite nth_set_nth_other by auto. intros G. destruct (EO k m f s G) as (S1 & S2 & S3).
        rewrite firstn_app_le by lia. rewrite nth_error_app1 by (apply nth_error_Some; congruence). split; auto. lia.
  - (* a message of the snapshot is sent *)
    pose proof (pend_nonempty_lt _ _ _ _ P) as LT.
    set (lo := nth i (c_loc st) loc0) in *.
    constructor; simpl; auto.
    + rewrite set_nth_length. auto.
    + intros k. unfold msgs_by, pend_at. simpl. rewrite filter_app, map_app. simpl.
      fold (msgs_by k st). specialize (EM k). unfold pend_at in EM.
      destruct (Nat.eq_dec i k) as [->|N].
      * rewrite Nat.eqb_refl. simpl. rewrite nth_set_nth_same by auto. simpl.
        fold lo in EM. rewrite P in EM. rewrite <- app_assoc. simpl. exact EM.
      * apply Nat.eqb_neq in N. rewrite N. simpl. rewrite app_nil_r. apply Nat.eqb_neq in N.
        rewrite nth_set_nth_other by auto. exact EM.
    + intros k m f s. destruct (Nat.eq_dec i k) as [->|N].
      * rewrite nth_set_nth_same by auto. simpl. fold lo. apply EO.
      * rewrite nth_set_nth_other by auto. apply EO.
Qed.

Lemma einv_run progs t0 sched : forall st, inv progs t0 st -> einv t0 st ->
  inv progs t0 (crun st sched) /\ einv t0 (crun st sched).
Proof.
  induction sched as [|i r]; intros st I E; simpl; auto.
  apply IHr; [apply inv_step | eapply einv_step]; eauto.
Qed.

Lemma einv_reach progs t0 sched :
  inv progs t0 (crun (init progs t0) sched) /\ einv t0 (crun (init progs t0) sched).
Proof. apply einv_run; [apply inv_init | apply einv_init]. Qed.

Lemma all_done_pend st i : all_done st = true -> pend_at st i = [].
Proof.
  unfold all_done, pend_at. intros H. apply andb_true_iff in H as [_ H]. rewrite forallb_forall in H.
  destruct (nth_in_or_default i (c_loc st) loc0) as [I|D].
  - specialize (H _ I). destruct (l_pend (nth i (c_loc st) loc0)); auto. discriminate.
  - rewrite D. reflexivity.
Qed.

(* ------------------------------------------------------------------ the theorems *)
Lemma key_run_untouched m c os : forall v,
  (forall o, In o os -> touches m c o = false) -> key_run m c os v = v.
Proof.
  induction os as [|o r]; intros v H; simpl; auto.
  unfold key_run in *. simpl. rewrite key_eff_untouched by (apply H; left; auto).
  apply IHr. intros o' I. apply H. right; auto.
Qed.

Lemma table_after_app t0 a b : table_after t0 (a ++ b) = apply_all (tops (map snd b)) (table_after t0 a).
Proof. unfold table_after. rewrite map_app, tops_app, apply_all_app. reflexivity. Qed.

Lemma chosen_stable t0 l0 seg m c :
  (forall o, In o (tops (map snd seg)) -> touches m c o = false) ->
  chosen (table_after t0 (l0 ++ seg)) m c = chosen (table_after t0 l0) m c.
Proof.
  intros H. rewrite table_after_app. rewrite <- !look_chosen. rewrite look_apply_all.
  apply key_run_untouched. exact H.
Qed.

Lemma table_after_wf t0 l : wf t0 -> wf (table_after t0 l).
Proof. intros W. apply apply_all_wf. exact W. Qed.

(* whatever the threads are and however they are scheduled: what thread i handed to send_log so far, followed by what is
   left of its current snapshot, is the concatenation of the messages of its emissions *)
Lemma emissions_exact progs t0 sched i :
  let st := crun (init progs t0) sched in
  msgs_by i st ++ pend_at st i = flat_map em_msgs (emissions_by i st).
Proof. intros st. destruct (einv_reach progs t0 sched) as [_ [_ EM _ _]]. apply EM. Qed.

Lemma emission_facts progs t0 sched e :
  let st := crun (init progs t0) sched in
  In e (c_emis st) ->
  em_start e <= em_pos e /\ em_pos e <= length (lin st) /\
  em_table e = table_after t0 (firstn (em_pos e) (lin st)) /\
  em_found e = has_mod (em_mod e) (table_after t0 (firstn (em_start e) (lin st))) /\
  nth_error (lin st) (em_start e) = Some (em_thread e, AGet (em_mod e)) /\
  nth_error (lin st) (em_pos e) = Some (em_thread e, ASnap (em_lv e) (em_py e)).
Proof. intros st. destruct (einv_reach progs t0 sched) as [_ [_ _ EE _]]. apply EE. Qed.

Lemma in_emissions_by i st e : In e (emissions_by i st) -> In e (c_emis st) /\ em_thread e = i.
Proof.
  unfold emissions_by. rewrite filter_In. intros [I E]. apply in_rev in I. apply Nat.eqb_eq in E. auto.
Qed.

(* an emission, seen from any moment l0 at or before its lookup: if nobody writes the entry (module, c) between that moment and
   the snapshot, c receives the record exactly once iff at that moment its level was at or below the record's level *)
Lemma emission_stable progs t0 sched e l0 seg c :
  wf t0 ->
  let st := crun (init progs t0) sched in
  In e (c_emis st) ->
  firstn (em_pos e) (lin st) = l0 ++ seg -> length l0 <= em_start e ->
  (forall o, In o (tops (map snd seg)) -> touches (em_mod e) c o = false) ->
  deliv_to c (em_msgs e) =
  expected (chosen (table_after t0 l0) (em_mod e) c) (em_mod e) (em_lv e) (em_py e) c.
Proof.
  intros W st I SPL LE ST.
  destruct (emission_facts progs t0 sched e I) as (A & B & C & D & _). fold st in B, C, D.
  unfold em_msgs. destruct (em_found e) eqn:F.
  - rewrite C, SPL. rewrite handle_exact by (apply table_after_wf; auto).
    rewrite chosen_stable by auto. reflexivity.
  - (* the lookup found no dict for the module: at that moment nobody was subscribed *)
    assert (S1 : firstn (em_start e) (lin st) = l0 ++ firstn (em_start e - length l0) seg).
    { replace (firstn (em_start e) (lin st)) with (firstn (em_start e) (firstn (em_pos e) (lin st))).
      - rewrite SPL, firstn_app. rewrite firstn_all2 by lia. reflexivity.
      - rewrite firstn_firstn. rewrite Nat.min_l by lia. reflexivity. }
    assert (N : chosen (table_after t0 (firstn (em_start e) (lin st))) (em_mod e) c = None).
    { unfold chosen, subs_of. symmetry in D. unfold has_mod in D.
      destruct (get_mod (em_mod e) (table_after t0 (firstn (em_start e) (lin st)))); [discriminate|reflexivity]. }
    rewrite S1 in N. rewrite chosen_stable in N.
    + rewrite N. reflexivity.
    + intros o Io. apply ST.
      rewrite <- (firstn_skipn (em_start e - length l0) seg). rewrite map_app, tops_app.
      apply in_or_app. left. exact Io.
Qed.

(* soundness: every message a thread hands to send_log belongs to one of its emissions and goes to a connection that was
   subscribed to the record's module at the moment of the snapshot with a level at or below the record's level *)
Lemma emission_sound progs t0 sched i c m nm :
  wf t0 ->
  let st := crun (init progs t0) sched in
  In (c, m, nm) (msgs_by i st) ->
  exists e, In e (emissions_by i st) /\ em_found e = true /\ m = em_mod e /\ nm = record_name (em_lv e) (em_py e) /\
            exists x, chosen (em_table e) m c = Some x /\ (x <= em_lv e)%Z.
Proof.
  intros W st I.
  assert (I2 : In (c, m, nm) (flat_map em_msgs (emissions_by i st))).
  { unfold st. rewrite <- emissions_exact. apply in_or_app. left. exact I. }
  apply in_flat_map in I2 as (e & Ie & Id). exists e. split; auto.
  destruct (in_emissions_by _ _ _ Ie) as [Ic _].
  destruct (emission_facts progs t0 sched e Ic) as (_ & _ & C & _). fold st in C.
  unfold em_msgs in Id. destruct (em_found e); [|destruct Id]. split; auto.
  assert (WT : wf (em_table e)) by (rewrite C; apply table_after_wf; auto).
  assert (I3 : In (c, m, nm) (deliv_to c (handle (em_table e) (em_mod e) (em_lv e) (em_py e)))).
  { apply in_deliv_to. split; auto. }
  rewrite handle_exact in I3 by auto. unfold expected in I3.
  destruct (chosen (em_table e) (em_mod e) c) as [x|] eqn:CH; [|destruct I3].
  destruct (Z.leb x (em_lv e)) eqn:L; [|destruct I3].
  destruct I3 as [H|[]]. inversion H; subst. split; auto. split; auto.
  exists x. split; auto. apply Z.leb_le. auto.
Qed.

(* when all threads have finished nothing is left to send *)
Lemma emissions_complete progs t0 sched i :
  let st := crun (init progs t0) sched in
  all_done st = true -> msgs_by i st = flat_map em_msgs (emissions_by i st).
Proof.
  intros st AD. unfold st. rewrite <- emissions_exact. fold st. rewrite all_done_pend by auto.
  symmetry. apply app_nil_r.
Qed.
