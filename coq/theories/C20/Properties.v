(* C20 -- property theorems only; each is closed by a lemma of Lemmas.v / LemmasRot.v.
   mods ranges over every set of modules of a node, ops over every history of logging requests, records,
   *IDN? and disconnects on any number of connections; d over every directory content. *)
From Coq Require Import List Arith ZArith Bool NArith Lia.
Import ListNotations.
Require Import FV.Gen.C20 FV.C20.Model FV.C20.ConcModel FV.C20.Lemmas FV.C20.LemmasRot FV.C20.LemmasConc FV.C20.LemmasProg FV.C20.LemmasEmit FV.C20.LemmasNode.

(* obligations on the facts regenerated from /repo (Gen/C20.v) *)
Theorem C20_source_facts :
  log_levels_table_shape = true /\ check_level_shape = true /\ handle_shape = true /\ handle_iterates_snapshot = true /\
  handle_compares_ge = true /\
  set_conn_level_shape = true /\ module_sets_own_name = true /\ set_all_iterates_all_modules = true /\
  handle_logging_shape = true /\ reset_sets_all_off = true /\ remove_calls_reset = true /\ ident_calls_reset = true /\
  send_log_msg_shape = true /\ activation_handlers_leave_logging_alone = true /\ rollover_guard_max_days = true /\ rollover_lists_own_logs = true /\
  rollover_removes_old_earlier = true /\
  handle_request_holds_lock = true /\ close_path_takes_no_lock = true /\ subscriptions_touched_in_three_places = true.
Proof. repeat split; reflexivity. Qed.

(* Routing, full strength and exact: after ANY history, the messages connection c gets for a record of module m
   with level number lv (python level name py) are exactly [expected]: one message (c, m, name of lv) if the latest
   deciding request of c for m (spec_choice: the specification, a scan of the history) chose a level x <= lv, nothing
   otherwise.  The name is the SECoP level name, or python's name for level numbers without one (critical, custom levels). *)
Theorem C20_routing_exact : forall mods ops m lv py c,
  deliv_to c (handle (run mods ops) m lv py) = expected (spec_choice mods (rev ops) m c) m lv py c.
Proof. intros; apply routing_exact. Qed.

(* The property sentence "receives a log message exactly when the module is enabled and the level is at or above
   the chosen one", for EVERY level number (was C20_routing_except_unnamed_level; the guard went away with 22ea150). *)
Theorem C20_routing : forall mods ops m lv py c,
  In (c, m, record_name lv py) (handle (run mods ops) m lv py) <->
  exists x, spec_choice mods (rev ops) m c = Some x /\ (x <= lv)%Z.
Proof. intros; apply routing_iff. Qed.

(* Switching off, re-identifying or disconnecting stops delivery: after a silencing operation of c for m, and as long
   as c sends no new logging request, no record of m reaches c, whatever everybody else does. *)
Theorem C20_stop : forall mods ops1 o ops2 m c lv py,
  silences mods o m c ->
  (forall o', In o' ops2 -> is_logging_by c o' = false) ->
  deliv_to c (handle (run mods (ops1 ++ o :: ops2)) m lv py) = [].
Proof. intros; apply stop_exact; assumption. Qed.

(* the three ways of stopping named in the property are silencing operations *)
Theorem C20_stop_ways : forall mods m c,
  mem_name m mods = true ->
  silences mods (OIdent c) m c /\ silences mods (ODisconnect c) m c /\
  (forall spec, targets mods spec m = true -> silences mods (OLogging c spec (LStr s_off)) m c).
Proof.
  intros mods m c M. split; [apply silences_ident; auto|]. split; [apply silences_disconnect; auto|].
  intros; apply silences_off; auto.
Qed.

(* A stop covers EVERY module.  nd: ANY node, a list of (module, export flag) -- exported modules, internal ones
   (export = False: not in the description, but `logging <name> <level>` accepts them, C20_internal_module_can_be_enabled)
   in any mix; o: *IDN? of c, disconnect of c, or a logging request of c addressing all modules (None, '', '.') with any
   spelling of the level off; ops1 / ops2: ANY history before / after in which c sends no new logging request afterwards.
   Then for every module name m -- exported, internal, or no module of the node at all -- connection c is subscribed to
   nothing and receives no record of any level.  (Holds because set_all_log_levels ranges over secnode.modules without a
   filter: obligation set_all_iterates_all_modules of C20_source_facts; C20_exported_only_stop_keeps_subscription shows what
   happens otherwise.) *)
Theorem C20_stop_covers_every_module : forall (nd : node) ops1 o ops2 c,
  stops_all o c ->
  (forall o', In o' ops2 -> is_logging_by c o' = false) ->
  forall m,
    chosen (run_node nd (ops1 ++ o :: ops2)) m c = None /\
    forall lv py, deliv_to c (handle (run_node nd (ops1 ++ o :: ops2)) m lv py) = [].
Proof. intros; apply stop_covers_every_module; assumption. Qed.

(* non-vacuity for internal modules, for all histories: a request naming an internal module with a valid level is accepted
   and subscribes the connection *)
Theorem C20_internal_module_can_be_enabled : forall (nd : node) ops c m d lv,
  In (m, false) nd -> is_all (Some m) = false -> check_level d = inl lv -> lv <> OFF ->
  chosen (run_node nd (ops ++ [OLogging c (Some m) d])) m c = Some lv.
Proof. intros; eapply internal_module_can_be_enabled; eauto. Qed.

(* Why `set_all_iterates_all_modules` is an obligation: the VARIANT in which the "all modules" operations (logging . <level>,
   the reset of *IDN? and disconnect) range over the exported modules only (LemmasNode.step_exported_only) is the same
   function on every node without internal modules -- no test on such a node can tell -- but there is a node and a history
   after which a connection that re-identified / switched everything off / disconnected is still subscribed to an internal
   module and keeps receiving its records. *)
Definition m_hidden : name := [104; 105; 100]%N.
Definition demo_node : node := [([109; 48]%N, true); (m_hidden, false)].
Theorem C20_exported_only_stop_keeps_subscription :
  (forall nd ops, forallb snd nd = true -> run_exported_only nd ops = run_node nd ops) /\
  (forall stop, In stop [OIdent 0; ODisconnect 0; OLogging 0 (Some [46%N]) (LStr s_off)] ->
     stops_all stop 0 /\
     let ops := [OLogging 0 (Some m_hidden) (LStr s_debug); stop] in
     handle (run_exported_only demo_node ops) m_hidden 20%Z s_info = [(0, m_hidden, s_info)] /\
     handle (run_node demo_node ops) m_hidden 20%Z s_info = []).
Proof.
  split; [intros; apply exported_only_same; assumption|].
  intros stop [E|[E|[E|[]]]]; subst stop; (split; [|vm_compute; auto]).
  - left; reflexivity.
  - right; left; reflexivity.
  - right; right. exists (Some [46%N]), (LStr s_off). repeat split; reflexivity.
Qed.

(* Other connections are unaffected: what c' receives over a whole history is what it receives in the history from
   which every request, *IDN? and disconnect of another connection c has been deleted. *)
Theorem C20_others_unaffected : forall mods c c' ops,
  c <> c' ->
  deliv_to c' (trace_from mods [] ops) =
  deliv_to c' (trace_from mods [] (filter (fun o => negb (by_conn c o)) ops)).
Proof. intros mods c c' ops N. apply noninterference; auto using wf_nil. Qed.

(* Only `logging ... off`, *IDN? and disconnect stop delivery -- `activate` / `deactivate` (event subscriptions) do not.
   Frame, for ALL node contents, ALL histories, any number of connections, activation requests with or without specifier
   (accepted or rejected) anywhere in the history:
   (1) each such request leaves the subscription table as it is, sends no log message;
   (2) the table after a history, every message sent during it, and what any later record delivers are those of the
       history with all activation requests deleted (without_activation = filter); inserting activation requests of
       anybody anywhere changes nothing;
   (3) a subscription (c chose level x for m) survives every continuation of the history that consists of activation
       requests of anybody and arbitrary operations of OTHER connections: c still receives the records of m at or above x.
   Rests on the obligation activation_handlers_leave_logging_alone of C20_source_facts (handle_activate / handle_deactivate
   reach neither reset_connection nor set_all_log_levels nor setRemoteLogging; seed C20-8 broke exactly that). *)
Theorem C20_activation_requests_do_not_touch_logging : forall mods,
  (forall t o, is_activation o = true -> step mods t o = (t, ([], None))) /\
  (forall ops,
     run mods ops = run mods (without_activation ops) /\
     trace_from mods [] ops = trace_from mods [] (without_activation ops) /\
     (forall m lv py, handle (run mods ops) m lv py = handle (run mods (without_activation ops)) m lv py) /\
     (forall m c, chosen (run mods ops) m c = spec_choice mods (rev (without_activation ops)) m c)) /\
  (forall ops1 acts ops2, forallb is_activation acts = true ->
     run mods (ops1 ++ acts ++ ops2) = run mods (ops1 ++ ops2)) /\
  (forall ops later m c x,
     chosen (run mods ops) m c = Some x ->
     (forall o, In o later -> is_activation o = true \/ by_conn c o = false) ->
     chosen (run mods (ops ++ later)) m c = Some x /\
     forall lv py, (x <= lv)%Z -> In (c, m, record_name lv py) (handle (run mods (ops ++ later)) m lv py)).
Proof.
  intros mods. split; [intros; apply step_activation; assumption|]. split; [|split].
  - intros ops. split; [apply run_without_activation|]. split; [apply trace_from_without_activation|]. split.
    + intros. rewrite <- run_without_activation. reflexivity.
    + intros. rewrite run_without_activation. apply run_refines_spec.
  - intros; apply run_insert_activation; assumption.
  - intros ops later m c x H A.
    pose proof (subscription_survives mods ops later m c x H A) as S. split; [exact S|].
    intros lv py L. apply routing_iff. exists x. split; [|exact L]. rewrite <- run_refines_spec. exact S.
Qed.

(* rejected requests (invalid level of any kind, unknown module) leave every subscription as it was *)
Theorem C20_rejected_request_no_effect : forall mods t c spec d,
  (forall e, check_level d = inr e -> fst (step mods t (OLogging c spec d)) = t) /\
  (forall s, spec = Some s -> is_all spec = false -> mem_name s mods = false ->
             step mods t (OLogging c spec d) = (t, ([], Some EKey))).
Proof.
  intros. split.
  - intros e H. eapply invalid_level_no_effect; eauto.
  - intros s E A M. subst. apply unknown_module_no_effect; auto.
Qed.

(* ------------------------------------------------------------------ concurrent layer (ConcModel.v).
   progs: ANY programs of ANY number of threads (atomic steps: lock acquire / release, the three in-place dict operations
   setdefault / item assignment / pop, reader steps of handle); sched: ANY schedule (list of thread numbers; a step of a
   finished thread or of one waiting for the lock is void). *)

(* Linearizability: because every mutation of a module's subscription dict is one atomic in-place operation on one key,
   after any schedule there is an order lin of the executed steps which (1) contains for every thread exactly the executed
   prefix of its program, in program order, (2) produces the table when its table operations are applied one after the
   other, and (3) the entry of every key (module, connection) is the result of the operations on that key alone, in that
   order -- independent of every operation on another key. *)
Theorem C20_routing_linearizable : forall progs t0 sched,
  let st := crun (init progs t0) sched in
  exists lin : list (nat * aop),
    (forall i, by_thread i lin ++ nth i (c_progs st) [] = nth i progs []) /\
    c_table st = apply_all (tops (map snd lin)) t0 /\
    (forall m c, look (c_table st) m c =
                 key_run m c (filter (touches m c) (tops (map snd lin))) (look t0 m c)).
Proof. intros; apply routing_linearizable. Qed.

(* hence: an entry written by one thread only is, once all threads have finished, what that thread's program alone leaves
   there when run sequentially -- for every schedule and whatever the other threads do *)
Theorem C20_entry_written_by_one_thread : forall progs t0 sched i m c,
  (forall j o, j <> i -> In o (tops (nth j progs [])) -> touches m c o = false) ->
  all_done (crun (init progs t0) sched) = true ->
  look (c_table (crun (init progs t0) sched)) m c = look (apply_all (tops (nth i progs [])) t0) m c.
Proof. intros; apply owner_determines; assumption. Qed.

(* The property after a concurrent phase.  pre: the sequential history before the threads start; thread i serves connection
   c with the history ops (conn_prog: requests under the dispatcher lock, remove_connection without it), no other thread
   writes an entry of c.  Once all threads have finished, what c receives for a record (m, lv) is exactly what the
   specification demands for c's own history pre ++ ops: one message iff its latest choice for m is a level <= lv; a closed
   or re-identified connection receives nothing. *)
Theorem C20_concurrent_routing : forall mods pre progs sched i c ops m lv py,
  nth i progs [] = conn_prog mods ops ->
  (forall j o m, j <> i -> In o (tops (nth j progs [])) -> touches m c o = false) ->
  all_done (crun (init progs (run mods pre)) sched) = true ->
  deliv_to c (handle (c_table (crun (init progs (run mods pre)) sched)) m lv py) =
  expected (spec_choice mods (rev (pre ++ ops)) m c) m lv py c.
Proof. intros; apply concurrent_routing with (i := i); assumption. Qed.

(* the program of a connection thread writes entries of its own connection only (so that the hypothesis above holds for
   every set of connection threads serving different connections, and for module threads, which write nothing) *)
Theorem C20_connection_thread_writes_own_entries : forall mods c ops o m' c',
  (forall op, In op ops -> by_conn c op = true) ->
  In o (tops (conn_prog mods ops)) -> c' <> c -> touches m' c' o = false.
Proof. intros; eapply conn_prog_touch; eauto. Qed.

(* Closing X and enabling Y on the same module commute: in ANY interleaving (with any other threads that do not write
   entries of X or Y) Y ends up subscribed with the level it asked for and X is removed from every module. *)
Theorem C20_close_and_enable_commute : forall mods pre others sched X Y m d lv,
  X <> Y -> mem_name m mods = true -> check_level d = inl lv -> lv <> OFF ->
  (forall p o m', In p others -> In o (tops p) -> touches m' X o = false /\ touches m' Y o = false) ->
  let progs := conn_prog mods [ODisconnect X] :: conn_prog mods [OLogging Y (Some m) d] :: others in
  let st := crun (init progs (run mods pre)) sched in
  all_done st = true ->
  chosen (c_table st) m Y = Some lv /\ forall m', chosen (c_table st) m' X = None.
Proof. intros; apply close_and_enable; assumption. Qed.

(* the hypothesis "all threads have finished" is satisfiable: connection threads (any histories), module threads (any
   records) and any further threads using the lock in a balanced way can always be scheduled to completion -- the lock cannot
   block for ever, every snapshot is delivered completely *)
Theorem C20_complete_schedule_exists :
  forall mods (hist : list (list op)) (recss : list (list (name * Z * name))) (others : list (list aop)) t0,
  Forall (fun p => balanced p = true) others ->
  exists sched,
    all_done (crun (init (map (conn_prog mods) hist ++ map emit_prog recss ++ others) t0) sched) = true.
Proof. intros; apply all_threads_complete; assumption. Qed.

(* Emissions (handle as repaired by 641822e: lookup, one-step snapshot of the module's dict, deliveries from the snapshot;
   every delivery is a step of its own, so writers run between the deliveries).  For ALL programs and schedules, once all
   threads have finished:
   (1) what thread i handed to send_log is exactly the concatenation of the messages of its emissions, in order -- nothing is
       lost (an emission never stops half way), nothing else is sent;
   (2) an emission e looked up its module at step em_start e and took its snapshot at step em_pos e of the executed
       sequence lin; its messages are what the sequential handle computes from the table at the snapshot;
   (3) seen from ANY moment l0 at or before the lookup: if no step between that moment and the snapshot writes the entry
       (module, c) -- in particular when nobody writes it during the emission -- connection c receives the record exactly once
       iff at that moment its level was at or below the record's level, and nothing otherwise.  Writes after the snapshot
       do not matter; writes of OTHER entries never matter. *)
Theorem C20_emission_complete_for_stable_subscribers : forall progs t0 sched i,
  wf t0 ->
  let st := crun (init progs t0) sched in
  all_done st = true ->
  msgs_by i st = flat_map em_msgs (emissions_by i st) /\
  forall e, In e (emissions_by i st) ->
    (em_start e <= em_pos e /\
     nth_error (lin st) (em_start e) = Some (i, AGet (em_mod e)) /\
     nth_error (lin st) (em_pos e) = Some (i, ASnap (em_lv e) (em_py e)) /\
     em_msgs e = if has_mod (em_mod e) (table_after t0 (firstn (em_start e) (lin st)))
                 then handle (table_after t0 (firstn (em_pos e) (lin st))) (em_mod e) (em_lv e) (em_py e) else []) /\
    forall l0 seg c,
      firstn (em_pos e) (lin st) = l0 ++ seg -> length l0 <= em_start e ->
      (forall o, In o (tops (map snd seg)) -> touches (em_mod e) c o = false) ->
      deliv_to c (em_msgs e) =
      expected (chosen (table_after t0 l0) (em_mod e) c) (em_mod e) (em_lv e) (em_py e) c.
Proof.
  intros progs t0 sched i W st AD. split; [apply emissions_complete; exact AD|].
  intros e Ie. destruct (in_emissions_by _ _ _ Ie) as [Ic Et].
  destruct (emission_facts progs t0 sched e Ic) as (A & B & C & D & G1 & G2). fold st in B, C, D, G1, G2.
  split.
  - rewrite Et in G1, G2. repeat split; auto. unfold em_msgs. rewrite D, C. reflexivity.
  - intros l0 seg c SPL LE ST. apply (emission_stable progs t0 sched e l0 seg c W Ic SPL LE ST).
Qed.

(* soundness, also while threads are still running: every message thread i handed to send_log belongs to one of its
   emissions and goes to a connection that was subscribed to the record's module at the moment of that snapshot with a level
   at or below the record's level, under the record's level name *)
Theorem C20_concurrent_delivery_sound : forall progs t0 sched i c m nm,
  wf t0 ->
  let st := crun (init progs t0) sched in
  In (c, m, nm) (msgs_by i st) ->
  exists e, In e (emissions_by i st) /\ em_found e = true /\ m = em_mod e /\ nm = record_name (em_lv e) (em_py e) /\
            exists x, chosen (em_table e) m c = Some x /\ (x <= em_lv e)%Z.
Proof. intros; apply emission_sound; assumption. Qed.

(* Rotation.  d ranges over every directory: any set of dated log files of the handler (earlier, same day, dated later), foreign
   files, sub-directories, links; "earlier" = own log file (regular file named <root>-*.log) whose name is below the name of the
   file being written; "newest" = greatest name (date order for zero padded dates). *)

(* whatever the retention: a rollover creates nothing but the `current` link and the file of the day, never removes the
   `current` link, and never removes the file being written *)
Theorem C20_rollover_frame : forall prefix n d date,
  (forall e, In e (do_rollover prefix n d date) -> In e (open_file d (log_name prefix date))) /\
  has_name cur_name (do_rollover prefix n d date) = true /\
  has_name (log_name prefix date) (do_rollover prefix n d date) = true.
Proof.
  intros. destruct (rollover_frame prefix n d date) as [A B]. split; auto. split; auto. apply rollover_keeps_written.
Qed.

(* "only older files are removed", first half: whatever is not an own log file dated before the file being written stays --
   foreign files, sub-directories such as comlog, links, own log files dated later, the file being written
   (were findings C20/rollover-removes-foreign and C20/rollover-later-dated-file) *)
Theorem C20_only_earlier_own_logs_removed : forall prefix n d date e,
  NoDup (names d) ->
  In e (open_file d (log_name prefix date)) ->
  own_log prefix e = false \/ name_ltb (e_name e) (log_name prefix date) = false ->
  In e (do_rollover prefix n d date).
Proof. intros; apply rollover_keeps_others; assumption. Qed.

(* retention 0: nothing is removed, the file of the day exists *)
Theorem C20_retention_zero_keeps_all : forall prefix d date,
  do_rollover prefix 0 d date = open_file d (log_name prefix date) /\
  (forall e, In e d -> e_name e <> cur_name -> In e (do_rollover prefix 0 d date)) /\
  has_name (log_name prefix date) (do_rollover prefix 0 d date) = true.
Proof. intros; apply rollover_zero. Qed.

(* The retention clause of the property at full strength, no guard: with retention N = S n, for EVERY directory, the file
   being written (C20_rollover_frame) and the N-1 = n newest earlier files (kept: min(n, number of earlier files) entries,
   all still present) are kept, and only older files are removed: a name disappears iff it belongs to [removed], every
   removed entry is an earlier own log file and sorts below every kept one.
   (Was C20_retention_only_older_removed + C20_retention_keeps_newest_except_later_dated_file; the guard went away with
   deef1e5.) *)
Theorem C20_retention : forall prefix n d date,
  let fn := log_name prefix date in
  let d1 := open_file d fn in
  let earl := earlier fn (listing prefix d1) in
  let removed := firstn (length earl - n) earl in
  let kept := skipn (length earl - n) earl in
  (forall nm, has_name nm (do_rollover prefix (S n) d date) = has_name nm d1 && negb (has_name nm removed)) /\
  length kept = Nat.min n (length earl) /\
  (NoDup (names d) -> forall k, In k kept -> In k (do_rollover prefix (S n) d date)) /\
  (forall r k, In r removed -> In k kept -> name_leb (e_name r) (e_name k) = true) /\
  (forall r, In r removed -> In r d1 /\ own_log prefix r = true /\ name_ltb (e_name r) fn = true).
Proof.
  intros prefix n d date fn d1 earl removed kept.
  destruct (retention_earlier prefix n d date) as (V & L & O & K). fold fn d1 earl removed kept in V, L, O, K.
  split; [|split; [|split; [|split]]]; auto.
  - intros nm. unfold fn, d1. rewrite rollover_names. fold fn d1 earl. rewrite V. reflexivity.
  - intros r Ir. apply (victims_spec prefix (S n) fn d1 r). fold earl. rewrite V. exact Ir.
Qed.

(* non-vacuity: a history with two connections in which every clause of the property is exercised *)
Definition mA : name := [109; 48]%N.
Definition mB : name := [109; 49]%N.
Definition s_critical : name := [99; 114; 105; 116; 105; 99; 97; 108]%N.
Definition demo_ops : list op :=
  [OLogging 0 (Some mA) (LStr s_debug); OLogging 1 None (LStr s_warning); OEmit mA 20%Z s_info; OEmit mB 30%Z s_warning;
   OLogging 0 (Some mA) (LStr s_off); OEmit mA 40%Z s_error; OIdent 1; OEmit mA 40%Z s_error;
   OLogging 1 (Some mB) (LStr s_error); OEmit mB 50%Z s_critical].
Example C20_demo :
  trace_from [mA; mB] [] demo_ops =
  [(0, mA, s_info); (1, mB, s_warning); (1, mA, s_error); (1, mB, s_critical)].
Proof. vm_compute. reflexivity. Qed.

(* non-vacuity of the activation frame: connection 0 enables mA, activates, deactivates (with and without specifier) --
   it still gets the record; connection 1 re-identified -- it does not *)
Example C20_demo_activation :
  trace_from [mA; mB] []
    [OLogging 0 (Some mA) (LStr s_debug); OLogging 1 None (LStr s_debug); OActivate 0 None; ODeactivate 0 (Some mA);
     ODeactivate 0 None; OIdent 1; OEmit mA 20%Z s_info] = [(0, mA, s_info)].
Proof. vm_compute. reflexivity. Qed.

(* non-vacuity of the concurrent theorems: connection 0 (subscribed to mA) closes while connection 1 enables mA; an
   interleaved schedule in which the close writes while the request holds the lock runs to completion *)
Definition demo_progs : list (list aop) :=
  [conn_prog [mA] [ODisconnect 0]; conn_prog [mA] [OLogging 1 (Some mA) (LStr s_info)]].
Example C20_demo_concurrent :
  let st := crun (init demo_progs (run [mA] [OLogging 0 (Some mA) (LStr s_debug)])) [1; 1; 0; 1; 0; 1] in
  all_done st = true /\ c_table st = [(mA, [(1, 20%Z)])].
Proof. vm_compute. auto. Qed.

(* connection 0 (debug) and 1 (info) are subscribed to mA; a module thread emits (mA, info) while connection 0 closes right
   after the snapshot: both get the record (connection 0 was still subscribed at the snapshot), the table ends without 0 *)
Example C20_demo_emission :
  let t0 := run [mA] [OLogging 0 (Some mA) (LStr s_debug); OLogging 1 (Some mA) (LStr s_info)] in
  let st := crun (init [conn_prog [mA] [ODisconnect 0]; emit_prog [(mA, 20%Z, s_info)]] t0) [1; 1; 0; 0; 1; 1] in
  all_done st = true /\ msgs_by 1 st = [(0, mA, s_info); (1, mA, s_info)] /\ c_table st = [(mA, [(1, 20%Z)])].
Proof. vm_compute. auto. Qed.

(* Why `set_conn_level_shape` is an obligation: a copy-on-write set_conn_level (copy the module's dict, change the copy,
   store it back: three steps, ConcModel.wstep) is equivalent single-threaded but loses updates.  Same scenario: run one
   after the other the two threads give [(1, 20)]; there is an interleaving after which connection 1, whose request was
   answered, is not subscribed, and one after which the closed connection 0 still is. *)
Definition cow_progs : list (list wop) := [cow_set_level 0 OFF mA; cow_set_level 1 20%Z mA].
Theorem C20_copy_on_write_loses_update :
  let t0 := [(mA, [(0, 10%Z)])] in
  w_table (wrun (winit cow_progs t0) [0; 0; 0; 1; 1; 1]) = [(mA, [(1, 20%Z)])] /\
  w_table (wrun (winit cow_progs t0) [1; 1; 1; 0; 0; 0]) = [(mA, [(1, 20%Z)])] /\
  (exists sched, let st := wrun (winit cow_progs t0) sched in
                 w_all_done st = true /\ look (w_table st) mA 1 = None) /\
  (exists sched, let st := wrun (winit cow_progs t0) sched in
                 w_all_done st = true /\ look (w_table st) mA 0 = Some 10%Z).
Proof.
  split; [vm_compute; reflexivity|]. split; [vm_compute; reflexivity|]. split.
  - exists [0; 1; 1; 1; 0; 0]. vm_compute. auto.
  - exists [1; 0; 0; 0; 1; 1]. vm_compute. auto.
Qed.

Definition frappy : name := [102; 114; 97; 112; 112; 121]%N.
Definition date_n (n : N) : name := [50; 48; 50; 52; 45; 48; 49; 45; 48; 48 + n]%N.   (* 2024-01-0n *)
Definition dated (n : N) : entry := {| e_name := log_name frappy (date_n n); e_file := true |}.

(* four earlier files, a later-dated file, a sub-directory, a foreign file and a link carrying a log name; retention 2 *)
Example C20_demo_rotation :
  map e_name (sort (do_rollover frappy 2
     [dated 1; dated 2; {| e_name := [99; 111; 109]%N; e_file := false |}; dated 3; dated 4; dated 9;
      {| e_name := [122; 122]%N; e_file := true |}; {| e_name := log_name frappy (date_n 0); e_file := false |}]
     (date_n 5))) =
  [[99; 111; 109]%N; cur_name; log_name frappy (date_n 0); log_name frappy (date_n 4); log_name frappy (date_n 5);
   log_name frappy (date_n 9); [122; 122]%N].
Proof. vm_compute. reflexivity. Qed.

Print Assumptions C20_source_facts.
Print Assumptions C20_routing_exact.
Print Assumptions C20_routing.
Print Assumptions C20_stop.
Print Assumptions C20_stop_ways.
Print Assumptions C20_stop_covers_every_module.
Print Assumptions C20_internal_module_can_be_enabled.
Print Assumptions C20_exported_only_stop_keeps_subscription.
Print Assumptions C20_others_unaffected.
Print Assumptions C20_rejected_request_no_effect.
Print Assumptions C20_activation_requests_do_not_touch_logging.
Print Assumptions C20_routing_linearizable.
Print Assumptions C20_entry_written_by_one_thread.
Print Assumptions C20_concurrent_routing.
Print Assumptions C20_connection_thread_writes_own_entries.
Print Assumptions C20_close_and_enable_commute.
Print Assumptions C20_complete_schedule_exists.
Print Assumptions C20_emission_complete_for_stable_subscribers.
Print Assumptions C20_concurrent_delivery_sound.
Print Assumptions C20_copy_on_write_loses_update.
Print Assumptions C20_rollover_frame.
Print Assumptions C20_only_earlier_own_logs_removed.
Print Assumptions C20_retention_zero_keeps_all.
Print Assumptions C20_retention.
