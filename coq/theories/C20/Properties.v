From Coq Require Import List Arith ZArith Bool Lia.
Import ListNotations.
Require Import FV.Gen.C20 FV.C20.Model.

Theorem C20_source_facts :
  log_levels_table_shape = true /\ check_level_shape = true /\ handle_shape = true /\ handle_compares_ge = true /\
  set_conn_level_shape = true /\ module_sets_own_name = true /\ set_all_iterates_all_modules = true /\
  handle_logging_shape = true /\ reset_sets_all_off = true /\ remove_calls_reset = true /\ ident_calls_reset = true /\
  send_log_msg_shape = true /\ rollover_guard_max_days = true.
Proof. repeat split; reflexivity. Qed.
Print Assumptions C20_source_facts.
