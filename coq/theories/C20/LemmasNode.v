(* C20 -- the node: internal modules (export = False) next to exported ones.  A stop (off for all modules, *IDN?,
   disconnect) covers EVERY module of the node, because set_all_log_levels ranges over secnode.modules without a filter
   (translator fact set_all_iterates_all_modules).  Second half: the VARIANT in which the "all modules" operations range
   over the exported modules only -- equivalent on nodes without internal modules, but a subscription to an internal module
   enabled by name survives every stop.  The variant is used for the witness only. *)
From Coq Require Import List Arith ZArith Bool NArith Lia.
Import ListNotations.
Require Import FV.Gen.C20 FV.C20.Model FV.C20.Lemmas.

(* the operations after which, by the property, nothing may reach connection c any more: re-identification, disconnect,
   switching off with a specifier addressing all modules (None, '', '.') and any spelling of the level OFF *)
Definition stops_all (o : op) (c : conn) : Prop :=
  o = OIdent c \/ o = ODisconnect c \/
  exists spec d, o = OLogging c spec d /\ is_all spec = true /\ check_level d = inl OFF.

Lemma stops_all_silences mods o c m : stops_all o c -> mem_name m mods = true -> silences mods o m c.
Proof.
  intros [E|[E|(spec & d & E & A & CL)]] M; subst.
  - apply silences_ident; auto.
  - apply silences_disconnect; auto.
  - unfold silences; simpl. rewrite Nat.eqb_refl, CL. unfold targets. rewrite A, M, Z.eqb_refl. reflexivity.
Qed.

(* a module of the node: silenced; a name that is no module of the node: never subscribed *)
Lemma spec_choice_after_stop mods o c m later older :
  stops_all o c -> (forall o', In o' later -> is_logging_by c o' = false) ->
  spec_choice mods (later ++ o :: older) m c = None.
Proof.
  intros S NL. destruct (mem_name m mods) eqn:M.
  - apply spec_choice_silent; auto. apply stops_all_silences; auto.
  - apply spec_choice_unknown_module; auto.
Qed.

Lemma stop_covers_every_module nd ops1 o ops2 c m :
  stops_all o c -> (forall o', In o' ops2 -> is_logging_by c o' = false) ->
  chosen (run_node nd (ops1 ++ o :: ops2)) m c = None /\
  forall lv py, deliv_to c (handle (run_node nd (ops1 ++ o :: ops2)) m lv py) = [].
Proof.
  intros S NL. unfold run_node.
  assert (spec_choice (node_modules nd) (rev (ops1 ++ o :: ops2)) m c = None) as Z0.
  { rewrite rev_app_distr. simpl. rewrite <- app_assoc. simpl. apply spec_choice_after_stop; auto.
    intros o' I. apply NL. apply in_rev; auto. }
  split.
  - rewrite run_refines_spec. exact Z0.
  - intros lv py. rewrite routing_exact, Z0. reflexivity.
Qed.

Lemma mem_name_in m l : In m l -> mem_name m l = true.
Proof.
  induction l as [|x r]; simpl; intros H; [destruct H|]. destruct H as [H|H].
  - subst. rewrite name_eqb_refl. reflexivity.
  - rewrite IHr by auto. apply orb_true_r.
Qed.

(* the statement above is not empty for internal modules: a request naming one is accepted and subscribes *)
Lemma internal_module_can_be_enabled nd ops c m d lv :
  In (m, false) nd -> is_all (Some m) = false -> check_level d = inl lv -> lv <> OFF ->
  chosen (run_node nd (ops ++ [OLogging c (Some m) d])) m c = Some lv.
Proof.
  intros I A CL NO. unfold run_node. rewrite run_refines_spec, rev_app_distr. simpl.
  rewrite Nat.eqb_refl, CL. unfold targets. rewrite A, name_eqb_refl.
  rewrite (mem_name_in m (node_modules nd)) by (unfold node_modules; change m with (fst (m, false)); apply in_map; auto).
  simpl. destruct (Z.eqb lv OFF) eqn:E; auto. apply Z.eqb_eq in E. contradiction.
Qed.

(* ------------------------------------------------------------------ VARIANT: "all modules" = the exported modules *)
Definition step_exported_only (nd : node) (t : table) (o : op) : table :=
  match o with
  | OLogging c spec d =>
      if is_all spec then fst (set_all t (node_exported nd) c d)
      else fst (handle_logging (node_modules nd) t c spec d)
  | OEmit _ _ _ => t
  | OIdent c | ODisconnect c => fst (set_all t (node_exported nd) c (LStr s_off))
  | OActivate _ _ | ODeactivate _ _ => t
  end.
Definition run_exported_only (nd : node) (ops : list op) : table := fold_left (step_exported_only nd) ops [].

Lemma all_exported_modules nd : forallb snd nd = true -> node_exported nd = node_modules nd.
Proof.
  unfold node_exported, node_modules. induction nd as [|[m b] r]; simpl; auto.
  intros H. apply andb_true_iff in H as [H1 H2]. simpl in H1. subst b. simpl. rewrite IHr; auto.
Qed.

Lemma step_exported_only_same nd t o :
  node_exported nd = node_modules nd -> step_exported_only nd t o = fst (step (node_modules nd) t o).
Proof.
  intros E. destruct o as [c spec d|m lv py|c|c|c sp|c sp]; simpl; auto.
  - unfold handle_logging. rewrite E. destruct (is_all spec).
    + destruct (set_all t (node_modules nd) c d); reflexivity.
    + destruct spec as [s|]; simpl; auto. destruct (mem_name s (node_modules nd)); simpl; auto.
      destruct (set_conn_level t s c d); reflexivity.
  - unfold reset_connection. rewrite E. destruct (set_all t (node_modules nd) c (LStr s_off)); reflexivity.
  - unfold reset_connection. rewrite E. destruct (set_all t (node_modules nd) c (LStr s_off)); reflexivity.
Qed.

(* on a node whose modules are all exported the variant cannot be told from the code as it is *)
Lemma exported_only_same nd ops : forallb snd nd = true -> run_exported_only nd ops = run_node nd ops.
Proof.
  intros H. pose proof (all_exported_modules nd H) as E.
  unfold run_exported_only, run_node, run. generalize (@nil (name * subs)) as t.
  induction ops as [|o r IH]; intros t; simpl; auto.
  rewrite (step_exported_only_same nd t o E). apply IH.
Qed.
