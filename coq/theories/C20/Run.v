(* C20 -- correspondence driver: a case carries the inputs and what the implementation did;
   check_case re-runs the model and compares. *)
From Coq Require Import List Arith ZArith Bool NArith.
Import ListNotations.
Require Import FV.Base.Util FV.Gen.C20 FV.C20.Model FV.C20.ConcModel.

(* exception classes as observed on the implementation *)
Inductive oexn := XValue | XType | XKey | XOther.
Definition exn_matches (e : option exn) (x : option oexn) : bool :=
  match e, x with
  | None, None => true
  | Some EValue, Some XValue | Some EType, Some XType | Some EKey, Some XKey => true
  | _, _ => false
  end.

(* per operation: exception class, and for every connection of the case the (module, level name) messages it got *)
Record robs := { r_exc : option oexn; r_sent : list (conn * list (name * name)) }.

Definition msg_eqb (a b : name * name) : bool := name_eqb (fst a) (fst b) && name_eqb (snd a) (snd b).

Definition to_conn (c : conn) (ds : list delivery) : list (name * name) :=
  map (fun d => (snd (fst d), snd d)) (filter (fun d => Nat.eqb (fst (fst d)) c) ds).

Definition robs_ok (r : list delivery * option exn) (o : robs) : bool :=
  exn_matches (snd r) (r_exc o)
  && forallb (fun p => list_eqb msg_eqb (to_conn (fst p) (fst r)) (snd p)) (r_sent o)
  && Nat.eqb (length (fst r)) (fold_left (fun n p => n + length (snd p)) (r_sent o) 0).

(* activate / deactivate requests: whether the dispatcher accepts them (unknown or internal module, unknown parameter)
   is decided by code of property C08, not modelled here; the exception class observed for such a request is therefore
   not compared.  Everything else is: no log message to anybody, the table untouched (every later emission is compared). *)
Definition obs_for (o : op) (ob : robs) : robs :=
  if is_activation o then {| r_exc := None; r_sent := r_sent ob |} else ob.

Fixpoint route_check (mods : list name) (t : table) (ops : list op) (os : list robs) : bool :=
  match ops, os with
  | [], [] => true
  | o :: ops', ob :: os' =>
      let '(t', r) := step mods t o in
      robs_ok r (obs_for o ob) && route_check mods t' ops' os'
  | _, _ => false
  end.

(* shorthand used by the case encoder for the names of dated log files, "<root>-YYYY-MM-DD.log" with zero padded decimal
   numbers (shorter shard files); the encoder uses it only for names that it reproduces exactly *)
Definition dig (n : N) : N := (48 + n mod 10)%N.
Definition date_str (y m d : N) : name :=
  [dig (y / 1000); dig (y / 100); dig (y / 10); dig y; 45; dig (m / 10); dig m; 45; dig (d / 10); dig d]%N.
Definition dlog (root : name) (y m d : N) : name := log_name root (date_str y m d).
Example dlog_example :
  dlog [102; 114]%N 2024 1 31 = [102; 114; 45; 50; 48; 50; 52; 45; 48; 49; 45; 51; 49; 46; 108; 111; 103]%N.
Proof. vm_compute. reflexivity. Qed.

(* short constructors for the case encoder *)
Definition ef (n : name) : entry := {| e_name := n; e_file := true |}.
Definition ed (n : name) : entry := {| e_name := n; e_file := false |}.
Definition rb (x : option oexn) (s : list (conn * list (name * name))) : robs := {| r_exc := x; r_sent := s |}.
Definition r0 : robs := rb None [].
(* a module of the node of a case: exported (export=True, the default) / internal (export=False) *)
Definition mx (n : name) : name * bool := (n, true).
Definition mh (n : name) : name * bool := (n, false).

(* the level table mlzlog + frappy give on the pinned tree, as a literal: cases whose observed table is this one refer to
   it by name (shorter shard files); it is still compared with the model's log_levels in every case *)
Definition std_levels : list (name * Z) :=
  [(s_debug, 10%Z); (s_info, 20%Z); (s_warning, 30%Z); (s_error, 40%Z); (s_off, 99%Z); (s_comlog, 15%Z)].

Definition lv_eqb (a b : name * Z) : bool := name_eqb (fst a) (fst b) && Z.eqb (snd a) (snd b).

Definition entry_eqb (a b : entry) : bool := name_eqb (e_name a) (e_name b) && Bool.eqb (e_file a) (e_file b).

(* one rollover: the date returned by time.strftime, whether doRollover raised, the sorted directory afterwards *)
Record rstep := { s_date : name; s_raised : bool; s_listing : list entry }.

Fixpoint rot_check (prefix : name) (n : nat) (d : dir) (steps : list rstep) : bool :=
  match steps with
  | [] => true
  | s :: r =>
      let d' := do_rollover prefix n d (s_date s) in
      negb (s_raised s) && list_eqb entry_eqb (sort d') (s_listing s) && rot_check prefix n d' r
  end.

(* ------------------------------------------------------------------ concurrent cases *)
Definition exn_eqb (a b : exn) : bool :=
  match a, b with EValue, EValue | EType, EType | EKey, EKey => true | _, _ => false end.

Definition top_eqb (a b : top) : bool :=
  match a, b with
  | TSetDefault m, TSetDefault m' => name_eqb m m'
  | TSet m c lv, TSet m' c' lv' => name_eqb m m' && Nat.eqb c c' && Z.eqb lv lv'
  | TPop m c, TPop m' c' => name_eqb m m' && Nat.eqb c c'
  | _, _ => false
  end.

(* what was observed on the implementation, one item per atomic operation, in the order they happened *)
Inductive oev :=
| OAcq | ORel (e : option exn) | OTab (o : top)
| OGet (m : name) (found : bool)          (* handle: self.subscriptions[modname] succeeded / raised KeyError *)
| OSkip                                   (* inserted by the encoder after a failed lookup: handle returned *)
| OSnap (m : name) (content : subs)       (* handle: items() of the module's dict was taken; its content at that moment *)
| OSend (c : conn) (m : name) (nm : name) (* a log message was handed to connection c *)
| OBad.                                   (* anything else *)

Definition subs_eqb (a b : subs) : bool := list_eqb (pair_eqb Nat.eqb Z.eqb) a b.
Definition table_eqb (a b : table) : bool := list_eqb (pair_eqb name_eqb subs_eqb) a b.
Definition delivery_eqb (a : delivery) (c : conn) (m nm : name) : bool :=
  Nat.eqb (fst (fst a)) c && name_eqb (snd (fst a)) m && name_eqb (snd a) nm.

(* a thread of a concurrent case: a connection thread (its operations, and the exception class every operation ended
   with on the implementation), or a module thread emitting records (m, lv, python level name) *)
Inductive cthread :=
| TConn (ops : list op) (excs : list (option oexn))
| TEmit (recs : list (name * Z * name)).

Definition op_exn (mods : list name) (o : op) : option exn :=
  match o with
  | OLogging c spec d => snd (logging_ops mods c spec d)
  | _ => None
  end.

Fixpoint excs_ok (mods : list name) (ops : list op) (xs : list (option oexn)) : bool :=
  match ops, xs with
  | [], [] => true
  | o :: ops', x :: xs' => exn_matches (op_exn mods o) x && excs_ok mods ops' xs'
  | _, _ => false
  end.

Definition thread_prog (mods : list name) (th : cthread) : list aop :=
  match th with TConn ops _ => conn_prog mods ops | TEmit recs => emit_prog recs end.
Definition thread_ok (mods : list name) (th : cthread) : bool :=
  match th with TConn ops xs => excs_ok mods ops xs | TEmit _ => true end.

(* does the observed operation agree with the step the model is going to make for this thread *)
Definition step_matches (s : cstate) (i : nat) (ev : oev) : bool :=
  let lo := nth i (c_loc s) loc0 in
  match l_pend lo with
  | d :: _ => match ev with OSend c m nm => delivery_eqb d c m nm | _ => false end
  | [] =>
      match nth_error (c_progs s) i with
      | Some (a :: _) =>
          enabled (c_lock s) a &&
          match a, ev with
          | AAcq, OAcq => true
          | ARel e, ORel e' => opt_eqb exn_eqb e e'
          | ATab o, OTab o' => top_eqb o o'
          | AGet m, OGet m' found => name_eqb m m' && Bool.eqb found (has_mod m (c_table s))
          | ASnap _ _, OSkip => match l_get lo with Some (_, false, _) => true | _ => false end
          | ASnap _ _, OSnap m content =>
              match l_get lo with
              | Some (m', true, _) => name_eqb m m' && subs_eqb (match get_mod m (c_table s) with Some l => l | None => [] end) content
              | _ => false
              end
          | _, _ => false
          end
      | _ => false
      end
  end.

(* one observed atomic operation (thread, operation): it must be the next step of that thread in the model, which the model
   then executes *)
Definition cstep_obs (sb : cstate * bool) (ev : nat * oev) : cstate * bool :=
  let '(s, ok) := sb in (cstep s (fst ev), ok && step_matches s (fst ev) (snd ev)).

Definition conc_final (mods : list name) (t0 : table) (threads : list cthread) (events : list (nat * oev)) : cstate * bool :=
  fold_left cstep_obs events (init (map (thread_prog mods) threads) t0, true).

Definition conc_check (mods : list name) (pre : list op) (pre_obs : list robs) (threads : list cthread)
    (events : list (nat * oev)) (final : table) (sweep : list op) (sweep_obs : list robs) : bool :=
  let t0 := run mods pre in
  let '(st, ok) := conc_final mods t0 threads events in
  route_check mods [] pre pre_obs
  && forallb (thread_ok mods) threads
  && ok && all_done st
  && match c_lock st with None => true | Some _ => false end
  && table_eqb (c_table st) final
  && route_check mods (c_table st) sweep sweep_obs.

Inductive case :=
| CRoute (levels : list (name * Z)) (nd : node) (ops : list op) (obs : list robs)
| CRot (prefix : name) (max_days : nat) (init : dir) (date0 : name) (listing0 : list entry) (steps : list rstep)
| CConc (levels : list (name * Z)) (nd : node) (pre : list op) (pre_obs : list robs) (threads : list cthread)
        (events : list (nat * oev)) (final : table) (sweep : list op) (sweep_obs : list robs).

Definition check_case (c : case) : bool :=
  match c with
  | CRoute levels nd ops obs =>
      (* named lookups and the "all modules" operations both range over secnode.modules = node_modules nd *)
      list_eqb lv_eqb levels log_levels && route_check (node_modules nd) [] ops obs
  | CRot prefix n init date0 l0 steps =>
      let d0 := open_file init (log_name prefix date0) in
      list_eqb entry_eqb (sort d0) l0 && rot_check prefix n d0 steps
  | CConc levels nd pre pre_obs threads events final sweep sweep_obs =>
      list_eqb lv_eqb levels log_levels && conc_check (node_modules nd) pre pre_obs threads events final sweep sweep_obs
  end.

(* what the model does, for diagnosis in replay files *)
Fixpoint route_trace (mods : list name) (t : table) (ops : list op) : list (list delivery * option exn) :=
  match ops with
  | [] => []
  | o :: r => let '(t', x) := step mods t o in x :: route_trace mods t' r
  end.
Fixpoint rot_trace (prefix : name) (n : nat) (d : dir) (steps : list rstep) : list (bool * list entry) :=
  match steps with
  | [] => []
  | s :: r => let d' := do_rollover prefix n d (s_date s) in
              (false, sort d') :: rot_trace prefix n d' r
  end.
Inductive model_out :=
| MRoute (x : list (list delivery * option exn))
| MRot (l0 : list entry) (x : list (bool * list entry))
| MConc (steps_followed : bool) (remaining : list (list aop)) (unsent : list (list delivery)) (t : table)
        (x : list (list delivery * option exn)).
Definition model_result (c : case) : model_out :=
  match c with
  | CRoute _ nd ops _ => MRoute (route_trace (node_modules nd) [] ops)
  | CRot prefix n init date0 _ steps =>
      let d0 := open_file init (log_name prefix date0) in MRot (sort d0) (rot_trace prefix n d0 steps)
  | CConc _ nd pre _ threads events _ sweep _ =>
      let mods := node_modules nd in
      let '(st, ok) := conc_final mods (run mods pre) threads events in
      MConc ok (c_progs st) (map l_pend (c_loc st)) (c_table st) (route_trace mods (c_table st) sweep)
  end.
