(* C20 -- correspondence driver: a case carries the inputs and what the implementation did;
   check_case re-runs the model and compares. *)
From Coq Require Import List Arith ZArith Bool NArith.
Import ListNotations.
Require Import FV.Base.Util FV.Gen.C20 FV.C20.Model.

(* exception classes as observed on the implementation *)
Inductive oexn := XValue | XType | XKey | XOther.
Definition exn_matches (e : option exn) (x : option oexn) : bool :=
  match e, x with
  | None, None => true
  | Some EValue, Some XValue | Some EType, Some XType | Some EKey, Some XKey => true
  | _, _ => false
  end.

(* per operation: exception class, and for every connection of the case the (module, level name) messages it got *)
Record robs := { r_exc : option oexn; r_sent : list (conn * list (name * name)) }.

Definition msg_eqb (a b : name * name) : bool := name_eqb (fst a) (fst b) && name_eqb (snd a) (snd b).

Definition to_conn (c : conn) (ds : list delivery) : list (name * name) :=
  map (fun d => (snd (fst d), snd d)) (filter (fun d => Nat.eqb (fst (fst d)) c) ds).

Definition robs_ok (r : list delivery * option exn) (o : robs) : bool :=
  exn_matches (snd r) (r_exc o)
  && forallb (fun p => list_eqb msg_eqb (to_conn (fst p) (fst r)) (snd p)) (r_sent o)
  && Nat.eqb (length (fst r)) (fold_left (fun n p => n + length (snd p)) (r_sent o) 0).

Fixpoint route_check (mods : list name) (t : table) (ops : list op) (os : list robs) : bool :=
  match ops, os with
  | [], [] => true
  | o :: ops', ob :: os' =>
      let '(t', r) := step mods t o in
      robs_ok r ob && route_check mods t' ops' os'
  | _, _ => false
  end.

Definition lv_eqb (a b : name * Z) : bool := name_eqb (fst a) (fst b) && Z.eqb (snd a) (snd b).

Definition entry_eqb (a b : entry) : bool := name_eqb (e_name a) (e_name b) && Bool.eqb (e_file a) (e_file b).

(* one rollover: the date returned by time.strftime, whether doRollover raised, the sorted directory afterwards *)
Record rstep := { s_date : name; s_raised : bool; s_listing : list entry }.

Fixpoint rot_check (prefix : name) (n : nat) (d : dir) (steps : list rstep) : bool :=
  match steps with
  | [] => true
  | s :: r =>
      let d' := do_rollover prefix n d (s_date s) in
      negb (s_raised s) && list_eqb entry_eqb (sort d') (s_listing s) && rot_check prefix n d' r
  end.

Inductive case :=
| CRoute (levels : list (name * Z)) (mods : list name) (ops : list op) (obs : list robs)
| CRot (prefix : name) (max_days : nat) (init : dir) (date0 : name) (listing0 : list entry) (steps : list rstep).

Definition check_case (c : case) : bool :=
  match c with
  | CRoute levels mods ops obs =>
      list_eqb lv_eqb levels log_levels && route_check mods [] ops obs
  | CRot prefix n init date0 l0 steps =>
      let d0 := open_file init (log_name prefix date0) in
      list_eqb entry_eqb (sort d0) l0 && rot_check prefix n d0 steps
  end.

(* what the model does, for diagnosis in replay files *)
Fixpoint route_trace (mods : list name) (t : table) (ops : list op) : list (list delivery * option exn) :=
  match ops with
  | [] => []
  | o :: r => let '(t', x) := step mods t o in x :: route_trace mods t' r
  end.
Fixpoint rot_trace (prefix : name) (n : nat) (d : dir) (steps : list rstep) : list (bool * list entry) :=
  match steps with
  | [] => []
  | s :: r => let d' := do_rollover prefix n d (s_date s) in
              (false, sort d') :: rot_trace prefix n d' r
  end.
Inductive model_out :=
| MRoute (x : list (list delivery * option exn))
| MRot (l0 : list entry) (x : list (bool * list entry)).
Definition model_result (c : case) : model_out :=
  match c with
  | CRoute _ mods ops _ => MRoute (route_trace mods [] ops)
  | CRot prefix n init date0 _ steps =>
      let d0 := open_file init (log_name prefix date0) in MRot (sort d0) (rot_trace prefix n d0 steps)
  end.
