(* C20 -- vacuity audit: every theorem of Properties.v applied to a concrete, non-trivial instance
   (two modules, an internal module, three connections, four threads with a contended lock, a directory with
   earlier / later / foreign entries).  Every Example below is proved BY the audited theorem (its premises are
   discharged on the instance), the values next to it are computed, so that the instance is seen to be non-degenerate. *)
From Coq Require Import List Arith ZArith Bool NArith Lia.
Import ListNotations.
Require Import FV.Gen.C20 FV.C20.Model FV.C20.ConcModel FV.C20.Lemmas FV.C20.LemmasRot FV.C20.LemmasConc
  FV.C20.LemmasProg FV.C20.LemmasEmit FV.C20.LemmasNode FV.C20.Properties.

(* a premise of the form: forall o, In o <concrete list> -> f o = <bool> *)
Ltac all_in :=
  let o := fresh "o" in let H := fresh "H" in
  intros o H; simpl in H;
  repeat (destruct H as [H|H]; [subst o; reflexivity|]); destruct H.

(* ------------------------------------------------------------------ sequential layer *)
Definition nv_mods : list name := [mA; mB].
Definition nv_hist : list op :=
  [OLogging 0 (Some mA) (LStr s_debug); OLogging 1 None (LStr s_warning); OEmit mA 20%Z s_info;
   OLogging 0 (Some mB) (LNum 40%Z); OLogging 1 (Some mA) (LStr s_off)].

(* C20_routing_exact has no premise; both sides are a non-empty list here, and an empty one for the connection that
   switched the module off *)
Example C20_routing_exact_applies :
  deliv_to 0 (handle (run nv_mods nv_hist) mA 20%Z s_info) = [(0, mA, s_info)] /\
  expected (spec_choice nv_mods (rev nv_hist) mA 0) mA 20%Z s_info 0 = [(0, mA, s_info)] /\
  deliv_to 1 (handle (run nv_mods nv_hist) mA 40%Z s_error) = [] /\
  deliv_to 1 (handle (run nv_mods nv_hist) mB 50%Z s_critical) = [(1, mB, s_critical)].
Proof.
  rewrite !C20_routing_exact. vm_compute. auto.
Qed.

(* C20_routing, both directions used *)
Example C20_routing_applies_if :
  In (0, mA, record_name 20%Z s_info) (handle (run nv_mods nv_hist) mA 20%Z s_info).
Proof. apply C20_routing. exists 10%Z. split; [vm_compute; reflexivity|lia]. Qed.

Example C20_routing_applies_only_if :
  exists x, spec_choice nv_mods (rev nv_hist) mB 1 = Some x /\ (x <= 50)%Z.
Proof. apply (C20_routing nv_mods nv_hist mB 50%Z s_critical 1). vm_compute. auto. Qed.

(* and the negative reading: connection 0 chose 40 for mB, a warning (30) is not delivered *)
Example C20_routing_applies_not :
  ~ In (0, mB, record_name 30%Z s_warning) (handle (run nv_mods nv_hist) mB 30%Z s_warning).
Proof.
  intros H. apply C20_routing in H. destruct H as (x & E & L). vm_compute in E. inversion E; subst x. lia.
Qed.

(* C20_stop: connection 0 receives before the stop, the history after the stop contains requests of another connection,
   records, a disconnect of the other connection and a re-identification of connection 0 itself *)
Definition nv_before : list op := [OLogging 0 (Some mA) (LStr s_debug); OLogging 1 None (LStr s_warning)].
Definition nv_after : list op :=
  [OLogging 1 (Some mA) (LStr s_debug); OEmit mA 40%Z s_error; ODisconnect 1; OIdent 0; OLogging 2 None (LNum 10%Z)].

Example C20_stop_applies :
  deliv_to 0 (handle (run nv_mods nv_before) mA 40%Z s_error) = [(0, mA, s_error)] /\
  deliv_to 0 (handle (run nv_mods (nv_before ++ OLogging 0 None (LStr s_off) :: nv_after)) mA 40%Z s_error) = [] /\
  deliv_to 2 (handle (run nv_mods (nv_before ++ OLogging 0 None (LStr s_off) :: nv_after)) mA 40%Z s_error)
    = [(2, mA, s_error)].
Proof.
  split; [vm_compute; reflexivity|]. split; [|vm_compute; reflexivity].
  apply C20_stop.
  - vm_compute. reflexivity.
  - all_in.
Qed.

Example C20_stop_ways_applies :
  silences nv_mods (OIdent 1) mB 1 /\ silences nv_mods (ODisconnect 1) mB 1 /\
  silences nv_mods (OLogging 1 (Some mB) (LStr s_off)) mB 1 /\
  silences nv_mods (OLogging 1 (Some [46%N]) (LStr s_off)) mB 1 /\
  silences nv_mods (OLogging 1 None (LStr s_off)) mB 1.
Proof.
  destruct (C20_stop_ways nv_mods mB 1) as (A & B & C); [vm_compute; reflexivity|].
  repeat split; auto; apply C; vm_compute; reflexivity.
Qed.

(* C20_stop_covers_every_module: a node with two exported modules and an internal one between them; connection 0 is
   subscribed to all three (the internal one by name), connection 1 too; all three kinds of stop *)
Definition nv_node : node := [(mA, true); (m_hidden, false); (mB, true)].
Definition nv_node_before : list op :=
  [OLogging 0 (Some m_hidden) (LStr s_debug); OLogging 0 None (LStr s_info); OLogging 1 None (LStr s_debug)].
Definition nv_node_after : list op :=
  [OLogging 1 (Some m_hidden) (LStr s_error); OEmit m_hidden 40%Z s_error; ODisconnect 0; OIdent 1].

Example C20_stop_covers_every_module_applies :
  chosen (run_node nv_node nv_node_before) m_hidden 0 = Some 20%Z /\
  forall stop, In stop [OIdent 0; ODisconnect 0; OLogging 0 (Some [46%N]) (LNum 99%Z)] ->
    chosen (run_node nv_node (nv_node_before ++ stop :: nv_node_after)) m_hidden 0 = None /\
    (forall lv py, deliv_to 0 (handle (run_node nv_node (nv_node_before ++ stop :: nv_node_after)) m_hidden lv py) = []) /\
    chosen (run_node nv_node (nv_node_before ++ stop :: nv_node_after)) mB 0 = None.
Proof.
  split; [vm_compute; reflexivity|].
  intros stop I.
  assert (stops_all stop 0) as S.
  { destruct I as [E|[E|[E|[]]]]; subst stop.
    - left; reflexivity.
    - right; left; reflexivity.
    - right; right. exists (Some [46%N]), (LNum 99%Z). repeat split; reflexivity. }
  assert (forall o', In o' nv_node_after -> is_logging_by 0 o' = false) as NL by all_in.
  split; [|split].
  - apply (C20_stop_covers_every_module nv_node nv_node_before stop nv_node_after 0 S NL m_hidden).
  - apply (C20_stop_covers_every_module nv_node nv_node_before stop nv_node_after 0 S NL m_hidden).
  - apply (C20_stop_covers_every_module nv_node nv_node_before stop nv_node_after 0 S NL mB).
Qed.

(* the other connection is still subscribed to the internal module after the stop of connection 0: the stop did not
   empty the table *)
Example C20_stop_covers_every_module_table_not_empty :
  deliv_to 1 (handle (run_node nv_node (nv_node_before ++ [OIdent 0; OLogging 1 (Some m_hidden) (LStr s_error)]))
                     m_hidden 40%Z s_error) = [(1, m_hidden, s_error)].
Proof. vm_compute. reflexivity. Qed.

Example C20_internal_module_can_be_enabled_applies :
  chosen (run_node nv_node (nv_node_before ++ [OIdent 0] ++ [OLogging 0 (Some m_hidden) (LStr s_debug)])) m_hidden 0
    = Some 10%Z /\
  chosen (run_node nv_node (nv_hist ++ [OLogging 3 (Some m_hidden) (LNum 15%Z)])) m_hidden 3 = Some 15%Z.
Proof.
  split.
  - apply (C20_internal_module_can_be_enabled nv_node (nv_node_before ++ [OIdent 0]) 0 m_hidden (LStr s_debug) 10%Z).
    + simpl. auto.
    + reflexivity.
    + vm_compute. reflexivity.
    + intros H. vm_compute in H. discriminate H.
  - apply (C20_internal_module_can_be_enabled nv_node nv_hist 3 m_hidden (LNum 15%Z) 15%Z).
    + simpl. auto.
    + reflexivity.
    + vm_compute. reflexivity.
    + intros H. vm_compute in H. discriminate H.
Qed.

(* first conjunct of C20_exported_only_stop_keeps_subscription: a node of exported modules only, a history with stops *)
Example C20_exported_only_same_applies :
  run_exported_only [(mA, true); (mB, true)] (nv_hist ++ [OIdent 1; OLogging 1 (Some mB) (LStr s_error)])
    = run_node [(mA, true); (mB, true)] (nv_hist ++ [OIdent 1; OLogging 1 (Some mB) (LStr s_error)]) /\
  run_node [(mA, true); (mB, true)] (nv_hist ++ [OIdent 1; OLogging 1 (Some mB) (LStr s_error)])
    = [(mA, [(0, 10%Z)]); (mB, [(0, 40%Z); (1, 40%Z)])].
Proof.
  split.
  - apply C20_exported_only_stop_keeps_subscription. reflexivity.
  - vm_compute. reflexivity.
Qed.

(* C20_others_unaffected on the demo history of Properties.v: connection 1 receives three messages, the deleted
   operations of connection 0 are two requests *)
Example C20_others_unaffected_applies :
  deliv_to 1 (trace_from nv_mods [] demo_ops) =
    deliv_to 1 (trace_from nv_mods [] (filter (fun o => negb (by_conn 0 o)) demo_ops)) /\
  deliv_to 1 (trace_from nv_mods [] demo_ops) = [(1, mB, s_warning); (1, mA, s_error); (1, mB, s_critical)] /\
  length (filter (fun o => negb (by_conn 0 o)) demo_ops) + 2 = length demo_ops.
Proof.
  split; [apply C20_others_unaffected; discriminate|]. split; vm_compute; reflexivity.
Qed.

(* C20_rejected_request_no_effect: all three kinds of invalid level, unknown module; on a non-empty table *)
Definition s_verbose : name := [118; 101; 114; 98; 111; 115; 101]%N.
Example C20_rejected_request_no_effect_applies :
  let t := run nv_mods nv_hist in
  t <> [] /\
  fst (step nv_mods t (OLogging 0 None LOther)) = t /\
  fst (step nv_mods t (OLogging 0 (Some mA) (LStr s_verbose))) = t /\
  fst (step nv_mods t (OLogging 0 None (LNum 25%Z))) = t /\
  fst (step nv_mods t (OLogging 0 None LUnhashable)) = t /\
  step nv_mods t (OLogging 0 (Some s_verbose) (LStr s_off)) = (t, ([], Some EKey)).
Proof.
  intros t. split; [vm_compute; discriminate|].
  split; [apply (C20_rejected_request_no_effect nv_mods t 0 None LOther) with (e := EValue); reflexivity|].
  split; [apply (C20_rejected_request_no_effect nv_mods t 0 (Some mA) (LStr s_verbose)) with (e := EValue); reflexivity|].
  split; [apply (C20_rejected_request_no_effect nv_mods t 0 None (LNum 25%Z)) with (e := EValue); reflexivity|].
  split; [apply (C20_rejected_request_no_effect nv_mods t 0 None LUnhashable) with (e := EType); reflexivity|].
  apply (C20_rejected_request_no_effect nv_mods t 0 (Some s_verbose) (LStr s_off)) with (s := s_verbose); reflexivity.
Qed.

(* C20_activation_requests_do_not_touch_logging: a history in which both connections are subscribed and activation
   requests of both (with / without specifier) are interleaved with logging requests and records; the table is not
   empty, messages are sent; the fourth clause with a continuation containing activation requests of the subscribed
   connection 0 itself AND a disconnect, an ident and a logging request of connection 1 *)
Definition nv_act_hist : list op :=
  [OLogging 0 (Some mA) (LStr s_debug); OActivate 0 None; OLogging 1 None (LStr s_warning); ODeactivate 0 (Some mA);
   OEmit mA 30%Z s_warning; ODeactivate 0 None; OActivate 1 (Some mB); OEmit mA 20%Z s_info].
Definition nv_act_later : list op :=
  [ODeactivate 0 None; OLogging 1 None (LStr s_off); OActivate 0 (Some mB); ODisconnect 1; OEmit mB 40%Z s_error;
   OIdent 1; ODeactivate 1 None].
Example C20_activation_requests_do_not_touch_logging_applies :
  without_activation nv_act_hist =
    [OLogging 0 (Some mA) (LStr s_debug); OLogging 1 None (LStr s_warning); OEmit mA 30%Z s_warning; OEmit mA 20%Z s_info] /\
  run nv_mods nv_act_hist = run nv_mods (without_activation nv_act_hist) /\
  run nv_mods nv_act_hist = [(mA, [(0, 10%Z); (1, 30%Z)]); (mB, [(1, 30%Z)])] /\
  trace_from nv_mods [] nv_act_hist = trace_from nv_mods [] (without_activation nv_act_hist) /\
  trace_from nv_mods [] nv_act_hist = [(0, mA, s_warning); (1, mA, s_warning); (0, mA, s_info)] /\
  run nv_mods (nv_before ++ [ODeactivate 0 None; OActivate 1 None] ++ nv_after) = run nv_mods (nv_before ++ nv_after) /\
  chosen (run nv_mods (nv_act_hist ++ nv_act_later)) mA 0 = Some 10%Z /\
  In (0, mA, record_name 20%Z s_info) (handle (run nv_mods (nv_act_hist ++ nv_act_later)) mA 20%Z s_info) /\
  chosen (run nv_mods (nv_act_hist ++ nv_act_later)) mA 1 = None.
Proof.
  destruct (C20_activation_requests_do_not_touch_logging nv_mods) as (_ & F & I & S).
  destruct (F nv_act_hist) as (F1 & F2 & _ & _).
  split; [vm_compute; reflexivity|]. split; [exact F1|]. split; [vm_compute; reflexivity|].
  split; [exact F2|]. split; [vm_compute; reflexivity|].
  split; [apply I; reflexivity|].
  assert (forall o, In o nv_act_later -> is_activation o = true \/ by_conn 0 o = false) as A.
  { intros o H. simpl in H.
    repeat (destruct H as [H|H]; [subst o; first [left; reflexivity|right; reflexivity]|]). destruct H. }
  destruct (S nv_act_hist nv_act_later mA 0 10%Z) as [S1 S2]; [vm_compute; reflexivity|exact A|].
  split; [exact S1|]. split; [apply S2; lia|]. vm_compute. reflexivity.
Qed.

(* ------------------------------------------------------------------ concurrent layer *)
(* four threads on two modules: thread 0 closes connection 0 (no lock), thread 1 serves connection 1 (three requests
   under the lock), thread 2 is a module thread emitting two records, thread 3 serves connection 2 (an IDN request and a logging
   request under the lock).  Before the threads start connection 0 is subscribed to mA and connection 2 to both modules. *)
Definition nv_pre : list op := [OLogging 0 (Some mA) (LStr s_debug); OLogging 2 None (LStr s_warning)].
Definition nv_ops1 : list op :=
  [OLogging 1 (Some mA) (LStr s_info); OLogging 1 None (LStr s_error); OLogging 1 (Some mB) (LStr s_off)].
Definition nv_ops3 : list op := [OIdent 2; OLogging 2 (Some mB) (LNum 10%Z)].
Definition nv_progs : list (list aop) :=
  [conn_prog nv_mods [ODisconnect 0]; conn_prog nv_mods nv_ops1;
   emit_prog [(mA, 20%Z, s_info); (mB, 40%Z, s_error)]; conn_prog nv_mods nv_ops3].
Definition nv_t0 : table := run nv_mods nv_pre.
(* thread 1 takes the lock, thread 3 tries and has to wait, the close and the emission run meanwhile; round robin *)
Definition nv_sched : list nat := concat (repeat [1; 3; 0; 2] 40).
Definition nv_st : cstate := crun (init nv_progs nv_t0) nv_sched.

(* the schedule is a real interleaving: after [1; 3] thread 1 holds the lock and the step of thread 3 was void (lock
   contended); after 12 steps threads 0, 1, 2 have executed three steps each, thread 3 still waits, none has finished; at the end
   all are done and every thread has executed its whole program *)
Example nv_schedule_facts :
  (let s := crun (init nv_progs nv_t0) [1; 3] in
   c_lock s = Some 1 /\ nth 3 (c_progs s) [] = nth 3 nv_progs [] /\ length (c_done s) = 1) /\
  (let s := crun (init nv_progs nv_t0) (firstn 12 nv_sched) in
   map (fun i => length (by_thread i (lin s))) [0; 1; 2; 3] = [3; 3; 3; 0] /\
   forallb (fun p => match p with [] => false | _ => true end) (c_progs s) = true) /\
  all_done nv_st = true /\
  map (fun i => length (by_thread i (lin nv_st))) [0; 1; 2; 3] = [4; 14; 4; 10] /\
  c_table nv_st = [(mA, [(1, 40%Z)]); (mB, [(2, 10%Z)])] /\
  msgs_by 2 nv_st = [(2, mB, s_error)].
Proof. vm_compute. auto 10. Qed.

(* C20_routing_linearizable has no premise; on this run the order it yields has 32 steps of four threads *)
Example C20_routing_linearizable_applies :
  exists lin : list (nat * aop),
    (forall i, by_thread i lin ++ nth i (c_progs nv_st) [] = nth i nv_progs []) /\
    c_table nv_st = apply_all (tops (map snd lin)) nv_t0 /\
    (forall m c, look (c_table nv_st) m c = key_run m c (filter (touches m c) (tops (map snd lin))) (look nv_t0 m c)).
Proof. apply (C20_routing_linearizable nv_progs nv_t0 nv_sched). Qed.

(* the same in the middle of the run (12 steps, lock held, nobody finished) *)
Example C20_routing_linearizable_applies_midway :
  let st := crun (init nv_progs nv_t0) (firstn 12 nv_sched) in
  exists lin : list (nat * aop),
    (forall i, by_thread i lin ++ nth i (c_progs st) [] = nth i nv_progs []) /\
    c_table st = apply_all (tops (map snd lin)) nv_t0 /\
    (forall m c, look (c_table st) m c = key_run m c (filter (touches m c) (tops (map snd lin))) (look nv_t0 m c)).
Proof. apply (C20_routing_linearizable nv_progs nv_t0 (firstn 12 nv_sched)). Qed.

(* C20_connection_thread_writes_own_entries discharges the premise "nobody else writes the entries of connection 1"
   of the next two theorems for the connection threads 0 and 3; the module thread 2 writes nothing *)
Lemma nv_others_leave_conn1 : forall j o m, j <> 1 -> In o (tops (nth j nv_progs [])) -> touches m 1 o = false.
Proof.
  intros j o m N I. destruct j as [|[|[|[|j]]]].
  - apply (C20_connection_thread_writes_own_entries nv_mods 0 [ODisconnect 0] o m 1); [all_in|exact I|discriminate].
  - congruence.
  - vm_compute in I. destruct I.
  - apply (C20_connection_thread_writes_own_entries nv_mods 2 nv_ops3 o m 1); [all_in|exact I|discriminate].
  - unfold nv_progs in I. simpl in I. destruct j; destruct I.
Qed.

Example C20_connection_thread_writes_own_entries_applies :
  touches mB 1 (TPop mB 2) = false /\ In (TPop mB 2) (tops (conn_prog nv_mods nv_ops3)).
Proof.
  split; [|vm_compute; auto 10].
  apply (C20_connection_thread_writes_own_entries nv_mods 2 nv_ops3 (TPop mB 2) mB 1); [all_in|vm_compute; auto 10|discriminate].
Qed.

Example C20_entry_written_by_one_thread_applies :
  look (c_table nv_st) mA 1 = look (apply_all (tops (nth 1 nv_progs [])) nv_t0) mA 1 /\
  look (c_table nv_st) mA 1 = Some 40%Z /\ look nv_t0 mA 1 = None.
Proof.
  split; [|vm_compute; auto].
  apply (C20_entry_written_by_one_thread nv_progs nv_t0 nv_sched 1 mA 1).
  - intros j o N I. apply (nv_others_leave_conn1 j o mA N I).
  - vm_compute. reflexivity.
Qed.

(* C20_concurrent_routing: thread 1 serves connection 1; after the concurrent phase connection 1 gets mA records from
   error on and no mB record -- what its own history nv_pre ++ nv_ops1 demands *)
Example C20_concurrent_routing_applies :
  deliv_to 1 (handle (c_table nv_st) mA 40%Z s_error) = expected (spec_choice nv_mods (rev (nv_pre ++ nv_ops1)) mA 1) mA 40%Z s_error 1 /\
  deliv_to 1 (handle (c_table nv_st) mA 40%Z s_error) = [(1, mA, s_error)] /\
  deliv_to 1 (handle (c_table nv_st) mA 30%Z s_warning) = expected (spec_choice nv_mods (rev (nv_pre ++ nv_ops1)) mA 1) mA 30%Z s_warning 1 /\
  deliv_to 1 (handle (c_table nv_st) mB 50%Z s_critical) = expected (spec_choice nv_mods (rev (nv_pre ++ nv_ops1)) mB 1) mB 50%Z s_critical 1 /\
  handle (c_table nv_st) mB 50%Z s_critical = [(2, mB, s_critical)].
Proof.
  assert (forall m lv py, deliv_to 1 (handle (c_table nv_st) m lv py) =
                          expected (spec_choice nv_mods (rev (nv_pre ++ nv_ops1)) m 1) m lv py 1) as H.
  { intros m lv py. apply (C20_concurrent_routing nv_mods nv_pre nv_progs nv_sched 1 1 nv_ops1 m lv py).
    - reflexivity.
    - exact nv_others_leave_conn1.
    - vm_compute. reflexivity. }
  split; [apply H|]. split; [vm_compute; reflexivity|]. split; [apply H|]. split; [apply H|]. vm_compute. reflexivity.
Qed.

(* C20_close_and_enable_commute: X = 0 (subscribed to both modules) closes, Y = 1 enables mA; the other threads are a
   module thread and the thread of connection 2 sending a request for all modules; two different schedules *)
Definition nv_pre2 : list op := [OLogging 0 None (LStr s_debug); OLogging 2 (Some mA) (LStr s_warning)].
Definition nv_others2 : list (list aop) :=
  [emit_prog [(mA, 20%Z, s_info)]; conn_prog nv_mods [OLogging 2 None (LStr s_error)]].
Definition nv_progs2 : list (list aop) :=
  conn_prog nv_mods [ODisconnect 0] :: conn_prog nv_mods [OLogging 1 (Some mA) (LStr s_info)] :: nv_others2.
Definition nv_sched2a : list nat := [1; 3; 0; 2; 1; 2; 0; 1; 2; 0; 1; 3; 0; 2; 3; 3; 3; 3; 3; 3].
Definition nv_sched2b : list nat := concat (repeat [3; 2; 1; 0] 12).

Lemma nv_others2_ok : forall p o m', In p nv_others2 -> In o (tops p) -> touches m' 0 o = false /\ touches m' 1 o = false.
Proof.
  intros p o m' Ip Io. destruct Ip as [E|[E|[]]]; subst p.
  - vm_compute in Io. destruct Io.
  - split; apply (C20_connection_thread_writes_own_entries nv_mods 2 [OLogging 2 None (LStr s_error)] o m');
      try exact Io; try discriminate; all_in.
Qed.

Example C20_close_and_enable_commute_applies :
  forall sched, In sched [nv_sched2a; nv_sched2b] ->
  let st := crun (init nv_progs2 (run nv_mods nv_pre2)) sched in
  all_done st = true /\ chosen (c_table st) mA 1 = Some 20%Z /\ (forall m', chosen (c_table st) m' 0 = None) /\
  chosen (run nv_mods nv_pre2) mB 0 = Some 10%Z /\ msgs_by 2 st <> [].
Proof.
  intros sched I st.
  assert (all_done st = true) as AD.
  { destruct I as [E|[E|[]]]; subst sched; vm_compute; reflexivity. }
  split; [exact AD|].
  destruct (C20_close_and_enable_commute nv_mods nv_pre2 nv_others2 sched 0 1 mA (LStr s_info) 20%Z) as [A B].
  - discriminate.
  - reflexivity.
  - reflexivity.
  - intros H. vm_compute in H. discriminate H.
  - exact nv_others2_ok.
  - exact AD.
  - split; [exact A|]. split; [exact B|]. split; [vm_compute; reflexivity|].
    clear A B AD. destruct I as [E|[E|[]]]; subst sched; vm_compute; intros H; discriminate H.
Qed.

(* in the first schedule the close (no lock) writes while thread 1 holds the lock, and the module thread delivers to the
   closing connection from its snapshot *)
Example nv_sched2a_facts :
  (let s := crun (init nv_progs2 (run nv_mods nv_pre2)) (firstn 7 nv_sched2a) in
   c_lock s = Some 1 /\ length (by_thread 0 (lin s)) = 2 /\ length (by_thread 3 (lin s)) = 0) /\
  msgs_by 2 (crun (init nv_progs2 (run nv_mods nv_pre2)) nv_sched2a) = [(0, mA, s_info)].
Proof. vm_compute. auto. Qed.

(* C20_complete_schedule_exists: two connection threads, two module threads, a further balanced thread that takes the
   lock twice, the second time leaving with an exception *)
Example C20_complete_schedule_exists_applies :
  exists sched,
    all_done (crun (init (map (conn_prog nv_mods) [[ODisconnect 0]; nv_ops1; nv_ops3] ++
                          map emit_prog [[(mA, 20%Z, s_info); (mB, 40%Z, s_error)]; [(mB, 10%Z, s_debug)]] ++
                          [[AAcq; ATab (TSet mB 5 10%Z); ARel None; AAcq; ARel (Some EValue)]]) nv_t0) sched) = true.
Proof.
  apply (C20_complete_schedule_exists nv_mods [[ODisconnect 0]; nv_ops1; nv_ops3]
           [[(mA, 20%Z, s_info); (mB, 40%Z, s_error)]; [(mB, 10%Z, s_debug)]]
           [[AAcq; ATab (TSet mB 5 10%Z); ARel None; AAcq; ARel (Some EValue)]] nv_t0).
  repeat constructor.
Qed.

(* ------------------------------------------------------------------ emissions *)
(* connections 0 (debug), 1 (info), 2 (error) on mA, connection 2 (error) on mB.  Thread 0 closes connection 0, thread 1
   is a module thread emitting (mA, info) and (mB, error), thread 2 is the thread of connection 2 lowering its mA level to
   debug under the lock.  Executed sequence (position: thread step):
     0: 2 acquire   1: 1 lookup mA   2: 0 setdefault mA   3: 0 pop (mA, 0)   4: 2 setdefault mA   5: 1 snapshot mA
     6: 2 set (mA, 2) := 10   [delivery]   7: 1 lookup mB   8: 0 setdefault mB   9: 1 snapshot mB   10: 0 pop (mB, 0)
     [delivery]   11: 2 release *)
Definition nv_t0e : table :=
  run nv_mods [OLogging 0 (Some mA) (LStr s_debug); OLogging 1 (Some mA) (LStr s_info); OLogging 2 None (LStr s_error)].
Definition nv_progs_e : list (list aop) :=
  [conn_prog nv_mods [ODisconnect 0]; emit_prog [(mA, 20%Z, s_info); (mB, 40%Z, s_error)];
   conn_prog nv_mods [OLogging 2 (Some mA) (LStr s_debug)]].
Definition nv_sched_e : list nat := [2; 1; 0; 0; 2; 1; 2; 1; 1; 0; 1; 0; 1; 2].
(* a notation, not a definition: the theorem is instantiated with exactly this term *)
Notation nv_ste := (crun (init nv_progs_e nv_t0e) nv_sched_e).
Definition nv_dummy : emission :=
  {| em_thread := 0; em_mod := []; em_lv := 0%Z; em_py := []; em_found := false; em_table := []; em_start := 0; em_pos := 0 |}.
Definition nv_e0 : emission := nth 0 (emissions_by 1 nv_ste) nv_dummy.
Definition nv_e1 : emission := nth 1 (emissions_by 1 nv_ste) nv_dummy.

Lemma nv_t0e_wf : wf nv_t0e.
Proof. unfold nv_t0e. apply run_wf. Qed.

Example nv_emission_facts :
  nv_t0e = [(mA, [(0, 10%Z); (1, 20%Z); (2, 40%Z)]); (mB, [(2, 40%Z)])] /\
  all_done nv_ste = true /\ length (lin nv_ste) = 12 /\
  (em_start nv_e0, em_pos nv_e0, em_mod nv_e0) = (1, 5, mA) /\ (em_start nv_e1, em_pos nv_e1, em_mod nv_e1) = (7, 9, mB) /\
  msgs_by 1 nv_ste = [(1, mA, s_info); (2, mB, s_error)] /\
  c_table nv_ste = [(mA, [(1, 20%Z); (2, 10%Z)]); (mB, [(2, 40%Z)])].
Proof. vm_compute. auto 10. Qed.

Ltac in_tops_cases Ho :=
  vm_compute in Ho; repeat (destruct Ho as [Ho|Ho]; [subst; vm_compute; reflexivity|]); destruct Ho.

(* C20_emission_complete_for_stable_subscribers: all three parts.  Part (3) for the first emission and connection 1, seen
   from the moment l0 after step 0 (one step before the lookup): the segment up to the snapshot contains writes of the entries
   (mA, 0) -- connection 0 closing -- but none of (mA, 1).  For connection 2 the write of (mA, 2) comes after the snapshot and
   does not matter.  For the second emission and connection 2, seen from the moment after step 3: the segment contains the
   write of (mA, 2), another entry. *)
Example C20_emission_complete_for_stable_subscribers_applies :
  msgs_by 1 nv_ste = flat_map em_msgs (emissions_by 1 nv_ste) /\
  (em_start nv_e0 <= em_pos nv_e0 /\
   nth_error (lin nv_ste) (em_start nv_e0) = Some (1, AGet (em_mod nv_e0)) /\
   nth_error (lin nv_ste) (em_pos nv_e0) = Some (1, ASnap (em_lv nv_e0) (em_py nv_e0)) /\
   em_msgs nv_e0 = if has_mod (em_mod nv_e0) (table_after nv_t0e (firstn (em_start nv_e0) (lin nv_ste)))
                   then handle (table_after nv_t0e (firstn (em_pos nv_e0) (lin nv_ste))) (em_mod nv_e0) (em_lv nv_e0) (em_py nv_e0)
                   else []) /\
  deliv_to 1 (em_msgs nv_e0) =
    expected (chosen (table_after nv_t0e (firstn 1 (lin nv_ste))) (em_mod nv_e0) 1) (em_mod nv_e0) (em_lv nv_e0) (em_py nv_e0) 1 /\
  deliv_to 2 (em_msgs nv_e0) =
    expected (chosen (table_after nv_t0e (firstn 1 (lin nv_ste))) (em_mod nv_e0) 2) (em_mod nv_e0) (em_lv nv_e0) (em_py nv_e0) 2 /\
  deliv_to 2 (em_msgs nv_e1) =
    expected (chosen (table_after nv_t0e (firstn 4 (lin nv_ste))) (em_mod nv_e1) 2) (em_mod nv_e1) (em_lv nv_e1) (em_py nv_e1) 2 /\
  deliv_to 1 (em_msgs nv_e0) = [(1, mA, s_info)] /\ deliv_to 2 (em_msgs nv_e0) = [] /\
  deliv_to 2 (em_msgs nv_e1) = [(2, mB, s_error)] /\
  tops (map snd (skipn 1 (firstn 5 (lin nv_ste)))) = [TSetDefault mA; TPop mA 0; TSetDefault mA] /\
  tops (map snd (skipn 4 (firstn 9 (lin nv_ste)))) = [TSetDefault mA; TSet mA 2 10%Z; TSetDefault mB].
Proof.
  assert (In nv_e0 (emissions_by 1 nv_ste)) as I0 by (vm_compute; left; reflexivity).
  assert (In nv_e1 (emissions_by 1 nv_ste)) as I1 by (vm_compute; right; left; reflexivity).
  destruct (C20_emission_complete_for_stable_subscribers nv_progs_e nv_t0e nv_sched_e 1 nv_t0e_wf) as [M E].
  { vm_compute. reflexivity. }
  destruct (E nv_e0 I0) as [F0 S0]. destruct (E nv_e1 I1) as [F1 S1]. clear E.
  split; [exact M|]. split; [exact F0|].
  split.
  { apply (S0 (firstn 1 (lin nv_ste)) (skipn 1 (firstn 5 (lin nv_ste))) 1).
    - vm_compute. reflexivity.
    - vm_compute. apply le_n.
    - intros o Ho. in_tops_cases Ho. }
  split.
  { apply (S0 (firstn 1 (lin nv_ste)) (skipn 1 (firstn 5 (lin nv_ste))) 2).
    - vm_compute. reflexivity.
    - vm_compute. apply le_n.
    - intros o Ho. in_tops_cases Ho. }
  split.
  { apply (S1 (firstn 4 (lin nv_ste)) (skipn 4 (firstn 9 (lin nv_ste))) 2).
    - vm_compute. reflexivity.
    - vm_compute. repeat constructor.
    - intros o Ho. in_tops_cases Ho. }
  clear. vm_compute. auto 10.
Qed.

(* the stability premise is needed: connection 0 was subscribed at l0 and closed before the snapshot -- it gets nothing *)
Example nv_emission_unstable_subscriber :
  deliv_to 0 (em_msgs nv_e0) = [] /\
  expected (chosen (table_after nv_t0e (firstn 1 (lin nv_ste))) (em_mod nv_e0) 0) (em_mod nv_e0) (em_lv nv_e0) (em_py nv_e0) 0
    = [(0, mA, s_info)].
Proof. vm_compute. auto. Qed.

(* C20_concurrent_delivery_sound: at the end of the run, and in the middle of it (8 scheduler steps: first delivery made,
   threads 0 and 2 unfinished, lock held) *)
Example C20_concurrent_delivery_sound_applies :
  exists e, In e (emissions_by 1 nv_ste) /\ em_found e = true /\ mB = em_mod e /\ s_error = record_name (em_lv e) (em_py e) /\
            exists x, chosen (em_table e) mB 2 = Some x /\ (x <= em_lv e)%Z.
Proof.
  apply (C20_concurrent_delivery_sound nv_progs_e nv_t0e nv_sched_e 1 2 mB s_error nv_t0e_wf).
  vm_compute. auto.
Qed.

Example C20_concurrent_delivery_sound_applies_midway :
  let st := crun (init nv_progs_e nv_t0e) (firstn 8 nv_sched_e) in
  (all_done st = false /\ c_lock st = Some 2) /\
  exists e, In e (emissions_by 1 st) /\ em_found e = true /\ mA = em_mod e /\ s_info = record_name (em_lv e) (em_py e) /\
            exists x, chosen (em_table e) mA 1 = Some x /\ (x <= em_lv e)%Z.
Proof.
  intros st. split; [vm_compute; auto|].
  apply (C20_concurrent_delivery_sound nv_progs_e nv_t0e (firstn 8 nv_sched_e) 1 1 mA s_info nv_t0e_wf).
  vm_compute. auto.
Qed.

(* ------------------------------------------------------------------ rotation *)
(* four earlier files, a later-dated file, a sub-directory, a foreign file, a link carrying a log name (dated earlier) and an
   old `current` link; the file of the day (2024-01-05) does not exist yet *)
Definition nv_sub : entry := {| e_name := [99; 111; 109]%N; e_file := false |}.
Definition nv_foreign : entry := {| e_name := [122; 122]%N; e_file := true |}.
Definition nv_link : entry := {| e_name := log_name frappy (date_n 0); e_file := false |}.
Definition nv_dir : dir :=
  [dated 1; dated 2; nv_sub; dated 3; {| e_name := cur_name; e_file := false |}; dated 4; dated 9; nv_foreign; nv_link].

Ltac nodup_names :=
  vm_compute;
  repeat (constructor; [let H := fresh "H" in simpl; intros H; repeat (destruct H as [H|H]; [discriminate H|]); exact H|]);
  constructor.

Lemma nv_dir_nodup : NoDup (names nv_dir).
Proof. nodup_names. Qed.

(* C20_rollover_frame has no premise; here the rollover with retention 2 really removes files (10 entries before, 7 after) *)
Example C20_rollover_frame_applies :
  (forall e, In e (do_rollover frappy 2 nv_dir (date_n 5)) -> In e (open_file nv_dir (log_name frappy (date_n 5)))) /\
  has_name cur_name (do_rollover frappy 2 nv_dir (date_n 5)) = true /\
  has_name (log_name frappy (date_n 5)) (do_rollover frappy 2 nv_dir (date_n 5)) = true /\
  length (open_file nv_dir (log_name frappy (date_n 5))) = 10 /\ length (do_rollover frappy 2 nv_dir (date_n 5)) = 7.
Proof.
  destruct (C20_rollover_frame frappy 2 nv_dir (date_n 5)) as (A & B & C).
  split; [exact A|]. split; [exact B|]. split; [exact C|]. vm_compute. auto.
Qed.

(* C20_only_earlier_own_logs_removed: both disjuncts of the third premise, on entries that are in danger (retention 1
   removes every earlier own log file): the later-dated file, the file being written, the foreign file, the sub-directory,
   the link with a log name dated earlier *)
Example C20_only_earlier_own_logs_removed_applies :
  (forall e, In e [dated 9; dated 5; nv_foreign; nv_sub; nv_link] -> In e (do_rollover frappy 1 nv_dir (date_n 5))) /\
  map e_name (sort (do_rollover frappy 1 nv_dir (date_n 5))) =
    [e_name nv_sub; cur_name; e_name nv_link; log_name frappy (date_n 5); log_name frappy (date_n 9); e_name nv_foreign].
Proof.
  split; [|vm_compute; reflexivity].
  intros e I. apply C20_only_earlier_own_logs_removed.
  - exact nv_dir_nodup.
  - simpl in I. repeat (destruct I as [I|I]; [subst e; vm_compute; auto 15|]). destruct I.
  - simpl in I. destruct I as [I|[I|[I|[I|[I|[]]]]]]; subst e.
    + right. vm_compute. reflexivity.
    + right. vm_compute. reflexivity.
    + left. vm_compute. reflexivity.
    + left. vm_compute. reflexivity.
    + left. vm_compute. reflexivity.
Qed.

Example C20_retention_zero_keeps_all_applies :
  do_rollover frappy 0 nv_dir (date_n 5) = open_file nv_dir (log_name frappy (date_n 5)) /\
  (forall e, In e nv_dir -> e_name e <> cur_name -> In e (do_rollover frappy 0 nv_dir (date_n 5))) /\
  has_name (log_name frappy (date_n 5)) (do_rollover frappy 0 nv_dir (date_n 5)) = true /\
  In (dated 1) (do_rollover frappy 0 nv_dir (date_n 5)) /\ length (do_rollover frappy 0 nv_dir (date_n 5)) = 10.
Proof.
  destruct (C20_retention_zero_keeps_all frappy nv_dir (date_n 5)) as (A & B & C).
  split; [exact A|]. split; [exact B|]. split; [exact C|]. split; [|vm_compute; reflexivity].
  apply B; [vm_compute; auto|]. intros H. vm_compute in H. discriminate H.
Qed.

(* C20_retention with retention 3 = S 2: earlier = files 1..4, removed = [1; 2], kept = [3; 4]: both lists have two
   elements, so every clause (also the two with premises In r removed, In k kept, NoDup) is exercised *)
Example C20_retention_applies :
  let fn := log_name frappy (date_n 5) in
  let d1 := open_file nv_dir fn in
  let earl := earlier fn (listing frappy d1) in
  let removed := firstn (length earl - 2) earl in
  let kept := skipn (length earl - 2) earl in
  (removed = [dated 1; dated 2] /\ kept = [dated 3; dated 4]) /\
  has_name (e_name (dated 2)) (do_rollover frappy 3 nv_dir (date_n 5)) = false /\
  has_name (e_name (dated 3)) (do_rollover frappy 3 nv_dir (date_n 5)) = true /\
  has_name (e_name nv_link) (do_rollover frappy 3 nv_dir (date_n 5)) = true /\
  length kept = Nat.min 2 (length earl) /\
  In (dated 3) (do_rollover frappy 3 nv_dir (date_n 5)) /\ In (dated 4) (do_rollover frappy 3 nv_dir (date_n 5)) /\
  name_leb (e_name (dated 2)) (e_name (dated 3)) = true /\
  (In (dated 1) d1 /\ own_log frappy (dated 1) = true /\ name_ltb (e_name (dated 1)) fn = true).
Proof.
  intros fn d1 earl removed kept.
  assert (removed = [dated 1; dated 2] /\ kept = [dated 3; dated 4]) as [ER EK] by (vm_compute; auto).
  pose proof (C20_retention frappy 2 nv_dir (date_n 5)) as R. cbv zeta in R.
  fold fn in R. fold d1 in R. fold earl in R. fold removed kept in R.
  destruct R as (A & B & C & D & E).
  split; [split; assumption|].
  split; [rewrite A; vm_compute; reflexivity|].
  split; [rewrite A; vm_compute; reflexivity|].
  split; [rewrite A; vm_compute; reflexivity|].
  split; [exact B|].
  split; [apply (C nv_dir_nodup); rewrite EK; simpl; auto|].
  split; [apply (C nv_dir_nodup); rewrite EK; simpl; auto|].
  split; [apply D; [rewrite ER|rewrite EK]; simpl; auto|].
  apply E. rewrite ER. simpl. auto.
Qed.

Print Assumptions C20_routing_exact_applies.
Print Assumptions C20_routing_applies_if.
Print Assumptions C20_routing_applies_only_if.
Print Assumptions C20_routing_applies_not.
Print Assumptions C20_stop_applies.
Print Assumptions C20_stop_ways_applies.
Print Assumptions C20_stop_covers_every_module_applies.
Print Assumptions C20_stop_covers_every_module_table_not_empty.
Print Assumptions C20_internal_module_can_be_enabled_applies.
Print Assumptions C20_exported_only_same_applies.
Print Assumptions C20_others_unaffected_applies.
Print Assumptions C20_rejected_request_no_effect_applies.
Print Assumptions C20_activation_requests_do_not_touch_logging_applies.
Print Assumptions nv_schedule_facts.
Print Assumptions C20_routing_linearizable_applies.
Print Assumptions C20_routing_linearizable_applies_midway.
Print Assumptions nv_others_leave_conn1.
Print Assumptions C20_connection_thread_writes_own_entries_applies.
Print Assumptions C20_entry_written_by_one_thread_applies.
Print Assumptions C20_concurrent_routing_applies.
Print Assumptions nv_others2_ok.
Print Assumptions C20_close_and_enable_commute_applies.
Print Assumptions nv_sched2a_facts.
Print Assumptions C20_complete_schedule_exists_applies.
Print Assumptions nv_t0e_wf.
Print Assumptions nv_emission_facts.
Print Assumptions C20_emission_complete_for_stable_subscribers_applies.
Print Assumptions nv_emission_unstable_subscriber.
Print Assumptions C20_concurrent_delivery_sound_applies.
Print Assumptions C20_concurrent_delivery_sound_applies_midway.
Print Assumptions nv_dir_nodup.
Print Assumptions C20_rollover_frame_applies.
Print Assumptions C20_only_earlier_own_logs_removed_applies.
Print Assumptions C20_retention_zero_keeps_all_applies.
Print Assumptions C20_retention_applies.
