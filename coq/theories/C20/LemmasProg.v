(* C20 -- concurrent layer, progress: programs that use the dispatcher lock in a balanced way (every compiled connection
   program does, readers do not use it at all) can always be run to completion -- the hypothesis "all threads have finished"
   of the concurrent theorems is satisfiable for every set of such threads. *)
From Coq Require Import List Arith ZArith Bool NArith Lia.
Import ListNotations.
Require Import FV.Gen.C20 FV.C20.Model FV.C20.ConcModel FV.C20.Lemmas FV.C20.LemmasConc.

Fixpoint balanced_from (held : bool) (p : list aop) : bool :=
  match p with
  | [] => negb held
  | AAcq :: r => negb held && balanced_from true r
  | ARel _ :: r => held && balanced_from false r
  | _ :: r => balanced_from held r
  end.
Definition balanced (p : list aop) : bool := balanced_from false p.

Lemma balanced_app a : forall held b,
  balanced_from held a = true -> balanced_from false b = true -> balanced_from held (a ++ b) = true.
Proof.
  induction a as [|x r]; intros held b A B; simpl in *.
  - destruct held; [discriminate|auto].
  - destruct x; auto.
    + apply andb_true_iff in A as [A1 A2]. rewrite A1. simpl. auto.
    + apply andb_true_iff in A as [A1 A2]. rewrite A1. simpl. auto.
Qed.

Lemma balanced_tabs_held ms c lv : forall r,
  balanced_from true r = true -> balanced_from true (flat_map (set_level_ops c lv) ms ++ r) = true.
Proof. induction ms as [|m ms']; intros r R; simpl; auto. Qed.

Lemma balanced_tabs_free ms c lv : balanced_from false (flat_map (set_level_ops c lv) ms) = true.
Proof. induction ms as [|m ms']; simpl; auto. Qed.

Lemma op_prog_balanced mods o : balanced (op_prog mods o) = true.
Proof.
  unfold balanced. destruct o as [c spec d|m lv py|c|c|c sp|c sp]; simpl; auto.
  - unfold logging_ops. destruct (req_targets mods spec) as [ms|]; simpl; auto.
    destruct (check_level d) as [lv|e]; simpl; auto.
    apply balanced_tabs_held. reflexivity.
  - apply balanced_tabs_held. reflexivity.
  - apply balanced_tabs_free.
Qed.

Lemma conn_prog_balanced mods ops : balanced (conn_prog mods ops) = true.
Proof.
  unfold balanced, conn_prog. induction ops as [|o r]; simpl; auto.
  apply balanced_app; auto. apply op_prog_balanced.
Qed.

(* ------------------------------------------------------------------ set_nth, nth_error *)
Lemma nth_error_set_nth_same {A} (x : A) l : forall n, n < length l -> nth_error (set_nth n x l) n = Some x.
Proof. induction l; intros n H; simpl in H; [lia|]. destruct n; simpl; auto. apply IHl. lia. Qed.

Lemma nth_error_set_nth_other {A} (x : A) l : forall n k, n <> k -> nth_error (set_nth n x l) k = nth_error l k.
Proof.
  induction l; intros n k H; destruct n; simpl; auto.
  - destruct k; auto. congruence.
  - destruct k; simpl; auto.
Qed.

Lemma set_nth_set_nth {A} (x y : A) l : forall n, set_nth n x (set_nth n y l) = set_nth n x l.
Proof. induction l; destruct n; simpl; auto. rewrite IHl. auto. Qed.

Lemma set_nth_same {A} (x : A) l : forall n, nth_error l n = Some x -> set_nth n x l = l.
Proof.
  induction l; intros n H; destruct n; simpl in *; try discriminate.
  - inversion H; auto.
  - rewrite IHl; auto.
Qed.

Lemma nth_error_lt {A} (l : list A) n x : nth_error l n = Some x -> n < length l.
Proof. intros H. apply nth_error_Some. congruence. Qed.

(* ------------------------------------------------------------------ one thread runs to its end *)
Definition pend_of (st : cstate) (j : nat) : list delivery := l_pend (nth j (c_loc st) loc0).

Lemma crun_app st a b : crun (crun st a) b = crun st (a ++ b).
Proof. unfold crun. symmetry. apply fold_left_app. Qed.

(* the messages of a snapshot are sent one per step *)
Lemma drain i : forall L st,
  pend_of st i = L -> i < length (c_loc st) ->
  pend_of (crun st (repeat i (length L))) i = [] /\
  c_lock (crun st (repeat i (length L))) = c_lock st /\
  c_progs (crun st (repeat i (length L))) = c_progs st /\
  length (c_loc (crun st (repeat i (length L)))) = length (c_loc st) /\
  (forall j, j <> i -> pend_of (crun st (repeat i (length L))) j = pend_of st j).
Proof.
  induction L as [|d pr]; intros st P LT; simpl.
  - repeat split; auto.
  - unfold pend_of in P. unfold cstep at 1 2 3 4 5. rewrite P.
    match goal with |- context [crun ?s _] => set (s1 := s) end.
    destruct (IHpr s1) as (A & B & C & D & E).
    + unfold pend_of, s1. simpl. rewrite nth_set_nth_same by auto. reflexivity.
    + unfold s1. simpl. rewrite set_nth_length. auto.
    + split; auto. split; auto. split; auto. split.
      * rewrite D. unfold s1. simpl. apply set_nth_length.
      * intros j N. rewrite E by auto. unfold pend_of, s1. simpl. rewrite nth_set_nth_other by auto. reflexivity.
Qed.

Lemma run_alone i p : forall st (held : bool),
  nth_error (c_progs st) i = Some p ->
  pend_of st i = [] -> i < length (c_loc st) ->
  c_lock st = (if held then Some i else @None nat) ->
  balanced_from held p = true ->
  exists k,
    c_lock (crun st (repeat i k)) = None /\
    c_progs (crun st (repeat i k)) = set_nth i [] (c_progs st) /\
    length (c_loc (crun st (repeat i k))) = length (c_loc st) /\
    pend_of (crun st (repeat i k)) i = [] /\
    (forall j, j <> i -> pend_of (crun st (repeat i k)) j = pend_of st j).
Proof.
  induction p as [|a r]; intros st held E PE LT L B; simpl in *.
  - destruct held; [discriminate|]. exists 0. simpl. split; auto. split; [symmetry; apply set_nth_same; auto|]. auto.
  - pose proof (nth_error_lt _ _ _ E) as LTP.
    assert (STEP : forall held' : bool,
      enabled (c_lock st) a = true ->
      (match a with AAcq => Some i | ARel _ => None | _ => c_lock st end) = (if held' then Some i else @None nat) ->
      balanced_from held' r = true ->
      exists k,
        c_lock (crun st (repeat i k)) = None /\
        c_progs (crun st (repeat i k)) = set_nth i [] (c_progs st) /\
        length (c_loc (crun st (repeat i k))) = length (c_loc st) /\
        pend_of (crun st (repeat i k)) i = [] /\
        (forall j, j <> i -> pend_of (crun st (repeat i k)) j = pend_of st j)).
    { intros held' EN L' B'.
      (* the step itself *)
      assert (S1 : exists s1, cstep st i = s1 /\ c_lock s1 = (if held' then Some i else @None nat) /\
                     c_progs s1 = set_nth i r (c_progs st) /\ length (c_loc s1) = length (c_loc st) /\
                     (forall j, j <> i -> pend_of s1 j = pend_of st j)).
      { eexists. split; [reflexivity|]. unfold cstep. unfold pend_of in PE. rewrite PE, E, EN. simpl.
        split; auto. split; auto. split; [apply set_nth_length|].
        intros j N. unfold pend_of. simpl. rewrite nth_set_nth_other by auto. reflexivity. }
      destruct S1 as (s1 & C1 & L1 & P1 & N1 & O1).
      (* the messages of a snapshot taken by the step *)
      destruct (drain i (pend_of s1 i) s1 eq_refl) as (D1 & D2 & D3 & D4 & D5); [rewrite N1; auto|].
      set (k1 := length (pend_of s1 i)) in *. set (s2 := crun s1 (repeat i k1)) in *.
      destruct (IHr s2 held') as (k2 & R1 & R2 & R3 & R4 & R5); auto.
      - rewrite D3, P1. apply nth_error_set_nth_same; auto.
      - rewrite D4, N1. auto.
      - rewrite D2. auto.
      - exists (S (k1 + k2)). simpl. rewrite C1. rewrite repeat_app, <- crun_app. fold s2.
        split; auto. split; [rewrite R2, D3, P1; apply set_nth_set_nth|].
        split; [rewrite R3, D4; auto|]. split; auto.
        intros j N. rewrite R5, D5, O1; auto. }
    destruct a; simpl in B.
    + apply andb_true_iff in B as [B1 B2]. destruct held; [discriminate|].
      apply (STEP true); auto. simpl. rewrite L. reflexivity.
    + apply andb_true_iff in B as [B1 B2]. apply (STEP false); auto.
    + apply (STEP held); auto.
    + apply (STEP held); auto.
    + apply (STEP held); auto.
Qed.

(* the threads 0 .. k-1 one after the other *)
Lemma run_prefix progs t0 :
  Forall (fun p => balanced p = true) progs ->
  forall k, k <= length progs ->
  exists sched,
    c_lock (crun (init progs t0) sched) = None /\
    length (c_progs (crun (init progs t0) sched)) = length progs /\
    length (c_loc (crun (init progs t0) sched)) = length progs /\
    (forall j, pend_of (crun (init progs t0) sched) j = []) /\
    (forall j, j < k -> nth_error (c_progs (crun (init progs t0) sched)) j = Some []) /\
    (forall j, k <= j -> nth_error (c_progs (crun (init progs t0) sched)) j = nth_error progs j).
Proof.
  intros BAL. induction k as [|k IH]; intros LE.
  - exists []. simpl. split; auto. split; auto. split; [apply map_length|]. split.
    + intros j. unfold pend_of. simpl.
      destruct (nth_in_or_default j (map (fun _ : list aop => loc0) progs) loc0) as [I|D].
      * apply in_map_iff in I as (x & X & _). rewrite <- X. reflexivity.
      * rewrite D. reflexivity.
    + split; auto. intros j H; lia.
  - destruct IH as (sched & L & LEN & LLEN & PEND & DONE & REST); [lia|].
    set (st := crun (init progs t0) sched) in *.
    destruct (nth_error progs k) as [p|] eqn:E; [|apply nth_error_None in E; lia].
    assert (B : balanced p = true).
    { rewrite Forall_forall in BAL. apply BAL. eapply nth_error_In; eauto. }
    assert (E' : nth_error (c_progs st) k = Some p) by (rewrite REST; auto).
    destruct (run_alone k p st false E' (PEND k)) as (n & R1 & R2 & R3 & R4 & R5); auto; [rewrite LLEN; lia|].
    exists (sched ++ repeat k n). rewrite <- crun_app. fold st.
    split; [exact R1|]. rewrite R2. split; [rewrite set_nth_length; auto|]. split; [rewrite R3; auto|]. split.
    + intros j. destruct (Nat.eq_dec j k) as [->|N]; auto. rewrite R5; auto.
    + split.
      * intros j J. destruct (Nat.eq_dec j k) as [->|N].
        -- apply nth_error_set_nth_same. rewrite LEN. lia.
        -- rewrite nth_error_set_nth_other by auto. apply DONE. lia.
      * intros j J. rewrite nth_error_set_nth_other by lia. apply REST. lia.
Qed.

Lemma complete_schedule_exists progs t0 :
  Forall (fun p => balanced p = true) progs ->
  exists sched, all_done (crun (init progs t0) sched) = true.
Proof.
  intros BAL. destruct (run_prefix progs t0 BAL (length progs) (le_n _)) as (sched & _ & LEN & LLEN & PEND & DONE & _).
  exists sched. unfold all_done. apply andb_true_iff. split; apply forallb_forall.
  - intros p I. apply In_nth_error in I as [j J].
    assert (j < length progs) by (rewrite <- LEN; eapply nth_error_lt; eauto).
    rewrite DONE in J by auto. inversion J. reflexivity.
  - intros lo I. apply (In_nth _ _ loc0) in I as (j & J & N). specialize (PEND j). unfold pend_of in PEND.
    rewrite N in PEND. rewrite PEND. reflexivity.
Qed.

(* any connection threads (compiled histories) together with any threads that use the lock in a balanced way (module threads
   do not use it at all) can be scheduled to completion *)
Lemma conn_threads_complete mods (hist : list (list op)) (others : list (list aop)) t0 :
  Forall (fun p => balanced p = true) others ->
  exists sched, all_done (crun (init (map (conn_prog mods) hist ++ others) t0) sched) = true.
Proof.
  intros R. apply complete_schedule_exists. apply Forall_app. split; auto.
  apply Forall_forall. intros p I. apply in_map_iff in I as (ops & E & _). subst p. apply conn_prog_balanced.
Qed.

Lemma emit_prog_balanced recs : balanced (emit_prog recs) = true.
Proof. unfold balanced, emit_prog. induction recs as [|r rs]; simpl; auto. Qed.

Lemma all_threads_complete mods (hist : list (list op)) (recss : list (list (name * Z * name))) (others : list (list aop)) t0 :
  Forall (fun p => balanced p = true) others ->
  exists sched,
    all_done (crun (init (map (conn_prog mods) hist ++ map emit_prog recss ++ others) t0) sched) = true.
Proof.
  intros R. apply conn_threads_complete. apply Forall_app. split; auto.
  apply Forall_forall. intros p I. apply in_map_iff in I as (rs & E & _). subst p. apply emit_prog_balanced.
Qed.
