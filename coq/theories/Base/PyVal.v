(* Python values offered to / produced by frappy code, exceptions as data.  Executable definitions only. *)
From Coq Require Import ZArith NArith Bool List.
Import ListNotations.
Require Import FV.Base.Util FV.Base.F64.

Definition str := list N.              (* code points (str) or byte values (bytes) *)

Inductive pyval :=
| PNone
| PBool (b : bool)
| PInt (z : Z)
| PFloat (f : f64)
| PStr (s : str)
| PBytes (b : str)
| PList (l : list pyval)
| PTuple (l : list pyval)
| PDict (kv : list (str * pyval))      (* string keys only (JSON objects, struct values) *)
| PEnum (name : str) (v : Z)           (* frappy.lib.enum.EnumMember *)
| POpaque.                             (* an object without numeric/sequence/mapping/hash peculiarities *)

(* exception classes frappy code can raise or leak *)
Inductive exc := ERange | EWrongType | EType | EValue | EOverflow | EKey | EAttr | EZeroDiv | EOther.

Definition exc_eqb (a b : exc) : bool :=
  match a, b with
  | ERange, ERange | EWrongType, EWrongType | EType, EType | EValue, EValue | EOverflow, EOverflow
  | EKey, EKey | EAttr, EAttr | EZeroDiv, EZeroDiv | EOther, EOther => true
  | _, _ => false
  end.

Inductive res (A : Type) := Ok (a : A) | Err (e : exc).
Arguments Ok {A} a.
Arguments Err {A} e.

Definition bind {A B} (r : res A) (f : A -> res B) : res B :=
  match r with Ok a => f a | Err e => Err e end.
Notation "r >>= f" := (bind r f) (at level 50, left associativity).

Definition is_bad_value (e : exc) : bool := match e with ERange | EWrongType => true | _ => false end.

(* "except Exception as e: raise RangeError if isinstance(e, RangeError) else WrongTypeError" *)
Definition wrap_elem {A} (r : res A) : res A :=
  match r with Ok a => Ok a | Err ERange => Err ERange | Err _ => Err EWrongType end.
(* "except Exception: raise WrongTypeError" *)
Definition wrap_wrong {A} (r : res A) : res A :=
  match r with Ok a => Ok a | Err _ => Err EWrongType end.

Definition str_eqb (a b : str) : bool := list_eqb N.eqb a b.

(* bit-exact structural identity, the comparison used by the correspondence *)
Fixpoint pv_same (a b : pyval) {struct a} : bool :=
  match a, b with
  | PNone, PNone => true
  | PBool x, PBool y => Bool.eqb x y
  | PInt x, PInt y => Z.eqb x y
  | PFloat x, PFloat y => fsame x y
  | PStr x, PStr y => str_eqb x y
  | PBytes x, PBytes y => str_eqb x y
  | PList x, PList y | PTuple x, PTuple y =>
      (fix go (x y : list pyval) : bool :=
         match x, y with
         | [], [] => true
         | p :: x', q :: y' => pv_same p q && go x' y'
         | _, _ => false
         end) x y
  | PDict x, PDict y =>
      (fix go (x y : list (str * pyval)) : bool :=
         match x, y with
         | [], [] => true
         | (k, p) :: x', (k', q) :: y' => str_eqb k k' && pv_same p q && go x' y'
         | _, _ => false
         end) x y
  | PEnum n v, PEnum n' v' => str_eqb n n' && Z.eqb v v'
  | POpaque, POpaque => true
  | _, _ => false
  end.

Definition res_same (a b : res pyval) : bool :=
  match a, b with
  | Ok x, Ok y => pv_same x y
  | Err e, Err e' => exc_eqb e e'
  | _, _ => false
  end.

(* bool(x) *)
Definition py_truthy (v : pyval) : bool :=
  match v with
  | PNone => false
  | PBool b => b
  | PInt z => negb (Z.eqb z 0)
  | PFloat f => negb (feq f fzero)
  | PStr s | PBytes s => match s with [] => false | _ => true end
  | PList l | PTuple l => match l with [] => false | _ => true end
  | PDict kv => match kv with [] => false | _ => true end
  | PEnum _ _ => true
  | POpaque => true
  end.

(* len(x); None = TypeError *)
Definition py_len (v : pyval) : option Z :=
  match v with
  | PStr s | PBytes s => Some (Z.of_nat (length s))
  | PList l | PTuple l => Some (Z.of_nat (length l))
  | PDict kv => Some (Z.of_nat (length kv))
  | _ => None
  end.

(* iter(x); None = TypeError *)
Definition py_iter (v : pyval) : option (list pyval) :=
  match v with
  | PStr s => Some (map (fun c => PStr [c]) s)
  | PBytes s => Some (map (fun c => PInt (Z.of_N c)) s)
  | PList l | PTuple l => Some l
  | PDict kv => Some (map (fun p => PStr (fst p)) kv)
  | _ => None
  end.

(* x + 0.0 for the builtin kinds: bool, int (OverflowError when too large), float; TypeError otherwise *)
Definition py_add0 (v : pyval) : res f64 :=
  match v with
  | PBool b => Ok (if b then of_Z 1 else fzero)
  | PInt z => match float_of_Z z with Some f => Ok f | None => Err EOverflow end
  | PFloat f => Ok (fadd f fzero)
  | _ => Err EType
  end.

Fixpoint assoc_str {A} (k : str) (l : list (str * A)) : option A :=
  match l with [] => None | (k', v) :: r => if str_eqb k k' then Some v else assoc_str k r end.
Fixpoint mem_str (k : str) (l : list str) : bool :=
  match l with [] => false | k' :: r => str_eqb k k' || mem_str k r end.
(* dict item assignment: replace in place or append *)
Fixpoint dict_set {A} (k : str) (v : A) (l : list (str * A)) : list (str * A) :=
  match l with
  | [] => [(k, v)]
  | (k', v') :: r => if str_eqb k k' then (k, v) :: r else (k', v') :: dict_set k v r
  end.
