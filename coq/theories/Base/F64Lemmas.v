(* Order facts about binary64 used by the datatype proofs: non-NaN floats embed monotonically into R
   (infinities to +-2^1024), so the boolean comparisons are a total preorder there and the median-of-three
   (frappy.lib.clamp) lies between its bounds. *)
From Coq Require Import ZArith Bool Reals Lra Lia.
From Flocq Require Import Core.Zaux Core.Raux Core.Defs Core.FLT IEEE754.BinarySingleNaN.
Require Import FV.Base.F64.

Local Open Scope R_scope.

Definition BIG : R := bpow radix2 emax.
Definition key (x : f64) : R :=
  match x with
  | B754_infinity true => - BIG
  | B754_infinity false => BIG
  | _ => B2R x
  end.
Definition notnan (x : f64) : Prop := fis_nan x = false.

Lemma finite_key_bound (x : f64) : is_finite x = true -> - BIG < key x < BIG.
Proof.
  intros Hf. assert (H := abs_B2R_lt_emax prec emax x).
  destruct x as [s|s| |s m e B]; try discriminate; cbn [key]; unfold BIG;
    apply Rabs_def2 in H; lra.
Qed.

Lemma BIG_pos : 0 < BIG. Proof. apply bpow_gt_0. Qed.

#[local] Opaque BIG.

Lemma compare_key (a b : f64) : notnan a -> notnan b ->
  Bcompare a b = Some (Rcompare (key a) (key b)).
Proof.
  intros Ha Hb. pose proof BIG_pos as HB.
  destruct (is_finite a) eqn:Fa, (is_finite b) eqn:Fb.
  - rewrite (Bcompare_correct prec emax a b Fa Fb).
    destruct a as [s|s| |s m e B]; try discriminate; destruct b as [s'|s'| |s' m' e' B']; try discriminate; reflexivity.
  - pose proof (finite_key_bound a Fa) as Ka.
    destruct b as [s'|[|]| |s' m' e' B']; try discriminate.
    + destruct a as [s|s| |s m e B]; try discriminate; cbn [key] in *; cbn in *;
        symmetry; apply f_equal, Rcompare_Gt; lra.
    + destruct a as [s|s| |s m e B]; try discriminate; cbn [key] in *; cbn in *;
        symmetry; apply f_equal, Rcompare_Lt; lra.
  - pose proof (finite_key_bound b Fb) as Kb.
    destruct a as [s|[|]| |s m e B]; try discriminate.
    + destruct b as [s'|s'| |s' m' e' B']; try discriminate; cbn [key] in *; cbn in *;
        symmetry; apply f_equal, Rcompare_Lt; lra.
    + destruct b as [s'|s'| |s' m' e' B']; try discriminate; cbn [key] in *; cbn in *;
        symmetry; apply f_equal, Rcompare_Gt; lra.
  - destruct a as [s|[|]| |s m e B]; try discriminate; destruct b as [s'|[|]| |s' m' e' B']; try discriminate;
      cbn; symmetry; apply f_equal.
    + apply Rcompare_Eq; reflexivity.
    + apply Rcompare_Lt; lra.
    + apply Rcompare_Gt; lra.
    + apply Rcompare_Eq; reflexivity.
Qed.

Lemma fle_key (a b : f64) : notnan a -> notnan b -> fle a b = Rle_bool (key a) (key b).
Proof.
  intros Ha Hb. unfold fle, Bleb, SpecFloat.SFleb. fold (Bcompare a b). rewrite (compare_key a b Ha Hb).
  case Rcompare_spec; intro H; case Rle_bool_spec; intro H'; try reflexivity; lra.
Qed.

Lemma flt_key (a b : f64) : notnan a -> notnan b -> flt a b = Rlt_bool (key a) (key b).
Proof.
  intros Ha Hb. unfold flt, Bltb, SpecFloat.SFltb. fold (Bcompare a b). rewrite (compare_key a b Ha Hb).
  case Rcompare_spec; intro H; case Rlt_bool_spec; intro H'; try reflexivity; lra.
Qed.

Lemma fle_true (a b : f64) : notnan a -> notnan b -> (fle a b = true <-> key a <= key b).
Proof. intros Ha Hb. rewrite (fle_key a b Ha Hb). case Rle_bool_spec; intro H; split; intros; try lra; discriminate. Qed.

Lemma flt_true (a b : f64) : notnan a -> notnan b -> (flt a b = true <-> key a < key b).
Proof. intros Ha Hb. rewrite (flt_key a b Ha Hb). case Rlt_bool_spec; intro H; split; intros; try lra; discriminate. Qed.

Lemma flt_false (a b : f64) : notnan a -> notnan b -> (flt a b = false <-> key b <= key a).
Proof. intros Ha Hb. rewrite (flt_key a b Ha Hb). case Rlt_bool_spec; intro H; split; intros; try lra; discriminate. Qed.

(* a comparison that succeeds proves both operands are numbers *)
Lemma fle_true_notnan (a b : f64) : fle a b = true -> notnan a /\ notnan b.
Proof. destruct a as [s|s| |s m e B], b as [s'|s'| |s' m' e' B']; cbn; intros; try discriminate; split; reflexivity. Qed.
Lemma flt_true_notnan (a b : f64) : flt a b = true -> notnan a /\ notnan b.
Proof. destruct a as [s|s| |s m e B], b as [s'|s'| |s' m' e' B']; cbn; intros; try discriminate; split; reflexivity. Qed.

Lemma fle_refl (a : f64) : notnan a -> fle a a = true.
Proof. intros Ha. apply fle_true; auto. lra. Qed.
Lemma fle_trans (a b c : f64) : fle a b = true -> fle b c = true -> fle a c = true.
Proof.
  intros H1 H2. destruct (fle_true_notnan _ _ H1) as [Ha Hb]. destruct (fle_true_notnan _ _ H2) as [_ Hc].
  apply fle_true in H1; auto. apply fle_true in H2; auto. apply fle_true; auto. lra.
Qed.

(* the median of three is one of them *)
Lemma clamp3_one_of {A} (lt : A -> A -> bool) lo v hi :
  clamp3 lt lo v hi = lo \/ clamp3 lt lo v hi = v \/ clamp3 lt lo v hi = hi.
Proof.
  unfold clamp3, sort3.
  destruct (lt v lo), (lt hi v), (lt hi lo); cbn; auto.
Qed.

Ltac cmp_to_R :=
  repeat match goal with
  | H : flt ?a ?b = true |- _ => apply flt_true in H; [|assumption|assumption]
  | H : flt ?a ?b = false |- _ => apply flt_false in H; [|assumption|assumption]
  | H : fle ?a ?b = true |- _ => apply fle_true in H; [|assumption|assumption]
  end.

Theorem fclamp_between (lo v hi : f64) :
  notnan lo -> notnan v -> notnan hi -> fle lo hi = true ->
  fle lo (fclamp lo v hi) = true /\ fle (fclamp lo v hi) hi = true /\
  (fle lo v = true -> fle v hi = true -> fclamp lo v hi = v).
Proof.
  intros Hlo Hv Hhi Hle.
  unfold fclamp, clamp3, sort3.
  destruct (flt v lo) eqn:E1; destruct (flt hi v) eqn:E2; destruct (flt hi lo) eqn:E3; cmp_to_R; cbn;
    (split; [|split]);
    first [ apply fle_true; [assumption|assumption|lra]
          | intros A B; cmp_to_R; first [reflexivity | exfalso; lra] ].
Qed.

Lemma fclamp_notnan (lo v hi : f64) : notnan lo -> notnan v -> notnan hi -> notnan (fclamp lo v hi).
Proof. intros. unfold fclamp. destruct (clamp3_one_of flt lo v hi) as [E|[E|E]]; rewrite E; assumption. Qed.
