(* Small executable helpers shared by the Run.v drivers (no proofs needed by them). *)
From Coq Require Import List Arith ZArith Bool NArith.
Import ListNotations.

Definition opt_eqb {A} (eqb : A -> A -> bool) (a b : option A) : bool :=
  match a, b with
  | None, None => true
  | Some x, Some y => eqb x y
  | _, _ => false
  end.

Fixpoint list_eqb {A} (eqb : A -> A -> bool) (a b : list A) : bool :=
  match a, b with
  | [], [] => true
  | x :: a', y :: b' => eqb x y && list_eqb eqb a' b'
  | _, _ => false
  end.

Definition pair_eqb {A B} (ea : A -> A -> bool) (eb : B -> B -> bool) (a b : A * B) : bool :=
  ea (fst a) (fst b) && eb (snd a) (snd b).

Fixpoint assoc_nat {A} (k : nat) (l : list (nat * A)) : option A :=
  match l with [] => None | (k', v) :: r => if Nat.eqb k k' then Some v else assoc_nat k r end.

(* indices (from 0) of the elements on which f is false *)
Fixpoint mism_from {A} (f : A -> bool) (i : nat) (l : list A) : list nat :=
  match l with
  | [] => []
  | x :: r => if f x then mism_from f (S i) r else i :: mism_from f (S i) r
  end.
Definition mismatches {A} (f : A -> bool) (l : list A) : list nat := mism_from f 0 l.
