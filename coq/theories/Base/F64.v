(* IEEE-754 binary64 as Flocq's BinarySingleNaN.binary_float 53 1024: the executable part used by the models
   (Python float semantics: + - * /, comparisons, abs, round, int, int -> float, exact int/float comparison). *)
From Coq Require Import ZArith Bool List Lia.
From Flocq Require Import Core.Zaux Core.Raux Core.Defs Core.FLT IEEE754.BinarySingleNaN.
Import ListNotations.

Definition prec : Z := 53.
Definition emax : Z := 1024.
#[global] Instance prec_gt_0_64 : FLX.Prec_gt_0 prec. Proof. unfold FLX.Prec_gt_0, prec. lia. Qed.
#[global] Instance prec_lt_emax_64 : Prec_lt_emax prec emax. Proof. unfold Prec_lt_emax, prec, emax. lia. Qed.

Definition f64 := binary_float prec emax.

Definition fzero : f64 := B754_zero false.
Definition fnan : f64 := B754_nan.
Definition finf (s : bool) : f64 := B754_infinity s.

(* m * 2^e, correctly rounded (exact when representable): how float literals cross the harness boundary *)
Definition fmk (m e : Z) : f64 := binary_normalize prec emax _ _ mode_NE m e false.
Definition fnegzero : f64 := B754_zero true.
Definition of_Z (z : Z) : f64 := fmk z 0.
Definition fmaxval : f64 := fmk 9007199254740991 971.       (* sys.float_info.max *)

Definition fadd (a b : f64) : f64 := Bplus mode_NE a b.
Definition fsub (a b : f64) : f64 := Bminus mode_NE a b.
Definition fmul (a b : f64) : f64 := Bmult mode_NE a b.
Definition fdiv (a b : f64) : f64 := Bdiv mode_NE a b.
Definition fabs (a : f64) : f64 := Babs a.
Definition fopp (a : f64) : f64 := Bopp a.
Definition flt (a b : f64) : bool := Bltb a b.
Definition fle (a b : f64) : bool := Bleb a b.
Definition feq (a b : f64) : bool := Beqb a b.          (* Python ==  (nan <> nan, -0.0 == 0.0) *)

Definition fis_nan (a : f64) : bool := match a with B754_nan => true | _ => false end.
Definition fis_inf (a : f64) : bool := match a with B754_infinity _ => true | _ => false end.
Definition fis_finite (a : f64) : bool := match a with B754_zero _ | B754_finite _ _ _ _ => true | _ => false end.

(* bit-exact identity (what the correspondence compares) *)
Definition fsame (a b : f64) : bool :=
  match a, b with
  | B754_zero s, B754_zero s' => Bool.eqb s s'
  | B754_infinity s, B754_infinity s' => Bool.eqb s s'
  | B754_nan, B754_nan => true
  | B754_finite s m e _, B754_finite s' m' e' _ => Bool.eqb s s' && Pos.eqb m m' && Z.eqb e e'
  | _, _ => false
  end.

(* Python max(a, b): b if b > a else a *)
Definition pymax (a b : f64) : f64 := if flt a b then b else a.

(* int(x) for a finite float: truncation; round(x): nearest, ties to even *)
Definition ftrunc (a : f64) : Z := Btrunc a.
Definition fround (a : f64) : Z := Btrunc (Bnearbyint mode_NE a).

(* exact value of a finite float as m * 2^e *)
Definition fparts (a : f64) : option (Z * Z) :=
  match a with
  | B754_zero _ => Some (0, 0)%Z
  | B754_finite s m e _ => Some (cond_Zopp s (Z.pos m), e)
  | _ => None
  end.

(* exact three-way comparison of a Python int with a float (Python compares them exactly) *)
Definition cmp_Z_f (z : Z) (a : f64) : option comparison :=
  match a with
  | B754_nan => None
  | B754_infinity s => Some (if s then Gt else Lt)
  | B754_zero _ => Some (Z.compare z 0)
  | B754_finite s m e _ =>
      let mz := cond_Zopp s (Z.pos m) in
      Some (if (0 <=? e)%Z then Z.compare z (mz * 2 ^ e) else Z.compare (z * 2 ^ (- e)) mz)
  end.

(* int -> float as CPython does it (round to nearest even); None = OverflowError *)
Definition float_of_Z (z : Z) : option f64 :=
  let r := of_Z z in if fis_finite r then Some r else None.

(* CPython list.sort on 3 elements (count_run + binary insertion, uses only <), then [1]: frappy.lib.clamp *)
Definition sort3 {A} (lt : A -> A -> bool) (x0 x1 x2 : A) : A * A * A :=
  if lt x1 x0 then
    (if lt x2 x1 then (x2, x1, x0)
     else if lt x2 x0 then (if lt x2 x1 then (x2, x1, x0) else (x1, x2, x0))
     else (x1, x0, x2))
  else if lt x2 x1 then (if lt x2 x0 then (x2, x0, x1) else (x0, x2, x1))
  else (x0, x1, x2).
Definition clamp3 {A} (lt : A -> A -> bool) (lo v hi : A) : A :=
  let '(_, m, _) := sort3 lt lo v hi in m.
Definition fclamp (lo v hi : f64) : f64 := clamp3 flt lo v hi.
