(* The rounded quotient of ScaledInteger (round(x), an integer-valued binary64 number read back as a Python int)
   always converts to a finite float again: int * float in `intval * self.scale` can not raise OverflowError. *)
From Coq Require Import ZArith Bool Reals Lra Lia.
From Flocq Require Import Core.Zaux Core.Raux Core.Defs Core.Generic_fmt Core.FIX Core.FLT IEEE754.BinarySingleNaN.
Require Import FV.Base.F64.

Local Open Scope R_scope.

Lemma fis_finite_is_finite' (a : f64) : fis_finite a = is_finite a.
Proof. destruct a; reflexivity. Qed.

Theorem fround_representable (q : f64) : fis_finite q = true -> exists f, float_of_Z (fround q) = Some f.
Proof.
  intros Fq. unfold float_of_Z, fround, of_Z, fmk.
  set (y := Bnearbyint mode_NE q).
  destruct (Bnearbyint_correct prec emax _ mode_NE q) as (Hy & Fy & _). fold y in Hy, Fy.
  pose proof (Btrunc_correct prec emax _ y) as Ht.
  assert (Hint : IZR (Btrunc y) = B2R y).
  { rewrite Ht. apply round_generic; [apply valid_rnd_ZR|].
    rewrite Hy. apply generic_format_round; [apply FIX_exp_valid|apply valid_rnd_round_mode]. }
  pose proof (binary_normalize_correct prec emax _ _ mode_NE (Btrunc y) 0 false) as Hn.
  cbn zeta in Hn.
  assert (E : F2R (Float radix2 (Btrunc y) 0) = B2R y).
  { unfold F2R. cbn [Fnum Fexp bpow]. rewrite Rmult_1_r. exact Hint. }
  rewrite E in Hn.
  rewrite round_generic in Hn; [|apply valid_rnd_round_mode|apply generic_format_B2R].
  rewrite Rlt_bool_true in Hn by apply abs_B2R_lt_emax.
  destruct Hn as (_ & Hfin & _).
  rewrite fis_finite_is_finite'. rewrite Hfin. eexists. reflexivity.
Qed.
