(* C06 -- the start-up of the node (Startup.v): register_input keeps the invariants of a built node, the description is
   computed from the module objects of the state it is asked in, a datatype replaced during start-up is what is described *)
From Coq Require Import ZArith NArith Bool List Lia.
Import ListNotations.
Require Import FV.Base.Util FV.Base.F64 FV.Base.PyVal FV.C01.Model FV.Gen.C06 FV.C06.Model FV.C06.Startup FV.C06.Lemmas
  FV.C06.LemmasBuild FV.C06.LemmasMain FV.C06.LemmasValues.

(* ------------------------------------------------------------------ what register_input leaves alone *)
Lemma reg_acc_static name a :
  a_attr (reg_acc name a) = a_attr a /\ a_wire (reg_acc name a) = a_wire a /\ a_group (reg_acc name a) = a_group a /\
  a_vis (reg_acc name a) = a_vis a.
Proof. unfold reg_acc. destruct (str_eqb cb_attr (a_attr a)); auto. destruct (a_body a); auto. Qed.

Lemma reg_mod_static out name md :
  m_name (reg_mod out name md) = m_name md /\ m_export (reg_mod out name md) = m_export md.
Proof. unfold reg_mod. destruct (str_eqb out (m_name md)); auto. Qed.

Lemma reg_mod_consistent out name md : mod_consistent md -> mod_consistent (reg_mod out name md).
Proof.
  unfold reg_mod. destruct (str_eqb out (m_name md)); auto. unfold mod_consistent. simpl. intros H.
  apply Forall_map_iff. eapply Forall_impl; [|exact H]. intros a Ha. unfold acc_consistent in *.
  destruct (reg_acc_static name a) as (_ & W & _). rewrite W. auto.
Qed.

Lemma register_input_names s c o : map m_name (s_mods (register_input s c o)) = map m_name (s_mods s).
Proof. simpl. rewrite map_map. apply map_ext. intros md. apply reg_mod_static. Qed.

Lemma register_input_consistent s c o : consistent s -> consistent (register_input s c o).
Proof.
  intros [H ND]. split.
  - simpl. apply Forall_map_iff. eapply Forall_impl; [|exact H]. intros md. apply reg_mod_consistent.
  - rewrite register_input_names. auto.
Qed.

Lemma wires_reg name accs : wires (map (reg_acc name) accs) = wires accs.
Proof.
  unfold wires. induction accs as [|a l IH]; simpl; auto.
  destruct (reg_acc_static name a) as (_ & Hw & _). rewrite Hw, IH. auto.
Qed.

Lemma register_input_wires_ok s c o : wires_ok s -> wires_ok (register_input s c o).
Proof.
  unfold wires_ok. simpl. intros H. apply Forall_map_iff. eapply Forall_impl; [|exact H]. intros md.
  unfold reg_mod. destruct (str_eqb o (m_name md)); auto. simpl. rewrite wires_reg. auto.
Qed.

(* ------------------------------------------------------------------ whatever register_input keeps, the start-up keeps *)
Section Preserve.
  Variable P : state -> Prop.
  Hypothesis HP : forall s c o, P s -> P (register_input s c o).

  Lemma init_module_pres lk m : forall s, P s -> P (init_module lk s m).
  Proof.
    unfold init_module. induction lk as [|l lk IH]; simpl; intros s H; auto.
    apply IH. destruct (str_eqb m (fst l)); auto.
  Qed.

  Lemma fold_init_pres lk names : forall s, P s -> P (fold_left (init_module lk) names s).
  Proof. induction names as [|m l IH]; simpl; intros s H; auto. apply IH. apply init_module_pres. auto. Qed.

  Lemma visit_pres lk ms : forall acc0, P (fst acc0) -> P (fst (fold_left (startup_visit lk) ms acc0)).
  Proof.
    induction ms as [|m l IH]; simpl; intros acc0 H; auto. apply IH. unfold startup_visit.
    destruct (find_mod (init_module lk (fst acc0) (m_name m)) (m_name m)); simpl; apply init_module_pres; auto.
  Qed.

  Lemma startup_pres lk s0 : P s0 -> P (startup lk s0).
  Proof. intros H. unfold startup, startup_trace. simpl. apply fold_init_pres. apply visit_pres. auto. Qed.
End Preserve.

Lemma startup_consistent lk s0 : consistent s0 -> consistent (startup lk s0).
Proof. apply startup_pres. intros. apply register_input_consistent. auto. Qed.

Lemma startup_wires_ok lk s0 : wires_ok s0 -> wires_ok (startup lk s0).
Proof. apply startup_pres. intros. apply register_input_wires_ok. auto. Qed.

Lemma startup_names lk s0 : map m_name (s_mods (startup lk s0)) = map m_name (s_mods s0).
Proof.
  apply (startup_pres (fun s => map m_name (s_mods s) = map m_name (s_mods s0))); auto.
  intros s c o H. rewrite register_input_names. auto.
Qed.

Lemma started_consistent n lk s0 E ops :
  build n = Ok s0 -> well_configured n -> consistent (run E (startup lk s0) ops).
Proof. intros H W. apply run_consistent. apply startup_consistent. eapply build_consistent; eauto. Qed.

Lemma started_wires_ok n lk s0 E ops : build n = Ok s0 -> wires_ok (run E (startup lk s0) ops).
Proof. intros H. apply run_wires_ok. apply startup_wires_ok. eapply build_wires_ok; eauto. Qed.

(* ------------------------------------------------------------------ the description is current *)
(* describe has no other input than the module objects of the state: two states with the same module objects have the
   same description, whatever was described before *)
Lemma describe_function_of_modules s1 s2 : s_mods s1 = s_mods s2 -> describe s1 = describe s2.
Proof. unfold describe. intros H. rewrite H. auto. Qed.

Theorem description_is_current n lk s0 E ops :
  build n = Ok s0 -> well_configured n ->
  let s := run E (startup lk s0) ops in
  describe s = map (fun m => (m_name m, describe_mod m)) (filter m_export (s_mods s)) /\
  (forall m w g v pd, described s m w = Some (DP g v pd) ->
     exists p, param_at s m w = Some p /\ pd_dt pd = p_dt p /\ pd_unit pd = p_unit p /\
               pd_readonly pd = p_readonly p /\ pd_constant pd = p_constant p) /\
  (forall m w g v x r, described s m w = Some (DC g v x r) ->
     exists md a c, find_mod s m = Some md /\ lookup0 md w = Some a /\ a_body a = AC c /\ c_arg c = x /\ c_res c = r) /\
  (forall md a p w, In md (s_mods s) -> In a (m_accs md) -> a_body a = AP p -> a_wire a = Some w ->
     exists g v pd, described s (m_name md) w = Some (DP g v pd) /\ pd_dt pd = p_dt p).
Proof.
  intros H W s. assert (HC : consistent s) by (eapply started_consistent; eauto).
  assert (WO : wires_ok s) by (eapply started_wires_ok; eauto).
  split; [reflexivity|]. split; [|split].
  - intros m w g v pd D. destruct (described_param _ _ _ _ _ _ HC D) as (md & a & p & F & L & B & H1 & H2 & H3 & H4).
    exists p. unfold param_at. rewrite F, L, B. repeat split; auto.
  - intros m w g v x r D. eapply described_command; eauto.
  - intros md a p w Hmd Ha B Hw. destruct (exported_is_described _ _ _ _ _ HC WO Hmd Ha B Hw) as [_ D].
    eexists _, _, _. split; [exact D|]. reflexivity.
Qed.

(* ------------------------------------------------------------------ a datatype replaced by register_input is what is described *)
Lemma reg_acc_in name a accs : In a accs -> In (reg_acc name a) (map (reg_acc name) accs).
Proof. apply in_map. Qed.

Theorem register_input_reflected s ctrl md a p w :
  consistent s -> wires_ok s ->
  In md (s_mods s) -> In a (m_accs md) -> a_attr a = cb_attr -> a_body a = AP p -> a_wire a = Some w ->
  let s' := register_input s ctrl (m_name md) in
  exists g v pd, described s' (m_name md) w = Some (DP g v pd) /\ pd_dt pd = extend_dt (p_dt p) ctrl /\
                 param_at s' (m_name md) w = Some (reg_par ctrl p).
Proof.
  intros HC WO Hmd Ha At B Hw s'.
  assert (HC' : consistent s') by (apply register_input_consistent; auto).
  assert (WO' : wires_ok s') by (apply register_input_wires_ok; auto).
  set (md' := reg_mod (m_name md) ctrl md).
  assert (Hmd' : In md' (s_mods s')) by (simpl; apply in_map; auto).
  assert (N : m_name md' = m_name md) by apply reg_mod_static.
  assert (Ha' : In (reg_acc ctrl a) (m_accs md')).
  { unfold md', reg_mod. rewrite str_eqb_refl. simpl. apply in_map. auto. }
  assert (B' : a_body (reg_acc ctrl a) = AP (reg_par ctrl p)).
  { unfold reg_acc. rewrite At, str_eqb_refl, B. auto. }
  assert (Hw' : a_wire (reg_acc ctrl a) = Some w) by (destruct (reg_acc_static ctrl a) as (_ & X & _); rewrite X; auto).
  destruct (exported_is_described _ _ _ _ _ HC' WO' Hmd' Ha' B' Hw') as [P D]. rewrite N in *.
  eexists _, _, _. split; [exact D|]. split; [reflexivity|exact P].
Qed.

(* the properties of LemmasMain for the node as it serves: built, started (any attachments), then any history *)
Theorem started_nothing_undescribed n lk s0 E ops m w :
  build n = Ok s0 -> well_configured n ->
  let s := run E (startup lk s0) ops in
  described s m w = None ->
  (forall tok, exists r, do_read s m w tok = (s, r, []) /\ refused r) /\
  (forall j, exists r, do_change E s m w j = (s, r, []) /\ refused r) /\
  (forall arg, refused (do_do E s m w arg)) /\
  (exists r, do_activate s (Some (m, Some w)) = (s, r, []) /\ refused r) /\
  (assoc_str m (describe s) = None -> do_activate s (Some (m, None)) = (s, RpErr RNoMod, [])).
Proof.
  intros H W s D. assert (HC : consistent s) by (eapply started_consistent; eauto).
  split; [intros tok; apply undescribed_read; auto|]. split; [intros j; apply undescribed_change; auto|].
  split; [intros arg; apply undescribed_do; auto|]. split; [apply undescribed_activate; auto|].
  apply undescribed_module_activate; auto.
Qed.

Theorem started_datainfo_same_object n lk s0 E ops m w :
  build n = Ok s0 -> well_configured n ->
  let s := run E (startup lk s0) ops in
  (forall g v pd j, described s m w = Some (DP g v pd) -> pd_readonly pd = false -> pd_constant pd = None ->
     exists prev,
       match verdict E (pd_dt pd) j prev with
       | Err e => do_change E s m w j = (s, RpErr (RExc e), [])
       | Ok nv => exists s' us, do_change E s m w j =
                    (s', reply_of (dt_export (pd_dt pd) nv >>= fun x => Ok (with_qualifiers x)), us)
       end) /\
  (forall g v x r arg, described s m w = Some (DC g v x r) ->
     exists ret, do_do E s m w arg =
       reply_of (run_cmd E {| c_arg := x; c_res := r; c_ret := ret |} arg >>= fun y => Ok (with_qualifiers y))).
Proof.
  intros H W s. assert (HC : consistent s) by (eapply started_consistent; eauto). split.
  - intros. eapply change_uses_described_datainfo; eauto.
  - intros. eapply do_uses_described_datainfo; eauto.
Qed.

Theorem started_flags_predict n lk s0 E ops m w g v pd :
  build n = Ok s0 -> well_configured n ->
  let s := run E (startup lk s0) ops in
  described s m w = Some (DP g v pd) ->
  ((pd_readonly pd = true \/ pd_constant pd <> None) -> forall j, do_change E s m w j = (s, RpErr RReadOnly, [])) /\
  (pd_readonly pd = false -> pd_constant pd = None -> forall j, snd (fst (do_change E s m w j)) <> RpErr RReadOnly).
Proof.
  intros H W s D. assert (HC : consistent s) by (eapply started_consistent; eauto). split.
  - intros X j. eapply flags_refuse; eauto.
  - intros X Y j. eapply flags_allow; eauto.
Qed.

Theorem started_read_described n lk s0 E ops m w g v pd tok :
  build n = Ok s0 -> well_configured n ->
  let s := run E (startup lk s0) ops in
  described s m w = Some (DP g v pd) ->
  (pd_constant pd = None ->
     exists p, param_at s m w = Some p /\ p_dt p = pd_dt pd /\
       match p_hw p with
       | None => do_read s m w tok = (s, value_reply (pd_dt pd) (p_value p), [])
       | Some hw =>
           match dt_call (pd_dt pd) hw with
           | Ok nv => exists s' us, do_read s m w tok = (s', value_reply (pd_dt pd) nv, us) /\
                                    Forall (fun u => u_body u = value_body (pd_dt pd) nv) us
           | Err e => exists s' us, do_read s m w tok = (s', RpErr (RExc e), us) /\ Forall (fun u => u_body u = UE) us
           end
       end) /\
  (forall c, pd_constant pd = Some c -> do_read s m w tok = (s, RpData (with_qualifiers c), [])).
Proof.
  intros H W s D. assert (HC : consistent s) by (eapply started_consistent; eauto). split.
  - intros X. eapply read_nonconstant; eauto.
  - intros c X. eapply read_constant; eauto.
Qed.

(* every update of a step of the started node belongs to a parameter the report describes with the datatype of its object *)
Theorem started_updates_described n lk s0 E ops o :
  build n = Ok s0 -> well_configured n ->
  let s := run E (startup lk s0) ops in
  let s' := fst (fst (step E s o)) in
  Forall (fun u => exists w g v pd p,
            u_wire u = Some w /\ described s' (u_mod u) w = Some (DP g v pd) /\ param_at s' (u_mod u) w = Some p /\
            p_dt p = pd_dt pd /\
            u_body u = match p_err p with Some _ => UE | None => value_body (pd_dt pd) (p_value p) end)
         (snd (step E s o)).
Proof.
  intros H W s s'.
  assert (HC : consistent s') by (apply step_consistent; eapply started_consistent; eauto).
  assert (WO : wires_ok s').
  { eapply frame_wires_ok; [apply step_frame|]. eapply started_wires_ok; eauto. }
  eapply Forall_impl; [|apply step_updates_from_state]. fold s'.
  intros u (md & a & p & w & Hmd & Ha & B & Hw & Hu).
  destruct (exported_is_described _ _ _ _ _ HC WO Hmd Ha B Hw) as [P D].
  subst u. eexists w, _, _, _, p.
  split; [reflexivity|]. split; [exact D|]. split; [exact P|]. split; [reflexivity|].
  rewrite make_update_body. reflexivity.
Qed.
