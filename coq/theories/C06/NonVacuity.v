(* C06 -- non-vacuity audit: every premise of the property theorems of Properties.v is satisfied at once by a concrete,
   non-trivial instance: a node of three modules (two exported, one hidden) with a writable integer parameter, a renamed
   read-only string parameter behind a hardware read method, a class constant, a parameter hidden by the configuration, an
   enum parameter, a float value with a main unit, a parameter whose unit uses the dollar sign, and a command;  a history of
   ten operations of every kind; a non-empty python environment.  Each theorem is APPLIED at that instance. *)
From Coq Require Import ZArith NArith Bool List Lia.
Import ListNotations.
Require Import FV.Gen.C06 FV.Base.Util FV.Base.F64 FV.Base.PyVal FV.C01.Model FV.C06.Model FV.C06.Lemmas FV.C06.LemmasBuild
  FV.C06.LemmasMain FV.C06.LemmasValues FV.C06.Refuted FV.C06.Run FV.C06.Properties.

Definition s_n : str := [110]%N.                                   (* "n" *)
Definition s_h : str := [104]%N.                                   (* "h" *)
Definition s_cst : str := [99; 115; 116]%N.                        (* "cst" *)
Definition s_ucst : str := [95; 99; 115; 116]%N.                   (* "_cst" *)
Definition s_hid : str := [104; 105; 100]%N.                       (* "hid" *)
Definition s_uhid : str := [95; 104; 105; 100]%N.                  (* "_hid" *)
Definition s_go : str := [103; 111]%N.                             (* "go", predefined command *)
Definition s_mode : str := [109; 111; 100; 101]%N.                 (* "mode", predefined parameter *)
Definition s_value : str := [118; 97; 108; 117; 101]%N.            (* "value" *)
Definition s_ramp : str := [114; 97; 109; 112]%N.                  (* "ramp" *)
Definition s_K : str := [75]%N.                                    (* "K" *)
Definition s_dpm : str := [36; 47; 109; 105; 110]%N.               (* "$/min" *)
Definition s_Kpm : str := [75; 47; 109; 105; 110]%N.               (* "K/min" *)
Definition s_off : str := [111; 102; 102]%N.
Definition s_on : str := [111; 110]%N.
Definition s_ok : str := [111; 107]%N.
Definition s_cls : str := [120; 46; 67]%N.                         (* "x.C" *)
Definition s_Drivable : str := [68; 114; 105; 118; 97; 98; 108; 101]%N.
Definition s_Readable : str := [82; 101; 97; 100; 97; 98; 108; 101]%N.
Definition s_HasOffset : str := [72; 97; 115; 79]%N.
Definition long16 : pyval := PStr [115; 101; 110; 115; 111; 114; 45; 104; 101; 97; 100; 45; 48; 56; 49; 53]%N.

Definition pc (d : dtype) (unit : str) (ro : bool) (ccls ccfg dflt hw : option pyval) : pcfg :=
  {| pc_dt := d; pc_dtdefault := PInt 0; pc_unit := unit; pc_readonly := ro; pc_const_cls := ccls;
     pc_const_cfg := ccfg; pc_default := dflt; pc_hw := hw |}.
Definition par (attr : str) (d : dtype) (unit : str) (e : export_t) (ce : option export_t) (ro : bool)
  (ccls ccfg dflt hw : option pyval) : acfg :=
  {| ac_attr := attr; ac_export := e; ac_cfg_export := ce; ac_group := []; ac_vis := 1;
     ac_body := BParam (pc d unit ro ccls ccfg dflt hw) |}.
Definition a_foo := par s_foo (TInt 0 10) [] ExTrue None false None None (Some (PInt 3)) None.
Definition a_bar := par s_bar (TString 0 8 false) [] (ExName s_baz) None true None None (Some (PStr [])) (Some (PStr s_ok)).
Definition a_cst := par s_cst (TInt 0 100) [] ExTrue None false (Some (PInt 42)) None None None.
Definition a_hid := par s_hid TBool [] ExTrue (Some ExFalse) false None None (Some (PBool true)) None.
Definition a_mode := par s_mode (TEnum [(s_off, 0%Z); (s_on, 1%Z)]) [] ExTrue None false None None (Some (PInt 0)) None.
Definition a_go : acfg :=
  {| ac_attr := s_go; ac_export := ExTrue; ac_cfg_export := None; ac_group := s_foo; ac_vis := 3;
     ac_body := BCmd {| cc_arg := Some (TInt 0 5); cc_res := Some TBool; cc_ret := PInt 1 |} |}.
Definition a_value := par s_value dbl s_K ExTrue None true None None (Some (PInt 1)) None.
Definition a_ramp := par s_ramp dbl s_dpm ExTrue None false None None (Some (PInt 2)) None.

Definition mc_m : mcfg :=
  {| mc_name := s_m; mc_export := true; mc_group := []; mc_vis := 1; mc_impl := s_cls;
     mc_mro := [(s_foo, false); (s_HasOffset, true); (s_Drivable, false); (s_Readable, false)];
     mc_accs := [a_foo; a_bar; a_cst; a_hid; a_mode; a_go];
     mc_cfg_auto := [(KIfaces, MPList [s_Readable]); (KImpl, MPStr s_baz)] |}.
Definition mc_h : mcfg :=
  {| mc_name := s_h; mc_export := false; mc_group := []; mc_vis := 1; mc_impl := s_cls; mc_mro := [];
     mc_accs := [a_foo]; mc_cfg_auto := [] |}.
Definition mc_n : mcfg :=
  {| mc_name := s_n; mc_export := true; mc_group := s_bar; mc_vis := 2; mc_impl := s_cls; mc_mro := [(s_Readable, false)];
     mc_accs := [a_value; a_ramp]; mc_cfg_auto := [] |}.
Definition nv : list mcfg := [mc_m; mc_h; mc_n].

(* a python environment with entries, as the harness supplies them (finite tables; no theorem of C06 asks a law of it) *)
Definition E1 : pyenv := {| int_of := [(true, [55]%N, 7%Z)]; b64_of := [(true, [65; 65; 61; 61]%N, [0]%N)] |}.

Definition ops1 : list op :=
  [OActivate None; OChange s_m s_ufoo (PInt 7); ORead s_m s_baz 1; OHwSet s_m s_bar long16; ORead s_m s_baz 1;
   ODriverSet s_m s_foo (PInt 5) 2; ODo s_m s_go (PInt 2); ODescribe; OChange s_m s_ufoo (PInt 11);
   OActivate (Some (s_n, Some s_value))].
(* the same history stopped before the hardware register is spoilt: the next read succeeds *)
Definition ops0 : list op := [OActivate None; OChange s_m s_ufoo (PInt 7)].

Definition s0 : state := state_of nv.
Notation s1 := (run E1 s0 ops1).
Notation sA := (run E1 s0 ops0).

(* ---------------------------------------------------------------- the shared premises *)
Example C06_nv_built : build nv = Ok s0.
Proof. apply built_state_of. vm_compute. reflexivity. Qed.
Example C06_nv_well_configured : well_configured nv.
Proof. repeat constructor; simpl; intuition discriminate. Qed.
Example C06_nv_attrs_distinct : attrs_distinct nv.
Proof. repeat constructor; simpl; intuition discriminate. Qed.
(* the harness-side guard of check_case holds too *)
Example C06_nv_kind_ok : forallb (fun m => forallb kind_ok (mc_accs m)) nv = true.
Proof. vm_compute. reflexivity. Qed.
(* the instance is not degenerate: two described modules, 5 + 2 described names, the history changes the state and emits updates *)
Example C06_nv_sizes :
  map (fun e => length (md_accs (snd e))) (describe s0) = [5; 2]%nat /\
  length (filter mc_export nv) = 2%nat /\
  map (fun x => length (snd x)) (model_steps E1 s0 ops1) = [6; 1; 1; 0; 1; 1; 0; 0; 0; 1]%nat /\
  map (fun x => reply_code (fst x)) (model_steps E1 s0 ops1) = [1; 0; 0; 3; 20; 3; 0; 2; 20; 1]%nat.
Proof. repeat split; vm_compute; reflexivity. Qed.

(* ---------------------------------------------------------------- C06_lists_exactly, C06_duplicate_export_rejected *)
Example C06_lists_exactly_applies : Forall2 lists_module [mc_m; mc_n] (describe s0).
Proof. exact (C06_lists_exactly nv s0 C06_nv_built). Qed.
Example C06_nv_listed_names :
  map (fun e => map fst (md_accs (snd e))) (describe s0) = [[s_ufoo; s_baz; s_ucst; s_mode; s_go]; [s_value; s_ramp]].
Proof. vm_compute. reflexivity. Qed.
Example C06_duplicate_export_rejected_applies : NoDup (cfg_wires (mc_export mc_m) (mc_accs mc_m)).
Proof. apply (C06_duplicate_export_rejected nv mc_m s0); [simpl; auto | exact C06_nv_built]. Qed.
(* the contrapositive has an instance as well: Properties.C06_repaired_collision, built n_collision = false *)

(* ---------------------------------------------------------------- C06_wire_name_rules: both guards occur *)
Example C06_nv_predefined_both : is_predefined s_go = true /\ is_predefined s_foo = false.
Proof. split; vm_compute; reflexivity. Qed.

(* ---------------------------------------------------------------- C06_stable (no premise) *)
Example C06_stable_applies : describe s1 = describe s0 /\ length (describe s0) = 2%nat.
Proof. split; [apply C06_stable | vm_compute; reflexivity]. Qed.

(* ---------------------------------------------------------------- C06_nothing_undescribed *)
(* a name hidden by the configuration, in the state reached by the history *)
Example C06_nothing_undescribed_applies :
  (forall tok, exists r, do_read s1 s_m s_uhid tok = (s1, r, []) /\ refused r) /\
  (forall j, exists r, do_change E1 s1 s_m s_uhid j = (s1, r, []) /\ refused r) /\
  (forall arg, refused (do_do E1 s1 s_m s_uhid arg)) /\
  (exists r, do_activate s1 (Some (s_m, Some s_uhid)) = (s1, r, []) /\ refused r).
Proof.
  destruct (C06_nothing_undescribed nv s0 E1 ops1 s_m s_uhid C06_nv_built C06_nv_well_configured) as (A & B & C & D & _).
  - vm_compute. reflexivity.
  - repeat split; assumption.
Qed.
(* a module that is not exported: also the premise of the last conjunct holds *)
Example C06_nothing_undescribed_hidden_module :
  do_activate s1 (Some (s_h, None)) = (s1, RpErr RNoMod, []) /\
  (forall j, exists r, do_change E1 s1 s_h s_ufoo j = (s1, r, []) /\ refused r).
Proof.
  destruct (C06_nothing_undescribed nv s0 E1 ops1 s_h s_ufoo C06_nv_built C06_nv_well_configured) as (_ & B & _ & _ & D).
  - vm_compute. reflexivity.
  - split; [apply D; vm_compute; reflexivity | exact B].
Qed.

(* ---------------------------------------------------------------- C06_datainfo_same_object *)
Definition pd_foo : pdesc := {| pd_dt := TInt 0 10; pd_unit := []; pd_readonly := false; pd_constant := None |}.
Definition pd_baz : pdesc := {| pd_dt := TString 0 8 false; pd_unit := []; pd_readonly := true; pd_constant := None |}.
Definition pd_cst : pdesc := {| pd_dt := TInt 0 100; pd_unit := []; pd_readonly := true; pd_constant := Some (PInt 42) |}.
Example d_foo : described s1 s_m s_ufoo = Some (DP None None pd_foo).
Proof. vm_compute. reflexivity. Qed.
Example d_baz : described s1 s_m s_baz = Some (DP None None pd_baz).
Proof. vm_compute. reflexivity. Qed.
Example d_cst : described s1 s_m s_ucst = Some (DP None None pd_cst).
Proof. vm_compute. reflexivity. Qed.
Example d_go : described s1 s_m s_go = Some (DC (Some s_foo) (Some 3%Z) (Some (TInt 0 5)) (Some TBool)).
Proof. vm_compute. reflexivity. Qed.
Example d_bazA : described sA s_m s_baz = Some (DP None None pd_baz).
Proof. vm_compute. reflexivity. Qed.

Example C06_datainfo_same_object_param_applies : forall j,
  exists prev,
    match verdict E1 (TInt 0 10) j prev with
    | Err e => do_change E1 s1 s_m s_ufoo j = (s1, RpErr (RExc e), [])
    | Ok nv0 => exists s' us, do_change E1 s1 s_m s_ufoo j =
                  (s', reply_of (dt_export (TInt 0 10) nv0 >>= fun x => Ok (with_qualifiers x)), us)
    end.
Proof.
  intros j.
  exact (proj1 (C06_datainfo_same_object nv s0 E1 ops1 s_m s_ufoo C06_nv_built C06_nv_well_configured)
           None None pd_foo j d_foo eq_refl eq_refl).
Qed.
(* both branches of the verdict are taken by payloads *)
Example C06_nv_verdict_both :
  is_data (reply3 (do_change E1 s1 s_m s_ufoo (PInt 9))) = true /\
  rerr_is (reply3 (do_change E1 s1 s_m s_ufoo (PInt 11))) (RExc ERange) = true /\
  length (upds3 (do_change E1 s1 s_m s_ufoo (PInt 9))) = 1%nat.
Proof. repeat split; vm_compute; reflexivity. Qed.
Example C06_datainfo_same_object_command_applies : forall arg,
  exists ret, do_do E1 s1 s_m s_go arg =
    reply_of (run_cmd E1 {| c_arg := Some (TInt 0 5); c_res := Some TBool; c_ret := ret |} arg >>= fun y => Ok (with_qualifiers y)).
Proof.
  intros arg.
  exact (proj2 (C06_datainfo_same_object nv s0 E1 ops1 s_m s_go C06_nv_built C06_nv_well_configured)
           (Some s_foo) (Some 3%Z) (Some (TInt 0 5)) (Some TBool) arg d_go).
Qed.
Example C06_nv_command_both :
  is_data (do_do E1 s1 s_m s_go (PInt 2)) = true /\ rerr_is (do_do E1 s1 s_m s_go (PInt 6)) (RExc ERange) = true.
Proof. split; vm_compute; reflexivity. Qed.

(* ---------------------------------------------------------------- C06_flags_predict: all three guards *)
Example C06_flags_predict_writable_applies : forall j, snd (fst (do_change E1 s1 s_m s_ufoo j)) <> RpErr RReadOnly.
Proof.
  exact (proj2 (C06_flags_predict nv s0 E1 ops1 s_m s_ufoo None None pd_foo C06_nv_built C06_nv_well_configured d_foo)
           eq_refl eq_refl).
Qed.
Example C06_flags_predict_readonly_applies : forall j, do_change E1 s1 s_m s_baz j = (s1, RpErr RReadOnly, []).
Proof.
  exact (proj1 (C06_flags_predict nv s0 E1 ops1 s_m s_baz None None pd_baz C06_nv_built C06_nv_well_configured d_baz)
           (or_introl eq_refl)).
Qed.
Example C06_flags_predict_constant_applies : forall j, do_change E1 s1 s_m s_ucst j = (s1, RpErr RReadOnly, []).
Proof.
  assert (H : pd_constant pd_cst <> None) by discriminate.
  exact (proj1 (C06_flags_predict nv s0 E1 ops1 s_m s_ucst None None pd_cst C06_nv_built C06_nv_well_configured d_cst)
           (or_intror H)).
Qed.

(* ---------------------------------------------------------------- C06_constant_is_readonly: the class says readonly = false *)
Example C06_constant_is_readonly_applies : pd_readonly pd_cst = true.
Proof.
  exact (C06_constant_is_readonly nv s0 E1 ops1 s_m s_ucst None None pd_cst (PInt 42) C06_nv_built C06_nv_well_configured
           d_cst eq_refl).
Qed.
Example C06_nv_constant_class_says_writable :
  match ac_body a_cst with BParam p => pc_readonly p | BCmd _ => true end = false.
Proof. reflexivity. Qed.

(* ---------------------------------------------------------------- C06_read_described: all four cases *)
Definition read_concl (s : state) (m w : str) (pd : pdesc) (tok : N) : Prop :=
  (pd_constant pd = None ->
     exists p, param_at s m w = Some p /\ p_dt p = pd_dt pd /\
       match p_hw p with
       | None => do_read s m w tok = (s, value_reply (pd_dt pd) (p_value p), [])
       | Some hw =>
           match dt_call (pd_dt pd) hw with
           | Ok nv0 => exists s' us, do_read s m w tok = (s', value_reply (pd_dt pd) nv0, us) /\
                                    Forall (fun u => u_body u = value_body (pd_dt pd) nv0) us
           | Err e => exists s' us, do_read s m w tok = (s', RpErr (RExc e), us) /\ Forall (fun u => u_body u = UE) us
           end
       end) /\
  (forall c, pd_constant pd = Some c -> do_read s m w tok = (s, RpData (with_qualifiers c), [])).
(* hardware value accepted by the described datatype (state sA: register holds "ok") *)
Example C06_read_described_hw_ok_applies : read_concl sA s_m s_baz pd_baz 1.
Proof.
  exact (C06_read_described nv s0 E1 ops0 s_m s_baz None None pd_baz 1%N C06_nv_built C06_nv_well_configured d_bazA).
Qed.
(* hardware value refused by the described datatype (state s1: register holds 16 characters, maxchars 8) *)
Example C06_read_described_hw_err_applies : read_concl s1 s_m s_baz pd_baz 2.
Proof.
  exact (C06_read_described nv s0 E1 ops1 s_m s_baz None None pd_baz 2%N C06_nv_built C06_nv_well_configured d_baz).
Qed.
Example C06_read_described_cached_applies : read_concl s1 s_m s_ufoo pd_foo 1.
Proof.
  exact (C06_read_described nv s0 E1 ops1 s_m s_ufoo None None pd_foo 1%N C06_nv_built C06_nv_well_configured d_foo).
Qed.
Example C06_read_described_constant_applies : read_concl s1 s_m s_ucst pd_cst 1.
Proof.
  exact (C06_read_described nv s0 E1 ops1 s_m s_ucst None None pd_cst 1%N C06_nv_built C06_nv_well_configured d_cst).
Qed.
(* the branches really are the ones named: data + one value update / error + one error update / data, no update / constant *)
Example C06_nv_read_branches :
  reply_eq_data (reply3 (do_read sA s_m s_baz 1)) (with_qualifiers (PStr s_ok)) = true /\
  map u_body (upds3 (do_read sA s_m s_baz 1)) = [UV (PStr s_ok)] /\
  rerr_is (reply3 (do_read s1 s_m s_baz 2)) (RExc ERange) = true /\
  map u_body (upds3 (do_read s1 s_m s_baz 2)) = [UE] /\
  reply_eq_data (reply3 (do_read s1 s_m s_ufoo 1)) (with_qualifiers (PInt 5)) = true /\
  reply_eq_data (reply3 (do_read s1 s_m s_ucst 1)) (with_qualifiers (PInt 42)) = true.
Proof. repeat split; vm_compute; reflexivity. Qed.

(* ---------------------------------------------------------------- C06_cached_values_converted *)
Example C06_cached_values_converted_applies :
  exists p, param_at s1 s_m s_ufoo = Some p /\ p_dt p = TInt 0 10 /\ (p_err p = None -> produced_by (TInt 0 10) (p_value p)).
Proof.
  exact (C06_cached_values_converted nv s0 E1 ops1 s_m s_ufoo None None pd_foo C06_nv_built C06_nv_well_configured
           C06_nv_attrs_distinct d_foo).
Qed.
(* the inner premise p_err p = None holds there (and fails for baz, whose read error is stored) *)
Example C06_nv_cached_inner_premise :
  option_map p_err (param_at s1 s_m s_ufoo) = Some None /\ option_map p_value (param_at s1 s_m s_ufoo) = Some (PInt 5) /\
  option_map p_err (param_at s1 s_m s_baz) = Some (Some 1%N).
Proof. repeat split; vm_compute; reflexivity. Qed.

(* ---------------------------------------------------------------- C06_emitted_values_converted *)
Definition emitted_concl (s : state) (o : op) : Prop :=
  let s' := fst (fst (step E1 s o)) in
  Forall (fun u => exists w g v pd p,
            u_wire u = Some w /\ described s' (u_mod u) w = Some (DP g v pd) /\ param_at s' (u_mod u) w = Some p /\
            p_dt p = pd_dt pd /\
            u_body u = match p_err p with Some _ => UE | None => value_body (pd_dt pd) (p_value p) end /\
            (p_err p = None -> produced_by (pd_dt pd) (p_value p)))
         (snd (step E1 s o)).
Example C06_emitted_values_converted_change_applies : emitted_concl s1 (OChange s_m s_ufoo (PInt 8)).
Proof.
  exact (C06_emitted_values_converted nv s0 E1 ops1 (OChange s_m s_ufoo (PInt 8)) C06_nv_built C06_nv_well_configured
           C06_nv_attrs_distinct).
Qed.
Example C06_emitted_values_converted_activate_applies : emitted_concl s1 (OActivate None).
Proof.
  exact (C06_emitted_values_converted nv s0 E1 ops1 (OActivate None) C06_nv_built C06_nv_well_configured
           C06_nv_attrs_distinct).
Qed.
(* the lists the Forall ranges over are not empty: 1 update for the change, 6 for the activation (one of them an error update) *)
Example C06_nv_emitted_nonempty :
  map u_body (snd (step E1 s1 (OChange s_m s_ufoo (PInt 8)))) = [UV (PInt 8)] /\
  length (snd (step E1 s1 (OActivate None))) = 6%nat /\
  existsb (fun u => match u_body u with UE => true | _ => false end) (snd (step E1 s1 (OActivate None))) = true.
Proof. repeat split; vm_compute; reflexivity. Qed.

(* ---------------------------------------------------------------- C06_interface_and_features *)
Example C06_interface_and_features_applies :
  Forall2 (fun mc e => md_impl (snd e) = mc_impl mc /\ md_ifaces (snd e) = interface_classes (mc_mro mc) /\
                       md_features (snd e) = features_of (mc_mro mc))
          [mc_m; mc_n] (describe s1).
Proof. destruct C06_interface_and_features as (A & _). exact (A nv s0 E1 ops1 C06_nv_built). Qed.
(* the configuration of module m claims Readable and another implementation; the MRO has two base classes and a feature *)
Example C06_nv_auto_props :
  map (fun e => md_ifaces (snd e)) (describe s1) = [[s_Drivable]; [s_Readable]] /\
  map (fun e => md_features (snd e)) (describe s1) = [[s_HasOffset]; []] /\
  map (fun e => md_impl (snd e)) (describe s1) = [s_cls; s_cls] /\
  interface_classes (mc_mro mc_h) = [].
Proof. repeat split; vm_compute; reflexivity. Qed.

(* ---------------------------------------------------------------- C06_main_unit_substituted *)
Definition no_dollarb (s : str) : bool := forallb (fun c => negb (N.eqb c dollar)) s.
Lemma no_dollarb_ok s : no_dollarb s = true -> no_dollar s.
Proof.
  unfold no_dollarb, no_dollar. intros H c Hc. rewrite forallb_forall in H. apply H in Hc.
  destruct (N.eqb c dollar); [discriminate | reflexivity].
Qed.
Definition p_ramp : pcfg := pc dbl s_dpm false None None (Some (PInt 2)) None.
Definition p_value0 : pcfg := pc dbl s_K true None None (Some (PInt 1)) None.
(* module n: the main unit is the unit of its value parameter, "K"; ramp is declared with "$/min" *)
Example C06_nv_main_unit : main_unit (mc_accs mc_n) = Some s_K.
Proof. vm_compute. reflexivity. Qed.
Example C06_main_unit_substituted_applies :
  exists r, build_par (Some s_K) p_ramp = Ok r /\ no_dollar (p_unit r) /\ p_unit r = s_Kpm.
Proof.
  assert (B : match build_par (Some s_K) p_ramp with Ok r => str_eqb (p_unit r) s_Kpm | Err _ => false end = true)
    by (vm_compute; reflexivity).
  destruct (build_par (Some s_K) p_ramp) as [r|e] eqn:H; [|discriminate].
  exists r. split; [reflexivity|].
  destruct (C06_main_unit_substituted s_K s_dpm (Some s_K) p_ramp r) as (A & _).
  - apply no_dollarb_ok. vm_compute. reflexivity.
  - exact H.
  - reflexivity.
  - split; [apply A; reflexivity | apply str_eqb_eq; exact B].
Qed.
(* second conjunct: a unit without the dollar sign stays as written *)
Example C06_main_unit_substituted_second_applies :
  exists r, build_par (Some s_K) p_value0 = Ok r /\ p_unit r = s_K.
Proof.
  assert (B : match build_par (Some s_K) p_value0 with Ok r => true | Err _ => false end = true) by (vm_compute; reflexivity).
  destruct (build_par (Some s_K) p_value0) as [r|e] eqn:H; [|discriminate].
  exists r. split; [reflexivity|].
  destruct (C06_main_unit_substituted s_K s_K (Some s_K) p_value0 r) as (_ & A).
  - apply no_dollarb_ok. vm_compute. reflexivity.
  - exact H.
  - reflexivity.
  - apply A. apply no_dollarb_ok. vm_compute. reflexivity.
Qed.
(* and the node really describes the substituted unit *)
Example C06_nv_described_unit :
  match described s1 s_n s_ramp with Some (DP _ _ pd) => str_eqb (pd_unit pd) s_Kpm | _ => false end = true.
Proof. vm_compute. reflexivity. Qed.

(* ---------------------------------------------------------------- the harness view: the correspondence check of Run.v accepts
   the instance when the observations are what the model answers (so it is an instance the harness can build; the guard
   on predefined names is C06_nv_kind_ok above).  Stated with check_steps, not with the case record, whose fields change. *)
Example C06_nv_check_steps :
  check_steps E1 s0 ops1 (map (fun x => {| o_reply := fst x; o_upds := snd x |}) (model_steps E1 s0 ops1)) = true.
Proof. vm_compute. reflexivity. Qed.
