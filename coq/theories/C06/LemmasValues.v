(* C06 -- the values a node holds (and therefore emits) for a parameter were produced by the datatype the report shows:
   invariant over all histories of requests, hardware reads and driver assignments *)
From Coq Require Import ZArith NArith Bool List Lia.
Import ListNotations.
Require Import FV.Base.Util FV.Base.F64 FV.Base.PyVal FV.C01.Model FV.Gen.C06 FV.C06.Model FV.C06.Lemmas FV.C06.LemmasBuild
  FV.C06.LemmasMain.

(* y is an output of the conversion (__call__) or of the validation (validate) of the datatype d *)
Definition produced_by (d : dtype) (y : pyval) : Prop :=
  (exists x, dt_call d x = Ok y) \/ (exists x prev, dt_validate d x prev = Ok y).

Definition par_ok (p : par) : Prop := p_err p = None -> produced_by (p_dt p) (p_value p).
Definition acc_ok (a : acc) : Prop := match a_body a with AP p => par_ok p | AC _ => True end.
Definition mod_ok (md : modl) : Prop := Forall acc_ok (m_accs md) /\ NoDup (map a_attr (m_accs md)).
Definition state_ok (s : state) : Prop := Forall mod_ok (s_mods s) /\ NoDup (map m_name (s_mods s)).

(* attribute names are the keys of the python dict cls.accessibles *)
Definition attrs_distinct (n : list mcfg) : Prop := Forall (fun mc => NoDup (map ac_attr (mc_accs mc))) n.

Lemma nodup_map_inj {A B} (f : A -> B) (l : list A) x y :
  NoDup (map f l) -> In x l -> In y l -> f x = f y -> x = y.
Proof.
  induction l as [|a l IH]; simpl; intros ND Hx Hy E; [tauto|].
  inversion ND; subst. destruct Hx as [Hx|Hx], Hy as [Hy|Hy]; subst; auto.
  - exfalso. apply H1. rewrite E. apply in_map. auto.
  - exfalso. apply H1. rewrite <- E. apply in_map. auto.
Qed.

(* ------------------------------------------------------------------ the update of one parameter object keeps the invariant *)
Lemma set_val_acc_ok attr v e h a :
  acc_ok a ->
  (forall p, a_body a = AP p -> str_eqb attr (a_attr a) = true -> par_ok (with_value p v e h)) ->
  acc_ok (set_val_acc attr v e h a).
Proof.
  intros H1 H2. unfold set_val_acc. destruct (str_eqb attr (a_attr a)) eqn:E; auto.
  destruct (a_body a) as [p|c] eqn:B; auto. unfold acc_ok. simpl. apply H2; auto.
Qed.

Lemma set_val_acc_attr attr v e h a : a_attr (set_val_acc attr v e h a) = a_attr a.
Proof. destruct (set_val_acc_static attr v e h a) as (H & _). auto. Qed.

Lemma set_val_mod_ok m attr v e h md :
  mod_ok md ->
  (str_eqb m (m_name md) = true -> forall a p, In a (m_accs md) -> a_body a = AP p ->
     str_eqb attr (a_attr a) = true -> par_ok (with_value p v e h)) ->
  mod_ok (set_val_mod m attr v e h md).
Proof.
  intros [H1 H2] H3. unfold set_val_mod. destruct (str_eqb m (m_name md)) eqn:E; [|split; auto].
  split; simpl.
  - apply Forall_map_iff. rewrite Forall_forall in *. intros a Ha. apply set_val_acc_ok; auto.
    intros p B X. eapply H3; eauto.
  - rewrite map_map. rewrite (map_ext _ a_attr); auto. intros a. apply set_val_acc_attr.
Qed.

Lemma set_val_ok s m attr v e h :
  state_ok s ->
  (forall md a p, In md (s_mods s) -> str_eqb m (m_name md) = true -> In a (m_accs md) -> a_body a = AP p ->
     str_eqb attr (a_attr a) = true -> par_ok (with_value p v e h)) ->
  state_ok (set_val s m attr v e h).
Proof.
  intros [H1 H2] H3. split.
  - unfold set_val. simpl. apply Forall_map_iff. rewrite Forall_forall in *. intros md Hmd.
    apply set_val_mod_ok; auto. intros X a p Ha B Y. eapply H3; eauto.
  - rewrite set_val_names. auto.
Qed.

(* the one parameter object a request reaches *)
Lemma target_unique s m md a p attr v e h :
  state_ok s -> find_mod s m = Some md -> In a (m_accs md) -> a_body a = AP p -> a_attr a = attr ->
  par_ok (with_value p v e h) ->
  state_ok (set_val s m attr v e h).
Proof.
  intros OK F Ha B At P. apply set_val_ok; auto.
  intros md' a' p' Hmd' Nm Ha' B' At'.
  destruct OK as [OK ND]. unfold find_mod in F. pose proof (find_some _ _ F) as [Hmd Nm0].
  assert (md' = md).
  { eapply (nodup_map_inj m_name); eauto. apply str_eqb_eq in Nm. apply str_eqb_eq in Nm0. congruence. }
  subst md'. rewrite Forall_forall in OK. destruct (OK md Hmd) as [_ NDa].
  assert (a' = a).
  { eapply (nodup_map_inj a_attr); eauto. apply str_eqb_eq in At'. congruence. }
  subst a'. rewrite B in B'. inversion B'; subst. auto.
Qed.

Lemma lookup0_in md w a : lookup0 md w = Some a -> In a (m_accs md).
Proof. unfold lookup0. intros H. apply find_some in H. destruct H as [H _]. apply in_rev in H. auto. Qed.

Lemma find_attr_in md attr a : find_attr md attr = Some a -> In a (m_accs md) /\ a_attr a = attr.
Proof.
  unfold find_attr. intros H. apply find_some in H. destruct H as [H1 H2]. split; auto.
  apply str_eqb_eq in H2. auto.
Qed.

Lemma target_ok s m md a p : state_ok s -> find_mod s m = Some md -> In a (m_accs md) -> a_body a = AP p -> par_ok p.
Proof.
  intros [OK _] F Ha B. unfold find_mod in F. apply find_some in F. destruct F as [Hmd _].
  rewrite Forall_forall in OK. destruct (OK md Hmd) as [OKa _]. rewrite Forall_forall in OKa.
  specialize (OKa a Ha). unfold acc_ok in OKa. rewrite B in OKa. auto.
Qed.

Lemma step_ok E s o : state_ok s -> state_ok (fst (fst (step E s o))).
Proof.
  intros OK. destruct o; simpl; auto.
  - (* read *)
    unfold do_read. destruct (find_mod s m) as [md|] eqn:F; auto. destruct (lookup0 md w) as [a|] eqn:L; auto.
    destruct (a_body a) as [p|c] eqn:B; auto. destruct (p_constant p); auto. destruct (p_hw p) as [hw|]; auto.
    unfold read_hw. destruct (dt_call (p_dt p) hw) as [nv|e] eqn:C; simpl.
    + eapply target_unique; eauto using lookup0_in. intros _. left. exists hw. auto.
    + destruct (err_is (p_err p) tok); simpl; auto.
      eapply target_unique; eauto using lookup0_in. intros X. discriminate.
  - (* change *)
    unfold do_change. destruct (find_mod s m) as [md|] eqn:F; auto. destruct (lookup0 md w) as [a|] eqn:L; auto.
    destruct (a_body a) as [p|c] eqn:B; auto. destruct (p_constant p); auto. destruct (p_readonly p); auto.
    destruct (wire E (p_dt p) j (p_value p) >>= _) as [nv|e] eqn:C; simpl; auto.
    eapply target_unique; eauto using lookup0_in. intros _. right.
    apply bind_ok in C. destruct C as (x & _ & C). exists x, PNone. auto.
  - (* activate *)
    unfold do_activate. destruct spec as [[m ow]|]; simpl; auto.
    destruct (find _ (s_mods s)); auto. destruct ow; simpl; auto.
    destruct (lookup0 m0 s0); auto. destruct (a_body a); simpl; auto.
  - (* driver assignment *)
    unfold do_driver_set. destruct (find_mod s m) as [md|] eqn:F; auto. destruct (find_attr md attr) as [a|] eqn:L; auto.
    destruct (find_attr_in _ _ _ L) as [Ha At].
    destruct (a_body a) as [p|c] eqn:B; auto. destruct (dt_call (p_dt p) v) as [nv|e] eqn:C; simpl.
    + eapply target_unique; eauto. intros _. left. exists v. auto.
    + destruct (err_is (p_err p) tok); simpl; auto. eapply target_unique; eauto. intros X. discriminate.
  - (* the hardware changes *)
    unfold do_hw_set. destruct (find_mod s m) as [md|] eqn:F; auto. destruct (find_attr md attr) as [a|] eqn:L; auto.
    destruct (find_attr_in _ _ _ L) as [Ha At].
    destruct (a_body a) as [p|c] eqn:B; auto. destruct (p_hw p); simpl; auto.
    eapply target_unique; eauto. unfold par_ok. simpl. eapply target_ok; eauto.
Qed.

Lemma run_ok E ops : forall s, state_ok s -> state_ok (run E s ops).
Proof. induction ops; intros s H; simpl; auto. apply IHops. apply step_ok; auto. Qed.

(* ------------------------------------------------------------------ a freshly built node *)
Lemma iter_res_last {A} (k : nat) (f : A -> res A) (x y : A) : iter_res (S k) f x = Ok y -> exists x', f x' = Ok y.
Proof.
  revert x. induction k as [|k IH]; intros x H; simpl in H.
  - destruct (f x) eqn:E; simpl in H; [|discriminate]. inversion H; subst. eauto.
  - destruct (f x) as [x1|] eqn:E; simpl in H; [|discriminate]. apply (IH x1). simpl. auto.
Qed.

Lemma build_par_ok mu pc r : build_par mu pc = Ok r -> par_ok r.
Proof.
  unfold build_par. intros H. apply bind_ok in H. destruct H as (c & _ & H). apply bind_ok in H.
  destruct H as (ve & Hv & H). inversion H; subst. unfold par_ok. simpl.
  destruct (pc_default pc) as [v|].
  - apply bind_ok in Hv. destruct Hv as (v' & Hi & Hv). inversion Hv; subst. simpl. intros _. left.
    eapply iter_res_last; eauto.
  - inversion Hv; subst. simpl. discriminate.
Qed.

Lemma build_acc_ok me mu a b : build_acc me mu a = Ok b -> acc_ok b.
Proof.
  unfold build_acc. intros H. apply bind_ok in H. destruct H as (x & Hx & H). inversion H; subst. unfold acc_ok. simpl.
  destruct (ac_body a) as [pc|cc].
  - apply bind_ok in Hx. destruct Hx as (r & Hr & Hx). inversion Hx; subst. eapply build_par_ok; eauto.
  - inversion Hx; subst. auto.
Qed.

Lemma forall2_accs_ok me mu (l : list acfg) (l' : list acc) :
  Forall2 (fun a b => build_acc me mu a = Ok b) l l' -> Forall acc_ok l' /\ map a_attr l' = map ac_attr l.
Proof.
  induction 1 as [|a b l l' Hab Hl [IH1 IH2]]; simpl; [split; auto|].
  destruct (build_acc_wires _ _ _ _ Hab) as (Hat & _). split; [constructor; eauto using build_acc_ok|]. rewrite Hat, IH2. auto.
Qed.

Lemma build_ok n s : build n = Ok s -> well_configured n -> attrs_distinct n -> state_ok s.
Proof.
  intros H W AD. destruct (build_mods _ _ H) as (F & _).
  assert (G : Forall mod_ok (s_mods s) /\ map m_name (s_mods s) = map mc_name n).
  { clear H W. induction F as [|mc md l l' Hb Hl IH]; simpl; [split; auto|].
    inversion AD; subst. destruct (IH H2) as [IH1 IH2].
    destruct (build_mod_static _ _ Hb) as (Hn & _ & _ & _ & _ & Ha & _).
    destruct (forall2_accs_ok _ _ _ _ Ha) as [A1 A2].
    split; [constructor; auto|rewrite Hn, IH2; auto]. split; auto. rewrite A2. auto. }
  destruct G as [G1 G2]. split; auto. rewrite G2. exact W.
Qed.

(* ------------------------------------------------------------------ the theorem *)
Theorem cached_values_converted n s0 E ops m w g v pd :
  build n = Ok s0 -> well_configured n -> attrs_distinct n ->
  let s := run E s0 ops in
  described s m w = Some (DP g v pd) ->
  exists p, param_at s m w = Some p /\ p_dt p = pd_dt pd /\
            (p_err p = None -> produced_by (pd_dt pd) (p_value p)).
Proof.
  intros H W AD s D. assert (HC : consistent s) by (eapply reachable_consistent; eauto).
  assert (OK : state_ok s) by (apply run_ok; eapply build_ok; eauto).
  destruct (described_param _ _ _ _ _ _ HC D) as (md & a & p & F & L & B & Hd & _).
  exists p. unfold param_at. rewrite F, L, B. repeat split; auto.
  rewrite <- Hd. eapply target_ok; eauto using lookup0_in.
Qed.

(* what an update of a parameter object carries: the error mark, or the export of its cached value *)
Lemma make_update_body m w p :
  u_body (make_update m w p) = match p_err p with Some _ => UE | None => value_body (p_dt p) (p_value p) end.
Proof. unfold make_update, value_body. simpl. destruct (p_err p); auto. Qed.

(* ------------------------------------------------------------------ distinct wire names in every module: an invariant *)
Definition wires_ok (s : state) : Prop := Forall (fun md => NoDup (wires (m_accs md))) (s_mods s).

Lemma wires_set_val attr v e h accs : wires (map (set_val_acc attr v e h) accs) = wires accs.
Proof.
  unfold wires. induction accs as [|a l IH]; simpl; auto.
  destruct (set_val_acc_static attr v e h a) as (_ & Hw & _). rewrite Hw, IH. auto.
Qed.

Lemma frame_wires_ok s s' : frame s s' -> wires_ok s -> wires_ok s'.
Proof.
  destruct 1; auto. unfold wires_ok, set_val. simpl. intros H. apply Forall_map_iff.
  eapply Forall_impl; [|exact H]. intros md. unfold set_val_mod. destruct (str_eqb m (m_name md)); auto. simpl.
  rewrite wires_set_val. auto.
Qed.

Lemma run_wires_ok E ops : forall s, wires_ok s -> wires_ok (run E s ops).
Proof. induction ops; intros s H; simpl; auto. apply IHops. eapply frame_wires_ok; [apply step_frame|auto]. Qed.

Lemma build_wires_ok n s : build n = Ok s -> wires_ok s.
Proof.
  intros H. destruct (build_mods _ _ H) as (F & _). unfold wires_ok. clear H.
  induction F as [|mc md l l' Hb Hl IH]; constructor; auto.
  destruct (build_mod_static _ _ Hb) as (_ & _ & _ & _ & _ & _ & Hd). apply dup_free_nodup. auto.
Qed.

Lemma wires_app l1 l2 : wires (l1 ++ l2) = wires l1 ++ wires l2.
Proof. unfold wires. apply flat_map_app. Qed.

Lemma wires_rev l : wires (rev l) = rev (wires l).
Proof.
  induction l as [|a l IH]; simpl; auto. rewrite wires_app, IH. unfold wires at 2 3. simpl.
  destruct (a_wire a); simpl; rewrite ?app_nil_r; auto.
Qed.

Lemma in_wires l a w : In a l -> a_wire a = Some w -> In w (wires l).
Proof. intros H1 H2. unfold wires. apply in_flat_map. exists a. rewrite H2. simpl. auto. Qed.

Lemma find_unique_wire l a w : NoDup (wires l) -> In a l -> a_wire a = Some w -> find (wire_is w) l = Some a.
Proof.
  induction l as [|x r IH]; simpl; intros ND Ha Hw; [tauto|].
  destruct (wire_is w x) eqn:E.
  - destruct Ha as [Ha|Ha]; [subst; auto|]. exfalso. apply wire_is_true in E.
    unfold wires in ND. simpl in ND. rewrite E in ND. simpl in ND. inversion ND; subst. apply H1. eapply in_wires; eauto.
  - destruct Ha as [Ha|Ha].
    + subst x. assert (X : wire_is w a = true) by (apply wire_is_true; auto). congruence.
    + apply IH; auto. unfold wires in ND. simpl in ND. destruct (a_wire x); simpl in ND; auto. inversion ND; auto.
Qed.

Lemma lookup0_unique md w a : NoDup (wires (m_accs md)) -> In a (m_accs md) -> a_wire a = Some w -> lookup0 md w = Some a.
Proof.
  intros ND Ha Hw. unfold lookup0. apply find_unique_wire; auto.
  - rewrite wires_rev. apply NoDup_rev. auto.
  - apply in_rev. rewrite rev_involutive. auto.
Qed.

Lemma find_mod_unique_in s md : NoDup (map m_name (s_mods s)) -> In md (s_mods s) -> find_mod s (m_name md) = Some md.
Proof.
  unfold find_mod. induction (s_mods s) as [|x l IH]; simpl; intros ND H; [tauto|].
  inversion ND; subst. destruct H as [H|H].
  - subst. rewrite str_eqb_refl. auto.
  - destruct (str_eqb (m_name md) (m_name x)) eqn:E; auto.
    apply str_eqb_eq in E. exfalso. apply H2. rewrite <- E. apply in_map. auto.
Qed.

(* an exported parameter object of the state is what the report describes under its wire name *)
Lemma exported_is_described s md a p w :
  consistent s -> wires_ok s -> In md (s_mods s) -> In a (m_accs md) -> a_body a = AP p -> a_wire a = Some w ->
  param_at s (m_name md) w = Some p /\
  described s (m_name md) w =
    Some (DP (nondefault_str (a_group a)) (nondefault_vis (a_vis a))
             {| pd_dt := p_dt p; pd_unit := p_unit p; pd_readonly := p_readonly p; pd_constant := p_constant p |}).
Proof.
  intros HC WO Hmd Ha B Hw. pose proof HC as [HC1 ND].
  assert (F : find_mod s (m_name md) = Some md) by (apply find_mod_unique_in; auto).
  assert (L : lookup0 md w = Some a).
  { apply lookup0_unique; auto. unfold wires_ok in WO. rewrite Forall_forall in WO. auto. }
  split.
  - unfold param_at. rewrite F, L, B. auto.
  - rewrite (described_lookup _ _ _ HC), F.
    assert (X : m_export md = true).
    { rewrite Forall_forall in HC1. specialize (HC1 md Hmd). unfold mod_consistent in HC1. rewrite Forall_forall in HC1.
      specialize (HC1 a Ha). unfold acc_consistent in HC1. destruct (m_export md); auto. rewrite HC1 in Hw; auto. discriminate. }
    rewrite X, L. simpl. unfold describe_acc. rewrite B. auto.
Qed.

(* ------------------------------------------------------------------ where the updates of a step come from *)
Definition from_state (s' : state) (u : upd) : Prop :=
  exists md a p w, In md (s_mods s') /\ In a (m_accs md) /\ a_body a = AP p /\ a_wire a = Some w /\
                   u = make_update (m_name md) (Some w) p.

Lemma announce_from_state s m md a p v e h :
  find_mod s m = Some md -> In a (m_accs md) -> a_body a = AP p ->
  Forall (from_state (set_val s m (a_attr a) v e h)) (announce s m a (with_value p v e h)).
Proof.
  intros F Ha B. unfold announce. destruct (a_wire a) as [w|] eqn:W; auto. destruct (listening s m w); auto.
  constructor; auto. unfold find_mod in F. apply find_some in F. destruct F as [Hmd Nm].
  exists (set_val_mod m (a_attr a) v e h md), (set_val_acc (a_attr a) v e h a), (with_value p v e h), w.
  destruct (set_val_mod_static m (a_attr a) v e h md) as (Hn & _). rewrite Hn.
  apply str_eqb_eq in Nm. subst m. repeat split.
  - unfold set_val. simpl. apply in_map. auto.
  - unfold set_val_mod. rewrite str_eqb_refl. simpl. apply in_map. auto.
  - unfold set_val_acc. rewrite str_eqb_refl, B. auto.
  - destruct (set_val_acc_static (a_attr a) v e h a) as (_ & Hw & _). rewrite Hw. auto.
Qed.

Lemma module_updates_from_state s md : In md (s_mods s) -> Forall (from_state s) (module_updates md).
Proof.
  intros Hmd. unfold module_updates. apply Forall_forall. intros u Hu. apply in_flat_map in Hu.
  destruct Hu as (a & Ha & Hu). destruct (a_body a) as [p|c] eqn:B; [|destruct Hu].
  destruct (a_wire a) as [w|] eqn:W; [|destruct Hu]. destruct Hu as [Hu|[]]. subst u.
  exists md, a, p, w. auto.
Qed.

Lemma step_updates_from_state E s o : Forall (from_state (fst (fst (step E s o)))) (snd (step E s o)).
Proof.
  destruct o; simpl; auto.
  - unfold do_read. destruct (find_mod s m) as [md|] eqn:F; simpl; auto. destruct (lookup0 md w) as [a|] eqn:L; simpl; auto.
    destruct (a_body a) as [p|c] eqn:B; simpl; auto. destruct (p_constant p); simpl; auto. destruct (p_hw p) as [hw|]; simpl; auto.
    unfold read_hw. destruct (dt_call (p_dt p) hw); simpl.
    + eapply announce_from_state; eauto using lookup0_in.
    + destruct (err_is (p_err p) tok); simpl; auto. eapply announce_from_state; eauto using lookup0_in.
  - unfold do_change. destruct (find_mod s m) as [md|] eqn:F; simpl; auto. destruct (lookup0 md w) as [a|] eqn:L; simpl; auto.
    destruct (a_body a) as [p|c] eqn:B; simpl; auto. destruct (p_constant p); simpl; auto. destruct (p_readonly p); simpl; auto.
    destruct (wire E (p_dt p) j (p_value p) >>= _); simpl; auto. eapply announce_from_state; eauto using lookup0_in.
  - unfold do_activate. destruct spec as [[m ow]|]; simpl.
    + destruct (find (fun x => str_eqb m (m_name x) && m_export x) (s_mods s)) as [md|] eqn:F; simpl; auto.
      apply find_some in F. destruct F as [Hmd Nm]. apply andb_true_iff in Nm. destruct Nm as [Nm _].
      apply str_eqb_eq in Nm. destruct ow as [w|]; simpl.
      * destruct (lookup0 md w) as [a|] eqn:L; simpl; auto. destruct (a_body a) as [p|c] eqn:B; simpl; auto.
        constructor; auto. pose proof L as L2. unfold lookup0 in L2. apply find_some in L2. destruct L2 as [_ W].
        apply wire_is_true in W. exists md, a, p, w. rewrite W, Nm. repeat split; auto. eapply lookup0_in; eauto.
      * apply module_updates_from_state. auto.
    + apply Forall_forall. intros u Hu. apply in_flat_map in Hu. destruct Hu as (md & Hmd & Hu).
      apply filter_In in Hmd. destruct Hmd as [Hmd _].
      pose proof (module_updates_from_state s md Hmd) as X. rewrite Forall_forall in X. exact (X u Hu).
  - unfold do_driver_set. destruct (find_mod s m) as [md|] eqn:F; simpl; auto. destruct (find_attr md attr) as [a|] eqn:L; simpl; auto.
    destruct (find_attr_in _ _ _ L) as [Ha At]. subst attr.
    destruct (a_body a) as [p|c] eqn:B; simpl; auto. destruct (dt_call (p_dt p) v); simpl.
    + eapply announce_from_state; eauto.
    + destruct (err_is (p_err p) tok); simpl; auto. eapply announce_from_state; eauto.
  - unfold do_hw_set. destruct (find_mod s m) as [md|]; simpl; auto. destruct (find_attr md attr) as [a|]; simpl; auto.
    destruct (a_body a) as [p|c]; simpl; auto. destruct (p_hw p); simpl; auto.
Qed.

(* every update any operation emits belongs to a described parameter and carries the error mark or the export, by the
   described datatype, of a value that this datatype produced *)
Theorem emitted_values_converted n s0 E ops o :
  build n = Ok s0 -> well_configured n -> attrs_distinct n ->
  let s := run E s0 ops in
  let s' := fst (fst (step E s o)) in
  Forall (fun u => exists w g v pd p,
            u_wire u = Some w /\ described s' (u_mod u) w = Some (DP g v pd) /\ param_at s' (u_mod u) w = Some p /\
            p_dt p = pd_dt pd /\
            u_body u = match p_err p with Some _ => UE | None => value_body (pd_dt pd) (p_value p) end /\
            (p_err p = None -> produced_by (pd_dt pd) (p_value p)))
         (snd (step E s o)).
Proof.
  intros H W AD s s'.
  assert (R : s' = run E s0 (ops ++ [o])).
  { unfold s', s. clear. revert s0. induction ops; intros s0; simpl; auto. }
  assert (HC : consistent s') by (rewrite R; eapply reachable_consistent; eauto).
  assert (OK : state_ok s') by (rewrite R; apply run_ok; eapply build_ok; eauto).
  assert (WO : wires_ok s') by (rewrite R; apply run_wires_ok; eapply build_wires_ok; eauto).
  eapply Forall_impl; [|apply step_updates_from_state]. fold s'.
  intros u (md & a & p & w & Hmd & Ha & B & Hw & Hu).
  destruct (exported_is_described _ _ _ _ _ HC WO Hmd Ha B Hw) as [P D].
  assert (F : find_mod s' (m_name md) = Some md).
  { apply find_mod_unique_in; auto. destruct HC; auto. }
  assert (PO : par_ok p) by (eapply target_ok; eauto).
  subst u. eexists w, _, _, _, p.
  split; [reflexivity|]. split; [exact D|]. split; [exact P|]. split; [reflexivity|]. split.
  - rewrite make_update_body. reflexivity.
  - exact PO.
Qed.
