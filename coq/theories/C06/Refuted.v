(* C06 -- genuine defects of the pinned code, reproduced by the faithful model (witnesses checked by vm_compute) *)
From Coq Require Import ZArith NArith Bool List.
Import ListNotations.
Require Import FV.Base.Util FV.Base.F64 FV.Base.PyVal FV.C01.Model FV.Gen.C06 FV.C06.Model FV.C06.Lemmas FV.C06.LemmasBuild.

Definition E0 : pyenv := {| int_of := []; b64_of := [] |}.
Definition dbl : dtype := TFloat (fopp fmaxval) fmaxval fzero (fmk 4533471823554859 (-75)).
Definition s_m : str := [109]%N.                       (* "m" *)
Definition s_foo : str := [102; 111; 111]%N.            (* "foo" *)
Definition s_ufoo : str := [95; 102; 111; 111]%N.       (* "_foo" *)
Definition s_bar : str := [98; 97; 114]%N.              (* "bar" *)
Definition s_baz : str := [98; 97; 122]%N.              (* "baz" *)
Definition two_half : f64 := fmk 5 (-1).

Definition mk_par (attr : str) (d : dtype) (e : export_t) (ce : option export_t) (ro : bool) (cc : option pyval)
  (dflt : option pyval) : acfg :=
  {| ac_attr := attr; ac_export := e; ac_cfg_export := ce; ac_group := []; ac_vis := 1;
     ac_body := BParam {| pc_dt := d; pc_dtdefault := PInt 0; pc_unit := []; pc_readonly := ro; pc_const_cls := cc;
                          pc_const_cfg := None; pc_default := dflt |} |}.
Definition mk_mod (accs : list acfg) : mcfg :=
  {| mc_name := s_m; mc_export := true; mc_group := []; mc_vis := 1; mc_impl := []; mc_mro := []; mc_accs := accs |}.

Definition state_of (n : list mcfg) : state :=
  match build n with Ok s => s | Err _ => {| s_mods := []; s_active := false; s_subs := [] |} end.

Definition is_data (r : reply) : bool := match r with RpData _ => true | _ => false end.
Definition built (n : list mcfg) : bool := match build n with Ok _ => true | Err _ => false end.
Definition reply3 (x : state * reply * list upd) : reply := snd (fst x).
Definition upds3 (x : state * reply * list upd) : list upd := snd x.
Definition state3 (x : state * reply * list upd) : state := fst (fst x).
Definition desc_constant (d : option adesc) : option pyval :=
  match d with Some (DP _ _ pd) => pd_constant pd | _ => None end.
Definition is_some {A} (o : option A) : bool := match o with Some _ => true | None => false end.
Definition rerr_is (r : reply) (e : rerr) : bool :=
  match r, e with
  | RpErr RNoPar, RNoPar | RpErr RNoMod, RNoMod | RpErr RNoCmd, RNoCmd | RpErr RReadOnly, RReadOnly => true
  | RpErr (RExc a), RExc b => exc_eqb a b
  | _, _ => false
  end.

Lemma built_state_of n : built n = true -> build n = Ok (state_of n).
Proof. unfold built, state_of. destruct (build n); auto. discriminate. Qed.

(* finding C06/constant-read-malformed: foo = Parameter('', FloatRange(), constant=2.5); "read m:_foo" raises TypeError *)
Definition n_const : list mcfg := [mk_mod [mk_par s_foo dbl ExTrue None true (Some (PFloat two_half)) None]].

Theorem refuted_constant_read :
  exists n m w c,
    built n = true /\ consistent (state_of n) /\
    opt_eqb pv_same (desc_constant (described (state_of n) m w)) (Some c) = true /\
    do_read (state_of n) m w <> RpData (with_qualifiers c) /\ rerr_is (do_read (state_of n) m w) (RExc EType) = true.
Proof.
  exists n_const, s_m, s_ufoo, (PFloat two_half).
  assert (R : do_read (state_of n_const) s_m s_ufoo = RpErr (RExc EType)) by (vm_compute; reflexivity).
  split; [vm_compute; reflexivity|]. split.
  { apply (build_consistent n_const); [apply built_state_of; vm_compute; reflexivity| |].
    - repeat constructor. simpl. tauto.
    - apply no_cfg_export_settled. intros mc a [<-|[]] [<-|[]]. reflexivity. }
  split; [vm_compute; reflexivity|]. split; [rewrite R; discriminate|rewrite R; reflexivity].
Qed.

(* finding C06/cfg-export-override, (a): foo = Param(export=False) in the configuration hides foo from the report,
   but "read m:_foo", "change m:_foo" and "activate m:_foo" are still served; the update carries no wire name *)
Definition n_hidden : list mcfg :=
  [mk_mod [mk_par s_foo dbl ExTrue (Some ExFalse) false None (Some (PFloat two_half))]].

Theorem refuted_undescribed_but_served :
  exists n m w,
    built n = true /\ described (state_of n) m w = None /\
    is_data (do_read (state_of n) m w) = true /\
    is_data (reply3 (do_change E0 (state_of n) m w (PInt 7))) = true /\
    reply3 (do_activate (state_of n) (Some (m, Some w))) = RpActive /\
    s_subs (state3 (do_activate (state_of n) (Some (m, Some w)))) = [(m, Some w)] /\
    map (fun u => (u_mod u, u_wire u)) (upds3 (do_activate (state_of n) (Some (m, Some w)))) = [(m, None)].
Proof.
  exists n_hidden, s_m, s_ufoo. repeat split; vm_compute; reflexivity.
Qed.

(* (b): bar = Param(export='baz'): described as "baz", but only reachable under the old name "_bar" *)
Definition n_renamed : list mcfg :=
  [mk_mod [mk_par s_bar dbl ExTrue (Some (ExName s_baz)) false None (Some (PFloat two_half))]].

Theorem refuted_described_but_unreachable :
  exists n m w,
    built n = true /\ is_some (described (state_of n) m w) = true /\
    do_read (state_of n) m w = RpErr RNoPar /\
    (forall j, reply3 (do_change E0 (state_of n) m w j) = RpErr RNoPar).
Proof.
  exists n_renamed, s_m, s_baz. split; [vm_compute; reflexivity|]. split; [vm_compute; reflexivity|].
  split; [vm_compute; reflexivity|]. intros j. vm_compute. reflexivity.
Qed.

(* finding C06/wire-name-collision: foo (export=True -> "_foo") and bar (export='_foo') in one module: two exported
   accessibles, one entry in the report, two updates of different kinds under the same specifier on activation *)
Definition n_collision : list mcfg :=
  [mk_mod [mk_par s_foo dbl ExTrue None false None (Some (PFloat two_half));
           mk_par s_bar (TString 0 8 false) (ExName s_ufoo) None false None (Some (PStr [116; 120; 116]%N))]].
Definition body_kind (b : ubody) : nat :=
  match b with UV (PFloat _) => 1 | UV (PStr _) => 2 | UV _ => 3 | UE => 4 | UX => 5 end.

Theorem refuted_collision :
  exists n,
    built n = true /\
    map (fun e => (fst e, length (md_accs (snd e)))) (describe (state_of n)) = [(s_m, 1%nat)] /\
    map (fun mc => length (filter (fun a => is_some (wire_of true a)) (mc_accs mc))) n = [2%nat] /\
    map (fun u => (u_mod u, u_wire u, body_kind (u_body u))) (upds3 (do_activate (state_of n) (Some (s_m, None)))) =
      [(s_m, Some s_ufoo, 1%nat); (s_m, Some s_ufoo, 2%nat)].
Proof.
  exists n_collision. repeat split; vm_compute; reflexivity.
Qed.

(* observation (not listed separately: every read of a constant is already malformed): a ScaledInteger(0.1) constant 2.5
   given in the class is exported once per Parameter.finish call and described as 2500 instead of 25 *)
Definition sc01 : dtype := TScaled (fmk 3602879701896397 (-55)) fzero (of_Z 100).
Definition n_scaled : list mcfg := [mk_mod [mk_par s_foo sc01 ExTrue None true (Some (PFloat two_half)) None]].
Theorem observed_scaled_constant_reexported :
  built n_scaled = true /\ desc_constant (described (state_of n_scaled) s_m s_ufoo) = Some (PInt 2500) /\
  finish_const sc01 (PFloat two_half) = Ok (PInt 25).
Proof. repeat split; vm_compute; reflexivity. Qed.

(* finding C06/nan-constant-not-strict-json: FloatRange()(nan) is nan, and it is put into the report as it is *)
Definition n_nan : list mcfg := [mk_mod [mk_par s_foo dbl ExTrue None true (Some (PFloat fnan)) None]].
Theorem refuted_nan_constant_described :
  built n_nan = true /\ desc_constant (described (state_of n_nan) s_m s_ufoo) = Some (PFloat fnan).
Proof. repeat split; vm_compute; reflexivity. Qed.
