(* C06 -- genuine defects of the pinned code, reproduced by the faithful model (witnesses checked by vm_compute) *)
From Coq Require Import ZArith NArith Bool List.
Import ListNotations.
Require Import FV.Base.Util FV.Base.F64 FV.Base.PyVal FV.C01.Model FV.Gen.C06 FV.C06.Model FV.C06.Lemmas.

Definition E0 : pyenv := {| int_of := []; b64_of := [] |}.
Definition dbl : dtype := TFloat (fopp fmaxval) fmaxval fzero (fmk 4533471823554859 (-75)).
Definition s_m : str := [109]%N.                       (* "m" *)
Definition s_foo : str := [102; 111; 111]%N.            (* "foo" *)
Definition s_ufoo : str := [95; 102; 111; 111]%N.       (* "_foo" *)
Definition s_bar : str := [98; 97; 114]%N.              (* "bar" *)
Definition s_baz : str := [98; 97; 122]%N.              (* "baz" *)
Definition two_half : f64 := fmk 5 (-1).

Definition mk_par (attr : str) (d : dtype) (e : export_t) (ce : option export_t) (ro : bool) (cc : option pyval)
  (dflt : option pyval) : acfg :=
  {| ac_attr := attr; ac_export := e; ac_cfg_export := ce; ac_group := []; ac_vis := 1;
     ac_body := BParam {| pc_dt := d; pc_dtdefault := PInt 0; pc_unit := []; pc_readonly := ro; pc_const_cls := cc;
                          pc_const_cfg := None; pc_default := dflt |} |}.
Definition mk_mod (accs : list acfg) : mcfg :=
  {| mc_name := s_m; mc_export := true; mc_group := []; mc_vis := 1; mc_impl := []; mc_mro := []; mc_accs := accs |}.

Definition state_of (n : list mcfg) : state :=
  match build n with Ok s => s | Err _ => {| s_mods := []; s_active := false; s_subs := [] |} end.

(* finding C06/constant-read-malformed: c = Parameter('', FloatRange(), constant=2.5); "read m:_c" raises TypeError *)
Definition n_const : list mcfg := [mk_mod [mk_par s_foo dbl ExTrue None true (Some (PFloat two_half)) None]].

Theorem refuted_constant_read :
  exists n s m w g v pd c,
    build n = Ok s /\ consistent s /\ described s m w = Some (DP g v pd) /\ pd_constant pd = Some c /\
    do_read s m w <> RpData (with_qualifiers c) /\ do_read s m w = RpErr (RExc EType).
Proof.
  exists n_const, (state_of n_const), s_m, s_ufoo, None, None,
    {| pd_dt := dbl; pd_unit := []; pd_readonly := true; pd_constant := Some (PFloat two_half) |}, (PFloat two_half).
  assert (R : do_read (state_of n_const) s_m s_ufoo = RpErr (RExc EType)) by (vm_compute; reflexivity).
  repeat split; try (vm_compute; reflexivity).
  - repeat constructor; simpl; auto.
  - rewrite R. discriminate.
  - exact R.
Qed.

(* finding C06/cfg-export-override, (a): foo = Param(export=False) in the configuration hides foo from the report,
   but "read m:_foo", "change m:_foo" and "activate m:_foo" are still served *)
Definition n_hidden : list mcfg :=
  [mk_mod [mk_par s_foo dbl ExTrue (Some ExFalse) false None (Some (PFloat two_half))]].

Theorem refuted_undescribed_but_served :
  exists n s m w,
    build n = Ok s /\ described s m w = None /\
    (exists v, do_read s m w = RpData v) /\
    (exists s' v us, do_change E0 s m w (PInt 7) = (s', RpData v, us) /\ s' <> s) /\
    (exists s' us, do_activate s (Some (m, Some w)) = (s', RpActive, us) /\ s_subs s' = [(m, Some w)] /\
                   exists b, us = [{| u_mod := m; u_wire := None; u_body := b |}]).
Proof.
  exists n_hidden, (state_of n_hidden), s_m, s_ufoo.
  split; [vm_compute; reflexivity|]. split; [vm_compute; reflexivity|]. split; [|split].
  - eexists. vm_compute. reflexivity.
  - eexists. eexists. eexists. split; [vm_compute; reflexivity|]. vm_compute. discriminate.
  - eexists. eexists. split; [vm_compute; reflexivity|]. split; [reflexivity|]. eexists. reflexivity.
Qed.

(* (b): bar = Param(export='baz'): described as "baz", but only reachable under the old name "_bar" *)
Definition n_renamed : list mcfg :=
  [mk_mod [mk_par s_bar dbl ExTrue (Some (ExName s_baz)) false None (Some (PFloat two_half))]].

Theorem refuted_described_but_unreachable :
  exists n s m w d,
    build n = Ok s /\ described s m w = Some d /\ do_read s m w = RpErr RNoPar /\
    (forall j, do_change E0 s m w j = (s, RpErr RNoPar, [])).
Proof.
  exists n_renamed, (state_of n_renamed), s_m, s_baz. eexists.
  split; [vm_compute; reflexivity|]. split; [vm_compute; reflexivity|]. split; [vm_compute; reflexivity|].
  intros j. reflexivity.
Qed.

(* finding C06/wire-name-collision: foo (export=True -> "_foo") and bar (export='_foo') in one module: two exported
   accessibles, one entry in the report, two updates under the same specifier when the module is activated *)
Definition n_collision : list mcfg :=
  [mk_mod [mk_par s_foo dbl ExTrue None false None (Some (PFloat two_half));
           mk_par s_bar (TString 0 8 false) (ExName s_ufoo) None false None (Some (PStr [116; 120; 116]%N))]].

Theorem refuted_collision :
  exists n s md us,
    build n = Ok s /\ describe s = [(s_m, md)] /\ length (md_accs md) = 1%nat /\
    length (filter (fun a => match wire_of true a with Some _ => true | None => false end) (mc_accs (hd (mk_mod []) n))) = 2%nat /\
    snd (do_activate s (Some (s_m, None))) = us /\
    map (fun u => (u_mod u, u_wire u)) us = [(s_m, Some s_ufoo); (s_m, Some s_ufoo)] /\
    exists x y, map u_body us = [UV (PFloat x); UV (PStr y)].
Proof.
  exists n_collision, (state_of n_collision). eexists. eexists.
  split; [vm_compute; reflexivity|]. split; [vm_compute; reflexivity|]. split; [reflexivity|]. split; [reflexivity|].
  split; [vm_compute; reflexivity|]. split; [reflexivity|]. eexists. eexists. reflexivity.
Qed.

(* observation (not listed separately: every read of a constant is already malformed): a ScaledInteger(0.1) constant 2.5
   given in the class is exported once per Parameter.finish call and described as 2500 instead of 25 *)
Definition sc01 : dtype := TScaled (fmk 3602879701896397 (-55)) fzero (of_Z 100).
Theorem observed_scaled_constant_reexported :
  exists n s g v pd,
    build n = Ok s /\ described s s_m s_ufoo = Some (DP g v pd) /\ pd_constant pd = Some (PInt 2500) /\
    finish_const sc01 (PFloat two_half) = Ok (PInt 25).
Proof.
  exists [mk_mod [mk_par s_foo sc01 ExTrue None true (Some (PFloat two_half)) None]]. eexists. eexists. eexists. eexists.
  split; [vm_compute; reflexivity|]. split; [vm_compute; reflexivity|]. split; vm_compute; reflexivity.
Qed.

(* finding C06/nan-constant-not-strict-json: FloatRange()(nan) is nan, it is put into the report as it is *)
Theorem refuted_nan_constant_described :
  exists n s g v pd,
    build n = Ok s /\ described s s_m s_ufoo = Some (DP g v pd) /\ pd_constant pd = Some (PFloat fnan).
Proof.
  exists [mk_mod [mk_par s_foo dbl ExTrue None true (Some (PFloat fnan)) None]]. eexists. eexists. eexists. eexists.
  split; [vm_compute; reflexivity|]. split; vm_compute; reflexivity.
Qed.
