(* C06 -- genuine defects of the pinned code, reproduced by the faithful model (witnesses checked by vm_compute) *)
From Coq Require Import ZArith NArith Bool List.
Import ListNotations.
Require Import FV.Base.Util FV.Base.F64 FV.Base.PyVal FV.C01.Model FV.Gen.C06 FV.C06.Model FV.C06.Lemmas FV.C06.LemmasBuild.

Definition E0 : pyenv := {| int_of := []; b64_of := [] |}.
Definition dbl : dtype := TFloat (fopp fmaxval) fmaxval fzero (fmk 4533471823554859 (-75)).
Definition s_m : str := [109]%N.                       (* "m" *)
Definition s_foo : str := [102; 111; 111]%N.            (* "foo" *)
Definition s_ufoo : str := [95; 102; 111; 111]%N.       (* "_foo" *)
Definition s_bar : str := [98; 97; 114]%N.              (* "bar" *)
Definition s_baz : str := [98; 97; 122]%N.              (* "baz" *)
Definition two_half : f64 := fmk 5 (-1).

Definition mk_par (attr : str) (d : dtype) (e : export_t) (ce : option export_t) (ro : bool) (cc : option pyval)
  (dflt : option pyval) : acfg :=
  {| ac_attr := attr; ac_export := e; ac_cfg_export := ce; ac_group := []; ac_vis := 1;
     ac_body := BParam {| pc_dt := d; pc_dtdefault := PInt 0; pc_unit := []; pc_readonly := ro; pc_const_cls := cc;
                          pc_const_cfg := None; pc_default := dflt; pc_hw := None |} |}.
Definition mk_mod (accs : list acfg) : mcfg :=
  {| mc_name := s_m; mc_export := true; mc_group := []; mc_vis := 1; mc_impl := []; mc_mro := []; mc_accs := accs;
     mc_cfg_auto := [] |}.

Definition state_of (n : list mcfg) : state :=
  match build n with Ok s => s | Err _ => {| s_mods := []; s_active := false; s_subs := [] |} end.

Definition is_data (r : reply) : bool := match r with RpData _ => true | _ => false end.
Definition built (n : list mcfg) : bool := match build n with Ok _ => true | Err _ => false end.
Definition reply3 (x : state * reply * list upd) : reply := snd (fst x).
Definition tok1 : N := 1%N.
Definition upds3 (x : state * reply * list upd) : list upd := snd x.
Definition state3 (x : state * reply * list upd) : state := fst (fst x).
Definition desc_constant (d : option adesc) : option pyval :=
  match d with Some (DP _ _ pd) => pd_constant pd | _ => None end.
Definition reply_eq_data (r : reply) (v : pyval) : bool := match r with RpData x => pv_same x v | _ => false end.
Definition is_some {A} (o : option A) : bool := match o with Some _ => true | None => false end.
Definition rerr_is (r : reply) (e : rerr) : bool :=
  match r, e with
  | RpErr RNoPar, RNoPar | RpErr RNoMod, RNoMod | RpErr RNoCmd, RNoCmd | RpErr RReadOnly, RReadOnly => true
  | RpErr (RExc a), RExc b => exc_eqb a b
  | _, _ => false
  end.

Lemma built_state_of n : built n = true -> build n = Ok (state_of n).
Proof. unfold built, state_of. destruct (build n); auto. discriminate. Qed.

(* observation: a ScaledInteger(0.1) constant 2.5 given in the class is exported once per Parameter.finish call and described
   (and, since 0f999c0, read) as 2500 instead of 25 -- description and behaviour agree, so this is not a violation of C06 *)
Definition sc01 : dtype := TScaled (fmk 3602879701896397 (-55)) fzero (of_Z 100).
Definition n_scaled : list mcfg := [mk_mod [mk_par s_foo sc01 ExTrue None true (Some (PFloat two_half)) None]].
Theorem observed_scaled_constant_reexported :
  built n_scaled = true /\ desc_constant (described (state_of n_scaled) s_m s_ufoo) = Some (PInt 2500) /\
  finish_const sc01 (PFloat two_half) = Ok (PInt 25).
Proof. repeat split; vm_compute; reflexivity. Qed.

(* finding C06/nan-constant-not-strict-json (open): FloatRange()(nan) is nan, and it is put into the report as it is *)
Definition n_nan : list mcfg := [mk_mod [mk_par s_foo dbl ExTrue None true (Some (PFloat fnan)) None]].
Theorem refuted_nan_constant_described :
  built n_nan = true /\ desc_constant (described (state_of n_nan) s_m s_ufoo) = Some (PFloat fnan).
Proof. repeat split; vm_compute; reflexivity. Qed.

(* the configurations that witnessed the repaired defects (kept as regression examples) *)
Definition n_const : list mcfg := [mk_mod [mk_par s_foo dbl ExTrue None true (Some (PFloat two_half)) None]].
Definition n_hidden : list mcfg :=
  [mk_mod [mk_par s_foo dbl ExTrue (Some ExFalse) false None (Some (PFloat two_half))]].
Definition n_renamed : list mcfg :=
  [mk_mod [mk_par s_bar dbl ExTrue (Some (ExName s_baz)) false None (Some (PFloat two_half))]].
Definition n_collision : list mcfg :=
  [mk_mod [mk_par s_foo dbl ExTrue None false None (Some (PFloat two_half));
           mk_par s_bar (TString 0 8 false) (ExName s_ufoo) None false None (Some (PStr [116; 120; 116]%N))]].
