(* C06 -- property theorems (stub while the correspondence is being established) *)
From Coq Require Import ZArith NArith Bool List.
Import ListNotations.
Require Import FV.Gen.C06 FV.Base.PyVal FV.C01.Model FV.C06.Model.

Theorem C06_source_facts :
  features_from_direct_feature_bases = true /\ fixexport_shape = true /\
  add_accessible_hides_and_registers_before_cfg = true /\ finish_reexports_constant = true /\
  main_unit_after_cfg_and_dollar_replace = true /\ export_properties_nondefault_rule = true /\
  property_export_table = true /\ for_export_shapes = true /\ export_accessibles_shape = true /\
  change_path_shape = true /\ read_path_shape = true /\ do_path_shape = true /\ activate_path_shape = true /\
  announce_update_shape = true /\ interface_classes_limit = 1%nat /\ finish_calls_class_constant = 3%nat.
Proof. repeat split; reflexivity. Qed.
Print Assumptions C06_source_facts.
