(* C06 -- The node's self-description is true of its behaviour: property theorems.
   n ranges over ALL node configurations (any number of modules and accessibles, any datatypes of FV.C01.Model),
   ops over ALL histories of describe / read / change / do / activate requests and driver-side assignments,
   j / arg over all modelled Python values.  well_configured n = module names distinct (keys of a python dict).

   (lists exactly)   the report lists, in order, exactly the exported modules, and for each of them the list of its keys IS the
                     list of wire names of its accessibles (class export overridden by the configured export, module-level
                     hiding, fixExport rules), which are distinct              -- C06_lists_exactly, C06_wire_name_rules,
                     C06_duplicate_export_rejected (a shared wire name is a configuration error: no node is built)
   (stable)          no request and no driver assignment changes the report                      -- C06_stable
   (same datainfo)   a change / do request is accepted or rejected by exactly the datatype the report shows   -- C06_datainfo_same_object
   (flags)           readonly / constant in the report <-> change refused with ReadOnly; constant implies readonly;
                     a constant parameter reads as exactly the described constant
                                                    -- C06_flags_predict, C06_constant_is_readonly, C06_read_described
   (read)            what a read method obtained from the hardware is converted by the DESCRIBED datatype (the instance's
                     Parameter, class datatype + configured datatype properties): reply and updates carry the converted value,
                     a value that datatype refuses gives an error reply and error updates only        -- C06_read_described
   (nothing undescribed) read / change / do / activate of a name the report does not list is refused with NoSuch..., state
                     unchanged, no update, in every reachable state                              -- C06_nothing_undescribed
   (interface class / features / implementation) functions of the class (supplied MRO, qualified name), for EVERY
                     configuration, also one that names these module properties itself        -- C06_interface_and_features
   (main unit)       after substitution no described unit contains $ when the main unit has none  -- C06_main_unit_substituted
   (emitted values)  every update any operation emits (change, hardware read, driver assignment, activate snapshot) belongs to a
                     described parameter and carries the error mark or the export, by the DESCRIBED datatype, of a value that
                     this datatype's conversion or validation produced; the same for the cached value a read answers
                                                    -- C06_emitted_values_converted, C06_cached_values_converted
                     (that a client's import_value takes every such export back is the round trip of C02, not restated here;
                     the direct oracle checks it with the real get_datatype on every generated case)
   (strict JSON)     not modelled: checked by the direct oracle on every generated case; the NaN
                     constant that breaks strict JSON (open finding) is reproduced by C06_refuted_nan_constant_described
   The former guards (_except_cfg_export, _partial) are gone: the defects were repaired in /repo (8235152, 0f999c0).         *)
From Coq Require Import ZArith NArith Bool List.
Import ListNotations.
Require Import FV.Gen.C06 FV.Base.Util FV.Base.F64 FV.Base.PyVal FV.C01.Model FV.C06.Model FV.C06.Lemmas FV.C06.LemmasBuild
  FV.C06.LemmasMain FV.C06.LemmasValues FV.C06.Refuted FV.C06.Startup FV.C06.LemmasStartup.

Theorem C06_source_facts :
  features_from_direct_feature_bases = true /\ fixexport_shape = true /\
  add_accessible_registers_final_export = true /\ finish_reexports_constant = true /\
  main_unit_after_cfg_and_dollar_replace = true /\ export_properties_nondefault_rule = true /\
  property_export_table = true /\ for_export_shapes = true /\ export_accessibles_shape = true /\
  change_path_shape = true /\ read_path_shape = true /\ do_path_shape = true /\ activate_path_shape = true /\
  announce_update_shape = true /\ access_wrappers_use_instance_datatype = true /\ auto_props_after_cfg = true /\
  interface_classes_limit = 1%nat /\ finish_calls_class_constant = 3%nat /\
  description_built_per_call = true /\ startup_order = true /\ register_input_extends_enum = true.
Proof. repeat split; reflexivity. Qed.

(* lists_module mc e: e is named like mc, the list of its accessible keys equals the list of wire names of the accessibles of
   mc (cfg_wires: configured export over class export, fixExport) which has no duplicates, implementation /
   interface_classes / features are those computed from the class *)
Theorem C06_lists_exactly : forall n s,
  build n = Ok s -> Forall2 lists_module (filter mc_export n) (describe s).
Proof. exact lists_exactly. Qed.

Theorem C06_wire_name_rules : forall attr,
  fix_export attr ExFalse = None /\ fix_export attr (ExName []) = None /\
  (forall c s, fix_export attr (ExName (c :: s)) = Some (c :: s)) /\
  (is_predefined attr = true -> fix_export attr ExTrue = Some attr) /\
  (is_predefined attr = false -> fix_export attr ExTrue = Some (underscore :: attr)).
Proof. exact wire_name_rules. Qed.

Theorem C06_wire_of_spec : forall me a,
  wire_of me a = if me then fix_export (ac_attr a) (match ac_cfg_export a with Some e => e | None => ac_export a end)
                 else None.
Proof. exact wire_of_spec. Qed.

Theorem C06_duplicate_export_rejected : forall n mc s,
  In mc n -> build n = Ok s -> NoDup (cfg_wires (mc_export mc) (mc_accs mc)).
Proof. exact duplicate_export_rejected. Qed.

Theorem C06_stable : forall E s ops, describe (run E s ops) = describe s.
Proof. exact stable. Qed.

Theorem C06_nothing_undescribed : forall n s0 E ops m w,
  build n = Ok s0 -> well_configured n ->
  let s := run E s0 ops in
  described s m w = None ->
  (forall tok, exists r, do_read s m w tok = (s, r, []) /\ refused r) /\
  (forall j, exists r, do_change E s m w j = (s, r, []) /\ refused r) /\
  (forall arg, refused (do_do E s m w arg)) /\
  (exists r, do_activate s (Some (m, Some w)) = (s, r, []) /\ refused r) /\
  (assoc_str m (describe s) = None -> do_activate s (Some (m, None)) = (s, RpErr RNoMod, [])).
Proof. exact nothing_undescribed. Qed.

Theorem C06_datainfo_same_object : forall n s0 E ops m w,
  build n = Ok s0 -> well_configured n ->
  let s := run E s0 ops in
  (forall g v pd j, described s m w = Some (DP g v pd) -> pd_readonly pd = false -> pd_constant pd = None ->
     exists prev,
       match verdict E (pd_dt pd) j prev with
       | Err e => do_change E s m w j = (s, RpErr (RExc e), [])
       | Ok nv => exists s' us, do_change E s m w j =
                    (s', reply_of (dt_export (pd_dt pd) nv >>= fun x => Ok (with_qualifiers x)), us)
       end) /\
  (forall g v x r arg, described s m w = Some (DC g v x r) ->
     exists ret, do_do E s m w arg =
       reply_of (run_cmd E {| c_arg := x; c_res := r; c_ret := ret |} arg >>= fun y => Ok (with_qualifiers y))).
Proof. exact datainfo_same_object. Qed.

Theorem C06_flags_predict : forall n s0 E ops m w g v pd,
  build n = Ok s0 -> well_configured n ->
  let s := run E s0 ops in
  described s m w = Some (DP g v pd) ->
  ((pd_readonly pd = true \/ pd_constant pd <> None) -> forall j, do_change E s m w j = (s, RpErr RReadOnly, [])) /\
  (pd_readonly pd = false -> pd_constant pd = None -> forall j, snd (fst (do_change E s m w j)) <> RpErr RReadOnly).
Proof. exact flags_predict. Qed.

Theorem C06_constant_is_readonly : forall n s0 E ops m w g v pd c,
  build n = Ok s0 -> well_configured n ->
  described (run E s0 ops) m w = Some (DP g v pd) -> pd_constant pd = Some c -> pd_readonly pd = true.
Proof. exact constant_is_readonly. Qed.

(* param_at s m w: the Parameter object of the instance behind the described name; value_reply d x = the reply [export d x, {}];
   value_body d x = the body of a value update (export d x).  For a parameter whose class has a read method (p_hw = the
   hardware register) the converter is pd_dt pd, the datatype the report shows - not the datatype of the class. *)
Theorem C06_read_described : forall n s0 E ops m w g v pd tok,
  build n = Ok s0 -> well_configured n ->
  let s := run E s0 ops in
  described s m w = Some (DP g v pd) ->
  (pd_constant pd = None ->
     exists p, param_at s m w = Some p /\ p_dt p = pd_dt pd /\
       match p_hw p with
       | None => do_read s m w tok = (s, value_reply (pd_dt pd) (p_value p), [])
       | Some hw =>
           match dt_call (pd_dt pd) hw with
           | Ok nv => exists s' us, do_read s m w tok = (s', value_reply (pd_dt pd) nv, us) /\
                                    Forall (fun u => u_body u = value_body (pd_dt pd) nv) us
           | Err e => exists s' us, do_read s m w tok = (s', RpErr (RExc e), us) /\ Forall (fun u => u_body u = UE) us
           end
       end) /\
  (forall c, pd_constant pd = Some c -> do_read s m w tok = (s, RpData (with_qualifiers c), [])).
Proof. exact read_described. Qed.

(* attrs_distinct n: attribute names are distinct within a class (keys of the python dict cls.accessibles).
   produced_by d y: y is an output of dt_call d (the datatype's __call__) or of dt_validate d (its validate). *)
Theorem C06_cached_values_converted : forall n s0 E ops m w g v pd,
  build n = Ok s0 -> well_configured n -> attrs_distinct n ->
  let s := run E s0 ops in
  described s m w = Some (DP g v pd) ->
  exists p, param_at s m w = Some p /\ p_dt p = pd_dt pd /\
            (p_err p = None -> produced_by (pd_dt pd) (p_value p)).
Proof. exact cached_values_converted. Qed.

Theorem C06_emitted_values_converted : forall n s0 E ops o,
  build n = Ok s0 -> well_configured n -> attrs_distinct n ->
  let s := run E s0 ops in
  let s' := fst (fst (step E s o)) in
  Forall (fun u => exists w g v pd p,
            u_wire u = Some w /\ described s' (u_mod u) w = Some (DP g v pd) /\ param_at s' (u_mod u) w = Some p /\
            p_dt p = pd_dt pd /\
            u_body u = match p_err p with Some _ => UE | None => value_body (pd_dt pd) (p_value p) end /\
            (p_err p = None -> produced_by (pd_dt pd) (p_value p)))
         (snd (step E s o)).
Proof. exact emitted_values_converted. Qed.

(* first part: n ranges over all configurations, mc_cfg_auto mc (what the configuration of the module says about
   implementation / interface_classes / features) is arbitrary and does not occur in the conclusion; E ops: any history *)
Theorem C06_interface_and_features :
  (forall n s0 E ops, build n = Ok s0 ->
     Forall2 (fun mc e => md_impl (snd e) = mc_impl mc /\ md_ifaces (snd e) = interface_classes (mc_mro mc) /\
                          md_features (snd e) = features_of (mc_mro mc))
             (filter mc_export n) (describe (run E s0 ops))) /\
  forall mro,
  length (interface_classes mro) <= 1 /\
  (forall c, In c (interface_classes mro) -> mem_str c secop_base_classes = true /\ In c (map fst mro)) /\
  (interface_classes mro = [] <-> forall c, In c (map fst mro) -> mem_str c secop_base_classes = false) /\
  (forall c, interface_classes mro = [c] ->
     exists pre post, map fst mro = pre ++ c :: post /\ forall x, In x pre -> mem_str x secop_base_classes = false) /\
  (forall f, In f (features_of mro) <-> In (f, true) mro).
Proof.
  split; [intros n s0 E ops H; rewrite stable; apply auto_props_described; auto|].
  intros mro. destruct (interface_classes_spec mro) as (H1 & H2 & H3).
  repeat split; try apply H1; try apply H2; try apply H3; auto.
  - apply interface_class_is_first.
  - apply features_spec.
  - apply features_spec.
Qed.

Theorem C06_main_unit_substituted : forall u unit mu p r,
  no_dollar u -> build_par mu p = Ok r -> pc_unit p = unit ->
  (mu = Some u -> no_dollar (p_unit r)) /\ (no_dollar unit -> p_unit r = unit).
Proof.
  intros u unit mu p r Hu Hb Hp. destruct (build_par_unit _ _ _ Hb) as [H _]. rewrite H, Hp. split.
  - intros X. subst mu. apply replace_dollar_clean; auto.
  - intros X. destruct mu; auto. apply replace_dollar_id; auto.
Qed.

(* genuine defect of the pinned code still open (Refuted.v) *)
Theorem C06_refuted_nan_constant_described :
  built n_nan = true /\ desc_constant (described (state_of n_nan) s_m s_ufoo) = Some (PFloat fnan).
Proof. exact refuted_nan_constant_described. Qed.

(* regression examples: the configurations that witnessed the repaired defects now behave as the property demands *)
Example C06_repaired_constant_read :
  built n_const = true /\
  reply_eq_data (reply3 (do_read (state_of n_const) s_m s_ufoo tok1)) (with_qualifiers (PFloat two_half)) = true.
Proof. split; vm_compute; reflexivity. Qed.
Example C06_repaired_cfg_export :
  built n_hidden = true /\ described (state_of n_hidden) s_m s_ufoo = None /\
  rerr_is (reply3 (do_read (state_of n_hidden) s_m s_ufoo tok1)) RNoPar = true /\
  rerr_is (reply3 (do_activate (state_of n_hidden) (Some (s_m, Some s_ufoo)))) RNoPar = true /\
  built n_renamed = true /\ is_some (described (state_of n_renamed) s_m s_baz) = true /\
  is_data (reply3 (do_read (state_of n_renamed) s_m s_baz tok1)) = true /\
  rerr_is (reply3 (do_read (state_of n_renamed) s_m [95; 98; 97; 114]%N tok1)) RNoPar = true.
Proof. repeat split; vm_compute; reflexivity. Qed.
Example C06_repaired_collision : built n_collision = false.
Proof. vm_compute; reflexivity. Qed.

(* non-vacuity: a well configured node in which a described writable parameter accepts and rejects payloads *)
Definition demo : list mcfg :=
  [mk_mod [mk_par s_foo (TInt 0 10) ExTrue None false None (Some (PInt 3));
           mk_par s_bar dbl (ExName s_baz) None true None (Some (PInt 1))]].
Example C06_demo_well_configured : built demo = true /\ well_configured demo /\ attrs_distinct demo.
Proof.
  split; [vm_compute; reflexivity|]. split; [repeat constructor; simpl; tauto|].
  repeat constructor; simpl; intuition discriminate.
Qed.
Example C06_demo_run :
  is_data (reply3 (do_change E0 (state_of demo) s_m s_ufoo (PInt 7))) = true /\
  rerr_is (reply3 (do_change E0 (state_of demo) s_m s_ufoo (PInt 11))) (RExc ERange) = true /\
  rerr_is (reply3 (do_change E0 (state_of demo) s_m s_baz (PInt 1))) RReadOnly = true /\
  rerr_is (reply3 (do_read (state_of demo) s_m s_bar tok1)) RNoPar = true /\
  is_some (described (state_of demo) s_m s_ufoo) = true /\ described (state_of demo) s_m s_bar = None.
Proof. repeat split; vm_compute; reflexivity. Qed.

(* non-vacuity of the read clause: the class declares StringType(maxchars=32), the configuration says maxchars=8 (so the
   instance datatype and the report say 8); the hardware delivers 3 characters, then 16 *)
Definition s_lbl : str := [108; 98; 108]%N.
Definition s_ulbl : str := [95; 108; 98; 108]%N.
Definition str16 : pyval := PStr [115; 101; 110; 115; 111; 114; 45; 104; 101; 97; 100; 45; 48; 56; 49; 53]%N.
Definition n_narrow : list mcfg :=
  [mk_mod [{| ac_attr := s_lbl; ac_export := ExTrue; ac_cfg_export := None; ac_group := []; ac_vis := 1;
              ac_body := BParam {| pc_dt := TString 0 8 false; pc_dtdefault := PStr []; pc_unit := []; pc_readonly := true;
                                   pc_const_cls := None; pc_const_cfg := None; pc_default := Some (PStr []);
                                   pc_hw := Some (PStr [111; 107]%N) |} |}]].
Definition all_active (s : state) : state := state3 (do_activate s None).
Example C06_demo_read_narrowed :
  built n_narrow = true /\
  reply_eq_data (reply3 (do_read (all_active (state_of n_narrow)) s_m s_ulbl tok1)) (with_qualifiers (PStr [111; 107]%N)) = true /\
  (let s1 := state3 (do_hw_set (all_active (state_of n_narrow)) s_m s_lbl str16) in
   rerr_is (reply3 (do_read s1 s_m s_ulbl tok1)) (RExc ERange) = true /\
   map u_body (upds3 (do_read s1 s_m s_ulbl tok1)) = [UE] /\
   (* the same error again: error reply, no second update *)
   upds3 (do_read (state3 (do_read s1 s_m s_ulbl tok1)) s_m s_ulbl tok1) = []).
Proof. repeat split; vm_compute; reflexivity. Qed.

(* non-vacuity of the automatic properties: the configuration claims Drivable / a feature / another implementation *)
Definition s_drivable : str := [68; 114; 105; 118; 97; 98; 108; 101]%N.
Definition s_readable : str := [82; 101; 97; 100; 97; 98; 108; 101]%N.
Definition n_claims : list mcfg :=
  [{| mc_name := s_m; mc_export := true; mc_group := []; mc_vis := 1; mc_impl := s_foo;
      mc_mro := [(s_foo, false); (s_readable, false)]; mc_accs := [];
      mc_cfg_auto := [(KIfaces, MPList [s_drivable]); (KFeatures, MPList [s_bar]); (KImpl, MPStr s_baz)] |}].
Example C06_demo_claims_ignored :
  match build n_claims with
  | Ok s => match describe s with
            | [(_, e)] => list_eqb str_eqb (md_ifaces e) [s_readable] && list_eqb str_eqb (md_features e) [] &&
                          str_eqb (md_impl e) s_foo
            | _ => false
            end
  | Err _ => false
  end = true.
Proof. vm_compute; reflexivity. Qed.

Print Assumptions C06_source_facts.
Print Assumptions C06_lists_exactly.
Print Assumptions C06_wire_name_rules.
Print Assumptions C06_wire_of_spec.
Print Assumptions C06_duplicate_export_rejected.
Print Assumptions C06_stable.
Print Assumptions C06_nothing_undescribed.
Print Assumptions C06_datainfo_same_object.
Print Assumptions C06_flags_predict.
Print Assumptions C06_constant_is_readonly.
Print Assumptions C06_read_described.
Print Assumptions C06_cached_values_converted.
Print Assumptions C06_emitted_values_converted.
Print Assumptions C06_interface_and_features.
Print Assumptions C06_main_unit_substituted.
Print Assumptions C06_refuted_nan_constant_described.

(* ------------------------------------------------------------------ the started node: the description is current
   Startup.v models Server._processCfg: create_modules (build), then the start-up call of get_descriptive_data which
   initialises and describes the exported modules one by one (its result is dropped), then the remaining modules.
   initModule of a control loop (mixins.HasOutputModule) registers the loop at its output module (HasControlledBy), which
   replaces the datatype of that module's controlled_by - possibly AFTER the output module was described at start-up.
   lk ranges over ALL attachment lists (control loop, output module), n over all configurations, ops over all histories.

   C06_description_is_current: in every state the started node reaches, the report is the image of the module objects of
   THAT state (no memo: describe has no other input, translator fact description_built_per_call), every described
   parameter is described with datatype, unit, readonly, constant of the live Parameter object behind its name, every
   described command with the argument / result of the live Command object, and every exported parameter object of the
   state is described with its present datatype. *)
Theorem C06_description_is_current : forall n lk s0 E ops,
  build n = Ok s0 -> well_configured n ->
  let s := run E (startup lk s0) ops in
  describe s = map (fun m => (m_name m, describe_mod m)) (filter m_export (s_mods s)) /\
  (forall m w g v pd, described s m w = Some (DP g v pd) ->
     exists p, param_at s m w = Some p /\ pd_dt pd = p_dt p /\ pd_unit pd = p_unit p /\
               pd_readonly pd = p_readonly p /\ pd_constant pd = p_constant p) /\
  (forall m w g v x r, described s m w = Some (DC g v x r) ->
     exists md a c, find_mod s m = Some md /\ lookup0 md w = Some a /\ a_body a = AC c /\ c_arg c = x /\ c_res c = r) /\
  (forall md a p w, In md (s_mods s) -> In a (m_accs md) -> a_body a = AP p -> a_wire a = Some w ->
     exists g v pd, described s (m_name md) w = Some (DP g v pd) /\ pd_dt pd = p_dt p).
Proof. exact description_is_current. Qed.
Print Assumptions C06_description_is_current.

(* two states with the same module objects have the same report, whatever was described before *)
Theorem C06_description_function_of_modules : forall s1 s2, s_mods s1 = s_mods s2 -> describe s1 = describe s2.
Proof. exact describe_function_of_modules. Qed.
Print Assumptions C06_description_function_of_modules.

(* a later change of an accessible is reflected: in ANY state with the invariants of a started node (consistent, distinct
   wire names), after <md>.register_input(ctrl) the exported controlled_by of md is described with the extended enum, which is
   the datatype of the live parameter object (reg_par: only the datatype is replaced) *)
Theorem C06_register_input_reflected : forall s ctrl md a p w,
  consistent s -> wires_ok s ->
  In md (s_mods s) -> In a (m_accs md) -> a_attr a = cb_attr -> a_body a = AP p -> a_wire a = Some w ->
  let s' := register_input s ctrl (m_name md) in
  exists g v pd, described s' (m_name md) w = Some (DP g v pd) /\ pd_dt pd = extend_dt (p_dt p) ctrl /\
                 param_at s' (m_name md) w = Some (reg_par ctrl p).
Proof. exact register_input_reflected. Qed.
Print Assumptions C06_register_input_reflected.

(* the clauses above for the node as it serves (built, started with any attachments, any history); with lk = [] these are
   the statements C06_nothing_undescribed, C06_datainfo_same_object, C06_flags_predict, C06_read_described *)
Theorem C06_started_nothing_undescribed : forall n lk s0 E ops m w,
  build n = Ok s0 -> well_configured n ->
  let s := run E (startup lk s0) ops in
  described s m w = None ->
  (forall tok, exists r, do_read s m w tok = (s, r, []) /\ refused r) /\
  (forall j, exists r, do_change E s m w j = (s, r, []) /\ refused r) /\
  (forall arg, refused (do_do E s m w arg)) /\
  (exists r, do_activate s (Some (m, Some w)) = (s, r, []) /\ refused r) /\
  (assoc_str m (describe s) = None -> do_activate s (Some (m, None)) = (s, RpErr RNoMod, [])).
Proof. exact started_nothing_undescribed. Qed.
Print Assumptions C06_started_nothing_undescribed.

Theorem C06_started_datainfo_same_object : forall n lk s0 E ops m w,
  build n = Ok s0 -> well_configured n ->
  let s := run E (startup lk s0) ops in
  (forall g v pd j, described s m w = Some (DP g v pd) -> pd_readonly pd = false -> pd_constant pd = None ->
     exists prev,
       match verdict E (pd_dt pd) j prev with
       | Err e => do_change E s m w j = (s, RpErr (RExc e), [])
       | Ok nv => exists s' us, do_change E s m w j =
                    (s', reply_of (dt_export (pd_dt pd) nv >>= fun x => Ok (with_qualifiers x)), us)
       end) /\
  (forall g v x r arg, described s m w = Some (DC g v x r) ->
     exists ret, do_do E s m w arg =
       reply_of (run_cmd E {| c_arg := x; c_res := r; c_ret := ret |} arg >>= fun y => Ok (with_qualifiers y))).
Proof. exact started_datainfo_same_object. Qed.
Print Assumptions C06_started_datainfo_same_object.

Theorem C06_started_flags_predict : forall n lk s0 E ops m w g v pd,
  build n = Ok s0 -> well_configured n ->
  let s := run E (startup lk s0) ops in
  described s m w = Some (DP g v pd) ->
  ((pd_readonly pd = true \/ pd_constant pd <> None) -> forall j, do_change E s m w j = (s, RpErr RReadOnly, [])) /\
  (pd_readonly pd = false -> pd_constant pd = None -> forall j, snd (fst (do_change E s m w j)) <> RpErr RReadOnly).
Proof. exact started_flags_predict. Qed.
Print Assumptions C06_started_flags_predict.

Theorem C06_started_read_described : forall n lk s0 E ops m w g v pd tok,
  build n = Ok s0 -> well_configured n ->
  let s := run E (startup lk s0) ops in
  described s m w = Some (DP g v pd) ->
  (pd_constant pd = None ->
     exists p, param_at s m w = Some p /\ p_dt p = pd_dt pd /\
       match p_hw p with
       | None => do_read s m w tok = (s, value_reply (pd_dt pd) (p_value p), [])
       | Some hw =>
           match dt_call (pd_dt pd) hw with
           | Ok nv => exists s' us, do_read s m w tok = (s', value_reply (pd_dt pd) nv, us) /\
                                    Forall (fun u => u_body u = value_body (pd_dt pd) nv) us
           | Err e => exists s' us, do_read s m w tok = (s', RpErr (RExc e), us) /\ Forall (fun u => u_body u = UE) us
           end
       end) /\
  (forall c, pd_constant pd = Some c -> do_read s m w tok = (s, RpData (with_qualifiers c), [])).
Proof. exact started_read_described. Qed.
Print Assumptions C06_started_read_described.

(* every update any operation of the started node emits belongs to a parameter the report (of the state after the operation)
   describes, and carries the error mark or the export of the cached value BY THE DESCRIBED DATATYPE, which is the datatype of
   the live parameter object.  (That the cached value was produced by that datatype - C06_emitted_values_converted - is proved
   for nodes without attachments only: register_input keeps the value converted by the former enum.) *)
Theorem C06_started_updates_described : forall n lk s0 E ops o,
  build n = Ok s0 -> well_configured n ->
  let s := run E (startup lk s0) ops in
  let s' := fst (fst (step E s o)) in
  Forall (fun u => exists w g v pd p,
            u_wire u = Some w /\ described s' (u_mod u) w = Some (DP g v pd) /\ param_at s' (u_mod u) w = Some p /\
            p_dt p = pd_dt pd /\
            u_body u = match p_err p with Some _ => UE | None => value_body (pd_dt pd) (p_value p) end)
         (snd (step E s o)).
Proof. exact started_updates_described. Qed.
Print Assumptions C06_started_updates_described.

Theorem C06_started_stable : forall lk s0 E ops, describe (run E (startup lk s0) ops) = describe (startup lk s0).
Proof. intros. apply stable. Qed.
Print Assumptions C06_started_stable.

(* non-vacuity: the output module `m` (controlled_by: enum self=0, exported) is configured BEFORE the control loop `bar`
   attached to it.  The description computed during start-up (dropped by the real code) still shows the enum {self: 0};
   the node as it serves describes {self: 0, bar: 1}, accepts the driver assignment controlled_by = 1 and emits 1. *)
Definition enum_self : dtype := TEnum [([115; 101; 108; 102]%N, 0%Z)].
Definition n_heater_loop : list mcfg :=
  [mk_mod [mk_par cb_attr enum_self ExTrue None true None (Some (PInt 0))];
   {| mc_name := s_bar; mc_export := true; mc_group := []; mc_vis := 1; mc_impl := []; mc_mro := []; mc_accs := [];
      mc_cfg_auto := [] |}].
Definition lk_demo : links := [(s_bar, s_m)].
Definition desc_dt (d : option adesc) : option dtype := match d with Some (DP _ _ pd) => Some (pd_dt pd) | _ => None end.
Definition startup_desc_dt (n : list mcfg) (lk : links) (m w : str) : option dtype :=
  match assoc_str m (snd (startup_trace lk (state_of n))) with
  | Some md => desc_dt (assoc_str w (md_accs md))
  | None => None
  end.
Example C06_demo_startup_description_not_final :
  built n_heater_loop = true /\
  opt_eqb dtype_eqb (startup_desc_dt n_heater_loop lk_demo s_m cb_attr) (Some enum_self) = true /\
  opt_eqb dtype_eqb (desc_dt (described (startup lk_demo (state_of n_heater_loop)) s_m cb_attr))
          (Some (TEnum [([115; 101; 108; 102]%N, 0%Z); (s_bar, 1%Z)])) = true /\
  (let s1 := all_active (startup lk_demo (state_of n_heater_loop)) in
   map u_body (upds3 (do_driver_set s1 s_m cb_attr (PInt 1) tok1)) = [UV (PInt 1)]) /\
  (* without the attachment the same assignment is refused by the datatype *)
  (let s1 := all_active (startup [] (state_of n_heater_loop)) in
   map u_body (upds3 (do_driver_set s1 s_m cb_attr (PInt 1) tok1)) = [UE]).
Proof. repeat split; vm_compute; reflexivity. Qed.
