(* C06 -- The node's self-description is true of its behaviour: property theorems.
   n ranges over ALL node configurations (any number of modules and accessibles, any datatypes of FV.C01.Model),
   ops over ALL histories of describe / read / change / do / activate requests and driver-side assignments,
   j / arg over all modelled Python values.  well_configured n = module names distinct (keys of a python dict).

   (lists exactly)   the report lists, in order, exactly the exported modules, and for each of them the list of its keys IS the
                     list of wire names of its accessibles (class export overridden by the configured export, module-level
                     hiding, fixExport rules), which are distinct              -- C06_lists_exactly, C06_wire_name_rules,
                     C06_duplicate_export_rejected (a shared wire name is a configuration error: no node is built)
   (stable)          no request and no driver assignment changes the report                      -- C06_stable
   (same datainfo)   a change / do request is accepted or rejected by exactly the datatype the report shows   -- C06_datainfo_same_object
   (flags)           readonly / constant in the report <-> change refused with ReadOnly; constant implies readonly;
                     a constant parameter reads as exactly the described constant
                                                    -- C06_flags_predict, C06_constant_is_readonly, C06_read_described
   (nothing undescribed) read / change / do / activate of a name the report does not list is refused with NoSuch..., state
                     unchanged, no update, in every reachable state                              -- C06_nothing_undescribed
   (interface class / features) functions of the supplied MRO                                     -- C06_interface_and_features
   (main unit)       after substitution no described unit contains $ when the main unit has none  -- C06_main_unit_substituted
   (strict JSON, emitted values importable) not modelled: checked by the direct oracle on every generated case; the NaN
                     constant that breaks strict JSON (open finding) is reproduced by C06_refuted_nan_constant_described
   The former guards (_except_cfg_export, _partial) are gone: the defects were repaired in /repo (8235152, 0f999c0).         *)
From Coq Require Import ZArith NArith Bool List.
Import ListNotations.
Require Import FV.Gen.C06 FV.Base.Util FV.Base.F64 FV.Base.PyVal FV.C01.Model FV.C06.Model FV.C06.Lemmas FV.C06.LemmasBuild
  FV.C06.LemmasMain FV.C06.Refuted.

Theorem C06_source_facts :
  features_from_direct_feature_bases = true /\ fixexport_shape = true /\
  add_accessible_registers_final_export = true /\ finish_reexports_constant = true /\
  main_unit_after_cfg_and_dollar_replace = true /\ export_properties_nondefault_rule = true /\
  property_export_table = true /\ for_export_shapes = true /\ export_accessibles_shape = true /\
  change_path_shape = true /\ read_path_shape = true /\ do_path_shape = true /\ activate_path_shape = true /\
  announce_update_shape = true /\ interface_classes_limit = 1%nat /\ finish_calls_class_constant = 3%nat.
Proof. repeat split; reflexivity. Qed.

(* lists_module mc e: e is named like mc, the list of its accessible keys equals the list of wire names of the accessibles of
   mc (cfg_wires: configured export over class export, fixExport) which has no duplicates, implementation /
   interface_classes / features are those computed from the class *)
Theorem C06_lists_exactly : forall n s,
  build n = Ok s -> Forall2 lists_module (filter mc_export n) (describe s).
Proof. exact lists_exactly. Qed.

Theorem C06_wire_name_rules : forall attr,
  fix_export attr ExFalse = None /\ fix_export attr (ExName []) = None /\
  (forall c s, fix_export attr (ExName (c :: s)) = Some (c :: s)) /\
  (is_predefined attr = true -> fix_export attr ExTrue = Some attr) /\
  (is_predefined attr = false -> fix_export attr ExTrue = Some (underscore :: attr)).
Proof. exact wire_name_rules. Qed.

Theorem C06_wire_of_spec : forall me a,
  wire_of me a = if me then fix_export (ac_attr a) (match ac_cfg_export a with Some e => e | None => ac_export a end)
                 else None.
Proof. exact wire_of_spec. Qed.

Theorem C06_duplicate_export_rejected : forall n mc s,
  In mc n -> build n = Ok s -> NoDup (cfg_wires (mc_export mc) (mc_accs mc)).
Proof. exact duplicate_export_rejected. Qed.

Theorem C06_stable : forall E s ops, describe (run E s ops) = describe s.
Proof. exact stable. Qed.

Theorem C06_nothing_undescribed : forall n s0 E ops m w,
  build n = Ok s0 -> well_configured n ->
  let s := run E s0 ops in
  described s m w = None ->
  refused (do_read s m w) /\
  (forall j, exists r, do_change E s m w j = (s, r, []) /\ refused r) /\
  (forall arg, refused (do_do E s m w arg)) /\
  (exists r, do_activate s (Some (m, Some w)) = (s, r, []) /\ refused r) /\
  (assoc_str m (describe s) = None -> do_activate s (Some (m, None)) = (s, RpErr RNoMod, [])).
Proof. exact nothing_undescribed. Qed.

Theorem C06_datainfo_same_object : forall n s0 E ops m w,
  build n = Ok s0 -> well_configured n ->
  let s := run E s0 ops in
  (forall g v pd j, described s m w = Some (DP g v pd) -> pd_readonly pd = false -> pd_constant pd = None ->
     exists prev,
       match verdict E (pd_dt pd) j prev with
       | Err e => do_change E s m w j = (s, RpErr (RExc e), [])
       | Ok nv => exists s' us, do_change E s m w j =
                    (s', reply_of (dt_export (pd_dt pd) nv >>= fun x => Ok (with_qualifiers x)), us)
       end) /\
  (forall g v x r arg, described s m w = Some (DC g v x r) ->
     exists ret, do_do E s m w arg =
       reply_of (run_cmd E {| c_arg := x; c_res := r; c_ret := ret |} arg >>= fun y => Ok (with_qualifiers y))).
Proof. exact datainfo_same_object. Qed.

Theorem C06_flags_predict : forall n s0 E ops m w g v pd,
  build n = Ok s0 -> well_configured n ->
  let s := run E s0 ops in
  described s m w = Some (DP g v pd) ->
  ((pd_readonly pd = true \/ pd_constant pd <> None) -> forall j, do_change E s m w j = (s, RpErr RReadOnly, [])) /\
  (pd_readonly pd = false -> pd_constant pd = None -> forall j, snd (fst (do_change E s m w j)) <> RpErr RReadOnly).
Proof. exact flags_predict. Qed.

Theorem C06_constant_is_readonly : forall n s0 E ops m w g v pd c,
  build n = Ok s0 -> well_configured n ->
  described (run E s0 ops) m w = Some (DP g v pd) -> pd_constant pd = Some c -> pd_readonly pd = true.
Proof. exact constant_is_readonly. Qed.

Theorem C06_read_described : forall n s0 E ops m w g v pd,
  build n = Ok s0 -> well_configured n ->
  let s := run E s0 ops in
  described s m w = Some (DP g v pd) ->
  (pd_constant pd = None ->
     exists value, do_read s m w = reply_of (dt_export (pd_dt pd) value >>= fun x => Ok (with_qualifiers x))) /\
  (forall c, pd_constant pd = Some c -> do_read s m w = RpData (with_qualifiers c)).
Proof. exact read_described. Qed.

Theorem C06_interface_and_features : forall mro,
  length (interface_classes mro) <= 1 /\
  (forall c, In c (interface_classes mro) -> mem_str c secop_base_classes = true /\ In c (map fst mro)) /\
  (interface_classes mro = [] <-> forall c, In c (map fst mro) -> mem_str c secop_base_classes = false) /\
  (forall c, interface_classes mro = [c] ->
     exists pre post, map fst mro = pre ++ c :: post /\ forall x, In x pre -> mem_str x secop_base_classes = false) /\
  (forall f, In f (features_of mro) <-> In (f, true) mro).
Proof.
  intros mro. destruct (interface_classes_spec mro) as (H1 & H2 & H3).
  repeat split; try apply H1; try apply H2; try apply H3; auto.
  - apply interface_class_is_first.
  - apply features_spec.
  - apply features_spec.
Qed.

Theorem C06_main_unit_substituted : forall u unit mu p r,
  no_dollar u -> build_par mu p = Ok r -> pc_unit p = unit ->
  (mu = Some u -> no_dollar (p_unit r)) /\ (no_dollar unit -> p_unit r = unit).
Proof.
  intros u unit mu p r Hu Hb Hp. destruct (build_par_unit _ _ _ Hb) as [H _]. rewrite H, Hp. split.
  - intros X. subst mu. apply replace_dollar_clean; auto.
  - intros X. destruct mu; auto. apply replace_dollar_id; auto.
Qed.

(* genuine defect of the pinned code still open (Refuted.v) *)
Theorem C06_refuted_nan_constant_described :
  built n_nan = true /\ desc_constant (described (state_of n_nan) s_m s_ufoo) = Some (PFloat fnan).
Proof. exact refuted_nan_constant_described. Qed.

(* regression examples: the configurations that witnessed the repaired defects now behave as the property demands *)
Example C06_repaired_constant_read :
  built n_const = true /\
  reply_eq_data (do_read (state_of n_const) s_m s_ufoo) (with_qualifiers (PFloat two_half)) = true.
Proof. split; vm_compute; reflexivity. Qed.
Example C06_repaired_cfg_export :
  built n_hidden = true /\ described (state_of n_hidden) s_m s_ufoo = None /\
  rerr_is (do_read (state_of n_hidden) s_m s_ufoo) RNoPar = true /\
  rerr_is (reply3 (do_activate (state_of n_hidden) (Some (s_m, Some s_ufoo)))) RNoPar = true /\
  built n_renamed = true /\ is_some (described (state_of n_renamed) s_m s_baz) = true /\
  is_data (do_read (state_of n_renamed) s_m s_baz) = true /\
  rerr_is (do_read (state_of n_renamed) s_m [95; 98; 97; 114]%N) RNoPar = true.
Proof. repeat split; vm_compute; reflexivity. Qed.
Example C06_repaired_collision : built n_collision = false.
Proof. vm_compute; reflexivity. Qed.

(* non-vacuity: a well configured node in which a described writable parameter accepts and rejects payloads *)
Definition demo : list mcfg :=
  [mk_mod [mk_par s_foo (TInt 0 10) ExTrue None false None (Some (PInt 3));
           mk_par s_bar dbl (ExName s_baz) None true None (Some (PInt 1))]].
Example C06_demo_well_configured : built demo = true /\ well_configured demo.
Proof.
  split; [vm_compute; reflexivity|]. repeat constructor. simpl. tauto.
Qed.
Example C06_demo_run :
  is_data (reply3 (do_change E0 (state_of demo) s_m s_ufoo (PInt 7))) = true /\
  rerr_is (reply3 (do_change E0 (state_of demo) s_m s_ufoo (PInt 11))) (RExc ERange) = true /\
  rerr_is (reply3 (do_change E0 (state_of demo) s_m s_baz (PInt 1))) RReadOnly = true /\
  rerr_is (do_read (state_of demo) s_m s_bar) RNoPar = true /\
  is_some (described (state_of demo) s_m s_ufoo) = true /\ described (state_of demo) s_m s_bar = None.
Proof. repeat split; vm_compute; reflexivity. Qed.

Print Assumptions C06_source_facts.
Print Assumptions C06_lists_exactly.
Print Assumptions C06_wire_name_rules.
Print Assumptions C06_wire_of_spec.
Print Assumptions C06_duplicate_export_rejected.
Print Assumptions C06_stable.
Print Assumptions C06_nothing_undescribed.
Print Assumptions C06_datainfo_same_object.
Print Assumptions C06_flags_predict.
Print Assumptions C06_constant_is_readonly.
Print Assumptions C06_read_described.
Print Assumptions C06_interface_and_features.
Print Assumptions C06_main_unit_substituted.
Print Assumptions C06_refuted_nan_constant_described.
