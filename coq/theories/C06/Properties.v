(* C06 -- The node's self-description is true of its behaviour: property theorems.
   n ranges over ALL node configurations (any number of modules and accessibles, any datatypes of FV.C01.Model),
   ops over ALL histories of describe / read / change / do / activate requests and driver-side assignments,
   j / arg over all modelled Python values.  Full statement and what is proved:

   (lists exactly)   the report lists, in order, exactly the exported modules, and for each of them exactly the wire names of
                     its exported accessibles (each once), with the wire-name rules of fixExport   -- C06_lists_exactly, C06_wire_name_rules
                     (a wire name shared by two accessibles gives ONE entry: C06_refuted_collision)
   (stable)          no request and no driver assignment changes the report                      -- C06_stable
   (same datainfo)   a change / do request is accepted or rejected by exactly the datatype the report shows   -- C06_datainfo_same_object_except_cfg_export
   (flags)           readonly / constant in the report <-> change refused with ReadOnly; constant implies readonly
                                                                                                  -- C06_flags_predict_except_cfg_export, C06_constant_is_readonly
                     a constant parameter reads as the described constant: REFUTED for every constant (C06_refuted_constant_read);
                     proved: what a read answers                                                 -- C06_read_described_partial
   (nothing undescribed) read / change / do / activate of a name the report does not list is refused with NoSuch..., state
                     unchanged, no update, in every reachable state                              -- C06_nothing_undescribed_except_cfg_export
                     (without the guard: C06_refuted_undescribed_but_served, C06_refuted_described_but_unreachable)
   (interface class / features) functions of the supplied MRO                                     -- C06_interface_and_features
   (main unit)       after substitution no described unit contains $ when the main unit has none  -- C06_main_unit_substituted
   (strict JSON, emitted values importable) not modelled: checked by the direct oracle on every generated case; the NaN
                     constant that breaks strict JSON is reproduced by C06_refuted_nan_constant_described                     *)
From Coq Require Import ZArith NArith Bool List.
Import ListNotations.
Require Import FV.Gen.C06 FV.Base.Util FV.Base.F64 FV.Base.PyVal FV.C01.Model FV.C06.Model FV.C06.Lemmas FV.C06.LemmasBuild
  FV.C06.LemmasMain FV.C06.Refuted.

Theorem C06_source_facts :
  features_from_direct_feature_bases = true /\ fixexport_shape = true /\
  add_accessible_hides_and_registers_before_cfg = true /\ finish_reexports_constant = true /\
  main_unit_after_cfg_and_dollar_replace = true /\ export_properties_nondefault_rule = true /\
  property_export_table = true /\ for_export_shapes = true /\ export_accessibles_shape = true /\
  change_path_shape = true /\ read_path_shape = true /\ do_path_shape = true /\ activate_path_shape = true /\
  announce_update_shape = true /\ interface_classes_limit = 1%nat /\ finish_calls_class_constant = 3%nat.
Proof. repeat split; reflexivity. Qed.

(* lists_module mc e: e is named like mc, its accessible keys are distinct and are exactly the wire names (final export
   property) of the accessibles of mc, implementation / interface_classes / features are those computed from the class *)
Theorem C06_lists_exactly : forall n s,
  build n = Ok s -> Forall2 lists_module (filter mc_export n) (describe s).
Proof. exact lists_exactly. Qed.

Theorem C06_wire_name_rules : forall attr,
  fix_export attr ExFalse = None /\ fix_export attr (ExName []) = None /\
  (forall c s, fix_export attr (ExName (c :: s)) = Some (c :: s)) /\
  (is_predefined attr = true -> fix_export attr ExTrue = Some attr) /\
  (is_predefined attr = false -> fix_export attr ExTrue = Some (underscore :: attr)).
Proof. exact wire_name_rules. Qed.

Theorem C06_stable : forall E s ops, describe (run E s ops) = describe s.
Proof. exact stable. Qed.

Theorem C06_nothing_undescribed_except_cfg_export : forall n s0 E ops m w,
  build n = Ok s0 -> well_configured n ->
  let s := run E s0 ops in
  described s m w = None ->
  refused (do_read s m w) /\
  (forall j, exists r, do_change E s m w j = (s, r, []) /\ refused r) /\
  (forall arg, refused (do_do E s m w arg)) /\
  (exists r, do_activate s (Some (m, Some w)) = (s, r, []) /\ refused r) /\
  (assoc_str m (describe s) = None -> do_activate s (Some (m, None)) = (s, RpErr RNoMod, [])).
Proof. exact nothing_undescribed. Qed.

Theorem C06_datainfo_same_object_except_cfg_export : forall n s0 E ops m w,
  build n = Ok s0 -> well_configured n ->
  let s := run E s0 ops in
  (forall g v pd j, described s m w = Some (DP g v pd) -> pd_readonly pd = false -> pd_constant pd = None ->
     exists prev,
       match verdict E (pd_dt pd) j prev with
       | Err e => do_change E s m w j = (s, RpErr (RExc e), [])
       | Ok nv => exists s' us, do_change E s m w j =
                    (s', reply_of (dt_export (pd_dt pd) nv >>= fun x => Ok (with_qualifiers x)), us)
       end) /\
  (forall g v x r arg, described s m w = Some (DC g v x r) ->
     exists ret, do_do E s m w arg =
       reply_of (run_cmd E {| c_arg := x; c_res := r; c_ret := ret |} arg >>= fun y => Ok (with_qualifiers y))).
Proof. exact datainfo_same_object. Qed.

Theorem C06_flags_predict_except_cfg_export : forall n s0 E ops m w g v pd,
  build n = Ok s0 -> well_configured n ->
  let s := run E s0 ops in
  described s m w = Some (DP g v pd) ->
  ((pd_readonly pd = true \/ pd_constant pd <> None) -> forall j, do_change E s m w j = (s, RpErr RReadOnly, [])) /\
  (pd_readonly pd = false -> pd_constant pd = None -> forall j, snd (fst (do_change E s m w j)) <> RpErr RReadOnly).
Proof. exact flags_predict. Qed.

Theorem C06_constant_is_readonly : forall n s0 E ops m w g v pd c,
  build n = Ok s0 -> well_configured n ->
  described (run E s0 ops) m w = Some (DP g v pd) -> pd_constant pd = Some c -> pd_readonly pd = true.
Proof. exact constant_is_readonly. Qed.

Theorem C06_read_described_partial : forall n s0 E ops m w g v pd,
  build n = Ok s0 -> well_configured n ->
  let s := run E s0 ops in
  described s m w = Some (DP g v pd) ->
  (pd_constant pd = None ->
     exists value, do_read s m w = reply_of (dt_export (pd_dt pd) value >>= fun x => Ok (with_qualifiers x))) /\
  (forall c, pd_constant pd = Some c -> do_read s m w = reply_of (dt_export (pd_dt pd) c >>= py_list)).
Proof. exact read_described. Qed.

Theorem C06_interface_and_features : forall mro,
  length (interface_classes mro) <= 1 /\
  (forall c, In c (interface_classes mro) -> mem_str c secop_base_classes = true /\ In c (map fst mro)) /\
  (interface_classes mro = [] <-> forall c, In c (map fst mro) -> mem_str c secop_base_classes = false) /\
  (forall c, interface_classes mro = [c] ->
     exists pre post, map fst mro = pre ++ c :: post /\ forall x, In x pre -> mem_str x secop_base_classes = false) /\
  (forall f, In f (features_of mro) <-> In (f, true) mro).
Proof.
  intros mro. destruct (interface_classes_spec mro) as (H1 & H2 & H3).
  repeat split; try apply H1; try apply H2; try apply H3; auto.
  - apply interface_class_is_first.
  - apply features_spec.
  - apply features_spec.
Qed.

Theorem C06_main_unit_substituted : forall u unit mu p r,
  no_dollar u -> build_par mu p = Ok r -> pc_unit p = unit ->
  (mu = Some u -> no_dollar (p_unit r)) /\ (no_dollar unit -> p_unit r = unit).
Proof.
  intros u unit mu p r Hu Hb Hp. destruct (build_par_unit _ _ _ Hb) as [H _]. rewrite H, Hp. split.
  - intros X. subst mu. apply replace_dollar_clean; auto.
  - intros X. destruct mu; auto. apply replace_dollar_id; auto.
Qed.

(* genuine defects of the pinned code (Refuted.v) *)
Theorem C06_refuted_constant_read :
  exists n m w c,
    built n = true /\ consistent (state_of n) /\
    opt_eqb pv_same (desc_constant (described (state_of n) m w)) (Some c) = true /\
    do_read (state_of n) m w <> RpData (with_qualifiers c) /\ rerr_is (do_read (state_of n) m w) (RExc EType) = true.
Proof. exact refuted_constant_read. Qed.

Theorem C06_refuted_undescribed_but_served :
  exists n m w,
    built n = true /\ described (state_of n) m w = None /\
    is_data (do_read (state_of n) m w) = true /\
    is_data (reply3 (do_change E0 (state_of n) m w (PInt 7))) = true /\
    reply3 (do_activate (state_of n) (Some (m, Some w))) = RpActive /\
    s_subs (state3 (do_activate (state_of n) (Some (m, Some w)))) = [(m, Some w)] /\
    map (fun u => (u_mod u, u_wire u)) (upds3 (do_activate (state_of n) (Some (m, Some w)))) = [(m, None)].
Proof. exact refuted_undescribed_but_served. Qed.

Theorem C06_refuted_described_but_unreachable :
  exists n m w,
    built n = true /\ is_some (described (state_of n) m w) = true /\
    do_read (state_of n) m w = RpErr RNoPar /\
    (forall j, reply3 (do_change E0 (state_of n) m w j) = RpErr RNoPar).
Proof. exact refuted_described_but_unreachable. Qed.

Theorem C06_refuted_collision :
  exists n,
    built n = true /\
    map (fun e => (fst e, length (md_accs (snd e)))) (describe (state_of n)) = [(s_m, 1%nat)] /\
    map (fun mc => length (filter (fun a => is_some (wire_of true a)) (mc_accs mc))) n = [2%nat] /\
    map (fun u => (u_mod u, u_wire u, body_kind (u_body u))) (upds3 (do_activate (state_of n) (Some (s_m, None)))) =
      [(s_m, Some s_ufoo, 1%nat); (s_m, Some s_ufoo, 2%nat)].
Proof. exact refuted_collision. Qed.

Theorem C06_refuted_nan_constant_described :
  built n_nan = true /\ desc_constant (described (state_of n_nan) s_m s_ufoo) = Some (PFloat fnan).
Proof. exact refuted_nan_constant_described. Qed.

(* non-vacuity: a well configured node in which a described writable parameter accepts and rejects payloads *)
Definition demo : list mcfg :=
  [mk_mod [mk_par s_foo (TInt 0 10) ExTrue None false None (Some (PInt 3));
           mk_par s_bar dbl (ExName s_baz) None true None (Some (PInt 1))]].
Example C06_demo_well_configured : built demo = true /\ well_configured demo.
Proof.
  split; [vm_compute; reflexivity|]. split.
  - repeat constructor. simpl. tauto.
  - apply no_cfg_export_settled. intros mc a [<-|[]] [<-|[<-|[]]]; reflexivity.
Qed.
Example C06_demo_run :
  is_data (reply3 (do_change E0 (state_of demo) s_m s_ufoo (PInt 7))) = true /\
  rerr_is (reply3 (do_change E0 (state_of demo) s_m s_ufoo (PInt 11))) (RExc ERange) = true /\
  rerr_is (reply3 (do_change E0 (state_of demo) s_m s_baz (PInt 1))) RReadOnly = true /\
  rerr_is (do_read (state_of demo) s_m s_bar) RNoPar = true /\
  is_some (described (state_of demo) s_m s_ufoo) = true /\ described (state_of demo) s_m s_bar = None.
Proof. repeat split; vm_compute; reflexivity. Qed.

Print Assumptions C06_source_facts.
Print Assumptions C06_lists_exactly.
Print Assumptions C06_wire_name_rules.
Print Assumptions C06_stable.
Print Assumptions C06_nothing_undescribed_except_cfg_export.
Print Assumptions C06_datainfo_same_object_except_cfg_export.
Print Assumptions C06_flags_predict_except_cfg_export.
Print Assumptions C06_constant_is_readonly.
Print Assumptions C06_read_described_partial.
Print Assumptions C06_interface_and_features.
Print Assumptions C06_main_unit_substituted.
Print Assumptions C06_refuted_constant_read.
Print Assumptions C06_refuted_undescribed_but_served.
Print Assumptions C06_refuted_described_but_unreachable.
Print Assumptions C06_refuted_collision.
Print Assumptions C06_refuted_nan_constant_described.
