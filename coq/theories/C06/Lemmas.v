(* C06 -- lemmas: dictionaries, the structure report, frame lemmas of the state update, refusal of undescribed names *)
From Coq Require Import ZArith NArith Bool List Lia.
Import ListNotations.
Require Import FV.Base.Util FV.Base.F64 FV.Base.PyVal FV.C01.Model FV.Gen.C06 FV.C06.Model.

(* ------------------------------------------------------------------ strings, association lists *)
Lemma str_eqb_refl (s : str) : str_eqb s s = true.
Proof. unfold str_eqb. induction s; simpl; auto. rewrite N.eqb_refl. auto. Qed.

Lemma str_eqb_eq (a b : str) : str_eqb a b = true -> a = b.
Proof.
  unfold str_eqb. revert b. induction a; destruct b; simpl; intros H; try discriminate; auto.
  apply andb_true_iff in H. destruct H as [H1 H2]. apply N.eqb_eq in H1. subst. f_equal. auto.
Qed.

Lemma str_eqb_neq (a b : str) : str_eqb a b = false -> a <> b.
Proof. intros H E. subst. rewrite str_eqb_refl in H. discriminate. Qed.

Lemma str_eqb_sym (a b : str) : str_eqb a b = str_eqb b a.
Proof.
  destruct (str_eqb a b) eqn:E.
  - apply str_eqb_eq in E. subst. symmetry. apply str_eqb_refl.
  - destruct (str_eqb b a) eqn:E2; auto. apply str_eqb_eq in E2. subst. rewrite str_eqb_refl in E. discriminate.
Qed.

Lemma assoc_dict_set_same {A} (k : str) (v : A) (l : list (str * A)) : assoc_str k (dict_set k v l) = Some v.
Proof.
  induction l as [|[k' v'] r IH]; simpl.
  - rewrite str_eqb_refl. auto.
  - destruct (str_eqb k k') eqn:E; simpl.
    + rewrite str_eqb_refl. auto.
    + rewrite E. auto.
Qed.

Lemma assoc_dict_set_other {A} (k k2 : str) (v : A) (l : list (str * A)) :
  str_eqb k k2 = false -> assoc_str k (dict_set k2 v l) = assoc_str k l.
Proof.
  intros N. induction l as [|[k' v'] r IH]; simpl.
  - rewrite N. auto.
  - destruct (str_eqb k2 k') eqn:E; simpl.
    + apply str_eqb_eq in E. subst. rewrite N. auto.
    + destruct (str_eqb k k'); auto.
Qed.

Lemma keys_dict_set {A} (k : str) (v : A) (l : list (str * A)) (x : str) :
  In x (map fst (dict_set k v l)) <-> x = k \/ In x (map fst l).
Proof.
  induction l as [|[k' v'] r IH]; simpl.
  - intuition.
  - destruct (str_eqb k k') eqn:E; simpl.
    + apply str_eqb_eq in E. subst. intuition.
    + rewrite IH. intuition.
Qed.

Lemma nodup_dict_set {A} (k : str) (v : A) (l : list (str * A)) :
  NoDup (map fst l) -> NoDup (map fst (dict_set k v l)).
Proof.
  induction l as [|[k' v'] r IH]; simpl; intros H.
  - repeat constructor. simpl. auto.
  - inversion H; subst. destruct (str_eqb k k') eqn:E; simpl.
    + apply str_eqb_eq in E. subst. constructor; auto.
    + constructor; auto. rewrite keys_dict_set. intros [X|X]; auto. subst. rewrite str_eqb_refl in E. discriminate.
Qed.

Lemma assoc_in_keys {A} (k : str) (l : list (str * A)) : assoc_str k l = None <-> ~ In k (map fst l).
Proof.
  induction l as [|[k' v'] r IH]; simpl.
  - intuition.
  - destruct (str_eqb k k') eqn:E.
    + apply str_eqb_eq in E. subst. split; [discriminate|]. intros H. exfalso. apply H. auto.
    + rewrite IH. split; intros H.
      * intros [X|X]; auto. subst. rewrite str_eqb_refl in E. discriminate.
      * intros X. apply H. auto.
Qed.

Lemma find_app {A} (f : A -> bool) (l1 l2 : list A) :
  find f (l1 ++ l2) = match find f l1 with Some x => Some x | None => find f l2 end.
Proof. induction l1; simpl; auto. destruct (f a); auto. Qed.

Lemma find_none_iff {A} (f : A -> bool) (l : list A) : find f l = None <-> forall x, In x l -> f x = false.
Proof.
  induction l; simpl.
  - intuition.
  - destruct (f a) eqn:E.
    + split; [discriminate|]. intros H. rewrite (H a) in E; auto. discriminate.
    + rewrite IHl. split; intros H x; [intros [X|X]; subst; auto|auto].
Qed.

(* ------------------------------------------------------------------ the structure report of a module *)
Lemma wire_is_true w a : wire_is w a = true <-> a_wire a = Some w.
Proof.
  unfold wire_is. destruct (a_wire a) as [x|]; simpl.
  - split; intros H. apply str_eqb_eq in H. subst; auto. inversion H. apply str_eqb_refl.
  - split; discriminate.
Qed.

(* the entry of a wire name is the description of the LAST accessible exported under it *)
Lemma export_fold_assoc (w : str) (accs : list acc) (r : list (str * adesc)) :
  assoc_str w (fold_left export_step accs r) =
  match find (wire_is w) (rev accs) with
  | Some a => Some (describe_acc a)
  | None => assoc_str w r
  end.
Proof.
  revert r. induction accs as [|a l IH]; intros r; simpl; auto.
  rewrite IH, find_app. destruct (find (wire_is w) (rev l)); auto. simpl.
  unfold export_step, wire_is. destruct (a_wire a) as [x|]; simpl; auto.
  destruct (str_eqb x w) eqn:E.
  - apply str_eqb_eq in E. subst. apply assoc_dict_set_same.
  - apply assoc_dict_set_other. rewrite str_eqb_sym. auto.
Qed.

Lemma export_assoc (w : str) (accs : list acc) :
  assoc_str w (export_accessibles accs) = option_map describe_acc (find (wire_is w) (rev accs)).
Proof. unfold export_accessibles. rewrite export_fold_assoc. destruct (find _ _); auto. Qed.

Lemma export_fold_keys (accs : list acc) (r : list (str * adesc)) (x : str) :
  In x (map fst (fold_left export_step accs r)) <-> In x (map fst r) \/ exists a, In a accs /\ a_wire a = Some x.
Proof.
  revert r. induction accs as [|a l IH]; intros r; simpl.
  - split; [auto|]. intros [H|[a [[] _]]]; auto.
  - rewrite IH. unfold export_step. destruct (a_wire a) as [w|] eqn:E.
    + rewrite keys_dict_set. split.
      * intros [[H|H]|[b [H1 H2]]]; [subst; right; exists a; auto|auto|right; exists b; auto].
      * intros [H|[b [[H1|H1] H2]]]; [auto| subst b; rewrite E in H2; inversion H2; auto |right; exists b; auto].
    + split.
      * intros [H|[b [H1 H2]]]; [auto|right; exists b; auto].
      * intros [H|[b [[H1|H1] H2]]]; [auto|subst b; rewrite E in H2; discriminate|right; exists b; auto].
Qed.

Lemma export_keys (accs : list acc) (x : str) :
  In x (map fst (export_accessibles accs)) <-> exists a, In a accs /\ a_wire a = Some x.
Proof. unfold export_accessibles. rewrite export_fold_keys. simpl. intuition. Qed.

Lemma export_fold_nodup (accs : list acc) (r : list (str * adesc)) :
  NoDup (map fst r) -> NoDup (map fst (fold_left export_step accs r)).
Proof.
  revert r. induction accs as [|a l IH]; intros r H; simpl; auto.
  apply IH. unfold export_step. destruct (a_wire a); auto. apply nodup_dict_set; auto.
Qed.

Lemma export_nodup (accs : list acc) : NoDup (map fst (export_accessibles accs)).
Proof. apply export_fold_nodup. constructor. Qed.

(* ------------------------------------------------------------------ the report of the node *)
Definition described (s : state) (m w : str) : option adesc :=
  match assoc_str m (describe s) with
  | Some md => assoc_str w (md_accs md)
  | None => None
  end.

Lemma assoc_describe (mods : list modl) (m : str) :
  assoc_str m (map (fun x => (m_name x, describe_mod x)) (filter m_export mods)) =
  option_map describe_mod (find (fun x => str_eqb m (m_name x) && m_export x) mods).
Proof.
  induction mods as [|x l IH]; simpl; auto.
  destruct (m_export x) eqn:E; simpl.
  - destruct (str_eqb m (m_name x)); simpl; auto.
  - rewrite andb_false_r. auto.
Qed.

(* ------------------------------------------------------------------ frame lemmas of the state update *)
Lemma set_val_acc_static attr v e h a :
  a_attr (set_val_acc attr v e h a) = a_attr a /\
  a_wire (set_val_acc attr v e h a) = a_wire a /\ describe_acc (set_val_acc attr v e h a) = describe_acc a.
Proof.
  unfold set_val_acc. destruct (str_eqb attr (a_attr a)); auto. destruct (a_body a) eqn:E; auto.
  repeat split; auto. unfold describe_acc. simpl. rewrite E. auto.
Qed.

Lemma export_step_set_val attr v e h r a : export_step r (set_val_acc attr v e h a) = export_step r a.
Proof.
  unfold export_step. destruct (set_val_acc_static attr v e h a) as (_ & Hw & Hd). rewrite Hw, Hd. auto.
Qed.

Lemma export_fold_set_val attr v e h accs r :
  fold_left export_step (map (set_val_acc attr v e h) accs) r = fold_left export_step accs r.
Proof. revert r. induction accs; intros r; simpl; auto. rewrite export_step_set_val. auto. Qed.

Lemma set_val_mod_static m attr v e h md :
  m_name (set_val_mod m attr v e h md) = m_name md /\ m_export (set_val_mod m attr v e h md) = m_export md /\
  describe_mod (set_val_mod m attr v e h md) = describe_mod md.
Proof.
  unfold set_val_mod. destruct (str_eqb m (m_name md)); auto. repeat split; auto.
  unfold describe_mod, export_accessibles. simpl. rewrite export_fold_set_val. auto.
Qed.

Lemma describe_set_val s m attr v e h : describe (set_val s m attr v e h) = describe s.
Proof.
  unfold describe, set_val. simpl. induction (s_mods s) as [|md l IH]; simpl; auto.
  destruct (set_val_mod_static m attr v e h md) as (Hn & He & Hd). rewrite He.
  destruct (m_export md); simpl; auto. rewrite Hn, Hd, IH. auto.
Qed.

Lemma describe_subscribe s sp : describe (subscribe s sp) = describe s.
Proof. auto. Qed.

(* every operation leaves the state as it is, or updates the dynamic part of one parameter object, or registers a subscription *)
Inductive frame (s : state) : state -> Prop :=
| FrSame : frame s s
| FrSet m attr v e h : frame s (set_val s m attr v e h)
| FrSub sp : frame s (subscribe s sp)
| FrActive : frame s {| s_mods := s_mods s; s_active := true; s_subs := s_subs s |}.

Lemma read_hw_frame s m a p hw tok : frame s (fst (fst (read_hw s m a p hw tok))).
Proof.
  unfold read_hw. destruct (dt_call (p_dt p) hw); simpl; [constructor|].
  destruct (err_is (p_err p) tok); simpl; constructor.
Qed.

Lemma step_frame E s o : frame s (fst (fst (step E s o))).
Proof.
  destruct o; simpl; try constructor.
  - unfold do_read. destruct (find_mod s m); try constructor. destruct (lookup0 m0 w); try constructor.
    destruct (a_body a); try constructor. destruct (p_constant p); try constructor. destruct (p_hw p); try constructor.
    apply read_hw_frame.
  - unfold do_change. destruct (find_mod s m); try constructor. destruct (lookup0 m0 w); try constructor.
    destruct (a_body a); try constructor.
    destruct (p_constant p); try constructor. destruct (p_readonly p); try constructor.
    destruct (wire E (p_dt p) j (p_value p) >>= _); simpl; constructor.
  - unfold do_activate. destruct spec as [[m ow]|]; simpl; try constructor.
    destruct (find _ (s_mods s)); try constructor. destruct ow; simpl; try constructor.
    destruct (lookup0 m0 s0); try constructor. destruct (a_body a); simpl; constructor.
  - unfold do_driver_set. destruct (find_mod s m); try constructor. destruct (find_attr m0 attr); try constructor.
    destruct (a_body a); try constructor. destruct (dt_call (p_dt p) v); simpl; try constructor.
    destruct (err_is (p_err p) tok); simpl; constructor.
  - unfold do_hw_set. destruct (find_mod s m); try constructor. destruct (find_attr m0 attr); try constructor.
    destruct (a_body a); try constructor. destruct (p_hw p); simpl; constructor.
Qed.

Lemma describe_frame s s' : frame s s' -> describe s' = describe s.
Proof. destruct 1; auto. apply describe_set_val. Qed.

Lemma describe_step E s o : describe (fst (fst (step E s o))) = describe s.
Proof. apply describe_frame. apply step_frame. Qed.

Lemma describe_run E ops : forall s, describe (run E s ops) = describe s.
Proof. induction ops; intros s; simpl; auto. rewrite IHops. apply describe_step. Qed.

(* ------------------------------------------------------------------ consistency: an unexported module exports nothing *)
Definition acc_consistent (mod_export : bool) (a : acc) : Prop := mod_export = false -> a_wire a = None.
Definition mod_consistent (md : modl) : Prop := Forall (acc_consistent (m_export md)) (m_accs md).
Definition consistent (s : state) : Prop :=
  Forall mod_consistent (s_mods s) /\ NoDup (map m_name (s_mods s)).

Lemma Forall_map_iff {A B} (P : B -> Prop) (f : A -> B) (l : list A) : Forall P (map f l) <-> Forall (fun x => P (f x)) l.
Proof. induction l; simpl; split; intros H; try constructor; inversion H; subst; auto; apply IHl; auto. Qed.

Lemma set_val_mod_consistent m attr v e h md : mod_consistent md -> mod_consistent (set_val_mod m attr v e h md).
Proof.
  unfold mod_consistent, set_val_mod. destruct (str_eqb m (m_name md)); auto. simpl. intros H.
  apply Forall_map_iff. eapply Forall_impl; [|exact H]. intros a H1.
  destruct (set_val_acc_static attr v e h a) as (_ & Hw & _). unfold acc_consistent. rewrite Hw. auto.
Qed.

Lemma set_val_names s m attr v e h : map m_name (s_mods (set_val s m attr v e h)) = map m_name (s_mods s).
Proof.
  unfold set_val. simpl. rewrite map_map. apply map_ext. intros md.
  destruct (set_val_mod_static m attr v e h md) as (Hn & _). auto.
Qed.

Lemma set_val_consistent s m attr v e h : consistent s -> consistent (set_val s m attr v e h).
Proof.
  intros [H1 H2]. split.
  - unfold set_val. simpl. apply Forall_map_iff. eapply Forall_impl; [|exact H1]. intros md. apply set_val_mod_consistent.
  - rewrite set_val_names. auto.
Qed.

Lemma frame_consistent s s' : frame s s' -> consistent s -> consistent s'.
Proof. destruct 1; auto. apply set_val_consistent. Qed.

Lemma step_consistent E s o : consistent s -> consistent (fst (fst (step E s o))).
Proof. apply frame_consistent. apply step_frame. Qed.

Lemma run_consistent E ops : forall s, consistent s -> consistent (run E s ops).
Proof. induction ops; intros s H; simpl; auto. apply IHops. apply step_consistent; auto. Qed.

(* ------------------------------------------------------------------ lookup by the registered name = lookup in the report *)
Lemma find_ext_in {A} (f g : A -> bool) (l : list A) : (forall x, In x l -> f x = g x) -> find f l = find g l.
Proof.
  induction l; simpl; intros H; auto. rewrite (H a); auto. destruct (g a); auto.
Qed.

Lemma lookup0_unexported md w : mod_consistent md -> m_export md = false -> lookup0 md w = None.
Proof.
  intros H E. unfold lookup0. apply find_none_iff. intros a Ha. apply in_rev in Ha.
  unfold mod_consistent in H. rewrite Forall_forall in H. unfold wire_is. rewrite (H a Ha E). auto.
Qed.

Lemma find_mod_unique (mods : list modl) (m : str) (md : modl) :
  NoDup (map m_name mods) -> find (fun x => str_eqb m (m_name x)) mods = Some md ->
  find (fun x => str_eqb m (m_name x) && m_export x) mods = if m_export md then Some md else None.
Proof.
  induction mods as [|x l IH]; simpl; intros ND H; [discriminate|].
  inversion ND; subst. destruct (str_eqb m (m_name x)) eqn:E; simpl.
  - inversion H; subst. destruct (m_export md) eqn:X; auto.
    apply find_none_iff. intros y Hy. destruct (str_eqb m (m_name y)) eqn:E2; auto.
    apply str_eqb_eq in E. apply str_eqb_eq in E2. exfalso. apply H2. rewrite <- E, E2. apply in_map. auto.
  - apply IH; auto.
Qed.

Lemma find_mod_none (mods : list modl) (m : str) :
  find (fun x => str_eqb m (m_name x)) mods = None -> find (fun x => str_eqb m (m_name x) && m_export x) mods = None.
Proof.
  intros H. apply find_none_iff. intros x Hx. rewrite find_none_iff in H. rewrite (H x Hx). auto.
Qed.

(* the accessible a request reaches under a name is the one the report describes under that name, and vice versa *)
Lemma described_lookup s m w : consistent s ->
  described s m w =
  match find_mod s m with
  | Some md => if m_export md then option_map describe_acc (lookup0 md w) else None
  | None => None
  end.
Proof.
  intros [HC ND]. unfold described, describe, find_mod. rewrite assoc_describe.
  destruct (find (fun x => str_eqb m (m_name x)) (s_mods s)) as [md|] eqn:F.
  - rewrite (find_mod_unique _ _ _ ND F). destruct (m_export md); simpl; auto.
    rewrite export_assoc. reflexivity.
  - rewrite (find_mod_none _ _ F). auto.
Qed.

Lemma lookup0_described_none s m w md : consistent s -> find_mod s m = Some md -> described s m w = None -> lookup0 md w = None.
Proof.
  intros HC F D. rewrite (described_lookup _ _ _ HC), F in D.
  destruct (m_export md) eqn:E.
  - destruct (lookup0 md w); auto. discriminate.
  - apply lookup0_unexported; auto. destruct HC as [HC _]. rewrite Forall_forall in HC. apply HC.
    unfold find_mod in F. apply find_some in F. tauto.
Qed.

(* ------------------------------------------------------------------ nothing undescribed can be read, changed, executed, subscribed *)
Definition refused (r : reply) : Prop := r = RpErr RNoMod \/ r = RpErr RNoPar \/ r = RpErr RNoCmd.

Lemma undescribed_read s m w tok : consistent s -> described s m w = None ->
  exists r, do_read s m w tok = (s, r, []) /\ refused r.
Proof.
  intros HC D. unfold do_read, refused. destruct (find_mod s m) as [md|] eqn:F; eauto.
  rewrite (lookup0_described_none _ _ _ _ HC F D). eauto.
Qed.

Lemma undescribed_change E s m w j : consistent s -> described s m w = None ->
  exists r, do_change E s m w j = (s, r, []) /\ refused r.
Proof.
  intros HC D. unfold do_change, refused. destruct (find_mod s m) as [md|] eqn:F; eauto.
  rewrite (lookup0_described_none _ _ _ _ HC F D). eauto.
Qed.

Lemma undescribed_do E s m w arg : consistent s -> described s m w = None -> refused (do_do E s m w arg).
Proof.
  intros HC D. unfold do_do, refused. destruct (find_mod s m) as [md|] eqn:F; auto.
  rewrite (lookup0_described_none _ _ _ _ HC F D). auto.
Qed.

Lemma undescribed_activate s m w : consistent s -> described s m w = None ->
  exists r, do_activate s (Some (m, Some w)) = (s, r, []) /\ refused r.
Proof.
  intros HC D. unfold do_activate, refused.
  destruct (find (fun x => str_eqb m (m_name x) && m_export x) (s_mods s)) as [md|] eqn:F; eauto.
  assert (F2 : find_mod s m = Some md).
  { unfold find_mod. destruct (find (fun x => str_eqb m (m_name x)) (s_mods s)) as [md'|] eqn:G.
    - destruct HC as [_ ND]. rewrite (find_mod_unique _ _ _ ND G) in F. destruct (m_export md'); congruence.
    - rewrite (find_mod_none _ _ G) in F. discriminate. }
  rewrite (lookup0_described_none _ _ _ _ HC F2 D). eauto.
Qed.

Lemma undescribed_module_activate s m : consistent s -> assoc_str m (describe s) = None ->
  do_activate s (Some (m, None)) = (s, RpErr RNoMod, []).
Proof.
  intros HC D. unfold do_activate. unfold describe in D. rewrite assoc_describe in D.
  destruct (find _ (s_mods s)); auto. discriminate.
Qed.

(* ------------------------------------------------------------------ described parameters: same datatype object, flags *)
Lemma described_param s m w g v pd : consistent s -> described s m w = Some (DP g v pd) ->
  exists md a p, find_mod s m = Some md /\ lookup0 md w = Some a /\ a_body a = AP p /\
                 p_dt p = pd_dt pd /\ p_readonly p = pd_readonly pd /\ p_constant p = pd_constant pd /\ p_unit p = pd_unit pd.
Proof.
  intros HC D. rewrite (described_lookup _ _ _ HC) in D.
  destruct (find_mod s m) as [md|]; [|discriminate]. destruct (m_export md); [|discriminate].
  destruct (lookup0 md w) as [a|] eqn:L; [|discriminate]. simpl in D. unfold describe_acc in D.
  destruct (a_body a) as [p|c] eqn:B; inversion D; subst. exists md, a, p. simpl. repeat split; auto.
Qed.

Lemma described_command s m w g v x r : consistent s -> described s m w = Some (DC g v x r) ->
  exists md a c, find_mod s m = Some md /\ lookup0 md w = Some a /\ a_body a = AC c /\ c_arg c = x /\ c_res c = r.
Proof.
  intros HC D. rewrite (described_lookup _ _ _ HC) in D.
  destruct (find_mod s m) as [md|]; [|discriminate]. destruct (m_export md); [|discriminate].
  destruct (lookup0 md w) as [a|] eqn:L; [|discriminate]. simpl in D. unfold describe_acc in D.
  destruct (a_body a) as [p|c] eqn:B; inversion D; subst. exists md, a, c. repeat split; auto.
Qed.

(* what a client computes with the datatype it rebuilt from the report, for a change request *)
Definition verdict (E : pyenv) (d : dtype) (j prev : pyval) : res pyval :=
  wire E d j prev >>= fun v => dt_validate d v PNone.

Lemma change_uses_described_datainfo E s m w g v pd j : consistent s ->
  described s m w = Some (DP g v pd) -> pd_readonly pd = false -> pd_constant pd = None ->
  exists prev,
    match verdict E (pd_dt pd) j prev with
    | Err e => do_change E s m w j = (s, RpErr (RExc e), [])
    | Ok nv => exists s' us, do_change E s m w j =
                 (s', reply_of (dt_export (pd_dt pd) nv >>= fun x => Ok (with_qualifiers x)), us)
    end.
Proof.
  intros HC D RO CO. destruct (described_param _ _ _ _ _ _ HC D) as (md & a & p & F & L & B & Hd & Hr & Hc & _).
  exists (p_value p). unfold do_change, verdict. rewrite F, L, B, Hc, CO, Hr, RO, Hd.
  destruct (wire E (pd_dt pd) j (p_value p) >>= _); eauto.
Qed.

Lemma do_uses_described_datainfo E s m w g v x r arg : consistent s ->
  described s m w = Some (DC g v x r) ->
  exists ret, do_do E s m w arg =
    reply_of (run_cmd E {| c_arg := x; c_res := r; c_ret := ret |} arg >>= fun y => Ok (with_qualifiers y)).
Proof.
  intros HC D. destruct (described_command _ _ _ _ _ _ _ HC D) as (md & a & c & F & L & B & Ha & Hr).
  exists (c_ret c). unfold do_do. rewrite F, L, B. subst. destruct c; auto.
Qed.

Lemma flags_refuse E s m w g v pd j : consistent s -> described s m w = Some (DP g v pd) ->
  (pd_readonly pd = true \/ pd_constant pd <> None) -> do_change E s m w j = (s, RpErr RReadOnly, []).
Proof.
  intros HC D H. destruct (described_param _ _ _ _ _ _ HC D) as (md & a & p & F & L & B & Hd & Hr & Hc & _).
  unfold do_change. rewrite F, L, B, Hc, Hr. destruct (pd_constant pd); auto.
  destruct H as [H|H]; [rewrite H; auto|congruence].
Qed.

Lemma flags_allow E s m w g v pd j : consistent s -> described s m w = Some (DP g v pd) ->
  pd_readonly pd = false -> pd_constant pd = None -> snd (fst (do_change E s m w j)) <> RpErr RReadOnly.
Proof.
  intros HC D RO CO. destruct (change_uses_described_datainfo E _ _ _ _ _ _ j HC D RO CO) as [prev H].
  destruct (verdict E (pd_dt pd) j prev).
  - destruct H as (s' & us & H). rewrite H. simpl. unfold reply_of. destruct (_ >>= _); discriminate.
  - rewrite H. simpl. discriminate.
Qed.

(* the parameter object a described name stands for *)
Definition param_at (s : state) (m w : str) : option par :=
  match find_mod s m with
  | Some md => match lookup0 md w with
               | Some a => match a_body a with AP p => Some p | AC _ => None end
               | None => None
               end
  | None => None
  end.

Definition value_reply (d : dtype) (x : pyval) : reply := reply_of (dt_export d x >>= fun y => Ok (with_qualifiers y)).
(* what an update carries for a value x / for an error *)
Definition value_body (d : dtype) (x : pyval) : ubody := match dt_export d x with Ok y => UV y | Err _ => UX end.

Lemma announce_bodies s m a p : Forall (fun u => u_body u = u_body (make_update m None p)) (announce s m a p).
Proof.
  unfold announce. destruct (a_wire a); auto. destruct (listening s m s0); auto.
Qed.

(* a read of a described parameter without constant: the cached value, or - when the class has a read method - what the
   hardware delivered, converted by the DESCRIBED datatype; a value that datatype does not accept is never emitted *)
Lemma read_nonconstant s m w g v pd tok : consistent s -> described s m w = Some (DP g v pd) -> pd_constant pd = None ->
  exists p, param_at s m w = Some p /\ p_dt p = pd_dt pd /\
    match p_hw p with
    | None => do_read s m w tok = (s, value_reply (pd_dt pd) (p_value p), [])
    | Some hw =>
        match dt_call (pd_dt pd) hw with
        | Ok nv => exists s' us, do_read s m w tok = (s', value_reply (pd_dt pd) nv, us) /\
                                 Forall (fun u => u_body u = value_body (pd_dt pd) nv) us
        | Err e => exists s' us, do_read s m w tok = (s', RpErr (RExc e), us) /\ Forall (fun u => u_body u = UE) us
        end
    end.
Proof.
  intros HC D CO. destruct (described_param _ _ _ _ _ _ HC D) as (md & a & p & F & L & B & Hd & Hr & Hc & _).
  exists p. unfold param_at, do_read. rewrite F, L, B, Hc, CO. repeat split; auto.
  destruct (p_hw p) as [hw|] eqn:HW; [|rewrite Hd; auto].
  unfold read_hw. rewrite Hd. destruct (dt_call (pd_dt pd) hw) as [nv|e].
  - eexists; eexists; split; [reflexivity|].
    eapply Forall_impl; [|apply announce_bodies]. intros u Hu. rewrite Hu. unfold make_update, value_body. simpl.
    rewrite Hd. auto.
  - destruct (err_is (p_err p) tok).
    + eexists; eexists; split; [reflexivity|]. constructor.
    + eexists; eexists; split; [reflexivity|].
      eapply Forall_impl; [|apply announce_bodies]. intros u Hu. rewrite Hu. auto.
Qed.

Lemma read_constant s m w g v pd c tok : consistent s -> described s m w = Some (DP g v pd) -> pd_constant pd = Some c ->
  do_read s m w tok = (s, RpData (with_qualifiers c), []).
Proof.
  intros HC D CO. destruct (described_param _ _ _ _ _ _ HC D) as (md & a & p & F & L & B & Hd & Hr & Hc & _).
  unfold do_read. rewrite F, L, B, Hc, CO. auto.
Qed.
