(* C06 -- the property statements assembled for every state reachable from a built node *)
From Coq Require Import ZArith NArith Bool List Lia.
Import ListNotations.
Require Import FV.Base.Util FV.Base.F64 FV.Base.PyVal FV.C01.Model FV.Gen.C06 FV.C06.Model FV.C06.Lemmas FV.C06.LemmasBuild.

(* module names are the keys of a python dict *)
Definition well_configured (n : list mcfg) : Prop := NoDup (map mc_name n).

Lemma reachable_consistent n s0 E ops :
  build n = Ok s0 -> well_configured n -> consistent (run E s0 ops).
Proof. intros H H1. apply run_consistent. eapply build_consistent; eauto. Qed.

Theorem stable E s ops : describe (run E s ops) = describe s.
Proof. apply describe_run. Qed.

Theorem nothing_undescribed n s0 E ops m w :
  build n = Ok s0 -> well_configured n ->
  let s := run E s0 ops in
  described s m w = None ->
  (forall tok, exists r, do_read s m w tok = (s, r, []) /\ refused r) /\
  (forall j, exists r, do_change E s m w j = (s, r, []) /\ refused r) /\
  (forall arg, refused (do_do E s m w arg)) /\
  (exists r, do_activate s (Some (m, Some w)) = (s, r, []) /\ refused r) /\
  (assoc_str m (describe s) = None -> do_activate s (Some (m, None)) = (s, RpErr RNoMod, [])).
Proof.
  intros H W s D. assert (HC : consistent s) by (eapply reachable_consistent; eauto).
  split; [intros tok; apply undescribed_read; auto|]. split; [intros j; apply undescribed_change; auto|].
  split; [intros arg; apply undescribed_do; auto|]. split; [apply undescribed_activate; auto|].
  apply undescribed_module_activate; auto.
Qed.

Theorem datainfo_same_object n s0 E ops m w :
  build n = Ok s0 -> well_configured n ->
  let s := run E s0 ops in
  (forall g v pd j, described s m w = Some (DP g v pd) -> pd_readonly pd = false -> pd_constant pd = None ->
     exists prev,
       match verdict E (pd_dt pd) j prev with
       | Err e => do_change E s m w j = (s, RpErr (RExc e), [])
       | Ok nv => exists s' us, do_change E s m w j =
                    (s', reply_of (dt_export (pd_dt pd) nv >>= fun x => Ok (with_qualifiers x)), us)
       end) /\
  (forall g v x r arg, described s m w = Some (DC g v x r) ->
     exists ret, do_do E s m w arg =
       reply_of (run_cmd E {| c_arg := x; c_res := r; c_ret := ret |} arg >>= fun y => Ok (with_qualifiers y))).
Proof.
  intros H W s. assert (HC : consistent s) by (eapply reachable_consistent; eauto). split.
  - intros. eapply change_uses_described_datainfo; eauto.
  - intros. eapply do_uses_described_datainfo; eauto.
Qed.

Theorem flags_predict n s0 E ops m w g v pd :
  build n = Ok s0 -> well_configured n ->
  let s := run E s0 ops in
  described s m w = Some (DP g v pd) ->
  ((pd_readonly pd = true \/ pd_constant pd <> None) -> forall j, do_change E s m w j = (s, RpErr RReadOnly, [])) /\
  (pd_readonly pd = false -> pd_constant pd = None -> forall j, snd (fst (do_change E s m w j)) <> RpErr RReadOnly).
Proof.
  intros H W s D. assert (HC : consistent s) by (eapply reachable_consistent; eauto). split.
  - intros X j. eapply flags_refuse; eauto.
  - intros X Y j. eapply flags_allow; eauto.
Qed.

Theorem read_described n s0 E ops m w g v pd tok :
  build n = Ok s0 -> well_configured n ->
  let s := run E s0 ops in
  described s m w = Some (DP g v pd) ->
  (pd_constant pd = None ->
     exists p, param_at s m w = Some p /\ p_dt p = pd_dt pd /\
       match p_hw p with
       | None => do_read s m w tok = (s, value_reply (pd_dt pd) (p_value p), [])
       | Some hw =>
           match dt_call (pd_dt pd) hw with
           | Ok nv => exists s' us, do_read s m w tok = (s', value_reply (pd_dt pd) nv, us) /\
                                    Forall (fun u => u_body u = value_body (pd_dt pd) nv) us
           | Err e => exists s' us, do_read s m w tok = (s', RpErr (RExc e), us) /\ Forall (fun u => u_body u = UE) us
           end
       end) /\
  (forall c, pd_constant pd = Some c -> do_read s m w tok = (s, RpData (with_qualifiers c), [])).
Proof.
  intros H W s D. assert (HC : consistent s) by (eapply reachable_consistent; eauto). split.
  - intros X. eapply read_nonconstant; eauto.
  - intros c X. eapply read_constant; eauto.
Qed.

(* interface class, features and implementation in the report are those of the implementing class, whatever the
   configuration says about these module properties *)
Theorem auto_props_described n s :
  build n = Ok s ->
  Forall2 (fun mc e => md_impl (snd e) = mc_impl mc /\ md_ifaces (snd e) = interface_classes (mc_mro mc) /\
                       md_features (snd e) = features_of (mc_mro mc))
          (filter mc_export n) (describe s).
Proof.
  intros H. pose proof (lists_exactly _ _ H) as L.
  induction L as [|mc e l l' (_ & _ & _ & H1 & H2 & H3) _ IH]; constructor; auto.
Qed.

(* a described constant always comes with readonly = true *)
Lemma built_par_in n s md a p : build n = Ok s -> In md (s_mods s) -> In a (m_accs md) -> a_body a = AP p ->
  p_constant p <> None -> p_readonly p = true.
Proof.
  intros H. destruct (build_mods _ _ H) as (F & _). clear H. revert md.
  induction F as [|mc md0 l l' Hb Hl IH]; intros md [].
  - subst md0. destruct (build_mod_static _ _ Hb) as (_ & _ & _ & _ & _ & Ha & _). clear Hb.
    induction Ha as [|x y la lb Hxy Hab IHa]; intros [].
    + subst y. unfold build_acc in Hxy. apply bind_ok in Hxy. destruct Hxy as (b & Hb & Hxy). inversion Hxy; subst. simpl.
      intros B. subst b. destruct (ac_body x) as [pc|cc].
      * apply bind_ok in Hb. destruct Hb as (r & Hr & Hb). inversion Hb; subst.
        destruct (build_par_flags _ _ _ Hr) as (X & _). auto.
      * discriminate.
    + apply IHa; auto.
  - apply IH; auto.
Qed.

Theorem constant_is_readonly n s0 E ops m w g v pd c :
  build n = Ok s0 -> well_configured n ->
  described (run E s0 ops) m w = Some (DP g v pd) -> pd_constant pd = Some c -> pd_readonly pd = true.
Proof.
  intros H W D C. assert (HC : consistent s0) by (eapply build_consistent; eauto).
  assert (D0 : described s0 m w = Some (DP g v pd)).
  { unfold described in *. rewrite describe_run in D. auto. }
  destruct (described_param _ _ _ _ _ _ HC D0) as (md & a & p & F & L & B & _ & Hr & Hc & _).
  rewrite <- Hr. eapply (built_par_in n s0 md a p); eauto.
  - unfold find_mod in F. apply find_some in F. tauto.
  - unfold lookup0 in L. apply find_some in L. destruct L as [L _]. apply in_rev in L. auto.
  - rewrite Hc, C. discriminate.
Qed.

(* two accessibles of one module with the same export name: the node is not built (configuration error) *)
Lemma forall2_in_l {A B} (R : A -> B -> Prop) l l' x : Forall2 R l l' -> In x l -> exists y, In y l' /\ R x y.
Proof.
  induction 1 as [|a b l l' Hab Hl IH]; intros []; [subst; exists b; simpl; auto|].
  destruct IH as (y & Hy & HR); auto. exists y. simpl. auto.
Qed.

Theorem duplicate_export_rejected n mc s :
  In mc n -> build n = Ok s -> NoDup (cfg_wires (mc_export mc) (mc_accs mc)).
Proof.
  intros Hin H. destruct (build_mods _ _ H) as (F & _).
  destruct (forall2_in_l _ _ _ _ F Hin) as (md & _ & Hb).
  destruct (build_mod_static _ _ Hb) as (_ & _ & _ & _ & _ & Ha & Hd).
  rewrite <- (wires_forall2 _ _ _ _ Ha). apply dup_free_nodup. auto.
Qed.
