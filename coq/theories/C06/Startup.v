(* C06 -- executable model of the start-up of a node (Server._processCfg) as far as it touches the self-description.
   No proofs here.

   Server._processCfg: create_modules() constructs every module object (Model.build); then get_descriptive_data('') is
   called once and its result is dropped: it walks the exported modules in order, obtains each with get_module - which
   runs earlyInit / initModule of a module the first time it is asked for - and describes it; then get_module is called
   for every module (the unexported ones are initialised now).  So module A may be described while module B is not yet
   initialised.

   initModule of a control loop (mixins.HasOutputModule) with a configured output module calls
   output_module.register_input(own name, ...) on the output module (mixins.HasControlledBy), which REPLACES the
   datatype of the Parameter object `controlled_by` of that instance by the enum extended with the controller's name
   (Enum takes max(values) + 1 for it).  Value, read error and all other properties of the parameter object stay.

   The state has no component that holds a description: `describe` (Model.v) is computed from the module objects of the
   state it is applied to (translator fact description_built_per_call).  `startup_trace` also returns what the
   start-up call of get_descriptive_data computed module by module - the real code drops it (fact startup_order). *)
From Coq Require Import ZArith NArith Bool List.
Import ListNotations.
Require Import FV.Base.Util FV.Base.F64 FV.Base.PyVal FV.C01.Model FV.Gen.C06 FV.C06.Model.

(* "controlled_by" *)
Definition cb_attr : str := [99; 111; 110; 116; 114; 111; 108; 108; 101; 100; 95; 98; 121]%N.

(* Enum(prev_enum, name=None): the next value is max(values or [0]) + 1 *)
Definition enum_next (ms : list (str * Z)) : Z := (fold_left Z.max (map snd ms) (match ms with [] => 0 | (_, v) :: _ => v end) + 1)%Z.
Definition extend_dt (d : dtype) (name : str) : dtype :=
  match d with
  | TEnum ms => TEnum (ms ++ [(name, enum_next ms)])
  | _ => d
  end.

(* self.parameters['controlled_by'].datatype = EnumType(Enum(prev_enum, name=None)) *)
Definition reg_par (name : str) (p : par) : par :=
  {| p_dt := extend_dt (p_dt p) name; p_unit := p_unit p; p_readonly := p_readonly p; p_constant := p_constant p;
     p_value := p_value p; p_err := p_err p; p_hw := p_hw p |}.
Definition reg_acc (name : str) (a : acc) : acc :=
  if str_eqb cb_attr (a_attr a) then
    match a_body a with
    | AP p => {| a_attr := a_attr a; a_wire := a_wire a; a_group := a_group a; a_vis := a_vis a; a_body := AP (reg_par name p) |}
    | AC _ => a
    end
  else a.
Definition reg_mod (out name : str) (md : modl) : modl :=
  if str_eqb out (m_name md) then
    {| m_name := m_name md; m_export := m_export md; m_group := m_group md; m_vis := m_vis md; m_impl := m_impl md;
       m_ifaces := m_ifaces md; m_features := m_features md; m_accs := map (reg_acc name) (m_accs md) |}
  else md.
(* <out>.register_input(<ctrl>, ...) *)
Definition register_input (s : state) (ctrl out : str) : state :=
  {| s_mods := map (reg_mod out ctrl) (s_mods s); s_active := s_active s; s_subs := s_subs s |}.

(* the configuration of the attachments: (control loop, its output_module), in the order of the configuration *)
Definition links := list (str * str).

(* initModule of module m (first get_module): every attachment of m registers m at its output module *)
Definition init_module (lk : links) (s : state) (m : str) : state :=
  fold_left (fun st l => if str_eqb m (fst l) then register_input st (fst l) (snd l) else st) lk s.

(* one round of the loop of get_descriptive_data at start-up: initialise the module, describe it *)
Definition startup_visit (lk : links) (acc0 : state * description) (m : modl) : state * description :=
  let s1 := init_module lk (fst acc0) (m_name m) in
  match find_mod s1 (m_name m) with
  | Some m1 => (s1, snd acc0 ++ [(m_name m, describe_mod m1)])
  | None => (s1, snd acc0)
  end.

(* Server._processCfg after create_modules: the start-up description (dropped by the real code), then the remaining
   modules; a module is initialised once: exported ones in the first pass, the others in the second *)
Definition startup_trace (lk : links) (s0 : state) : state * description :=
  let r := fold_left (startup_visit lk) (filter m_export (s_mods s0)) (s0, []) in
  (fold_left (init_module lk) (map m_name (filter (fun m => negb (m_export m)) (s_mods s0))) (fst r), snd r).
Definition startup (lk : links) (s0 : state) : state := fst (startup_trace lk s0).

(* the node as it serves: built, started, then any history *)
Definition started (n : list mcfg) (lk : links) : res state := build n >>= fun s0 => Ok (startup lk s0).
