(* C06 -- correspondence driver: a generated node configuration, a request history, and what the implementation answered *)
From Coq Require Import ZArith NArith Bool List.
Import ListNotations.
Require Import FV.Base.Util FV.Base.F64 FV.Base.PyVal FV.C01.Model FV.Gen.C06 FV.C06.Model FV.C06.Startup.

Definition odt_eqb := opt_eqb dtype_eqb.
Definition ostr_eqb := opt_eqb str_eqb.

Definition pdesc_eqb (a b : pdesc) : bool :=
  dtype_eqb (pd_dt a) (pd_dt b) && str_eqb (pd_unit a) (pd_unit b) && Bool.eqb (pd_readonly a) (pd_readonly b) &&
  opt_eqb pv_same (pd_constant a) (pd_constant b).

Definition adesc_eqb (a b : adesc) : bool :=
  match a, b with
  | DP g v p, DP g' v' p' => ostr_eqb g g' && opt_eqb Z.eqb v v' && pdesc_eqb p p'
  | DC g v x r, DC g' v' x' r' => ostr_eqb g g' && opt_eqb Z.eqb v v' && odt_eqb x x' && odt_eqb r r'
  | _, _ => false
  end.

Definition mdesc_eqb (a b : mdesc) : bool :=
  list_eqb (pair_eqb str_eqb adesc_eqb) (md_accs a) (md_accs b) && ostr_eqb (md_group a) (md_group b) &&
  opt_eqb Z.eqb (md_vis a) (md_vis b) && str_eqb (md_impl a) (md_impl b) &&
  list_eqb str_eqb (md_ifaces a) (md_ifaces b) && list_eqb str_eqb (md_features a) (md_features b).

Definition description_eqb (a b : description) : bool := list_eqb (pair_eqb str_eqb mdesc_eqb) a b.

Definition rerr_eqb (a b : rerr) : bool :=
  match a, b with
  | RNoMod, RNoMod | RNoPar, RNoPar | RNoCmd, RNoCmd | RReadOnly, RReadOnly => true
  | RExc e, RExc e' => exc_eqb e e'
  | _, _ => false
  end.

Definition reply_eqb (a b : reply) : bool :=
  match a, b with
  | RpData v, RpData v' => pv_same v v'
  | RpActive, RpActive | RpNone, RpNone => true
  | RpDesc d, RpDesc d' => description_eqb d d'
  | RpErr e, RpErr e' => rerr_eqb e e'
  | _, _ => false
  end.

Definition ubody_eqb (a b : ubody) : bool :=
  match a, b with
  | UV v, UV v' => pv_same v v'
  | UE, UE | UX, UX => true
  | _, _ => false
  end.
Definition upd_eqb (a b : upd) : bool :=
  str_eqb (u_mod a) (u_mod b) && ostr_eqb (u_wire a) (u_wire b) && ubody_eqb (u_body a) (u_body b).

Record obs_step := { o_reply : reply; o_upds : list upd }.

Record case := {
  c_env : pyenv;
  c_cfg : list mcfg;
  c_ops : list op;
  c_obs : list obs_step;            (* one per operation: reply (or error class) and the updates the connection received *)
  c_rejected : bool;                (* the implementation refused to build the node (configuration error) *)
  c_links : links;                  (* (control loop, configured output_module) in configuration order *)
}.

Fixpoint check_steps (E : pyenv) (s : state) (ops : list op) (obs : list obs_step) : bool :=
  match ops, obs with
  | [], [] => true
  | o :: ops', ob :: obs' =>
      let '(s', r, us) := step E s o in
      reply_eqb r (o_reply ob) && list_eqb upd_eqb us (o_upds ob) && check_steps E s' ops' obs'
  | _, _ => false
  end.

Definition check_case (c : case) : bool :=
  forallb (fun m => forallb kind_ok (mc_accs m)) (c_cfg c) &&
  match build (c_cfg c) with
  | Ok s0 => negb (c_rejected c) && check_steps (c_env c) (startup (c_links c) s0) (c_ops c) (c_obs c)
  | Err _ => c_rejected c           (* both refuse the configuration *)
  end.

(* for the replay files: what the model answers *)
Fixpoint model_steps (E : pyenv) (s : state) (ops : list op) : list (reply * list upd) :=
  match ops with
  | [] => []
  | o :: r => let '(s', rp, us) := step E s o in (rp, us) :: model_steps E s' r
  end.
Definition model_result (c : case) : res (list (reply * list upd)) :=
  build (c_cfg c) >>= fun s0 => Ok (model_steps (c_env c) (startup (c_links c) s0) (c_ops c)).

(* diagnosis (numbers only, floats are expensive to print): index of the first operation on which model and
   implementation differ, reply agrees?, updates agree?, kind of the model reply, number of model updates,
   and for a structure report the index of the first module and accessible that differ *)
Definition reply_code (r : reply) : nat :=
  match r with
  | RpData _ => 0 | RpActive => 1 | RpDesc _ => 2 | RpNone => 3
  | RpErr RNoMod => 10 | RpErr RNoPar => 11 | RpErr RNoCmd => 12 | RpErr RReadOnly => 13
  | RpErr (RExc ERange) => 20 | RpErr (RExc EWrongType) => 21 | RpErr (RExc EType) => 22 | RpErr (RExc EKey) => 23
  | RpErr (RExc _) => 29
  end.
Fixpoint first_diff {A} (eqb : A -> A -> bool) (a b : list A) (i : nat) : nat :=
  match a, b with
  | x :: a', y :: b' => if eqb x y then first_diff eqb a' b' (S i) else i
  | [], [] => 999
  | _, _ => 500 + i
  end.
Definition desc_diff (r o : reply) : nat * nat :=
  match r, o with
  | RpDesc d, RpDesc d' =>
      let i := first_diff (pair_eqb str_eqb mdesc_eqb) d d' 0 in
      (i, match nth_error d i, nth_error d' i with
          | Some (_, m), Some (_, m') => first_diff (pair_eqb str_eqb adesc_eqb) (md_accs m) (md_accs m') 0
          | _, _ => 998
          end)
  | _, _ => (997, 997)
  end.
Fixpoint first_bad (E : pyenv) (s : state) (ops : list op) (obs : list obs_step) (i : nat)
  : option (nat * bool * bool * nat * nat * (nat * nat)) :=
  match ops, obs with
  | o :: ops', ob :: obs' =>
      let '(s', r, us) := step E s o in
      if reply_eqb r (o_reply ob) && list_eqb upd_eqb us (o_upds ob) then first_bad E s' ops' obs' (S i)
      else Some (i, reply_eqb r (o_reply ob), list_eqb upd_eqb us (o_upds ob), reply_code r, length us, desc_diff r (o_reply ob))
  | _, _ => None
  end.
Definition diag (c : case) : option (nat * bool * bool * nat * nat * (nat * nat)) :=
  match build (c_cfg c) with
  | Ok s0 => first_bad (c_env c) (startup (c_links c) s0) (c_ops c) (c_obs c) 0
  | Err _ => Some (777, false, false, 0, 0, (0, 0))
  end.
