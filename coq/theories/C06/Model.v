(* C06 -- executable model of the self-description of a SEC node and of the request paths that must honour it.
   Two layers: what the programmer / the configuration wrote (mcfg, acfg) and the run-time node built from it
   (state, modl, acc: the Parameter / Command objects with their cached value).  No proofs here.

   modelled functions:
     Accessible.fixExport, Module._add_accessible (registration in accessiblename2attr, module-level hiding, cfg applied
     afterwards), Parameter.finish (constant re-exported, readonly forced), Module._handle_writes (initial value / readerror),
     Module.applyMainUnit + HasUnit.set_main_unit, automatic properties implementation / interface_classes / features,
     HasProperties.exportProperties (non-default rule for group and visibility), Parameter.for_export, Command.for_export,
     SecNode.export_accessibles, SecNode.get_descriptive_data (whole node), Dispatcher._getParameterValue / _setParameterValue /
     _execute_command / handle_read / handle_change / handle_do / handle_activate, make_update, Module.announceUpdate
     (omit_unchanged_within = 0, an error equal to the stored read error is not announced again), the generated read wrapper
     around a user read method (the hardware value is converted with the datatype of the INSTANCE's Parameter), the write
     wrapper without a user write method, Parameter.__set__ (driver assignment), Command.do; the module properties named in the
     configuration followed by the automatic ones (implementation, interface_classes, features);
     export_value of the datatypes (subset) *)
From Coq Require Import ZArith NArith Bool List.
Import ListNotations.
Require Import FV.Base.Util FV.Base.F64 FV.Base.PyVal FV.C01.Model FV.Gen.C06.

(* ------------------------------------------------------------------ export_value of the datatypes *)
Definition py_float_of (v : pyval) : res f64 :=
  match v with
  | PFloat f => Ok f
  | PInt z => match float_of_Z z with Some f => Ok f | None => Err EOverflow end
  | PBool b => Ok (if b then of_Z 1 else fzero)
  | PEnum _ z => match float_of_Z z with Some f => Ok f | None => Err EOverflow end
  | _ => Err EOther                                   (* float of a str is python runtime, outside the model *)
  end.

Definition float_export (v : pyval) : res pyval := py_float_of v >>= fun f => Ok (PFloat f).
Definition int_export (v : pyval) : res pyval :=
  match v with
  | PEnum _ z => Ok (PInt z)
  | PStr _ | PBytes _ => Err EOther
  | _ => py_int_num v >>= fun z => Ok (PInt z)
  end.
Definition scaled_export (scale : f64) (v : pyval) : res pyval :=
  py_float_of v >>= fun f => py_round (fdiv f scale) >>= fun z => Ok (PInt z).
Definition enum_export (ms : list (str * Z)) (v : pyval) : res pyval :=
  enum_call ms v >>= fun m => match m with PEnum _ z => Ok (PInt z) | _ => Err EOther end.
Definition string_export (v : pyval) : res pyval :=
  match v with PStr s => Ok (PStr s) | _ => Err EOther end.      (* f'{value}' of other kinds is python runtime *)

Fixpoint dt_export (d : dtype) (v : pyval) {struct d} : res pyval :=
  match d with
  | TFloat _ _ _ _ => float_export v
  | TInt _ _ => int_export v
  | TScaled scale _ _ => scaled_export scale v
  | TBool => bool_call v
  | TEnum ms => enum_export ms v
  | TString _ _ _ => string_export v
  | TBlob _ _ => Err EOther                            (* outside the modelled subset *)
  | TArray elem minlen maxlen =>
      array_check minlen maxlen v >>= fun _ =>
      match py_iter v with
      | None => Err EType
      | Some items => map_res (dt_export elem) items >>= fun ys => Ok (PList ys)
      end
  | TTuple elems =>
      tuple_check (length elems) v >>= fun _ =>
      match py_iter v with
      | None => Err EType
      | Some items => mapd_res dt_export elems items >>= fun ys => Ok (PList ys)
      end
  | TStruct members optional client =>
      struct_check (map fst members) optional client true v >>= fun _ =>      (* check_type(value, True) *)
      if negb (is_dict v) then Err EAttr
      else struct_fold dt_export false members (dict_items v) [] >>= fun kv => Ok (PDict kv)
  end.

(* bit-exact equality of datatypes (used to compare the described datainfo with the run-time datatype) *)
Fixpoint dtype_eqb (a b : dtype) {struct a} : bool :=
  match a, b with
  | TFloat a1 a2 a3 a4, TFloat b1 b2 b3 b4 => fsame a1 b1 && fsame a2 b2 && fsame a3 b3 && fsame a4 b4
  | TInt a1 a2, TInt b1 b2 => Z.eqb a1 b1 && Z.eqb a2 b2
  | TScaled a1 a2 a3, TScaled b1 b2 b3 => fsame a1 b1 && fsame a2 b2 && fsame a3 b3
  | TBool, TBool => true
  | TEnum ma, TEnum mb => list_eqb (pair_eqb str_eqb Z.eqb) ma mb
  | TString a1 a2 a3, TString b1 b2 b3 => Z.eqb a1 b1 && Z.eqb a2 b2 && Bool.eqb a3 b3
  | TBlob a1 a2, TBlob b1 b2 => Z.eqb a1 b1 && Z.eqb a2 b2
  | TArray ea a1 a2, TArray eb b1 b2 => dtype_eqb ea eb && Z.eqb a1 b1 && Z.eqb a2 b2
  | TTuple la, TTuple lb =>
      (fix go (la lb : list dtype) : bool :=
         match la, lb with
         | [], [] => true
         | x :: la', y :: lb' => dtype_eqb x y && go la' lb'
         | _, _ => false
         end) la lb
  | TStruct ma oa ca, TStruct mb ob cb =>
      (fix go (ma mb : list (str * dtype)) : bool :=
         match ma, mb with
         | [], [] => true
         | (k, x) :: ma', (k', y) :: mb' => str_eqb k k' && dtype_eqb x y && go ma' mb'
         | _, _ => false
         end) ma mb && list_eqb str_eqb oa ob && Bool.eqb ca cb
  | _, _ => false
  end.

(* ------------------------------------------------------------------ what the programmer and the configuration wrote *)
Inductive export_t := ExFalse | ExTrue | ExName (s : str).

Record pcfg := {
  pc_dt : dtype;                    (* datatype (numeric properties read back from the run-time object) *)
  pc_dtdefault : pyval;             (* datatype.default, python runtime data *)
  pc_unit : str;                    (* unit property of a float / scaled datatype as written, may contain $ *)
  pc_readonly : bool;
  pc_const_cls : option pyval;      (* constant given in the class definition *)
  pc_const_cfg : option pyval;      (* constant given in the configuration *)
  pc_default : option pyval;        (* default given in the class definition *)
  pc_hw : option pyval;             (* Some h: the class has a read_<attr> method, it returns the hardware register (initially h) *)
}.
Record ccfg := { cc_arg : option dtype; cc_res : option dtype; cc_ret : pyval (* what the fake method returns *) }.
Inductive body := BParam (p : pcfg) | BCmd (c : ccfg).
Record acfg := {
  ac_attr : str;
  ac_export : export_t;             (* export property in the class definition *)
  ac_cfg_export : option export_t;  (* export property given in the configuration *)
  ac_group : str;
  ac_vis : Z;
  ac_body : body;
}.
(* the module properties the code sets automatically; a configuration may name them too *)
Inductive akey := KImpl | KIfaces | KFeatures.
Inductive mpropv := MPStr (s : str) | MPList (l : list str).
Record mcfg := {
  mc_name : str;
  mc_export : bool;
  mc_group : str;
  mc_vis : Z;
  mc_impl : str;                    (* module.qualname of the class, python runtime data *)
  mc_mro : list (str * bool);       (* C3 MRO as computed by the interpreter: class name, Feature in its direct bases *)
  mc_accs : list acfg;              (* in the order of Module.accessibles *)
  mc_cfg_auto : list (akey * mpropv);   (* implementation / interface_classes / features entries of the module's configuration *)
}.

(* ------------------------------------------------------------------ the run-time node *)
(* p_dt is the datatype of the instance's Parameter object (class datatype with the configured datatype properties):
   the one object that is exported, validates changes and converts what the hardware delivered.
   p_err: the stored read error, identified by a token (the text of an error message is python runtime data; 0 = the
   ConfigError of a parameter that was never initialised); p_hw: the hardware register behind a user read method *)
Record par := {
  p_dt : dtype; p_unit : str; p_readonly : bool; p_constant : option pyval;
  p_value : pyval; p_err : option N; p_hw : option pyval;
}.
Record cmd := { c_arg : option dtype; c_res : option dtype; c_ret : pyval }.
Inductive abody := AP (p : par) | AC (c : cmd).
Record acc := {
  a_attr : str;
  a_wire : option str;              (* export property after _add_accessible: the key in accessiblename2attr; None = falsy *)
  a_group : str;
  a_vis : Z;
  a_body : abody;
}.
Record modl := {
  m_name : str; m_export : bool; m_group : str; m_vis : Z; m_impl : str;
  m_ifaces : list str; m_features : list str; m_accs : list acc;
}.
Record state := {
  s_mods : list modl;
  s_active : bool;                          (* the connection is in _active_connections *)
  s_subs : list (str * option str);         (* specifiers the connection subscribed to *)
}.

(* ------------------------------------------------------------------ building a module (Module.__init__) *)
Definition underscore : N := 95%N.
Definition dollar : N := 36%N.

Definition is_predefined (attr : str) : bool :=
  match assoc_str attr predefined_accessibles with Some _ => true | None => false end.

(* Accessible.fixExport followed by the truth test of the export property *)
Definition fix_export (attr : str) (e : export_t) : option str :=
  match e with
  | ExFalse => None
  | ExName [] => None
  | ExName s => Some s
  | ExTrue => if is_predefined attr then Some attr else Some (underscore :: attr)
  end.

(* a predefined name must be used for its own kind (otherwise fixExport raises ProgrammingError: not buildable) *)
Definition kind_ok (a : acfg) : bool :=
  match ac_export a, assoc_str (ac_attr a) predefined_accessibles with
  | ExTrue, Some is_param => Bool.eqb is_param (match ac_body a with BParam _ => true | BCmd _ => false end)
  | _, _ => true
  end.

(* _add_accessible: the configured properties are applied first, then "if not self.export: accessible.export = False",
   then fixExport; the result is the key registered in accessiblename2attr and the name used by the report *)
Definition wire_of (mod_export : bool) (a : acfg) : option str :=
  if mod_export then fix_export (ac_attr a) (match ac_cfg_export a with Some e => e | None => ac_export a end)
  else None.

Fixpoint replace_dollar (u s : str) : str :=
  match s with
  | [] => []
  | c :: r => if N.eqb c dollar then u ++ replace_dollar u r else c :: replace_dollar u r
  end.

(* Parameter.finish: constant = datatype.export_value(datatype(constant)) *)
Definition finish_const (d : dtype) (c : pyval) : res pyval := dt_call d c >>= fun v => dt_export d v.

Fixpoint iter_res {A} (n : nat) (f : A -> res A) (x : A) : res A :=
  match n with O => Ok x | S k => f x >>= iter_res k f end.

Definition build_par (mainunit : option str) (p : pcfg) : res par :=
  let d := pc_dt p in
  (match pc_const_cfg p with
   | Some c => dt_call d c >>= fun _ => finish_const d c >>= fun c1 => Ok (Some c1)
   | None =>
       match pc_const_cls p with
       | Some c => iter_res finish_calls_class_constant (finish_const d) c >>= fun c3 => Ok (Some c3)
       | None => Ok None
       end
   end) >>= fun const =>
  (match pc_default p with
   | Some v => iter_res 4 (dt_call d) v >>= fun v' => Ok (v', None)
   | None => Ok (pc_dtdefault p, Some 0%N)
   end) >>= fun ve =>
  Ok {| p_dt := d;
        p_unit := match mainunit with Some u => replace_dollar u (pc_unit p) | None => pc_unit p end;
        p_readonly := match const with Some _ => true | None => pc_readonly p end;
        p_constant := const; p_value := fst ve; p_err := snd ve; p_hw := pc_hw p |}.

Definition build_acc (mod_export : bool) (mainunit : option str) (a : acfg) : res acc :=
  (match ac_body a with
   | BParam p => build_par mainunit p >>= fun r => Ok (AP r)
   | BCmd c => Ok (AC {| c_arg := cc_arg c; c_res := cc_res c; c_ret := cc_ret c |})
   end) >>= fun b =>
  Ok {| a_attr := ac_attr a; a_wire := wire_of mod_export a;
        a_group := ac_group a; a_vis := ac_vis a; a_body := b |}.

Fixpoint map_resA {A B} (f : A -> res B) (l : list A) : res (list B) :=
  match l with
  | [] => Ok []
  | x :: r => f x >>= fun y => map_resA f r >>= fun ys => Ok (y :: ys)
  end.

Definition value_attr : str := [118; 97; 108; 117; 101]%N.      (* "value" *)

(* mainvalue = self.parameters.get('value'); mainunit = mainvalue.datatype.unit, applied when not empty *)
Definition main_unit (accs : list acfg) : option str :=
  match find (fun a => str_eqb (ac_attr a) value_attr) accs with
  | Some a => match ac_body a with
              | BParam p => match pc_unit p with [] => None | u => Some u end
              | BCmd _ => None
              end
  | None => None
  end.

Definition interface_classes (mro : list (str * bool)) : list str :=
  firstn interface_classes_limit (filter (fun n => mem_str n secop_base_classes) (map fst mro)).
Definition features_of (mro : list (str * bool)) : list str := map fst (filter snd mro).

(* Module.__init__, module properties: step 2 applies what the configuration says (setProperty in the order given), step 3
   assigns the automatic properties.  The order of the two steps is read off the source (auto_props_after_cfg). *)
Record mprops := { mp_impl : option mpropv; mp_ifaces : option mpropv; mp_features : option mpropv }.
Definition mp_empty : mprops := {| mp_impl := None; mp_ifaces := None; mp_features := None |}.
Definition mp_set (k : akey) (v : mpropv) (r : mprops) : mprops :=
  match k with
  | KImpl => {| mp_impl := Some v; mp_ifaces := mp_ifaces r; mp_features := mp_features r |}
  | KIfaces => {| mp_impl := mp_impl r; mp_ifaces := Some v; mp_features := mp_features r |}
  | KFeatures => {| mp_impl := mp_impl r; mp_ifaces := mp_ifaces r; mp_features := Some v |}
  end.
Definition cfg_props (l : list (akey * mpropv)) (r : mprops) : mprops :=
  fold_left (fun r kv => mp_set (fst kv) (snd kv) r) l r.
Definition auto_props (m : mcfg) (r : mprops) : mprops :=
  mp_set KFeatures (MPList (features_of (mc_mro m)))
    (mp_set KIfaces (MPList (interface_classes (mc_mro m))) (mp_set KImpl (MPStr (mc_impl m)) r)).
Definition module_props (m : mcfg) : mprops :=
  if auto_props_after_cfg then auto_props m (cfg_props (mc_cfg_auto m) mp_empty)
  else cfg_props (mc_cfg_auto m) (auto_props m mp_empty).
(* setProperty validates: implementation is a string, the other two are arrays of strings (BadValueError -> ConfigError) *)
Definition prop_kind_ok (kv : akey * mpropv) : bool :=
  match kv with
  | (KImpl, MPStr _) | (KIfaces, MPList _) | (KFeatures, MPList _) => true
  | _ => false
  end.
Definition prop_str (o : option mpropv) : str := match o with Some (MPStr s) => s | _ => [] end.
Definition prop_list (o : option mpropv) : list str := match o with Some (MPList l) => l | _ => [] end.

(* "export name ... is already used" -> self.errors -> ConfigError: the module is not created *)
Definition wires (accs : list acc) : list str :=
  flat_map (fun a => match a_wire a with Some w => [w] | None => [] end) accs.
Fixpoint dup_free (l : list str) : bool :=
  match l with [] => true | x :: r => negb (mem_str x r) && dup_free r end.

Definition build_mod (m : mcfg) : res modl :=
  map_resA (build_acc (mc_export m) (main_unit (mc_accs m))) (mc_accs m) >>= fun accs =>
  if negb (dup_free (wires accs)) then Err EOther else
  if negb (forallb prop_kind_ok (mc_cfg_auto m)) then Err EOther else
  let props := module_props m in
  Ok {| m_name := mc_name m; m_export := mc_export m; m_group := mc_group m; m_vis := mc_vis m;
        m_impl := prop_str (mp_impl props); m_ifaces := prop_list (mp_ifaces props);
        m_features := prop_list (mp_features props); m_accs := accs |}.

Definition build (n : list mcfg) : res state :=
  map_resA build_mod n >>= fun ms => Ok {| s_mods := ms; s_active := false; s_subs := [] |}.

(* ------------------------------------------------------------------ the structure report *)
Record pdesc := { pd_dt : dtype; pd_unit : str; pd_readonly : bool; pd_constant : option pyval }.
Inductive adesc :=
| DP (group : option str) (vis : option Z) (p : pdesc)
| DC (group : option str) (vis : option Z) (arg res : option dtype).
Record mdesc := {
  md_accs : list (str * adesc); md_group : option str; md_vis : option Z; md_impl : str;
  md_ifaces : list str; md_features : list str;
}.
Definition description := list (str * mdesc).

(* exportProperties: a property that is not export='always' is listed only when it differs from its default *)
Definition nondefault_str (s : str) : option str := match s with [] => None | _ => Some s end.
Definition nondefault_vis (z : Z) : option Z := if Z.eqb z 1 then None else Some z.

Definition describe_acc (a : acc) : adesc :=
  match a_body a with
  | AP p => DP (nondefault_str (a_group a)) (nondefault_vis (a_vis a))
               {| pd_dt := p_dt p; pd_unit := p_unit p; pd_readonly := p_readonly p; pd_constant := p_constant p |}
  | AC c => DC (nondefault_str (a_group a)) (nondefault_vis (a_vis a)) (c_arg c) (c_res c)
  end.

(* export_accessibles: "if aobj.export: res[aobj.export] = aobj.for_export()" on an ordered dict *)
Definition export_step (r : list (str * adesc)) (a : acc) : list (str * adesc) :=
  match a_wire a with Some w => dict_set w (describe_acc a) r | None => r end.
Definition export_accessibles (accs : list acc) : list (str * adesc) := fold_left export_step accs [].

Definition describe_mod (m : modl) : mdesc :=
  {| md_accs := export_accessibles (m_accs m); md_group := nondefault_str (m_group m); md_vis := nondefault_vis (m_vis m);
     md_impl := m_impl m; md_ifaces := m_ifaces m; md_features := m_features m |}.

Definition describe (s : state) : description :=
  map (fun m => (m_name m, describe_mod m)) (filter m_export (s_mods s)).

(* ------------------------------------------------------------------ requests *)
Inductive rerr := RNoMod | RNoPar | RNoCmd | RReadOnly | RExc (e : exc).
Inductive reply :=
| RpData (v : pyval)              (* data part of a reply, time stamps removed *)
| RpActive
| RpDesc (d : description)
| RpNone                          (* driver side operation: no reply *)
| RpErr (e : rerr).
Inductive ubody := UV (v : pyval) | UE | UX.      (* value update, error update, export_value raised *)
Record upd := { u_mod : str; u_wire : option str; u_body : ubody }.

Inductive op :=
| ODescribe
| ORead (m w : str) (tok : N)       (* tok: identity of the error a failing conversion of the hardware value raises *)
| OChange (m w : str) (j : pyval)
| ODo (m w : str) (arg : pyval)
| OActivate (spec : option (str * option str))
| ODriverSet (m attr : str) (v : pyval) (tok : N)
| OHwSet (m attr : str) (v : pyval).     (* the hardware register read by read_<attr> changes; the node does not notice *)

Definition find_mod (s : state) (m : str) : option modl := find (fun x => str_eqb m (m_name x)) (s_mods s).
Definition wire_is (w : str) (a : acc) : bool := opt_eqb str_eqb (a_wire a) (Some w).
(* accessiblename2attr.get(exportedname): a python dict, the last registration of a key wins
   (keys are distinct in a module that could be built) *)
Definition lookup0 (md : modl) (w : str) : option acc := find (wire_is w) (rev (m_accs md)).
Definition find_attr (md : modl) (attr : str) : option acc := find (fun a => str_eqb attr (a_attr a)) (m_accs md).

(* only value, read error and hardware register of a parameter object ever change *)
Definition with_value (p : par) (v : pyval) (e : option N) (h : option pyval) : par :=
  {| p_dt := p_dt p; p_unit := p_unit p; p_readonly := p_readonly p; p_constant := p_constant p;
     p_value := v; p_err := e; p_hw := h |}.

Definition set_val_acc (attr : str) (v : pyval) (e : option N) (h : option pyval) (a : acc) : acc :=
  if str_eqb attr (a_attr a) then
    match a_body a with
    | AP p => {| a_attr := a_attr a; a_wire := a_wire a; a_group := a_group a; a_vis := a_vis a;
                 a_body := AP (with_value p v e h) |}
    | AC _ => a
    end
  else a.
Definition set_val_mod (m attr : str) (v : pyval) (e : option N) (h : option pyval) (md : modl) : modl :=
  if str_eqb m (m_name md) then
    {| m_name := m_name md; m_export := m_export md; m_group := m_group md; m_vis := m_vis md; m_impl := m_impl md;
       m_ifaces := m_ifaces md; m_features := m_features md; m_accs := map (set_val_acc attr v e h) (m_accs md) |}
  else md.
(* pobj.value = value; pobj.readerror = err  of the parameter object <m>.<attr>  (h: the hardware register behind it) *)
Definition set_val (s : state) (m attr : str) (v : pyval) (e : option N) (h : option pyval) : state :=
  {| s_mods := map (set_val_mod m attr v e h) (s_mods s); s_active := s_active s; s_subs := s_subs s |}.

Definition spec_eqb (a b : str * option str) : bool := pair_eqb str_eqb (opt_eqb str_eqb) a b.
Definition subscribed (s : state) (sp : str * option str) : bool := existsb (spec_eqb sp) (s_subs s).
(* broadcast_event: subscribers of module:param, of module, and generally active connections *)
Definition listening (s : state) (m w : str) : bool :=
  s_active s || subscribed s (m, None) || subscribed s (m, Some w).

Definition make_update (m : str) (wire : option str) (p : par) : upd :=
  {| u_mod := m; u_wire := wire;
     u_body := match p_err p with
               | Some _ => UE
               | None => match dt_export (p_dt p) (p_value p) with Ok v => UV v | Err _ => UX end
               end |}.

(* announceUpdate ... "if pobj.export: self.updateCallback(self, pobj)" *)
Definition announce (s : state) (m : str) (a : acc) (p : par) : list upd :=
  match a_wire a with
  | Some w => if listening s m w then [make_update m (Some w) p] else []
  | None => []
  end.

Definition with_qualifiers (v : pyval) : pyval := PList [v; PDict []].
Definition reply_of (r : res pyval) : reply := match r with Ok v => RpData v | Err e => RpErr (RExc e) end.

Definition err_is (e : option N) (tok : N) : bool := opt_eqb N.eqb e (Some tok).

(* the generated read wrapper: value = read_<attr>() ; pobj = self.accessibles[pname] ; value = pobj.datatype(value)
   with the Parameter of the INSTANCE (p_dt is what the report shows); a failure is announced as read error (unless it equals
   the stored one) and raised; success: announceUpdate(validate=False), then the reply exports the cached value *)
Definition read_hw (s : state) (m : str) (a : acc) (p : par) (hw : pyval) (tok : N) : state * reply * list upd :=
  match dt_call (p_dt p) hw with
  | Ok nv =>
      let p' := with_value p nv None (p_hw p) in
      (set_val s m (a_attr a) nv None (p_hw p), reply_of (dt_export (p_dt p) nv >>= fun v => Ok (with_qualifiers v)),
       announce s m a p')
  | Err e =>
      if err_is (p_err p) tok then (s, RpErr (RExc e), [])
      else
        let p' := with_value p (p_value p) (Some tok) (p_hw p) in
        (set_val s m (a_attr a) (p_value p) (Some tok) (p_hw p), RpErr (RExc e), announce s m a p')
  end.

Definition do_read (s : state) (m w : str) (tok : N) : state * reply * list upd :=
  match find_mod s m with
  | None => (s, RpErr RNoMod, [])
  | Some md =>
      match lookup0 md w with
      | None => (s, RpErr RNoPar, [])
      | Some a =>
          match a_body a with
          | AC _ => (s, RpErr RNoPar, [])
          | AP p =>
              match p_constant p with
              | Some c => (s, RpData (with_qualifiers c), [])     (* the constant property holds the exported value *)
              | None =>
                  match p_hw p with
                  | None => (s, reply_of (dt_export (p_dt p) (p_value p) >>= fun v => Ok (with_qualifiers v)), [])
                  | Some hw => read_hw s m a p hw tok
                  end
              end
          end
      end
  end.

Definition do_change (E : pyenv) (s : state) (m w : str) (j : pyval) : state * reply * list upd :=
  match find_mod s m with
  | None => (s, RpErr RNoMod, [])
  | Some md =>
      match lookup0 md w with
      | None => (s, RpErr RNoPar, [])
      | Some a =>
          match a_body a with
          | AC _ => (s, RpErr RNoPar, [])
          | AP p =>
              match p_constant p with
              | Some _ => (s, RpErr RReadOnly, [])
              | None =>
                  if p_readonly p then (s, RpErr RReadOnly, [])
                  else
                    (* import_value, validate(previous), then the write wrapper validates once more *)
                    match wire E (p_dt p) j (p_value p) >>= fun v => dt_validate (p_dt p) v PNone with
                    | Err e => (s, RpErr (RExc e), [])
                    | Ok nv =>
                        let p' := with_value p nv None (p_hw p) in
                        (set_val s m (a_attr a) nv None (p_hw p), reply_of (dt_export (p_dt p) nv >>= fun v => Ok (with_qualifiers v)),
                         announce s m a p')
                    end
              end
          end
      end
  end.

(* Command.do followed by the export of the result in _execute_command *)
Definition run_cmd (E : pyenv) (c : cmd) (arg : pyval) : res pyval :=
  (match c_arg c with
   | Some d =>
       match arg with
       | PNone => Err EWrongType
       | _ => dt_import E d arg >>= fun v => dt_validate d v PNone >>= fun _ => Ok tt
       end
   | None => match arg with PNone => Ok tt | _ => Err EWrongType end
   end) >>= fun _ =>
  match c_res c with
  | Some d => dt_call d (c_ret c) >>= fun r => dt_export d r
  | None => Ok PNone
  end.

Definition do_do (E : pyenv) (s : state) (m w : str) (arg : pyval) : reply :=
  match find_mod s m with
  | None => RpErr RNoMod
  | Some md =>
      match lookup0 md w with
      | None => RpErr RNoCmd
      | Some a =>
          match a_body a with
          | AP _ => RpErr RNoCmd
          | AC c => reply_of (run_cmd E c arg >>= fun v => Ok (with_qualifiers v))
          end
      end
  end.

(* updates sent for a whole module: every Parameter whose export property is truthy *)
Definition module_updates (md : modl) : list upd :=
  flat_map (fun a => match a_body a, a_wire a with
                     | AP p, Some w => [make_update (m_name md) (Some w) p]
                     | _, _ => []
                     end) (m_accs md).

Definition subscribe (s : state) (sp : str * option str) : state :=
  {| s_mods := s_mods s; s_active := s_active s; s_subs := sp :: s_subs s |}.

Definition do_activate (s : state) (spec : option (str * option str)) : state * reply * list upd :=
  match spec with
  | None =>
      ({| s_mods := s_mods s; s_active := true; s_subs := s_subs s |}, RpActive,
       flat_map module_updates (filter m_export (s_mods s)))
  | Some (m, ow) =>
      match find (fun x => str_eqb m (m_name x) && m_export x) (s_mods s) with     (* modulename in secnode.export *)
      | None => (s, RpErr RNoMod, [])
      | Some md =>
          match ow with
          | None => (subscribe s (m, None), RpActive, module_updates md)
          | Some w =>
              match lookup0 md w with
              | None => (s, RpErr RNoPar, [])
              | Some a =>
                  (* the subscription is registered first, then moduleobj.parameters[pname] is evaluated *)
                  match a_body a with
                  | AP p => (subscribe s (m, Some w), RpActive, [make_update m (a_wire a) p])
                  | AC _ => (subscribe s (m, Some w), RpErr (RExc EKey), [])
                  end
              end
          end
      end
  end.

(* Parameter.__set__ -> announceUpdate(name, value) with validate=True *)
Definition do_driver_set (s : state) (m attr : str) (v : pyval) (tok : N) : state * reply * list upd :=
  match find_mod s m with
  | None => (s, RpNone, [])
  | Some md =>
      match find_attr md attr with
      | None => (s, RpNone, [])
      | Some a =>
          match a_body a with
          | AC _ => (s, RpNone, [])
          | AP p =>
              match dt_call (p_dt p) v with
              | Ok nv => (set_val s m attr nv None (p_hw p), RpNone, announce s m a (with_value p nv None (p_hw p)))
              | Err _ =>
                  if err_is (p_err p) tok then (s, RpNone, [])           (* no updates for repeated errors *)
                  else (set_val s m attr (p_value p) (Some tok) (p_hw p), RpNone,
                        announce s m a (with_value p (p_value p) (Some tok) (p_hw p)))
              end
          end
      end
  end.

(* the hardware changes behind the node's back: only a later read_<attr>() sees it *)
Definition do_hw_set (s : state) (m attr : str) (v : pyval) : state * reply * list upd :=
  match find_mod s m with
  | None => (s, RpNone, [])
  | Some md =>
      match find_attr md attr with
      | None => (s, RpNone, [])
      | Some a =>
          match a_body a with
          | AC _ => (s, RpNone, [])
          | AP p =>
              match p_hw p with
              | Some _ => (set_val s m attr (p_value p) (p_err p) (Some v), RpNone, [])
              | None => (s, RpNone, [])
              end
          end
      end
  end.

Definition step (E : pyenv) (s : state) (o : op) : state * reply * list upd :=
  match o with
  | ODescribe => (s, RpDesc (describe s), [])
  | ORead m w tok => do_read s m w tok
  | OChange m w j => do_change E s m w j
  | ODo m w arg => (s, do_do E s m w arg, [])
  | OActivate spec => do_activate s spec
  | ODriverSet m attr v tok => do_driver_set s m attr v tok
  | OHwSet m attr v => do_hw_set s m attr v
  end.

Fixpoint run (E : pyenv) (s : state) (ops : list op) : state :=
  match ops with
  | [] => s
  | o :: r => run E (fst (fst (step E s o))) r
  end.
