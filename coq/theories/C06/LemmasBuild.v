(* C06 -- lemmas about building the node from classes + configuration: wire names, one-to-one listing, consistency,
   automatic properties, main unit *)
From Coq Require Import ZArith NArith Bool List Lia.
Import ListNotations.
Require Import FV.Base.Util FV.Base.F64 FV.Base.PyVal FV.C01.Model FV.Gen.C06 FV.C06.Model FV.C06.Lemmas.

Lemma bind_ok {A B} (r : res A) (f : A -> res B) b : r >>= f = Ok b -> exists a, r = Ok a /\ f a = Ok b.
Proof. destruct r; simpl; intros H; [eauto|discriminate]. Qed.

Lemma map_resA_forall2 {A B} (f : A -> res B) (l : list A) (l' : list B) :
  map_resA f l = Ok l' -> Forall2 (fun x y => f x = Ok y) l l'.
Proof.
  revert l'. induction l as [|x r IH]; simpl; intros l' H.
  - inversion H. constructor.
  - apply bind_ok in H. destruct H as (y & Hy & H). apply bind_ok in H. destruct H as (ys & Hys & H).
    inversion H; subst. constructor; auto.
Qed.

Lemma build_acc_wires me mu a b : build_acc me mu a = Ok b ->
  a_attr b = ac_attr a /\ a_wire b = wire_of me a.
Proof.
  unfold build_acc. intros H. apply bind_ok in H. destruct H as (x & _ & H). inversion H; subst. simpl. auto.
Qed.

(* the automatic properties are assigned after the configured module properties: whatever the configuration says about
   implementation / interface_classes / features, the class-derived values are what the module object holds *)
Lemma mp_set_get k v r :
  (mp_impl (mp_set k v r) = match k with KImpl => Some v | _ => mp_impl r end) /\
  (mp_ifaces (mp_set k v r) = match k with KIfaces => Some v | _ => mp_ifaces r end) /\
  (mp_features (mp_set k v r) = match k with KFeatures => Some v | _ => mp_features r end).
Proof. destruct k; simpl; auto. Qed.

Lemma auto_props_win mc :
  auto_props_after_cfg = true ->
  prop_str (mp_impl (module_props mc)) = mc_impl mc /\
  prop_list (mp_ifaces (module_props mc)) = interface_classes (mc_mro mc) /\
  prop_list (mp_features (module_props mc)) = features_of (mc_mro mc).
Proof. intros H. unfold module_props. rewrite H. unfold auto_props. simpl. auto. Qed.

Lemma build_mod_static mc md : build_mod mc = Ok md ->
  m_name md = mc_name mc /\ m_export md = mc_export mc /\ m_ifaces md = interface_classes (mc_mro mc) /\
  m_features md = features_of (mc_mro mc) /\ m_impl md = mc_impl mc /\
  Forall2 (fun a b => build_acc (mc_export mc) (main_unit (mc_accs mc)) a = Ok b) (mc_accs mc) (m_accs md) /\
  dup_free (wires (m_accs md)) = true.
Proof.
  unfold build_mod. intros H. apply bind_ok in H. destruct H as (accs & Ha & H).
  destruct (dup_free (wires accs)) eqn:D; simpl in H; [|discriminate].
  destruct (forallb prop_kind_ok (mc_cfg_auto mc)); simpl in H; [|discriminate]. inversion H; subst. simpl.
  destruct (auto_props_win mc) as (P1 & P2 & P3); [reflexivity|].
  repeat split; auto. apply map_resA_forall2; auto.
Qed.

Lemma build_mods n s : build n = Ok s ->
  Forall2 (fun mc md => build_mod mc = Ok md) n (s_mods s) /\ s_active s = false /\ s_subs s = [].
Proof.
  unfold build. intros H. apply bind_ok in H. destruct H as (ms & Hm & H). inversion H; subst. simpl.
  repeat split; auto. apply map_resA_forall2; auto.
Qed.

(* ------------------------------------------------------------------ the report lists exactly the exported items *)
Lemma exists_wire_forall2 me mu (l : list acfg) (l' : list acc) (w : str) :
  Forall2 (fun a b => build_acc me mu a = Ok b) l l' ->
  ((exists b, In b l' /\ a_wire b = Some w) <-> (exists a, In a l /\ wire_of me a = Some w)).
Proof.
  induction 1 as [|a b l l' Hab Hl IH]; simpl.
  - split; intros [x [[] _]].
  - destruct (build_acc_wires _ _ _ _ Hab) as (_ & Hw). split.
    + intros [x [[Hx|Hx] H2]].
      * subst x. exists a. rewrite <- Hw. auto.
      * destruct IH as [IH _]. destruct IH as [y [Hy1 Hy2]]; eauto.
    + intros [x [[Hx|Hx] H2]].
      * subst x. exists b. rewrite Hw. auto.
      * destruct IH as [_ IH]. destruct IH as [y [Hy1 Hy2]]; eauto.
Qed.

(* wire names of the accessibles of a module as class + configuration define them, in order *)
Definition cfg_wires (me : bool) (l : list acfg) : list str :=
  flat_map (fun a => match wire_of me a with Some w => [w] | None => [] end) l.

Lemma wires_forall2 me mu (l : list acfg) (l' : list acc) :
  Forall2 (fun a b => build_acc me mu a = Ok b) l l' -> wires l' = cfg_wires me l.
Proof.
  induction 1 as [|a b l l' Hab Hl IH]; simpl; auto.
  destruct (build_acc_wires _ _ _ _ Hab) as (_ & Hw). unfold wires in *. simpl. rewrite Hw, IH. auto.
Qed.

Lemma mem_str_in x l : mem_str x l = true <-> In x l.
Proof.
  induction l; simpl; [split; [discriminate|tauto]|]. rewrite orb_true_iff, IHl. split.
  - intros [H|H]; auto. apply str_eqb_eq in H. auto.
  - intros [H|H]; auto. subst. left. apply str_eqb_refl.
Qed.

Lemma dup_free_nodup l : dup_free l = true -> NoDup l.
Proof.
  induction l; simpl; intros H; constructor; apply andb_true_iff in H; destruct H as [H1 H2]; auto.
  intros X. apply mem_str_in in X. rewrite X in H1. discriminate.
Qed.

Lemma dict_set_fresh {A} (k : str) (v : A) (l : list (str * A)) :
  ~ In k (map fst l) -> dict_set k v l = l ++ [(k, v)].
Proof.
  induction l as [|[k' v'] r IH]; simpl; intros H; auto.
  destruct (str_eqb k k') eqn:E.
  - apply str_eqb_eq in E. subst. exfalso. apply H. auto.
  - rewrite IH; auto.
Qed.

(* with distinct wire names the keys of the report are the wire names, in the order of the accessibles *)
Lemma export_fold_keys_list (accs : list acc) (r : list (str * adesc)) :
  NoDup (map fst r ++ wires accs) -> map fst (fold_left export_step accs r) = map fst r ++ wires accs.
Proof.
  revert r. induction accs as [|a l IH]; intros r H; simpl.
  - unfold wires. simpl. rewrite app_nil_r. auto.
  - unfold wires in *. simpl in *. unfold export_step at 2. destruct (a_wire a) as [w|]; simpl in *.
    + rewrite dict_set_fresh.
      * rewrite IH; rewrite map_app; simpl; rewrite <- app_assoc; simpl; auto.
      * apply NoDup_remove_2 in H. intros X. apply H. apply in_or_app. auto.
    + apply IH. auto.
Qed.

Lemma export_keys_list (accs : list acc) : NoDup (wires accs) -> map fst (export_accessibles accs) = wires accs.
Proof. intros H. unfold export_accessibles. rewrite export_fold_keys_list; auto. Qed.

(* the entry e of the report for the configured module mc *)
Definition lists_module (mc : mcfg) (e : str * mdesc) : Prop :=
  fst e = mc_name mc /\
  map fst (md_accs (snd e)) = cfg_wires true (mc_accs mc) /\
  NoDup (cfg_wires true (mc_accs mc)) /\
  md_impl (snd e) = mc_impl mc /\ md_ifaces (snd e) = interface_classes (mc_mro mc) /\
  md_features (snd e) = features_of (mc_mro mc).

Lemma lists_exactly n s : build n = Ok s -> Forall2 lists_module (filter mc_export n) (describe s).
Proof.
  intros H. destruct (build_mods _ _ H) as (F & _). unfold describe. clear H.
  induction F as [|mc md l l' Hb Hl IH]; simpl; [constructor|].
  destruct (build_mod_static _ _ Hb) as (Hn & He & Hi & Hf & Him & Ha & Hd). rewrite He.
  destruct (mc_export mc) eqn:E; [|exact IH]. constructor; [|exact IH].
  assert (W : wires (m_accs md) = cfg_wires true (mc_accs mc)) by (eapply wires_forall2; eauto).
  apply dup_free_nodup in Hd.
  unfold lists_module. simpl. repeat split; auto.
  - rewrite export_keys_list; auto.
  - rewrite <- W. auto.
Qed.

(* an unexported module lists nothing, whatever its configuration says *)
Lemma cfg_wires_unexported l : cfg_wires false l = [].
Proof. induction l; simpl; auto. Qed.

(* the naming rules *)
Lemma wire_name_rules attr :
  fix_export attr ExFalse = None /\ fix_export attr (ExName []) = None /\
  (forall c s, fix_export attr (ExName (c :: s)) = Some (c :: s)) /\
  (is_predefined attr = true -> fix_export attr ExTrue = Some attr) /\
  (is_predefined attr = false -> fix_export attr ExTrue = Some (underscore :: attr)).
Proof. unfold fix_export. repeat split; auto; intros H; rewrite H; auto. Qed.

Lemma wire_of_spec me a :
  wire_of me a = if me then fix_export (ac_attr a) (match ac_cfg_export a with Some e => e | None => ac_export a end)
                 else None.
Proof. reflexivity. Qed.

(* ------------------------------------------------------------------ consistency of a freshly built node *)
Lemma forall2_consistent me mu (l : list acfg) (l' : list acc) :
  Forall2 (fun a b => build_acc me mu a = Ok b) l l' -> Forall (acc_consistent me) l'.
Proof.
  induction 1 as [|a b l l' Hab Hl IH]; constructor; auto.
  destruct (build_acc_wires _ _ _ _ Hab) as (_ & Hw). unfold acc_consistent. rewrite Hw. intros E. subst. auto.
Qed.

Lemma build_consistent n s : build n = Ok s -> NoDup (map mc_name n) -> consistent s.
Proof.
  intros H ND. destruct (build_mods _ _ H) as (F & _). unfold consistent.
  assert (G : Forall mod_consistent (s_mods s) /\ map m_name (s_mods s) = map mc_name n).
  { clear H ND. induction F as [|mc md l l' Hb Hl IH]; simpl; [split; auto|].
    destruct (build_mod_static _ _ Hb) as (Hn & He & _ & _ & _ & Ha & _).
    destruct IH as [IH1 IH2].
    split; [constructor; auto|rewrite Hn, IH2; auto].
    unfold mod_consistent. rewrite He. eapply forall2_consistent; eauto. }
  destruct G as [G1 G2]. split; auto. rewrite G2. auto.
Qed.

(* ------------------------------------------------------------------ automatic properties *)
Lemma firstn_le {A} k (l : list A) : length (firstn k l) <= k.
Proof. rewrite firstn_length. lia. Qed.

Lemma in_firstn {A} k (l : list A) x : In x (firstn k l) -> In x l.
Proof. revert l. induction k; destruct l; simpl; intros H; try tauto. destruct H; auto. Qed.

Lemma interface_classes_spec mro :
  length (interface_classes mro) <= 1 /\
  (forall c, In c (interface_classes mro) -> mem_str c secop_base_classes = true /\ In c (map fst mro)) /\
  (interface_classes mro = [] <-> forall c, In c (map fst mro) -> mem_str c secop_base_classes = false).
Proof.
  unfold interface_classes. replace interface_classes_limit with 1%nat by reflexivity. repeat split.
  - apply firstn_le.
  - apply in_firstn in H. apply filter_In in H. tauto.
  - apply in_firstn in H. apply filter_In in H. tauto.
  - intros H c Hc. destruct (mem_str c secop_base_classes) eqn:E; auto.
    assert (X : In c (filter (fun n => mem_str n secop_base_classes) (map fst mro))) by (apply filter_In; auto).
    destruct (filter _ (map fst mro)); simpl in *; [tauto|discriminate].
  - intros H. destruct (filter (fun n => mem_str n secop_base_classes) (map fst mro)) as [|c r] eqn:E; auto.
    assert (X : In c (filter (fun n => mem_str n secop_base_classes) (map fst mro))) by (rewrite E; simpl; auto).
    apply filter_In in X. destruct X as [X1 X2]. rewrite (H c X1) in X2. discriminate.
Qed.

(* the first base class in MRO order: nothing before it in the MRO is a base class *)
Lemma firstn1_filter_first {A} (f : A -> bool) (l : list A) (c : A) : firstn 1 (filter f l) = [c] ->
  exists pre post, l = pre ++ c :: post /\ forall x, In x pre -> f x = false.
Proof.
  induction l as [|x l IH]; [discriminate|]. cbn [filter]. destruct (f x) eqn:E.
  - cbn [firstn]. intros H. inversion H; subst. exists [], l. simpl. tauto.
  - intros H. destruct (IH H) as (pre & post & H1 & H2). exists (x :: pre), post. rewrite H1. split; auto.
    intros y [Hy|Hy]; subst; auto.
Qed.

Lemma interface_class_is_first mro c : interface_classes mro = [c] ->
  exists pre post, map fst mro = pre ++ c :: post /\ forall x, In x pre -> mem_str x secop_base_classes = false.
Proof.
  unfold interface_classes. replace interface_classes_limit with 1%nat by reflexivity.
  apply (firstn1_filter_first (fun n => mem_str n secop_base_classes)).
Qed.

Lemma features_spec mro f : In f (features_of mro) <-> In (f, true) mro.
Proof.
  unfold features_of. rewrite in_map_iff. split.
  - intros [[n b] [H1 H2]]. apply filter_In in H2. simpl in *. destruct H2 as [H2 H3]. subst. auto.
  - intros H. exists (f, true). split; auto. apply filter_In. auto.
Qed.

(* ------------------------------------------------------------------ main unit *)
Definition no_dollar (s : str) : Prop := forall c, In c s -> N.eqb c dollar = false.

Lemma replace_dollar_clean u s : no_dollar u -> no_dollar (replace_dollar u s).
Proof.
  intros Hu. induction s as [|c r IH]; simpl; [intros x []|].
  destruct (N.eqb c dollar) eqn:E.
  - intros x Hx. apply in_app_or in Hx. destruct Hx; auto.
  - intros x [Hx|Hx]; subst; auto.
Qed.

Lemma replace_dollar_id u s : no_dollar s -> replace_dollar u s = s.
Proof.
  induction s as [|c r IH]; simpl; auto. intros H. rewrite (H c); simpl; auto. f_equal. apply IH.
  intros x Hx. apply H. simpl. auto.
Qed.

Lemma build_par_unit mu p r : build_par mu p = Ok r ->
  p_unit r = match mu with Some u => replace_dollar u (pc_unit p) | None => pc_unit p end /\ p_dt r = pc_dt p.
Proof.
  unfold build_par. intros H. apply bind_ok in H. destruct H as (c & _ & H). apply bind_ok in H.
  destruct H as (ve & _ & H). inversion H; subst. simpl. auto.
Qed.

(* a constant forces the readonly flag; without a constant the declared flag is kept *)
Lemma build_par_flags mu p r : build_par mu p = Ok r ->
  (p_constant r <> None -> p_readonly r = true) /\ (p_constant r = None -> p_readonly r = pc_readonly p) /\
  (p_constant r = None <-> pc_const_cfg p = None /\ pc_const_cls p = None).
Proof.
  unfold build_par. intros H. apply bind_ok in H. destruct H as (c & Hc & H). apply bind_ok in H.
  destruct H as (ve & _ & H). inversion H; subst. simpl. split; [|split].
  - intros X. destruct c; auto; congruence.
  - intros X. subst c. auto.
  - destruct (pc_const_cfg p) as [cc|].
    + apply bind_ok in Hc. destruct Hc as (x & _ & Hc). apply bind_ok in Hc. destruct Hc as (y & _ & Hc).
      inversion Hc; subst. split; [discriminate|intros [X _]; discriminate].
    + destruct (pc_const_cls p) as [cc|].
      * apply bind_ok in Hc. destruct Hc as (x & _ & Hc). inversion Hc; subst.
        split; [discriminate|intros [_ X]; discriminate].
      * inversion Hc; subst. tauto.
Qed.
