(* C13 - no module on a shared poll thread is starved by another one:
   (1) main polls: the due test of each module is made with the clock of the moment its turn comes (the state after the
       polls of the modules before it in this sweep), so a module that is due at that moment is polled in this sweep;
   (2) slow polls: when the iterator is used up, the refill takes the polled parameters of ALL modules whose round is
       due - each of them is read at once, stays in the new iterator, or is skipped because it is fresh.
   Both for every state, every world (durations, outcomes), with or without run-time requests. *)
From Coq Require Import List Arith ZArith Bool Lia.
Import ListNotations.
Require Import FV.Gen.C13 FV.C13.Model FV.C13.Lemmas FV.C13.Timing FV.C13.Slow.
Local Open Scope Z_scope.

(* ------------------------------------------------------------ the log only grows *)
Lemma log_upd_mod : forall s m f, log (upd_mod s m f) = log s.
Proof. reflexivity. Qed.

Lemma log_apply_act : forall W a s, log (apply_act W a s) = log s.
Proof.
  intros W a s. destruct a; simpl; try reflexivity.
  - destruct (_ && _); reflexivity.
  - destruct (enable _); reflexivity.
  - destruct (enable _); [|reflexivity]. destruct immediate; reflexivity.
  - destruct (reconn W); reflexivity.
Qed.

Lemma log_fire_upto : forall W l tg s, log (fst (fire_upto W l tg s)) = log s.
Proof.
  intros W l tg; induction l as [|[t a] l IH]; intros s; simpl; [reflexivity|].
  destruct (t <=? tg); [|reflexivity]. rewrite IH. apply log_apply_act.
Qed.

Lemma log_sleep : forall W s d, log (sleep W s d) = log s.
Proof.
  intros W s d. unfold sleep. pose proof (log_fire_upto W (acts s) (now s + d) s) as H.
  destruct (fire_upto W (acts s) (now s + d) s) as [s1 l]. simpl in *. exact H.
Qed.

Lemma log_body : forall W s, log (fst (body W s)) = log s.
Proof.
  intros W s. unfold body. destruct (script W (ctr s)) as [d o]. simpl. rewrite log_sleep. reflexivity.
Qed.

Lemma log_read_wrapped : forall W s m i, log (fst (read_wrapped W s m i)) = log s.
Proof.
  intros W s m i. unfold read_wrapped. pose proof (log_body W s) as H.
  destruct (body W s) as [s1 o]. simpl in H. destruct o as [|c k]; simpl; [exact H|].
  destruct (same_err _ c k); simpl; exact H.
Qed.

Lemma log_poll_result : forall s m f r rc, log (fst (poll_result s m f r rc)) = log s.
Proof. intros s m f r rc. unfold poll_result. destruct r as [[[c k] []]|]; reflexivity. Qed.

Lemma now_upd_mod : forall s m f, now (upd_mod s m f) = now s.
Proof. reflexivity. Qed.

Definition keeps (s s' : st) : Prop := forall e, In e (log s) -> In e (log s').

Lemma keeps_refl : forall s, keeps s s.
Proof. intros s e H; exact H. Qed.

Lemma keeps_trans : forall a b c, keeps a b -> keeps b c -> keeps a c.
Proof. intros a b c H1 H2 e H; apply H2, H1, H. Qed.

Lemma keeps_eq : forall s s', log s' = log s -> keeps s s'.
Proof. intros s s' E e H; rewrite E; exact H. Qed.

Lemma keeps_emit : forall s e, keeps s (emit s e).
Proof. intros s e x H; simpl; right; exact H. Qed.

Lemma keeps_main_reads : forall W m l s, keeps s (fst (main_reads W s m l)).
Proof.
  intros W m l; induction l as [|i l IH]; intros s; simpl; [apply keeps_refl|].
  pose proof (log_read_wrapped W (emit s (LMRead (now s) m i)) m i) as H.
  destruct (read_wrapped W (emit s (LMRead (now s) m i)) m i) as [s1 res]. simpl in H.
  assert (K : keeps s s1) by (eapply keeps_trans; [apply keeps_emit|apply keeps_eq; exact H]).
  destruct res; simpl; [exact K|]. eapply keeps_trans; [exact K|apply IH].
Qed.

Lemma keeps_call_main : forall W s m, keeps (emit s (LMain (now s) m)) (call_main W s m).
Proof.
  intros W s m. unfold call_main. set (s0 := emit s (LMain (now s) m)).
  pose proof (log_body W s0) as H. destruct (body W s0) as [s1 o]. simpl in H.
  assert (K1 : keeps s0 s1) by (apply keeps_eq; exact H).
  destruct o as [|c k].
  - pose proof (keeps_main_reads W m (mainreads (md (get_mod s1 m))) s1) as K2.
    destruct (main_reads W s1 m (mainreads (md (get_mod s1 m)))) as [s2 r]. simpl in K2.
    eapply keeps_trans; [exact K1|]. eapply keeps_trans; [exact K2|]. apply keeps_eq, log_poll_result.
  - eapply keeps_trans; [exact K1|]. apply keeps_eq, log_poll_result.
Qed.

Lemma keeps_main_step : forall W s m, keeps s (main_step W s m).
Proof.
  intros W s m. unfold main_step. destruct (negb (alive s)); [apply keeps_refl|].
  destruct (_ && _); [|apply keeps_refl].
  eapply keeps_trans; [|apply keeps_call_main]. intros e H. simpl. right. exact H.
Qed.

Lemma keeps_fold_main : forall W l s, keeps s (fold_left (main_step W) l s).
Proof.
  intros W l; induction l as [|m l IH]; intros s; simpl; [apply keeps_refl|].
  eapply keeps_trans; [apply keeps_main_step|apply IH].
Qed.

(* ------------------------------------------------------------ (1) main polls *)
(* the state in which the turn of a module comes: the modules l1 before it in the sweep have been dealt with *)
Definition turn_comes (W : world) (s : st) (l1 : list nat) : st := fold_left (main_step W) l1 s.

(* its clock is the one read after the poll of the previous module *)
Lemma turn_comes_after_previous : forall W s l0 p,
  turn_comes W s (l0 ++ [p]) = main_step W (turn_comes W s l0) p.
Proof. intros W s l0 p. unfold turn_comes. rewrite fold_left_app. reflexivity. Qed.

(* what is done when the turn of module m comes: polled exactly when due by the clock of THAT moment *)
Lemma main_step_due : forall W s m, alive s = true -> enable (md (get_mod s m)) = true ->
  last_main (get_mod s m) + interval (get_mod s m) < now s ->
  In (LMain (now s) m) (log (main_step W s m)).
Proof.
  intros W s m Al En Due. unfold main_step. rewrite Al, En. simpl.
  apply Z.ltb_lt in Due. rewrite Due.
  apply (keeps_call_main W (upd_mod s m (fun y => m_set_last_main y (new_last_main (now s) (interval y)))) m).
  simpl. left. reflexivity.
Qed.

Lemma main_step_not_due : forall W s m,
  now s <= last_main (get_mod s m) + interval (get_mod s m) -> main_step W s m = s.
Proof.
  intros W s m H. unfold main_step. destruct (negb (alive s)); [reflexivity|].
  apply Z.ltb_ge in H. rewrite H, andb_false_r. reflexivity.
Qed.

Lemma main_sweep_polls_due : forall W s l1 m l2, seq 0 (length (mods s)) = l1 ++ m :: l2 ->
  let sm := turn_comes W s l1 in
  alive sm = true -> enable (md (get_mod sm m)) = true ->
  last_main (get_mod sm m) + interval (get_mod sm m) < now sm ->
  In (LMain (now sm) m) (log (main_phase W s)).
Proof.
  intros W s l1 m l2 E sm Al En Due. unfold main_phase. rewrite E, fold_left_app. simpl.
  apply keeps_fold_main. apply main_step_due; assumption.
Qed.

(* ------------------------------------------------------------ (2) the refill takes all due modules *)
Lemma log_call_read : forall W s m i rc, In (LRead (now s) m i) (log (fst (call_read W s m i rc))).
Proof.
  intros W s m i rc. unfold call_read.
  pose proof (log_read_wrapped W (emit s (LRead (now s) m i)) m i) as H.
  destruct (read_wrapped W (emit s (LRead (now s) m i)) m i) as [s1 r]. simpl in H.
  rewrite log_poll_result, H. simpl. left. reflexivity.
Qed.

Lemma fresh_rf : forall s q, alive s = true -> wf s -> fresh (rf s) q -> fresh s q.
Proof.
  intros s [m i] Al Wf. unfold fresh. simpl.
  destruct (rf_spec s Al Wf) as (_ & D & T & _).
  rewrite T. unfold sint. rewrite (proj1 (D m)). intros H; exact H.
Qed.

Lemma refill_takes_all_due : forall W s, alive s = true -> wf s -> scan s (cur s) = None ->
  let s' := slow_phase W s in
  forall m i, slow_due (now s) (get_mod s m) = true -> In i (polled_params (dsc s m)) ->
    In (LRead (now s) m i) (log s') \/ In (m, i) (cur s') \/ fresh s (m, i).
Proof.
  intros W s Al Wf Sc s' m i Du Hi. unfold s'. rewrite (slow_phase_eq W s Al Wf), Sc.
  assert (Hin : In (m, i) (refill_list s)) by (apply in_refill_list; [exact Al|split; assumption]).
  destruct (scan (rf s) (refill_list s)) as [[[m' i'] rest]|] eqn:Sc2.
  - destruct (scan_some _ _ _ _ Sc2) as (pre & E & Hp). rewrite E in Hin.
    apply in_app_or in Hin. destruct Hin as [Hin|[Heq|Hin]].
    + right; right. apply fresh_rf; auto.
    + inversion Heq; subst m' i'. left.
      exact (log_call_read W (set_topoll (rf s) (Some rest)) m i false).
    + right; left. unfold cur. rewrite tp_call_read. simpl. exact Hin.
  - right; right. apply fresh_rf; auto. exact (scan_none _ _ Sc2 _ Hin).
Qed.

(* ------------------------------------------------------------ both, at the level of a whole loop turn *)
Lemma keeps_call_read : forall W s m i rc, keeps s (fst (call_read W s m i rc)).
Proof.
  intros W s m i rc. unfold call_read.
  pose proof (log_read_wrapped W (emit s (LRead (now s) m i)) m i) as H.
  destruct (read_wrapped W (emit s (LRead (now s) m i)) m i) as [s1 r]. simpl in H.
  intros e He. rewrite log_poll_result, H. simpl. right. exact He.
Qed.

Lemma keeps_slow_loop : forall W k s, keeps s (slow_loop W k s).
Proof.
  intros W k; induction k as [|k IH]; intros s; simpl; [apply keeps_refl|].
  destruct (scan s _) as [[[m i] rest]|].
  - exact (keeps_call_read W (set_topoll s (Some rest)) m i false).
  - destruct (refill_list s) as [|p l]; [apply keeps_eq; reflexivity|].
    eapply keeps_trans; [|exact (IH (set_topoll (set_mods s (refill_mods s)) (Some (p :: l))))].
    apply keeps_eq; reflexivity.
Qed.

(* a turn that does not wait = loop condition, main polls, slow polls *)
Lemma turn_work : forall W s, finished s = false -> alive s = true -> waits W s = false ->
  turn W s = slow_phase W (main_phase W (top W s)).
Proof. intros W s Fi Al Wa. unfold turn. rewrite Fi, Al. unfold waits in Wa. simpl. rewrite Wa. reflexivity. Qed.

Lemma turn_polls_due : forall W s l1 m l2, finished s = false -> alive s = true -> waits W s = false ->
  seq 0 (length (mods s)) = l1 ++ m :: l2 ->
  let sm := turn_comes W (top W s) l1 in
  alive sm = true -> enable (md (get_mod sm m)) = true ->
  last_main (get_mod sm m) + interval (get_mod sm m) < now sm ->
  In (LMain (now sm) m) (log (turn W s)).
Proof.
  intros W s l1 m l2 Fi Al Wa E sm Alm En Due. rewrite (turn_work W s Fi Al Wa).
  apply keeps_slow_loop. exact (main_sweep_polls_due W (top W s) l1 m l2 E Alm En Due).
Qed.

Lemma turn_refills_all_due : forall W s, finished s = false -> alive s = true -> waits W s = false ->
  let s1 := main_phase W (top W s) in
  alive s1 = true -> wf s1 -> scan s1 (cur s1) = None ->
  forall m i, slow_due (now s1) (get_mod s1 m) = true -> In i (polled_params (dsc s1 m)) ->
    In (LRead (now s1) m i) (log (turn W s)) \/ In (m, i) (cur (turn W s)) \/ fresh s1 (m, i).
Proof.
  intros W s Fi Al Wa s1 Al1 Wf1 Sc m i Du Hi. rewrite (turn_work W s Fi Al Wa).
  exact (refill_takes_all_due W s1 Al1 Wf1 Sc m i Du Hi).
Qed.
