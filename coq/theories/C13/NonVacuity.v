(* C13 - vacuity audit: the property theorems with premises are applied along one concrete run of the model
   (two polled modules, three polled params, one of them read by doPoll; a world of the shape Run.mk_world
   builds: script = nth n <list> (1, OOk), with ok / SECoP error / other exception / communication failure / silent
   outcomes and durations up to 900 ticks).  The invariant premises (quiet, wf, Lw, Q1, Sinv, J, slow_inv) are
   obtained from the theorems themselves, starting from C13_slow_reachable, so they are jointly satisfiable in
   reachable states. *)
From Coq Require Import List Arith ZArith Bool Lia.
Import ListNotations.
Require Import FV.Gen.C13 FV.C13.Model FV.C13.Lemmas FV.C13.Timing FV.C13.Slow FV.C13.Starve FV.C13.Properties.
Local Open Scope Z_scope.

Definition nvW : world :=
  {| script := fun n => nth n [(8, OOk); (16, OErr 1 0); (700, OOk); (16, OOk); (8, OErr 3 1); (600, OErr 4 0);
                               (8, OOk); (900, OOk); (20, OErr 2 0)] (1, OOk);
     eps := 1; reconn := false |}.
Lemma nvW_dur : forall k, 0 <= fst (script nvW k) <= 900.
Proof. intro k. do 10 (destruct k as [|k]; [simpl; lia|]). simpl. destruct k; simpl; lia. Qed.

Definition nv_ds : list (mdesc * Z) := demo3_ds.
Definition s0 : st := startup nvW (init_state 1024000 nv_ds []).
Definition s1 : st := turn nvW s0.
Definition s2 : st := turn nvW s1.
Definition s3 : st := turn nvW s2.

(* what the run looks like: s0 no iterator, no wait; s1 iterator [(1,0)], module 0 overdue; s2 iterator used up;
   s3 the thread waits *)
Example C13_nonvacuous_run :
  topoll s0 = None /\ waits nvW s0 = false /\ topoll s1 = Some [(1, 0)%nat] /\ topoll s2 = Some [] /\
  waits nvW s3 = true /\ topoll s3 = None /\
  rev (log s2) = [LRead 1024000 0 0; LRead 1024008 0 1; LRead 1024024 1 0; LStarted 1024724; LTurn 1024725;
                  LMain 1024725 0; LMRead 1024741 0 0; LMain 1024749 1; LRead 1025349 0 1; LTurn 1025358;
                  LMain 1025358 0; LMRead 1026258 0 0; LMain 1026278 1; LRead 1026279 1 0].
Proof. vm_compute. repeat split; reflexivity. Qed.

Lemma nv_si_pos : forall d, In d (map fst nv_ds) -> enable d = true -> 0 < si d.
Proof. intros d [<-|[<-|[]]] _; reflexivity. Qed.

Lemma C13_slow_reachable_applies : quiet s0 /\ topoll s0 = None /\ wf s0 /\ Lw s0 /\ Q1 s0.
Proof. apply (C13_slow_reachable nvW 900 nvW_dur 1024000 nv_ds); [lia|exact nv_si_pos|reflexivity]. Qed.

Lemma wf_same : forall s s', sameS s s' -> wf s -> wf s'.
Proof. intros s s' [_ D] H k. unfold wf, en, sint in *. rewrite D. apply H. Qed.

Lemma nv_quiet1 : quiet s1.
Proof. apply (C13_quiet_closed nvW 900 nvW_dur s0). apply C13_slow_reachable_applies. Qed.
Lemma nv_quiet2 : quiet s2.
Proof. apply (C13_quiet_closed nvW 900 nvW_dur s1). exact nv_quiet1. Qed.
Lemma nv_quiet3 : quiet s3.
Proof. apply (C13_quiet_closed nvW 900 nvW_dur s2). exact nv_quiet2. Qed.

(* C13_slow_invariants at s0 (iterator empty: Sinv is established) and at s1 (Sinv kept) *)
Lemma C13_slow_invariants_applies_0 : sameS s0 s1 /\ Lw s1 /\ Q1 s1 /\ Sinv nvW 900 s1.
Proof.
  destruct C13_slow_reachable_applies as (Q & T & Wf & L & q1).
  destruct (C13_slow_invariants nvW 900 nvW_dur ltac:(simpl; lia) s0 Q Wf L q1) as (A & B & C & D & _).
  repeat split; try assumption; try apply A. apply D. left. exact T.
Qed.
Lemma nv_wf1 : wf s1.
Proof. apply (wf_same s0); [apply C13_slow_invariants_applies_0|apply C13_slow_reachable_applies]. Qed.
Lemma C13_slow_invariants_applies_1 : sameS s1 s2 /\ Lw s2 /\ Q1 s2 /\ Sinv nvW 900 s2.
Proof.
  destruct C13_slow_invariants_applies_0 as (_ & L & q1 & Sv).
  destruct (C13_slow_invariants nvW 900 nvW_dur ltac:(simpl; lia) s1 nv_quiet1 nv_wf1 L q1) as (A & B & C & D & _).
  repeat split; try assumption; try apply A. apply D. right. exact Sv.
Qed.
Lemma nv_wf2 : wf s2.
Proof. apply (wf_same s1); [apply C13_slow_invariants_applies_1|exact nv_wf1]. Qed.

(* the iterator of s2 is used up: all five invariants hold there, and the staleness bound follows for every later turn *)
Lemma C13_slow_inv_when_idle_applies : slow_inv nvW 900 s2.
Proof.
  destruct C13_slow_invariants_applies_1 as (_ & L & q1 & Sv).
  apply C13_slow_inv_when_idle; try assumption; [exact nv_wf2|reflexivity].
Qed.
Example C13_slow_bound_from_applies :
  let s' := turns nvW 3 s2 in
  polled_params (dsc s' 0) = [0; 1]%nat /\ polled_params (dsc s' 1) = [0%nat] /\
  forall m i, en s' m = true -> In i (polled_params (dsc s' m)) ->
    let x := 2 * now s' - (3 * si (dsc s' m) + 4 * (Pn s' * Tn nvW 900 s') + 4 * 900) in
    x <= 2 * ts (get_ps (get_mod s' m) i) \/ exists t, x <= 2 * t /\ In (LRead t m i) (log s').
Proof.
  intro s'. split; [reflexivity|]. split; [reflexivity|].
  apply (C13_slow_bound_from nvW 900 nvW_dur ltac:(simpl; lia) s2 nv_quiet2 C13_slow_inv_when_idle_applies 3%nat).
Qed.

(* main polls: J after the first turn, module 0 overdue at the top of the second turn, polled in it *)
Lemma C13_main_invariant_applies : J 900 s1.
Proof.
  apply (C13_main_invariant nvW 900 nvW_dur s0); [apply C13_slow_reachable_applies|].
  intro k. destruct k as [|[|[|k]]]; vm_compute; congruence.
Qed.
Example C13_main_bound_applies :
  lm s1 0 + iv s1 0 < now s1 + eps nvW /\
  exists c, In (LMain c 0%nat) (log s2) /\ now s1 + eps nvW <= c /\ c <= lm s1 0 + iv s1 0 + eps nvW + sweep 900 s1.
Proof.
  split; [reflexivity|].
  apply (C13_main_bound nvW 900 nvW_dur s1 [] 0%nat [1%nat] nv_quiet1 C13_main_invariant_applies); reflexivity.
Qed.

Example C13_wakeup_by_due_applies :
  now (turn nvW s3) <= Z.max (now s3 + eps nvW) (lm s3 0 + iv s3 0) /\
  now (turn nvW s3) <= Z.max (now s3 + eps nvW) (last_slow (get_mod s3 0) + si (dsc s3 0)).
Proof.
  apply (C13_wakeup_by_due nvW 900 nvW_dur s3 0%nat nv_quiet3); try reflexivity. vm_compute. lia.
Qed.

Example C13_no_wait_during_round_applies : waits nvW s1 = false.
Proof. apply (C13_no_wait_during_round nvW s1 [(1, 0)%nat]). reflexivity. Qed.

(* the entry waiting in the iterator of s1 is dealt with within one turn *)
Example C13_slow_round_applies :
  exists k, (1 <= k <= 1)%nat /\
    let s' := turns nvW k s1 in
    now s' <= now s1 + Z.of_nat k * Tn nvW 900 s1 /\
    ((exists t, now s1 <= t /\ In (LRead t 1 0) (log s')) \/
     2 * now s1 <= 2 * ts (get_ps (get_mod s' 1) 0) + si (dsc s1 1)).
Proof.
  apply (C13_slow_round nvW 900 nvW_dur ltac:(simpl; lia) s1 [(1, 0)%nat] nv_quiet1 nv_wf1 eq_refl 1%nat 0%nat);
    [left; reflexivity|reflexivity].
Qed.

Definition s0m : st := main_phase nvW (top nvW s0).
Example C13_slow_round_complete_applies :
  refill_list s0m = [(0, 0); (0, 1); (1, 0)]%nat /\
  slow_due (now s0m) (get_mod s0m 1) = true /\ In 0%nat (polled_params (dsc s0m 1)).
Proof.
  split; [vm_compute; reflexivity|].
  assert (AL : alive s0m = true) by (vm_compute; reflexivity).
  destruct (C13_slow_round_complete s0m 1%nat 0%nat AL) as [H _]. apply H.
  vm_compute. right; right; left; reflexivity.
Qed.

(* no module starved, third clause: at the refill of the first turn the params of BOTH modules are taken *)
Example C13_no_module_starved_refill_applies :
  let sm := main_phase nvW (top nvW s0) in
  In (LRead (now sm) 1 0) (log (turn nvW s0)) \/ In (1, 0)%nat (cur (turn nvW s0)) \/ fresh sm (1, 0)%nat.
Proof.
  intro sm.
  assert (A1 : finished s0 = false) by (vm_compute; reflexivity).
  assert (A2 : alive s0 = true) by (vm_compute; reflexivity).
  assert (A3 : waits nvW s0 = false) by (vm_compute; reflexivity).
  assert (A4 : alive sm = true) by (vm_compute; reflexivity).
  assert (A5 : wf sm).
  { intro k. destruct k as [|[|[|k]]]; vm_compute; intros; congruence || reflexivity. }
  assert (A6 : scan sm (cur sm) = None) by (vm_compute; reflexivity).
  assert (A7 : slow_due (now sm) (get_mod sm 1) = true) by (vm_compute; reflexivity).
  assert (A8 : In 0%nat (polled_params (dsc sm 1))) by (vm_compute; left; reflexivity).
  pose proof (proj2 (proj2 C13_no_module_starved) nvW s0 A1 A2 A3) as H. cbv zeta in H. fold sm in H.
  exact (H A4 A5 A6 1%nat 0%nat A7 A8).
Qed.

(* run-time requests *)
Definition s0f : st := apply_act nvW (AFast 0 true 100) s0.
Example C13_interval_change_applies :
  (let s' := apply_act nvW (ASetInt 0 300) s0 in interval (get_mod s' 0) = 300 /\ ev s' = true) /\
  fast (get_mod s0f 0) = true /\
  (let s' := apply_act nvW (ASetInt 0 300) s0f in
   interval (get_mod s' 0) = interval (get_mod s0f 0) /\ mpi (get_mod s' 0) = 300) /\
  (let s' := apply_act nvW (ATrig 1 true) s0 in last_main (get_mod s' 1) = 0 /\ ev s' = true).
Proof.
  assert (L0 : (0 < length (mods s0))%nat) by (vm_compute; lia).
  assert (L1 : (1 < length (mods s0))%nat) by (vm_compute; lia).
  assert (E0 : enable (md (get_mod s0 0)) = true) by (vm_compute; reflexivity).
  assert (E1 : enable (md (get_mod s0 1)) = true) by (vm_compute; reflexivity).
  assert (F0 : fast (get_mod s0 0) = false) by (vm_compute; reflexivity).
  assert (Lf : (0 < length (mods s0f))%nat) by (vm_compute; lia).
  assert (Ef : enable (md (get_mod s0f 0)) = true) by (vm_compute; reflexivity).
  assert (Ff : fast (get_mod s0f 0) = true) by (vm_compute; reflexivity).
  destruct (C13_interval_change nvW s0 0%nat L0 E0) as (H1 & _ & _ & _).
  destruct (C13_interval_change nvW s0f 0%nat Lf Ef) as (_ & H2 & _ & _).
  destruct (C13_interval_change nvW s0 1%nat L1 E1) as (_ & _ & _ & H4).
  split; [exact (H1 300 F0)|]. split; [exact Ff|]. split; [exact (H2 300 Ff)|exact H4].
Qed.
Example C13_next_wakeup_applies :
  wait_time (mods s3) (now s3 + 1) <= last_main (get_mod s3 1) + interval (get_mod s3 1) - (now s3 + 1).
Proof.
  assert (A : In (get_mod s3 1) (mods s3)) by (vm_compute; right; left; reflexivity).
  assert (B : enable (md (get_mod s3 1)) = true) by (vm_compute; reflexivity).
  exact (C13_next_wakeup_uses_interval (mods s3) (now s3 + 1) (get_mod s3 1) A B).
Qed.

(* reads made by the poller, with run-time requests and a shutdown in the history *)
Definition nv_acts : list (Z * action) := [(1024800, ASetInt 0 300); (1025000, ATrig 1 true); (1026500, AStop)].
Example C13_nopoll_never_read_applies :
  exists d p, nth_error (map fst nv_ds) 0 = Some d /\ enable d = true /\ nth_error (params d) 1 = Some p /\
              pnopoll p = false /\ pk p <> KNone /\ pk p <> KCommonRest.
Proof.
  apply (C13_nopoll_never_read nvW 2 1024000 nv_ds nv_acts 1025349 0%nat 1%nat).
  vm_compute. tauto.
Qed.
Example C13_survives_applies :
  let s := run nvW 8 (init_state 1024000 nv_ds nv_acts) in
  crashed s = false /\ finished s = true /\ alive s = false /\
  alive (run nvW 8 (init_state 1024000 nv_ds [(1024800, ASetInt 0 300)])) = true.
Proof.
  intro s. destruct (C13_survives nvW 8 1024000 nv_ds nv_acts) as (A & B & _). fold s in A, B.
  split; [exact A|]. assert (F : finished s = true) by (vm_compute; reflexivity). split; [exact F|]. split.
  - destruct (B F) as [H|H]; [exact H|vm_compute in H; discriminate].
  - apply (C13_survives nvW 8 1024000 nv_ds [(1024800, ASetInt 0 300)]). simpl. intros [H|[]]; discriminate.
Qed.

(* C13_nopoll_module_never_polled: the premise is satisfiable (a doPoll of module 1 and a read inside doPoll of module 0
   are in the log of the run with requests), and in a run where a module with enablePoll = false and a configured
   write shares the thread with a polled one (demo5, with a trigger and setFastPoll addressed to the module that is
   not polled) the conclusion excludes every doPoll of that module *)
Example C13_nopoll_module_never_polled_applies :
  (exists d, nth_error (map fst nv_ds) 1 = Some d /\ enable d = true) /\
  (exists d, nth_error (map fst nv_ds) 0 = Some d /\ enable d = true) /\
  (forall n a t, ~ In (LMain t 0%nat) (log (run demo5_W n (init_state 1024000 demo5_ds a)))).
Proof.
  split; [|split].
  - apply (C13_nopoll_module_never_polled nvW 2 1024000 nv_ds nv_acts 1024749 1%nat). left. vm_compute. tauto.
  - apply (C13_nopoll_module_never_polled nvW 2 1024000 nv_ds nv_acts 1024741 0%nat). right. left. exists 0%nat.
    vm_compute. tauto.
  - intros n a t H.
    destruct (C13_nopoll_module_never_polled demo5_W n 1024000 demo5_ds a t 0%nat (or_introl H)) as (d & Hd & He).
    simpl in Hd. inversion Hd; subst d. discriminate He.
Qed.
