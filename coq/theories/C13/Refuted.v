(* C13 - the faithful model violates "an exception of any kind does not stop the thread" at one place:
   initialReads.  An exception other than CommunicationFailedError raised by an overridden initialReads
   leaves the thread body (the poll thread dies before the first poll). *)
From Coq Require Import List Arith ZArith Bool.
Import ListNotations.
Require Import FV.Gen.C13 FV.C13.Model.
Local Open Scope Z_scope.

Definition wit_desc : mdesc :=
  {| enable := true; si := 1024; winit := false; iread := true; mainreads := [];
     params := [{| pk := KRead; pnopoll := false |}] |}.
Definition wit_world : world :=
  {| script := fun n => match n with O => (1, OErr 1 0) | _ => (1, OOk) end; eps := 1; reconn := false |}.

(* one module, initialReads raises a SECoP error that is not a communication failure: whatever the number of
   turns, the thread is dead, the start-up callback was never called and no parameter was ever read *)
Theorem C13_refuted_initialreads_kills_thread :
  exists W ds, forall n,
    let s := run W n (init_state 1024000 ds []) in
    crashed s = true /\ started s = false /\ log s = [LIread 1024000 0].
Proof.
  exists wit_world, [(wit_desc, 1024)]. intros n.
  assert (H : forall k s, finished s = true -> turns wit_world k s = s).
  { intros k; induction k as [|k IH]; intros s Hf; simpl; [reflexivity|].
    unfold turn at 1. rewrite Hf. apply IH. exact Hf. }
  unfold run. rewrite H; vm_compute; auto.
Qed.
