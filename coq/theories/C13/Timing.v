(* C13 - timing of the main loop in periods without run-time requests (acts = []):
   wake-up no later than any due time, every overdue main poll is started within the turn,
   bound on the start time, one slow poll per turn. *)
From Coq Require Import List Arith ZArith Bool Lia.
Import ListNotations.
Require Import FV.Gen.C13 FV.C13.Model FV.C13.Lemmas.
Local Open Scope Z_scope.

(* ------------------------------------------------------------ lists *)
Lemma nth_upd_nth_field : forall {B} (g : mstate -> B) (f : mstate -> mstate) l m k,
  (forall x, g (f x) = g x) -> g (nth k (upd_nth m f l) m0) = g (nth k l m0).
Proof.
  intros B g f l; induction l as [|x l IH]; intros m k Hf; simpl.
  - destruct m; reflexivity.
  - destruct m, k; simpl; auto.
Qed.

Lemma nth_upd_nth_other : forall (f : mstate -> mstate) l m k, k <> m -> nth k (upd_nth m f l) m0 = nth k l m0.
Proof.
  intros f l; induction l as [|x l IH]; intros m k H; simpl.
  - destruct m; reflexivity.
  - destruct m, k; simpl; auto. congruence.
Qed.

Lemma nth_upd_nth_same : forall (f : mstate -> mstate) l m, (m < length l)%nat -> nth m (upd_nth m f l) m0 = f (nth m l m0).
Proof.
  intros f l; induction l as [|x l IH]; intros m H; simpl in *; [lia|].
  destruct m; simpl; [reflexivity|]. apply IH. lia.
Qed.

Lemma length_upd_nth : forall (f : mstate -> mstate) l m, length (upd_nth m f l) = length l.
Proof. intros f l; induction l as [|x l IH]; intros [|m]; simpl; auto. Qed.

(* ------------------------------------------------------------ wake-up *)
Definition due (x : mstate) : Z := last_main x + interval x.

Lemma wait_time_fold_le : forall ms t w0,
  fold_left (fun wt x => if enable (md x)
                         then Z.min (Z.min (last_main x + interval x - t) wt) (last_slow x + si (md x) - t)
                         else wt) ms w0 <= w0.
Proof.
  intros ms t; induction ms as [|x ms IH]; intros w0; simpl; [lia|].
  destruct (enable (md x)); [|apply IH]. eapply Z.le_trans; [apply IH|]. lia.
Qed.

Lemma wait_time_le : forall ms t x, In x ms -> enable (md x) = true ->
  wait_time ms t <= due x - t /\ wait_time ms t <= last_slow x + si (md x) - t.
Proof.
  intros ms t x. unfold wait_time, due. generalize max_wait_ticks.
  induction ms as [|y ms IH]; intros w0 Hin He; simpl; [contradiction|].
  destruct Hin as [->|Hin].
  - rewrite He. pose proof (wait_time_fold_le ms t
      (Z.min (Z.min (last_main x + interval x - t) w0) (last_slow x + si (md x) - t))). lia.
  - apply IH; assumption.
Qed.

(* ------------------------------------------------------------ quiet steps *)
Section Quiet.
Variable W : world.
Variable dmax : Z.
Hypothesis Hd : forall k, 0 <= fst (script W k) <= dmax.

(* s' is reached from s (no pending actions) within time c, keeping the main poll schedule *)
Definition adv (s s' : st) (c : Z) : Prop :=
  acts s' = [] /\ (alive s' = alive s /\ finished s' = finished s) /\ length (mods s') = length (mods s) /\
  (forall k, md (get_mod s' k) = md (get_mod s k) /\ interval (get_mod s' k) = interval (get_mod s k) /\
             last_main (get_mod s' k) = last_main (get_mod s k)) /\
  now s <= now s' <= now s + c /\ (exists l, log s' = l ++ log s).

Lemma adv_refl : forall s, acts s = [] -> adv s s 0.
Proof. intros s H. unfold adv. repeat split; auto; try lia. exists []; reflexivity. Qed.

Lemma adv_trans : forall a b c x y, adv a b x -> adv b c y -> adv a c (x + y).
Proof.
  intros a b c x y (A1 & L1 & N1 & K1 & T1 & [l1 G1]) (A2 & L2 & N2 & K2 & T2 & [l2 G2]).
  unfold adv. split; [exact A2|]. split; [destruct L1, L2; split; congruence|]. split; [congruence|]. split.
  - intros k. destruct (K1 k) as (P1 & P2 & P3). destruct (K2 k) as (Q1 & Q2 & Q3). repeat split; congruence.
  - split; [lia|]. exists (l2 ++ l1). rewrite G2, G1, app_assoc. reflexivity.
Qed.

Lemma adv_weaken : forall a b x y, adv a b x -> x <= y -> adv a b y.
Proof. intros a b x y (A1 & [L1 F1] & N1 & K1 & T1 & G1) H. unfold adv. repeat split; auto; try apply K1; lia. Qed.

Definition kp (f : mstate -> mstate) : Prop :=
  forall x, md (f x) = md x /\ interval (f x) = interval x /\ last_main (f x) = last_main x.

Lemma adv_upd_mod : forall s m f, acts s = [] -> kp f -> adv s (upd_mod s m f) 0.
Proof.
  intros s m f Ha Hf. unfold adv, upd_mod, get_mod; simpl.
  split; [exact Ha|]. split; [split; reflexivity|]. split; [apply length_upd_nth|]. split.
  - intros k. repeat split; apply nth_upd_nth_field; intros x; apply Hf.
  - split; [lia|]. exists []; reflexivity.
Qed.

Lemma adv_emit : forall s e, acts s = [] -> adv s (emit s e) 0.
Proof. intros s e Ha. unfold adv; simpl. repeat split; auto; try lia. exists [e]; reflexivity. Qed.

Lemma adv_set_topoll : forall s v, acts s = [] -> adv s (set_topoll s v) 0.
Proof. intros s v Ha. unfold adv; simpl. repeat split; auto; try lia. exists []; reflexivity. Qed.

Lemma adv_body : forall s, acts s = [] -> adv s (fst (body W s)) dmax.
Proof.
  intros s Ha. unfold body. pose proof (Hd (ctr s)) as H. destruct (script W (ctr s)) as [d o]. simpl in *.
  unfold sleep. simpl. rewrite Ha. simpl. unfold adv; simpl. repeat split; auto; try lia. exists []; reflexivity.
Qed.

Lemma adv_read_wrapped : forall s m i, acts s = [] -> adv s (fst (read_wrapped W s m i)) dmax.
Proof.
  intros s m i Ha. unfold read_wrapped. pose proof (adv_body s Ha) as Hb.
  destruct (body W s) as [s1 o]. simpl in Hb. assert (A1 : acts s1 = []) by apply Hb.
  destruct o.
  - simpl. eapply adv_weaken; [eapply adv_trans; [exact Hb|apply adv_upd_mod; [exact A1|]]|lia]. intros x; repeat split.
  - destruct (same_err _ _ _); simpl.
    + exact Hb.
    + eapply adv_weaken; [eapply adv_trans; [exact Hb|apply adv_upd_mod; [exact A1|]]|lia]. intros x; repeat split.
Qed.

Lemma adv_poll_result : forall s m f r rc, acts s = [] -> adv s (fst (poll_result s m f r rc)) 0.
Proof.
  intros s m f r rc Ha. unfold poll_result. destruct r as [[[c k] [|]]|]; simpl;
    try (apply adv_refl; exact Ha); apply adv_upd_mod; try exact Ha; intros x; repeat split.
Qed.

Lemma adv_call_read : forall s m i rc, acts s = [] -> adv s (fst (call_read W s m i rc)) dmax.
Proof.
  intros s m i rc Ha. unfold call_read.
  pose proof (adv_emit s (LRead (now s) m i) Ha) as E0.
  assert (A0 : acts (emit s (LRead (now s) m i)) = []) by exact Ha.
  pose proof (adv_read_wrapped _ m i A0) as E1.
  destruct (read_wrapped W (emit s (LRead (now s) m i)) m i) as [s1 r]. simpl in E1.
  assert (A1 : acts s1 = []) by apply E1.
  eapply adv_weaken; [eapply adv_trans; [exact E0|eapply adv_trans; [exact E1|apply adv_poll_result; exact A1]]|lia].
Qed.

Lemma adv_main_reads : forall m l s, acts s = [] -> adv s (fst (main_reads W s m l)) (Z.of_nat (length l) * dmax).
Proof.
  intros m l; induction l as [|i l IH]; intros s Ha; simpl main_reads.
  { simpl. apply adv_refl; exact Ha. }
  pose proof (adv_emit s (LMRead (now s) m i) Ha) as E0.
  assert (A0 : acts (emit s (LMRead (now s) m i)) = []) by exact Ha.
  pose proof (adv_read_wrapped _ m i A0) as E1.
  destruct (read_wrapped W (emit s (LMRead (now s) m i)) m i) as [s1 res]. simpl in E1.
  assert (A1 : acts s1 = []) by apply E1.
  assert (Hdm : 0 <= dmax) by (pose proof (Hd 0%nat); lia).
  assert (Hlen : Z.of_nat (length (i :: l)) = 1 + Z.of_nat (length l)) by (simpl length; lia).
  destruct res as [e|]; simpl fst.
  - eapply adv_weaken; [eapply adv_trans; [exact E0|exact E1]|]. rewrite Hlen. nia.
  - eapply adv_weaken; [eapply adv_trans; [exact E0|eapply adv_trans; [exact E1|apply IH; exact A1]]|].
    rewrite Hlen. nia.
Qed.

Definition cost (d : mdesc) : Z := (1 + Z.of_nat (length (mainreads d))) * dmax.

Lemma adv_call_main : forall s m, acts s = [] ->
  adv s (call_main W s m) (cost (md (get_mod s m))) /\ In (LMain (now s) m) (log (call_main W s m)).
Proof.
  intros s m Ha. unfold call_main.
  pose proof (adv_emit s (LMain (now s) m) Ha) as E0.
  assert (A0 : acts (emit s (LMain (now s) m)) = []) by exact Ha.
  pose proof (adv_body _ A0) as E1.
  destruct (body W (emit s (LMain (now s) m))) as [s1 o]. simpl in E1.
  assert (A1 : acts s1 = []) by apply E1.
  assert (Hdm : 0 <= dmax) by (pose proof (Hd 0%nat); lia).
  assert (Md : md (get_mod s1 m) = md (get_mod s m)).
  { destruct E1 as (_ & _ & _ & K & _). destruct (K m) as (P & _). exact P. }
  assert (G : forall s2 r c, adv s1 s2 c -> c <= Z.of_nat (length (mainreads (md (get_mod s m)))) * dmax ->
     adv s (fst (poll_result s2 m 0%nat r false)) (cost (md (get_mod s m))) /\
     In (LMain (now s) m) (log (fst (poll_result s2 m 0%nat r false)))).
  { intros s2 r c E2 Hc.
    assert (A2 : acts s2 = []) by apply E2.
    pose proof (adv_poll_result s2 m 0%nat r false A2) as E3.
    pose proof (adv_trans _ _ _ _ _ (adv_trans _ _ _ _ _ E1 E2) E3) as E13.
    pose proof (adv_trans _ _ _ _ _ E0 E13) as E.
    split; [eapply adv_weaken; [exact E|unfold cost; lia]|].
    assert (L : exists l, log (fst (poll_result s2 m 0%nat r false)) = l ++ log (emit s (LMain (now s) m))).
    { destruct E13 as (_ & _ & _ & _ & _ & L). exact L. }
    destruct L as [l L]. rewrite L. apply in_or_app. right. simpl. left; reflexivity. }
  destruct o.
  - pose proof (adv_main_reads m (mainreads (md (get_mod s1 m))) s1 A1) as E2.
    destruct (main_reads W s1 m (mainreads (md (get_mod s1 m)))) as [s2 r]. simpl in E2.
    rewrite Md in E2. apply (G s2 r _ E2). lia.
  - apply (G s1 (Some (cls, k, true)) 0); [apply adv_refl; exact A1|nia].
Qed.

(* ------------------------------------------------------------ the main polls of one turn *)
Definition lm (s : st) (k : nat) : Z := last_main (get_mod s k).
Definition iv (s : st) (k : nat) : Z := interval (get_mod s k).
Definition dsc (s : st) (k : nat) : mdesc := md (get_mod s k).
Definition en (s : st) (k : nat) : bool := enable (dsc s k).

Fixpoint csum (s : st) (l : list nat) : Z :=
  match l with [] => 0 | k :: r => cost (dsc s k) + csum s r end.

Lemma csum_ext : forall s s' l, (forall k, dsc s' k = dsc s k) -> csum s' l = csum s l.
Proof. intros s s' l H; induction l as [|k l IH]; simpl; [reflexivity|]. rewrite H, IH. reflexivity. Qed.

Lemma csum_app : forall s l1 l2, csum s (l1 ++ l2) = csum s l1 + csum s l2.
Proof. intros s l1 l2; induction l1 as [|k l IH]; simpl; [reflexivity|]. rewrite IH. lia. Qed.

Lemma cost_nonneg : forall d, 0 <= cost d.
Proof. intros d. unfold cost. pose proof (Hd 0%nat). nia. Qed.

Lemma csum_nonneg : forall s l, 0 <= csum s l.
Proof. intros s l; induction l as [|k l IH]; simpl; [lia|]. pose proof (cost_nonneg (dsc s k)). lia. Qed.

(* what one step does to the schedule *)
Lemma main_step_spec : forall s m, acts s = [] -> alive s = true -> (m < length (mods s))%nat ->
  let s' := main_step W s m in
  acts s' = [] /\ alive s' = true /\ length (mods s') = length (mods s) /\
  (forall k, dsc s' k = dsc s k /\ iv s' k = iv s k /\ (k <> m -> lm s' k = lm s k)) /\
  now s <= now s' <= now s + cost (dsc s m) /\ (exists l, log s' = l ++ log s) /\
  (en s m = true -> lm s m + iv s m < now s ->
     lm s' m = new_last_main (now s) (iv s m) /\ In (LMain (now s) m) (log s')) /\
  (en s m = true -> now s <= lm s m + iv s m -> lm s' m = lm s m).
Proof.
  intros s m Ha Al Hm. unfold main_step. rewrite Al. simpl negb. cbv iota.
  unfold en, dsc, lm, iv.
  destruct (enable (md (get_mod s m)) && (last_main (get_mod s m) + interval (get_mod s m) <? now s)) eqn:C.
  - apply andb_true_iff in C. destruct C as [Ce Cl]. apply Z.ltb_lt in Cl.
    set (s1 := upd_mod s m (fun y => m_set_last_main y (new_last_main (now s) (interval y)))).
    assert (A1 : acts s1 = []) by exact Ha.
    assert (N1 : now s1 = now s) by reflexivity.
    assert (K1 : forall k, md (get_mod s1 k) = md (get_mod s k) /\ interval (get_mod s1 k) = interval (get_mod s k) /\
                           (k <> m -> last_main (get_mod s1 k) = last_main (get_mod s k))).
    { intros k. unfold s1, upd_mod, get_mod; simpl. split; [|split].
      - apply nth_upd_nth_field. intros x; reflexivity.
      - apply nth_upd_nth_field. intros x; reflexivity.
      - intros Hk. rewrite nth_upd_nth_other by exact Hk. reflexivity. }
    assert (M1 : last_main (get_mod s1 m) = new_last_main (now s) (interval (get_mod s m))).
    { unfold s1, upd_mod, get_mod; simpl. rewrite nth_upd_nth_same by exact Hm. reflexivity. }
    destruct (adv_call_main s1 m A1) as [(A2 & [L2 F2] & N2 & K2 & T2 & G2) I2].
    destruct (K1 m) as (Dm & _).
    split; [exact A2|]. split; [rewrite L2; exact Al|]. split; [rewrite N2; unfold s1, upd_mod; simpl; apply length_upd_nth|].
    split.
    { intros k. destruct (K2 k) as (P1 & P2 & P3). destruct (K1 k) as (Q1 & Q2 & Q3).
      split; [congruence|]. split; [congruence|]. intros Hk. rewrite P3. apply Q3; exact Hk. }
    split; [rewrite Dm in T2; rewrite N1 in T2; exact T2|].
    split; [exact G2|]. split.
    + intros _ _. destruct (K2 m) as (_ & _ & P3). rewrite P3, M1. split; [reflexivity|]. rewrite N1 in I2. exact I2.
    + intros _ H. lia.
  - split; [exact Ha|]. split; [exact Al|]. split; [reflexivity|]. split; [intros k; auto|].
    pose proof (cost_nonneg (md (get_mod s m))). split; [lia|]. split; [exists []; reflexivity|]. split.
    + intros He Hl. rewrite He in C. simpl in C. apply Z.ltb_ge in C. lia.
    + intros _ _. reflexivity.
Qed.

(* the fold over the module list: every module of the list is checked at a time c within the
   accumulated cost of the modules before it, and is polled at c when it is due then *)
Lemma main_fold_spec : forall l s, acts s = [] -> alive s = true -> NoDup l ->
  (forall m, In m l -> (m < length (mods s))%nat) ->
  let s' := fold_left (main_step W) l s in
  acts s' = [] /\ alive s' = true /\ length (mods s') = length (mods s) /\
  (forall k, dsc s' k = dsc s k /\ iv s' k = iv s k /\ (~ In k l -> lm s' k = lm s k)) /\
  now s <= now s' <= now s + csum s l /\ (exists lg, log s' = lg ++ log s) /\
  (forall l1 m l2, l = l1 ++ m :: l2 -> en s m = true ->
     exists c, now s <= c <= now s + csum s l1 /\ now s' <= c + csum s (m :: l2) /\
       (lm s m + iv s m < c -> lm s' m = new_last_main c (iv s m) /\ In (LMain c m) (log s')) /\
       (c <= lm s m + iv s m -> lm s' m = lm s m)).
Proof.
  intros l; induction l as [|m0' l IH]; intros s Ha Al Nd Hl; simpl fold_left.
  - split; [exact Ha|]. split; [exact Al|]. split; [reflexivity|]. split; [intros k; auto|].
    simpl. split; [lia|]. split; [exists []; reflexivity|]. intros l1 m l2 H. destruct l1; discriminate H.
  - inversion Nd as [|? ? Nin Nd']; subst.
    pose proof (main_step_spec s m0' Ha Al (Hl m0' (or_introl eq_refl))) as S1. simpl in S1.
    destruct S1 as (A1 & L1 & N1 & K1 & T1 & [g1 G1] & P1 & Q1).
    set (s1 := main_step W s m0') in *.
    assert (Hl1 : forall m, In m l -> (m < length (mods s1))%nat) by (intros m Hm; rewrite N1; apply Hl; right; exact Hm).
    specialize (IH s1 A1 L1 Nd' Hl1). simpl in IH. destruct IH as (A2 & L2 & N2 & K2 & T2 & [g2 G2] & R2).
    set (s2 := fold_left (main_step W) l s1) in *.
    assert (Cs : forall l', csum s1 l' = csum s l') by (intros l'; apply csum_ext; intros k; apply K1).
    split; [exact A2|]. split; [exact L2|]. split; [congruence|]. split.
    { intros k. destruct (K1 k) as (a1 & a2 & a3). destruct (K2 k) as (b1 & b2 & b3).
      split; [congruence|]. split; [congruence|]. intros Hk. rewrite b3 by (intros H; apply Hk; right; exact H).
      apply a3. intros ->. apply Hk. left; reflexivity. }
    rewrite Cs in T2. simpl csum. split; [lia|]. split; [exists (g2 ++ g1); rewrite G2, G1, app_assoc; reflexivity|].
    intros l1 m l2 Hsplit Hen. destruct l1 as [|h l1]; simpl in Hsplit; inversion Hsplit; subst.
    + (* the head *)
      exists (now s). simpl csum. split; [lia|]. split; [lia|].
      destruct (K2 m) as (_ & _ & b3). split.
      * intros Hlt. destruct (P1 Hen Hlt) as [p1 p2]. rewrite b3 by exact Nin. split; [exact p1|].
        rewrite G2. apply in_or_app. right; exact p2.
      * intros Hle. rewrite b3 by exact Nin. apply Q1; assumption.
    + (* in the tail *)
      assert (Hen1 : en s1 m = true) by (unfold en; destruct (K1 m) as (a1 & _); rewrite a1; exact Hen).
      destruct (R2 l1 m l2 eq_refl Hen1) as (c & Hc1 & Hc2 & Hc3 & Hc4).
      assert (Hne : m <> h).
      { intros ->. apply Nin. apply in_or_app. right; left; reflexivity. }
      destruct (K1 m) as (a1 & a2 & a3). rewrite a1, a2, (a3 Hne) in *.
      rewrite ?Cs in *. exists c. simpl csum. simpl csum in Hc2. pose proof (cost_nonneg (dsc s h)).
      split; [lia|]. split; [exact Hc2|]. split; assumption.
Qed.

(* ------------------------------------------------------------ the slow poll of one turn *)
Lemma adv_slow_loop : forall k s, acts s = [] -> adv s (slow_loop W k s) dmax.
Proof.
  assert (Hdm : 0 <= dmax) by (pose proof (Hd 0%nat); lia).
  intros k; induction k as [|k IH]; intros s Ha; simpl.
  { eapply adv_weaken; [apply adv_refl; exact Ha|exact Hdm]. }
  destruct (scan s _) as [[[m i] rest]|].
  - eapply adv_weaken; [eapply adv_trans; [apply adv_set_topoll; exact Ha|apply adv_call_read; exact Ha]|lia].
  - assert (E1 : adv s (set_mods s (refill_mods s)) 0).
    { unfold adv; simpl. split; [exact Ha|]. split; [split; reflexivity|]. unfold refill_mods.
      destruct (alive s); [|repeat split; auto; try lia; exists []; reflexivity].
      split; [apply map_length|]. split.
      - intros j. unfold get_mod; simpl.
        change m0 with ((fun x => if slow_due (now s) x then m_set_last_slow x (now s / si (md x) * si (md x)) else x) m0) at 1 3 5.
        rewrite map_nth. destruct (slow_due _ _); repeat split.
      - split; [lia|]. exists []; reflexivity. }
    destruct (refill_list s).
    + eapply adv_weaken; [eapply adv_trans; [exact E1|apply adv_set_topoll; exact Ha]|lia].
    + eapply adv_weaken; [eapply adv_trans; [exact E1|
        eapply adv_trans; [apply (adv_set_topoll (set_mods s (refill_mods s))); exact Ha|apply IH; exact Ha]]|lia].
Qed.


(* ------------------------------------------------------------ whole turns *)

Lemma new_last_main_ge : forall c i, 0 <= i -> c <= new_last_main c i + i.
Proof.
  intros c i Hi. unfold new_last_main. destruct (i =? 0) eqn:E.
  - apply Z.eqb_eq in E. lia.
  - apply Z.eqb_neq in E. pose proof (Z.mod_pos_bound c i ltac:(lia)). pose proof (Z.div_mod c i E). nia.
Qed.

Definition nmods (s : st) : nat := length (mods s).
Definition sweep (s : st) : Z := csum s (seq 0 (nmods s)) + dmax.
Definition quiet (s : st) : Prop := acts s = [] /\ alive s = true /\ finished s = false.

Lemma split_lt : forall n l1 m l2, seq 0 n = l1 ++ m :: l2 -> (m < n)%nat.
Proof.
  intros n l1 m l2 H. assert (Hin : In m (seq 0 n)) by (rewrite H; apply in_or_app; right; left; reflexivity).
  apply in_seq in Hin. lia.
Qed.

(* without pending requests nothing is due: fire_due only re-writes the clock *)
Lemma fire_due_quiet : forall s, acts s = [] ->
  let s' := fire_due W s in
  acts s' = [] /\ alive s' = alive s /\ finished s' = finished s /\ mods s' = mods s /\ now s' = now s /\
  log s' = log s /\ ev s' = ev s /\ topoll s' = topoll s.
Proof.
  intros s Ha. unfold fire_due, sleep. rewrite Ha. simpl. repeat split; auto. lia.
Qed.

Lemma wait_quiet : forall s t, acts s = [] -> 0 < t ->
  let s' := wait W s t in
  acts s' = [] /\ alive s' = alive s /\ finished s' = finished s /\ mods s' = mods s /\ now s <= now s' <= now s + t /\
  (exists l, log s' = l ++ log s).
Proof.
  intros s t Ha Ht. unfold wait.
  destruct (fire_due_quiet s Ha) as (A & L & F & M & N & G & E & _).
  remember (fire_due W s) as s1. clear Heqs1. simpl. destruct (ev s1); simpl.
  - rewrite A, L, F, M, N, G. repeat split; auto; try lia. exists [LWait (now s) t]; reflexivity.
  - rewrite A. simpl. rewrite L, F, M, N, G. repeat split; auto; try lia. exists [LWait (now s) t]; reflexivity.
Qed.

(* wait; clear in a period without requests *)
Lemma wait_clear_quiet : forall s t, acts s = [] -> 0 < t ->
  let s' := set_ev (fire_due W (wait W s t)) false in
  acts s' = [] /\ alive s' = alive s /\ finished s' = finished s /\ mods s' = mods s /\ now s <= now s' <= now s + t /\
  (exists l, log s' = l ++ log s) /\ topoll s' = topoll s.
Proof.
  intros s t Ha Ht. destruct (wait_quiet s t Ha Ht) as (A & L & F & M & N & G).
  destruct (fire_due_quiet _ A) as (A2 & L2 & F2 & M2 & N2 & G2 & _ & T2).
  simpl. rewrite A2, L2, F2, M2, N2, G2, T2, L, F, M, tp_wait. repeat split; auto; lia.
Qed.

(* the state at the top of the turn, after the loop condition was evaluated *)
Definition top (s : st) : st := emit (set_now s (now s + eps W)) (LTurn (now s + eps W)).

Definition waits (s : st) : bool :=
  (0 <? wait_time (mods s) (now s + eps W)) && (match topoll s with None => true | Some _ => false end).

Lemma turn_unfold : forall s, quiet s ->
  turn W s = if waits s then set_ev (fire_due W (wait W (top s) (wait_time (mods s) (now s + eps W)))) false
             else slow_phase W (main_phase W (top s)).
Proof. intros s (Ha & Al & Fi). unfold turn, waits. rewrite Fi, Al. reflexivity. Qed.

(* what the working branch of a turn does *)
Lemma work_spec : forall s, quiet s ->
  let s1 := main_phase W (top s) in
  let s2 := slow_phase W s1 in
  quiet s2 /\ nmods s2 = nmods s /\
  (forall k, dsc s2 k = dsc s k /\ iv s2 k = iv s k) /\
  (forall l1 m l2, seq 0 (nmods s) = l1 ++ m :: l2 -> en s m = true ->
     exists c, now s + eps W <= c <= now s + eps W + csum s l1 /\ now s2 <= c + csum s (m :: l2) + dmax /\
       (lm s m + iv s m < c -> lm s2 m = new_last_main c (iv s m) /\ In (LMain c m) (log s2)) /\
       (c <= lm s m + iv s m -> lm s2 m = lm s m)).
Proof.
  intros s (Ha & Al & Fi). simpl.
  assert (At : acts (top s) = []) by exact Ha.
  assert (Alt : alive (top s) = true) by exact Al.
  pose proof (main_fold_spec (seq 0 (length (mods (top s)))) (top s) At Alt (seq_NoDup _ _)
                (fun m H => proj2 (proj1 (in_seq _ _ _) H))) as H. simpl in H.
  change (fold_left (main_step W) (seq 0 (length (mods s))) (top s)) with (main_phase W (top s)) in H.
  destruct H as (A1 & L1 & N1 & K1 & T1 & G1 & R1).
  assert (F1 : finished (main_phase W (top s)) = false).
  { destruct (ext_main_phase W (top s)) as (_ & _ & F & _). rewrite F. exact Fi. }
  destruct (adv_slow_loop 3 (main_phase W (top s)) A1) as (A2 & [L2 F2] & N2 & K2 & T2 & [g2 G2]).
  fold (slow_phase W (main_phase W (top s))) in *.
  split; [unfold quiet; split; [exact A2|split; congruence]|].
  split; [unfold nmods in *; simpl in *; congruence|]. split.
  { intros k. destruct (K1 k) as (a1 & a2 & _). destruct (K2 k) as (b1 & b2 & _).
    unfold dsc, iv in *. split; [rewrite b1; exact a1|rewrite b2; exact a2]. }
  intros l1 m l2 Hs Hen.
  destruct (R1 l1 m l2 Hs Hen) as (c & Hc1 & Hc2 & Hc3 & Hc4).
  assert (Cs : forall l', csum (top s) l' = csum s l') by (intros l'; apply csum_ext; intros k; reflexivity).
  rewrite !Cs in *. simpl now in Hc1.
  destruct (K2 m) as (_ & _ & b3).
  change (lm (top s) m) with (lm s m) in *. change (iv (top s) m) with (iv s m) in *.
  change (dsc (top s) m) with (dsc s m) in *. unfold lm in *. simpl csum.
  exists c. split; [exact Hc1|]. split; [lia|]. split.
  - intros Hlt. destruct (Hc3 Hlt) as [p1 p2]. rewrite b3. split; [exact p1|].
    rewrite G2. apply in_or_app. right; exact p2.
  - intros Hle. rewrite b3. apply Hc4; exact Hle.
Qed.

Lemma turn_quiet : forall s, quiet s ->
  quiet (turn W s) /\ nmods (turn W s) = nmods s /\ (forall k, dsc (turn W s) k = dsc s k /\ iv (turn W s) k = iv s k).
Proof.
  intros s Q. rewrite (turn_unfold s Q). destruct (waits s) eqn:C.
  - destruct Q as (Ha & Al & Fi). unfold waits in C. apply andb_true_iff in C. destruct C as [C _]. apply Z.ltb_lt in C.
    destruct (wait_clear_quiet (top s) _ Ha C) as (A & L & F & M & _). unfold quiet, nmods, dsc, iv, get_mod.
    rewrite A, L, F, M. simpl. repeat split; auto.
  - destruct (work_spec s Q) as (Q2 & N2 & K2 & _). split; [exact Q2|]. split; [exact N2|exact K2].
Qed.

(* J: no module is overdue by more than the rest of a sweep *)
Definition J (s : st) : Prop :=
  forall l1 m l2, seq 0 (nmods s) = l1 ++ m :: l2 -> en s m = true ->
    now s <= lm s m + iv s m + csum s (m :: l2) + dmax.

Lemma get_mod_in : forall s m, (m < nmods s)%nat -> In (get_mod s m) (mods s).
Proof. intros s m H. unfold get_mod. apply nth_In. exact H. Qed.

(* after every turn of a quiet period J holds, whatever the state was before *)
Lemma turn_establishes_J : forall s, quiet s -> (forall k, 0 <= iv s k) -> J (turn W s).
Proof.
  intros s Q Hiv. destruct (turn_quiet s Q) as (_ & Nn & Kk).
  unfold J. rewrite Nn. intros l1 m l2 Hs Hen.
  assert (Hen0 : en s m = true) by (unfold en in *; destruct (Kk m) as (a & _); rewrite <- a; exact Hen).
  assert (Cs : forall l', csum (turn W s) l' = csum s l') by (intros l'; apply csum_ext; intros k; apply Kk).
  rewrite Cs. destruct (Kk m) as (_ & Iv). rewrite Iv. clear Cs.
  pose proof (csum_nonneg s (m :: l2)) as Hc. assert (Hdm : 0 <= dmax) by (pose proof (Hd 0%nat); lia).
  revert Hen Iv. rewrite (turn_unfold s Q). intros Hen Iv. destruct (waits s) eqn:C.
  - destruct Q as (Ha & Al & Fi). unfold waits in C. apply andb_true_iff in C. destruct C as [C _]. apply Z.ltb_lt in C.
    destruct (wait_clear_quiet (top s) _ Ha C) as (A & L & F & M & T & _).
    assert (Lm : lm (set_ev (fire_due W (wait W (top s) (wait_time (mods s) (now s + eps W)))) false) m = lm s m).
    { unfold lm, get_mod. rewrite M. reflexivity. }
    rewrite Lm. simpl now in *.
    destruct (wait_time_le (mods s) (now s + eps W) (get_mod s m) (get_mod_in s m (split_lt _ _ _ _ Hs)) Hen0) as [W1 _].
    unfold due in W1. unfold lm, iv. lia.
  - destruct (work_spec s Q) as (_ & _ & _ & R). destruct (R l1 m l2 Hs Hen0) as (c & Hc1 & Hc2 & Hc3 & Hc4).
    destruct (Z_lt_le_dec (lm s m + iv s m) c) as [Hlt|Hle].
    + destruct (Hc3 Hlt) as [p1 _]. rewrite p1. pose proof (new_last_main_ge c (iv s m) (Hiv m)). lia.
    + rewrite (Hc4 Hle). lia.
Qed.

(* a module that is overdue at the top of a turn is polled in this turn, no later than one sweep after it was due *)
Lemma overdue_polled : forall s l1 m l2, quiet s -> J s ->
  seq 0 (nmods s) = l1 ++ m :: l2 -> en s m = true ->
  lm s m + iv s m < now s + eps W ->
  exists c, In (LMain c m) (log (turn W s)) /\ now s + eps W <= c /\ c <= lm s m + iv s m + eps W + sweep s.
Proof.
  intros s l1 m l2 Q Jn Hs Hen Hov.
  assert (Wt : waits s = false).
  { unfold waits. destruct (wait_time_le (mods s) (now s + eps W) (get_mod s m) (get_mod_in s m (split_lt _ _ _ _ Hs)) Hen) as [W1 _].
    unfold due in W1. unfold lm, iv in Hov.
    destruct (0 <? wait_time (mods s) (now s + eps W)) eqn:E; [|reflexivity]. apply Z.ltb_lt in E. lia. }
  rewrite (turn_unfold s Q), Wt.
  destruct (work_spec s Q) as (_ & _ & _ & R). destruct (R l1 m l2 Hs Hen) as (c & Hc1 & Hc2 & Hc3 & _).
  assert (Hlt : lm s m + iv s m < c) by lia.
  destruct (Hc3 Hlt) as [_ Hin]. exists c. split; [exact Hin|]. split; [lia|].
  pose proof (Jn l1 m l2 Hs Hen) as Hj. unfold sweep. rewrite Hs, csum_app. lia.
Qed.

(* the thread never sleeps beyond the time at which a main poll or a slow poll round is due *)
Lemma no_oversleep : forall s m, quiet s -> (m < nmods s)%nat -> en s m = true -> waits s = true ->
  now (turn W s) <= Z.max (now s + eps W) (lm s m + iv s m) /\
  now (turn W s) <= Z.max (now s + eps W) (last_slow (get_mod s m) + si (dsc s m)).
Proof.
  intros s m Q Hm Hen Wt. rewrite (turn_unfold s Q), Wt. destruct Q as (Ha & Al & Fi).
  unfold waits in Wt. apply andb_true_iff in Wt. destruct Wt as [C _]. apply Z.ltb_lt in C.
  destruct (wait_clear_quiet (top s) _ Ha C) as (_ & _ & _ & _ & T & _). simpl now in T.
  destruct (wait_time_le (mods s) (now s + eps W) (get_mod s m) (get_mod_in s m Hm) Hen) as [W1 W2].
  unfold due in W1. unfold lm, iv, dsc.
  change (now (set_ev (fire_due W (wait W (top s) (wait_time (mods s) (now s + eps W)))) false))
    with (now (fire_due W (wait W (top s) (wait_time (mods s) (now s + eps W))))). lia.
Qed.

(* while a slow poll round is in progress the thread does not sleep *)
Lemma no_wait_during_round : forall s l, topoll s = Some l -> waits s = false.
Proof. intros s l H. unfold waits. rewrite H. apply andb_false_r. Qed.

End Quiet.

(* ------------------------------------------------------------ run-time requests *)
(* a change of the poll interval / fast polling / an immediate trigger is in the PollInfo at once and sets the
   trigger event, so the next evaluation of wait_time and of the due test uses it *)
Lemma request_effect : forall W s m, (m < length (mods s))%nat -> enable (md (get_mod s m)) = true ->
  (forall v, fast (get_mod s m) = false ->
     let s' := apply_act W (ASetInt m v) s in interval (get_mod s' m) = v /\ ev s' = true) /\
  (forall v, fast (get_mod s m) = true ->
     let s' := apply_act W (ASetInt m v) s in interval (get_mod s' m) = interval (get_mod s m) /\ mpi (get_mod s' m) = v) /\
  (forall flag fi, let s' := apply_act W (AFast m flag fi) s in
     interval (get_mod s' m) = (if flag then fi else mpi (get_mod s m)) /\ fast (get_mod s' m) = flag /\ ev s' = true) /\
  (let s' := apply_act W (ATrig m true) s in last_main (get_mod s' m) = 0 /\ ev s' = true).
Proof.
  intros W s m Hm He. repeat split; intros; simpl; rewrite ?He; try rewrite H; simpl;
    unfold get_mod, upd_mod; simpl; rewrite ?nth_upd_nth_same by exact Hm; reflexivity.
Qed.

Lemma wait_time_uses_interval : forall ms t x, In x ms -> enable (md x) = true ->
  wait_time ms t <= last_main x + interval x - t.
Proof. intros ms t x H He. destruct (wait_time_le ms t x H He) as [H1 _]. exact H1. Qed.
