(* C13 - frame lemmas and invariants valid for every world, every action schedule:
   module descriptors never change, only polled parameters are read by the poller, the thread
   ends only by a requested shutdown. *)
From Coq Require Import List Arith ZArith Bool Lia.
Import ListNotations.
Require Import FV.Gen.C13 FV.C13.Model.
Local Open Scope Z_scope.

Definition d0 : mdesc := md m0.
Definition descs (s : st) : list mdesc := map md (mods s).

(* parameter i of module m is polled according to the descriptors *)
Definition pok (ds : list mdesc) (m i : nat) : Prop :=
  enable (nth m ds d0) = true /\ In i (polled_params (nth m ds d0)).

(* module m is polled at all (enablePoll) *)
Definition mok (ds : list mdesc) (m : nat) : Prop := enable (nth m ds d0) = true.

(* what the poller may add to the log: reads of polled parameters of polled modules, doPoll (and the reads made inside
   it) of polled modules only *)
Definition okread (ds : list mdesc) (e : levent) : Prop :=
  match e with
  | LRead _ m i => pok ds m i
  | LMain _ m => mok ds m
  | LMRead _ m _ => mok ds m
  | _ => True
  end.

Definition nostop (l : list (Z * action)) : Prop := ~ In AStop (map snd l).

(* s' is reached from s by poller code: what is static stays, the log grows by permitted entries only *)
Definition ext (s s' : st) : Prop :=
  descs s' = descs s /\ crashed s' = crashed s /\ finished s' = finished s /\
  (nostop (acts s) -> nostop (acts s') /\ alive s' = alive s) /\
  (forall e, In e (log s') -> In e (log s) \/ okread (descs s) e).

Lemma ext_refl : forall s, ext s s.
Proof. intros s; repeat split; auto. Qed.

Lemma ext_trans : forall a b c, ext a b -> ext b c -> ext a c.
Proof.
  intros a b c (D1 & C1 & F1 & N1 & L1) (D2 & C2 & F2 & N2 & L2).
  split; [congruence|]. split; [congruence|]. split; [congruence|]. split.
  - intros H. destruct (N1 H) as [H1 A1]. destruct (N2 H1) as [H2 A2]. split; [exact H2|congruence].
  - intros e He. destruct (L2 e He) as [Hb|Hb].
    + apply L1; exact Hb.
    + right. rewrite <- D1. exact Hb.
Qed.

Definition dp (f : mstate -> mstate) : Prop := forall x, md (f x) = md x.

Lemma map_upd_nth : forall (f : mstate -> mstate) n l, dp f -> map md (upd_nth n f l) = map md l.
Proof.
  intros f n l Hf; revert n; induction l as [|x l IH]; intros [|n]; simpl; auto.
  - rewrite Hf; reflexivity.
  - rewrite IH; reflexivity.
Qed.

Lemma ext_upd_mod : forall s m f, dp f -> ext s (upd_mod s m f).
Proof.
  intros s m f Hf. unfold ext, descs, upd_mod; simpl. rewrite map_upd_nth by exact Hf.
  repeat split; auto.
Qed.

Lemma ext_set_ev : forall s v, ext s (set_ev s v).
Proof. intros; repeat split; auto. Qed.
Lemma ext_set_now : forall s v, ext s (set_now s v).
Proof. intros; repeat split; auto. Qed.
Lemma ext_set_ctr : forall s v, ext s (set_ctr s v).
Proof. intros; repeat split; auto. Qed.
Lemma ext_set_topoll : forall s v, ext s (set_topoll s v).
Proof. intros; repeat split; auto. Qed.
Lemma ext_set_started : forall s v, ext s (set_started s v).
Proof. intros; repeat split; auto. Qed.

Lemma ext_emit : forall s e, okread (descs s) e -> ext s (emit s e).
Proof.
  intros s e He. repeat split; auto. simpl. intros e' [<-|H]; [right; exact He|left; exact H].
Qed.

Ltac dpt := let x := fresh in intros x; destruct x; reflexivity.

Lemma dp_reconnect : dp m_reconnect.
Proof. intros x. unfold m_reconnect. destruct (enable (md x)); reflexivity. Qed.

Lemma ext_apply_act : forall W a s, a <> AStop -> ext s (apply_act W a s).
Proof.
  intros W a s Ha. destruct a; simpl; try congruence.
  - destruct (_ && _).
    + eapply ext_trans; [apply ext_upd_mod|apply ext_set_ev]. intros x; reflexivity.
    + apply ext_upd_mod. intros x; reflexivity.
  - destruct (enable _); [|apply ext_refl].
    eapply ext_trans; [apply ext_upd_mod|apply ext_set_ev]. intros x; reflexivity.
  - destruct (enable _); [|apply ext_refl]. destruct immediate.
    + eapply ext_trans; [apply ext_upd_mod|apply ext_set_ev]. intros x; reflexivity.
    + apply ext_set_ev.
  - destruct (reconn W); [|apply ext_refl].
    eapply ext_trans; [|apply ext_set_ev].
    unfold ext, descs; simpl. rewrite map_map.
    rewrite (map_ext _ md) by (intros; apply dp_reconnect). repeat split; auto.
Qed.

(* an action (possibly the shutdown request) keeps everything but alive *)
Lemma apply_act_weak : forall W a s,
  descs (apply_act W a s) = descs s /\ crashed (apply_act W a s) = crashed s /\
  finished (apply_act W a s) = finished s /\ log (apply_act W a s) = log s /\ acts (apply_act W a s) = acts s.
Proof.
  intros W a s. destruct a; simpl.
  - destruct (_ && _); unfold descs; simpl; rewrite ?map_upd_nth by (intros x; reflexivity); auto.
  - destruct (enable _); unfold descs; simpl; rewrite ?map_upd_nth by (intros x; reflexivity); auto.
  - destruct (enable _); [destruct immediate|]; unfold descs; simpl;
      rewrite ?map_upd_nth by (intros x; reflexivity); auto.
  - destruct (reconn W); unfold descs; simpl; auto. rewrite map_map.
    rewrite (map_ext _ md) by (intros; apply dp_reconnect). auto.
  - auto.
Qed.

(* ext where the action list is replaced: used for the clock *)
Definition ext' (s s' : st) (l l' : list (Z * action)) : Prop :=
  descs s' = descs s /\ crashed s' = crashed s /\ finished s' = finished s /\ log s' = log s /\
  (nostop l -> nostop l' /\ alive s' = alive s).

Lemma fire_upto_ext : forall W l target s,
  let r := fire_upto W l target s in ext' s (fst r) l (snd r) /\ acts (fst r) = acts s.
Proof.
  intros W l target; induction l as [|[t a] l IH]; intros s; simpl.
  - unfold ext'. tauto.
  - destruct (t <=? target).
    + specialize (IH (apply_act W a s)). simpl in IH.
      destruct IH as ((D & C & F & L & N) & A).
      destruct (apply_act_weak W a s) as (D1 & C1 & F1 & L1 & A1).
      split; [|congruence].
      split; [congruence|]. split; [congruence|]. split; [congruence|]. split; [congruence|].
      intros H. assert (Ha : a <> AStop) by (intros ->; apply H; simpl; left; reflexivity).
      assert (Hl : nostop l) by (intros Hin; apply H; simpl; right; exact Hin).
      destruct (N Hl) as [Nl Al]. split; [exact Nl|]. rewrite Al.
      destruct a; simpl; try congruence;
        repeat match goal with |- context [if ?b then _ else _] => destruct b end; reflexivity.
    + simpl. unfold ext'. tauto.
Qed.

Lemma ext_sleep : forall W s d, ext s (sleep W s d).
Proof.
  intros W s d. unfold sleep.
  pose proof (fire_upto_ext W (acts s) (now s + d) s) as H. simpl in H.
  destruct (fire_upto W (acts s) (now s + d) s) as [s1 l]. simpl in H.
  destruct H as ((D & C & F & L & N) & A).
  split; [exact D|]. split; [exact C|]. split; [exact F|]. split.
  - intros H. simpl. apply N; exact H.
  - intros e He. left. simpl in He. rewrite <- L. exact He.
Qed.

Lemma ext_fire_due : forall W s, ext s (fire_due W s).
Proof. intros W s. apply ext_sleep. Qed.

Lemma ext_wait : forall W s t, ext s (wait W s t).
Proof.
  intros W s0 t. unfold wait.
  pose proof (ext_fire_due W s0) as Ef. remember (fire_due W s0) as s. clear Heqs.
  eapply ext_trans; [exact Ef|]. clear Ef s0.
  assert (E0 : ext s (emit s (LWait (now s) t))) by (apply ext_emit; exact I).
  remember (emit s (LWait (now s) t)) as s1.
  destruct (ev s1); [exact E0|].
  assert (As : acts s1 = acts s) by (subst; reflexivity).
  destruct (acts s1) as [|[t1 a] r] eqn:Ea.
  - eapply ext_trans; [exact E0|apply ext_set_now].
  - destruct (t1 <=? _).
    + eapply ext_trans; [exact E0|].
      set (s2 := set_acts (set_now s1 (Z.max (now s1) t1)) r).
      destruct (apply_act_weak W a s2) as (D1 & C1 & F1 & L1 & A1).
      split; [rewrite D1; reflexivity|]. split; [rewrite C1; reflexivity|]. split; [rewrite F1; reflexivity|]. split.
      * intros H. rewrite Ea in H. split.
        { rewrite A1. simpl. intros Hin. apply H. simpl. right; exact Hin. }
        assert (Ha : a <> AStop) by (intros ->; apply H; simpl; left; reflexivity).
        destruct a; simpl; try congruence;
          repeat match goal with |- context [if ?b then _ else _] => destruct b end; reflexivity.
      * intros e He. rewrite L1 in He. left. exact He.
    + eapply ext_trans; [exact E0|apply ext_set_now].
Qed.

Lemma ext_body : forall W s, ext s (fst (body W s)).
Proof.
  intros W s. unfold body. destruct (script W (ctr s)) as [d o]. simpl.
  eapply ext_trans; [apply ext_set_ctr|apply ext_sleep].
Qed.

Lemma ext_read_wrapped : forall W s m i, ext s (fst (read_wrapped W s m i)).
Proof.
  intros W s m i. unfold read_wrapped.
  pose proof (ext_body W s) as Hb. destruct (body W s) as [s1 o]. simpl in Hb.
  destruct o.
  - simpl. eapply ext_trans; [exact Hb|apply ext_upd_mod]. intros x; reflexivity.
  - destruct (same_err _ _ _); simpl; [exact Hb|].
    eapply ext_trans; [exact Hb|apply ext_upd_mod]. intros x; reflexivity.
Qed.

Lemma ext_poll_result : forall s m f r rc, ext s (fst (poll_result s m f r rc)).
Proof.
  intros s m f r rc. unfold poll_result. destruct r as [[[c k] [|]]|]; simpl;
    try apply ext_refl; apply ext_upd_mod; intros x; reflexivity.
Qed.

Lemma ext_call_read : forall W s m i rc, pok (descs s) m i -> ext s (fst (call_read W s m i rc)).
Proof.
  intros W s m i rc Hp. unfold call_read.
  assert (E0 : ext s (emit s (LRead (now s) m i))) by (apply ext_emit; exact Hp).
  pose proof (ext_read_wrapped W (emit s (LRead (now s) m i)) m i) as H1.
  destruct (read_wrapped W (emit s (LRead (now s) m i)) m i) as [s1 r]. simpl in H1.
  eapply ext_trans; [exact E0|]. eapply ext_trans; [exact H1|apply ext_poll_result].
Qed.

Lemma ext_main_reads : forall W m l s, mok (descs s) m -> ext s (fst (main_reads W s m l)).
Proof.
  intros W m l; induction l as [|i l IH]; intros s Hm; simpl; [apply ext_refl|].
  assert (E0 : ext s (emit s (LMRead (now s) m i))) by (apply ext_emit; exact Hm).
  pose proof (ext_read_wrapped W (emit s (LMRead (now s) m i)) m i) as H1.
  destruct (read_wrapped W (emit s (LMRead (now s) m i)) m i) as [s1 [e|]]; simpl in *.
  - eapply ext_trans; [exact E0|exact H1].
  - eapply ext_trans; [exact E0|]. eapply ext_trans; [exact H1|apply IH].
    destruct (ext_trans _ _ _ E0 H1) as (D & _). unfold mok. rewrite D. exact Hm.
Qed.

Lemma ext_call_main : forall W s m, mok (descs s) m -> ext s (call_main W s m).
Proof.
  intros W s m Hm. unfold call_main.
  assert (E0 : ext s (emit s (LMain (now s) m))) by (apply ext_emit; exact Hm).
  pose proof (ext_body W (emit s (LMain (now s) m))) as H1.
  destruct (body W (emit s (LMain (now s) m))) as [s1 o]. simpl in H1.
  destruct o.
  - assert (Hm1 : mok (descs s1) m).
    { destruct (ext_trans _ _ _ E0 H1) as (D & _). unfold mok. rewrite D. exact Hm. }
    pose proof (ext_main_reads W m (mainreads (md (get_mod s1 m))) s1 Hm1) as H2.
    destruct (main_reads W s1 m _) as [s2 r]. simpl in H2.
    eapply ext_trans; [exact E0|]. eapply ext_trans; [exact H1|].
    eapply ext_trans; [exact H2|apply ext_poll_result].
  - eapply ext_trans; [exact E0|]. eapply ext_trans; [exact H1|apply ext_poll_result].
Qed.

(* ------------------------------------------------------------ main loop *)
Lemma md_get_mod : forall s m, md (get_mod s m) = nth m (descs s) d0.
Proof. intros s m. unfold get_mod, descs, d0. rewrite map_nth. reflexivity. Qed.

(* doPoll is called for modules with enablePoll only: the due test is guarded by the existence of a PollInfo *)
Lemma ext_main_step : forall W s m, ext s (main_step W s m).
Proof.
  intros W s m. unfold main_step. destruct (negb (alive s)); [apply ext_refl|].
  destruct (_ && _) eqn:G; [|apply ext_refl].
  apply andb_true_iff in G. destruct G as [G _]. rewrite md_get_mod in G.
  assert (E1 : ext s (upd_mod s m (fun y => m_set_last_main y (new_last_main (now s) (interval y)))))
    by (apply ext_upd_mod; intros x; reflexivity).
  eapply ext_trans; [exact E1|apply ext_call_main].
  destruct E1 as (D & _). unfold mok. rewrite D. exact G.
Qed.

Lemma ext_fold_main : forall W l s, ext s (fold_left (main_step W) l s).
Proof.
  intros W l; induction l as [|m l IH]; intros s; simpl; [apply ext_refl|].
  eapply ext_trans; [apply ext_main_step|apply IH].
Qed.

Lemma ext_main_phase : forall W s, ext s (main_phase W s).
Proof. intros; apply ext_fold_main. Qed.

Lemma polled_in_flat : forall (g : mstate -> bool) ms k m i,
  (forall x, g x = true -> enable (md x) = true) ->
  In (m, i) (flat_map (fun im : nat * mstate => if g (snd im) then map (fun i => (fst im, i)) (polled_params (md (snd im))) else [])
                      (combine (seq k (length ms)) ms)) ->
  (k <= m)%nat /\ enable (nth (m - k) (map md ms) d0) = true /\ In i (polled_params (nth (m - k) (map md ms) d0)).
Proof.
  intros g ms; induction ms as [|x ms IH]; intros k m i Hg H; simpl in H; [contradiction|].
  apply in_app_or in H. destruct H as [H|H].
  - simpl in H. destruct (g x) eqn:G; [|contradiction].
    apply in_map_iff in H. destruct H as (j & Hj & Hin). inversion Hj; subst.
    rewrite Nat.sub_diag. simpl. split; [lia|]. split; [apply Hg; exact G|exact Hin].
  - destruct (IH (S k) m i Hg H) as (Hk & He & Hi).
    assert (E : (m - k)%nat = S (m - S k)) by lia. rewrite E. simpl. split; [lia|]. split; assumption.
Qed.

Lemma refill_list_pok : forall s m i, In (m, i) (refill_list s) -> pok (descs s) m i.
Proof.
  intros s m i H. unfold refill_list in H. destruct (alive s); [|contradiction].
  apply (polled_in_flat (slow_due (now s))) in H.
  - rewrite Nat.sub_0_r in H. destruct H as (_ & He & Hi). split; assumption.
  - intros x Hx. unfold slow_due in Hx. apply andb_true_iff in Hx. tauto.
Qed.

Lemma all_polled_pok : forall ms m i, In (m, i) (all_polled ms) -> pok (map md ms) m i.
Proof.
  intros ms m i H. unfold all_polled in H.
  apply (polled_in_flat (fun x => enable (md x))) in H.
  - rewrite Nat.sub_0_r in H. destruct H as (_ & He & Hi). split; assumption.
  - auto.
Qed.

Lemma scan_in : forall s l p rest, scan s l = Some (p, rest) -> In p l /\ incl rest l.
Proof.
  intros s l; induction l as [|[m i] l IH]; intros p rest H; simpl in H; [discriminate|].
  destruct (_ <? _).
  - inversion H; subst. split; [left; reflexivity|]. intros x Hx; right; exact Hx.
  - destruct (IH _ _ H) as [H1 H2]. split; [right; exact H1|]. intros x Hx; right; apply H2; exact Hx.
Qed.

Definition topoll_ok (s : st) : Prop :=
  forall m i, In (m, i) (match topoll s with Some l => l | None => [] end) -> pok (descs s) m i.

Lemma descs_refill : forall s, map md (refill_mods s) = map md (mods s).
Proof.
  intros s. unfold refill_mods. destruct (alive s); [|reflexivity].
  rewrite map_map. apply map_ext. intros x. destruct (slow_due _ _); reflexivity.
Qed.

Lemma ext_set_mods_refill : forall s, ext s (set_mods s (refill_mods s)).
Proof.
  intros s. unfold ext, descs; simpl. rewrite descs_refill. repeat split; auto.
Qed.

(* the iterator is not touched by driver calls *)
Lemma tp_apply_act : forall W a s, topoll (apply_act W a s) = topoll s.
Proof.
  intros W a s. destruct a; simpl;
    repeat match goal with |- context [if ?b then _ else _] => destruct b end; reflexivity.
Qed.

Lemma tp_fire_upto : forall W l tg s, topoll (fst (fire_upto W l tg s)) = topoll s.
Proof.
  intros W l tg; induction l as [|[t a] l IH]; intros s; simpl; [reflexivity|].
  destruct (t <=? tg); [|reflexivity]. rewrite IH. apply tp_apply_act.
Qed.

Lemma tp_sleep : forall W s d, topoll (sleep W s d) = topoll s.
Proof.
  intros W s d. unfold sleep. pose proof (tp_fire_upto W (acts s) (now s + d) s) as H.
  destruct (fire_upto _ _ _ _) as [s1 l]. simpl in *. exact H.
Qed.

Lemma tp_body : forall W s, topoll (fst (body W s)) = topoll s.
Proof.
  intros W s. unfold body. destruct (script W (ctr s)) as [d o]. simpl. rewrite tp_sleep. reflexivity.
Qed.

Lemma tp_read_wrapped : forall W s m i, topoll (fst (read_wrapped W s m i)) = topoll s.
Proof.
  intros W s m i. unfold read_wrapped. pose proof (tp_body W s) as H.
  destruct (body W s) as [s1 o]. simpl in H. destruct o; [exact H|].
  destruct (same_err _ _ _); exact H.
Qed.

Lemma tp_call_read : forall W s m i rc, topoll (fst (call_read W s m i rc)) = topoll s.
Proof.
  intros W s m i rc. unfold call_read.
  pose proof (tp_read_wrapped W (emit s (LRead (now s) m i)) m i) as H.
  destruct (read_wrapped _ _ _ _) as [s1 r]. simpl in H.
  unfold poll_result. destruct r as [[[c k] [|]]|]; simpl; exact H.
Qed.

Lemma slow_loop_ok : forall W k s, topoll_ok s ->
  ext s (slow_loop W k s) /\ topoll_ok (slow_loop W k s).
Proof.
  intros W k; induction k as [|k IH]; intros s Ht; simpl; [split; [apply ext_refl|exact Ht]|].
  destruct (scan s _) as [[[m i] rest]|] eqn:Sc.
  - apply scan_in in Sc. destruct Sc as [Hin Hrest].
    assert (Hp : pok (descs (set_topoll s (Some rest))) m i) by (apply Ht; exact Hin).
    pose proof (ext_call_read W (set_topoll s (Some rest)) m i false Hp) as E.
    split.
    + eapply ext_trans; [apply ext_set_topoll|exact E].
    + unfold topoll_ok. rewrite tp_call_read. simpl. intros m' i' H'.
      destruct E as (D & _). rewrite D. apply Ht. apply Hrest. exact H'.
  - assert (E1 : ext s (set_mods s (refill_mods s))) by apply ext_set_mods_refill.
    destruct (refill_list s) as [|p l] eqn:R.
    + split; [eapply ext_trans; [exact E1|apply ext_set_topoll]|].
      unfold topoll_ok; simpl. intros m i [].
    + assert (Ht2 : topoll_ok (set_topoll (set_mods s (refill_mods s)) (Some (p :: l)))).
      { unfold topoll_ok; simpl. intros m i H'. unfold descs; simpl. rewrite descs_refill.
        apply refill_list_pok. rewrite R. exact H'. }
      destruct (IH _ Ht2) as [E2 T2]. split; [|exact T2].
      eapply ext_trans; [exact E1|]. eapply ext_trans; [apply ext_set_topoll|exact E2].
Qed.

Lemma tp_poll_result : forall s m f r rc, topoll (fst (poll_result s m f r rc)) = topoll s.
Proof. intros. unfold poll_result. destruct r as [[[c k] [|]]|]; reflexivity. Qed.

Lemma tp_main_reads : forall W m l s, topoll (fst (main_reads W s m l)) = topoll s.
Proof.
  intros W m l; induction l as [|i l IH]; intros s; simpl; [reflexivity|].
  pose proof (tp_read_wrapped W (emit s (LMRead (now s) m i)) m i) as H.
  destruct (read_wrapped _ _ _ _) as [s1 [e|]]; simpl in *; [exact H|]. rewrite IH. exact H.
Qed.

Lemma tp_call_main : forall W s m, topoll (call_main W s m) = topoll s.
Proof.
  intros W s m. unfold call_main.
  pose proof (tp_body W (emit s (LMain (now s) m))) as H.
  destruct (body _ _) as [s1 o]. simpl in H. destruct o.
  - pose proof (tp_main_reads W m (mainreads (md (get_mod s1 m))) s1) as H2.
    destruct (main_reads _ _ _ _) as [s2 r]. simpl in H2. rewrite tp_poll_result. congruence.
  - rewrite tp_poll_result. exact H.
Qed.

Lemma tp_main_phase : forall W s, topoll (main_phase W s) = topoll s.
Proof.
  intros W s. unfold main_phase. generalize (seq 0 (length (mods s))). intros l; revert s.
  induction l as [|m l IH]; intros s; simpl; [reflexivity|]. rewrite IH.
  unfold main_step. destruct (negb (alive s)); [reflexivity|]. destruct (_ && _); [|reflexivity].
  rewrite tp_call_main. reflexivity.
Qed.

Lemma tp_fire_due : forall W s, topoll (fire_due W s) = topoll s.
Proof. intros W s. apply tp_sleep. Qed.

Lemma tp_wait : forall W s t, topoll (wait W s t) = topoll s.
Proof.
  intros W s t. unfold wait. rewrite <- (tp_fire_due W s). generalize (fire_due W s). clear s. intros s.
  destruct (ev _); [reflexivity|].
  destruct (acts _) as [|[t1 a] r]; [reflexivity|]. destruct (_ <=? _); [|reflexivity].
  rewrite tp_apply_act. reflexivity.
Qed.

(* ------------------------------------------------------------ one turn *)
Definition inv (s : st) : Prop := topoll_ok s.

Lemma turn_ok : forall W s, topoll_ok s ->
  topoll_ok (turn W s) /\ descs (turn W s) = descs s /\ crashed (turn W s) = crashed s /\
  (nostop (acts s) -> nostop (acts (turn W s)) /\ alive (turn W s) = alive s) /\
  (forall e, In e (log (turn W s)) -> In e (log s) \/ okread (descs s) e) /\
  (finished (turn W s) = true -> finished s = true \/ alive s = false).
Proof.
  intros W s Ht. unfold turn.
  destruct (finished s) eqn:Fs; [tauto|].
  destruct (negb (alive s)) eqn:Al.
  { apply negb_true_iff in Al. simpl. tauto. }
  set (s1 := emit (set_now s (now s + eps W)) (LTurn (now (set_now s (now s + eps W))))).
  assert (E1 : ext s s1).
  { eapply ext_trans; [apply ext_set_now|apply ext_emit; exact I]. }
  assert (T1 : topoll_ok s1) by exact Ht.
  assert (G : forall s2, ext s1 s2 -> topoll_ok s2 ->
     topoll_ok s2 /\ descs s2 = descs s /\ crashed s2 = crashed s /\
     (nostop (acts s) -> nostop (acts s2) /\ alive s2 = alive s) /\
     (forall e, In e (log s2) -> In e (log s) \/ okread (descs s) e) /\
     (finished s2 = true -> false = true \/ alive s = false)).
  { intros s2 E2 T2. pose proof (ext_trans _ _ _ E1 E2) as (D & C & F & N & L).
    split; [exact T2|]. split; [exact D|]. split; [exact C|]. split; [exact N|]. split; [exact L|].
    intros H. rewrite F, Fs in H. discriminate. }
  destruct (_ && _).
  - apply G.
    + eapply ext_trans; [apply ext_wait|]. eapply ext_trans; [apply ext_fire_due|apply ext_set_ev].
    + unfold topoll_ok. simpl. rewrite tp_fire_due, tp_wait.
      pose proof (ext_trans _ _ _ (ext_wait W s1 (wait_time (mods s1) (now s1))) (ext_fire_due W _)) as (D & _).
      unfold descs in *. simpl in *. rewrite D. exact T1.
  - assert (T2 : topoll_ok (main_phase W s1)).
    { unfold topoll_ok. rewrite tp_main_phase. destruct (ext_main_phase W s1) as (D & _). rewrite D. exact T1. }
    destruct (slow_loop_ok W 3 _ T2) as [E3 T3].
    apply G; [|exact T3]. eapply ext_trans; [apply ext_main_phase|exact E3].
Qed.

(* ------------------------------------------------------------ start-up *)
Definition ph_st (p : phase) : st := match p with PGo s | PCom s | PCrash s => s end.
Definition is_crash (p : phase) : bool := match p with PCrash _ => true | _ => false end.

Lemma init_module_ok : forall W s m,
  let p := init_module W s m in
  ext s (ph_st p) /\ topoll (ph_st p) = topoll s /\ is_crash p = false.
Proof.
  intros W s m. unfold init_module. destruct (negb (alive s)).
  { simpl. split; [apply ext_refl|]. split; reflexivity. }
  rewrite md_get_mod. set (d := nth m (descs s) d0).
  set (s1 := if winit d then fst (body W (emit s (LWinit (now s) m))) else s).
  assert (E1 : ext s s1 /\ topoll s1 = topoll s).
  { unfold s1. destruct (winit d); [|split; [apply ext_refl|reflexivity]]. split.
    - eapply ext_trans; [apply (ext_emit s (LWinit (now s) m)); exact I|apply ext_body].
    - rewrite tp_body. reflexivity. }
  destruct E1 as [E1 T1].
  destruct (iread d) eqn:Ir.
  - pose proof (ext_body W (emit s1 (LIread (now s1) m))) as E2.
    pose proof (tp_body W (emit s1 (LIread (now s1) m))) as T2.
    destruct (body W (emit s1 (LIread (now s1) m))) as [s2 o]. simpl in E2, T2.
    assert (E3 : ext s s2).
    { eapply ext_trans; [exact E1|]. eapply ext_trans; [apply (ext_emit s1 (LIread (now s1) m)); exact I|exact E2]. }
    assert (T3 : topoll s2 = topoll s) by (rewrite T2; exact T1).
    (* the containment of other exceptions is the generated fact initialreads_contained = true *)
    destruct o as [|c k]; [|destruct (is_comm c); [|unfold initialreads_contained]]; simpl; auto.
  - simpl. split; [exact E1|]. split; [exact T1|reflexivity].
Qed.

Lemma init_modules_ok : forall W l s,
  let p := init_modules W s l in
  ext s (ph_st p) /\ topoll (ph_st p) = topoll s /\ is_crash p = false.
Proof.
  intros W l; induction l as [|m l IH]; intros s; simpl.
  { split; [apply ext_refl|]. split; reflexivity. }
  pose proof (init_module_ok W s m) as H. simpl in H.
  destruct (init_module W s m) as [s1|s1|s1]; simpl in H; destruct H as (E & T & C).
  - specialize (IH s1). simpl in IH. destruct IH as (E2 & T2 & C2).
    split; [eapply ext_trans; eassumption|]. split; [congruence|exact C2].
  - simpl. split; [exact E|]. split; [exact T|reflexivity].
  - discriminate C.
Qed.

Lemma first_reads_ok : forall W l s, (forall m i, In (m, i) l -> pok (descs s) m i) ->
  let p := first_reads W s l in
  ext s (ph_st p) /\ topoll (ph_st p) = topoll s /\ is_crash p = false.
Proof.
  intros W l; induction l as [|[m i] l IH]; intros s Hl; simpl.
  { split; [apply ext_refl|]. split; reflexivity. }
  pose proof (ext_call_read W s m i true (Hl m i (or_introl eq_refl))) as E.
  pose proof (tp_call_read W s m i true) as T.
  destruct (call_read W s m i true) as [s1 raised]. simpl in E, T.
  destruct raised; simpl.
  - split; [exact E|]. split; [exact T|reflexivity].
  - assert (Hl1 : forall m' i', In (m', i') l -> pok (descs s1) m' i').
    { intros m' i' H'. destruct E as (D & _). rewrite D. apply Hl. right; exact H'. }
    specialize (IH s1 Hl1). simpl in IH. destruct IH as (E2 & T2 & C2).
    split; [eapply ext_trans; eassumption|]. split; [congruence|exact C2].
Qed.

Lemma ext_call_started : forall s, ext s (call_started s) /\ topoll (call_started s) = topoll s.
Proof.
  intros s. unfold call_started. destruct (started s); [split; [apply ext_refl|reflexivity]|].
  split; [|reflexivity]. eapply ext_trans; [apply (ext_emit s (LStarted (now s))); exact I|apply ext_set_started].
Qed.

Lemma startup_ok : forall W s,
  let s' := startup W s in
  descs s' = descs s /\ topoll s' = topoll s /\
  (nostop (acts s) -> nostop (acts s') /\ alive s' = alive s) /\
  (forall e, In e (log s') -> In e (log s) \/ okread (descs s) e) /\
  (crashed s' = true -> crashed s = true) /\
  (finished s' = true -> finished s = true \/ crashed s' = true \/
                         existsb enable (descs s) = false).
Proof.
  intros W s. unfold startup.
  pose proof (init_modules_ok W (seq 0 (length (mods s))) s) as H1. simpl in H1.
  set (ph := match init_modules W s (seq 0 (length (mods s))) with
             | PGo s1 => first_reads W s1 (all_polled (mods s1)) | other => other end).
  assert (H2 : ext s (ph_st ph) /\ topoll (ph_st ph) = topoll s /\ is_crash ph = false).
  { unfold ph. destruct (init_modules W s (seq 0 (length (mods s)))) as [s1|s1|s1]; simpl in H1; try exact H1.
    destruct H1 as (E & T & _).
    pose proof (first_reads_ok W (all_polled (mods s1)) s1 (all_polled_pok (mods s1))) as H3. simpl in H3.
    destruct H3 as (E3 & T3 & C3).
    split; [eapply ext_trans; eassumption|]. split; [congruence|exact C3]. }
  clearbody ph. clear H1. destruct H2 as (E & T & C).
  assert (G : forall s1 s3, ext s s1 -> topoll s1 = topoll s -> ext s1 s3 -> topoll s3 = topoll s1 ->
     let s' := if existsb (fun x => enable (md x)) (mods s3) then s3 else set_finished s3 true in
     descs s' = descs s /\ topoll s' = topoll s /\
     (nostop (acts s) -> nostop (acts s') /\ alive s' = alive s) /\
     (forall e, In e (log s') -> In e (log s) \/ okread (descs s) e) /\
     (crashed s' = true -> crashed s = true) /\
     (finished s' = true -> finished s = true \/ crashed s' = true \/ existsb enable (descs s) = false)).
  { intros s1 s3 E1 T1 E3 T3. pose proof (ext_trans _ _ _ E1 E3) as (D & Cr & F & N & L).
    assert (Ex : existsb (fun x => enable (md x)) (mods s3) = existsb enable (descs s)).
    { rewrite <- D. unfold descs. clear. induction (mods s3) as [|x l IH]; simpl; [reflexivity|]. rewrite IH; reflexivity. }
    rewrite Ex. destruct (existsb enable (descs s)) eqn:Een; simpl.
    - split; [exact D|]. split; [congruence|]. split; [exact N|]. split; [exact L|].
      split; [intros H; congruence|]. intros H. left; congruence.
    - split; [exact D|]. split; [congruence|]. split; [exact N|]. split; [exact L|].
      split; [intros H; congruence|]. intros _. right; right; reflexivity. }
  destruct ph as [s1|s1|s1]; simpl in E, T, C.
  - destruct (ext_call_started s1) as [E2 T2]. apply (G s1 _ E T E2 T2).
  - destruct (ext_call_started s1) as [E2 T2].
    pose proof (ext_wait W (call_started s1) startup_wait_ticks) as E3.
    pose proof (tp_wait W (call_started s1) startup_wait_ticks) as T3.
    destruct (ext_call_started (wait W (call_started s1) startup_wait_ticks)) as [E4 T4].
    apply (G s1 _ E T).
    + eapply ext_trans; [exact E2|]. eapply ext_trans; [exact E3|exact E4].
    + congruence.
  - discriminate C.
Qed.

(* ------------------------------------------------------------ whole runs *)
Lemma turns_ok : forall W n s, topoll_ok s ->
  let s' := turns W n s in
  topoll_ok s' /\ descs s' = descs s /\ crashed s' = crashed s /\
  (nostop (acts s) -> nostop (acts s') /\ alive s' = alive s) /\
  (forall e, In e (log s') -> In e (log s) \/ okread (descs s) e).
Proof.
  intros W n; induction n as [|n IH]; intros s Ht; simpl.
  { split; [exact Ht|]. split; [reflexivity|]. split; [reflexivity|]. split; [tauto|]. intros e H; left; exact H. }
  destruct (turn_ok W s Ht) as (T1 & D1 & C1 & N1 & L1 & _).
  specialize (IH (turn W s) T1). simpl in IH. destruct IH as (T2 & D2 & C2 & N2 & L2).
  split; [exact T2|]. split; [congruence|]. split; [congruence|]. split.
  - intros H. destruct (N1 H) as [H1 A1]. destruct (N2 H1) as [H2 A2]. split; [exact H2|congruence].
  - intros e He. destruct (L2 e He) as [H|H]; [apply L1; exact H|]. right. rewrite <- D1. exact H.
Qed.

Lemma descs_init : forall t0 ds a, descs (init_state t0 ds a) = map fst ds.
Proof. intros. unfold descs, init_state; simpl. rewrite map_map. apply map_ext. intros [d p]; reflexivity. Qed.

(* what the poller adds to the log in any run is permitted by the descriptors *)
Lemma log_only_permitted : forall W n t0 ds a e,
  In e (log (run W n (init_state t0 ds a))) -> okread (map fst ds) e.
Proof.
  intros W n t0 ds a e H. unfold run in H.
  set (s0 := init_state t0 ds a) in *.
  destruct (startup_ok W s0) as (D0 & T0 & _ & L0 & _).
  assert (Ht : topoll_ok (startup W s0)).
  { unfold topoll_ok. rewrite T0. simpl. intros m' i' []. }
  destruct (turns_ok W n _ Ht) as (_ & _ & _ & _ & L1).
  rewrite <- descs_init with (t0 := t0) (a := a). fold s0.
  destruct (L1 _ H) as [H1|H1].
  - destruct (L0 _ H1) as [H2|H2]; [simpl in H2; contradiction|exact H2].
  - rewrite D0 in H1. exact H1.
Qed.

(* doPoll - and with it the reads made inside doPoll - is only ever called for modules with enablePoll *)
Lemma mains_only_enabled : forall W n t0 ds a t m,
  In (LMain t m) (log (run W n (init_state t0 ds a))) \/
  (exists i, In (LMRead t m i) (log (run W n (init_state t0 ds a)))) ->
  mok (map fst ds) m.
Proof.
  intros W n t0 ds a t m [H|[i H]]; exact (log_only_permitted W n t0 ds a _ H).
Qed.

(* only polled parameters are ever read by the poller *)
Lemma reads_only_polled : forall W n t0 ds a t m i,
  In (LRead t m i) (log (run W n (init_state t0 ds a))) -> pok (map fst ds) m i.
Proof.
  intros W n t0 ds a t m i H. unfold run in H.
  set (s0 := init_state t0 ds a) in *.
  destruct (startup_ok W s0) as (D0 & T0 & _ & L0 & _).
  assert (Ht : topoll_ok (startup W s0)).
  { unfold topoll_ok. rewrite T0. simpl. intros m' i' []. }
  destruct (turns_ok W n _ Ht) as (_ & _ & _ & _ & L1).
  rewrite <- descs_init with (t0 := t0) (a := a). fold s0.
  destruct (L1 _ H) as [H1|H1].
  - destruct (L0 _ H1) as [H2|H2]; [simpl in H2; contradiction|exact H2].
  - rewrite D0 in H1. exact H1.
Qed.

Lemma polled_params_spec : forall d i, In i (polled_params d) ->
  exists p, nth_error (params d) i = Some p /\ is_polled p = true.
Proof.
  intros d i H. unfold polled_params in H. apply in_map_iff in H. destruct H as ([j p] & Hj & Hin).
  simpl in Hj; subst j. apply filter_In in Hin. destruct Hin as [Hin Hp]. simpl in Hp.
  exists p. split; [|exact Hp].
  assert (G : forall (l : list pdesc) k, In (i, p) (combine (seq k (length l)) l) -> (k <= i)%nat /\ nth_error l (i - k) = Some p).
  { clear. intros l; induction l as [|x l IH]; intros k H; simpl in H; [contradiction|].
    destruct H as [H|H].
    - inversion H; subst. rewrite Nat.sub_diag. split; [lia|reflexivity].
    - destruct (IH _ H) as [H1 H2]. split; [lia|]. replace (i - k)%nat with (S (i - S k)) by lia. exact H2. }
  destruct (G _ _ Hin) as [_ H2]. rewrite Nat.sub_0_r in H2. exact H2.
Qed.

(* what the source facts make of the poll flag *)
Lemma is_polled_spec : forall p, is_polled p = true ->
  pnopoll p = false /\ pk p <> KNone /\ pk p <> KCommonRest.
Proof.
  intros [k np]. unfold is_polled; simpl. destruct k, np; vm_compute; intros H; try discriminate H;
    (split; [reflexivity|split; discriminate]).
Qed.

(* the thread ends only by a requested shutdown *)
Lemma survives : forall W n t0 ds a,
  let s := run W n (init_state t0 ds a) in
  crashed s = false /\
  (finished s = true -> alive s = false \/ existsb enable (map fst ds) = false) /\
  (nostop a -> alive s = true).
Proof.
  intros W n t0 ds a. unfold run. set (s0 := init_state t0 ds a).
  destruct (startup_ok W s0) as (D0 & T0 & N0 & L0 & C0 & F0).
  assert (Ht : topoll_ok (startup W s0)).
  { unfold topoll_ok. rewrite T0. simpl. intros m' i' []. }
  assert (Cr : crashed (startup W s0) = false).
  { destruct (crashed (startup W s0)) eqn:E; [|reflexivity]. discriminate (C0 eq_refl). }
  simpl. split; [|split].
  - destruct (turns_ok W n _ Ht) as (_ & _ & C1 & _). simpl in C1. congruence.
  - (* finished only when not alive *)
    assert (G : forall k s, topoll_ok s -> (finished s = true -> alive s = false \/ existsb enable (map fst ds) = false) ->
              finished (turns W k s) = true -> alive (turns W k s) = false \/ existsb enable (map fst ds) = false).
    { intros k; induction k as [|k IH]; intros s Hts Hs; simpl; [exact Hs|].
      destruct (turn_ok W s Hts) as (T1 & _ & _ & _ & _ & F1).
      apply IH; [exact T1|]. intros Hf.
      unfold turn in *. destruct (finished s) eqn:Fs; [apply Hs; reflexivity|].
      destruct (negb (alive s)) eqn:Al; [apply negb_true_iff in Al; left; simpl; exact Al|].
      destruct (F1 Hf) as [H|H]; [discriminate H|]. rewrite H in Al. discriminate Al. }
    apply G; [exact Ht|]. intros Hf. destruct (F0 Hf) as [H|[H|H]].
    + discriminate H.
    + congruence.
    + right. unfold s0 in H. rewrite descs_init in H. exact H.
  - intros Hn. destruct (N0 Hn) as [N1 A1].
    destruct (turns_ok W n _ Ht) as (_ & _ & _ & N2 & _). destruct (N2 N1) as [_ A2]. simpl in A2. rewrite A2, A1. reflexivity.
Qed.
