(* C13 - executable model of the poll thread of frappy/modulebase.py
   (Module.__pollThread, Module.callPollFunc, PollInfo.trigger/update_interval, Module.setFastPoll,
   the poll flags given to read wrappers by HasAccessibles / ReadHandler / CommonReadHandler / nopoll)
   over virtual time.  1 time unit = 1 tick = 2^-10 s.  No proofs in this file. *)
From Coq Require Import List Arith ZArith Bool.
Import ListNotations.
Require Import FV.Gen.C13.
Local Open Scope Z_scope.

(* ---------------------------------------------------------------- static description *)
(* outcome of one scripted driver call: ok, or an exception of class cls with message number k.
   cls: 1 SECoP error, 2 silent error (frappy.io SilentError = SilentCommunicationFailedError, a subclass of
   CommunicationFailedError), 3 any other Exception, 4 CommunicationFailedError *)
Inductive outcome := OOk | OErr (cls k : nat).
Definition is_comm (c : nat) : bool := Nat.eqb c 4 || Nat.eqb c 2.

(* how the read function of a parameter is defined *)
Inductive pkind := KNone | KRead | KHandler | KCommonFirst | KCommonRest.
Record pdesc := { pk : pkind; pnopoll : bool }.

(* the poll attribute the wrapped read function ends up with (facts from Gen.C13) *)
Definition is_polled (p : pdesc) : bool :=
  match pk p with
  | KNone => poll_without_read_func
  | KRead => if pnopoll p then nopoll_value else poll_default_read
  | KHandler => if pnopoll p then nopoll_value else poll_default_handler
  | KCommonFirst => if pnopoll p then nopoll_value else poll_default_handler
  | KCommonRest => poll_common_rest
  end.

Record mdesc := {
  enable : bool;            (* enablePoll *)
  si : Z;                   (* slowinterval *)
  winit : bool;             (* a configured value is written at start-up *)
  iread : bool;             (* initialReads is overridden *)
  mainreads : list nat;     (* parameters read by doPoll *)
  params : list pdesc;
}.

(* run-time actions of other threads *)
Inductive action :=
| ASetInt (m : nat) (v : Z)                   (* the parameter pollinterval of module m is changed *)
| AFast (m : nat) (flag : bool) (fi : Z)      (* setFastPoll(flag, fi) *)
| ATrig (m : nat) (immediate : bool)          (* pollInfo.trigger(immediate) *)
| AReconn                                     (* the reconnect callback registered by the thread *)
| AStop.                                      (* stopPollThread *)

Record world := {
  script : nat -> Z * outcome;   (* duration and outcome of the n-th driver call *)
  eps : Z;                       (* time charged per loop turn *)
  reconn : bool;                 (* the thread owner supports reconnect callbacks *)
}.

(* ---------------------------------------------------------------- state *)
Record pstate := { ts : Z; rerr : option (nat * nat) }.

Record mstate := {
  md : mdesc;
  mpi : Z;                  (* the module's pollinterval *)
  interval : Z;             (* PollInfo.interval *)
  last_main : Z;
  last_slow : Z;
  fast : bool;
  pending : list nat;       (* pending_errors: 0 = doPoll, S i = read function of parameter i *)
  ps : list pstate;
}.

Inductive levent :=
| LTurn (t : Z)
| LWait (t timeout : Z)
| LMain (t : Z) (m : nat)               (* doPoll of module m started *)
| LRead (t : Z) (m i : nat)             (* read function called by the poller *)
| LMRead (t : Z) (m i : nat)            (* read function called from within doPoll *)
| LWinit (t : Z) (m : nat)
| LIread (t : Z) (m : nat)
| LStarted (t : Z).

Record st := {
  now : Z;
  ev : bool;                            (* trigger event is set *)
  alive : bool;                         (* the modules list was not cleared *)
  mods : list mstate;
  topoll : option (list (nat * nat));   (* None: empty tuple or list, Some: an iterator *)
  acts : list (Z * action);             (* scheduled actions, by time *)
  ctr : nat;                            (* driver calls made so far *)
  log : list levent;                    (* newest first *)
  started : bool;                       (* started_callback pending = false *)
  crashed : bool;                       (* an exception left the thread body *)
  finished : bool;                      (* the thread body returned or crashed *)
}.

Definition set_now s v := {| now := v; ev := ev s; alive := alive s; mods := mods s; topoll := topoll s; acts := acts s;
  ctr := ctr s; log := log s; started := started s; crashed := crashed s; finished := finished s |}.
Definition set_ev s v := {| now := now s; ev := v; alive := alive s; mods := mods s; topoll := topoll s; acts := acts s;
  ctr := ctr s; log := log s; started := started s; crashed := crashed s; finished := finished s |}.
Definition set_alive s v := {| now := now s; ev := ev s; alive := v; mods := mods s; topoll := topoll s; acts := acts s;
  ctr := ctr s; log := log s; started := started s; crashed := crashed s; finished := finished s |}.
Definition set_mods s v := {| now := now s; ev := ev s; alive := alive s; mods := v; topoll := topoll s; acts := acts s;
  ctr := ctr s; log := log s; started := started s; crashed := crashed s; finished := finished s |}.
Definition set_topoll s v := {| now := now s; ev := ev s; alive := alive s; mods := mods s; topoll := v; acts := acts s;
  ctr := ctr s; log := log s; started := started s; crashed := crashed s; finished := finished s |}.
Definition set_acts s v := {| now := now s; ev := ev s; alive := alive s; mods := mods s; topoll := topoll s; acts := v;
  ctr := ctr s; log := log s; started := started s; crashed := crashed s; finished := finished s |}.
Definition set_ctr s v := {| now := now s; ev := ev s; alive := alive s; mods := mods s; topoll := topoll s; acts := acts s;
  ctr := v; log := log s; started := started s; crashed := crashed s; finished := finished s |}.
Definition emit s e := {| now := now s; ev := ev s; alive := alive s; mods := mods s; topoll := topoll s; acts := acts s;
  ctr := ctr s; log := e :: log s; started := started s; crashed := crashed s; finished := finished s |}.
Definition set_started s v := {| now := now s; ev := ev s; alive := alive s; mods := mods s; topoll := topoll s; acts := acts s;
  ctr := ctr s; log := log s; started := v; crashed := crashed s; finished := finished s |}.
Definition set_crashed s v := {| now := now s; ev := ev s; alive := alive s; mods := mods s; topoll := topoll s; acts := acts s;
  ctr := ctr s; log := log s; started := started s; crashed := v; finished := finished s |}.
Definition set_finished s v := {| now := now s; ev := ev s; alive := alive s; mods := mods s; topoll := topoll s; acts := acts s;
  ctr := ctr s; log := log s; started := started s; crashed := crashed s; finished := v |}.

Definition m_set_mpi m v := {| md := md m; mpi := v; interval := interval m; last_main := last_main m;
  last_slow := last_slow m; fast := fast m; pending := pending m; ps := ps m |}.
Definition m_set_interval m v := {| md := md m; mpi := mpi m; interval := v; last_main := last_main m;
  last_slow := last_slow m; fast := fast m; pending := pending m; ps := ps m |}.
Definition m_set_last_main m v := {| md := md m; mpi := mpi m; interval := interval m; last_main := v;
  last_slow := last_slow m; fast := fast m; pending := pending m; ps := ps m |}.
Definition m_set_last_slow m v := {| md := md m; mpi := mpi m; interval := interval m; last_main := last_main m;
  last_slow := v; fast := fast m; pending := pending m; ps := ps m |}.
Definition m_set_fast m v := {| md := md m; mpi := mpi m; interval := interval m; last_main := last_main m;
  last_slow := last_slow m; fast := v; pending := pending m; ps := ps m |}.
Definition m_set_pending m v := {| md := md m; mpi := mpi m; interval := interval m; last_main := last_main m;
  last_slow := last_slow m; fast := fast m; pending := v; ps := ps m |}.
Definition m_set_ps m v := {| md := md m; mpi := mpi m; interval := interval m; last_main := last_main m;
  last_slow := last_slow m; fast := fast m; pending := pending m; ps := v |}.

Fixpoint upd_nth {A} (n : nat) (f : A -> A) (l : list A) : list A :=
  match l, n with
  | [], _ => []
  | x :: r, O => f x :: r
  | x :: r, S n' => x :: upd_nth n' f r
  end.

Definition upd_mod (s : st) (m : nat) (f : mstate -> mstate) : st := set_mods s (upd_nth m f (mods s)).

Definition m0 : mstate :=
  {| md := {| enable := false; si := 1; winit := false; iread := false; mainreads := []; params := [] |};
     mpi := 0; interval := 0; last_main := 0; last_slow := 0; fast := false; pending := []; ps := [] |}.
Definition p0 : pstate := {| ts := 0; rerr := None |}.
Definition get_mod (s : st) (m : nat) : mstate := nth m (mods s) m0.
Definition get_ps (ms : mstate) (i : nat) : pstate := nth i (ps ms) p0.

(* ---------------------------------------------------------------- actions, clock, event *)
Definition m_reconnect (m : mstate) : mstate :=
  if enable (md m) then m_set_last_slow (m_set_last_main m 0) 0 else m.

Definition apply_act (W : world) (a : action) (s : st) : st :=
  match a with
  | ASetInt m v =>
      let ms := get_mod s m in
      if enable (md ms) && negb (fast ms)
      then set_ev (upd_mod s m (fun x => m_set_interval (m_set_mpi x v) v)) true     (* update_interval: trigger *)
      else upd_mod s m (fun x => m_set_mpi x v)
  | AFast m flag fi =>
      let ms := get_mod s m in
      if enable (md ms)
      then set_ev (upd_mod s m (fun x => m_set_interval (m_set_fast x flag) (if flag then fi else mpi x))) true
      else s
  | ATrig m imm =>
      let ms := get_mod s m in
      if enable (md ms)
      then set_ev (if imm then upd_mod s m (fun x => m_set_last_main x 0) else s) true
      else s
  | AReconn => if reconn W then set_ev (set_mods s (map m_reconnect (mods s))) true else s
  | AStop => set_ev (set_alive s false) true
  end.

(* all actions scheduled up to the target time happen *)
Fixpoint fire_upto (W : world) (l : list (Z * action)) (target : Z) (s : st) : st * list (Z * action) :=
  match l with
  | [] => (s, [])
  | (t, a) :: r => if t <=? target then fire_upto W r target (apply_act W a s) else (s, l)
  end.

Definition sleep (W : world) (s : st) (d : Z) : st :=
  let target := now s + d in
  let '(s1, l) := fire_upto W (acts s) target s in
  set_acts (set_now s1 target) l.

(* requests of other threads that are due (scheduled time <= clock) but did not run yet are executed when the
   poll thread enters a method of the trigger event (wait, clear): another thread runs between two statements of
   the poll thread *)
Definition fire_due (W : world) (s : st) : st := sleep W s 0.

(* Event.wait(timeout): due requests run first; returns at once when set, at the first action, or at the time-out *)
Definition wait (W : world) (s : st) (timeout : Z) : st :=
  let s := fire_due W s in
  let s := emit s (LWait (now s) timeout) in
  if ev s then s else
  let target := now s + Z.max 0 timeout in
  match acts s with
  | (t, a) :: r => if t <=? target then apply_act W a (set_acts (set_now s (Z.max (now s) t)) r)
                   else set_now s target
  | [] => set_now s target
  end.

(* ---------------------------------------------------------------- driver calls *)
Definition add_pending (f : nat) (l : list nat) : list nat := if existsb (Nat.eqb f) l then l else f :: l.
Definition del_pending (f : nat) (l : list nat) : list nat := filter (fun x => negb (Nat.eqb f x)) l.

(* result of a call as seen by callPollFunc: None ok, Some (cls, k, report_error) *)
Definition cres := option (nat * nat * bool).

(* scripted body: duration passes, actions fire *)
Definition body (W : world) (s : st) : st * outcome :=
  let '(d, o) := script W (ctr s) in
  (sleep W (set_ctr s (S (ctr s))) d, o).

Definition same_err (a : option (nat * nat)) (c k : nat) : bool :=
  match a with Some (c', k') => Nat.eqb c c' && Nat.eqb k k' | None => false end.

(* the wrapped read function: body, then announceUpdate (time stamp, readerror, report_error) *)
Definition read_wrapped (W : world) (s : st) (m i : nat) : st * cres :=
  let '(s1, o) := body W s in
  let p := get_ps (get_mod s1 m) i in
  match o with
  | OOk => (upd_mod s1 m (fun x => m_set_ps x (upd_nth i (fun _ => {| ts := now s1; rerr := None |}) (ps x))), None)
  | OErr c k =>
      if same_err (rerr p) c k then (s1, Some (c, k, false))       (* repeated error: no update, report_error = False *)
      else (upd_mod s1 m (fun x => m_set_ps x (upd_nth i (fun _ => {| ts := now s1; rerr := Some (c, k) |}) (ps x))),
            Some (c, k, true))
  end.

(* callPollFunc bookkeeping for function f of module m; result: the exception is re-raised *)
Definition poll_result (s : st) (m f : nat) (r : cres) (raise_com : bool) : st * bool :=
  match r with
  | None => (upd_mod s m (fun x => m_set_pending x (del_pending f (pending x))), false)
  | Some (c, k, true) =>
      (upd_mod s m (fun x => m_set_pending x (add_pending f (pending x))), raise_com && is_comm c)
  | Some (_, _, false) => (s, false)
  end.

(* callPollFunc(read_<i>) *)
Definition call_read (W : world) (s : st) (m i : nat) (raise_com : bool) : st * bool :=
  let s0 := emit s (LRead (now s) m i) in
  let '(s1, r) := read_wrapped W s0 m i in
  poll_result s1 m (S i) r raise_com.

(* the reads made by doPoll, until the first one fails *)
Fixpoint main_reads (W : world) (s : st) (m : nat) (l : list nat) : st * cres :=
  match l with
  | [] => (s, None)
  | i :: r =>
      let '(s1, res) := read_wrapped W (emit s (LMRead (now s) m i)) m i in
      match res with None => main_reads W s1 m r | Some e => (s1, Some e) end
  end.

(* callPollFunc(doPoll) *)
Definition call_main (W : world) (s : st) (m : nat) : st :=
  let s0 := emit s (LMain (now s) m) in
  let '(s1, o) := body W s0 in
  let '(s2, r) := match o with
                  | OOk => main_reads W s1 m (mainreads (md (get_mod s1 m)))
                  | OErr c k => (s1, Some (c, k, true))
                  end in
  fst (poll_result s2 m 0%nat r false).

(* ---------------------------------------------------------------- start-up phase *)
Definition polled_params (d : mdesc) : list nat :=
  map fst (filter (fun ip => is_polled (snd ip)) (combine (seq 0 (length (params d))) (params d))).

Inductive phase := PGo (s : st) | PCom (s : st) | PCrash (s : st).

(* writeInitParams and initialReads of module m *)
Definition init_module (W : world) (s : st) (m : nat) : phase :=
  if negb (alive s) then PGo s else
  let d := md (get_mod s m) in
  let s1 := if winit d then fst (body W (emit s (LWinit (now s) m))) else s in     (* every exception is contained *)
  if iread d then
    let '(s2, o) := body W (emit s1 (LIread (now s1) m)) in
    match o with
    | OOk => PGo s2
    | OErr c k => if is_comm c then PCom s2                      (* re-raised, caught by the start-up escape *)
                  else if initialreads_contained then PGo s2     (* logged, the start-up goes on (fix 3828d54) *)
                  else PCrash s2
    end
  else PGo s1.

Fixpoint init_modules (W : world) (s : st) (l : list nat) : phase :=
  match l with
  | [] => PGo s
  | m :: r => match init_module W s m with PGo s1 => init_modules W s1 r | other => other end
  end.

Fixpoint first_reads (W : world) (s : st) (l : list (nat * nat)) : phase :=
  match l with
  | [] => PGo s
  | (m, i) :: r => let '(s1, raised) := call_read W s m i true in
                   if raised then PCom s1 else first_reads W s1 r
  end.

Definition all_polled (ms : list mstate) : list (nat * nat) :=
  flat_map (fun im => if enable (md (snd im)) then map (fun i => (fst im, i)) (polled_params (md (snd im))) else [])
           (combine (seq 0 (length ms)) ms).

Definition call_started (s : st) : st :=
  if started s then s else set_started (emit s (LStarted (now s))) true.

Definition startup (W : world) (s : st) : st :=
  let ph := match init_modules W s (seq 0 (length (mods s))) with
            | PGo s1 => first_reads W s1 (all_polled (mods s1))
            | other => other
            end in
  match ph with
  | PCrash s1 => set_finished (set_crashed s1 true) true
  | PGo s1 | PCom s1 =>
      let s2 := match ph with PCom _ => wait W (call_started s1) startup_wait_ticks | _ => s1 end in
      let s3 := call_started s2 in
      if existsb (fun x => enable (md x)) (mods s3) then s3 else set_finished s3 true
  end.

(* ---------------------------------------------------------------- one turn of the main loop *)
Definition wait_time (ms : list mstate) (t : Z) : Z :=
  fold_left (fun wt x => if enable (md x)
                         then Z.min (Z.min (last_main x + interval x - t) wt) (last_slow x + si (md x) - t)
                         else wt) ms max_wait_ticks.

Definition new_last_main (t iv : Z) : Z := if iv =? 0 then t else (t / iv) * iv.

Definition main_step (W : world) (s : st) (m : nat) : st :=
  if negb (alive s) then s else
  let x := get_mod s m in
  if enable (md x) && (last_main x + interval x <? now s)
  then call_main W (upd_mod s m (fun y => m_set_last_main y (new_last_main (now s) (interval y)))) m
  else s.

Definition main_phase (W : world) (s : st) : st :=
  fold_left (main_step W) (seq 0 (length (mods s))) s.

(* the first entry of the iterator that is not fresh, and what remains after it *)
Fixpoint scan (s : st) (l : list (nat * nat)) : option ((nat * nat) * list (nat * nat)) :=
  match l with
  | [] => None
  | (m, i) :: r =>
      let x := get_mod s m in
      if 2 * ts (get_ps x i) + si (md x) <? 2 * now s then Some ((m, i), r) else scan s r
  end.

Definition slow_due (t : Z) (x : mstate) : bool := enable (md x) && (last_slow x + si (md x) <? t).

Definition refill_list (s : st) : list (nat * nat) :=
  if alive s then
    flat_map (fun im => if slow_due (now s) (snd im) then map (fun i => (fst im, i)) (polled_params (md (snd im))) else [])
             (combine (seq 0 (length (mods s))) (mods s))
  else [].

Definition refill_mods (s : st) : list mstate :=
  if alive s then
    map (fun x => if slow_due (now s) x then m_set_last_slow x ((now s / si (md x)) * si (md x)) else x) (mods s)
  else mods s.

Fixpoint slow_loop (W : world) (k : nat) (s : st) : st :=
  match k with
  | O => s
  | S k' =>
      match scan s (match topoll s with Some l => l | None => [] end) with
      | Some ((m, i), rest) => fst (call_read W (set_topoll s (Some rest)) m i false)
      | None =>
          let l := refill_list s in
          let s1 := set_mods s (refill_mods s) in
          match l with
          | [] => set_topoll s1 None
          | _ => slow_loop W k' (set_topoll s1 (Some l))
          end
      end
  end.

Definition slow_phase (W : world) (s : st) : st := slow_loop W 3 s.

Definition turn (W : world) (s : st) : st :=
  if finished s then s else
  if negb (alive s) then set_finished s true else
  let s := set_now s (now s + eps W) in
  let s := emit s (LTurn (now s)) in
  let wt := wait_time (mods s) (now s) in
  if (0 <? wt) && (match topoll s with None => true | Some _ => false end)
  then set_ev (fire_due W (wait W s wt)) false           (* wait; [due requests run]; clear *)
  else slow_phase W (main_phase W s).

Fixpoint turns (W : world) (n : nat) (s : st) : st :=
  match n with O => s | S n' => turns W n' (turn W s) end.

Definition run (W : world) (n : nat) (s : st) : st := turns W n (startup W s).

(* initial state of the thread *)
Definition init_mod (d : mdesc) (pi : Z) : mstate :=
  {| md := d; mpi := pi; interval := pi; last_main := 0; last_slow := 0; fast := false; pending := [];
     ps := map (fun _ => p0) (params d) |}.

Definition init_state (t0 : Z) (ds : list (mdesc * Z)) (a : list (Z * action)) : st :=
  {| now := t0; ev := false; alive := true; mods := map (fun dp => init_mod (fst dp) (snd dp)) ds; topoll := None;
     acts := a; ctr := 0; log := []; started := false; crashed := false; finished := false |}.
