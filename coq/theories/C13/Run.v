(* C13 - correspondence driver: a case carries the module descriptors, scripts, actions, the number of
   loop turns and what the implementation did; check_case re-runs the model and compares. *)
From Coq Require Import List Arith ZArith Bool Uint63.
Import ListNotations.
Require Import FV.Base.Util FV.Gen.C13 FV.C13.Model.
Local Open Scope Z_scope.

Definition levent_eqb (a b : levent) : bool :=
  match a, b with
  | LTurn t, LTurn t' => Z.eqb t t'
  | LWait t x, LWait t' x' => Z.eqb t t' && Z.eqb x x'
  | LMain t m, LMain t' m' => Z.eqb t t' && Nat.eqb m m'
  | LRead t m i, LRead t' m' i' => Z.eqb t t' && Nat.eqb m m' && Nat.eqb i i'
  | LMRead t m i, LMRead t' m' i' => Z.eqb t t' && Nat.eqb m m' && Nat.eqb i i'
  | LWinit t m, LWinit t' m' => Z.eqb t t' && Nat.eqb m m'
  | LIread t m, LIread t' m' => Z.eqb t t' && Nat.eqb m m'
  | LStarted t, LStarted t' => Z.eqb t t'
  | _, _ => false
  end.

(* the observed call log is written with primitive integers (cheap to parse): kind, time, two arguments *)
Inductive rawev := RE (k t a b : int).
Definition zi (i : int) : Z := Uint63.to_Z i.
Definition ni (i : int) : nat := Z.to_nat (Uint63.to_Z i).
Definition ev_of (r : rawev) : levent :=
  match r with
  | RE k t a b =>
      match ni k with
      | 0%nat => LTurn (zi t)
      | 1%nat => LWait (zi t) (zi a)
      | 2%nat => LMain (zi t) (ni a)
      | 3%nat => LRead (zi t) (ni a) (ni b)
      | 4%nat => LMRead (zi t) (ni a) (ni b)
      | 5%nat => LWinit (zi t) (ni a)
      | 6%nat => LIread (zi t) (ni a)
      | _ => LStarted (zi t)
      end
  end.

(* final PollInfo of a polled module as observed on the implementation *)
Record pobs := {
  o_interval : Z; o_last_main : Z; o_last_slow : Z; o_fast : bool;
  o_pending : list nat; o_polled : list nat; o_ts : list Z;
}.

Record case := {
  c_t0 : Z;
  c_eps : Z;
  c_reconn : bool;
  c_turns : nat;
  c_mods : list (mdesc * Z);
  c_script : list (Z * outcome);
  c_acts : list (Z * action);
  (* observation *)
  c_log : list rawev;              (* chronological *)
  c_end : nat;                     (* 0 turn budget used up, 1 thread returned, 2 thread died *)
  c_now : Z;
  c_flag : bool;
  c_alive : bool;
  c_pinfo : list (option pobs);
}.

Definition mk_world (c : case) : world :=
  {| script := fun n => nth n (c_script c) (1, OOk); eps := c_eps c; reconn := c_reconn c |}.

Definition model_final (c : case) : st :=
  run (mk_world c) (c_turns c) (init_state (c_t0 c) (c_mods c) (c_acts c)).

Definition end_code (s : st) : nat := if crashed s then 2%nat else if finished s then 1%nat else 0%nat.

Definition pinfo_ok (x : mstate) (o : option pobs) : bool :=
  match o with
  | None => negb (enable (md x))
  | Some p =>
      enable (md x)
      && Z.eqb (interval x) (o_interval p) && Z.eqb (last_main x) (o_last_main p)
      && Z.eqb (last_slow x) (o_last_slow p) && Bool.eqb (fast x) (o_fast p)
      && forallb (fun f => Bool.eqb (existsb (Nat.eqb f) (pending x)) (existsb (Nat.eqb f) (o_pending p))) (seq 0 8)
      && list_eqb Nat.eqb (polled_params (md x)) (o_polled p)
      && list_eqb Z.eqb (map ts (ps x)) (o_ts p)
  end.

Fixpoint all2 {A B} (f : A -> B -> bool) (a : list A) (b : list B) : bool :=
  match a, b with
  | [], [] => true
  | x :: a', y :: b' => f x y && all2 f a' b'
  | _, _ => false
  end.

Definition check_case (c : case) : bool :=
  let s := model_final c in
  list_eqb levent_eqb (rev (log s)) (map ev_of (c_log c))
  && Nat.eqb (end_code s) (c_end c)
  && Z.eqb (now s) (c_now c)
  && Bool.eqb (ev s) (c_flag c)
  && Bool.eqb (alive s) (c_alive c)
  && all2 pinfo_ok (mods s) (c_pinfo c).

(* what the model does, for diagnosis in replay files *)
Definition model_trace (c : case) := let s := model_final c in (rev (log s), end_code s, now s).
