(* C13 - property theorems only; each is closed by a lemma of Lemmas.v / Timing.v.
   W ranges over every duration/outcome script of the driver functions (ok, SECoP error, silent error, any other
   exception, communication failure), every per-turn overhead and both kinds of thread owner; ds over every list of
   module descriptors with their poll intervals; a over every schedule of run-time requests; n over every number
   of loop turns.  Time unit: 2^-10 s. *)
From Coq Require Import List Arith ZArith Bool Lia.
Import ListNotations.
Require Import FV.Gen.C13 FV.C13.Model FV.C13.Lemmas FV.C13.Timing.
Local Open Scope Z_scope.

(* obligations on the facts regenerated from /repo (Gen/C13.v) *)
Theorem C13_source_facts :
  poll_default_read = true /\ poll_without_read_func = false /\ nopoll_value = false /\
  poll_default_handler = true /\ poll_common_rest = false /\ thread_collects_only_polled = true /\
  callpoll_contains_exceptions = true /\ callpoll_reraise_guarded = true /\ mainloop_never_reraises = true /\
  main_due_rule = true /\ wait_rule = true /\ slow_fresh_twice = 1 /\ refill_rule = true /\ trigger_rule = true /\
  initialreads_contained = true /\ 0 < max_wait_ticks /\ 0 < startup_wait_ticks.
Proof. repeat split; reflexivity. Qed.

(* parameters marked as not polled (no read function, @nopoll, not the first key of a common handler), and
   parameters of modules with polling disabled, are never read by the poller: every read the poller makes in any
   run is of a parameter that exists, has a read function carrying poll = True, in a module with enablePoll *)
Theorem C13_nopoll_never_read : forall W n t0 ds a t m i,
  In (LRead t m i) (log (run W n (init_state t0 ds a))) ->
  exists d p, nth_error (map fst ds) m = Some d /\ enable d = true /\ nth_error (params d) i = Some p /\
              pnopoll p = false /\ pk p <> KNone /\ pk p <> KCommonRest.
Proof.
  intros W n t0 ds a t m i H. destruct (reads_only_polled W n t0 ds a t m i H) as [He Hi].
  destruct (polled_params_spec _ _ Hi) as (p & Hp & Hpol).
  destruct (nth_in_or_default m (map fst ds) d0) as [Hin|Hd].
  - exists (nth m (map fst ds) d0), p.
    split; [|split; [exact He|split; [exact Hp|apply is_polled_spec; exact Hpol]]].
    apply In_nth_error in Hin. destruct (nth_error (map fst ds) m) eqn:E.
    + f_equal. symmetry. apply nth_error_nth with (d := d0) in E. exact E.
    + rewrite (nth_error_nth' _ d0) in E; [discriminate|]. apply nth_error_None in E.
      rewrite nth_overflow in He by exact E. discriminate He.
  - rewrite Hd in He. discriminate He.
Qed.

(* for every outcome script (ok, SECoP error, silent error, any other exception, communication failure) of every read,
   poll, configured write and initialReads call: no exception leaves the thread body, the thread ends only by a
   requested shutdown (or at once when no module is polled), and without a shutdown request the module list is intact.
   (Before fix 3828d54 this held only when no module overrode initialReads; the guard is gone.) *)
Theorem C13_survives : forall W n t0 ds a,
  let s := run W n (init_state t0 ds a) in
  crashed s = false /\
  (finished s = true -> alive s = false \/ existsb enable (map fst ds) = false) /\
  (~ In AStop (map snd a) -> alive s = true).
Proof. intros W n t0 ds a. exact (survives W n t0 ds a). Qed.

(* In a period without run-time requests (acts = []), with every driver call lasting at most dmax: *)

(* the thread never sleeps beyond the time a main poll or a slow poll round of any polled module is due *)
Theorem C13_wakeup_by_due : forall W dmax, (forall k, 0 <= fst (script W k) <= dmax) ->
  forall s m, quiet s -> (m < nmods s)%nat -> en s m = true -> waits W s = true ->
  now (turn W s) <= Z.max (now s + eps W) (lm s m + iv s m) /\
  now (turn W s) <= Z.max (now s + eps W) (last_slow (get_mod s m) + si (dsc s m)).
Proof. intros W dmax Hd s m. apply (no_oversleep W). Qed.

(* after every loop turn, whatever happened before (interval changes, triggers, failing or slow reads), no polled
   module is overdue by more than the rest of one sweep (the main polls of the modules from it on, one slow poll) *)
Theorem C13_main_invariant : forall W dmax, (forall k, 0 <= fst (script W k) <= dmax) ->
  forall s, quiet s -> (forall k, 0 <= iv s k) -> J dmax (turn W s).
Proof. intros W dmax Hd s. apply (turn_establishes_J W dmax Hd). Qed.

(* bounded staleness of the main poll: a module whose doPoll is due at the top of a turn has it started in this very
   turn, at a time c no later than due time + per-turn overhead + one sweep of the thread's work
   (sweep = (1 + reads in doPoll) * dmax for every module + dmax for the one slow poll); outcomes are arbitrary *)
Theorem C13_main_bound : forall W dmax, (forall k, 0 <= fst (script W k) <= dmax) ->
  forall s l1 m l2, quiet s -> J dmax s ->
  seq 0 (nmods s) = l1 ++ m :: l2 -> en s m = true ->
  lm s m + iv s m < now s + eps W ->
  exists c, In (LMain c m) (log (turn W s)) /\ now s + eps W <= c /\ c <= lm s m + iv s m + eps W + sweep dmax s.
Proof. intros W dmax Hd s l1 m l2. apply (overdue_polled W dmax Hd). Qed.

(* quiet periods are closed under turns, so the two theorems above apply to every later turn *)
Theorem C13_quiet_closed : forall W dmax, (forall k, 0 <= fst (script W k) <= dmax) ->
  forall s, quiet s ->
  quiet (turn W s) /\ nmods (turn W s) = nmods s /\ (forall k, dsc (turn W s) k = dsc s k /\ iv (turn W s) k = iv s k).
Proof. intros W dmax Hd s. apply (turn_quiet W dmax Hd). Qed.

(* a slow poll round in progress is never interrupted by sleeping *)
Theorem C13_no_wait_during_round : forall W s l, topoll s = Some l -> waits W s = false.
Proof. intros W s l. apply no_wait_during_round. Qed.

(* changing the poll interval, switching fast polling, an immediate trigger: the PollInfo holds the new value at once
   and the trigger event is set, so the next wake-up computes with it *)
Theorem C13_interval_change : forall W s m, (m < length (mods s))%nat -> enable (md (get_mod s m)) = true ->
  (forall v, fast (get_mod s m) = false ->
     let s' := apply_act W (ASetInt m v) s in interval (get_mod s' m) = v /\ ev s' = true) /\
  (forall v, fast (get_mod s m) = true ->
     let s' := apply_act W (ASetInt m v) s in interval (get_mod s' m) = interval (get_mod s m) /\ mpi (get_mod s' m) = v) /\
  (forall flag fi, let s' := apply_act W (AFast m flag fi) s in
     interval (get_mod s' m) = (if flag then fi else mpi (get_mod s m)) /\ fast (get_mod s' m) = flag /\ ev s' = true) /\
  (let s' := apply_act W (ATrig m true) s in last_main (get_mod s' m) = 0 /\ ev s' = true).
Proof. intros W s m. apply request_effect. Qed.

Theorem C13_next_wakeup_uses_interval : forall ms t x, In x ms -> enable (md x) = true ->
  wait_time ms t <= last_main x + interval x - t.
Proof. intros ms t x. apply wait_time_uses_interval. Qed.

(* non-vacuity: two modules, reads that fail, the log of a short run *)
Definition demo_ds : list (mdesc * Z) :=
  [({| enable := true; si := 2048; winit := false; iread := false; mainreads := [0%nat];
       params := [{| pk := KRead; pnopoll := false |}; {| pk := KRead; pnopoll := true |}] |}, 1024);
   ({| enable := true; si := 1024; winit := false; iread := false; mainreads := [];
       params := [{| pk := KHandler; pnopoll := false |}] |}, 0)].
Definition demo_W : world :=
  {| script := fun n => if Nat.even n then (8, OErr 3 0) else (16, OOk); eps := 1; reconn := false |}.
Example C13_demo :
  let s := run demo_W 3 (init_state 1024000 demo_ds []) in
  crashed s = false /\ finished s = false /\
  rev (log s) = [LRead 1024000 0 0; LRead 1024008 1 0; LStarted 1024024;
                 LTurn 1024025; LMain 1024025 0; LMain 1024033 1;
                 LTurn 1024050; LMain 1024050 1;
                 LTurn 1024059; LMain 1024059 1].
Proof. vm_compute. auto. Qed.

(* non-vacuity of C13_survives: initialReads of the first module raises an ordinary SECoP error; the start-up goes on,
   the callback is called, both modules are polled *)
Definition demo2_ds : list (mdesc * Z) :=
  [({| enable := true; si := 1024; winit := false; iread := true; mainreads := [];
       params := [{| pk := KRead; pnopoll := false |}] |}, 1024);
   ({| enable := true; si := 1024; winit := false; iread := false; mainreads := [];
       params := [{| pk := KRead; pnopoll := false |}] |}, 1024)].
Definition demo2_W : world :=
  {| script := fun n => match n with O => (64, OErr 3 0) | _ => (1, OOk) end; eps := 1; reconn := false |}.
Example C13_demo_initialreads :
  let s := run demo2_W 1 (init_state 1024000 demo2_ds []) in
  crashed s = false /\ finished s = false /\ started s = true /\
  rev (log s) = [LIread 1024000 0; LRead 1024064 0 0; LRead 1024065 1 0; LStarted 1024066;
                 LTurn 1024067; LMain 1024067 0; LMain 1024068 1].
Proof. vm_compute. auto. Qed.

Print Assumptions C13_source_facts.
Print Assumptions C13_nopoll_never_read.
Print Assumptions C13_survives.
Print Assumptions C13_wakeup_by_due.
Print Assumptions C13_main_invariant.
Print Assumptions C13_main_bound.
Print Assumptions C13_quiet_closed.
Print Assumptions C13_no_wait_during_round.
Print Assumptions C13_interval_change.
Print Assumptions C13_next_wakeup_uses_interval.
