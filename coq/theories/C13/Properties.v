(* C13 - property theorems only; each is closed by a lemma of Lemmas.v / Timing.v.
   W ranges over every duration/outcome script of the driver functions (ok, SECoP error, silent error, any other
   exception, communication failure), every per-turn overhead and both kinds of thread owner; ds over every list of
   module descriptors with their poll intervals; a over every schedule of run-time requests; n over every number
   of loop turns.  Time unit: 2^-10 s. *)
From Coq Require Import List Arith ZArith Bool Lia.
Import ListNotations.
Require Import FV.Gen.C13 FV.C13.Model FV.C13.Lemmas FV.C13.Timing FV.C13.Slow FV.C13.Starve.
Local Open Scope Z_scope.

(* obligations on the facts regenerated from /repo (Gen/C13.v) *)
Theorem C13_source_facts :
  poll_default_read = true /\ poll_without_read_func = false /\ nopoll_value = false /\
  poll_default_handler = true /\ poll_common_rest = false /\ thread_collects_only_polled = true /\
  callpoll_contains_exceptions = true /\ callpoll_reraise_guarded = true /\ mainloop_never_reraises = true /\
  main_due_rule = true /\ wait_rule = true /\ slow_fresh_twice = 1 /\ refill_rule = true /\ trigger_rule = true /\
  initialreads_contained = true /\ startup_single_pass = true /\ main_clock_per_module = true /\
  refill_all_due = true /\ timestamp_default_zero = true /\ pollinfo_only_polled_modules = true /\
  0 < max_wait_ticks /\ 0 < startup_wait_ticks.
Proof. repeat split; reflexivity. Qed.

(* parameters marked as not polled (no read function, @nopoll, not the first key of a common handler), and
   parameters of modules with polling disabled, are never read by the poller: every read the poller makes in any
   run is of a parameter that exists, has a read function carrying poll = True, in a module with enablePoll *)
Theorem C13_nopoll_never_read : forall W n t0 ds a t m i,
  In (LRead t m i) (log (run W n (init_state t0 ds a))) ->
  exists d p, nth_error (map fst ds) m = Some d /\ enable d = true /\ nth_error (params d) i = Some p /\
              pnopoll p = false /\ pk p <> KNone /\ pk p <> KCommonRest.
Proof.
  intros W n t0 ds a t m i H. destruct (reads_only_polled W n t0 ds a t m i H) as [He Hi].
  destruct (polled_params_spec _ _ Hi) as (p & Hp & Hpol).
  destruct (nth_in_or_default m (map fst ds) d0) as [Hin|Hd].
  - exists (nth m (map fst ds) d0), p.
    split; [|split; [exact He|split; [exact Hp|apply is_polled_spec; exact Hpol]]].
    apply In_nth_error in Hin. destruct (nth_error (map fst ds) m) eqn:E.
    + f_equal. symmetry. apply nth_error_nth with (d := d0) in E. exact E.
    + rewrite (nth_error_nth' _ d0) in E; [discriminate|]. apply nth_error_None in E.
      rewrite nth_overflow in He by exact E. discriminate He.
  - rewrite Hd in He. discriminate He.
Qed.

(* modules marked as not polled (enablePoll = False) are never polled: whatever shares the poll thread with them
   (polled modules, configured values written at start-up, initialReads), for every script, schedule of run-time
   requests (setFastPoll / trigger / pollinterval changes addressed to them included) and number of turns, the poller
   never calls their doPoll, hence makes no read inside it, and never calls one of their read functions; what the
   thread does do for such a module is confined to the start-up (configured write, initialReads).
   Code fact behind it: pollinfo_only_polled_modules (only modules of polled_modules get a PollInfo). *)
Theorem C13_nopoll_module_never_polled : forall W n t0 ds a t m,
  let lg := log (run W n (init_state t0 ds a)) in
  In (LMain t m) lg \/ (exists i, In (LMRead t m i) lg) \/ (exists i, In (LRead t m i) lg) ->
  exists d, nth_error (map fst ds) m = Some d /\ enable d = true.
Proof.
  intros W n t0 ds a t m lg H.
  assert (He : enable (nth m (map fst ds) d0) = true).
  { destruct H as [H|[H|[i H]]].
    - exact (mains_only_enabled W n t0 ds a t m (or_introl H)).
    - exact (mains_only_enabled W n t0 ds a t m (or_intror H)).
    - exact (proj1 (reads_only_polled W n t0 ds a t m i H)). }
  destruct (nth_error (map fst ds) m) as [d|] eqn:E.
  - exists d. split; [reflexivity|]. apply nth_error_nth with (d := d0) in E. rewrite E in He. exact He.
  - apply nth_error_None in E. rewrite nth_overflow in He by exact E. discriminate He.
Qed.

(* for every outcome script (ok, SECoP error, silent error, any other exception, communication failure) of every read,
   poll, configured write and initialReads call: no exception leaves the thread body, the thread ends only by a
   requested shutdown (or at once when no module is polled), and without a shutdown request the module list is intact.
   (Before fix 3828d54 this held only when no module overrode initialReads; the guard is gone.) *)
Theorem C13_survives : forall W n t0 ds a,
  let s := run W n (init_state t0 ds a) in
  crashed s = false /\
  (finished s = true -> alive s = false \/ existsb enable (map fst ds) = false) /\
  (~ In AStop (map snd a) -> alive s = true).
Proof. intros W n t0 ds a. exact (survives W n t0 ds a). Qed.

(* In a period without run-time requests (acts = []), with every driver call lasting at most dmax: *)

(* the thread never sleeps beyond the time a main poll or a slow poll round of any polled module is due *)
Theorem C13_wakeup_by_due : forall W dmax, (forall k, 0 <= fst (script W k) <= dmax) ->
  forall s m, quiet s -> (m < nmods s)%nat -> en s m = true -> waits W s = true ->
  now (turn W s) <= Z.max (now s + eps W) (lm s m + iv s m) /\
  now (turn W s) <= Z.max (now s + eps W) (last_slow (get_mod s m) + si (dsc s m)).
Proof. intros W dmax Hd s m. apply (no_oversleep W). Qed.

(* after every loop turn, whatever happened before (interval changes, triggers, failing or slow reads), no polled
   module is overdue by more than the rest of one sweep (the main polls of the modules from it on, one slow poll) *)
Theorem C13_main_invariant : forall W dmax, (forall k, 0 <= fst (script W k) <= dmax) ->
  forall s, quiet s -> (forall k, 0 <= iv s k) -> J dmax (turn W s).
Proof. intros W dmax Hd s. apply (turn_establishes_J W dmax Hd). Qed.

(* bounded staleness of the main poll: a module whose doPoll is due at the top of a turn has it started in this very
   turn, at a time c no later than due time + per-turn overhead + one sweep of the thread's work
   (sweep = (1 + reads in doPoll) * dmax for every module + dmax for the one slow poll); outcomes are arbitrary *)
Theorem C13_main_bound : forall W dmax, (forall k, 0 <= fst (script W k) <= dmax) ->
  forall s l1 m l2, quiet s -> J dmax s ->
  seq 0 (nmods s) = l1 ++ m :: l2 -> en s m = true ->
  lm s m + iv s m < now s + eps W ->
  exists c, In (LMain c m) (log (turn W s)) /\ now s + eps W <= c /\ c <= lm s m + iv s m + eps W + sweep dmax s.
Proof. intros W dmax Hd s l1 m l2. apply (overdue_polled W dmax Hd). Qed.

(* quiet periods are closed under turns, so the two theorems above apply to every later turn *)
Theorem C13_quiet_closed : forall W dmax, (forall k, 0 <= fst (script W k) <= dmax) ->
  forall s, quiet s ->
  quiet (turn W s) /\ nmods (turn W s) = nmods s /\ (forall k, dsc (turn W s) k = dsc s k /\ iv (turn W s) k = iv s k).
Proof. intros W dmax Hd s. apply (turn_quiet W dmax Hd). Qed.

(* a slow poll round in progress is never interrupted by sleeping *)
Theorem C13_no_wait_during_round : forall W s l, topoll s = Some l -> waits W s = false.
Proof. intros W s l. apply no_wait_during_round. Qed.

(* changing the poll interval, switching fast polling, an immediate trigger: the PollInfo holds the new value at once
   and the trigger event is set, so the next wake-up computes with it *)
Theorem C13_interval_change : forall W s m, (m < length (mods s))%nat -> enable (md (get_mod s m)) = true ->
  (forall v, fast (get_mod s m) = false ->
     let s' := apply_act W (ASetInt m v) s in interval (get_mod s' m) = v /\ ev s' = true) /\
  (forall v, fast (get_mod s m) = true ->
     let s' := apply_act W (ASetInt m v) s in interval (get_mod s' m) = interval (get_mod s m) /\ mpi (get_mod s' m) = v) /\
  (forall flag fi, let s' := apply_act W (AFast m flag fi) s in
     interval (get_mod s' m) = (if flag then fi else mpi (get_mod s m)) /\ fast (get_mod s' m) = flag /\ ev s' = true) /\
  (let s' := apply_act W (ATrig m true) s in last_main (get_mod s' m) = 0 /\ ev s' = true).
Proof. intros W s m. apply request_effect. Qed.

Theorem C13_next_wakeup_uses_interval : forall ms t x, In x ms -> enable (md x) = true ->
  wait_time ms t <= last_main x + interval x - t.
Proof. intros ms t x. apply wait_time_uses_interval. Qed.

(* ---------------------------------------------------------------- slow polls
   Periods without run-time requests (acts = []), every driver call lasting at most dmax, 0 <= eps, every polled module
   with a positive slow interval (wf; the datatype of slowinterval is FloatRange(0.1, 120)).
     Tn = eps + sweep    the longest a loop turn can last (all main polls + one slow poll + overhead)
     Pn                  the number of polled parameters of all polled modules of the thread (no iterator is longer)
     Lw s                no last_slow lies in the future
     Sinv s              for every polled module: now + (entries left in the iterator + 1) * Tn
                           <= last_slow + slowinterval + Pn * Tn + dmax   (nothing left: now <= last_slow + slowinterval),
                         i.e. the refill that books the next round of a module happens no later than
                         Pn * Tn + dmax after the round is due
     Q1 s                every polled parameter waits in the iterator or was refreshed (time stamp) / read by the poller
                         not earlier than last_slow - slowinterval / 2 of its module
     Q2 s                an entry waiting in the iterator was refreshed / read not earlier than BB / 2 before the
                         projected end of the running round,  BB / 2 = 3/2 slowinterval + 2 * Pn * Tn + 2 * dmax *)

(* a refill books exactly the polled parameters of the modules whose round is due *)
Theorem C13_slow_round_complete : forall s m i, alive s = true ->
  (In (m, i) (refill_list s) <-> slow_due (now s) (get_mod s m) = true /\ In i (polled_params (dsc s m))).
Proof. intros s m i. apply in_refill_list. Qed.

(* the round is worked off: every entry (m, i) of the iterator is dealt with within as many turns as the iterator is
   long (each lasting at most Tn, the thread does not sleep meanwhile): it is read by the poller, or it is skipped,
   which happens only when its time stamp is younger than half a slow interval; outcomes of the reads are arbitrary *)
Theorem C13_slow_round : forall W dmax, (forall k, 0 <= fst (script W k) <= dmax) -> 0 <= eps W ->
  forall s l, quiet s -> wf s -> topoll s = Some l ->
  forall m i, In (m, i) l -> en s m = true ->
  exists k, (1 <= k <= length l)%nat /\
    let s' := turns W k s in
    now s' <= now s + Z.of_nat k * Tn W dmax s /\
    ((exists t, now s <= t /\ In (LRead t m i) (log s')) \/
     2 * now s <= 2 * ts (get_ps (get_mod s' m) i) + si (dsc s m)).
Proof. intros W dmax Hd He s l Q Wf Tp m i Hin Hen. apply (round_progress W dmax Hd He (length l) s l); auto. Qed.

(* one loop turn: Lw and Q1 are kept; Sinv holds after every turn that starts with an empty iterator, whatever the
   state was, and is kept; Q2 is kept.  The static data (module descriptors) do not change. *)
Theorem C13_slow_invariants : forall W dmax, (forall k, 0 <= fst (script W k) <= dmax) -> 0 <= eps W ->
  forall s, quiet s -> wf s -> Lw s -> Q1 s ->
  let s' := turn W s in
  sameS s s' /\ Lw s' /\ Q1 s' /\ ((topoll s = None \/ Sinv W dmax s) -> Sinv W dmax s') /\
  (Sinv W dmax s -> Q2 W dmax s -> Q2 W dmax s').
Proof. intros W dmax Hd He s. apply (turn_slow W dmax Hd He). Qed.

(* the state in which the main loop is entered - for every module list, every outcome (failures included) and duration
   of the start-up calls - satisfies the part of the invariants that needs no history *)
Theorem C13_slow_reachable : forall W dmax, (forall k, 0 <= fst (script W k) <= dmax) ->
  forall t0 ds, 0 <= t0 ->
  (forall d, In d (map fst ds) -> enable d = true -> 0 < si d) -> existsb enable (map fst ds) = true ->
  let s0 := startup W (init_state t0 ds []) in
  quiet s0 /\ topoll s0 = None /\ wf s0 /\ Lw s0 /\ Q1 s0.
Proof. intros W dmax Hd t0 ds. apply (slow_from_start W dmax Hd). Qed.

(* bounded staleness of every polled parameter, from any state that satisfies the invariants: after any number of
   turns the invariants hold again and every polled parameter (m, i) has a time stamp, or a read by the poller, that is
   not older than BB / 2 = 3/2 slowinterval + 2 * Pn * Tn + 2 * dmax; failing reads count (the poller did its work),
   a read that repeats its previous error leaves the time stamp but is in the log *)
Theorem C13_slow_bound_from : forall W dmax, (forall k, 0 <= fst (script W k) <= dmax) -> 0 <= eps W ->
  forall s, quiet s -> slow_inv W dmax s ->
  forall n, let s' := turns W n s in
  quiet s' /\ slow_inv W dmax s' /\
  forall m i, en s' m = true -> In i (polled_params (dsc s' m)) ->
    let x := 2 * now s' - (3 * si (dsc s' m) + 4 * (Pn s' * Tn W dmax s') + 4 * dmax) in
    x <= 2 * ts (get_ps (get_mod s' m) i) \/ exists t, x <= 2 * t /\ In (LRead t m i) (log s').
Proof.
  intros W dmax Hd He s Q I n. destruct (turns_slow_inv W dmax Hd He n s Q I) as (Q' & _ & I').
  split; [exact Q'|]. split; [exact I'|]. intros m i Hen Hin.
  exact (stale_bound W dmax Hd He _ I' m i (conj Hen Hin)).
Qed.

(* the invariants hold whenever nothing waits in the iterator *)
Theorem C13_slow_inv_when_idle : forall W dmax s,
  wf s -> Lw s -> Sinv W dmax s -> Q1 s -> cur s = [] -> slow_inv W dmax s.
Proof. intros W dmax s. apply slow_inv_idle. Qed.

(* bounded staleness for whole histories: for every module list, start time, outcome and duration script (calls lasting
   at most dmax) and every number of turns, without run-time requests: once the iterator has been found empty at the
   end of a turn (n1 >= 1: the first round is worked off), at the end of every later turn every polled parameter has a
   time stamp or a poller read not older than 3/2 slowinterval + 2 * Pn * Tn + 2 * dmax *)
Theorem C13_slow_bound : forall W dmax, (forall k, 0 <= fst (script W k) <= dmax) -> 0 <= eps W ->
  forall t0 ds, 0 <= t0 ->
  (forall d, In d (map fst ds) -> enable d = true -> 0 < si d) -> existsb enable (map fst ds) = true ->
  forall n1, (1 <= n1)%nat -> cur (run W n1 (init_state t0 ds [])) = [] ->
  forall k, let s := run W (n1 + k) (init_state t0 ds []) in
  forall m i, en s m = true -> In i (polled_params (dsc s m)) ->
    let x := 2 * now s - (3 * si (dsc s m) + 4 * (Pn s * Tn W dmax s) + 4 * dmax) in
    x <= 2 * ts (get_ps (get_mod s m) i) \/ exists t, x <= 2 * t /\ In (LRead t m i) (log s).
Proof.
  intros W dmax Hd He t0 ds Ht Hsi Hen n1 Hn1 Hc k s m i Hm Hi.
  destruct (slow_bound_run W dmax Hd He t0 ds Ht Hsi Hen n1 Hn1 Hc k) as (_ & _ & B).
  exact (B m i (conj Hm Hi)).
Qed.

(* main polls are not starved by slow polls: in every state (run-time requests or not) a loop turn contains at most
   one read by the poller, and it comes after the main polls of the turn (C13_main_bound: every module overdue at the
   top of the turn is polled in it) *)
Theorem C13_one_slow_poll_per_turn : forall W s,
  (nreads (log s) <= nreads (log (turn W s)) <= S (nreads (log s)))%nat.
Proof. intros W s. apply one_slow_poll_per_turn. Qed.

(* no module on a shared poll thread is starved by another one - for every state (any history, run-time requests or
   not), every duration and outcome script:
   (1) in a loop turn that does not wait, the due test of module m is made in the state `turn_comes W (top W s) l1`
       reached after the polls of the modules l1 before it in this sweep - its clock is the one read after the poll of
       the previous module (second conjunct: that state is `main_step` of the previous module applied to the state in
       which that module's turn came) - and a module due at THAT moment is polled in this very turn, at that moment
       (however long the polls of the earlier modules took, and even if it was not yet due at the top of the turn);
   (2) when the iterator of slow polls is used up (`scan .. = None`) the refill takes the polled parameters of ALL
       modules whose slow round is due (`slow_due`), not only those of the first one: each of them is read in this
       turn, waits in the new iterator (and is then dealt with within as many turns as the iterator is long:
       C13_slow_round), or was skipped because its time stamp is younger than half a slow interval.
   The code facts behind the two shapes: main_clock_per_module, refill_all_due (C13_source_facts). *)
Theorem C13_no_module_starved :
  (forall W s l1 m l2, finished s = false -> alive s = true -> waits W s = false ->
     seq 0 (length (mods s)) = l1 ++ m :: l2 ->
     let sm := turn_comes W (top W s) l1 in
     alive sm = true -> enable (md (get_mod sm m)) = true ->
     last_main (get_mod sm m) + interval (get_mod sm m) < now sm ->
     In (LMain (now sm) m) (log (turn W s))) /\
  (forall W s l0 p, turn_comes W s (l0 ++ [p]) = main_step W (turn_comes W s l0) p) /\
  (forall W s, finished s = false -> alive s = true -> waits W s = false ->
     let s1 := main_phase W (top W s) in
     alive s1 = true -> wf s1 -> scan s1 (cur s1) = None ->
     forall m i, slow_due (now s1) (get_mod s1 m) = true -> In i (polled_params (dsc s1 m)) ->
       In (LRead (now s1) m i) (log (turn W s)) \/ In (m, i) (cur (turn W s)) \/ fresh s1 (m, i)).
Proof.
  split; [exact turn_polls_due|]. split; [exact turn_comes_after_previous|exact turn_refills_all_due].
Qed.

(* non-vacuity of (1): module 0 (interval 1 s) has a doPoll of 4 s, module 1 (interval 5 s) is not due at the top of
   the second turn (t0 + 4106 <= t0 + 5120) but is when its turn comes (t0 + 8202): polled in the same turn *)
Definition demo4_ds : list (mdesc * Z) :=
  [({| enable := true; si := 15360; winit := false; iread := false; mainreads := []; params := [] |}, 1024);
   ({| enable := true; si := 15360; winit := false; iread := false; mainreads := []; params := [] |}, 5120)].
Definition demo4_W : world := {| script := fun n => (if Nat.even n then 4096 else 8, OOk); eps := 1; reconn := false |}.
Example C13_demo_not_starved :
  let s := run demo4_W 1 (init_state 1024000 demo4_ds []) in
  now (top demo4_W s) <= last_main (get_mod s 1) + interval (get_mod s 1) /\
  In (LMain (1024000 + 8202) 1%nat) (log (turn demo4_W s)).
Proof.
  cbv zeta. split; [vm_compute; congruence|].
  apply (proj1 C13_no_module_starved demo4_W (run demo4_W 1 (init_state 1024000 demo4_ds [])) [0%nat] 1%nat []);
    vm_compute; reflexivity.
Qed.

(* non-vacuity: two modules, reads that fail, the log of a short run *)
Definition demo_ds : list (mdesc * Z) :=
  [({| enable := true; si := 2048; winit := false; iread := false; mainreads := [0%nat];
       params := [{| pk := KRead; pnopoll := false |}; {| pk := KRead; pnopoll := true |}] |}, 1024);
   ({| enable := true; si := 1024; winit := false; iread := false; mainreads := [];
       params := [{| pk := KHandler; pnopoll := false |}] |}, 0)].
Definition demo_W : world :=
  {| script := fun n => if Nat.even n then (8, OErr 3 0) else (16, OOk); eps := 1; reconn := false |}.
Example C13_demo :
  let s := run demo_W 3 (init_state 1024000 demo_ds []) in
  crashed s = false /\ finished s = false /\
  rev (log s) = [LRead 1024000 0 0; LRead 1024008 1 0; LStarted 1024024;
                 LTurn 1024025; LMain 1024025 0; LMain 1024033 1;
                 LTurn 1024050; LMain 1024050 1;
                 LTurn 1024059; LMain 1024059 1].
Proof. vm_compute. auto. Qed.

(* non-vacuity of C13_survives: initialReads of the first module raises an ordinary SECoP error; the start-up goes on,
   the callback is called, both modules are polled *)
Definition demo2_ds : list (mdesc * Z) :=
  [({| enable := true; si := 1024; winit := false; iread := true; mainreads := [];
       params := [{| pk := KRead; pnopoll := false |}] |}, 1024);
   ({| enable := true; si := 1024; winit := false; iread := false; mainreads := [];
       params := [{| pk := KRead; pnopoll := false |}] |}, 1024)].
Definition demo2_W : world :=
  {| script := fun n => match n with O => (64, OErr 3 0) | _ => (1, OOk) end; eps := 1; reconn := false |}.
Example C13_demo_initialreads :
  let s := run demo2_W 1 (init_state 1024000 demo2_ds []) in
  crashed s = false /\ finished s = false /\ started s = true /\
  rev (log s) = [LIread 1024000 0; LRead 1024064 0 0; LRead 1024065 1 0; LStarted 1024066;
                 LTurn 1024067; LMain 1024067 0; LMain 1024068 1].
Proof. vm_compute. auto. Qed.

(* non-vacuity of C13_slow_bound: two polled modules with three polled parameters, one of them also read by doPoll;
   the iterator is empty after the 4th turn; the hypotheses hold, so the bound holds for every later turn *)
Definition demo3_ds : list (mdesc * Z) :=
  [({| enable := true; si := 2048; winit := false; iread := false; mainreads := [0%nat];
       params := [{| pk := KRead; pnopoll := false |}; {| pk := KRead; pnopoll := false |}] |}, 1024);
   ({| enable := true; si := 1024; winit := false; iread := false; mainreads := [];
       params := [{| pk := KHandler; pnopoll := false |}] |}, 512)].
Definition demo3_W : world := {| script := fun n => (if Nat.even n then 8 else 16, if Nat.eqb n 5 then OErr 1 0 else OOk);
                                 eps := 1; reconn := false |}.
Lemma demo3_dur : forall k, 0 <= fst (script demo3_W k) <= 16.
Proof. intros k. simpl. destruct (Nat.even k); lia. Qed.
Example C13_demo_slow :
  cur (run demo3_W 4 (init_state 1024000 demo3_ds [])) = [] /\
  forall k, let s := run demo3_W (4 + k) (init_state 1024000 demo3_ds []) in
  forall m i, en s m = true -> In i (polled_params (dsc s m)) ->
    let x := 2 * now s - (3 * si (dsc s m) + 4 * (Pn s * Tn demo3_W 16 s) + 4 * 16) in
    x <= 2 * ts (get_ps (get_mod s m) i) \/ exists t, x <= 2 * t /\ In (LRead t m i) (log s).
Proof.
  assert (C : cur (run demo3_W 4 (init_state 1024000 demo3_ds [])) = []) by (vm_compute; reflexivity).
  split; [exact C|].
  apply (C13_slow_bound demo3_W 16 demo3_dur); try (vm_compute; congruence); try lia; try exact C.
  intros d [<-|[<-|[]]] _; reflexivity.
Qed.

(* non-vacuity of C13_nopoll_module_never_polled: module 0 has enablePoll = false and a configured value that is written
   at start-up, module 1 is polled; a trigger and setFastPoll are addressed to module 0 at run time.  The thread writes
   the value, polls module 1 and never touches doPoll / read_p0 of module 0 *)
Definition demo5_ds : list (mdesc * Z) :=
  [({| enable := false; si := 1024; winit := true; iread := false; mainreads := [0%nat];
       params := [{| pk := KRead; pnopoll := false |}] |}, 0);
   ({| enable := true; si := 1024; winit := false; iread := false; mainreads := [];
       params := [{| pk := KRead; pnopoll := false |}] |}, 1024)].
Definition demo5_W : world := {| script := fun n => (8, OOk); eps := 1; reconn := false |}.
Example C13_demo_nopoll_module :
  let s := run demo5_W 4 (init_state 1024000 demo5_ds [(1024020, ATrig 0 true); (1024021, AFast 0 true 0)]) in
  crashed s = false /\ finished s = false /\
  rev (log s) = [LWinit 1024000 0; LRead 1024008 1 0; LStarted 1024016;
                 LTurn 1024017; LMain 1024017 1; LTurn 1024026; LWait 1024026 998;
                 LTurn 1025025; LMain 1025025 1; LRead 1025033 1 0; LTurn 1025042] /\
  forall t, ~ In (LMain t 0%nat) (log s).
Proof.
  cbv zeta. split; [vm_compute; reflexivity|]. split; [vm_compute; reflexivity|]. split; [vm_compute; reflexivity|].
  intros t H.
  destruct (C13_nopoll_module_never_polled demo5_W 4 1024000 demo5_ds _ t 0%nat (or_introl H)) as (d & Hd & He).
  simpl in Hd. inversion Hd; subst d. discriminate He.
Qed.

(* non-vacuity of C13_survives for an abandoned start-up: the first read of module 0 fails with a communication
   failure, the first reads of p1 and of module 1 are skipped (their time stamps are still the class default 0 when
   the slow-poll due test reaches them); the thread goes on and reads them in its first rounds *)
Definition demo6_ds : list (mdesc * Z) :=
  [({| enable := true; si := 1024; winit := false; iread := false; mainreads := [];
       params := [{| pk := KRead; pnopoll := false |}; {| pk := KRead; pnopoll := false |}] |}, 1024);
   ({| enable := true; si := 1024; winit := false; iread := false; mainreads := [];
       params := [{| pk := KRead; pnopoll := false |}] |}, 1024)].
Definition demo6_W : world :=
  {| script := fun n => match n with O => (8, OErr 4 0) | _ => (8, OOk) end; eps := 1; reconn := false |}.
Example C13_demo_abandoned_startup :
  let s1 := startup demo6_W (init_state 1024000 demo6_ds []) in
  let s := run demo6_W 3 (init_state 1024000 demo6_ds []) in
  ts (get_ps (get_mod s1 0) 1) = 0 /\ ts (get_ps (get_mod s1 1) 0) = 0 /\
  crashed s = false /\ finished s = false /\
  In (LRead 1024127 0 1) (log s) /\ In (LRead 1024136 1 0) (log s).
Proof. vm_compute. repeat split; auto 12. Qed.

Print Assumptions C13_source_facts.
Print Assumptions C13_nopoll_never_read.
Print Assumptions C13_nopoll_module_never_polled.
Print Assumptions C13_survives.
Print Assumptions C13_wakeup_by_due.
Print Assumptions C13_main_invariant.
Print Assumptions C13_main_bound.
Print Assumptions C13_quiet_closed.
Print Assumptions C13_no_wait_during_round.
Print Assumptions C13_interval_change.
Print Assumptions C13_next_wakeup_uses_interval.
Print Assumptions C13_slow_round_complete.
Print Assumptions C13_slow_round.
Print Assumptions C13_slow_invariants.
Print Assumptions C13_slow_reachable.
Print Assumptions C13_slow_bound_from.
Print Assumptions C13_slow_inv_when_idle.
Print Assumptions C13_slow_bound.
Print Assumptions C13_one_slow_poll_per_turn.
Print Assumptions C13_no_module_starved.
