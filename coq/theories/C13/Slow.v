(* C13 - the slow polls in periods without run-time requests (acts = []):
   frame facts for last_slow and the parameter time stamps, the refill step, the three shapes of the slow phase,
   and the invariants that bound the time between two refreshes of a polled parameter. *)
From Coq Require Import List Arith ZArith Bool Lia.
Import ListNotations.
Require Import FV.Gen.C13 FV.C13.Model FV.C13.Lemmas FV.C13.Timing.
Local Open Scope Z_scope.

(* ------------------------------------------------------------ lists *)
Lemma nth_upd_nth_gen : forall {A} (f : A -> A) (d : A) l m k,
  nth k (upd_nth m f l) d = nth k l d \/ nth k (upd_nth m f l) d = f (nth k l d).
Proof.
  intros A f d l; induction l as [|x l IH]; intros m k; simpl.
  - destruct m; left; reflexivity.
  - destruct m, k; simpl; auto.
Qed.

Lemma get_upd_mod : forall s m f k,
  get_mod (upd_mod s m f) k = get_mod s k \/ get_mod (upd_mod s m f) k = f (get_mod s k).
Proof. intros s m f k. unfold get_mod, upd_mod; simpl. apply nth_upd_nth_gen. Qed.

Lemma pair_dec : forall a b : nat * nat, {a = b} + {a <> b}.
Proof. decide equality; apply Nat.eq_dec. Qed.

(* ------------------------------------------------------------ observables *)
Definition cur (s : st) : list (nat * nat) := match topoll s with Some l => l | None => [] end.
Definition lsl (s : st) (k : nat) : Z := last_slow (get_mod s k).
Definition sint (s : st) (k : nat) : Z := si (dsc s k).
Definition tsp (s : st) (k j : nat) : Z := ts (get_ps (get_mod s k) j).

Lemma en_lt : forall s k, en s k = true -> (k < nmods s)%nat.
Proof.
  intros s k H. destruct (Nat.lt_ge_cases k (nmods s)) as [L|G]; [exact L|].
  unfold en, dsc, get_mod in H. rewrite nth_overflow in H by exact G. discriminate H.
Qed.

(* s' is reached from s by poller code that keeps last_slow; a time stamp is either kept or set to a time >= now s *)
Definition sfr (s s' : st) : Prop :=
  now s <= now s' /\ (forall k, lsl s' k = lsl s k) /\ (forall k j, tsp s' k j = tsp s k j \/ now s <= tsp s' k j).

Lemma sfr_refl : forall s, sfr s s.
Proof. intros s. split; [lia|]. split; auto. Qed.

Lemma sfr_trans : forall a b c, sfr a b -> sfr b c -> sfr a c.
Proof.
  intros a b c (N1 & L1 & T1) (N2 & L2 & T2). split; [lia|]. split.
  - intros k. rewrite L2. apply L1.
  - intros k j. destruct (T2 k j) as [E|E]; [rewrite E; apply T1|right; lia].
Qed.

Lemma sfr_same_mods : forall s s', mods s' = mods s -> now s <= now s' -> sfr s s'.
Proof.
  intros s s' M N. split; [exact N|]. unfold lsl, tsp, get_mod. rewrite M. split; auto.
Qed.

Lemma sfr_upd_mod : forall s m f, (forall x, last_slow (f x) = last_slow x) ->
  (forall x j, ts (get_ps (f x) j) = ts (get_ps x j) \/ now s <= ts (get_ps (f x) j)) -> sfr s (upd_mod s m f).
Proof.
  intros s m f H1 H2. split; [simpl; lia|]. split.
  - intros k. unfold lsl. destruct (get_upd_mod s m f k) as [E|E]; rewrite E; auto.
  - intros k j. unfold tsp. destruct (get_upd_mod s m f k) as [E|E]; rewrite E; auto.
Qed.

(* ------------------------------------------------------------ the iterator scan *)
Definition fresh (s : st) (p : nat * nat) : Prop := 2 * now s <= 2 * tsp s (fst p) (snd p) + sint s (fst p).

Lemma scan_some : forall s l p rest, scan s l = Some (p, rest) ->
  exists pre, l = pre ++ p :: rest /\ (forall q, In q pre -> fresh s q).
Proof.
  intros s l; induction l as [|[m i] l IH]; intros p rest H; simpl in H; [discriminate|].
  destruct (_ <? _) eqn:E.
  - inversion H; subst. exists []. split; [reflexivity|]. intros q [].
  - destruct (IH _ _ H) as (pre & -> & Hp). exists ((m, i) :: pre). split; [reflexivity|].
    intros q [<-|Hq]; [|apply Hp; exact Hq]. apply Z.ltb_ge in E. unfold fresh, tsp, sint, dsc. simpl. lia.
Qed.

Lemma scan_none : forall s l, scan s l = None -> forall q, In q l -> fresh s q.
Proof.
  intros s l; induction l as [|[m i] l IH]; intros H q Hq; simpl in *; [contradiction|].
  destruct (_ <? _) eqn:E; [discriminate|].
  destruct Hq as [<-|Hq]; [|apply IH; assumption]. apply Z.ltb_ge in E. unfold fresh, tsp, sint, dsc. simpl. lia.
Qed.

Lemma scan_ext : forall z z' l, mods z' = mods z -> now z' = now z -> scan z' l = scan z l.
Proof.
  intros z z' l M N; induction l as [|[m i] l IH]; simpl; [reflexivity|].
  unfold get_mod. rewrite M, N, IH. reflexivity.
Qed.

(* ------------------------------------------------------------ the refill step *)
Definition rfun (u : Z) (x : mstate) : mstate :=
  if slow_due u x then m_set_last_slow x (u / si (md x) * si (md x)) else x.

Definition rf (s : st) : st := set_mods s (refill_mods s).

(* every polled module has a positive slow interval (the datatype of slowinterval is FloatRange(0.1, 120)) *)
Definition wf (s : st) : Prop := forall k, en s k = true -> 0 < sint s k.

Lemma get_mod_rf : forall s k, alive s = true -> get_mod (rf s) k = rfun (now s) (get_mod s k).
Proof.
  intros s k Al. unfold rf, get_mod, refill_mods; simpl. rewrite Al.
  change m0 with (rfun (now s) m0) at 1. apply map_nth.
Qed.

Lemma floor_bounds : forall u i, 0 < i -> u - i < u / i * i <= u.
Proof.
  intros u i Hi. pose proof (Z.mod_pos_bound u i Hi). pose proof (Z.div_mod u i ltac:(lia)). nia.
Qed.

Lemma rf_spec : forall s, alive s = true -> wf s ->
  nmods (rf s) = nmods s /\
  (forall k, dsc (rf s) k = dsc s k /\ iv (rf s) k = iv s k /\ lm (rf s) k = lm s k) /\
  (forall k j, tsp (rf s) k j = tsp s k j) /\
  (forall k, en s k = true -> now s <= lsl (rf s) k + sint s k) /\
  (forall k, lsl (rf s) k = lsl s k \/
             (slow_due (now s) (get_mod s k) = true /\ now s - sint s k < lsl (rf s) k <= now s)).
Proof.
  intros s Al Wf. split; [|split; [|split; [|split]]].
  - unfold nmods, rf, refill_mods; simpl. rewrite Al. apply map_length.
  - intros k. unfold dsc, iv, lm. rewrite (get_mod_rf s k Al). unfold rfun. destruct (slow_due _ _); auto.
  - intros k j. unfold tsp. rewrite (get_mod_rf s k Al). unfold rfun. destruct (slow_due _ _); auto.
  - intros k He. unfold lsl. rewrite (get_mod_rf s k Al). unfold rfun. pose proof (Wf k He) as Hs.
    unfold sint, dsc in *. destruct (slow_due _ _) eqn:D.
    + simpl. pose proof (floor_bounds (now s) _ Hs). lia.
    + unfold slow_due in D. unfold en, dsc in He. rewrite He in D. simpl in D. apply Z.ltb_ge in D. exact D.
  - intros k. unfold lsl. rewrite (get_mod_rf s k Al). unfold rfun. destruct (slow_due _ _) eqn:D; [right|left; reflexivity].
    split; [reflexivity|]. simpl. assert (He : en s k = true).
    { unfold slow_due in D. apply andb_true_iff in D. apply D. }
    pose proof (floor_bounds (now s) _ (Wf k He)). unfold sint, dsc in *. lia.
Qed.

(* which entries a refill puts into the iterator *)
Lemma in_flat_sel : forall (g : mstate -> bool) ms k m i, g m0 = false ->
  (In (m, i) (flat_map (fun im : nat * mstate => if g (snd im) then map (fun i => (fst im, i)) (polled_params (md (snd im))) else [])
                       (combine (seq k (length ms)) ms)) <->
   (k <= m)%nat /\ g (nth (m - k) ms m0) = true /\ In i (polled_params (md (nth (m - k) ms m0)))).
Proof.
  intros g ms; induction ms as [|x ms IH]; intros k m i G0; simpl.
  - split; [contradiction|]. intros (_ & H & _). destruct (m - k)%nat; congruence.
  - rewrite in_app_iff, (IH (S k) m i G0). split.
    + intros [H|(Hk & Hg & Hi)].
      * destruct (g x) eqn:G; [|contradiction]. apply in_map_iff in H. destruct H as (j & Hj & Hin).
        inversion Hj; subst. rewrite Nat.sub_diag. split; [lia|]. split; assumption.
      * replace (m - k)%nat with (S (m - S k)) by lia. split; [lia|]. split; assumption.
    + intros (Hk & Hg & Hi). destruct (Nat.eq_dec m k) as [->|Hne].
      * rewrite Nat.sub_diag in *. left. rewrite Hg. apply in_map_iff. exists i. split; [reflexivity|exact Hi].
      * right. replace (m - k)%nat with (S (m - S k)) in * by lia. split; [lia|]. split; assumption.
Qed.

Lemma in_refill_list : forall s m i, alive s = true ->
  (In (m, i) (refill_list s) <-> slow_due (now s) (get_mod s m) = true /\ In i (polled_params (dsc s m))).
Proof.
  intros s m i Al. unfold refill_list. rewrite Al.
  rewrite (in_flat_sel (slow_due (now s)) (mods s) 0 m i) by reflexivity.
  rewrite Nat.sub_0_r. unfold get_mod, dsc, get_mod. split; [intros (_ & H); exact H|intros H; split; [lia|exact H]].
Qed.

(* the number of polled parameters of the polled modules: no iterator is longer *)
Definition npol (ds : list mdesc) : nat :=
  fold_right (fun d n => ((if enable d then length (polled_params d) else 0) + n)%nat) 0%nat ds.

Lemma flat_sel_length : forall (g : mstate -> bool) ms k, (forall x, g x = true -> enable (md x) = true) ->
  (length (flat_map (fun im : nat * mstate => if g (snd im) then map (fun i => (fst im, i)) (polled_params (md (snd im))) else [])
                    (combine (seq k (length ms)) ms)) <= npol (map md ms))%nat.
Proof.
  intros g ms; induction ms as [|x ms IH]; intros k Hg; simpl; [lia|].
  rewrite app_length. specialize (IH (S k) Hg). destruct (g x) eqn:G.
  - rewrite (Hg x G), map_length. lia.
  - simpl. lia.
Qed.

Lemma refill_list_length : forall s, (length (refill_list s) <= npol (descs s))%nat.
Proof.
  intros s. unfold refill_list. destruct (alive s); [|simpl; lia].
  apply flat_sel_length. intros x H. unfold slow_due in H. apply andb_true_iff in H. apply H.
Qed.

Lemma descs_eq : forall s s', nmods s' = nmods s -> (forall k, dsc s' k = dsc s k) -> descs s' = descs s.
Proof.
  intros s s' N D. unfold descs. apply (nth_ext _ _ (md m0) (md m0)).
  - rewrite !map_length. exact N.
  - intros k _. rewrite !map_nth. apply D.
Qed.

(* after a refill no module is due *)
Lemma rf_not_due : forall s k, alive s = true -> wf s -> slow_due (now s) (get_mod (rf s) k) = false.
Proof.
  intros s k Al Wf. destruct (rf_spec s Al Wf) as (_ & D & _ & R & _).
  unfold slow_due. destruct (enable (md (get_mod (rf s) k))) eqn:E; [|reflexivity]. simpl.
  assert (He : en s k = true). { unfold en. destruct (D k) as (d & _). rewrite <- d. exact E. }
  apply Z.ltb_ge. specialize (R k He). destruct (D k) as (d & _). unfold lsl, sint, dsc in *. rewrite d. exact R.
Qed.

Lemma refill_list_rf : forall s, alive s = true -> wf s -> refill_list (rf s) = [].
Proof.
  intros s Al Wf. destruct (refill_list (rf s)) as [|[m i] l] eqn:E; [reflexivity|].
  assert (H : In (m, i) (refill_list (rf s))) by (rewrite E; left; reflexivity).
  apply (in_refill_list (rf s) m i Al) in H. destruct H as [H _].
  change (now (rf s)) with (now s) in H. rewrite rf_not_due in H by assumption. discriminate H.
Qed.

Lemma refill_mods_rf : forall s, alive s = true -> wf s -> refill_mods (rf s) = mods (rf s).
Proof.
  intros s Al Wf. unfold refill_mods. change (alive (rf s)) with (alive s). rewrite Al.
  rewrite <- (map_id (mods (rf s))) at 2. apply map_ext_in. intros x Hx.
  destruct (In_nth _ _ m0 Hx) as (k & _ & Hk).
  pose proof (rf_not_due s k Al Wf) as H. unfold get_mod in H. rewrite Hk in H.
  change (now (rf s)) with (now s). rewrite H. reflexivity.
Qed.

(* ------------------------------------------------------------ the three shapes of the slow phase *)
Lemma slow_phase_eq : forall W s, alive s = true -> wf s ->
  slow_phase W s =
  match scan s (cur s) with
  | Some ((m, i), rest) => fst (call_read W (set_topoll s (Some rest)) m i false)
  | None =>
      match scan (rf s) (refill_list s) with
      | Some ((m, i), rest) => fst (call_read W (set_topoll (rf s) (Some rest)) m i false)
      | None => set_topoll (rf s) None
      end
  end.
Proof.
  intros W s Al Wf. unfold slow_phase. simpl slow_loop. fold (cur s).
  destruct (scan s (cur s)) as [[[m i] rest]|]; [reflexivity|].
  fold (rf s). destruct (refill_list s) as [|p l] eqn:R; [reflexivity|].
  simpl topoll. rewrite (scan_ext (rf s) (set_topoll (rf s) (Some (p :: l))) (p :: l)) by reflexivity.
  destruct (scan (rf s) (p :: l)) as [[[m i] rest]|]; [reflexivity|].
  change (refill_list (set_topoll (rf s) (Some (p :: l)))) with (refill_list (rf s)).
  rewrite (refill_list_rf s Al Wf).
  change (refill_mods (set_topoll (rf s) (Some (p :: l)))) with (refill_mods (rf s)).
  rewrite (refill_mods_rf s Al Wf). reflexivity.
Qed.

(* ------------------------------------------------------------ quiet steps keep last_slow and move time stamps forward *)
Section SlowQuiet.
Variable W : world.
Variable dmax : Z.
Hypothesis Hd : forall k, 0 <= fst (script W k) <= dmax.
Hypothesis Heps : 0 <= eps W.

Lemma dmax_nonneg : 0 <= dmax.
Proof. pose proof (Hd 0%nat). lia. Qed.

Lemma sfr_body : forall s, acts s = [] -> sfr s (fst (body W s)).
Proof.
  intros s Ha. unfold body. pose proof (Hd (ctr s)) as H. destruct (script W (ctr s)) as [d o]. simpl in *.
  unfold sleep. simpl. rewrite Ha. simpl. apply sfr_same_mods; simpl; [reflexivity|lia].
Qed.

Lemma ts_upd_ps : forall (x : mstate) i (g : pstate -> pstate) j v, (forall p, ts (g p) = v) ->
  ts (get_ps (m_set_ps x (upd_nth i g (ps x))) j) = ts (get_ps x j) \/ ts (get_ps (m_set_ps x (upd_nth i g (ps x))) j) = v.
Proof.
  intros x i g j v Hg. unfold get_ps; simpl.
  destruct (nth_upd_nth_gen g p0 (ps x) i j) as [E|E]; rewrite E; auto.
Qed.

Lemma sfr_read_wrapped : forall s m i, acts s = [] -> sfr s (fst (read_wrapped W s m i)).
Proof.
  intros s m i Ha. unfold read_wrapped. pose proof (sfr_body s Ha) as Hb.
  destruct (body W s) as [s1 o]. simpl in Hb.
  assert (G : forall e, sfr s1 (upd_mod s1 m (fun x => m_set_ps x (upd_nth i (fun _ => {| ts := now s1; rerr := e |}) (ps x))))).
  { intros e. apply sfr_upd_mod; [intros x; reflexivity|]. intros x j.
    destruct (ts_upd_ps x i (fun _ => {| ts := now s1; rerr := e |}) j (now s1) (fun _ => eq_refl)) as [E|E];
      rewrite E; [left; reflexivity|right; lia]. }
  destruct o.
  - simpl. eapply sfr_trans; [exact Hb|apply G].
  - destruct (same_err _ _ _); simpl; [exact Hb|]. eapply sfr_trans; [exact Hb|apply G].
Qed.

Lemma sfr_poll_result : forall s m f r rc, sfr s (fst (poll_result s m f r rc)).
Proof.
  intros s m f r rc. unfold poll_result. destruct r as [[[c k] [|]]|]; simpl;
    try apply sfr_refl; apply sfr_upd_mod; intros; auto.
Qed.

Lemma sfr_emit : forall s e, sfr s (emit s e).
Proof. intros. apply sfr_same_mods; simpl; [reflexivity|lia]. Qed.

Lemma sfr_set_topoll : forall s v, sfr s (set_topoll s v).
Proof. intros. apply sfr_same_mods; simpl; [reflexivity|lia]. Qed.

Lemma sfr_call_read : forall s m i rc, acts s = [] -> sfr s (fst (call_read W s m i rc)).
Proof.
  intros s m i rc Ha. unfold call_read.
  assert (A0 : acts (emit s (LRead (now s) m i)) = []) by exact Ha.
  pose proof (sfr_read_wrapped _ m i A0) as E1.
  destruct (read_wrapped W (emit s (LRead (now s) m i)) m i) as [s1 r]. simpl in E1.
  eapply sfr_trans; [apply sfr_emit|]. eapply sfr_trans; [exact E1|apply sfr_poll_result].
Qed.

Lemma sfr_main_reads : forall m l s, acts s = [] -> sfr s (fst (main_reads W s m l)).
Proof.
  intros m l; induction l as [|i l IH]; intros s Ha; simpl main_reads; [apply sfr_refl|].
  assert (A0 : acts (emit s (LMRead (now s) m i)) = []) by exact Ha.
  pose proof (sfr_read_wrapped _ m i A0) as E1.
  pose proof (adv_read_wrapped W dmax Hd _ m i A0) as D1.
  destruct (read_wrapped W (emit s (LMRead (now s) m i)) m i) as [s1 res]. simpl in E1, D1.
  assert (A1 : acts s1 = []) by apply D1.
  destruct res as [e|]; simpl fst.
  - eapply sfr_trans; [apply sfr_emit|exact E1].
  - eapply sfr_trans; [apply sfr_emit|]. eapply sfr_trans; [exact E1|apply IH; exact A1].
Qed.

Lemma sfr_call_main : forall s m, acts s = [] -> sfr s (call_main W s m).
Proof.
  intros s m Ha. unfold call_main.
  assert (A0 : acts (emit s (LMain (now s) m)) = []) by exact Ha.
  pose proof (sfr_body _ A0) as E1. pose proof (adv_body W dmax Hd _ A0) as D1.
  destruct (body W (emit s (LMain (now s) m))) as [s1 o]. simpl in E1, D1.
  assert (A1 : acts s1 = []) by apply D1.
  destruct o.
  - pose proof (sfr_main_reads m (mainreads (md (get_mod s1 m))) s1 A1) as E2.
    destruct (main_reads W s1 m (mainreads (md (get_mod s1 m)))) as [s2 r]. simpl in E2.
    eapply sfr_trans; [apply sfr_emit|]. eapply sfr_trans; [exact E1|]. eapply sfr_trans; [exact E2|apply sfr_poll_result].
  - eapply sfr_trans; [apply sfr_emit|]. eapply sfr_trans; [exact E1|apply sfr_poll_result].
Qed.

Lemma sfr_main_step : forall s m, acts s = [] -> sfr s (main_step W s m) /\ acts (main_step W s m) = [].
Proof.
  intros s m Ha. unfold main_step. destruct (negb (alive s)); [split; [apply sfr_refl|exact Ha]|].
  destruct (_ && _); [|split; [apply sfr_refl|exact Ha]].
  set (s1 := upd_mod s m (fun y => m_set_last_main y (new_last_main (now s) (interval y)))).
  assert (A1 : acts s1 = []) by exact Ha.
  split.
  - eapply sfr_trans; [|apply sfr_call_main; exact A1]. apply sfr_upd_mod; intros; auto.
  - destruct (adv_call_main W dmax Hd s1 m A1) as [(A2 & _) _]. exact A2.
Qed.

Lemma sfr_fold_main : forall l s, acts s = [] -> sfr s (fold_left (main_step W) l s).
Proof.
  intros l; induction l as [|m l IH]; intros s Ha; simpl; [apply sfr_refl|].
  destruct (sfr_main_step s m Ha) as [E A]. eapply sfr_trans; [exact E|apply IH; exact A].
Qed.

(* the main polls of a turn, seen from the slow polls *)
Lemma main_part : forall s, quiet s ->
  let s1 := main_phase W (top W s) in
  acts s1 = [] /\ alive s1 = true /\ finished s1 = false /\ nmods s1 = nmods s /\
  (forall k, dsc s1 k = dsc s k /\ iv s1 k = iv s k) /\ topoll s1 = topoll s /\
  now s + eps W <= now s1 <= now s + eps W + csum dmax s (seq 0 (nmods s)) /\
  (exists l, log s1 = l ++ log s) /\ sfr s s1.
Proof.
  intros s (Ha & Al & Fi). simpl.
  assert (At : acts (top W s) = []) by exact Ha.
  assert (Alt : alive (top W s) = true) by exact Al.
  pose proof (main_fold_spec W dmax Hd (seq 0 (length (mods (top W s)))) (top W s) At Alt (seq_NoDup _ _)
                (fun m H => proj2 (proj1 (in_seq _ _ _) H))) as H. simpl in H.
  change (fold_left (main_step W) (seq 0 (length (mods s))) (top W s)) with (main_phase W (top W s)) in H.
  destruct H as (A1 & L1 & N1 & K1 & T1 & [g1 G1] & _).
  split; [exact A1|]. split; [exact L1|]. split.
  { destruct (ext_main_phase W (top W s)) as (_ & _ & F & _). rewrite F. exact Fi. }
  split; [exact N1|]. split; [intros k; destruct (K1 k) as (a & b & _); split; assumption|].
  split; [rewrite tp_main_phase; reflexivity|]. split.
  { assert (Cs : csum dmax (top W s) (seq 0 (length (mods s))) = csum dmax s (seq 0 (nmods s))).
    { apply csum_ext. intros k; reflexivity. }
    rewrite Cs in T1. simpl now in T1. exact T1. }
  split.
  { exists (g1 ++ [LTurn (now s + eps W)]). rewrite G1, <- app_assoc. reflexivity. }
  eapply sfr_trans; [|apply (sfr_fold_main _ (top W s) At)].
  apply sfr_same_mods; simpl; [reflexivity|lia].
Qed.

(* one poller read out of the iterator *)
Lemma consume_spec : forall z m i rest, acts z = [] ->
  let z' := fst (call_read W (set_topoll z (Some rest)) m i false) in
  adv z z' dmax /\ sfr z z' /\ topoll z' = Some rest /\ In (LRead (now z) m i) (log z').
Proof.
  intros z m i rest Ha. simpl.
  assert (A0 : acts (set_topoll z (Some rest)) = []) by exact Ha.
  split; [|split; [|split]].
  - eapply adv_weaken; [eapply adv_trans; [apply adv_set_topoll; exact Ha|apply (adv_call_read W dmax Hd); exact A0]|lia].
  - eapply sfr_trans; [apply sfr_set_topoll|apply sfr_call_read; exact A0].
  - rewrite tp_call_read. reflexivity.
  - unfold call_read.
    set (z0 := emit (set_topoll z (Some rest)) (LRead (now (set_topoll z (Some rest))) m i)).
    assert (Az : acts z0 = []) by exact Ha.
    pose proof (adv_read_wrapped W dmax Hd z0 m i Az) as D1.
    destruct (read_wrapped W z0 m i) as [z1 r]. simpl in D1.
    assert (A1 : acts z1 = []) by apply D1.
    pose proof (adv_poll_result z1 m (S i) r false A1) as D2.
    destruct (adv_trans _ _ _ _ _ D1 D2) as (_ & _ & _ & _ & _ & [l L]).
    rewrite L. apply in_or_app. right. left. reflexivity.
Qed.

Lemma adv_rf : forall s, acts s = [] -> adv s (rf s) 0.
Proof.
  intros s Ha. unfold adv, rf; simpl. split; [exact Ha|]. split; [split; reflexivity|]. unfold refill_mods.
  destruct (alive s); [|repeat split; auto; try lia; exists []; reflexivity].
  split; [apply map_length|]. split.
  - intros j. unfold get_mod; simpl.
    change m0 with (rfun (now s) m0) at 1 3 5. unfold rfun.
    rewrite (map_nth (fun x => if slow_due (now s) x then m_set_last_slow x (now s / si (md x) * si (md x)) else x)).
    destruct (slow_due _ _); repeat split.
  - split; [lia|]. exists []; reflexivity.
Qed.

(* ------------------------------------------------------------ the shapes of the slow phase, with what they do *)
Lemma slow_shapes : forall s1, acts s1 = [] -> alive s1 = true -> wf s1 ->
  let s2 := slow_phase W s1 in
  (exists pre m i rest, cur s1 = pre ++ (m, i) :: rest /\ (forall q, In q pre -> fresh s1 q) /\
     adv s1 s2 dmax /\ sfr s1 s2 /\ topoll s2 = Some rest /\ In (LRead (now s1) m i) (log s2)) \/
  ((forall q, In q (cur s1) -> fresh s1 q) /\
   exists pre m i rest, refill_list s1 = pre ++ (m, i) :: rest /\ (forall q, In q pre -> fresh (rf s1) q) /\
     adv (rf s1) s2 dmax /\ sfr (rf s1) s2 /\ topoll s2 = Some rest /\ In (LRead (now s1) m i) (log s2)) \/
  ((forall q, In q (cur s1) -> fresh s1 q) /\ (forall q, In q (refill_list s1) -> fresh (rf s1) q) /\
   s2 = set_topoll (rf s1) None).
Proof.
  intros s1 Ha Al Wf. simpl. rewrite (slow_phase_eq W s1 Al Wf).
  destruct (scan s1 (cur s1)) as [[[m i] rest]|] eqn:Sc.
  - left. destruct (scan_some _ _ _ _ Sc) as (pre & E & Hp).
    destruct (consume_spec s1 m i rest Ha) as (D & F & T & I).
    exists pre, m, i, rest. exact (conj E (conj Hp (conj D (conj F (conj T I))))).
  - right. pose proof (scan_none _ _ Sc) as Hc.
    destruct (scan (rf s1) (refill_list s1)) as [[[m i] rest]|] eqn:Sc2.
    + left. split; [exact Hc|]. destruct (scan_some _ _ _ _ Sc2) as (pre & E & Hp).
      assert (Ar : acts (rf s1) = []) by exact Ha.
      destruct (consume_spec (rf s1) m i rest Ar) as (D & F & T & I).
      exists pre, m, i, rest. exact (conj E (conj Hp (conj D (conj F (conj T I))))).
    + right. split; [exact Hc|]. split; [exact (scan_none _ _ Sc2)|reflexivity].
Qed.

(* ------------------------------------------------------------ static data *)
Definition Tn (s : st) : Z := eps W + sweep dmax s.
Definition Pn (s : st) : Z := Z.of_nat (npol (descs s)).
Definition polled (s : st) (m i : nat) : Prop := en s m = true /\ In i (polled_params (dsc s m)).
Definition sameS (s s' : st) : Prop := nmods s' = nmods s /\ forall k, dsc s' k = dsc s k.

Lemma sameS_refl : forall s, sameS s s.
Proof. intros s; split; auto. Qed.

Lemma sameS_trans : forall a b c, sameS a b -> sameS b c -> sameS a c.
Proof. intros a b c [N1 D1] [N2 D2]. split; [congruence|]. intros k. rewrite D2. apply D1. Qed.

Lemma sameS_adv : forall s s' c, adv s s' c -> sameS s s'.
Proof. intros s s' c (_ & _ & N & K & _). split; [exact N|]. intros k. apply K. Qed.

Lemma sameS_facts : forall s s', sameS s s' ->
  (forall k, en s' k = en s k) /\ (forall k, sint s' k = sint s k) /\ Tn s' = Tn s /\ Pn s' = Pn s /\
  (forall m i, polled s' m i <-> polled s m i) /\ (wf s -> wf s').
Proof.
  intros s s' [N D].
  assert (E : forall k, en s' k = en s k) by (intros k; unfold en; rewrite D; reflexivity).
  assert (S : forall k, sint s' k = sint s k) by (intros k; unfold sint; rewrite D; reflexivity).
  split; [exact E|]. split; [exact S|]. split; [|split; [|split]].
  - unfold Tn, sweep. rewrite N. f_equal. f_equal. apply csum_ext. exact D.
  - unfold Pn. rewrite (descs_eq s s' N D). reflexivity.
  - intros m i. unfold polled. rewrite E, D. tauto.
  - intros Wf k H. rewrite S. apply Wf. rewrite <- E. exact H.
Qed.

Lemma Tn_nonneg : forall s, 0 <= Tn s.
Proof.
  intros s. unfold Tn, sweep. pose proof (csum_nonneg W dmax Hd s (seq 0 (nmods s))). pose proof dmax_nonneg. lia.
Qed.

Lemma Pn_nonneg : forall s, 0 <= Pn s.
Proof. intros s. unfold Pn. lia. Qed.

(* ------------------------------------------------------------ the invariants *)
(* no polled module has a slow-poll round booked in the future *)
Definition Lw (s : st) : Prop := forall k, en s k = true -> lsl s k <= now s.

(* number of turns after which the next refill happens at the latest *)
Definition rem (s : st) : Z := match topoll s with None => 0 | Some l => Z.of_nat (length l) + 1 end.
Definition slack (s : st) : Z := match topoll s with None => 0 | Some _ => Pn s * Tn s + dmax end.

(* the next refill is never later than last_slow + slowinterval + (all polled parameters) * (one turn) + one read *)
Definition Sinv (s : st) : Prop :=
  forall k, en s k = true -> now s + rem s * Tn s <= lsl s k + sint s k + slack s.

(* evidence that parameter i of module m was refreshed at a time t with x <= 2 t: its time stamp, or a read by the poller *)
Definition Evd (s : st) (m i : nat) (x : Z) : Prop :=
  x <= 2 * tsp s m i \/ exists t, x <= 2 * t /\ In (LRead t m i) (log s).

(* a polled parameter is waiting in the iterator, or was refreshed since half a slow interval before the round of its
   module was booked *)
Definition Q1 (s : st) : Prop :=
  forall m i, polled s m i -> In (m, i) (cur s) \/ Evd s m i (2 * lsl s m - sint s m).

Definition BB (s : st) (m : nat) : Z := 3 * sint s m + 4 * (Pn s * Tn s) + 4 * dmax.

(* while it waits in the iterator, its last refresh is not older than BB / 2 at the projected end of the round *)
Definition Q2 (s : st) : Prop :=
  forall m i, polled s m i -> In (m, i) (cur s) -> Evd s m i (2 * (now s + rem s * Tn s) - BB s m).

Lemma Evd_weaken : forall s m i x x', x' <= x -> Evd s m i x -> Evd s m i x'.
Proof. intros s m i x x' H [E|(t & E & I)]; [left; lia|right; exists t; split; [lia|exact I]]. Qed.

Lemma Evd_step : forall s s' m i x, sfr s s' -> (exists l, log s' = l ++ log s) -> x <= 2 * now s ->
  Evd s m i x -> Evd s' m i x.
Proof.
  intros s s' m i x (N & _ & T) [l L] Hx [E|(t & E & I)].
  - left. destruct (T m i) as [Q|Q]; [rewrite Q; exact E|lia].
  - right. exists t. split; [exact E|]. rewrite L. apply in_or_app. right; exact I.
Qed.

Lemma Evd_same : forall s s' m i x, (forall k j, tsp s' k j = tsp s k j) -> log s' = log s -> Evd s m i x -> Evd s' m i x.
Proof. intros s s' m i x T L [E|(t & E & I)]; [left; rewrite T; exact E|right; exists t; rewrite L; auto]. Qed.

(* ------------------------------------------------------------ one turn *)
Lemma mulT : forall a b T, 0 <= T -> a <= b -> a * T <= b * T.
Proof. intros. apply Z.mul_le_mono_nonneg_r; assumption. Qed.

(* when every entry of the iterator is fresh, every polled parameter has been refreshed since half a slow interval
   before the current round of its module was booked *)
Lemma all_strong : forall s s1, wf s -> Lw s -> Q1 s -> sameS s s1 -> topoll s1 = topoll s -> sfr s s1 ->
  (exists l, log s1 = l ++ log s) -> (forall q, In q (cur s1) -> fresh s1 q) ->
  forall m i, polled s m i -> Evd s1 m i (2 * lsl s m - sint s m).
Proof.
  intros s s1 Wf L q1 St Tp Fr Lg Hf m i Hp.
  destruct (sameS_facts s s1 St) as (_ & Si & _).
  pose proof (Wf m (proj1 Hp)) as Hsi. pose proof (L m (proj1 Hp)) as Hl.
  destruct (q1 m i Hp) as [Hin|He].
  - assert (Hin1 : In (m, i) (cur s1)) by (unfold cur in *; rewrite Tp; exact Hin).
    pose proof (Hf _ Hin1) as F. unfold fresh in F; cbn [fst snd] in F. rewrite Si in F.
    destruct Fr as (N & _). left. lia.
  - apply (Evd_step s s1 m i _ Fr Lg); [lia|exact He].
Qed.

Lemma turn_slow : forall s, quiet s -> wf s -> Lw s -> Q1 s ->
  let s' := turn W s in
  sameS s s' /\ Lw s' /\ Q1 s' /\ ((topoll s = None \/ Sinv s) -> Sinv s') /\ (Sinv s -> Q2 s -> Q2 s').
Proof.
  intros s Q Wf L q1. pose proof Q as (Ha & Al & Fi). simpl.
  pose proof (Tn_nonneg s) as HT. pose proof (Pn_nonneg s) as HP. pose proof dmax_nonneg as HD.
  rewrite (turn_unfold W s Q). destruct (waits W s) eqn:Wt.
  - (* the thread sleeps *)
    unfold waits in Wt. apply andb_true_iff in Wt. destruct Wt as [C Tp]. apply Z.ltb_lt in C.
    assert (Tp0 : topoll s = None) by (destruct (topoll s); [discriminate|reflexivity]). clear Tp.
    destruct (wait_clear_quiet W (top W s) _ Ha C) as (A & _ & _ & M & T & [lg G] & Tp').
    set (s' := set_ev (fire_due W (wait W (top W s) (wait_time (mods s) (now s + eps W)))) false) in *.
    change (mods (top W s)) with (mods s) in M. change (topoll (top W s)) with (topoll s) in Tp'.
    change (now (top W s)) with (now s + eps W) in T.
    change (log (top W s)) with (LTurn (now s + eps W) :: log s) in G.
    assert (St : sameS s s').
    { split; [unfold nmods; rewrite M; reflexivity|]. intros k. unfold dsc, get_mod. rewrite M. reflexivity. }
    assert (Fr : sfr s s') by (apply sfr_same_mods; [exact M|lia]).
    assert (Lg : exists l, log s' = l ++ log s).
    { exists (lg ++ [LTurn (now s + eps W)]). rewrite G, <- app_assoc. reflexivity. }
    destruct (sameS_facts s s' St) as (En & Si & TT & PP & Pol & _).
    destruct Fr as (N & Ls & Ts).
    assert (Cu : cur s' = []) by (unfold cur; rewrite Tp', Tp0; reflexivity).
    assert (Cu0 : cur s = []) by (unfold cur; rewrite Tp0; reflexivity).
    split; [exact St|]. split; [|split; [|split]].
    + intros k Hk. rewrite En in Hk. rewrite Ls. specialize (L k Hk). lia.
    + intros m i Hp. apply Pol in Hp. right. rewrite Ls, Si.
      destruct (q1 m i Hp) as [Hin|He]; [rewrite Cu0 in Hin; contradiction|].
      apply (Evd_step s s' m i _ (conj N (conj Ls Ts)) Lg); [|exact He].
      pose proof (Wf m (proj1 Hp)). pose proof (L m (proj1 Hp)). lia.
    + intros _ k Hk. rewrite En in Hk. unfold rem, slack. rewrite Tp', Tp0, Ls, Si.
      destruct (wait_time_le (mods s) (now s + eps W) (get_mod s k) (get_mod_in s k (en_lt s k Hk)) Hk) as [_ W2].
      unfold lsl, sint, dsc. lia.
    + intros _ _ m i _ Hin. rewrite Cu in Hin. contradiction.
  - (* the thread works: main polls, then the slow phase *)
    destruct (main_part s Q) as (A1 & Al1 & Fi1 & N1 & K1 & Tp1 & Tm1 & Lg1 & Fr1).
    set (s1 := main_phase W (top W s)) in *.
    assert (St1 : sameS s s1) by (split; [exact N1|intros k; apply K1]).
    destruct (sameS_facts s s1 St1) as (En1 & Si1 & TT1 & PP1 & Pol1 & Wf1).
    specialize (Wf1 Wf).
    assert (Hu : now s <= now s1 /\ now s1 + dmax <= now s + Tn s).
    { unfold Tn, sweep. lia. }
    assert (Cu1 : cur s1 = cur s) by (unfold cur; rewrite Tp1; reflexivity).
    destruct Fr1 as (_ & Ls1 & Ts1).
    assert (Fr1 : sfr s s1) by (split; [lia|split; assumption]).
    destruct (slow_shapes s1 A1 Al1 Wf1) as
      [(pre & m' & i' & rest & Ec & Hpre & D2 & F2 & Tp2 & I2)
      |[(Hc & pre & m' & i' & rest & Er & Hpre & D2 & F2 & Tp2 & I2)|(Hc & Hr & E2)]].
    + (* an entry of the running round is read *)
      set (s2 := slow_phase W s1) in *.
      assert (St2 : sameS s s2) by (eapply sameS_trans; [exact St1|apply (sameS_adv _ _ _ D2)]).
      destruct (sameS_facts s s2 St2) as (En & Si & TT & PP & Pol & _).
      destruct D2 as (A2 & _ & _ & _ & Tm2 & Lg2).
      pose proof (sfr_trans _ _ _ Fr1 F2) as Fr.
      assert (Lg : exists l, log s2 = l ++ log s).
      { destruct Lg1 as [l1 G1]. destruct Lg2 as [l2 G2]. exists (l2 ++ l1). rewrite G2, G1, app_assoc. reflexivity. }
      destruct Fr as (N & Ls & Ts).
      rewrite Cu1 in Ec. unfold cur in Ec.
      destruct (topoll s) as [l|] eqn:Tp0; [|destruct pre; discriminate Ec].
      rename Ec into El.
      assert (Hlen : Z.of_nat (length l) = Z.of_nat (length pre) + 1 + Z.of_nat (length rest)).
      { rewrite El, app_length. simpl length. lia. }
      pose proof (Zle_0_nat (length pre)) as Hpre0. pose proof (Zle_0_nat (length rest)) as Hrest0.
      assert (Cu2 : cur s2 = rest) by (unfold cur; rewrite Tp2; reflexivity).
      assert (Cu0 : cur s = l) by (unfold cur; rewrite Tp0; reflexivity).
      assert (Hprod : (Z.of_nat (length rest) + 1) * Tn s + Tn s <= (Z.of_nat (length l) + 1) * Tn s).
      { pose proof (mulT (Z.of_nat (length rest) + 2) (Z.of_nat (length l) + 1) (Tn s) HT ltac:(lia)). lia. }
      split; [exact St2|]. split; [|split; [|split]].
      * intros k Hk. rewrite En in Hk. rewrite Ls. specialize (L k Hk). lia.
      * intros m i Hp. apply Pol in Hp. rewrite Cu2, Ls, Si.
        destruct (in_dec pair_dec (m, i) rest) as [Hin|Hnin]; [left; exact Hin|right].
        pose proof (Wf m (proj1 Hp)) as Hsi. pose proof (L m (proj1 Hp)) as Hl.
        destruct (q1 m i Hp) as [Hin|He].
        { rewrite Cu0, El in Hin. apply in_app_or in Hin. destruct Hin as [Hin|[Heq|Hin]]; [| |contradiction].
          - pose proof (Hpre _ Hin) as F. unfold fresh in F; cbn [fst snd] in F. rewrite Si1 in F.
            apply (Evd_step s1 s2 m i _ F2 Lg2); [lia|]. left. lia.
          - inversion Heq; subst m' i'. right. exists (now s1). split; [lia|exact I2]. }
        { apply (Evd_step s s2 m i _ (conj N (conj Ls Ts)) Lg); [lia|exact He]. }
      * intros [H|Sv]; [discriminate H|]. intros k Hk. rewrite En in Hk. specialize (Sv k Hk).
        unfold rem, slack in *. rewrite Tp2, Ls, Si, TT, PP. rewrite Tp0 in Sv. lia.
      * intros Sv q2 m i Hp Hin. apply Pol in Hp. rewrite Cu2 in Hin.
        assert (Hin0 : In (m, i) (cur s)).
        { rewrite Cu0, El. apply in_or_app. right. right. exact Hin. }
        pose proof (q2 m i Hp Hin0) as He. pose proof (Sv m (proj1 Hp)) as Svm.
        pose proof (Wf m (proj1 Hp)) as Hsi. pose proof (L m (proj1 Hp)) as Hl.
        unfold rem, slack, BB in *. rewrite Tp2, Si, TT, PP. rewrite Tp0 in He, Svm.
        apply (Evd_step s s2 m i _ (conj N (conj Ls Ts)) Lg); [lia|].
        eapply Evd_weaken; [|exact He]. lia.
    + (* the round is over, a new one is booked and its first entry is read *)
      set (s2 := slow_phase W s1) in *.
      destruct (rf_spec s1 Al1 Wf1) as (Nr & Kr & Tsr & R2 & R3).
      assert (Str : sameS s1 (rf s1)) by (split; [exact Nr|intros k; apply Kr]).
      assert (St2 : sameS s s2).
      { eapply sameS_trans; [exact St1|]. eapply sameS_trans; [exact Str|apply (sameS_adv _ _ _ D2)]. }
      destruct (sameS_facts s s2 St2) as (En & Si & TT & PP & Pol & _).
      destruct (sameS_facts s1 (rf s1) Str) as (_ & Sir & _).
      destruct D2 as (A2 & _ & _ & _ & Tm2 & Lg2). change (now (rf s1)) with (now s1) in Tm2.
      change (log (rf s1)) with (log s1) in Lg2.
      destruct F2 as (_ & Ls2 & Ts2). change (now (rf s1)) with (now s1) in Ts2.
      assert (F2 : sfr (rf s1) s2) by (split; [simpl; lia|split; assumption]).
      assert (Cu2 : cur s2 = rest) by (unfold cur; rewrite Tp2; reflexivity).
      assert (Hlen : Z.of_nat (length pre) + 1 + Z.of_nat (length rest) <= Pn s).
      { pose proof (refill_list_length s1) as H. rewrite Er, app_length in H. simpl length in H.
        rewrite (descs_eq s s1 N1 (fun k => proj1 (K1 k))) in H. unfold Pn. lia. }
      pose proof (Zle_0_nat (length pre)) as Hpre0. pose proof (Zle_0_nat (length rest)) as Hrest0.
      assert (Hprod : (Z.of_nat (length rest) + 1) * Tn s <= Pn s * Tn s).
      { apply mulT; [exact HT|lia]. }
      assert (Lr : forall k, en s k = true -> lsl (rf s1) k <= now s1).
      { intros k Hk. destruct (R3 k) as [E|[_ E]]; [rewrite E, Ls1; specialize (L k Hk); lia|lia]. }
      pose proof (all_strong s s1 Wf L q1 St1 Tp1 Fr1 Lg1 Hc) as Strong.
      split; [exact St2|]. split; [|split; [|split]].
      * intros k Hk. rewrite En in Hk. rewrite Ls2. specialize (Lr k Hk). lia.
      * intros m i Hp. apply Pol in Hp. rewrite Cu2, Ls2, Si.
        destruct (in_dec pair_dec (m, i) rest) as [Hin|Hnin]; [left; exact Hin|right].
        pose proof (Wf m (proj1 Hp)) as Hsi. pose proof (Lr m (proj1 Hp)) as Hl.
        destruct (R3 m) as [E|[Due E]].
        { apply (Evd_step (rf s1) s2 m i _ F2 Lg2); [simpl now; lia|].
          rewrite E, Ls1. apply (Evd_same s1 (rf s1)); [exact Tsr|reflexivity|]. apply Strong; exact Hp. }
        { assert (Hin : In (m, i) (refill_list s1)).
          { apply (in_refill_list s1 m i Al1). split; [exact Due|]. destruct (K1 m) as (d & _). rewrite d. apply Hp. }
          rewrite Er in Hin. apply in_app_or in Hin. destruct Hin as [Hin|[Heq|Hin]]; [| |contradiction].
          - apply (Evd_step (rf s1) s2 m i _ F2 Lg2); [simpl now; lia|].
            pose proof (Hpre _ Hin) as F. unfold fresh in F; cbn [fst snd] in F. change (now (rf s1)) with (now s1) in F.
            rewrite Sir, Si1 in F. left. lia.
          - inversion Heq; subst m' i'. right. exists (now s1). split; [lia|exact I2]. }
      * intros _ k Hk. rewrite En in Hk. unfold rem, slack. rewrite Tp2, Ls2, Si, TT, PP.
        specialize (R2 k (eq_trans (En1 k) Hk)). rewrite Si1 in R2. lia.
      * intros Sv _ m i Hp Hin. apply Pol in Hp. rewrite Cu2 in Hin.
        pose proof (Wf m (proj1 Hp)) as Hsi. pose proof (L m (proj1 Hp)) as Hl.
        pose proof (Sv m (proj1 Hp)) as Svm. unfold rem, slack, BB in *. rewrite Tp2, Si, TT, PP.
        assert (Hr1 : 1 <= Z.of_nat (length rest)) by (destruct rest; [contradiction|simpl length; lia]).
        assert (HPT : Tn s <= Pn s * Tn s).
        { pose proof (mulT 1 (Pn s) (Tn s) HT ltac:(lia)). lia. }
        assert (Hub : now s1 <= lsl s m + sint s m + Pn s * Tn s + dmax).
        { destruct (topoll s) as [l|]; [|lia].
          pose proof (Zle_0_nat (length l)). pose proof (mulT 1 (Z.of_nat (length l) + 1) (Tn s) HT ltac:(lia)). lia. }
        apply (Evd_step (rf s1) s2 m i _ F2 Lg2); [simpl now; lia|].
        apply (Evd_same s1 (rf s1)); [exact Tsr|reflexivity|].
        eapply Evd_weaken; [|apply Strong; exact Hp]. lia.
    + (* the round is over and nothing (that is not fresh) is due *)
      set (s2 := slow_phase W s1) in *.
      destruct (rf_spec s1 Al1 Wf1) as (Nr & Kr & Tsr & R2 & R3).
      assert (Str : sameS s1 (rf s1)) by (split; [exact Nr|intros k; apply Kr]).
      assert (St2 : sameS s s2).
      { eapply sameS_trans; [exact St1|]. rewrite E2. exact Str. }
      destruct (sameS_facts s s2 St2) as (En & Si & TT & PP & Pol & _).
      destruct (sameS_facts s1 (rf s1) Str) as (_ & Sir & _).
      assert (Lr : forall k, en s k = true -> lsl (rf s1) k <= now s1).
      { intros k Hk. destruct (R3 k) as [E|[_ E]]; [rewrite E, Ls1; specialize (L k Hk); lia|lia]. }
      pose proof (all_strong s s1 Wf L q1 St1 Tp1 Fr1 Lg1 Hc) as Strong.
      assert (Ls2 : forall k, lsl s2 k = lsl (rf s1) k) by (intros k; rewrite E2; reflexivity).
      assert (Cu2 : cur s2 = []) by (rewrite E2; reflexivity).
      assert (N2 : now s2 = now s1) by (rewrite E2; reflexivity).
      split; [exact St2|]. split; [|split; [|split]].
      * intros k Hk. rewrite En in Hk. rewrite Ls2, N2. apply Lr; exact Hk.
      * intros m i Hp. apply Pol in Hp. right. rewrite Ls2, Si.
        apply (Evd_same (rf s1) s2); [intros; rewrite E2; reflexivity|rewrite E2; reflexivity|].
        apply (Evd_same s1 (rf s1)); [exact Tsr|reflexivity|].
        destruct (R3 m) as [E|[Due E]].
        { rewrite E, Ls1. apply Strong; exact Hp. }
        { assert (Hin : In (m, i) (refill_list s1)).
          { apply (in_refill_list s1 m i Al1). split; [exact Due|]. destruct (K1 m) as (d & _). rewrite d. apply Hp. }
          pose proof (Hr _ Hin) as F. unfold fresh in F; cbn [fst snd] in F. change (now (rf s1)) with (now s1) in F.
          rewrite Sir, Si1, Tsr in F. left. lia. }
      * intros _ k Hk. rewrite En in Hk. unfold rem, slack. rewrite E2. simpl topoll. rewrite <- E2, Ls2, Si, N2.
        specialize (R2 k (eq_trans (En1 k) Hk)). rewrite Si1 in R2. lia.
      * intros _ _ m i _ Hin. rewrite Cu2 in Hin. contradiction.
Qed.

(* ------------------------------------------------------------ many turns *)
Lemma turns_S : forall n s, turns W (S n) s = turns W n (turn W s).
Proof. reflexivity. Qed.

Lemma turns_add : forall a b s, turns W (a + b) s = turns W b (turns W a s).
Proof. intros a; induction a as [|a IH]; intros b s; simpl; [reflexivity|apply IH]. Qed.

Lemma turn_quiet' : forall s, quiet s -> quiet (turn W s).
Proof. intros s Q. apply (turn_quiet W dmax Hd s Q). Qed.

(* the part of the invariants that holds from the start of the thread on *)
Lemma turns_base : forall n s, quiet s -> wf s -> Lw s -> Q1 s ->
  let s' := turns W n s in quiet s' /\ sameS s s' /\ wf s' /\ Lw s' /\ Q1 s'.
Proof.
  intros n; induction n as [|n IH]; intros s Q Wf L q1; simpl.
  { split; [exact Q|]. split; [apply sameS_refl|]. auto. }
  destruct (turn_slow s Q Wf L q1) as (St & L' & q1' & _).
  destruct (sameS_facts s (turn W s) St) as (_ & _ & _ & _ & _ & Wf').
  destruct (IH (turn W s) (turn_quiet' s Q) (Wf' Wf) L' q1') as (Q2' & St2 & R).
  split; [exact Q2'|]. split; [eapply sameS_trans; eassumption|exact R].
Qed.

(* after the first turn the next refill is always in time *)
Lemma turns_Sinv : forall n s, quiet s -> wf s -> Lw s -> Q1 s -> (topoll s = None \/ Sinv s) -> Sinv (turns W (S n) s).
Proof.
  intros n; induction n as [|n IH]; intros s Q Wf L q1 H.
  - simpl. destruct (turn_slow s Q Wf L q1) as (_ & _ & _ & S' & _). apply S'; exact H.
  - rewrite turns_S. destruct (turn_slow s Q Wf L q1) as (St & L' & q1' & S' & _).
    destruct (sameS_facts s (turn W s) St) as (_ & _ & _ & _ & _ & Wf').
    apply IH; [apply turn_quiet'; exact Q|apply Wf'; exact Wf|exact L'|exact q1'|right; apply S'; exact H].
Qed.

Definition slow_inv (s : st) : Prop := wf s /\ Lw s /\ Sinv s /\ Q1 s /\ Q2 s.

Lemma turns_slow_inv : forall n s, quiet s -> slow_inv s ->
  let s' := turns W n s in quiet s' /\ sameS s s' /\ slow_inv s'.
Proof.
  intros n; induction n as [|n IH]; intros s Q (Wf & L & Sv & q1 & q2); simpl.
  { split; [exact Q|]. split; [apply sameS_refl|]. repeat split; assumption. }
  destruct (turn_slow s Q Wf L q1) as (St & L' & q1' & S' & q2').
  destruct (sameS_facts s (turn W s) St) as (_ & _ & _ & _ & _ & Wf').
  assert (I' : slow_inv (turn W s)).
  { split; [apply Wf'; exact Wf|]. split; [exact L'|]. split; [apply S'; right; exact Sv|]. split; [exact q1'|].
    apply q2'; assumption. }
  destruct (IH (turn W s) (turn_quiet' s Q) I') as (Q2' & St2 & R).
  split; [exact Q2'|]. split; [eapply sameS_trans; eassumption|exact R].
Qed.

(* nothing waits in the iterator: the second invariant about waiting entries holds trivially *)
Lemma slow_inv_idle : forall s, wf s -> Lw s -> Sinv s -> Q1 s -> cur s = [] -> slow_inv s.
Proof.
  intros s Wf L Sv q1 C. repeat split; try assumption. intros m i _ Hin. rewrite C in Hin. contradiction.
Qed.

(* the bound: every polled parameter was refreshed (time stamp) or read by the poller not longer ago than BB / 2 *)
Lemma stale_bound : forall s, slow_inv s -> forall m i, polled s m i -> Evd s m i (2 * now s - BB s m).
Proof.
  intros s (Wf & L & Sv & q1 & q2) m i Hp.
  pose proof (Tn_nonneg s) as HT. pose proof (Pn_nonneg s) as HP. pose proof dmax_nonneg as HD.
  pose proof (Wf m (proj1 Hp)) as Hsi. pose proof (Sv m (proj1 Hp)) as Svm.
  assert (HPT : 0 <= Pn s * Tn s) by (apply Z.mul_nonneg_nonneg; assumption).
  assert (Hrem : 0 <= rem s * Tn s).
  { apply Z.mul_nonneg_nonneg; [|exact HT]. unfold rem. destruct (topoll s); lia. }
  assert (Hsl : slack s <= Pn s * Tn s + dmax) by (unfold slack; destruct (topoll s); lia).
  destruct (q1 m i Hp) as [Hin|He].
  - eapply Evd_weaken; [|apply (q2 m i Hp Hin)]. lia.
  - eapply Evd_weaken; [|exact He]. unfold BB. lia.
Qed.

(* ------------------------------------------------------------ a round is worked off *)
(* every entry of the iterator is dealt with within as many turns as the iterator is long: it is read by the poller,
   or it is skipped, which happens only when its time stamp is younger than half a slow interval *)
Lemma round_progress : forall n s l, quiet s -> wf s -> topoll s = Some l -> (length l <= n)%nat ->
  forall m i, In (m, i) l -> en s m = true ->
  exists k, (1 <= k <= length l)%nat /\
    let s' := turns W k s in
    now s' <= now s + Z.of_nat k * Tn s /\
    ((exists t, now s <= t /\ In (LRead t m i) (log s')) \/ 2 * now s <= 2 * tsp s' m i + sint s m).
Proof.
  intros n; induction n as [|n IH]; intros s l Q Wf Tp0 Hn m i Hin Hen.
  { destruct l; [contradiction|simpl in Hn; lia]. }
  pose proof Q as (Ha & Al & Fi). pose proof (Wf m Hen) as Hsi.
  pose proof (Tn_nonneg s) as HT. pose proof dmax_nonneg as HD.
  assert (Wt : waits W s = false) by (apply (no_wait_during_round W s l Tp0)).
  pose proof (turn_unfold W s Q) as Tu. rewrite Wt in Tu.
  destruct (main_part s Q) as (A1 & Al1 & Fi1 & N1 & K1 & Tp1 & Tm1 & Lg1 & Fr1).
  set (s1 := main_phase W (top W s)) in *.
  assert (St1 : sameS s s1) by (split; [exact N1|intros k; apply K1]).
  destruct (sameS_facts s s1 St1) as (En1 & Si1 & TT1 & PP1 & Pol1 & Wf1). specialize (Wf1 Wf).
  assert (Hu : now s <= now s1 /\ now s1 + dmax <= now s + Tn s) by (unfold Tn, sweep; lia).
  assert (Cu1 : cur s1 = l) by (unfold cur; rewrite Tp1, Tp0; reflexivity).
  assert (Hl1 : (1 <= length l)%nat) by (destruct l; [contradiction|simpl; lia]).
  (* the entry is fresh at the time of the scan: done after this turn *)
  assert (Gfresh : forall s2, turn W s = s2 -> (exists r, sfr r s2 /\ now r = now s1 /\ (forall k j, tsp r k j = tsp s1 k j)) ->
             now s2 <= now s1 + dmax -> fresh s1 (m, i) ->
             exists k, (1 <= k <= length l)%nat /\
               let s' := turns W k s in
               now s' <= now s + Z.of_nat k * Tn s /\
               ((exists t, now s <= t /\ In (LRead t m i) (log s')) \/ 2 * now s <= 2 * tsp s' m i + sint s m)).
  { intros s2 E2 (r & (_ & _ & Tr) & Nr & Er) Hn2 F. exists 1%nat. split; [lia|]. cbv zeta. change (turns W 1 s) with (turn W s). rewrite E2.
    split; [lia|]. right. unfold fresh in F; cbn [fst snd] in F. rewrite Si1 in F.
    destruct (Tr m i) as [E|E]; [rewrite E, Er; lia|lia]. }
  destruct (slow_shapes s1 A1 Al1 Wf1) as
    [(pre & m' & i' & rest & Ec & Hpre & D2 & F2 & Tp2 & I2)
    |[(Hc & pre & m' & i' & rest & Er & Hpre & D2 & F2 & Tp2 & I2)|(Hc & Hr & E2)]].
  - rewrite Cu1 in Ec. rewrite <- Tu in *. set (s2 := turn W s) in *.
    pose proof D2 as (_ & _ & _ & _ & Tm2 & _).
    rewrite Ec in Hin. apply in_app_or in Hin. destruct Hin as [Hin|[Heq|Hin]].
    + apply (Gfresh s2 eq_refl); [exists s1; split; [exact F2|split; auto]|lia|apply Hpre; exact Hin].
    + inversion Heq; subst m' i'. exists 1%nat. split; [lia|]. cbv zeta. change (turns W 1 s) with s2. split; [lia|].
      left. exists (now s1). split; [lia|exact I2].
    + (* still waiting: the rest of the round *)
      assert (Q2 : quiet s2) by (apply turn_quiet'; exact Q).
      assert (St2 : sameS s s2) by (eapply sameS_trans; [exact St1|apply (sameS_adv _ _ _ D2)]).
      destruct (sameS_facts s s2 St2) as (En2 & Si2 & TT2 & _ & _ & Wf2).
      assert (Hlen : length l = (length pre + S (length rest))%nat) by (rewrite Ec, app_length; reflexivity).
      destruct (IH s2 rest Q2 (Wf2 Wf) Tp2 ltac:(lia) m i Hin (eq_trans (En2 m) Hen)) as (k & Hk & Hnow & Hev).
      exists (S k). split; [lia|]. rewrite turns_S. fold s2. cbv zeta in Hnow, Hev. rewrite TT2 in Hnow. rewrite Si2 in Hev. cbv zeta.
      split; [rewrite Nat2Z.inj_succ; lia|].
      destruct Hev as [(t & Ht & It)|Hev]; [left; exists t; split; [lia|exact It]|right; lia].
  - rewrite <- Tu in *. set (s2 := turn W s) in *.
    pose proof D2 as (_ & _ & _ & _ & Tm2 & _). change (now (rf s1)) with (now s1) in Tm2.
    destruct (rf_spec s1 Al1 Wf1) as (_ & _ & Tsr & _).
    apply (Gfresh s2 eq_refl); [exists (rf s1); split; [exact F2|split; [reflexivity|exact Tsr]]|lia|].
    apply Hc. rewrite Cu1. exact Hin.
  - rewrite <- Tu in *. set (s2 := turn W s) in *.
    destruct (rf_spec s1 Al1 Wf1) as (_ & _ & Tsr & _).
    apply (Gfresh s2 eq_refl).
    + exists s2. split; [apply sfr_refl|]. rewrite E2. split; [reflexivity|]. intros k j. apply Tsr.
    + rewrite E2. simpl. lia.
    + apply Hc. rewrite Cu1. exact Hin.
Qed.

(* ------------------------------------------------------------ the start-up phase without run-time requests *)
Definition qfr (s s' : st) : Prop := (exists c, adv s s' c) /\ sfr s s'.

Lemma qfr_refl : forall s, acts s = [] -> qfr s s.
Proof. intros s Ha. split; [exists 0; apply adv_refl; exact Ha|apply sfr_refl]. Qed.

Lemma qfr_trans : forall a b c, qfr a b -> qfr b c -> qfr a c.
Proof.
  intros a b c [[x A1] F1] [[y A2] F2]. split; [exists (x + y); eapply adv_trans; eassumption|eapply sfr_trans; eassumption].
Qed.

Lemma qfr_acts : forall s s', qfr s s' -> acts s' = [].
Proof. intros s s' [[c A] _]. apply A. Qed.

Lemma qfr_body : forall s, acts s = [] -> qfr s (fst (body W s)).
Proof. intros s Ha. split; [exists dmax; apply (adv_body W dmax Hd); exact Ha|apply sfr_body; exact Ha]. Qed.

Lemma qfr_emit : forall s e, acts s = [] -> qfr s (emit s e).
Proof. intros s e Ha. split; [exists 0; apply adv_emit; exact Ha|apply sfr_emit]. Qed.

Lemma qfr_call_read : forall s m i rc, acts s = [] -> qfr s (fst (call_read W s m i rc)).
Proof.
  intros s m i rc Ha. split; [exists dmax; apply (adv_call_read W dmax Hd); exact Ha|apply sfr_call_read; exact Ha].
Qed.

Lemma qfr_init_module : forall s m, acts s = [] -> qfr s (ph_st (init_module W s m)).
Proof.
  intros s m Ha. unfold init_module. destruct (negb (alive s)); [apply qfr_refl; exact Ha|].
  set (d := md (get_mod s m)).
  set (s1 := if winit d then fst (body W (emit s (LWinit (now s) m))) else s).
  assert (E1 : qfr s s1).
  { unfold s1. destruct (winit d); [|apply qfr_refl; exact Ha].
    eapply qfr_trans; [apply qfr_emit; exact Ha|apply qfr_body; exact Ha]. }
  pose proof (qfr_acts _ _ E1) as A1.
  destruct (iread d); [|exact E1].
  assert (E2 : qfr s (fst (body W (emit s1 (LIread (now s1) m))))).
  { eapply qfr_trans; [exact E1|]. eapply qfr_trans; [apply qfr_emit; exact A1|apply qfr_body; exact A1]. }
  destruct (body W (emit s1 (LIread (now s1) m))) as [s2 o]. simpl in E2.
  destruct o as [|c k]; [exact E2|]. destruct (is_comm c); [exact E2|]. destruct initialreads_contained; exact E2.
Qed.

Lemma qfr_init_modules : forall l s, acts s = [] -> qfr s (ph_st (init_modules W s l)).
Proof.
  intros l; induction l as [|m l IH]; intros s Ha; simpl; [apply qfr_refl; exact Ha|].
  pose proof (qfr_init_module s m Ha) as E.
  destruct (init_module W s m) as [s1|s1|s1]; simpl in E; try exact E.
  eapply qfr_trans; [exact E|apply IH; apply (qfr_acts _ _ E)].
Qed.

Lemma qfr_first_reads : forall l s, acts s = [] -> qfr s (ph_st (first_reads W s l)).
Proof.
  intros l; induction l as [|[m i] l IH]; intros s Ha; simpl; [apply qfr_refl; exact Ha|].
  pose proof (qfr_call_read s m i true Ha) as E.
  destruct (call_read W s m i true) as [s1 raised]. simpl in E.
  destruct raised; simpl; [exact E|]. eapply qfr_trans; [exact E|apply IH; apply (qfr_acts _ _ E)].
Qed.

Lemma qfr_same : forall s s', acts s = [] -> acts s' = [] -> alive s' = alive s -> finished s' = finished s ->
  mods s' = mods s -> now s <= now s' -> (exists l, log s' = l ++ log s) -> qfr s s'.
Proof.
  intros s s' Ha Ha' Al Fi M N Lg. split; [|apply sfr_same_mods; assumption].
  exists (now s' - now s). unfold adv. split; [exact Ha'|]. split; [split; assumption|].
  split; [rewrite M; reflexivity|]. split; [intros k; unfold get_mod; rewrite M; auto|]. split; [lia|exact Lg].
Qed.

Lemma qfr_call_started : forall s, acts s = [] -> qfr s (call_started s).
Proof.
  intros s Ha. unfold call_started. destruct (started s); [apply qfr_refl; exact Ha|].
  apply qfr_same; simpl; auto; try lia. exists [LStarted (now s)]; reflexivity.
Qed.

Lemma qfr_wait : forall s t, acts s = [] -> 0 < t -> qfr s (wait W s t).
Proof.
  intros s t Ha Ht. destruct (wait_quiet W s t Ha Ht) as (A & L & F & M & N & G).
  apply qfr_same; auto. lia.
Qed.

(* the state in which the main loop is entered (or the thread ends, when no module is polled) *)
Lemma startup_quiet : forall s, acts s = [] ->
  let s' := startup W s in
  acts s' = [] /\ alive s' = alive s /\ sameS s s' /\ sfr s s'.
Proof.
  intros s Ha. unfold startup.
  set (ph := match init_modules W s (seq 0 (length (mods s))) with
             | PGo s1 => first_reads W s1 (all_polled (mods s1)) | other => other end).
  assert (E : qfr s (ph_st ph)).
  { unfold ph. pose proof (qfr_init_modules (seq 0 (length (mods s))) s Ha) as E0.
    destruct (init_modules W s (seq 0 (length (mods s)))) as [s1|s1|s1]; simpl in E0; try exact E0.
    eapply qfr_trans; [exact E0|apply qfr_first_reads; apply (qfr_acts _ _ E0)]. }
  assert (G : forall z z', qfr s z -> acts z' = [] -> alive z' = alive z -> mods z' = mods z -> now z' = now z ->
            acts z' = [] /\ alive z' = alive s /\ sameS s z' /\ sfr s z').
  { intros z z' [[c A] F] Ha' Al M N. split; [exact Ha'|]. split; [rewrite Al; apply A|]. split.
    - eapply sameS_trans; [apply (sameS_adv _ _ _ A)|]. split; [unfold nmods; rewrite M; reflexivity|].
      intros k. unfold dsc, get_mod. rewrite M. reflexivity.
    - eapply sfr_trans; [exact F|]. apply sfr_same_mods; [exact M|lia]. }
  clearbody ph. destruct ph as [s1|s1|s1]; simpl in E.
  - pose proof (qfr_trans _ _ _ E (qfr_call_started s1 (qfr_acts _ _ E))) as E3.
    destruct (existsb _ _); [apply (G _ _ E3); auto; apply (qfr_acts _ _ E3)|].
    apply (G _ _ E3); auto. apply (qfr_acts _ _ E3).
  - assert (E3 : qfr s (call_started (wait W (call_started s1) startup_wait_ticks))).
    { pose proof (qfr_call_started s1 (qfr_acts _ _ E)) as E1.
      pose proof (qfr_trans _ _ _ E E1) as E2.
      assert (Hw : 0 < startup_wait_ticks) by reflexivity.
      pose proof (qfr_trans _ _ _ E2 (qfr_wait _ _ (qfr_acts _ _ E2) Hw)) as E4.
      eapply qfr_trans; [exact E4|apply qfr_call_started; apply (qfr_acts _ _ E4)]. }
    destruct (existsb _ _); apply (G _ _ E3); auto; apply (qfr_acts _ _ E3).
  - apply (G _ _ E); auto. apply (qfr_acts _ _ E).
Qed.

Lemma init_lsl : forall t0 ds a k, lsl (init_state t0 ds a) k = 0.
Proof.
  intros t0 ds a k. unfold lsl, get_mod; simpl.
  destruct (nth_in_or_default k (map (fun dp : mdesc * Z => init_mod (fst dp) (snd dp)) ds) m0) as [H|H].
  - apply in_map_iff in H. destruct H as (dp & E & _). rewrite <- E. reflexivity.
  - rewrite H. reflexivity.
Qed.

Lemma init_tsp : forall t0 ds a k j, tsp (init_state t0 ds a) k j = 0.
Proof.
  intros t0 ds a k j. unfold tsp, get_mod, get_ps; simpl.
  destruct (nth_in_or_default k (map (fun dp : mdesc * Z => init_mod (fst dp) (snd dp)) ds) m0) as [H|H].
  - apply in_map_iff in H. destruct H as (dp & E & _). rewrite <- E. simpl.
    destruct (nth_in_or_default j (map (fun _ : pdesc => p0) (params (fst dp))) p0) as [H2|H2].
    + apply in_map_iff in H2. destruct H2 as (x & E2 & _). rewrite <- E2. reflexivity.
    + rewrite H2. reflexivity.
  - rewrite H. simpl. destruct j; reflexivity.
Qed.

(* what holds when the main loop is entered, for every module list and every outcome of the start-up calls *)
Lemma slow_from_start : forall t0 ds, 0 <= t0 ->
  (forall d, In d (map fst ds) -> enable d = true -> 0 < si d) -> existsb enable (map fst ds) = true ->
  let s0 := startup W (init_state t0 ds []) in
  quiet s0 /\ topoll s0 = None /\ wf s0 /\ Lw s0 /\ Q1 s0.
Proof.
  intros t0 ds Ht Hsi Hen. simpl. set (si0 := init_state t0 ds []).
  destruct (startup_quiet si0 eq_refl) as (A & Al & St & (N & Ls & Ts)).
  destruct (startup_ok W si0) as (D0 & T0 & _ & _ & C0 & F0).
  destruct (sameS_facts si0 (startup W si0) St) as (En & Si & _ & _ & Pol & Wf').
  assert (Wf0 : wf si0).
  { intros k Hk. unfold en, sint, dsc in *. rewrite md_get_mod in *. unfold si0 in *. rewrite descs_init in *.
    destruct (nth_in_or_default k (map fst ds) d0) as [H|H]; [apply Hsi; assumption|].
    rewrite H in Hk. discriminate Hk. }
  split; [|split; [exact T0|split; [apply Wf'; exact Wf0|split]]].
  - split; [exact A|]. split; [exact Al|].
    destruct (finished (startup W si0)) eqn:Fi; [|reflexivity].
    destruct (F0 eq_refl) as [H|[H|H]]; [discriminate H| |].
    + specialize (C0 H). discriminate C0.
    + unfold si0 in H. rewrite descs_init in H. congruence.
  - intros k Hk. rewrite Ls. change (lsl si0 k) with (lsl (init_state t0 ds []) k). rewrite init_lsl.
    change (now si0) with t0 in N. lia.
  - intros m i Hp. right. rewrite Ls. change (lsl si0 m) with (lsl (init_state t0 ds []) m). rewrite init_lsl. left.
    apply Pol in Hp. rewrite Si. pose proof (Wf0 m (proj1 Hp)). change (now si0) with t0 in Ts.
    destruct (Ts m i) as [E|E]; [rewrite E; change (tsp si0 m i) with (tsp (init_state t0 ds []) m i); rewrite init_tsp; lia|lia].
Qed.

(* the bound for whole runs: once the iterator has been found empty after the first turn, every polled parameter
   is refreshed or read again within BB / 2, for ever (as long as no run-time request arrives) *)
Lemma slow_bound_run : forall t0 ds, 0 <= t0 ->
  (forall d, In d (map fst ds) -> enable d = true -> 0 < si d) -> existsb enable (map fst ds) = true ->
  forall n1, (1 <= n1)%nat -> cur (run W n1 (init_state t0 ds [])) = [] ->
  forall k, let s := run W (n1 + k) (init_state t0 ds []) in
  quiet s /\ slow_inv s /\ forall m i, polled s m i -> Evd s m i (2 * now s - BB s m).
Proof.
  intros t0 ds Ht Hsi Hen n1 Hn1 Hc k. unfold run in *. set (s0 := startup W (init_state t0 ds [])) in *.
  destruct (slow_from_start t0 ds Ht Hsi Hen) as (Q0 & T0 & Wf0 & L0 & q0). fold s0 in Q0, T0, Wf0, L0, q0.
  destruct (turns_base n1 s0 Q0 Wf0 L0 q0) as (Q1' & _ & Wf1 & L1 & q1).
  assert (S1 : Sinv (turns W n1 s0)).
  { destruct n1 as [|n]; [lia|]. apply turns_Sinv; auto. }
  pose proof (slow_inv_idle _ Wf1 L1 S1 q1 Hc) as I1.
  simpl. rewrite turns_add.
  destruct (turns_slow_inv k _ Q1' I1) as (Qk & _ & Ik).
  split; [exact Qk|]. split; [exact Ik|]. apply stale_bound; exact Ik.
Qed.

End SlowQuiet.

(* ------------------------------------------------------------ at most one slow poll per turn, in every state *)
Fixpoint nreads (l : list levent) : nat :=
  match l with
  | [] => 0%nat
  | LRead _ _ _ :: r => S (nreads r)
  | _ :: r => nreads r
  end.

Lemma log_sleep : forall W s d, log (sleep W s d) = log s.
Proof.
  intros W s d. unfold sleep. pose proof (fire_upto_ext W (acts s) (now s + d) s) as H. simpl in H.
  destruct (fire_upto W (acts s) (now s + d) s) as [s1 l]. simpl in *. destruct H as ((_ & _ & _ & L & _) & _). exact L.
Qed.

Lemma log_body : forall W s, log (fst (body W s)) = log s.
Proof. intros W s. unfold body. destruct (script W (ctr s)) as [d o]. simpl. rewrite log_sleep. reflexivity. Qed.

Lemma log_read_wrapped : forall W s m i, log (fst (read_wrapped W s m i)) = log s.
Proof.
  intros W s m i. unfold read_wrapped. pose proof (log_body W s) as H. destruct (body W s) as [s1 o]. simpl in H.
  destruct o; [exact H|]. destruct (same_err _ _ _); exact H.
Qed.

Lemma log_poll_result : forall s m f r rc, log (fst (poll_result s m f r rc)) = log s.
Proof. intros. unfold poll_result. destruct r as [[[c k] [|]]|]; reflexivity. Qed.

Lemma log_call_read : forall W s m i rc, log (fst (call_read W s m i rc)) = LRead (now s) m i :: log s.
Proof.
  intros W s m i rc. unfold call_read. pose proof (log_read_wrapped W (emit s (LRead (now s) m i)) m i) as H.
  destruct (read_wrapped _ _ _ _) as [s1 r]. simpl in H. rewrite log_poll_result. exact H.
Qed.

Lemma nr_main_reads : forall W m l s, nreads (log (fst (main_reads W s m l))) = nreads (log s).
Proof.
  intros W m l; induction l as [|i l IH]; intros s; simpl; [reflexivity|].
  pose proof (log_read_wrapped W (emit s (LMRead (now s) m i)) m i) as H.
  destruct (read_wrapped _ _ _ _) as [s1 [e|]]; simpl in *; [rewrite H; reflexivity|]. rewrite IH, H. reflexivity.
Qed.

Lemma nr_call_main : forall W s m, nreads (log (call_main W s m)) = nreads (log s).
Proof.
  intros W s m. unfold call_main. pose proof (log_body W (emit s (LMain (now s) m))) as H.
  destruct (body _ _) as [s1 o]. simpl in H. destruct o.
  - pose proof (nr_main_reads W m (mainreads (md (get_mod s1 m))) s1) as H2.
    destruct (main_reads _ _ _ _) as [s2 r]. simpl in H2. rewrite log_poll_result, H2, H. reflexivity.
  - rewrite log_poll_result, H. reflexivity.
Qed.

Lemma nr_main_phase : forall W s, nreads (log (main_phase W s)) = nreads (log s).
Proof.
  intros W s. unfold main_phase. generalize (seq 0 (length (mods s))). intros l; revert s.
  induction l as [|m l IH]; intros s; simpl; [reflexivity|]. rewrite IH.
  unfold main_step. destruct (negb (alive s)); [reflexivity|]. destruct (_ && _); [|reflexivity].
  rewrite nr_call_main. reflexivity.
Qed.

Lemma nr_wait : forall W s t, nreads (log (wait W s t)) = nreads (log s).
Proof.
  intros W s t. unfold wait, fire_due. rewrite <- (log_sleep W s 0). generalize (sleep W s 0). clear s. intros s.
  simpl. destruct (ev s); [reflexivity|]. simpl.
  destruct (acts s) as [|[t1 a] r]; [reflexivity|]. destruct (_ <=? _); [|reflexivity].
  destruct (apply_act_weak W a (set_acts (set_now (emit s (LWait (now s) t)) (Z.max (now s) t1)) r)) as (_ & _ & _ & L & _).
  simpl in L. rewrite L. reflexivity.
Qed.

Lemma nr_slow_loop : forall W k s, (nreads (log s) <= nreads (log (slow_loop W k s)) <= S (nreads (log s)))%nat.
Proof.
  intros W k; induction k as [|k IH]; intros s; simpl; [lia|].
  destruct (scan s _) as [[[m i] rest]|].
  - rewrite log_call_read. simpl. lia.
  - destruct (refill_list s); [simpl; lia|]. apply (IH (set_topoll (set_mods s (refill_mods s)) (Some (p :: l)))).
Qed.

(* a loop turn contains at most one slow poll: between two slow polls every module gets its main-poll opportunity *)
Lemma one_slow_poll_per_turn : forall W s,
  (nreads (log s) <= nreads (log (turn W s)) <= S (nreads (log s)))%nat.
Proof.
  intros W s. unfold turn. destruct (finished s); [lia|]. destruct (negb (alive s)); [simpl; lia|].
  set (s1 := emit (set_now s (now s + eps W)) (LTurn (now (set_now s (now s + eps W))))).
  assert (H1 : nreads (log s1) = nreads (log s)) by reflexivity.
  destruct (_ && _).
  - simpl. unfold fire_due. rewrite log_sleep, nr_wait, H1. lia.
  - unfold slow_phase. pose proof (nr_slow_loop W 3 (main_phase W s1)) as H. rewrite nr_main_phase, H1 in H. exact H.
Qed.
