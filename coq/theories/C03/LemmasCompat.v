(* C03 - compatible(): on the same-kind fragment (int, bool, string/text, blob, arrays of these) the verdict is
   exactly "the limits are nested", and nested limits mean nested value sets (C01's in_setb) *)
From Coq Require Import String Ascii.
From Coq Require Import ZArith NArith Bool List Lia.
Import ListNotations.
Require Import FV.Base.Util FV.Base.F64 FV.Base.PyVal FV.C01.Model FV.C01.Lemmas FV.Gen.C03 FV.C03.Model FV.C03.Lemmas.

#[local] Transparent pv_intU pv_int0 pv_int0U.

Fixpoint widens (a b : xt) {struct a} : Prop :=
  match a, b with
  | XInt a1 a2, XInt b1 b2 => (b1 <= a1 /\ a2 <= b2)%Z
  | XBool, XBool => True
  | XString a1 a2 u _, XString b1 b2 u' _ => (b1 <= a1 /\ a2 <= b2)%Z /\ (u = true -> u' = true)
  | XBlob a1 a2, XBlob b1 b2 => (b1 <= a1 /\ a2 <= b2)%Z
  | XArray e a1 a2, XArray e' b1 b2 => widens e e' /\ (b1 <= a1 /\ a2 <= b2)%Z
  | _, _ => False
  end.

(* the pairings this characterisation covers: both sides of the same kind among int / bool / string / blob / arrays
   of these (numbers into other number kinds are decided by validate with tolerances; bool against a number is the
   finding bool-into-number-ignores-limits) *)
Fixpoint same_kind (a b : xt) {struct a} : Prop :=
  match a, b with
  | XInt _ _, XInt _ _ | XBool, XBool | XString _ _ _ _, XString _ _ _ _ | XBlob _ _, XBlob _ _ => True
  | XArray e _ _, XArray e' _ _ => same_kind e e'
  | _, _ => False
  end.

Lemma int_validate_int mn mx z r : int_validate mn mx (PInt z) = Ok r -> r = PInt z /\ (mn <= z <= mx)%Z.
Proof.
  unfold int_validate, int_call. cbn [py_add0 py_int_num].
  destruct (float_of_Z z) as [f|]; cbn [bind wrap_wrong]; [|discriminate].
  destruct (cmp_Z_f (fround f) f) as [[| |]|]; try discriminate.
  destruct ((mn <=? z)%Z && (z <=? mx)%Z) eqn:C; [|discriminate]. intros H. injection H as <-.
  apply andb_true_iff in C as [C1 C2]. apply Z.leb_le in C1, C2. auto.
Qed.

Lemma int_validate_widen mn mx mn' mx' z : int_validate mn mx (PInt z) = Ok (PInt z) -> (mn' <= z <= mx')%Z ->
  int_validate mn' mx' (PInt z) = Ok (PInt z).
Proof.
  unfold int_validate. destruct (int_call (PInt z)) as [[| |z'| | | | | | | |]|]; try discriminate.
  destruct ((mn <=? z')%Z && (z' <=? mx)%Z); [|discriminate]. intros H. injection H as ->. intros [H1 H2].
  apply Z.leb_le in H1, H2. rewrite H1, H2. reflexivity.
Qed.

Lemma attr_wrong_ok (r : res unit) : attr_wrong r = Ok tt <-> r = Ok tt.
Proof. destruct r as [[]|[]]; cbn; split; intros H; try discriminate; reflexivity. Qed.

(* passes only if the limits are nested *)
Theorem compat_only_if_nested : forall a b, same_kind a b -> compat a b = Ok tt -> widens a b.
Proof.
  induction a using xt_ind2; intros b0 HK HC; destruct b0; try contradiction.
  - (* int *)
    cbn in HC. unfold vboth in HC. cbn [erase dt_validate] in HC.
    apply bind_ok in HC as (r1 & H1 & HC). apply bind_ok in HC as (r2 & H2 & _).
    apply int_validate_int in H1 as [_ H1], H2 as [_ H2]. cbn. lia.
  - exact I.
  - (* string *)
    cbn in HC. cbn. destruct (a <? minc)%Z eqn:C1, (maxc <? b)%Z eqn:C2, u, utf8; cbn in HC; try discriminate;
      apply Z.ltb_ge in C1, C2; (split; [lia|]); intros; congruence.
  - (* blob *)
    cbn in HC. cbn. destruct (a <? minb)%Z eqn:C1, (maxb <? b)%Z eqn:C2; cbn in HC; try discriminate;
      apply Z.ltb_ge in C1, C2; lia.
  - (* array *)
    cbn in HC, HK. cbn. destruct (a0 <? minlen)%Z eqn:C1, (maxlen <? b)%Z eqn:C2; cbn in HC; try discriminate.
    apply Z.ltb_ge in C1, C2. apply (proj1 (attr_wrong_ok _)) in HC. split; [apply IHa; assumption|lia].
Qed.

(* and it does pass when they are (for constructible types) *)
Theorem compat_if_nested : forall a b, wfx a -> widens a b -> compat a b = Ok tt.
Proof.
  induction a using xt_ind2; intros b0 HW HN; destruct b0; try contradiction.
  - destruct HW as (H1 & H2 & Hle). cbn in HN. apply Z.ltb_ge in Hle.
    cbn. unfold vboth. cbn [erase dt_validate].
    rewrite (int_validate_widen _ _ mn0 mx0 mn H1 ltac:(lia)), (int_validate_widen _ _ mn0 mx0 mx H2 ltac:(lia)). reflexivity.
  - reflexivity.
  - cbn in HN. destruct HN as [[H1 H2] Hu]. cbn.
    destruct (a <? minc)%Z eqn:C1; [apply Z.ltb_lt in C1; lia|].
    destruct (maxc <? b)%Z eqn:C2; [apply Z.ltb_lt in C2; lia|].
    destruct u; [rewrite (Hu eq_refl)|]; reflexivity.
  - cbn in HN. cbn.
    destruct (a <? minb)%Z eqn:C1; [apply Z.ltb_lt in C1; lia|].
    destruct (maxb <? b)%Z eqn:C2; [apply Z.ltb_lt in C2; lia|]. reflexivity.
  - cbn in HN. destruct HN as [He [H1 H2]]. destruct HW as (HWe & _). cbn.
    destruct (a0 <? minlen)%Z eqn:C1; [apply Z.ltb_lt in C1; lia|].
    destruct (maxlen <? b)%Z eqn:C2; [apply Z.ltb_lt in C2; lia|]. cbn.
    rewrite (IHa _ HWe He). reflexivity.
Qed.

(* nested limits are nested value sets *)
Theorem widens_value_sets : forall a b, widens a b -> forall v, in_setb (erase a) v = true -> in_setb (erase b) v = true.
Proof.
  induction a using xt_ind2; intros b0 HN v HV; destruct b0; try contradiction.
  - cbn in *. destruct v; try discriminate. apply andb_true_iff in HV as [H1 H2]. apply Z.leb_le in H1, H2.
    apply andb_true_iff; split; apply Z.leb_le; lia.
  - exact HV.
  - cbn in *. destruct v; try discriminate. destruct HN as [[H1 H2] Hu]. unfold str_ok in *.
    apply andb_true_iff in HV as [HV H4]. apply andb_true_iff in HV as [HV H3]. apply andb_true_iff in HV as [H0 H2'].
    apply Z.leb_le in H2', H3. rewrite H4, andb_true_r.
    apply andb_true_iff; split; [apply andb_true_iff; split|]; try (apply Z.leb_le; lia).
    destruct u; [rewrite (Hu eq_refl); reflexivity|]. cbn in H0. rewrite H0. apply orb_true_r.
  - cbn in *. destruct v; try discriminate. apply andb_true_iff in HV as [H1 H2]. apply Z.leb_le in H1, H2.
    apply andb_true_iff; split; apply Z.leb_le; lia.
  - cbn in HN. destruct HN as [He [H1 H2]]. cbn [erase in_setb] in *. destruct v; try discriminate.
    apply andb_true_iff in HV as [HV H5]. apply andb_true_iff in HV as [H3 H4]. apply Z.leb_le in H3, H4.
    apply andb_true_iff; split; [apply andb_true_iff; split; apply Z.leb_le; lia|].
    rewrite forallb_forall in *. intros y Hy. apply (IHa _ He), H5, Hy.
Qed.

Theorem compat_sound_same_kind : forall a b, same_kind a b -> compat a b = Ok tt ->
  forall v, in_setb (erase a) v = true -> in_setb (erase b) v = true.
Proof. intros a b HK HC. apply widens_value_sets, compat_only_if_nested; assumption. Qed.

(* ------------------------------------------------------------------ bool (repaired: validate instead of __call__) *)
Definition accepts (b : xt) (v : pyval) : Prop := exists r, dt_validate (erase b) v PNone = Ok r.

(* BoolType against ANY other type: passes only if both values of a bool are valid for the other type *)
Theorem compat_bool_sound : forall b v, compat XBool b = Ok tt -> in_setb (erase XBool) v = true -> accepts b v.
Proof.
  intros b v HC HV. cbn in HV. destruct v as [| x | | | | | | | | |]; try discriminate.
  cbn [compat] in HC. unfold vboth in HC. apply bind_ok in HC as (r1 & H1 & HC). apply bind_ok in HC as (r2 & H2 & _).
  destruct x; [exists r2|exists r1]; assumption.
Qed.
Theorem compat_bool_complete : forall b, accepts b (PBool false) -> accepts b (PBool true) -> compat XBool b = Ok tt.
Proof. intros b [r1 H1] [r2 H2]. cbn [compat]. unfold vboth. rewrite H1, H2. reflexivity. Qed.

(* IntRange against BoolType (repaired: return after the loop): passes exactly when the range lies in {0, 1} *)
Lemma bool_call_int_ok z : (z = 0 \/ z = 1)%Z -> exists r, bool_call (PInt z) = Ok r.
Proof. intros [-> | ->]; eexists; reflexivity. Qed.
Lemma bool_call_int_err z : z <> 0%Z -> z <> 1%Z -> bool_call (PInt z) = Err EWrongType.
Proof. intros H0 H1. destruct z as [|[p|p|]|p]; try reflexivity; contradiction. Qed.

Theorem compat_int_bool_iff : forall mn mx, (mn <= mx)%Z ->
  (compat (XInt mn mx) XBool = Ok tt <-> (0 <= mn /\ mx <= 1)%Z).
Proof.
  intros mn mx Hle. split.
  - cbn [compat erase]. intros H.
    assert (St : forall f i, int_loop TBool (S f) i mx = if (mx <? i)%Z then Ok tt else bool_call (PInt i) >>= fun _ => int_loop TBool f (i + 1) mx)
      by reflexivity.
    rewrite St in H. destruct (mx <? mn)%Z eqn:C0; [apply Z.ltb_lt in C0; lia|].
    destruct (Z.eq_dec mn 0) as [->|N0]; [|destruct (Z.eq_dec mn 1) as [->|N1]; [|rewrite (bool_call_int_err mn N0 N1) in H; discriminate]].
    + cbn in H. destruct (mx <? 1)%Z eqn:C1; [apply Z.ltb_lt in C1; lia|].
      destruct (mx <? 2)%Z eqn:C2; [apply Z.ltb_lt in C2; lia|discriminate].
    + cbn in H. destruct (mx <? 2)%Z eqn:C1; [apply Z.ltb_lt in C1; lia|discriminate].
  - intros [H0 H1].
    assert ((mn = 0 /\ mx = 0) \/ (mn = 0 /\ mx = 1) \/ (mn = 1 /\ mx = 1))%Z as [[-> ->]|[[-> ->]|[-> ->]]] by lia;
      reflexivity.
Qed.

Theorem compat_int_bool_sound : forall mn mx z, (mn <= mx)%Z -> compat (XInt mn mx) XBool = Ok tt ->
  in_setb (erase (XInt mn mx)) (PInt z) = true -> accepts XBool (PInt z).
Proof.
  intros mn mx z Hle HC HV. apply (compat_int_bool_iff mn mx Hle) in HC. cbn in HV.
  apply andb_true_iff in HV as [H1 H2]. apply Z.leb_le in H1, H2.
  unfold accepts. cbn [erase dt_validate]. apply bool_call_int_ok. lia.
Qed.
