(* C03 - rebuild of a ScaledInteger description (limits on the grid) *)
From Coq Require Import String Ascii.
From Coq Require Import ZArith NArith Bool List Lia.
Import ListNotations.
From Flocq Require Import IEEE754.BinarySingleNaN.
Require Import FV.Base.Util FV.Base.F64 FV.Base.PyVal FV.C01.Model FV.C01.Lemmas FV.Gen.C03 FV.C03.Model FV.C03.Lemmas.

Lemma pv_float0_int0 : pv_float0 (PInt 0) = Ok (PFloat fzero).
Proof. vm_compute. reflexivity. Qed.

Lemma rebuild_scaled fuel p s mn mx a r u f j : wfx (XScaled s mn mx a r u f) ->
  xt_export (XScaled s mn mx a r u f) = Ok j -> get_dt (S fuel) p j = Ok (Some (XScaled s mn mx a r u f)).
Proof.
  intros (Hs & Hs0 & (k1 & kf1 & Ek1 & Ef1 & Ev1) & (k2 & kf2 & Ek2 & Ef2 & Ev2) & Ha & Hr & Hu & Hf & Hp & Hle) E.
  pose proof (scale_is_finite s Hs) as Hfin.
  cbn [xt_export] in E. rewrite Ek1, Ek2 in E. cbn [bind] in E. injection E as <-.
  assert (HA : (feq a fzero = true /\ a = fzero) \/ (feq a fzero = false /\ feq a s = true /\ a = s) \/
               (feq a fzero = false /\ feq a s = false)).
  { destruct (feq a fzero) eqn:C0; [left; split; [reflexivity|apply feq_zero_fix; assumption]|].
    destruct (feq a s) eqn:C1; [right; left; repeat split; apply feq_eq; assumption|right; right; split; reflexivity]. }
  destruct HA as [[C0 ->]|[(C0 & C1 & ->)|(C0 & C1)]]; rewrite C0; try rewrite C1;
  (destruct (negb (str_eqb f fmt0)) eqn:Cf; [|apply negb_false_iff, str_eqb_eq in Cf; subst f]);
  (destruct (fne r rel0) eqn:Cr; [|apply negb_false_iff in Cr; apply feq_eq in Cr; [subst r|exact fin_rel0]]);
  (destruct (negb (str_eqb u [])) eqn:Cu; [|apply negb_false_iff, str_eqb_eq in Cu; subst u]);
  cbn [ent app]; start_get leaf_scaled; unfold mk_scaled, float_props; cbv beta iota;
  cbn [py_mul is_intlike py_float bind negb]; rewrite Ef1, Ef2;
  remember rel0 as R0 in *; remember fmt0 as F0 in *;
  do 4 (cbn [py_float as_f as_s bind negb]; rewrite ?Hs, ?Ev1, ?Ev2, ?Hu, ?Hf, ?Ha, ?Hr, ?Hs0, ?pv_float0_int0);
  cbn [py_float as_f as_s bind negb]; rewrite Hp; cbv beta iota; rewrite Hle; reflexivity.
Qed.
