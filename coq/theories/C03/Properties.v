(* C03 - property theorems only; each is closed by a lemma of Lemmas*.v.
   x ranges over ALL described datatype trees (unbounded depth and width), v / prev over all Python values.
     wfx x         the tree is constructible: every property value is a fixed point of the datatype frappy declares for
                   that property, limits ordered, scaled limits on the grid, optional members are members (Lemmas.v)
     norm p x      x with enums named after the parameter, TextType as StringType, client flag set
   After the repairs af5cb3e (mandatory properties always exported) and 414a5ee (string without maxchars = unlimited)
   the rebuild / copy theorems carry no exception any more, and ScaledInteger leaves are covered. *)
From Coq Require Import String Ascii.
From Coq Require Import ZArith NArith Bool List.
Import ListNotations.
Require Import FV.Base.Util FV.Base.F64 FV.Base.PyVal FV.C01.Model FV.C01.Lemmas FV.Gen.C03 FV.C03.Model FV.C03.Lemmas
  FV.C03.LemmasScaled FV.C03.LemmasTree FV.C03.LemmasCompat FV.C03.Refuted.

(* obligations on the facts regenerated from /repo (Gen/C03.v): the rebuild table, get_datatype, exportProperties,
   the property declarations and every export_datatype / copy / compatible body have the shape the model was written
   from; the table itself (parameters, defaults, must-ignore, forwarding) is what the model executes *)
Theorem C03_source_facts :
  dt_bodies_as_modelled = true /\ get_datatype_none_passthrough = true /\ get_datatype_old_syntax = true /\
  get_datatype_sets_client = true /\ get_datatype_wraps_exceptions = true /\ export_nondefault_only = true /\
  get_info_shape = true /\ prop_defaults_as_modelled = true /\ export_bodies_as_modelled = true /\
  scaled_export_properties_as_modelled = true /\ copy_bodies_as_modelled = true /\
  copy_overrides_only_where_modelled = true /\ compatible_bodies_as_modelled = true /\
  struct_sets_no_client_in_init = true /\
  forallb (fun ty => tbl_kwds ty) (map fst dt_params) = true /\
  forallb (fun q : str * str => tbl_forwarded (fst q) (snd q))
    [($"int", $"min"); ($"int", $"max"); ($"double", $"min"); ($"double", $"max"); ($"scaled", $"scale");
     ($"blob", $"minbytes"); ($"blob", $"maxbytes"); ($"string", $"minchars"); ($"string", $"maxchars");
     ($"string", $"isUTF8"); ($"array", $"minlen"); ($"array", $"maxlen"); ($"enum", $"members")] = true /\
  (* a string description without maxchars means unlimited *)
  tbl_none_default $"string" $"maxchars" PNone = PInt UNL.
Proof. repeat split; reflexivity. Qed.
Print Assumptions C03_source_facts.

(* for every constructible tree get_datatype(export_datatype(x), p) is norm p x *)
Theorem C03_rebuild : forall p x j fuel,
  wfx x -> xt_export x = Ok j -> depth x <= fuel -> get_dt fuel p j = Ok (Some (norm p x)).
Proof. intros p x j fuel HW E HD. exact (rebuild_ok p x HW j E fuel HD). Qed.
Print Assumptions C03_rebuild.

(* the rebuilt type has the same datainfo again ... *)
Theorem C03_same_datainfo_again : forall p x, xt_export (norm p x) = xt_export x.
Proof. intros; apply export_norm. Qed.
Print Assumptions C03_same_datainfo_again.

(* ... and accepts and rejects the same values with equal results (validate, any previous value) *)
Theorem C03_rebuilt_validates_same : forall p x v prev,
  dt_validate (erase (norm p x)) v prev = dt_validate (erase x) v prev.
Proof. intros; apply validate_norm. Qed.
Print Assumptions C03_rebuilt_validates_same.

(* copy(): the same description with no client flag; for a tree built by the constructors the very same description,
   hence the same datainfo and the same validation.  (That no mutable state is shared is a heap property: checked on
   the implementation by identity traversal + mutation of the copy, see harness/props/C03.py.) *)
Theorem C03_copy_equiv : forall x,
  wfx x ->
  xt_copy x = Ok (unclient x) /\ (server_side x -> unclient x = x) /\
  xt_export (unclient x) = xt_export x /\
  forall v prev, dt_validate (erase (unclient x)) v prev = dt_validate (erase x) v prev.
Proof.
  intros x HW. split; [apply copy_ok; assumption|]. split; [apply unclient_server|].
  split; [apply export_unclient|intros; apply validate_unclient].
Qed.
Print Assumptions C03_copy_equiv.

(* compatible() on the same-kind fragment (int, bool, string/text, blob, arrays of these): passes only if every
   value of the first type's value set is in the second type's value set ... *)
Theorem C03_compat_sound_same_kind_partial : forall a b,
  same_kind a b -> compat a b = Ok tt -> forall v, in_setb (erase a) v = true -> in_setb (erase b) v = true.
Proof. exact compat_sound_same_kind. Qed.
Print Assumptions C03_compat_sound_same_kind_partial.

(* ... and the verdict is exactly "limits nested": it does pass for equal or wider limits *)
Theorem C03_compat_complete_same_kind_partial : forall a b,
  wfx a -> same_kind a b -> (compat a b = Ok tt <-> widens a b).
Proof.
  intros a b HW HK. split; [apply compat_only_if_nested; assumption|apply compat_if_nested; assumption].
Qed.
Print Assumptions C03_compat_complete_same_kind_partial.

(* BoolType against ANY type (repaired 4137088): passes exactly when False and True are valid for the other type *)
Theorem C03_compat_bool : forall b,
  (compat XBool b = Ok tt -> forall v, in_setb (erase XBool) v = true -> accepts b v) /\
  (accepts b (PBool false) -> accepts b (PBool true) -> compat XBool b = Ok tt).
Proof. intros b. split; [intros H v; apply compat_bool_sound; assumption|apply compat_bool_complete]. Qed.
Print Assumptions C03_compat_bool.

(* IntRange against BoolType (repaired e3dd3e3): passes exactly when the range lies in {0, 1}, and then every value
   of the range is valid for the bool *)
Theorem C03_compat_int_into_bool : forall mn mx, (mn <= mx)%Z ->
  (compat (XInt mn mx) XBool = Ok tt <-> (0 <= mn /\ mx <= 1)%Z) /\
  (compat (XInt mn mx) XBool = Ok tt -> forall z, in_setb (erase (XInt mn mx)) (PInt z) = true -> accepts XBool (PInt z)).
Proof.
  intros mn mx H. split; [apply compat_int_bool_iff; assumption|intros HC z; apply compat_int_bool_sound; assumption].
Qed.
Print Assumptions C03_compat_int_into_bool.

(* non-vacuity: the hypotheses hold for ordinary types, incl. the formerly lossy shapes and a scaled integer *)
Definition sample : xt :=
  XStruct [($"a", XFloat fzero (fmk 10 0) fzero rel0 $"$/min" $"%.3f");
           ($"b", XArray (XEnum $"e" [($"off", 0%Z); ($"on", 1%Z)]) 0 3);
           ($"c", XTuple [XInt 0 5; XString 3 UNL true false; XBlob 0 0; XBool])] [$"b"] false.
Example C03_sample_hypotheses : wfx sample /\ server_side sample.
Proof.
  unfold sample. cbn [wfx server_side snd].
  repeat split; try discriminate; try (left; reflexivity); try (apply fix_by_bool; vm_compute; reflexivity);
    try (vm_compute; reflexivity); try (intros; discriminate).
Qed.
Example C03_sample_rebuilds : exists j, xt_export sample = Ok j /\ get_dt 3 $"p" j = Ok (Some (norm $"p" sample)).
Proof.
  destruct C03_sample_hypotheses as (HW & _).
  eexists. split; [reflexivity|]. apply C03_rebuild; try assumption; [reflexivity|cbn; auto].
Qed.
(* ScaledInteger(0.5, 0, 5): limits on the grid *)
Example C03_scaled_wfx : wfx (XScaled (fmk 1 (-1)) fzero (fmk 5 0) (fmk 1 (-1)) rel0 [] fmt0).
Proof.
  cbn [wfx].
  split; [apply fix_by_bool; vm_compute; reflexivity|]. split; [apply fix_by_bool; vm_compute; reflexivity|].
  split. { exists 0%Z, (fmk 0 0). split; [vm_compute; reflexivity|]. split; [apply float_of_Z_by_bool; vm_compute; reflexivity|].
           apply res_by_bool. vm_compute. reflexivity. }
  split. { exists 10%Z, (fmk 10 0). split; [vm_compute; reflexivity|]. split; [apply float_of_Z_by_bool; vm_compute; reflexivity|].
           apply res_by_bool. vm_compute. reflexivity. }
  split; [apply fix_by_bool; vm_compute; reflexivity|]. split; [apply fix_by_bool; vm_compute; reflexivity|].
  split; [vm_compute; reflexivity|]. split; [vm_compute; reflexivity|]. split; vm_compute; reflexivity.
Qed.
Example C03_compat_example :
  compat (XArray (XInt 0 5) 0 3) (XArray (XInt 0 10) 0 5) = Ok tt /\ is_err (compat (XArray (XInt 0 5) 0 3) (XArray (XInt 1 10) 0 5)) = true /\
  (* regression of the repaired defects *)
  compat (XInt 1 2) (XEnum [] [($"a", 1%Z); ($"b", 2%Z)]) = Ok tt /\ is_err (compat (XInt 1 3) (XEnum [] [($"a", 1%Z); ($"b", 2%Z)])) = true /\
  is_err (compat XBool (XInt 5 10)) = true /\ compat XBool (XInt 0 1) = Ok tt.
Proof. repeat split; vm_compute; reflexivity. Qed.
