(* C03 - property theorems only; each is closed by a lemma of Lemmas*.v.
   x ranges over ALL described datatype trees (unbounded depth and width), v / prev over all Python values.
     wfx x         the tree is constructible: every property value is a fixed point of the datatype frappy declares for
                   that property, limits ordered, scaled limits on the grid, optional members are members (Lemmas.v)
     norm p x      x with enums named after the parameter, TextType as StringType, client flag set
   After the repairs af5cb3e (mandatory properties always exported) and 414a5ee (string without maxchars = unlimited)
   the rebuild / copy theorems carry no exception any more, and ScaledInteger leaves are covered. *)
From Coq Require Import String Ascii.
From Coq Require Import ZArith NArith Bool List Reals Lia Lra.
Import ListNotations.
From Flocq Require Import IEEE754.BinarySingleNaN.
Require Import FV.Base.Util FV.Base.F64 FV.Base.PyVal FV.C01.Model FV.C01.Lemmas FV.Gen.C03 FV.C03.Model FV.C03.Lemmas
  FV.C03.LemmasScaled FV.C03.LemmasTree FV.C03.F64Mono FV.C03.LemmasCompat FV.C03.LemmasNum FV.C03.LemmasScaledTarget FV.C03.LemmasCover FV.C03.Refuted.

(* obligations on the facts regenerated from /repo (Gen/C03.v): the rebuild table, get_datatype, exportProperties,
   the property declarations and every export_datatype / copy / compatible body have the shape the model was written
   from; the table itself (parameters, defaults, must-ignore, forwarding) is what the model executes *)
Theorem C03_source_facts :
  dt_bodies_as_modelled = true /\ get_datatype_none_passthrough = true /\ get_datatype_old_syntax = true /\
  get_datatype_sets_client = true /\ get_datatype_wraps_exceptions = true /\ export_nondefault_only = true /\
  get_info_shape = true /\ prop_defaults_as_modelled = true /\ export_bodies_as_modelled = true /\
  scaled_export_properties_as_modelled = true /\ copy_bodies_as_modelled = true /\
  copy_overrides_only_where_modelled = true /\ compatible_bodies_as_modelled = true /\
  struct_sets_no_client_in_init = true /\
  forallb (fun ty => tbl_kwds ty) (map fst dt_params) = true /\
  forallb (fun q : str * str => tbl_forwarded (fst q) (snd q))
    [($"int", $"min"); ($"int", $"max"); ($"double", $"min"); ($"double", $"max"); ($"scaled", $"scale");
     ($"blob", $"minbytes"); ($"blob", $"maxbytes"); ($"string", $"minchars"); ($"string", $"maxchars");
     ($"string", $"isUTF8"); ($"array", $"minlen"); ($"array", $"maxlen"); ($"enum", $"members")] = true /\
  (* a string description without maxchars means unlimited *)
  tbl_none_default $"string" $"maxchars" PNone = PInt UNL.
Proof. repeat split; reflexivity. Qed.
Print Assumptions C03_source_facts.

(* for every constructible tree get_datatype(export_datatype(x), p) is norm p x *)
Theorem C03_rebuild : forall p x j fuel,
  wfx x -> xt_export x = Ok j -> depth x <= fuel -> get_dt fuel p j = Ok (Some (norm p x)).
Proof. intros p x j fuel HW E HD. exact (rebuild_ok p x HW j E fuel HD). Qed.
Print Assumptions C03_rebuild.

(* the rebuilt type has the same datainfo again ... *)
Theorem C03_same_datainfo_again : forall p x, xt_export (norm p x) = xt_export x.
Proof. intros; apply export_norm. Qed.
Print Assumptions C03_same_datainfo_again.

(* ... and accepts and rejects the same values with equal results (validate, any previous value) *)
Theorem C03_rebuilt_validates_same : forall p x v prev,
  dt_validate (erase (norm p x)) v prev = dt_validate (erase x) v prev.
Proof. intros; apply validate_norm. Qed.
Print Assumptions C03_rebuilt_validates_same.

(* copy(): the same description with no client flag; for a tree built by the constructors the very same description,
   hence the same datainfo and the same validation.  (That no mutable state is shared is a heap property: checked on
   the implementation by identity traversal + mutation of the copy, see harness/props/C03.py.) *)
Theorem C03_copy_equiv : forall x,
  wfx x ->
  xt_copy x = Ok (unclient x) /\ (server_side x -> unclient x = x) /\
  xt_export (unclient x) = xt_export x /\
  forall v prev, dt_validate (erase (unclient x)) v prev = dt_validate (erase x) v prev.
Proof.
  intros x HW. split; [apply copy_ok; assumption|]. split; [apply unclient_server|].
  split; [apply export_unclient|intros; apply validate_unclient].
Qed.
Print Assumptions C03_copy_equiv.

(* ------------------------------------------------------------------ compatible()
   Full statement of the property clause:
     compat a b = Ok tt -> forall v, in_setb (erase a) v = true -> accepts b v          (accepts b v: b.validate(v) succeeds)
   It is REFUTED for the pinned code (Refuted.v: struct member optional in the first and mandatory in the second; float
   target whose tolerance shrinks towards zero while only the end points are probed - relative_resolution 2, 1 and
   1 - 2^-53).  Proved: the statement for every pair of (arbitrarily nested) types with
     covered a b       = wherever in the two trees a ScaledInteger is the FIRST type of a FloatRange or ScaledInteger, its
                         grid-rounded limits round(min/scale)*scale, round(max/scale)*scale lie within [min, max]
                         (grid_inside: a decidable condition of the first type alone; its value set is bounded by the
                         former, the verdict probes the latter); true for every other pair of kinds, and
     finding_free a b  = the two exception classes do not occur anywhere in the two trees:
                         struct: no member that is optional in a and a mandatory member of b (exact class of the finding);
                         FloatRange as second type of a FloatRange/IntRange/ScaledInteger: on each side the limit of a lies inside the
                         limit of b, or on the far side of zero (the tolerance can only grow towards the inside), or
                         relative_resolution is 0 (sufficient, not necessary: see notes/C03.md). *)
Theorem C03_compat_sound : forall a b,
  wfx a -> wfx b -> covered a b = true -> finding_free a b = true ->
  compat a b = Ok tt -> forall v, in_setb (erase a) v = true -> accepts b v.
Proof. intros a b. exact (compat_sound a b). Qed.
Print Assumptions C03_compat_sound.

(* the pair classes behind it, each with its own hypotheses only *)

(* EnumType against ANY type, no side condition *)
Theorem C03_compat_sound_enum : forall n ms b,
  compat (XEnum n ms) b = Ok tt -> forall v, in_setb (erase (XEnum n ms)) v = true -> accepts b v.
Proof. exact compat_enum_sound. Qed.
Print Assumptions C03_compat_sound_enum.

(* enum into enum: the verdict is exact (enums are matched by code) *)
Theorem C03_compat_enum_into_enum : forall n ms n' ms',
  compat (XEnum n ms) (XEnum n' ms') = Ok tt <-> (forall k z, In (k, z) ms -> enum_by_value z ms' <> None).
Proof. exact compat_enum_enum_iff. Qed.
Print Assumptions C03_compat_enum_into_enum.

(* enum into a number type: deliberately conservative, never passes (sound trivially, not a supported pairing) *)
Theorem C03_compat_enum_into_number_never_passes : forall n ms b,
  ms <> [] -> is_number_type b = true -> compat (XEnum n ms) b = Err EWrongType.
Proof. exact compat_enum_number_never. Qed.
Print Assumptions C03_compat_enum_into_number_never_passes.

(* int range into enum (repaired e3dd3e3): exact - passes iff every value of the range is a code - and sound *)
Theorem C03_compat_int_into_enum : forall mn mx n ms,
  (compat (XInt mn mx) (XEnum n ms) = Ok tt <-> (forall z, (mn <= z <= mx)%Z -> enum_by_value z ms <> None)) /\
  (compat (XInt mn mx) (XEnum n ms) = Ok tt -> forall v, in_setb (erase (XInt mn mx)) v = true -> accepts (XEnum n ms) v).
Proof. intros. split; [apply compat_int_enum_iff|apply compat_int_enum_sound]. Qed.
Print Assumptions C03_compat_int_into_enum.

(* FloatRange / IntRange into FloatRange.  Partial: the guard is wider than the class of the open finding
   (relative_resolution > 1); without it the statement is refuted also for relative_resolution <= 1 *)
Theorem C03_compat_sound_into_float_partial :
  (forall amn amx aa ar au af bmn bmx ba br bu bf,
     wfx (XFloat amn amx aa ar au af) -> wfx (XFloat bmn bmx ba br bu bf) ->
     lo_guard bmn br amn = true -> hi_guard bmx br amx = true ->
     compat (XFloat amn amx aa ar au af) (XFloat bmn bmx ba br bu bf) = Ok tt ->
     forall v, in_setb (erase (XFloat amn amx aa ar au af)) v = true -> accepts (XFloat bmn bmx ba br bu bf) v) /\
  (forall amn amx bmn bmx ba br bu bf,
     wfx (XInt amn amx) -> wfx (XFloat bmn bmx ba br bu bf) ->
     lo_guard bmn br (of_Z amn) = true -> hi_guard bmx br (of_Z amx) = true ->
     compat (XInt amn amx) (XFloat bmn bmx ba br bu bf) = Ok tt ->
     forall v, in_setb (erase (XInt amn amx)) v = true -> accepts (XFloat bmn bmx ba br bu bf) v).
Proof. split; [exact compat_float_float_sound|exact compat_int_float_sound]. Qed.
Print Assumptions C03_compat_sound_into_float_partial.

(* FloatRange / IntRange into ScaledInteger: no side condition (the tolerance of ScaledInteger.validate is the
   constant scale, rounding to the grid succeeds for every finite quotient) *)
Theorem C03_compat_sound_into_scaled :
  (forall amn amx aa ar au af s bmn bmx ba br bu bf,
     wfx (XFloat amn amx aa ar au af) -> wfx (XScaled s bmn bmx ba br bu bf) ->
     compat (XFloat amn amx aa ar au af) (XScaled s bmn bmx ba br bu bf) = Ok tt ->
     forall v, in_setb (erase (XFloat amn amx aa ar au af)) v = true -> accepts (XScaled s bmn bmx ba br bu bf) v) /\
  (forall amn amx s bmn bmx ba br bu bf,
     wfx (XInt amn amx) -> wfx (XScaled s bmn bmx ba br bu bf) ->
     compat (XInt amn amx) (XScaled s bmn bmx ba br bu bf) = Ok tt ->
     forall v, in_setb (erase (XInt amn amx)) v = true -> accepts (XScaled s bmn bmx ba br bu bf) v).
Proof. split; [exact compat_float_scaled_sound|exact compat_int_scaled_sound]. Qed.
Print Assumptions C03_compat_sound_into_scaled.

(* ScaledInteger as first type (limits on the grid: grid_inside) into FloatRange (same guard as for a FloatRange as
   first type) and into ScaledInteger (no guard) *)
Theorem C03_compat_sound_from_scaled :
  (forall s amn amx aa ar au af bmn bmx ba br bu bf,
     wfx (XScaled s amn amx aa ar au af) -> wfx (XFloat bmn bmx ba br bu bf) -> grid_inside s amn amx = true ->
     lo_guard bmn br amn = true -> hi_guard bmx br amx = true ->
     compat (XScaled s amn amx aa ar au af) (XFloat bmn bmx ba br bu bf) = Ok tt ->
     forall v, in_setb (erase (XScaled s amn amx aa ar au af)) v = true -> accepts (XFloat bmn bmx ba br bu bf) v) /\
  (forall sa amn amx aa ar au af s bmn bmx ba br bu bf,
     wfx (XScaled sa amn amx aa ar au af) -> wfx (XScaled s bmn bmx ba br bu bf) -> grid_inside sa amn amx = true ->
     compat (XScaled sa amn amx aa ar au af) (XScaled s bmn bmx ba br bu bf) = Ok tt ->
     forall v, in_setb (erase (XScaled sa amn amx aa ar au af)) v = true -> accepts (XScaled s bmn bmx ba br bu bf) v).
Proof. split; [exact compat_scaled_float_sound|exact compat_scaled_scaled_sound]. Qed.
Print Assumptions C03_compat_sound_from_scaled.

(* completeness: the supported pairings pass when the limits are nested (nested: LemmasCover.v; same kind with equal or
   wider limits, int into float / bool / enum containing it, bool into anything accepting False and True, enum into
   enum / bool, containers member-wise; for a struct additionally every mandatory member of b is a member of a).
   One direction only: for float targets the code is deliberately more generous (tolerance). *)
Theorem C03_compat_complete : forall a b, wfx a -> wfx b -> nested a b -> compat a b = Ok tt.
Proof. intros a b. exact (compat_complete a b). Qed.
Print Assumptions C03_compat_complete.

(* int into float: limits nested as real numbers (no rounding in the hypothesis) are nested after conversion *)
Theorem C03_compat_complete_int_into_float_exact : forall amn amx bmn bmx ba br bu bf,
  wfx (XInt amn amx) -> wfx (XFloat bmn bmx ba br bu bf) ->
  (B2R bmn <= IZR amn)%R -> (IZR amx <= B2R bmx)%R ->
  compat (XInt amn amx) (XFloat bmn bmx ba br bu bf) = Ok tt.
Proof.
  intros amn amx bmn bmx ba br bu bf Wa Wb H1 H2. pose proof (wfx_ftarget _ _ _ _ _ _ Wb) as T.
  destruct (wfx_int_range _ _ Wa) as (R1 & R2 & _).
  apply compat_int_float_complete; try assumption;
    [apply exact_nested_lo; [apply T|assumption|assumption]|apply exact_nested_hi; [apply T|assumption|assumption]].
Qed.
Print Assumptions C03_compat_complete_int_into_float_exact.

(* same kind among int / bool / string / blob / arrays of these: the verdict is exactly "limits nested", and a pass
   means nested value sets (C01's in_setb on both sides, stronger than "accepted") *)
Theorem C03_compat_same_kind_exact : forall a b,
  same_kind a b ->
  (wfx a -> (compat a b = Ok tt <-> widens a b)) /\
  (compat a b = Ok tt -> forall v, in_setb (erase a) v = true -> in_setb (erase b) v = true).
Proof.
  intros a b HK. split; [intros HW; split; [apply compat_only_if_nested; assumption|apply compat_if_nested; assumption]|].
  apply compat_sound_same_kind. exact HK.
Qed.
Print Assumptions C03_compat_same_kind_exact.

(* BoolType against ANY type (repaired 4137088): passes exactly when False and True are valid for the other type *)
Theorem C03_compat_bool : forall b,
  (compat XBool b = Ok tt -> forall v, in_setb (erase XBool) v = true -> accepts b v) /\
  (accepts b (PBool false) -> accepts b (PBool true) -> compat XBool b = Ok tt).
Proof. intros b. split; [intros H v; apply compat_bool_sound; assumption|apply compat_bool_complete]. Qed.
Print Assumptions C03_compat_bool.

(* IntRange against BoolType (repaired e3dd3e3): passes exactly when the range lies in {0, 1}, and then every value
   of the range is valid for the bool *)
Theorem C03_compat_int_into_bool : forall mn mx, (mn <= mx)%Z ->
  (compat (XInt mn mx) XBool = Ok tt <-> (0 <= mn /\ mx <= 1)%Z) /\
  (compat (XInt mn mx) XBool = Ok tt -> forall z, in_setb (erase (XInt mn mx)) (PInt z) = true -> accepts XBool (PInt z)).
Proof.
  intros mn mx H. split; [apply compat_int_bool_iff; assumption|intros HC z; apply compat_int_bool_sound; assumption].
Qed.
Print Assumptions C03_compat_int_into_bool.

(* non-vacuity: the hypotheses hold for ordinary types, incl. the formerly lossy shapes and a scaled integer *)
Definition sample : xt :=
  XStruct [($"a", XFloat fzero (fmk 10 0) fzero rel0 $"$/min" $"%.3f");
           ($"b", XArray (XEnum $"e" [($"off", 0%Z); ($"on", 1%Z)]) 0 3);
           ($"c", XTuple [XInt 0 5; XString 3 UNL true false; XBlob 0 0; XBool])] [$"b"] false.
Example C03_sample_hypotheses : wfx sample /\ server_side sample.
Proof.
  unfold sample. cbn [wfx server_side snd].
  repeat split; try discriminate; try (left; reflexivity); try (apply fix_by_bool; vm_compute; reflexivity);
    try (vm_compute; reflexivity); try (intros; discriminate).
Qed.
Example C03_sample_rebuilds : exists j, xt_export sample = Ok j /\ get_dt 3 $"p" j = Ok (Some (norm $"p" sample)).
Proof.
  destruct C03_sample_hypotheses as (HW & _).
  eexists. split; [reflexivity|]. apply C03_rebuild; try assumption; [reflexivity|cbn; auto].
Qed.
(* ScaledInteger(0.5, 0, 5): limits on the grid *)
Example C03_scaled_wfx : wfx (XScaled (fmk 1 (-1)) fzero (fmk 5 0) (fmk 1 (-1)) rel0 [] fmt0).
Proof.
  cbn [wfx].
  split; [apply fix_by_bool; vm_compute; reflexivity|]. split; [apply fix_by_bool; vm_compute; reflexivity|].
  split. { exists 0%Z, (fmk 0 0). split; [vm_compute; reflexivity|]. split; [apply float_of_Z_by_bool; vm_compute; reflexivity|].
           apply res_by_bool. vm_compute. reflexivity. }
  split. { exists 10%Z, (fmk 10 0). split; [vm_compute; reflexivity|]. split; [apply float_of_Z_by_bool; vm_compute; reflexivity|].
           apply res_by_bool. vm_compute. reflexivity. }
  split; [apply fix_by_bool; vm_compute; reflexivity|]. split; [apply fix_by_bool; vm_compute; reflexivity|].
  split; [vm_compute; reflexivity|]. split; [vm_compute; reflexivity|]. split; vm_compute; reflexivity.
Qed.
Example C03_compat_example :
  compat (XArray (XInt 0 5) 0 3) (XArray (XInt 0 10) 0 5) = Ok tt /\ is_err (compat (XArray (XInt 0 5) 0 3) (XArray (XInt 1 10) 0 5)) = true /\
  (* regression of the repaired defects *)
  compat (XInt 1 2) (XEnum [] [($"a", 1%Z); ($"b", 2%Z)]) = Ok tt /\ is_err (compat (XInt 1 3) (XEnum [] [($"a", 1%Z); ($"b", 2%Z)])) = true /\
  is_err (compat XBool (XInt 5 10)) = true /\ compat XBool (XInt 0 1) = Ok tt.
Proof. repeat split; vm_compute; reflexivity. Qed.

(* ------------------------------------------------------------------ non-vacuity of the compatibility theorems *)
Ltac wfx_by_compute :=
  cbn [wfx snd];
  repeat split; try discriminate; try (left; reflexivity); try (apply fix_by_bool; vm_compute; reflexivity);
    try (vm_compute; reflexivity); try (intros; discriminate).

(* a nested pair inside C03_compat_sound: struct of float / array of enum / tuple of int, string, bool against a struct
   with wider members, one more optional member, int into float and bool into int inside the tuple *)
Definition ex_a : xt :=
  XStruct [($"a", XFloat fzero (fmk 10 0) fzero rel0 [] fmt0);
           ($"b", XArray (XEnum $"e" [($"off", 0%Z); ($"on", 1%Z)]) 0 3);
           ($"c", XTuple [XInt 0 5; XString 0 10 false false; XBool])] [$"b"] false.
Definition ex_b : xt :=
  XStruct [($"a", XFloat fzero (fmk 20 0) fzero rel0 [] fmt0);
           ($"b", XArray (XEnum $"f" [($"off", 0%Z); ($"on", 1%Z); ($"auto", 2%Z)]) 0 5);
           ($"c", XTuple [XFloat (fmk (-1) 0) (fmk 100 0) fzero rel0 [] fmt0; XString 0 20 true false; XInt 0 1]);
           ($"d", XBool)] [$"b"; $"d"] false.
Definition ex_v : pyval :=
  PDict [($"c", PTuple [PInt 3; PStr $"abc"; PBool true]); ($"a", PFloat (fmk 5 (-1)))].

Example C03_compat_sound_hypotheses :
  wfx ex_a /\ wfx ex_b /\ covered ex_a ex_b = true /\ finding_free ex_a ex_b = true /\ compat ex_a ex_b = Ok tt /\
  in_setb (erase ex_a) ex_v = true.
Proof.
  split; [unfold ex_a; wfx_by_compute|]. split; [unfold ex_b; wfx_by_compute|].
  repeat split; vm_compute; reflexivity.
Qed.
Example C03_compat_sound_applies : accepts ex_b ex_v.
Proof.
  destruct C03_compat_sound_hypotheses as (Wa & Wb & C & G & HC & HV). exact (C03_compat_sound ex_a ex_b Wa Wb C G HC ex_v HV).
Qed.
Example C03_compat_complete_applies : nested ex_a ex_b /\ compat ex_a ex_b = Ok tt.
Proof.
  destruct C03_compat_sound_hypotheses as (Wa & Wb & _).
  assert (N : nested ex_a ex_b).
  { unfold ex_a, ex_b. rewrite nested_struct. split.
    - cbn. repeat split; try (vm_compute; reflexivity); try lia; try (eexists; vm_compute; reflexivity); try discriminate.
      + intros k z [E|[E|[]]]; injection E as <- <-; discriminate.
    - intros k Hk Ho. cbn in Hk. destruct Hk as [<-|[<-|[<-|[<-|[]]]]]; try reflexivity; vm_compute in Ho; discriminate. }
  split; [exact N|]. exact (C03_compat_complete ex_a ex_b Wa Wb N).
Qed.

(* the guard finding_free excludes exactly the refuted pairs (all of them are inside covered) *)
Example C03_guards_exclude_the_witnesses :
  let s1 := XStruct [($"a", XInt 0 1); ($"b", XBool)] [$"b"] false in
  let s2 := XStruct [($"a", XInt 0 1); ($"b", XBool)] [] false in
  let f0 := XFloat (fmk (-10) 0) (fmk 20 0) fzero rel0 [] fmt0 in
  let f2 := XFloat (fmk 5 0) (fmk 20 0) fzero (fmk 2 0) [] fmt0 in
  let g0 := XFloat (fmk (-1) 0) (fmk 5 0) fzero rel0 [] fmt0 in
  let g1 := XFloat (fmk 1 (-60)) (fmk 5 0) fzero (fmk 1 0) [] fmt0 in
  covered s1 s2 = true /\ finding_free s1 s2 = false /\ covered f0 f2 = true /\ finding_free f0 f2 = false /\
  covered g0 g1 = true /\ finding_free g0 g1 = false /\
  (* the same struct pair with the member optional on both sides is inside the guard and sound *)
  finding_free s1 (XStruct [($"a", XInt 0 1); ($"b", XBool)] [$"b"] false) = true.
Proof. repeat split; vm_compute; reflexivity. Qed.

(* a float pair that is NOT nested (5 < 5 + 2^-30) and passes thanks to the tolerance, on the side where the guard
   allows it (end point not negative): covered by the soundness theorem *)
Example C03_compat_sound_float_tolerance :
  let a := XFloat (fmk 5 0) (fmk 20 0) fzero rel0 [] fmt0 in
  let b := XFloat (fmk 5368709121 (-30)) (fmk 20 0) fzero rel0 [] fmt0 in
  wfx a /\ wfx b /\ compat a b = Ok tt /\ finding_free a b = true /\ fle (fmk 5368709121 (-30)) (fmk 5 0) = false /\
  forall v, in_setb (erase a) v = true -> accepts b v.
Proof.
  cbv zeta.
  assert (Wa : wfx (XFloat (fmk 5 0) (fmk 20 0) fzero rel0 [] fmt0)) by wfx_by_compute.
  assert (Wb : wfx (XFloat (fmk 5368709121 (-30)) (fmk 20 0) fzero rel0 [] fmt0)) by wfx_by_compute.
  assert (HC : compat (XFloat (fmk 5 0) (fmk 20 0) fzero rel0 [] fmt0)
                      (XFloat (fmk 5368709121 (-30)) (fmk 20 0) fzero rel0 [] fmt0) = Ok tt) by (vm_compute; reflexivity).
  assert (G : finding_free (XFloat (fmk 5 0) (fmk 20 0) fzero rel0 [] fmt0)
                           (XFloat (fmk 5368709121 (-30)) (fmk 20 0) fzero rel0 [] fmt0) = true) by (vm_compute; reflexivity).
  split; [exact Wa|]. split; [exact Wb|]. split; [exact HC|]. split; [exact G|]. split; [vm_compute; reflexivity|].
  apply C03_compat_sound; assumption.
Qed.

(* enums, int ranges, the conservative verdict *)
Example C03_compat_enum_examples :
  let e12 := XEnum $"e" [($"a", 1%Z); ($"b", 2%Z)] in
  let e123 := XEnum $"f" [($"x", 1%Z); ($"y", 2%Z); ($"z", 3%Z)] in
  compat e12 e123 = Ok tt /\ is_err (compat e123 e12) = true /\
  compat (XInt 1 3) e123 = Ok tt /\ is_err (compat (XInt 0 3) e123) = true /\
  compat (XEnum $"sw" [($"off", 0%Z); ($"on", 1%Z)]) XBool = Ok tt /\
  compat e12 (XInt 0 10) = Err EWrongType /\
  in_setb (erase e12) (PEnum $"b" 2) = true /\ accepts e123 (PEnum $"b" 2).
Proof.
  cbv zeta. repeat split; try (vm_compute; reflexivity).
  apply (C03_compat_sound_enum $"e" [($"a", 1%Z); ($"b", 2%Z)]); vm_compute; reflexivity.
Qed.

(* int into float with limits nested as real numbers *)
Example C03_compat_int_into_float_example :
  compat (XInt (-5) 5) (XFloat (fmk (-11) (-1)) (fmk 11 (-1)) fzero rel0 [] fmt0) = Ok tt.
Proof.
  apply C03_compat_complete_int_into_float_exact; [wfx_by_compute|wfx_by_compute| |].
  - rewrite B2R_fmk_exact by (cbv; intuition discriminate). unfold Defs.F2R. cbn. lra.
  - rewrite B2R_fmk_exact by (cbv; intuition discriminate). unfold Defs.F2R. cbn. lra.
Qed.

(* IntRange(0, 5) and FloatRange(0, 2.5) into ScaledInteger(0.5, 0, 5) *)
Example C03_compat_into_scaled_example :
  let b := XScaled (fmk 1 (-1)) fzero (fmk 5 0) (fmk 1 (-1)) rel0 [] fmt0 in
  compat (XInt 0 5) b = Ok tt /\ compat (XFloat fzero (fmk 5 (-1)) fzero rel0 [] fmt0) b = Ok tt /\
  is_err (compat (XInt 0 6) b) = true /\ covered (XInt 0 5) b = true /\
  forall v, in_setb (erase (XInt 0 5)) v = true -> accepts b v.
Proof.
  cbv zeta. split; [vm_compute; reflexivity|]. split; [vm_compute; reflexivity|]. split; [vm_compute; reflexivity|].
  split; [vm_compute; reflexivity|].
  apply (proj2 C03_compat_sound_into_scaled); [wfx_by_compute|exact C03_scaled_wfx|vm_compute; reflexivity].
Qed.

(* ScaledInteger(0.5, 0, 5) into FloatRange(0, 10) and into ScaledInteger(0.25, 0, 5): inside the umbrella theorem *)
Example C03_compat_from_scaled_example :
  let a := XScaled (fmk 1 (-1)) fzero (fmk 5 0) (fmk 1 (-1)) rel0 [] fmt0 in
  let b1 := XFloat fzero (fmk 10 0) fzero rel0 [] fmt0 in
  let b2 := XScaled (fmk 1 (-2)) fzero (fmk 5 0) (fmk 1 (-2)) rel0 [] fmt0 in
  grid_inside (fmk 1 (-1)) fzero (fmk 5 0) = true /\
  covered a b1 = true /\ finding_free a b1 = true /\ compat a b1 = Ok tt /\
  covered a b2 = true /\ finding_free a b2 = true /\ compat a b2 = Ok tt /\
  in_setb (erase a) (PFloat (fmk 5 (-1))) = true /\
  (forall v, in_setb (erase a) v = true -> accepts b1 v).
Proof.
  cbv zeta. do 8 (split; [vm_compute; reflexivity|]).
  apply C03_compat_sound; [exact C03_scaled_wfx|wfx_by_compute|vm_compute; reflexivity|vm_compute; reflexivity|vm_compute; reflexivity].
Qed.
