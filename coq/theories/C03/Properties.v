From Coq Require Import ZArith NArith Bool List.
Import ListNotations.
Require Import FV.Gen.C03 FV.C03.Model.
Theorem C03_source_facts :
  dt_bodies_as_modelled = true /\ get_datatype_none_passthrough = true /\ get_datatype_old_syntax = true /\
  get_datatype_sets_client = true /\ get_datatype_wraps_exceptions = true /\ export_nondefault_only = true /\
  get_info_shape = true /\ prop_defaults_as_modelled = true /\ export_bodies_as_modelled = true /\
  scaled_export_properties_as_modelled = true /\ copy_bodies_as_modelled = true /\
  copy_overrides_only_where_modelled = true /\ compatible_bodies_as_modelled = true /\
  struct_sets_no_client_in_init = true.
Proof. repeat split; reflexivity. Qed.
Print Assumptions C03_source_facts.
