(* C03 - property theorems only; each is closed by a lemma of Lemmas*.v.
   x ranges over ALL described datatype trees (unbounded depth and width), v / prev over all Python values.
     wfx x         the tree is constructible: every property value is a fixed point of the datatype frappy declares for
                   that property, limits ordered, optional members are members (Lemmas.v)
     lossless x    excludes exactly the two lossy shapes listed as findings (blob maxbytes = 0 / scaled scale =
                   float_info.min: a mandatory property equal to its datatype default is not exported; string with
                   minchars > 0 and unlimited maxchars)
     scaled_free x PARTIAL: the tree-level proofs do not cover ScaledInteger leaves (their rebuild is covered by the
                   correspondence and the direct oracle only)
     norm p x      x with enums named after the parameter, TextType as StringType, client flag set *)
From Coq Require Import String Ascii.
From Coq Require Import ZArith NArith Bool List.
Import ListNotations.
Require Import FV.Base.Util FV.Base.F64 FV.Base.PyVal FV.C01.Model FV.C01.Lemmas FV.Gen.C03 FV.C03.Model FV.C03.Lemmas
  FV.C03.LemmasTree FV.C03.LemmasCompat FV.C03.Refuted.

(* obligations on the facts regenerated from /repo (Gen/C03.v): the rebuild table, get_datatype, exportProperties,
   the property declarations and every export_datatype / copy / compatible body have the shape the model was written
   from; the table itself (parameters, defaults, must-ignore, forwarding) is what the model executes *)
Theorem C03_source_facts :
  dt_bodies_as_modelled = true /\ get_datatype_none_passthrough = true /\ get_datatype_old_syntax = true /\
  get_datatype_sets_client = true /\ get_datatype_wraps_exceptions = true /\ export_nondefault_only = true /\
  get_info_shape = true /\ prop_defaults_as_modelled = true /\ export_bodies_as_modelled = true /\
  scaled_export_properties_as_modelled = true /\ copy_bodies_as_modelled = true /\
  copy_overrides_only_where_modelled = true /\ compatible_bodies_as_modelled = true /\
  struct_sets_no_client_in_init = true /\
  forallb (fun ty => tbl_kwds ty) (map fst dt_params) = true /\
  forallb (fun q : str * str => tbl_forwarded (fst q) (snd q))
    [($"int", $"min"); ($"int", $"max"); ($"double", $"min"); ($"double", $"max"); ($"scaled", $"scale");
     ($"blob", $"minbytes"); ($"blob", $"maxbytes"); ($"string", $"minchars"); ($"string", $"maxchars");
     ($"string", $"isUTF8"); ($"array", $"minlen"); ($"array", $"maxlen"); ($"enum", $"members")] = true.
Proof. repeat split; reflexivity. Qed.
Print Assumptions C03_source_facts.

(* FULL STATEMENT (not provable on the pinned tree, see Refuted.v): for every constructible tree
   get_datatype(export_datatype(x)) is norm p x.  Proved: the same with the findings and scaled leaves excluded. *)
Theorem C03_rebuild_except_lossy_shapes_partial : forall p x j fuel,
  wfx x -> lossless x -> scaled_free x -> xt_export x = Ok j -> depth x <= fuel ->
  get_dt fuel p j = Ok (Some (norm p x)).
Proof. intros p x j fuel HW HL HS E HD. exact (rebuild_ok p x HW HL HS j E fuel HD). Qed.
Print Assumptions C03_rebuild_except_lossy_shapes_partial.

(* the rebuilt type has the same datainfo again ... *)
Theorem C03_same_datainfo_again : forall p x, xt_export (norm p x) = xt_export x.
Proof. intros; apply export_norm. Qed.
Print Assumptions C03_same_datainfo_again.

(* ... and accepts and rejects the same values with equal results (validate, any previous value) *)
Theorem C03_rebuilt_validates_same : forall p x v prev,
  dt_validate (erase (norm p x)) v prev = dt_validate (erase x) v prev.
Proof. intros; apply validate_norm. Qed.
Print Assumptions C03_rebuilt_validates_same.

(* copy(): the same description with no client flag; for a tree built by the constructors the very same description,
   hence the same datainfo and the same validation.  (That no mutable state is shared is a heap property: checked on
   the implementation by identity traversal + mutation of the copy, see harness/props/C03.py.) *)
Theorem C03_copy_equiv_except_lossy_shapes_partial : forall x,
  wfx x -> lossless x -> scaled_free x ->
  xt_copy x = Ok (unclient x) /\ (server_side x -> unclient x = x) /\
  xt_export (unclient x) = xt_export x /\
  forall v prev, dt_validate (erase (unclient x)) v prev = dt_validate (erase x) v prev.
Proof.
  intros x HW HL HS. split; [apply copy_ok; assumption|]. split; [apply unclient_server|].
  split; [apply export_unclient|intros; apply validate_unclient].
Qed.
Print Assumptions C03_copy_equiv_except_lossy_shapes_partial.

(* compatible() on the same-kind fragment (int, bool, string/text, blob, arrays of these): passes only if every
   value of the first type's value set is in the second type's value set ... *)
Theorem C03_compat_sound_same_kind_partial : forall a b,
  same_kind a b -> compat a b = Ok tt -> forall v, in_setb (erase a) v = true -> in_setb (erase b) v = true.
Proof. exact compat_sound_same_kind. Qed.
Print Assumptions C03_compat_sound_same_kind_partial.

(* ... and the verdict is exactly "limits nested": it does pass for equal or wider limits *)
Theorem C03_compat_complete_same_kind_partial : forall a b,
  wfx a -> same_kind a b -> (compat a b = Ok tt <-> widens a b).
Proof.
  intros a b HW HK. split; [apply compat_only_if_nested; assumption|apply compat_if_nested; assumption].
Qed.
Print Assumptions C03_compat_complete_same_kind_partial.

(* non-vacuity: the hypotheses hold for ordinary types *)
Definition sample : xt :=
  XStruct [($"a", XFloat fzero (fmk 10 0) fzero rel0 $"$/min" $"%.3f");
           ($"b", XArray (XEnum $"e" [($"off", 0%Z); ($"on", 1%Z)]) 0 3);
           ($"c", XTuple [XInt 0 5; XString 0 UNL true false; XBlob 0 255; XBool])] [$"b"] false.
Example C03_sample_hypotheses : wfx sample /\ lossless sample /\ scaled_free sample /\ server_side sample.
Proof.
  unfold sample. cbn [wfx lossless scaled_free server_side snd].
  repeat split; try discriminate; try (left; reflexivity); try (apply fix_by_bool; vm_compute; reflexivity);
    try (vm_compute; reflexivity); try (intros; discriminate).
Qed.
Example C03_sample_rebuilds : exists j, xt_export sample = Ok j /\ get_dt 3 $"p" j = Ok (Some (norm $"p" sample)).
Proof.
  destruct C03_sample_hypotheses as (HW & HL & HS & _).
  eexists. split; [reflexivity|]. apply C03_rebuild_except_lossy_shapes_partial; try assumption; [reflexivity|cbn; auto].
Qed.
Example C03_compat_example :
  compat (XArray (XInt 0 5) 0 3) (XArray (XInt 0 10) 0 5) = Ok tt /\ is_err (compat (XArray (XInt 0 5) 0 3) (XArray (XInt 1 10) 0 5)) = true.
Proof. split; vm_compute; reflexivity. Qed.
