(* C03 - rebuild and copy of whole datatype trees *)
From Coq Require Import String Ascii.
From Coq Require Import ZArith NArith Bool List Lia.
Import ListNotations.
Require Import FV.Base.Util FV.Base.F64 FV.Base.PyVal FV.C01.Model FV.C01.Lemmas FV.Gen.C03 FV.C03.Model FV.C03.Lemmas FV.C03.LemmasScaled.

Lemma map_fst_norm p (ms : list (str * xt)) : map fst (map (fun q => (fst q, norm p (snd q))) ms) = map fst ms.
Proof. rewrite map_map. reflexivity. Qed.

Lemma mk_struct_list (ms : list (str * xt)) opt c : ms <> [] -> forallb (fun n => mem_str n (map fst ms)) opt = true ->
  mk_struct ms (PList (map PStr opt)) c = Ok (XStruct ms opt c).
Proof.
  intros Hne Hopt. unfold mk_struct. destruct ms as [|m0 ms]; [contradiction|].
  cbn [py_iter]. rewrite (optional_go _ opt Hopt). reflexivity.
Qed.
Lemma mk_struct_none (ms : list (str * xt)) c : ms <> [] -> mk_struct ms PNone c = Ok (XStruct ms (map fst ms) c).
Proof. intros Hne. unfold mk_struct. destruct ms; [contradiction|reflexivity]. Qed.
Lemma map_nonempty {A B} (f : A -> B) l : l <> [] -> map f l <> [].
Proof. destruct l; [contradiction|discriminate]. Qed.

Theorem rebuild_ok p : forall x, rebuilds p x.
Proof.
  induction x using xt_ind2; unfold rebuilds; intros HW j E fuel HD;
    (destruct fuel as [|fl]; [cbn in HD; lia|]).
  - apply rebuild_float; assumption.
  - cbn in E. injection E as <-. apply rebuild_int; assumption.
  - apply rebuild_scaled; assumption.
  - cbn in E. injection E as <-. apply rebuild_bool.
  - apply (rebuild_enum fl p n ms j HW E).
  - apply (rebuild_string fl p a b u t j HW E).
  - apply (rebuild_blob fl p a b j HW E).
  - (* array *)
    destruct HW as (HWe & Ha & Hb & Hle). cbn in HD.
    cbn [xt_export] in E. apply bind_ok in E as (je & Eje & E). injection E as <-.
    start_get2 leaf_array. rewrite (IHx HWe je Eje fl ltac:(lia)). cbn [bind norm].
    unfold mk_array, none_or. cbv beta iota. rewrite Ha, Hb. cbn [as_z bind]. rewrite Hle. reflexivity.
  - (* tuple *)
    destruct HW as (Hne & HWs). cbn in HD.
    apply all_Forall in HWs.
    cbn [xt_export] in E. fold export_list in E. apply bind_ok in E as (js & Ejs & E). injection E as <-.
    assert (HDs : Forall (fun e => depth e <= fl) es) by (apply depth_list_le; lia).
    pose proof (get_list_ok p fl es js H HWs HDs Ejs) as G.
    destruct es as [|e0 es]; [contradiction|].
    destruct js as [|j0 js]; [cbn in Ejs; apply bind_ok in Ejs as (? & _ & Ejs); apply bind_ok in Ejs as (? & _ & Ejs); discriminate|].
    start_get2 leaf_tuple. cbn [negb]. unfold get_list in G. cbn beta iota in G. rewrite G. reflexivity.
  - (* struct *)
    destruct HW as (Hne & Hopt & Hform & HWs). cbn in HD.
    apply all_Forall in HWs.
    cbn [xt_export] in E. fold export_members in E. apply bind_ok in E as (js & Ejs & E). injection E as <-.
    assert (HDs : Forall (fun q => depth (snd q) <= fl) ms) by (apply depth_members_le; lia).
    pose proof (get_members_ok p fl ms js H HWs HDs Ejs) as G.
    remember (map PStr opt) as popt eqn:Epopt.
    destruct Hform as [Hneq| ->].
    + rewrite Hneq. cbn [ent app].
      start_get2 leaf_struct. cbn [negb]. fold (get_members fl p). rewrite G. cbn [bind]. subst popt.
      rewrite mk_struct_list; [reflexivity|apply map_nonempty, Hne|rewrite map_fst_norm; exact Hopt].
    + rewrite set_neq_refl. cbn [ent app].
      start_get2 leaf_struct. cbn [negb]. fold (get_members fl p). rewrite G. cbn [bind].
      rewrite mk_struct_none; [|apply map_nonempty, Hne]. rewrite map_fst_norm. reflexivity.
Qed.

(* ------------------------------------------------------------------ copy *)
Fixpoint unclient (x : xt) : xt :=
  match x with
  | XArray e a b => XArray (unclient e) a b
  | XTuple es => XTuple (map unclient es)
  | XStruct ms opt _ => XStruct (map (fun q => (fst q, unclient (snd q))) ms) opt false
  | _ => x
  end.

Ltac copy_leaf HW :=
  match goal with |- xt_copy ?X = _ =>
    let j := fresh "j" in let E := fresh "E" in
    assert (exists j, xt_export X = Ok j) as [j E] by (eexists; reflexivity);
    change (xt_copy X) with (rebuild 2 X); unfold rebuild; rewrite E; cbn [bind];
    rewrite (rebuild_ok [] X HW j E 2 ltac:(cbn; lia)); reflexivity
  end.

Ltac copy_scaled HW :=
  match goal with |- xt_copy ?X = _ =>
    let j := fresh "j" in let E := fresh "E" in
    assert (exists j, xt_export X = Ok j) as [j E]
      by (destruct HW as (_ & _ & (k1 & kf1 & Ek1 & _) & (k2 & kf2 & Ek2 & _) & _); cbn [xt_export]; rewrite Ek1, Ek2;
          eexists; reflexivity);
    change (xt_copy X) with (rebuild 2 X); unfold rebuild; rewrite E; cbn [bind];
    rewrite (rebuild_ok [] X HW j E 2 ltac:(cbn; lia)); reflexivity
  end.

Theorem copy_ok : forall x, wfx x -> xt_copy x = Ok (unclient x).
Proof.
  induction x using xt_ind2; intros HW.
  - copy_leaf HW.
  - copy_leaf HW.
  - copy_scaled HW.
  - copy_leaf HW.
  - reflexivity.
  - destruct t.
    + destruct HW as (_ & _ & _ & Ht). destruct (Ht eq_refl) as [-> ->]. reflexivity.
    + copy_leaf HW.
  - copy_leaf HW.
  - destruct HW as (HWe & _). cbn [xt_copy unclient]. rewrite (IHx HWe). reflexivity.
  - destruct HW as (_ & HWs). apply all_Forall in HWs. cbn [xt_copy unclient].
    assert (G : (fix go (l : list xt) : res (list xt) :=
                   match l with
                   | [] => Ok []
                   | e :: r => xt_copy e >>= fun e' => go r >>= fun es' => Ok (e' :: es')
                   end) es = Ok (map unclient es)).
    { induction es as [|e es IH]; [reflexivity|].
      inversion H; inversion HWs; subst.
      rewrite (H2 H6). cbn [bind]. rewrite (IH H3 H7). reflexivity. }
    rewrite G. reflexivity.
  - destruct HW as (_ & _ & _ & HWs). apply all_Forall in HWs. cbn [xt_copy unclient].
    assert (G : (fix go (l : list (str * xt)) : res (list (str * xt)) :=
                   match l with
                   | [] => Ok []
                   | (n, e) :: r => xt_copy e >>= fun e' => go r >>= fun es' => Ok ((n, e') :: es')
                   end) ms = Ok (map (fun q => (fst q, unclient (snd q))) ms)).
    { induction ms as [|[n e] ms IH]; [reflexivity|].
      inversion H; inversion HWs; subst. cbn [fst snd] in *.
      rewrite (H2 H6). cbn [bind]. rewrite (IH H3 H7). reflexivity. }
    rewrite G. reflexivity.
Qed.

(* a tree built by the constructors carries no client flag: its copy has the same description *)
Fixpoint server_side (x : xt) : Prop :=
  match x with
  | XArray e _ _ => server_side e
  | XTuple es => (fix all (l : list xt) : Prop := match l with [] => True | e :: r => server_side e /\ all r end) es
  | XStruct ms _ c =>
      c = false /\
      (fix all (l : list (str * xt)) : Prop := match l with [] => True | q :: r => server_side (snd q) /\ all r end) ms
  | _ => True
  end.

Lemma unclient_server : forall x, server_side x -> unclient x = x.
Proof.
  induction x using xt_ind2; intros HS; try reflexivity.
  - cbn in *. rewrite (IHx HS). reflexivity.
  - cbn in *. apply all_Forall in HS. f_equal.
    induction es as [|e es IH]; [reflexivity|]. inversion H; inversion HS; subst. cbn. rewrite (H2 H6), (IH H3 H7). reflexivity.
  - cbn in *. destruct HS as [-> HS]. apply all_Forall in HS. f_equal.
    induction ms as [|[n e] ms IH]; [reflexivity|]. inversion H; inversion HS; subst. cbn in *. rewrite (H2 H6), (IH H3 H7). reflexivity.
Qed.

(* ------------------------------------------------------------------ the rebuilt type validates like the original:
   erase forgets enum name / TextType; the client flag is not consulted by validate (allow_optional = True) *)
Lemma map_res_ext f g l : (forall x, f x = g x) -> map_res f l = map_res g l.
Proof. intros H. induction l as [|x l IH]; [reflexivity|]. cbn [map_res]. rewrite H. fold (map_res f) (map_res g). rewrite IH. reflexivity. Qed.
Lemma map2_res_ext f g : (forall x p, f x p = g x p) -> forall l ps, map2_res f l ps = map2_res g l ps.
Proof.
  intros H. induction l as [|x l IH]; intros [|q ps]; try reflexivity.
  cbn [map2_res]. rewrite H. fold (map2_res f) (map2_res g). rewrite IH. reflexivity.
Qed.

Definition same_validate (a b : dtype) : Prop := forall v prev, dt_validate a v prev = dt_validate b v prev.

Lemma mapd_res_same (ds ds' : list dtype) : Forall2 same_validate ds ds' -> forall l,
  mapd_res (fun d1 x => dt_validate d1 x PNone) ds l = mapd_res (fun d1 x => dt_validate d1 x PNone) ds' l.
Proof.
  induction 1 as [|d d' ds ds' Hd Hds IH]; intros l; [reflexivity|]. destruct l as [|x l]; [reflexivity|].
  cbn [mapd_res]. rewrite (Hd x PNone).
  fold (mapd_res (fun d1 x => dt_validate d1 x PNone)). rewrite IH. reflexivity.
Qed.
Lemma mapd2_res_same (ds ds' : list dtype) : Forall2 same_validate ds ds' -> forall l ps,
  mapd2_res dt_validate ds l ps = mapd2_res dt_validate ds' l ps.
Proof.
  induction 1 as [|d d' ds ds' Hd Hds IH]; intros l ps; [reflexivity|]. destruct l as [|x l]; [reflexivity|].
  destruct ps as [|q ps]; [reflexivity|].
  cbn [mapd2_res]. rewrite (Hd x q). fold (mapd2_res dt_validate). rewrite IH. reflexivity.
Qed.
Lemma member_res_same k x (ms ms' : list (str * dtype)) :
  Forall2 (fun a b => fst a = fst b /\ same_validate (snd a) (snd b)) ms ms' ->
  member_res (fun d1 x => dt_validate d1 x PNone) k x ms = member_res (fun d1 x => dt_validate d1 x PNone) k x ms'.
Proof.
  induction 1 as [|[n d] [n' d'] ms ms' [Hn Hd] Hms IH]; [reflexivity|]. cbn in Hn, Hd. subst n'.
  cbn [member_res]. rewrite (Hd x PNone). fold (member_res (fun d1 x => dt_validate d1 x PNone) k x). rewrite IH. reflexivity.
Qed.
Lemma struct_fold_same (ms ms' : list (str * dtype)) :
  Forall2 (fun a b => fst a = fst b /\ same_validate (snd a) (snd b)) ms ms' -> forall kv acc,
  struct_fold (fun d1 x => dt_validate d1 x PNone) true ms kv acc =
  struct_fold (fun d1 x => dt_validate d1 x PNone) true ms' kv acc.
Proof.
  intros H. induction kv as [|[k x] kv IH]; intros acc; [reflexivity|].
  cbn [struct_fold]. fold (struct_fold (fun d1 x => dt_validate d1 x PNone) true ms)
                          (struct_fold (fun d1 x => dt_validate d1 x PNone) true ms').
  rewrite (member_res_same k x ms ms' H). destruct x; try (rewrite IH; reflexivity);
    destruct (member_res _ k _ ms'); cbn [bind]; try reflexivity; apply IH.
Qed.

Lemma struct_check_client names opt c c' v : struct_check names opt c true v = struct_check names opt c' true v.
Proof. unfold struct_check. rewrite !orb_true_r. reflexivity. Qed.

Theorem validate_norm p : forall x, same_validate (erase (norm p x)) (erase x).
Proof.
  induction x using xt_ind2; intros v prev; try reflexivity.
  - cbn [norm erase dt_validate]. destruct (array_check a b v); [|reflexivity]. cbn [bind].
    destruct (py_iter v) as [items|]; [|reflexivity]. destruct (py_truthy prev).
    + destruct (py_iter prev) as [ps|]; [|reflexivity]. rewrite (map2_res_ext _ _ IHx). reflexivity.
    + rewrite (map_res_ext _ _ _ (fun x0 => IHx x0 PNone)). reflexivity.
  - cbn [norm erase dt_validate]. rewrite !map_length.
    assert (F : Forall2 same_validate (map erase (map (norm p) es)) (map erase es)).
    { induction H as [|e es He Hes IH]; constructor; assumption. }
    destruct (tuple_check (length es) v); [|reflexivity]. cbn [bind].
    destruct (py_iter v) as [items|]; [|reflexivity].
    destruct prev; try (rewrite (mapd_res_same _ _ F); reflexivity);
      match goal with |- context [py_iter ?q] => destruct (py_iter q); [|reflexivity] end;
      rewrite (mapd2_res_same _ _ F); reflexivity.
  - cbn [norm erase dt_validate].
    assert (F : Forall2 (fun a b => fst a = fst b /\ same_validate (snd a) (snd b))
                  (map (fun q => (fst q, erase (snd q))) (map (fun q => (fst q, norm p (snd q))) ms))
                  (map (fun q => (fst q, erase (snd q))) ms)).
    { induction H as [|e es He Hes IH]; constructor; [split; [reflexivity|exact He]|assumption]. }
    rewrite !map_map. cbn [fst].
    rewrite (struct_check_client _ opt true c v).
    rewrite !map_map in F. cbn [fst snd] in F.
    match goal with |- context [struct_check ?a ?b ?c ?d ?e] => destruct (struct_check a b c d e); [|reflexivity] end.
    cbn [bind]. destruct (if py_truthy prev then _ else _) as [start|]; [|reflexivity].
    destruct (negb (is_dict v)); [reflexivity|].
    rewrite (struct_fold_same _ _ F). reflexivity.
Qed.

Lemma export_unclient : forall x, xt_export (unclient x) = xt_export x.
Proof.
  induction x using xt_ind2; try reflexivity.
  - cbn [unclient xt_export]. rewrite IHx. reflexivity.
  - cbn [unclient xt_export]. fold export_list.
    assert (E : export_list (map unclient es) = export_list es).
    { induction H as [|e l He Hl IHl]; [reflexivity|]. cbn [map export_list]. rewrite He. fold export_list. rewrite IHl. reflexivity. }
    rewrite E. reflexivity.
  - cbn [unclient xt_export]. fold export_members.
    assert (E : export_members (map (fun q => (fst q, unclient (snd q))) ms) = export_members ms).
    { induction H as [|[n e] l He Hl IHl]; [reflexivity|]. cbn [map export_members fst snd] in *. rewrite He.
      fold export_members. rewrite IHl. reflexivity. }
    rewrite E. rewrite map_map. reflexivity.
Qed.

Theorem validate_unclient : forall x, same_validate (erase (unclient x)) (erase x).
Proof.
  induction x using xt_ind2; intros v prev; try reflexivity.
  - cbn [unclient erase dt_validate]. destruct (array_check a b v); [|reflexivity]. cbn [bind].
    destruct (py_iter v) as [items|]; [|reflexivity]. destruct (py_truthy prev).
    + destruct (py_iter prev) as [ps|]; [|reflexivity]. rewrite (map2_res_ext _ _ IHx). reflexivity.
    + rewrite (map_res_ext _ _ _ (fun x0 => IHx x0 PNone)). reflexivity.
  - cbn [unclient erase dt_validate]. rewrite !map_length.
    assert (F : Forall2 same_validate (map erase (map unclient es)) (map erase es)).
    { induction H as [|e es He Hes IH]; constructor; assumption. }
    destruct (tuple_check (length es) v); [|reflexivity]. cbn [bind].
    destruct (py_iter v) as [items|]; [|reflexivity].
    destruct prev; try (rewrite (mapd_res_same _ _ F); reflexivity);
      match goal with |- context [py_iter ?q] => destruct (py_iter q); [|reflexivity] end;
      rewrite (mapd2_res_same _ _ F); reflexivity.
  - cbn [unclient erase dt_validate].
    assert (F : Forall2 (fun a b => fst a = fst b /\ same_validate (snd a) (snd b))
                  (map (fun q => (fst q, erase (snd q))) (map (fun q => (fst q, unclient (snd q))) ms))
                  (map (fun q => (fst q, erase (snd q))) ms)).
    { induction H as [|e es He Hes IH]; constructor; [split; [reflexivity|exact He]|assumption]. }
    rewrite !map_map. cbn [fst].
    rewrite (struct_check_client _ opt false c v).
    rewrite !map_map in F. cbn [fst snd] in F.
    match goal with |- context [struct_check ?a ?b ?c ?d ?e] => destruct (struct_check a b c d e); [|reflexivity] end.
    cbn [bind]. destruct (if py_truthy prev then _ else _) as [start|]; [|reflexivity].
    destruct (negb (is_dict v)); [reflexivity|].
    rewrite (struct_fold_same _ _ F). reflexivity.
Qed.

(* proving that a concrete float is a fixed point of a property validator without normalising floats *)
Lemma fsame_eq (a b : f64) : fsame a b = true -> a = b.
Proof.
  destruct a as [s|s| |s m e B], b as [s'|s'| |s' m' e' B']; cbn; try discriminate; intros H.
  - apply Bool.eqb_prop in H. subst. reflexivity.
  - apply Bool.eqb_prop in H. subst. reflexivity.
  - reflexivity.
  - apply andb_true_iff in H as [H H3]. apply andb_true_iff in H as [H1 H2].
    apply Bool.eqb_prop in H1. apply Pos.eqb_eq in H2. apply Z.eqb_eq in H3. subst.
    f_equal. apply Eqdep_dec.UIP_dec. apply bool_dec.
Qed.
Lemma fix_by_bool (pv : pyval -> res pyval) (f : f64) :
  res_float_is (fun g => fsame g f) (pv (PFloat f)) = true -> fixf pv f.
Proof.
  unfold fixf, res_float_is. destruct (pv (PFloat f)) as [[]|]; try discriminate. intros H. apply fsame_eq in H. subst. reflexivity.
Qed.
Lemma res_by_bool (r : res pyval) (f : f64) : res_float_is (fun g => fsame g f) r = true -> r = Ok (PFloat f).
Proof. unfold res_float_is. destruct r as [[]|]; try discriminate. intros H. apply fsame_eq in H. subst. reflexivity. Qed.
Lemma float_of_Z_by_bool z : fis_finite (fmk z 0) = true -> float_of_Z z = Some (fmk z 0).
Proof. intros H. unfold float_of_Z, of_Z. cbv zeta. rewrite H. reflexivity. Qed.
