(* C03 - lemmas: structural facts about export / rebuild / copy *)
From Coq Require Import String Ascii.
From Coq Require Import ZArith NArith Bool List Lia Eqdep_dec.
Import ListNotations.
From Flocq Require Import IEEE754.BinarySingleNaN.
Require Import FV.Base.Util FV.Base.F64 FV.Base.PyVal FV.C01.Model FV.C01.Lemmas FV.Gen.C03 FV.C03.Model.

(* float constants must never be normalised (the boundedness proof inside a finite float is huge) *)
Arguments fmaxval : simpl never.
Arguments rel0 : simpl never.
Arguments dblmin : simpl never.
Arguments fopp : simpl never.
Arguments fmt0 : simpl never.

(* ------------------------------------------------------------------ induction over described types *)
Lemma xt_ind2 (P : xt -> Prop)
  (HF : forall mn mx a r u f, P (XFloat mn mx a r u f))
  (HI : forall mn mx, P (XInt mn mx))
  (HS : forall s mn mx a r u f, P (XScaled s mn mx a r u f))
  (HB : P XBool)
  (HE : forall n ms, P (XEnum n ms))
  (HStr : forall a b u t, P (XString a b u t))
  (HBl : forall a b, P (XBlob a b))
  (HA : forall e a b, P e -> P (XArray e a b))
  (HT : forall es, Forall P es -> P (XTuple es))
  (HSt : forall ms opt c, Forall (fun p => P (snd p)) ms -> P (XStruct ms opt c)) : forall x, P x.
Proof.
  fix IH 1. intros [mn mx a r u f|mn mx|s mn mx a r u f| |n ms|a b u t|a b|e a b|es|ms opt c].
  - apply HF. - apply HI. - apply HS. - apply HB. - apply HE. - apply HStr. - apply HBl.
  - apply HA, IH.
  - apply HT. induction es as [|e es IHes]; constructor; [apply IH|exact IHes].
  - apply HSt. induction ms as [|[n e] ms IHms]; constructor; [apply IH|exact IHms].
Qed.

(* the type get_datatype(export_datatype(x), pname) is expected to be: enums named after the parameter, TextType
   becomes StringType, every struct carries the client flag *)
Fixpoint norm (p : str) (x : xt) : xt :=
  match x with
  | XEnum _ ms => XEnum p ms
  | XString a b u _ => XString a b u false
  | XArray e a b => XArray (norm p e) a b
  | XTuple es => XTuple (map (norm p) es)
  | XStruct ms opt _ =>
      XStruct (map (fun q => (fst q, norm p (snd q))) ms) opt true
  | _ => x
  end.

Fixpoint depth (x : xt) : nat :=
  match x with
  | XArray e _ _ => S (depth e)
  | XTuple es => S (fold_right (fun e n => Nat.max (depth e) n) 0 es)
  | XStruct ms _ _ => S (fold_right (fun q n => Nat.max (depth (snd q)) n) 0 ms)
  | _ => 1
  end.

Lemma mem_str_app k l1 l2 : mem_str k (l1 ++ l2) = mem_str k l1 || mem_str k l2.
Proof. induction l1 as [|x l1 IH]; [reflexivity|]. cbn. rewrite IH. apply orb_assoc. Qed.
Lemma incl_str_refl l : incl_str l l = true.
Proof.
  unfold incl_str. assert (E : forall pre l, forallb (fun k => mem_str k (pre ++ l)) l = true).
  { intros pre l0. revert pre. induction l0 as [|x l0 IH]; intros pre; [reflexivity|]. cbn [forallb].
    rewrite mem_str_app. cbn [mem_str]. rewrite str_eqb_refl, orb_true_r. cbn.
    replace (pre ++ x :: l0) with ((pre ++ [x]) ++ l0) by (rewrite <- app_assoc; reflexivity). apply IH. }
  apply (E [] l).
Qed.
Lemma set_neq_refl l : set_neq l l = false.
Proof. unfold set_neq. rewrite incl_str_refl. reflexivity. Qed.

(* export only looks at what norm keeps *)
Lemma export_norm p : forall x, xt_export (norm p x) = xt_export x.
Proof.
  induction x using xt_ind2; try reflexivity.
  - cbn [norm xt_export]. rewrite IHx. reflexivity.
  - cbn [norm xt_export].
    assert (E : forall l, Forall (fun x => xt_export (norm p x) = xt_export x) l ->
      (fix go (l : list xt) : res (list pyval) :=
         match l with [] => Ok [] | e :: r => xt_export e >>= fun j => go r >>= fun js => Ok (j :: js) end) (map (norm p) l) =
      (fix go (l : list xt) : res (list pyval) :=
         match l with [] => Ok [] | e :: r => xt_export e >>= fun j => go r >>= fun js => Ok (j :: js) end) l).
    { induction 1 as [|e l He Hl IHl]; [reflexivity|]. cbn [map]. rewrite He, IHl. reflexivity. }
    rewrite (E es H). reflexivity.
  - cbn [norm xt_export].
    assert (E : forall l, Forall (fun q : str * xt => xt_export (norm p (snd q)) = xt_export (snd q)) l ->
      (fix go (l : list (str * xt)) : res (list (str * pyval)) :=
         match l with [] => Ok [] | (n, e) :: r => xt_export e >>= fun j => go r >>= fun js => Ok ((n, j) :: js) end)
        (map (fun q => (fst q, norm p (snd q))) l) =
      (fix go (l : list (str * xt)) : res (list (str * pyval)) :=
         match l with [] => Ok [] | (n, e) :: r => xt_export e >>= fun j => go r >>= fun js => Ok ((n, j) :: js) end) l).
    { induction 1 as [|[n e] l He Hl IHl]; [reflexivity|]. cbn [map fst snd] in *. rewrite He, IHl. reflexivity. }
    rewrite (E ms H). rewrite map_map. cbn [fst]. reflexivity.
Qed.

(* ------------------------------------------------------------------ float equality against a finite constant *)
Lemma feq_finite_eq (a : f64) s m e B : feq a (B754_finite s m e B) = true -> a = B754_finite s m e B.
Proof.
  destruct a as [s'|s'| |s' m' e' B'];
    [cbn; destruct s; discriminate|cbn; destruct s', s; discriminate|cbn; discriminate|].
  unfold feq, Beqb, SpecFloat.SFeqb. cbn [B2SF SpecFloat.SFcompare].
  intros H.
  assert (s' = s /\ e' = e /\ m' = m) as (-> & -> & ->).
  { destruct s', s; try discriminate;
      destruct (Z.compare e' e) eqn:Ee; try discriminate; apply Z.compare_eq in Ee; subst;
      destruct (Pos.compare_cont Eq m' m) eqn:Em; try discriminate;
      apply Pos.compare_eq in Em; subst; auto. }
  f_equal. apply UIP_dec. apply bool_dec.
Qed.

(* ------------------------------------------------------------------ constructible (well-formed) described types:
   every property value is a fixed point of the datatype that frappy declares for that property (HasProperties
   stores only validated values), limits are ordered, scaled limits lie on the grid *)
Definition fixf (pv : pyval -> res pyval) (f : f64) : Prop := pv (PFloat f) = Ok (PFloat f).
Definition fixz (pv : pyval -> res pyval) (z : Z) : Prop := pv (PInt z) = Ok (PInt z).
Definition fixs (pv : pyval -> res pyval) (s : str) : Prop := pv (PStr s) = Ok (PStr s).

Definition grid_aligned (s x : f64) : Prop :=
  exists k kf, scaled_int x s = Ok k /\ float_of_Z k = Some kf /\ pv_float (PFloat (fmul kf s)) = Ok (PFloat x).

Fixpoint wfx (x : xt) : Prop :=
  match x with
  | XFloat mn mx a r u f =>
      fixf pv_float mn /\ fixf pv_float mx /\ fixf pv_float0 a /\ fixf pv_float0 r /\ fixs pv_unit u /\ fixs pv_fmt f /\
      has_pct f = true /\ flt mx mn = false
  | XInt mn mx => fixz pv_intU mn /\ fixz pv_intU mx /\ (mx <? mn)%Z = false
  | XScaled s mn mx a r u f =>
      fixf pv_scale s /\ fixf pv_float0 s /\ grid_aligned s mn /\ grid_aligned s mx /\ fixf pv_float0 a /\
      fixf pv_float0 r /\ fixs pv_unit u /\ fixs pv_fmt f /\ has_pct f = true /\ flt mx mn = false
  | XBool => True
  | XEnum _ ms => enum_add (map (fun q => (fst q, PInt (snd q))) ms) [] = Ok ms /\ ms <> []
  | XString a b u t => fixz pv_int0U a /\ fixz pv_int0U b /\ (b <? a)%Z = false /\ (t = true -> a = 0%Z /\ u = false)
  | XBlob a b => fixz pv_int0 a /\ fixz pv_int0 b /\ (b <? a)%Z = false
  | XArray e a b => wfx e /\ fixz pv_int0 a /\ fixz pv_int0 b /\ (b <? a)%Z = false
  | XTuple es => es <> [] /\ (fix all (l : list xt) : Prop := match l with [] => True | e :: r => wfx e /\ all r end) es
  | XStruct ms opt _ =>
      ms <> [] /\ forallb (fun n => mem_str n (map fst ms)) opt = true /\
      (set_neq opt (map fst ms) = true \/ opt = map fst ms) /\
      (fix all (l : list (str * xt)) : Prop := match l with [] => True | q :: r => wfx (snd q) /\ all r end) ms
  end.

Lemma feq_eq (a b : f64) :
  match b with B754_finite _ _ _ _ => True | _ => False end -> feq a b = true -> a = b.
Proof. destruct b; try contradiction. intros _. apply feq_finite_eq. Qed.

Lemma feq_zero_fix (a : f64) : feq a fzero = true -> fixf pv_float0 a -> a = fzero.
Proof.
  intros H F. destruct a as [[|]|[|]| |[|] m e B]; try (cbv in H; discriminate H); try reflexivity.
  vm_compute in F. discriminate F.
Qed.

(* never normalise a term down to a finite float (the boundedness proof inside is huge): test through booleans *)
Definition res_float_is (t : f64 -> bool) (r : res pyval) : bool :=
  match r with Ok (PFloat f) => t f | _ => false end.

Lemma scale_is_finite (s : f64) : fixf pv_scale s -> match s with B754_finite _ _ _ _ => True | _ => False end.
Proof.
  intros H. destruct s as [[|]|[|]| |]; try exact I.
  all: match type of H with fixf _ ?x =>
         assert (E : res_float_is (fun f => fsame f x) (pv_scale (PFloat x)) = true) by (rewrite H; reflexivity) end;
       vm_compute in E; discriminate E.
Qed.

Definition is_fin (b : f64) : Prop := match b with B754_finite _ _ _ _ => True | _ => False end.
Lemma fin_fmax : is_fin fmaxval. Proof. exact I. Qed.
Lemma fin_nfmax : is_fin (fopp fmaxval). Proof. exact I. Qed.
Lemma fin_rel0 : is_fin rel0. Proof. exact I. Qed.
Lemma fin_dblmin : is_fin dblmin. Proof. exact I. Qed.
#[global] Opaque pv_float pv_float0 pv_scale pv_unit pv_fmt pv_intU pv_int0 pv_int0U fmaxval rel0 dblmin fopp fmt0.

(* evaluation of the table lookups on a concrete description (values stay symbolic) *)
Ltac ev_lookup :=
  repeat match goal with
  | |- context [split_json ?j] => let t := eval vm_compute in (split_json j) in change (split_json j) with t
  | |- context [binds_ok ?a ?b] => let t := eval vm_compute in (binds_ok a b) in change (binds_ok a b) with t
  | |- context [arg ?a ?b ?c] => let t := eval vm_compute in (arg a b c) in change (arg a b c) with t
  | |- context [arg_pos ?a ?b ?c] => let t := eval vm_compute in (arg_pos a b c) in change (arg_pos a b c) with t
  | |- context [farg ?a ?b ?c] => let t := eval vm_compute in (farg a b c) in change (farg a b c) with t
  end.

Lemma leaf_bool p kw : leaf_of p $"bool" kw = Some (Ok XBool). Proof. reflexivity. Qed.
Lemma leaf_int p kw : leaf_of p $"int" kw = Some (mk_int (arg $"int" $"min" kw) (arg $"int" $"max" kw)).
Proof. reflexivity. Qed.
Lemma leaf_double p kw : leaf_of p $"double" kw =
  Some (mk_float (arg $"double" $"min" kw) (arg $"double" $"max" kw) (farg $"double" $"unit" kw) (farg $"double" $"fmtstr" kw)
                 (farg $"double" $"absolute_resolution" kw) (farg $"double" $"relative_resolution" kw)).
Proof. reflexivity. Qed.
Lemma leaf_scaled p kw : leaf_of p $"scaled" kw =
  Some (mk_scaled (arg $"scaled" $"scale" kw) (arg_pos $"scaled" $"min" kw) (arg_pos $"scaled" $"max" kw)
                  (farg $"scaled" $"unit" kw) (farg $"scaled" $"fmtstr" kw) (farg $"scaled" $"absolute_resolution" kw)
                  (farg $"scaled" $"relative_resolution" kw)).
Proof. reflexivity. Qed.
Lemma leaf_blob p kw : leaf_of p $"blob" kw = Some (mk_blob (arg $"blob" $"minbytes" kw) (arg $"blob" $"maxbytes" kw)).
Proof. reflexivity. Qed.
Lemma leaf_string p kw : leaf_of p $"string" kw =
  Some (mk_string (arg $"string" $"minchars" kw) (arg $"string" $"maxchars" kw) (arg $"string" $"isUTF8" kw)).
Proof. reflexivity. Qed.
Lemma leaf_enum p kw : leaf_of p $"enum" kw = Some (mk_enum p (arg $"enum" $"members" kw)). Proof. reflexivity. Qed.
Lemma leaf_array p kw : leaf_of p $"array" kw = None. Proof. reflexivity. Qed.
Lemma leaf_tuple p kw : leaf_of p $"tuple" kw = None. Proof. reflexivity. Qed.
Lemma leaf_struct p kw : leaf_of p $"struct" kw = None. Proof. reflexivity. Qed.

Ltac start_get L := cbn [get_dt]; ev_lookup; cbn [bind negb]; rewrite L; ev_lookup; unfold some_xt.

Lemma rebuild_int fuel p mn mx : wfx (XInt mn mx) ->
  get_dt (S fuel) p (PDict [($"max", PInt mx); ($"min", PInt mn); ($"type", PStr $"int")]) = Ok (Some (XInt mn mx)).
Proof.
  intros (Hmn & Hmx & Hle). start_get leaf_int. unfold mk_int. cbv beta iota.
  rewrite Hmn, Hmx. cbn [as_z bind]. rewrite Hle. reflexivity.
Qed.

Lemma rebuild_bool fuel p : get_dt (S fuel) p (PDict [($"type", PStr $"bool")]) = Ok (Some XBool).
Proof. start_get leaf_bool. reflexivity. Qed.

Lemma rebuild_blob fuel p a b j : wfx (XBlob a b) -> xt_export (XBlob a b) = Ok j ->
  get_dt (S fuel) p j = Ok (Some (XBlob a b)).
Proof.
  intros (Ha & Hb & Hle) E. cbn [xt_export] in E. injection E as <-.
  destruct (Z.eqb_spec a 0) as [->|_]; cbn [negb ent app]; start_get leaf_blob; unfold mk_blob, none_or; cbv beta iota;
    rewrite Ha, Hb; cbn [as_z bind]; rewrite Hle; reflexivity.
Qed.

Lemma rebuild_string fuel p a b u t j : wfx (XString a b u t) ->
  xt_export (XString a b u t) = Ok j -> get_dt (S fuel) p j = Ok (Some (XString a b u false)).
Proof.
  intros (Ha & Hb & Hle & _) E. cbn [xt_export] in E. injection E as <-.
  destruct (Z.eqb_spec b UNL) as [->|Hb']; destruct (Z.eqb_spec a 0) as [->|Ha'];
    destruct u; cbn [negb ent app]; start_get leaf_string; unfold mk_string, none_or; cbv beta iota;
    cbn [py_truthy Z.eqb negb]; rewrite ?Ha, ?Hb; cbn [as_z as_b bind bool_call]; rewrite ?Ha, ?Hb; cbn [as_z as_b bind bool_call];
    rewrite Hle; reflexivity.
Qed.

Lemma rebuild_enum fuel p n ms j : wfx (XEnum n ms) -> xt_export (XEnum n ms) = Ok j ->
  get_dt (S fuel) p j = Ok (Some (XEnum p ms)).
Proof.
  intros (He & Hne) E. cbn [xt_export] in E. injection E as <-.
  remember (map (fun q : str * Z => (fst q, PInt (snd q))) ms) as m eqn:Em.
  start_get leaf_enum. unfold mk_enum. rewrite He. cbn [bind]. destruct ms; [contradiction|reflexivity].
Qed.

Ltac split_feq C H c :=
  match type of C with
  | _ = true => idtac
  | _ = false => apply negb_false_iff in C; apply feq_eq in C; [subst|exact I]
  end.

Lemma rebuild_float fuel p mn mx a r u f j : wfx (XFloat mn mx a r u f) -> xt_export (XFloat mn mx a r u f) = Ok j ->
  get_dt (S fuel) p j = Ok (Some (XFloat mn mx a r u f)).
Proof.
  intros (Hmn & Hmx & Ha & Hr & Hu & Hf & Hp & Hle) E. cbn [xt_export] in E. injection E as <-.
  destruct (fne a fzero) eqn:Ca; [|apply negb_false_iff in Ca; pose proof (feq_zero_fix a Ca Ha); subst a];
  (destruct (negb (str_eqb f fmt0)) eqn:Cf; [|apply negb_false_iff, str_eqb_eq in Cf; subst f]);
  (destruct (fne mx fmaxval) eqn:Cmx; [|apply negb_false_iff in Cmx; apply feq_eq in Cmx; [subst mx|exact fin_fmax]]);
  (destruct (fne mn (fopp fmaxval)) eqn:Cmn; [|apply negb_false_iff in Cmn; apply feq_eq in Cmn; [subst mn|exact fin_nfmax]]);
  (destruct (fne r rel0) eqn:Cr; [|apply negb_false_iff in Cr; apply feq_eq in Cr; [subst r|exact fin_rel0]]);
  (destruct (negb (str_eqb u [])) eqn:Cu; [|apply negb_false_iff, str_eqb_eq in Cu; subst u]);
  cbn [ent app]; start_get leaf_double; unfold mk_float, float_props; cbv beta iota;
  remember (fopp fmaxval) as NFM in *; remember fmaxval as FM in *; remember rel0 as R0 in *; remember fmt0 as F0 in *;
  remember fzero as Z0 in *;
  rewrite ?Hmn, ?Hmx, ?Ha, ?Hr, ?Hu, ?Hf; cbn [as_f as_s bind]; rewrite ?Hmn, ?Hmx, ?Ha, ?Hr, ?Hu, ?Hf; cbn [as_f as_s bind];
  rewrite Hp; cbv beta iota; rewrite Hle; reflexivity.
Qed.

(* ------------------------------------------------------------------ rebuild of whole trees *)
Definition export_list : list xt -> res (list pyval) :=
  fix go (l : list xt) : res (list pyval) :=
    match l with [] => Ok [] | e :: r => xt_export e >>= fun j => go r >>= fun js => Ok (j :: js) end.
Definition export_members : list (str * xt) -> res (list (str * pyval)) :=
  fix go (l : list (str * xt)) : res (list (str * pyval)) :=
    match l with [] => Ok [] | (n, e) :: r => xt_export e >>= fun j => go r >>= fun js => Ok ((n, j) :: js) end.
Definition get_list (fuel : nat) (p : str) : list pyval -> res (list xt) :=
  fix go (l : list pyval) : res (list xt) :=
    match l with
    | [] => Ok []
    | t :: r => get_dt fuel p t >>= need_xt >>= fun e => go r >>= fun es => Ok (e :: es)
    end.
Definition get_members (fuel : nat) (p : str) : list (str * pyval) -> res (list (str * xt)) :=
  fix go (l : list (str * pyval)) : res (list (str * xt)) :=
    match l with
    | [] => Ok []
    | (n, t) :: r => get_dt fuel p t >>= need_xt >>= fun e => go r >>= fun es => Ok ((n, e) :: es)
    end.

Definition rebuilds (p : str) (x : xt) : Prop :=
  wfx x -> forall j, xt_export x = Ok j ->
  forall fuel, depth x <= fuel -> get_dt fuel p j = Ok (Some (norm p x)).

Ltac ev_lookup2 :=
  repeat match goal with
  | |- context [split_json ?j] => let t := eval vm_compute in (split_json j) in change (split_json j) with t
  | |- context [binds_ok ?a ?b] => let t := eval vm_compute in (binds_ok a b) in change (binds_ok a b) with t
  | |- context [arg ?a ?b ?c] => let t := eval vm_compute in (arg a b c) in change (arg a b c) with t
  | |- context [arg_pos ?a ?b ?c] => let t := eval vm_compute in (arg_pos a b c) in change (arg_pos a b c) with t
  | |- context [str_eqb ?a ?b] => let t := eval vm_compute in (str_eqb a b) in change (str_eqb a b) with t
  end.
Ltac start_get2 L := cbn [get_dt]; ev_lookup2; cbn [bind negb]; rewrite L; ev_lookup2; cbv beta iota; unfold some_xt.

Lemma get_list_ok p f : forall es js,
  Forall (rebuilds p) es -> Forall wfx es ->
  Forall (fun e => depth e <= f) es -> export_list es = Ok js -> get_list f p js = Ok (map (norm p) es).
Proof.
  induction es as [|e es IH]; intros js HR HW HD E.
  - cbn in E. injection E as <-. reflexivity.
  - inversion HR; inversion HW; inversion HD; subst.
    cbn [export_list] in E. apply bind_ok in E as (j & Ej & E). apply bind_ok in E as (js' & Ejs & E). injection E as <-.
    cbn [get_list]. rewrite (H1 H5 j Ej f H9). cbn [bind need_xt].
    fold (get_list f p). rewrite (IH js' H2 H6 H10 Ejs). reflexivity.
Qed.

Lemma get_members_ok p f : forall ms js,
  Forall (fun q => rebuilds p (snd q)) ms -> Forall (fun q => wfx (snd q)) ms ->
  Forall (fun q => depth (snd q) <= f) ms ->
  export_members ms = Ok js -> get_members f p js = Ok (map (fun q => (fst q, norm p (snd q))) ms).
Proof.
  induction ms as [|[n e] ms IH]; intros js HR HW HD E.
  - cbn in E. injection E as <-. reflexivity.
  - inversion HR; inversion HW; inversion HD; subst. cbn [snd fst] in *.
    cbn [export_members] in E. apply bind_ok in E as (j & Ej & E). apply bind_ok in E as (js' & Ejs & E). injection E as <-.
    cbn [get_members]. rewrite (H1 H5 j Ej f H9). cbn [bind need_xt].
    fold (get_members f p). rewrite (IH js' H2 H6 H10 Ejs). reflexivity.
Qed.

Lemma all_Forall {A} (P : A -> Prop) (l : list A) :
  (fix all (l : list A) : Prop := match l with [] => True | e :: r => P e /\ all r end) l -> Forall P l.
Proof. induction l as [|e l IH]; intros H; constructor; [apply H|apply IH, H]. Qed.

Lemma depth_list_le f es : fold_right (fun e n => Nat.max (depth e) n) 0 es <= f -> Forall (fun e => depth e <= f) es.
Proof. induction es as [|e es IH]; cbn; intros H; constructor; [lia|apply IH; lia]. Qed.
Lemma depth_members_le f (ms : list (str * xt)) :
  fold_right (fun q n => Nat.max (depth (snd q)) n) 0 ms <= f -> Forall (fun q => depth (snd q) <= f) ms.
Proof. induction ms as [|e ms IH]; cbn; intros H; constructor; [lia|apply IH; lia]. Qed.

Lemma optional_go (names : list str) : forall opt, forallb (fun n => mem_str n names) opt = true ->
  (fix go (l : list pyval) : res (list str) :=
     match l with
     | [] => Ok []
     | PStr s :: r => if mem_str s names then go r >>= fun ss => Ok (s :: ss) else W
     | _ :: _ => W
     end) (map PStr opt) = Ok opt.
Proof.
  induction opt as [|s opt IH]; intros H; [reflexivity|]. cbn in H. apply andb_true_iff in H as [H1 H2].
  cbn [map]. rewrite H1, (IH H2). reflexivity.
Qed.
