(* C03 - lemmas: structural facts about export / rebuild / copy *)
From Coq Require Import String Ascii.
From Coq Require Import ZArith NArith Bool List Lia Eqdep_dec.
Import ListNotations.
From Flocq Require Import IEEE754.BinarySingleNaN.
Require Import FV.Base.Util FV.Base.F64 FV.Base.PyVal FV.C01.Model FV.Gen.C03 FV.C03.Model.

(* ------------------------------------------------------------------ induction over described types *)
Lemma xt_ind2 (P : xt -> Prop)
  (HF : forall mn mx a r u f, P (XFloat mn mx a r u f))
  (HI : forall mn mx, P (XInt mn mx))
  (HS : forall s mn mx a r u f, P (XScaled s mn mx a r u f))
  (HB : P XBool)
  (HE : forall n ms, P (XEnum n ms))
  (HStr : forall a b u t, P (XString a b u t))
  (HBl : forall a b, P (XBlob a b))
  (HA : forall e a b, P e -> P (XArray e a b))
  (HT : forall es, Forall P es -> P (XTuple es))
  (HSt : forall ms opt c, Forall (fun p => P (snd p)) ms -> P (XStruct ms opt c)) : forall x, P x.
Proof.
  fix IH 1. intros [mn mx a r u f|mn mx|s mn mx a r u f| |n ms|a b u t|a b|e a b|es|ms opt c].
  - apply HF. - apply HI. - apply HS. - apply HB. - apply HE. - apply HStr. - apply HBl.
  - apply HA, IH.
  - apply HT. induction es as [|e es IHes]; constructor; [apply IH|exact IHes].
  - apply HSt. induction ms as [|[n e] ms IHms]; constructor; [apply IH|exact IHms].
Qed.

(* the type get_datatype(export_datatype(x), pname) is expected to be: enums named after the parameter, TextType
   becomes StringType, every struct carries the client flag *)
Fixpoint norm (p : str) (x : xt) : xt :=
  match x with
  | XEnum _ ms => XEnum p ms
  | XString a b u _ => XString a b u false
  | XArray e a b => XArray (norm p e) a b
  | XTuple es => XTuple (map (norm p) es)
  | XStruct ms opt _ => XStruct (map (fun q => (fst q, norm p (snd q))) ms) opt true
  | _ => x
  end.

Fixpoint depth (x : xt) : nat :=
  match x with
  | XArray e _ _ => S (depth e)
  | XTuple es => S (fold_right (fun e n => Nat.max (depth e) n) 0 es)
  | XStruct ms _ _ => S (fold_right (fun q n => Nat.max (depth (snd q)) n) 0 ms)
  | _ => 1
  end.

(* export only looks at what norm keeps *)
Lemma export_norm p : forall x, xt_export (norm p x) = xt_export x.
Proof.
  induction x using xt_ind2; try reflexivity.
  - cbn [norm xt_export]. rewrite IHx. reflexivity.
  - cbn [norm xt_export].
    assert (E : forall l, Forall (fun x => xt_export (norm p x) = xt_export x) l ->
      (fix go (l : list xt) : res (list pyval) :=
         match l with [] => Ok [] | e :: r => xt_export e >>= fun j => go r >>= fun js => Ok (j :: js) end) (map (norm p) l) =
      (fix go (l : list xt) : res (list pyval) :=
         match l with [] => Ok [] | e :: r => xt_export e >>= fun j => go r >>= fun js => Ok (j :: js) end) l).
    { induction 1 as [|e l He Hl IHl]; [reflexivity|]. cbn [map]. rewrite He, IHl. reflexivity. }
    rewrite (E es H). reflexivity.
  - cbn [norm xt_export].
    assert (E : forall l, Forall (fun q : str * xt => xt_export (norm p (snd q)) = xt_export (snd q)) l ->
      (fix go (l : list (str * xt)) : res (list (str * pyval)) :=
         match l with [] => Ok [] | (n, e) :: r => xt_export e >>= fun j => go r >>= fun js => Ok ((n, j) :: js) end)
        (map (fun q => (fst q, norm p (snd q))) l) =
      (fix go (l : list (str * xt)) : res (list (str * pyval)) :=
         match l with [] => Ok [] | (n, e) :: r => xt_export e >>= fun j => go r >>= fun js => Ok ((n, j) :: js) end) l).
    { induction 1 as [|[n e] l He Hl IHl]; [reflexivity|]. cbn [map fst snd] in *. rewrite He, IHl. reflexivity. }
    rewrite (E ms H). rewrite map_map. cbn [fst]. reflexivity.
Qed.

(* ------------------------------------------------------------------ float equality against a finite constant *)
Lemma feq_finite_eq (a : f64) s m e B : feq a (B754_finite s m e B) = true -> a = B754_finite s m e B.
Proof.
  destruct a as [s'|s'| |s' m' e' B'];
    [cbn; destruct s; discriminate|cbn; destruct s', s; discriminate|cbn; discriminate|].
  unfold feq, Beqb, SpecFloat.SFeqb. cbn [B2SF SpecFloat.SFcompare].
  intros H.
  assert (s' = s /\ e' = e /\ m' = m) as (-> & -> & ->).
  { destruct s', s; try discriminate;
      destruct (Z.compare e' e) eqn:Ee; try discriminate; apply Z.compare_eq in Ee; subst;
      destruct (Pos.compare_cont Eq m' m) eqn:Em; try discriminate;
      apply Pos.compare_eq in Em; subst; auto. }
  f_equal. apply UIP_dec. apply bool_dec.
Qed.
