(* C03 - vacuity audit: every theorem of Properties.v applied at a concrete, non-trivial instance with all premises
   discharged (existing witnesses in Properties.v: C03_sample_rebuilds, C03_compat_sound_applies,
   C03_compat_complete_applies, C03_compat_sound_float_tolerance, C03_compat_enum_examples,
   C03_compat_int_into_float_example, C03_compat_into_scaled_example, C03_compat_from_scaled_example).
   C03 has no environment / oracle: the theorems quantify over described datatype trees and Python values only. *)
From Coq Require Import String Ascii.
From Coq Require Import ZArith NArith Bool List Reals Lia Lra.
Import ListNotations.
From Flocq Require Import IEEE754.BinarySingleNaN.
Require Import FV.Base.Util FV.Base.F64 FV.Base.PyVal FV.C01.Model FV.C01.Lemmas FV.Gen.C03 FV.C03.Model FV.C03.Lemmas
  FV.C03.LemmasScaled FV.C03.LemmasTree FV.C03.F64Mono FV.C03.LemmasCompat FV.C03.LemmasNum FV.C03.LemmasScaledTarget
  FV.C03.LemmasCover FV.C03.Refuted FV.C03.Properties FV.C03.Run.

Lemma ok_ex {A} (r : res A) : (match r with Ok _ => true | Err _ => false end) = true -> exists x, r = Ok x.
Proof. destruct r; [eauto|discriminate]. Qed.

Lemma accepts_by_bool b v :
  (match dt_validate (erase b) v PNone with Ok _ => true | Err _ => false end) = true -> accepts b v.
Proof. intros H. exact (ok_ex _ H). Qed.

(* ------------------------------------------------------------------ a tree with every kind
   struct (optional given in non-member order) of: ScaledInteger(0.5, 0, 5), FloatRange(-1.5, 10, unit, fmtstr),
   array of array of enum, tuple of IntRange / TextType / BlobType(1, 4) / BoolType / StringType(2, 8, isUTF8) *)
Definition sc : xt := XScaled (fmk 1 (-1)) fzero (fmk 5 0) (fmk 1 (-1)) rel0 [] fmt0.
Definition big : xt :=
  XStruct [($"s", sc);
           ($"f", XFloat (fmk (-3) (-1)) (fmk 10 0) (fmk 1 (-3)) rel0 $"K" $"%.3f");
           ($"arr", XArray (XArray (XEnum $"e" [($"off", 0%Z); ($"on", 1%Z); ($"auto", 5%Z)]) 0 3) 1 2);
           ($"t", XTuple [XInt (-7) 5; XString 0 UNL false true; XBlob 1 4; XBool; XString 2 8 true false])]
          [$"t"; $"s"] false.

Lemma wfx_sc : wfx sc. Proof. exact C03_scaled_wfx. Qed.

Lemma wfx_big : wfx big.
Proof.
  unfold big. cbn [wfx snd].
  split; [discriminate|]. split; [vm_compute; reflexivity|]. split; [left; vm_compute; reflexivity|].
  split; [exact wfx_sc|].
  split; [wfx_by_compute|]. split; [wfx_by_compute|]. split; [wfx_by_compute|]. exact I.
Qed.

Lemma server_big : server_side big.
Proof. unfold big, sc. cbn [server_side snd]. repeat split. Qed.

(* C03_rebuild *)
Example C03_rebuild_applies :
  exists j, xt_export big = Ok j /\ get_dt 4 $"par" j = Ok (Some (norm $"par" big)).
Proof.
  destruct (ok_ex (xt_export big) ltac:(vm_compute; reflexivity)) as [j Hj].
  exists j. split; [exact Hj|].
  apply C03_rebuild; [exact wfx_big|exact Hj|apply Nat.leb_le; vm_compute; reflexivity].
Qed.

(* the rebuilt tree is really different from the original (enum renamed, TextType -> StringType, client flag):
   the statement is not an identity *)
Example C03_rebuild_changes_tree : xt_eqb (norm $"par" big) big = false.
Proof. vm_compute. reflexivity. Qed.

(* C03_same_datainfo_again / C03_rebuilt_validates_same carry no premise; both sides are Ok at the instance *)
Definition big_v : pyval :=
  PDict [($"f", PFloat (fmk 5 (-1)));
         ($"arr", PTuple [PTuple [PEnum $"on" 1; PEnum $"auto" 5]]);
         ($"s", PFloat (fmk 5 (-1)))].
Example C03_same_datainfo_again_applies :
  xt_export (norm $"par" big) = xt_export big /\ is_ok (xt_export big) = true.
Proof. split; [apply C03_same_datainfo_again|vm_compute; reflexivity]. Qed.
Example C03_rebuilt_validates_same_applies :
  dt_validate (erase (norm $"par" big)) big_v PNone = dt_validate (erase big) big_v PNone /\
  is_ok (dt_validate (erase big) big_v PNone) = true /\ in_setb (erase big) big_v = true.
Proof. split; [apply C03_rebuilt_validates_same|split; vm_compute; reflexivity]. Qed.

(* C03_copy_equiv, with the server_side premise of its second clause *)
Example C03_copy_equiv_applies :
  xt_copy big = Ok (unclient big) /\ unclient big = big /\ xt_export (unclient big) = xt_export big /\
  forall v prev, dt_validate (erase (unclient big)) v prev = dt_validate (erase big) v prev.
Proof.
  destruct (C03_copy_equiv big wfx_big) as (H1 & H2 & H3 & H4).
  split; [exact H1|]. split; [exact (H2 server_big)|]. split; [exact H3|exact H4].
Qed.
(* a client-side tree (as produced by get_datatype): copy() drops the flag, unclient is not the identity *)
Example C03_copy_equiv_applies_client :
  let x := norm $"par" big in
  xt_copy x = Ok (unclient x) /\ xt_eqb (unclient x) x = false.
Proof.
  cbv zeta. split; [|vm_compute; reflexivity].
  apply (C03_copy_equiv (norm $"par" big)).
  unfold big. cbn [norm map fst snd wfx].
  split; [discriminate|]. split; [vm_compute; reflexivity|]. split; [left; vm_compute; reflexivity|].
  split; [exact wfx_sc|].
  split; [wfx_by_compute|]. split; [wfx_by_compute|]. split; [wfx_by_compute|]. exact I.
Qed.

(* ------------------------------------------------------------------ compatible(): umbrella theorem at a pair that
   contains a ScaledInteger as first type (inside a struct, inside a tuple) *)
Definition cs_a : xt :=
  XStruct [($"s", sc); ($"t", XTuple [sc; XInt 0 5; XBool]);
           ($"arr", XArray (XEnum $"e" [($"off", 0%Z); ($"on", 1%Z)]) 0 3)] [$"arr"] false.
Definition cs_b : xt :=
  XStruct [($"s", XFloat fzero (fmk 10 0) fzero rel0 [] fmt0);
           ($"t", XTuple [XScaled (fmk 1 (-2)) fzero (fmk 5 0) (fmk 1 (-2)) rel0 [] fmt0; sc; XInt 0 1]);
           ($"arr", XArray XBool 0 4); ($"x", XBlob 0 3)] [$"arr"; $"x"] false.
Definition cs_v : pyval :=
  PDict [($"t", PTuple [PFloat (fmk 3 (-1)); PInt 4; PBool true]); ($"s", PFloat (fmk 5 0));
         ($"arr", PTuple [PEnum $"on" 1; PEnum $"off" 0])].
Lemma wfx_sc4 : wfx (XScaled (fmk 1 (-2)) fzero (fmk 5 0) (fmk 1 (-2)) rel0 [] fmt0).
Proof.
  cbn [wfx].
  split; [apply fix_by_bool; vm_compute; reflexivity|]. split; [apply fix_by_bool; vm_compute; reflexivity|].
  split. { exists 0%Z, (fmk 0 0). split; [vm_compute; reflexivity|]. split; [apply float_of_Z_by_bool; vm_compute; reflexivity|].
           apply res_by_bool. vm_compute. reflexivity. }
  split. { exists 20%Z, (fmk 20 0). split; [vm_compute; reflexivity|]. split; [apply float_of_Z_by_bool; vm_compute; reflexivity|].
           apply res_by_bool. vm_compute. reflexivity. }
  split; [apply fix_by_bool; vm_compute; reflexivity|]. split; [apply fix_by_bool; vm_compute; reflexivity|].
  split; [vm_compute; reflexivity|]. split; [vm_compute; reflexivity|]. split; vm_compute; reflexivity.
Qed.
Lemma wfx_cs_a : wfx cs_a.
Proof.
  unfold cs_a. cbn [wfx snd].
  split; [discriminate|]. split; [vm_compute; reflexivity|]. split; [left; vm_compute; reflexivity|].
  split; [exact wfx_sc|]. split; [|split; [wfx_by_compute|exact I]].
  split; [discriminate|]. split; [exact wfx_sc|]. split; [wfx_by_compute|]. split; exact I.
Qed.
Lemma wfx_cs_b : wfx cs_b.
Proof.
  unfold cs_b. cbn [wfx snd].
  split; [discriminate|]. split; [vm_compute; reflexivity|]. split; [left; vm_compute; reflexivity|].
  split; [wfx_by_compute|]. split; [|split; [wfx_by_compute|split; [wfx_by_compute|exact I]]].
  split; [discriminate|]. split; [exact wfx_sc4|]. split; [exact wfx_sc|]. split; [wfx_by_compute|exact I].
Qed.
Example C03_compat_sound_applies_scaled_inside :
  covered cs_a cs_b = true /\ finding_free cs_a cs_b = true /\ compat cs_a cs_b = Ok tt /\
  in_setb (erase cs_a) cs_v = true /\ accepts cs_b cs_v.
Proof.
  assert (C : covered cs_a cs_b = true) by (vm_compute; reflexivity).
  assert (G : finding_free cs_a cs_b = true) by (vm_compute; reflexivity).
  assert (HC : compat cs_a cs_b = Ok tt) by (vm_compute; reflexivity).
  assert (HV : in_setb (erase cs_a) cs_v = true) by (vm_compute; reflexivity).
  repeat (split; [assumption|]).
  exact (C03_compat_sound cs_a cs_b wfx_cs_a wfx_cs_b C G HC cs_v HV).
Qed.

(* ------------------------------------------------------------------ enum theorems *)
Definition e12 : xt := XEnum $"e" [($"a", 1%Z); ($"b", 2%Z)].
Definition e123 : xt := XEnum $"f" [($"x", 1%Z); ($"y", 2%Z); ($"z", 3%Z)].

(* C03_compat_sound_enum into a non-enum type as well (enum into bool) *)
Example C03_compat_sound_enum_applies :
  accepts e123 (PEnum $"b" 2) /\ accepts XBool (PEnum $"on" 1).
Proof.
  split.
  - apply (C03_compat_sound_enum $"e" [($"a", 1%Z); ($"b", 2%Z)] e123); vm_compute; reflexivity.
  - apply (C03_compat_sound_enum $"sw" [($"off", 0%Z); ($"on", 1%Z)] XBool); vm_compute; reflexivity.
Qed.

(* C03_compat_enum_into_enum: both directions used, and the right hand side fails for the reversed pair *)
Example C03_compat_enum_into_enum_applies :
  (forall k z, In (k, z) [($"a", 1%Z); ($"b", 2%Z)] -> enum_by_value z [($"x", 1%Z); ($"y", 2%Z); ($"z", 3%Z)] <> None) /\
  compat e12 e123 = Ok tt /\
  ~ (forall k z, In (k, z) [($"x", 1%Z); ($"y", 2%Z); ($"z", 3%Z)] -> enum_by_value z [($"a", 1%Z); ($"b", 2%Z)] <> None).
Proof.
  assert (R : forall k z, In (k, z) [($"a", 1%Z); ($"b", 2%Z)] ->
              enum_by_value z [($"x", 1%Z); ($"y", 2%Z); ($"z", 3%Z)] <> None).
  { intros k z [E|[E|[]]]; injection E as <- <-; vm_compute; discriminate. }
  split; [exact R|]. split.
  - apply (proj2 (C03_compat_enum_into_enum $"e" _ $"f" _)). exact R.
  - intros H. apply (proj2 (C03_compat_enum_into_enum $"f" _ $"e" _)) in H. vm_compute in H. discriminate.
Qed.

(* C03_compat_enum_into_number_never_passes: the three number kinds *)
Example C03_compat_enum_into_number_applies :
  compat e12 (XInt 0 10) = Err EWrongType /\ compat e12 (XFloat fzero (fmk 10 0) fzero rel0 [] fmt0) = Err EWrongType /\
  compat e12 sc = Err EWrongType.
Proof.
  repeat split; apply C03_compat_enum_into_number_never_passes; try discriminate; reflexivity.
Qed.

(* C03_compat_int_into_enum: both clauses *)
Example C03_compat_int_into_enum_applies :
  compat (XInt 1 3) e123 = Ok tt /\ in_setb (erase (XInt 1 3)) (PInt 2) = true /\ accepts e123 (PInt 2) /\
  ~ (forall z, (0 <= z <= 3)%Z -> enum_by_value z [($"x", 1%Z); ($"y", 2%Z); ($"z", 3%Z)] <> None).
Proof.
  destruct (C03_compat_int_into_enum 1 3 $"f" [($"x", 1%Z); ($"y", 2%Z); ($"z", 3%Z)]) as [I S].
  assert (HC : compat (XInt 1 3) e123 = Ok tt).
  { apply (proj2 I). intros z Hz. assert (z = 1 \/ z = 2 \/ z = 3)%Z as [->|[->| ->]] by lia; vm_compute; discriminate. }
  split; [exact HC|]. split; [vm_compute; reflexivity|]. split; [apply (S HC); vm_compute; reflexivity|].
  intros H. apply (proj2 (proj1 (C03_compat_int_into_enum 0 3 $"f" _))) in H. vm_compute in H. discriminate.
Qed.

(* ------------------------------------------------------------------ number pairs, each clause applied directly *)
Definition fa : xt := XFloat (fmk 5 0) (fmk 20 0) fzero rel0 [] fmt0.
Definition fb : xt := XFloat (fmk 5368709121 (-30)) (fmk 20 0) fzero rel0 [] fmt0.   (* 5 + 2^-30 .. 20: not nested *)
Definition fi : xt := XFloat (fmk (-11) (-1)) (fmk 11 (-1)) (fmk 1 (-4)) rel0 $"V" $"%.2f".

Example C03_compat_sound_into_float_partial_applies :
  (in_setb (erase fa) (PFloat (fmk 5 0)) = true /\ accepts fb (PFloat (fmk 5 0))) /\
  (in_setb (erase (XInt (-5) 5)) (PInt (-5)) = true /\ accepts fi (PInt (-5))).
Proof.
  split; (split; [vm_compute; reflexivity|]).
  - apply (proj1 C03_compat_sound_into_float_partial (fmk 5 0) (fmk 20 0) fzero rel0 [] fmt0
             (fmk 5368709121 (-30)) (fmk 20 0) fzero rel0 [] fmt0);
      [wfx_by_compute|wfx_by_compute|vm_compute; reflexivity|vm_compute; reflexivity|vm_compute; reflexivity|vm_compute; reflexivity].
  - apply (proj2 C03_compat_sound_into_float_partial (-5)%Z 5%Z (fmk (-11) (-1)) (fmk 11 (-1)) (fmk 1 (-4)) rel0 $"V" $"%.2f");
      [wfx_by_compute|wfx_by_compute|vm_compute; reflexivity|vm_compute; reflexivity|vm_compute; reflexivity|vm_compute; reflexivity].
Qed.
(* the guards are not implied by the other premises: pair of the finding passes compat, guard false *)
Example C03_into_float_guard_is_a_real_restriction :
  let f0 := XFloat (fmk (-10) 0) (fmk 20 0) fzero rel0 [] fmt0 in
  let f2 := XFloat (fmk 5 0) (fmk 20 0) fzero (fmk 2 0) [] fmt0 in
  compat f0 f2 = Ok tt /\ lo_guard (fmk 5 0) (fmk 2 0) (fmk (-10) 0) = false.
Proof. split; vm_compute; reflexivity. Qed.

Example C03_compat_sound_into_scaled_applies :
  (in_setb (erase (XFloat fzero (fmk 5 (-1)) fzero rel0 [] fmt0)) (PFloat (fmk 3 (-1))) = true /\
   accepts sc (PFloat (fmk 3 (-1)))) /\
  (in_setb (erase (XInt 0 5)) (PInt 4) = true /\ accepts sc (PInt 4)).
Proof.
  split; (split; [vm_compute; reflexivity|]).
  - apply (proj1 C03_compat_sound_into_scaled fzero (fmk 5 (-1)) fzero rel0 [] fmt0
             (fmk 1 (-1)) fzero (fmk 5 0) (fmk 1 (-1)) rel0 [] fmt0);
      [wfx_by_compute|exact wfx_sc|vm_compute; reflexivity|vm_compute; reflexivity].
  - apply (proj2 C03_compat_sound_into_scaled 0%Z 5%Z (fmk 1 (-1)) fzero (fmk 5 0) (fmk 1 (-1)) rel0 [] fmt0);
      [wfx_by_compute|exact wfx_sc|vm_compute; reflexivity|vm_compute; reflexivity].
Qed.

Example C03_compat_sound_from_scaled_applies :
  in_setb (erase sc) (PFloat (fmk 9 (-1))) = true /\
  accepts (XFloat fzero (fmk 10 0) fzero rel0 [] fmt0) (PFloat (fmk 9 (-1))) /\
  accepts (XScaled (fmk 1 (-2)) fzero (fmk 5 0) (fmk 1 (-2)) rel0 [] fmt0) (PFloat (fmk 9 (-1))).
Proof.
  split; [vm_compute; reflexivity|]. split.
  - apply (proj1 C03_compat_sound_from_scaled (fmk 1 (-1)) fzero (fmk 5 0) (fmk 1 (-1)) rel0 [] fmt0
             fzero (fmk 10 0) fzero rel0 [] fmt0);
      [exact wfx_sc|wfx_by_compute|vm_compute; reflexivity|vm_compute; reflexivity|vm_compute; reflexivity
      |vm_compute; reflexivity|vm_compute; reflexivity].
  - apply (proj2 C03_compat_sound_from_scaled (fmk 1 (-1)) fzero (fmk 5 0) (fmk 1 (-1)) rel0 [] fmt0
             (fmk 1 (-2)) fzero (fmk 5 0) (fmk 1 (-2)) rel0 [] fmt0);
      [exact wfx_sc|exact wfx_sc4|vm_compute; reflexivity|vm_compute; reflexivity|vm_compute; reflexivity].
Qed.

(* ------------------------------------------------------------------ same kind, bool, int into bool *)
Definition ka : xt := XArray (XArray (XString 2 8 true false) 0 3) 1 2.
Definition kb : xt := XArray (XArray (XString 0 20 true false) 0 5) 0 2.
Example C03_compat_same_kind_exact_applies :
  same_kind ka kb /\ widens ka kb /\ compat ka kb = Ok tt /\
  in_setb (erase ka) (PTuple [PTuple [PStr $"abc"; PStr $"de"]]) = true /\
  in_setb (erase kb) (PTuple [PTuple [PStr $"abc"; PStr $"de"]]) = true /\
  ~ widens kb ka /\ compat kb ka <> Ok tt.
Proof.
  assert (K : same_kind ka kb) by exact I.
  assert (K' : same_kind kb ka) by exact I.
  assert (Wa : wfx ka) by (unfold ka; wfx_by_compute).
  assert (Wb : wfx kb) by (unfold kb; wfx_by_compute).
  destruct (C03_compat_same_kind_exact ka kb K) as [E S].
  destruct (C03_compat_same_kind_exact kb ka K') as [E' _].
  assert (N : widens ka kb) by (cbn; repeat split; try lia; auto).
  assert (HC : compat ka kb = Ok tt) by (apply (proj2 (E Wa)); exact N).
  assert (HV : in_setb (erase ka) (PTuple [PTuple [PStr $"abc"; PStr $"de"]]) = true) by (vm_compute; reflexivity).
  assert (N' : ~ widens kb ka) by (cbn; lia).
  split; [exact K|]. split; [exact N|]. split; [exact HC|]. split; [exact HV|]. split; [exact (S HC _ HV)|].
  split; [exact N'|]. intros H. apply N'. apply (proj1 (E' Wb)). exact H.
Qed.

Example C03_compat_bool_applies :
  (* second clause, then first clause from its result *)
  compat XBool (XInt 0 1) = Ok tt /\ accepts (XInt 0 1) (PBool true) /\
  compat XBool (XEnum $"sw" [($"off", 0%Z); ($"on", 1%Z)]) = Ok tt /\
  compat XBool (XFloat (fmk (-1) 0) (fmk 5 0) fzero rel0 [] fmt0) = Ok tt.
Proof.
  assert (HC : compat XBool (XInt 0 1) = Ok tt).
  { apply (proj2 (C03_compat_bool (XInt 0 1))); apply accepts_by_bool; vm_compute; reflexivity. }
  split; [exact HC|]. split; [apply (proj1 (C03_compat_bool (XInt 0 1)) HC); vm_compute; reflexivity|].
  split; apply (proj2 (C03_compat_bool _)); apply accepts_by_bool; vm_compute; reflexivity.
Qed.

Example C03_compat_int_into_bool_applies :
  compat (XInt 0 1) XBool = Ok tt /\ accepts XBool (PInt 1) /\ compat (XInt 0 2) XBool <> Ok tt.
Proof.
  destruct (C03_compat_int_into_bool 0 1 ltac:(lia)) as [I S].
  assert (HC : compat (XInt 0 1) XBool = Ok tt) by (apply (proj2 I); lia).
  split; [exact HC|]. split; [apply (S HC); vm_compute; reflexivity|].
  intros H. apply (proj1 (proj1 (C03_compat_int_into_bool 0 2 ltac:(lia)))) in H. lia.
Qed.

(* completeness at the pair with scaled members is outside nested? no: checked at the existing example
   C03_compat_complete_applies; here the int-into-float clause with a non-default target *)
Example C03_compat_complete_int_into_float_exact_applies : compat (XInt (-5) 5) fi = Ok tt.
Proof.
  apply C03_compat_complete_int_into_float_exact; [wfx_by_compute|wfx_by_compute| |].
  - rewrite B2R_fmk_exact by (cbv; intuition discriminate). unfold Defs.F2R. cbn. lra.
  - rewrite B2R_fmk_exact by (cbv; intuition discriminate). unfold Defs.F2R. cbn. lra.
Qed.

(* ------------------------------------------------------------------ wfx is not restricted to dyadic scales:
   ScaledInteger(0.1, 0, 0.3) as frappy stores it (max = 3 * 0.1 = 0.30000000000000004), rebuilt and copied *)
Definition s01 : f64 := fmk 3602879701896397 (-55).
Definition sc01 : xt := XScaled s01 fzero (fmk 1351079888211149 (-52)) s01 rel0 $"mm" $"%.1f".
Lemma wfx_sc01 : wfx sc01.
Proof.
  unfold sc01. cbn [wfx].
  split; [apply fix_by_bool; vm_compute; reflexivity|]. split; [apply fix_by_bool; vm_compute; reflexivity|].
  split. { exists 0%Z, (fmk 0 0). split; [vm_compute; reflexivity|]. split; [apply float_of_Z_by_bool; vm_compute; reflexivity|].
           apply res_by_bool. vm_compute. reflexivity. }
  split. { exists 3%Z, (fmk 3 0). split; [vm_compute; reflexivity|]. split; [apply float_of_Z_by_bool; vm_compute; reflexivity|].
           apply res_by_bool. vm_compute. reflexivity. }
  split; [apply fix_by_bool; vm_compute; reflexivity|]. split; [apply fix_by_bool; vm_compute; reflexivity|].
  split; [vm_compute; reflexivity|]. split; [vm_compute; reflexivity|]. split; vm_compute; reflexivity.
Qed.
Example C03_rebuild_applies_scaled_decimal :
  exists j, xt_export (XArray sc01 0 4) = Ok j /\
            get_dt 2 $"par" j = Ok (Some (norm $"par" (XArray sc01 0 4))) /\
            xt_copy (XArray sc01 0 4) = Ok (XArray sc01 0 4).
Proof.
  assert (W : wfx (XArray sc01 0 4)) by (cbn [wfx]; split; [exact wfx_sc01|wfx_by_compute]).
  destruct (ok_ex (xt_export (XArray sc01 0 4)) ltac:(vm_compute; reflexivity)) as [j Hj].
  exists j. split; [exact Hj|]. split.
  - apply C03_rebuild; [exact W|exact Hj|apply Nat.leb_le; vm_compute; reflexivity].
  - exact (proj1 (C03_copy_equiv _ W)).
Qed.
(* ... and as first type of compatible(): grid_inside holds for it, into FloatRange(0, 1) *)
Example C03_compat_sound_from_scaled_decimal :
  grid_inside s01 fzero (fmk 1351079888211149 (-52)) = true /\
  in_setb (erase sc01) (PFloat (fmk 1 (-2))) = true /\
  accepts (XFloat fzero (fmk 1 0) fzero rel0 [] fmt0) (PFloat (fmk 1 (-2))).
Proof.
  split; [vm_compute; reflexivity|]. split; [vm_compute; reflexivity|].
  apply (proj1 C03_compat_sound_from_scaled s01 fzero (fmk 1351079888211149 (-52)) s01 rel0 $"mm" $"%.1f"
           fzero (fmk 1 0) fzero rel0 [] fmt0);
    [exact wfx_sc01|wfx_by_compute|vm_compute; reflexivity|vm_compute; reflexivity|vm_compute; reflexivity
    |vm_compute; reflexivity|vm_compute; reflexivity].
Qed.

