(* C03 - witnesses of the places where the pinned code (faithfully modelled) violates the property.
   Each corresponds to one OPEN entry of findings/C03.json and to a guard of a positive theorem.
   (The witnesses of the four repaired defects - blob maxbytes 0, string minchars without maxchars, int into
   enum/bool, bool into number - are gone; the repaired behaviour is now proved in Properties.v.) *)
From Coq Require Import String Ascii.
From Coq Require Import ZArith NArith Bool List Lia.
Import ListNotations.
Require Import FV.Base.Util FV.Base.F64 FV.Base.PyVal FV.C01.Model FV.C01.Lemmas FV.Gen.C03 FV.C03.Model FV.C03.Lemmas
  FV.C03.LemmasCompat.
#[local] Transparent pv_int0 pv_int0U pv_intU.

Definition is_err {A} (r : res A) : bool := match r with Err _ => true | Ok _ => false end.
Definition is_ok {A} (r : res A) : bool := negb (is_err r).

(* StructOf(a, b, optional=[b]) against StructOf(a, b, optional=[]): passes, {a: 1} is valid for the first only *)
Theorem C03_refuted_sound_struct_optional_into_mandatory :
  exists a b v, compat a b = Ok tt /\ in_setb (erase a) v = true /\ dt_validate (erase b) v PNone = Err EWrongType.
Proof.
  exists (XStruct [($"a", XInt 0 1); ($"b", XBool)] [$"b"] false), (XStruct [($"a", XInt 0 1); ($"b", XBool)] [] false),
         (PDict [($"a", PInt 1)]).
  repeat split; vm_compute; reflexivity.
Qed.

(* The float witnesses below share one mechanism: compatible() validates only the two end points of the first type,
   but the tolerance max(|x| * relative_resolution, absolute_resolution) of the second type shrinks towards zero.
   The positive theorem (Properties.v, C03_compat_sound, guard finding_free) therefore excludes a float target whose
   tolerance is relied upon on the zero side of an end point; "relative_resolution <= 1" is NOT a sufficient guard. *)

(* FloatRange(-10, 20) against FloatRange(5, 20, relative_resolution=2): only the end points are validated; -10 is
   within the (huge) tolerance of the second type, -1 is not *)
Theorem C03_refuted_sound_float_endpoints_only :
  exists a b v, compat a b = Ok tt /\ in_setb (erase a) v = true /\ dt_validate (erase b) v PNone = Err ERange.
Proof.
  exists (XFloat (fmk (-10) 0) (fmk 20 0) fzero rel0 [] fmt0), (XFloat (fmk 5 0) (fmk 20 0) fzero (fmk 2 0) [] fmt0),
         (PFloat (fmk (-1) 0)).
  repeat split; vm_compute; reflexivity.
Qed.

(* relative_resolution = 1: FloatRange(-1, 5) against FloatRange(2^-60, 5, relative_resolution=1): 2^-60 - 1 rounds to -1,
   so the end point -1 passes; -2^-61 has tolerance 2^-61 only and is rejected (on the real code the same with
   FloatRange(1e-17, 5, relative_resolution=1) and the value -1e-18) *)
Theorem C03_refuted_sound_float_relres_one :
  exists a b v, compat a b = Ok tt /\ in_setb (erase a) v = true /\ dt_validate (erase b) v PNone = Err ERange /\
                (match b with XFloat _ _ _ r _ _ => feq r (fmk 1 0) = true | _ => False end).
Proof.
  exists (XFloat (fmk (-1) 0) (fmk 5 0) fzero rel0 [] fmt0), (XFloat (fmk 1 (-60)) (fmk 5 0) fzero (fmk 1 0) [] fmt0),
         (PFloat (fmk (-1) (-61))).
  repeat split; vm_compute; reflexivity.
Qed.

(* relative_resolution just below 1 (1 - 2^-53), one unit in the last place: FloatRange(-1, 5) against
   FloatRange(-2^-54, 5, relative_resolution=1-2^-53) passes (the sum for -1 is a tie that rounds to -1), the value
   -(1/2 + 2^-53) of the first type is rejected by the second (reproduced on the real code) *)
Theorem C03_refuted_sound_float_relres_below_one :
  exists a b v, compat a b = Ok tt /\ in_setb (erase a) v = true /\ dt_validate (erase b) v PNone = Err ERange /\
                (match b with XFloat _ _ _ r _ _ => flt r (fmk 1 0) = true | _ => False end).
Proof.
  exists (XFloat (fmk (-1) 0) (fmk 5 0) fzero rel0 [] fmt0),
         (XFloat (fmk (-1) (-54)) (fmk 5 0) fzero (fmk 9007199254740991 (-53)) [] fmt0),
         (PFloat (fmk (-4503599627370497) (-53))).
  repeat split; vm_compute; reflexivity.
Qed.
