(* C03 - witnesses of the places where the pinned code (faithfully modelled) violates the property.
   Each corresponds to one open entry of findings/C03.json and to a guard of a positive theorem. *)
From Coq Require Import String Ascii.
From Coq Require Import ZArith NArith Bool List Lia.
Import ListNotations.
Require Import FV.Base.Util FV.Base.F64 FV.Base.PyVal FV.C01.Model FV.C01.Lemmas FV.Gen.C03 FV.C03.Model FV.C03.Lemmas
  FV.C03.LemmasCompat.
#[local] Transparent pv_int0 pv_int0U pv_intU.

Definition is_err {A} (r : res A) : bool := match r with Err _ => true | Ok _ => false end.
Definition is_ok {A} (r : res A) : bool := negb (is_err r).

(* BLOBType(0, 0): maxbytes equals the default of its property datatype, is not exported, the rebuild raises *)
Theorem C03_refuted_rebuild_blob_maxbytes_zero :
  exists x j, wfx x /\ xt_export x = Ok j /\ get_datatype [] j = Err EWrongType /\ xt_copy x = Err EWrongType.
Proof. exists (XBlob 0 0), (PDict [($"type", PStr $"blob")]). repeat split; vm_compute; reflexivity. Qed.

(* StringType(3, UNLIMITED): maxchars is not exported, the rebuilt type has maxchars = minchars = 3 and rejects "abcd" *)
Theorem C03_refuted_rebuild_string_minchars :
  exists x j x' v, wfx x /\ xt_export x = Ok j /\ get_datatype [] j = Ok (Some x') /\
    is_ok (dt_validate (erase x) v PNone) = true /\ dt_validate (erase x') v PNone = Err ERange.
Proof.
  exists (XString 3 UNL false false), (PDict [($"minchars", PInt 3); ($"type", PStr $"string")]),
         (XString 3 3 false false), (PStr $"abcd").
  repeat split; try (vm_compute; reflexivity); intros; discriminate.
Qed.

(* IntRange(1,2) against EnumType(a=1,b=2) and IntRange(0,1) against BoolType: the value sets are nested, the loop
   finds every value, and then the missing return runs into the final raise *)
Theorem C03_refuted_complete_int_into_enum_or_bool :
  (exists a b, compat a b = Err EWrongType /\
     forall z, in_setb (erase a) (PInt z) = true -> is_ok (dt_validate (erase b) (PInt z) PNone) = true) /\
  compat (XInt 0 1) XBool = Err EWrongType.
Proof.
  split; [|vm_compute; reflexivity].
  exists (XInt 1 2), (XEnum [] [($"a", 1%Z); ($"b", 2%Z)]). split; [vm_compute; reflexivity|].
  intros z H. cbn in H. apply andb_true_iff in H as [H1 H2]. apply Z.leb_le in H1, H2.
  assert (z = 1 \/ z = 2)%Z as [-> | ->] by lia; vm_compute; reflexivity.
Qed.

(* BoolType against IntRange(5,10): compatible() calls other(False), other(True) - __call__ has no limit check *)
Theorem C03_refuted_sound_bool_into_number :
  exists b v, compat XBool b = Ok tt /\ in_setb (erase XBool) v = true /\ dt_validate (erase b) v PNone = Err ERange.
Proof. exists (XInt 5 10), (PBool true). repeat split; vm_compute; reflexivity. Qed.

(* StructOf(a, b, optional=[b]) against StructOf(a, b, optional=[]): passes, {a: 1} is valid for the first only *)
Theorem C03_refuted_sound_struct_optional_into_mandatory :
  exists a b v, compat a b = Ok tt /\ in_setb (erase a) v = true /\ dt_validate (erase b) v PNone = Err EWrongType.
Proof.
  exists (XStruct [($"a", XInt 0 1); ($"b", XBool)] [$"b"] false), (XStruct [($"a", XInt 0 1); ($"b", XBool)] [] false),
         (PDict [($"a", PInt 1)]).
  repeat split; vm_compute; reflexivity.
Qed.

(* FloatRange(-10, 20) against FloatRange(5, 20, relative_resolution=2): only the end points are validated; -10 is
   within the (huge) tolerance of the second type, -1 is not *)
Theorem C03_refuted_sound_float_endpoints_only :
  exists a b v, compat a b = Ok tt /\ in_setb (erase a) v = true /\ dt_validate (erase b) v PNone = Err ERange.
Proof.
  exists (XFloat (fmk (-10) 0) (fmk 20 0) fzero rel0 [] fmt0), (XFloat (fmk 5 0) (fmk 20 0) fzero (fmk 2 0) [] fmt0),
         (PFloat (fmk (-1) 0)).
  repeat split; vm_compute; reflexivity.
Qed.
