(* C03 - compatible() with a FloatRange as second type (first type FloatRange or IntRange): the verdict validates only
   the two end points of the first type against the second.  With the tolerance max(|x| * relres, absres) of
   FloatRange.validate this is sound for every value in between when, on each side, the limit is nested outright, or the
   tolerance can only grow towards the inside of the interval (end point on the far side of zero), or the tolerance is
   constant (relres = 0).  Outside this guard the verdict is NOT sound in general (Refuted.v: relres 2, relres 1). *)
From Coq Require Import String Ascii.
From Coq Require Import ZArith NArith Bool List Lia Reals Lra.
Import ListNotations.
From Flocq Require Import IEEE754.BinarySingleNaN.
Require Import FV.Base.Util FV.Base.F64 FV.Base.F64Lemmas FV.Base.PyVal FV.C01.Model FV.C01.Lemmas FV.Gen.C03 FV.C03.Model
  FV.C03.Lemmas FV.C03.F64Mono FV.C03.LemmasCompat.

#[local] Transparent pv_float pv_float0 pv_intU.

(* the two comparisons of FloatRange.validate on the converted value *)
Definition fchk (bmn bmx a r f : f64) : bool :=
  fle (fsub bmn (tol r a f)) f && fle f (fadd bmx (tol r a f)).

Lemma float_validate_chk bmn bmx a r v f : float_call v = Ok (PFloat f) ->
  float_validate bmn bmx a r v = if fchk bmn bmx a r f then Ok (PFloat (fclamp bmn f bmx)) else Err ERange.
Proof. intros H. unfold float_validate. rewrite H. reflexivity. Qed.

Lemma float_validate_ok_chk bmn bmx a r v f x : float_call v = Ok (PFloat f) ->
  float_validate bmn bmx a r v = Ok x -> fchk bmn bmx a r f = true.
Proof. intros H. rewrite (float_validate_chk _ _ _ _ _ _ H). destruct (fchk bmn bmx a r f); [reflexivity|discriminate]. Qed.

Lemma float_validate_chk_ok bmn bmx a r v f : float_call v = Ok (PFloat f) ->
  fchk bmn bmx a r f = true -> exists x, float_validate bmn bmx a r v = Ok x.
Proof. intros H C. rewrite (float_validate_chk _ _ _ _ _ _ H), C. eexists. reflexivity. Qed.

(* what the constructor guarantees of the second type *)
Record ftarget (bmn bmx a r : f64) : Prop := {
  ft_mn : is_finite bmn = true; ft_mx : is_finite bmx = true;
  ft_r : is_finite r = true; ft_r0 : (0 <= B2R r)%R; ft_a : notnan a }.

Section Between.
  Variables bmn bmx a r : f64.
  Hypothesis T : ftarget bmn bmx a r.

  (* a value inside the limits is accepted whatever the tolerance *)
  Lemma fchk_inside x : is_finite x = true -> (B2R bmn <= B2R x <= B2R bmx)%R -> fchk bmn bmx a r x = true.
  Proof.
    intros Fx [H1 H2]. destruct T as [Fmn Fmx Fr Hr Na].
    destruct (tol_key r a x Fx Fr Hr Na) as (Nt & _ & Pt).
    destruct (fsub_le_self bmn _ Fmn Nt Pt) as [N1 L1]. destruct (fadd_ge_self bmx _ Fmx Nt Pt) as [N2 L2].
    rewrite (key_finite _ Fmn) in L1. rewrite (key_finite _ Fmx) in L2.
    unfold fchk. apply andb_true_intro. split; apply fle_of_keys; try assumption; try (apply finite_notnan; assumption);
      rewrite (key_finite _ Fx); lra.
  Qed.

  (* both end points pass, the guards hold: everything in between passes *)
  Lemma fchk_between lo x hi :
    is_finite lo = true -> is_finite x = true -> is_finite hi = true ->
    (B2R lo <= B2R x <= B2R hi)%R ->
    fchk bmn bmx a r lo = true -> fchk bmn bmx a r hi = true ->
    (B2R bmn <= B2R lo \/ 0 <= B2R lo \/ B2R r = 0)%R ->
    (B2R hi <= B2R bmx \/ B2R hi <= 0 \/ B2R r = 0)%R ->
    fchk bmn bmx a r x = true.
  Proof.
    intros Flo Fx Fhi [Hlx Hxh] Clo Chi GL GU. destruct T as [Fmn Fmx Fr Hr Na].
    destruct (tol_key r a x Fx Fr Hr Na) as (Ntx & _ & Ptx).
    destruct (tol_key r a lo Flo Fr Hr Na) as (Ntl & _ & Ptl).
    destruct (tol_key r a hi Fhi Fr Hr Na) as (Nth & _ & Pth).
    unfold fchk in *. apply andb_prop in Clo as [Clo _]. apply andb_prop in Chi as [_ Chi].
    apply keys_of_fle in Clo as (_ & _ & Clo). apply keys_of_fle in Chi as (_ & _ & Chi).
    rewrite (key_finite _ Flo) in Clo. rewrite (key_finite _ Fhi) in Chi.
    pose proof (finite_notnan _ Fx) as Nx.
    apply andb_true_intro. split.
    - (* lower side *)
      destruct GL as [G|G].
      + destruct (fsub_le_self bmn _ Fmn Ntx Ptx) as [N1 L1]. rewrite (key_finite _ Fmn) in L1.
        apply fle_of_keys; [exact N1|exact Nx|]. rewrite (key_finite _ Fx). lra.
      + assert (Hm : (key (tol r a lo) <= key (tol r a x))%R).
        { destruct G as [G|G].
          - apply tol_mono; try assumption. rewrite !Rabs_pos_eq by lra. exact Hlx.
          - right. apply tol_const; assumption. }
        destruct (fsub_antimono bmn _ _ Fmn Ntl Ntx Ptl Hm) as (_ & N1 & L1).
        apply fle_of_keys; [exact N1|exact Nx|]. rewrite (key_finite _ Fx). lra.
    - (* upper side *)
      destruct GU as [G|G].
      + destruct (fadd_ge_self bmx _ Fmx Ntx Ptx) as [N1 L1]. rewrite (key_finite _ Fmx) in L1.
        apply fle_of_keys; [exact Nx|exact N1|]. rewrite (key_finite _ Fx). lra.
      + assert (Hm : (key (tol r a hi) <= key (tol r a x))%R).
        { destruct G as [G|G].
          - apply tol_mono; try assumption. rewrite !Rabs_left1 by lra. lra.
          - right. apply tol_const; assumption. }
        destruct (fadd_mono bmx _ _ Fmx Nth Ntx Pth Hm) as (_ & N1 & L1).
        apply fle_of_keys; [exact Nx|exact N1|]. rewrite (key_finite _ Fx). lra.
  Qed.
End Between.

(* ------------------------------------------------------------------ what wfx says about float limits *)
Lemma float_validate_out_range lo hi a r y x : fle lo hi = true -> is_finite lo = true -> is_finite hi = true ->
  float_validate lo hi a r (PFloat y) = Ok (PFloat x) -> fle lo x = true /\ fle x hi = true /\ is_finite x = true.
Proof.
  intros Hle Flo Fhi H. unfold float_validate in H. pose proof (float_call_float (PFloat y)) as F.
  destruct (float_call (PFloat y)) as [z|e]; [|discriminate]. destruct (F z eq_refl) as [g ->].
  destruct (fle (fsub lo _) g && fle g (fadd hi _)) eqn:E; [|discriminate].
  apply andb_prop in E as [E1 _]. destruct (fle_true_notnan _ _ E1) as [_ Ng].
  injection H as H.
  destruct (fclamp_between lo g hi (finite_notnan _ Flo) Ng (finite_notnan _ Fhi) Hle) as (A & B & _).
  rewrite H in A, B. split; [exact A|]. split; [exact B|].
  apply keys_of_fle in A as (_ & Nx & A). apply keys_of_fle in B as (_ & _ & B).
  pose proof (finite_key_bound lo Flo). pose proof (finite_key_bound hi Fhi).
  apply finite_of_key; [exact Nx|lra].
Qed.

Lemma float_validate_fix_range lo hi a r x : fle lo hi = true -> is_finite lo = true -> is_finite hi = true ->
  float_validate lo hi a r (PFloat x) = Ok (PFloat x) -> fle lo x = true /\ fle x hi = true /\ is_finite x = true.
Proof. apply float_validate_out_range. Qed.

Lemma fmax_facts : fle (fopp fmaxval) fmaxval = true /\ is_finite (fopp fmaxval) = true /\ is_finite fmaxval = true /\
  fle fzero fmaxval = true.
Proof. repeat split; vm_compute; reflexivity. Qed.

Lemma fix_pv_float x : fixf pv_float x -> fle (fopp fmaxval) x = true /\ fle x fmaxval = true /\ is_finite x = true.
Proof.
  destruct fmax_facts as (A & B & C & _). unfold fixf, pv_float. apply float_validate_fix_range; assumption.
Qed.
Lemma fix_pv_float0 x : fixf pv_float0 x -> is_finite x = true /\ (0 <= B2R x)%R.
Proof.
  destruct fmax_facts as (_ & _ & C & D). unfold fixf, pv_float0. intros H.
  destruct (float_validate_fix_range fzero fmaxval _ _ x D eq_refl C H) as (A & _ & F). split; [exact F|].
  apply keys_of_fle in A as (_ & _ & A). rewrite (key_finite _ F) in A. exact A.
Qed.

Lemma wfx_ftarget bmn bmx a r u f : wfx (XFloat bmn bmx a r u f) -> ftarget bmn bmx a r.
Proof.
  intros (Hmn & Hmx & Ha & Hr & _). destruct (fix_pv_float _ Hmn) as (_ & _ & F1). destruct (fix_pv_float _ Hmx) as (_ & _ & F2).
  destruct (fix_pv_float0 _ Hr) as [F3 P3]. destruct (fix_pv_float0 _ Ha) as [F4 _].
  constructor; try assumption. apply finite_notnan, F4.
Qed.

(* float(x) + 0.0 clamped to +-max of a number within +-max is that number *)
Lemma float_call_finite f : fle (fopp fmaxval) f = true -> fle f fmaxval = true ->
  exists g, float_call (PFloat f) = Ok (PFloat g) /\ is_finite g = true /\ B2R g = B2R f.
Proof.
  intros A B. destruct fmax_facts as (Hle & Fl & Fh & _).
  apply keys_of_fle in A as (Nl & Nf & A). apply keys_of_fle in B as (_ & Nh & B).
  assert (Ff : is_finite f = true).
  { pose proof (finite_key_bound _ Fl). pose proof (finite_key_bound _ Fh). apply finite_of_key; [exact Nf|lra]. }
  destruct (fadd_zero f Ff) as [Fg Eg]. exists (fadd f fzero). split; [|split; assumption].
  unfold float_call. cbn [py_add0 wrap_wrong]. do 2 f_equal.
  pose proof (finite_notnan _ Fg) as Ng.
  destruct (fclamp_between (fopp fmaxval) (fadd f fzero) fmaxval Nl Ng Nh Hle) as (_ & _ & C). apply C.
  - apply fle_of_keys; try assumption. rewrite (key_finite _ Fg), Eg, <- (key_finite _ Ff). exact A.
  - apply fle_of_keys; try assumption. rewrite (key_finite _ Fg), Eg, <- (key_finite _ Ff). exact B.
Qed.

(* ------------------------------------------------------------------ FloatRange -> FloatRange *)
Definition lo_guard (bmn r lo : f64) : bool := fle bmn lo || fle fzero lo || feq r fzero.
Definition hi_guard (bmx r hi : f64) : bool := fle hi bmx || fle hi fzero || feq r fzero.

Lemma lo_guard_R bmn r lo (g : f64) : is_finite bmn = true -> is_finite r = true -> is_finite lo = true -> B2R g = B2R lo ->
  lo_guard bmn r lo = true -> (B2R bmn <= B2R g \/ 0 <= B2R g \/ B2R r = 0)%R.
Proof.
  intros Fb Fr Fl E H. unfold lo_guard in H. rewrite E.
  apply orb_prop in H as [H|H]; [apply orb_prop in H as [H|H]|].
  - left. apply keys_of_fle in H as (_ & _ & H). rewrite (key_finite _ Fb), (key_finite _ Fl) in H. exact H.
  - right. left. apply keys_of_fle in H as (_ & _ & H). rewrite (key_finite _ Fl) in H. exact H.
  - right. right. apply feq_key in H; [|apply finite_notnan, Fr|reflexivity]. rewrite (key_finite _ Fr) in H. exact H.
Qed.
Lemma hi_guard_R bmx r hi (g : f64) : is_finite bmx = true -> is_finite r = true -> is_finite hi = true -> B2R g = B2R hi ->
  hi_guard bmx r hi = true -> (B2R g <= B2R bmx \/ B2R g <= 0 \/ B2R r = 0)%R.
Proof.
  intros Fb Fr Fl E H. unfold hi_guard in H. rewrite E.
  apply orb_prop in H as [H|H]; [apply orb_prop in H as [H|H]|].
  - left. apply keys_of_fle in H as (_ & _ & H). rewrite (key_finite _ Fb), (key_finite _ Fl) in H. exact H.
  - right. left. apply keys_of_fle in H as (_ & _ & H). rewrite (key_finite _ Fl) in H. exact H.
  - right. right. apply feq_key in H; [|apply finite_notnan, Fr|reflexivity]. rewrite (key_finite _ Fr) in H. exact H.
Qed.

Lemma vboth_ok b v1 v2 : vboth b v1 v2 = Ok tt -> accepts b v1 /\ accepts b v2.
Proof.
  unfold vboth. intros H. apply bind_ok in H as (r1 & H1 & H). apply bind_ok in H as (r2 & H2 & _).
  split; eexists; eassumption.
Qed.
Lemma vboth_intro b v1 v2 : accepts b v1 -> accepts b v2 -> vboth b v1 v2 = Ok tt.
Proof. intros [r1 H1] [r2 H2]. unfold vboth. rewrite H1, H2. reflexivity. Qed.

Lemma finite_in_fmax f : fle (fopp fmaxval) f = true -> fle f fmaxval = true -> is_finite f = true.
Proof.
  intros A B. destruct fmax_facts as (_ & Fl & Fh & _).
  apply keys_of_fle in A as (_ & Nf & A). apply keys_of_fle in B as (_ & _ & B).
  pose proof (finite_key_bound _ Fl). pose proof (finite_key_bound _ Fh). apply finite_of_key; [exact Nf|lra].
Qed.

(* the first type offers the floats between amn and amx (a FloatRange, or a ScaledInteger on its grid) *)
Lemma float_src_into_float amn amx bmn bmx ba br :
  fle (fopp fmaxval) amn = true -> fle amn fmaxval = true -> fle (fopp fmaxval) amx = true -> fle amx fmaxval = true ->
  ftarget bmn bmx ba br -> lo_guard bmn br amn = true -> hi_guard bmx br amx = true ->
  (exists r, float_validate bmn bmx ba br (PFloat amn) = Ok r) -> (exists r, float_validate bmn bmx ba br (PFloat amx) = Ok r) ->
  forall f, fle amn f = true -> fle f amx = true -> exists r, float_validate bmn bmx ba br (PFloat f) = Ok r.
Proof.
  intros L1 L2 U1 U2 T GL GU [r1 A1] [r2 A2] f V1 V2.
  pose proof (finite_in_fmax _ L1 L2) as F1. pose proof (finite_in_fmax _ U1 U2) as F2.
  destruct (float_call_finite amn L1 L2) as (glo & Clo & Flo & Elo).
  destruct (float_call_finite amx U1 U2) as (ghi & Chi & Fhi & Ehi).
  destruct (float_call_finite f (fle_trans _ _ _ L1 V1) (fle_trans _ _ _ V2 U2)) as (g & Cg & Fg & Eg).
  apply (float_validate_ok_chk _ _ _ _ _ _ _ Clo) in A1. apply (float_validate_ok_chk _ _ _ _ _ _ _ Chi) in A2.
  apply (float_validate_chk_ok _ _ _ _ _ _ Cg).
  pose proof (finite_in_fmax _ (fle_trans _ _ _ L1 V1) (fle_trans _ _ _ V2 U2)) as Ff.
  apply keys_of_fle in V1 as (_ & _ & V1). apply keys_of_fle in V2 as (_ & _ & V2).
  rewrite (key_finite _ F1), (key_finite _ Ff) in V1. rewrite (key_finite _ F2), (key_finite _ Ff) in V2.
  apply (fchk_between _ _ _ _ T glo g ghi Flo Fg Fhi); try assumption.
  - rewrite Elo, Eg, Ehi. lra.
  - apply (lo_guard_R bmn br amn); try assumption; [apply T|apply T].
  - apply (hi_guard_R bmx br amx); try assumption; [apply T|apply T].
Qed.

Theorem compat_float_float_sound amn amx aa ar au af bmn bmx ba br bu bf :
  wfx (XFloat amn amx aa ar au af) -> wfx (XFloat bmn bmx ba br bu bf) ->
  lo_guard bmn br amn = true -> hi_guard bmx br amx = true ->
  compat (XFloat amn amx aa ar au af) (XFloat bmn bmx ba br bu bf) = Ok tt ->
  forall v, in_setb (erase (XFloat amn amx aa ar au af)) v = true -> accepts (XFloat bmn bmx ba br bu bf) v.
Proof.
  intros Wa Wb GL GU HC v HV. pose proof (wfx_ftarget _ _ _ _ _ _ Wb) as T.
  destruct Wa as (Hmn & Hmx & _). destruct (fix_pv_float _ Hmn) as (L1 & L2 & _). destruct (fix_pv_float _ Hmx) as (U1 & U2 & _).
  cbn [erase in_setb] in HV. destruct v as [| | |f| | | | | | |]; try discriminate.
  apply andb_prop in HV as [V1 V2]. cbn [compat] in HC. apply vboth_ok in HC as [A1 A2].
  unfold accepts in *. cbn [erase dt_validate] in *.
  exact (float_src_into_float _ _ _ _ _ _ L1 L2 U1 U2 T GL GU A1 A2 f V1 V2).
Qed.

(* ------------------------------------------------------------------ ScaledInteger -> FloatRange: the value set of a
   scaled type is bounded by its grid-rounded limits; [grid_inside] says they lie within the declared limits (what
   "limits on the grid" means for the comparison; it is a decidable condition of the first type alone) *)
Definition grid_inside (s mn mx : f64) : bool :=
  match scaled_call s (PFloat mn), scaled_call s (PFloat mx) with
  | Ok (PFloat lo), Ok (PFloat hi) => fle mn lo && fle hi mx
  | _, _ => false
  end.

Lemma scaled_set_inside s mn mx v : grid_inside s mn mx = true -> in_setb (TScaled s mn mx) v = true ->
  exists f, v = PFloat f /\ fle mn f = true /\ fle f mx = true.
Proof.
  unfold grid_inside. destruct v as [| | |f| | | | | | |]; cbn [in_setb]; try discriminate.
  destruct (scaled_call s (PFloat mn)) as [[| | |lo| | | | | | |]|]; try discriminate.
  destruct (scaled_call s (PFloat mx)) as [[| | |hi| | | | | | |]|]; try discriminate.
  intros G V. apply andb_prop in G as [G1 G2]. apply andb_prop in V as [V1 V2].
  exists f. split; [reflexivity|]. split; eapply fle_trans; eassumption.
Qed.

Lemma wfx_scaled_limits s mn mx a r u f : wfx (XScaled s mn mx a r u f) ->
  (fle (fopp fmaxval) mn = true /\ fle mn fmaxval = true) /\ (fle (fopp fmaxval) mx = true /\ fle mx fmaxval = true).
Proof.
  intros (_ & _ & (k1 & kf1 & _ & _ & E1) & (k2 & kf2 & _ & _ & E2) & _).
  destruct fmax_facts as (A & B & C & _). unfold pv_float in E1, E2.
  destruct (float_validate_out_range _ _ _ _ _ _ A B C E1) as (L1 & L2 & _).
  destruct (float_validate_out_range _ _ _ _ _ _ A B C E2) as (U1 & U2 & _). auto.
Qed.

Theorem compat_scaled_float_sound s amn amx aa ar au af bmn bmx ba br bu bf :
  wfx (XScaled s amn amx aa ar au af) -> wfx (XFloat bmn bmx ba br bu bf) -> grid_inside s amn amx = true ->
  lo_guard bmn br amn = true -> hi_guard bmx br amx = true ->
  compat (XScaled s amn amx aa ar au af) (XFloat bmn bmx ba br bu bf) = Ok tt ->
  forall v, in_setb (erase (XScaled s amn amx aa ar au af)) v = true -> accepts (XFloat bmn bmx ba br bu bf) v.
Proof.
  intros Wa Wb GI GL GU HC v HV. pose proof (wfx_ftarget _ _ _ _ _ _ Wb) as T.
  destruct (wfx_scaled_limits _ _ _ _ _ _ _ Wa) as [[L1 L2] [U1 U2]].
  cbn [erase] in HV. destruct (scaled_set_inside _ _ _ _ GI HV) as (f & -> & V1 & V2).
  cbn [compat] in HC. apply vboth_ok in HC as [A1 A2]. unfold accepts in *. cbn [erase dt_validate] in *.
  exact (float_src_into_float _ _ _ _ _ _ L1 L2 U1 U2 T GL GU A1 A2 f V1 V2).
Qed.

(* nested limits pass (the verdict is more generous than that: it also passes when an end point lies within the
   tolerance of the second type) *)
Theorem compat_float_float_complete amn amx aa ar au af bmn bmx ba br bu bf :
  wfx (XFloat amn amx aa ar au af) -> wfx (XFloat bmn bmx ba br bu bf) ->
  fle bmn amn = true -> fle amx bmx = true ->
  compat (XFloat amn amx aa ar au af) (XFloat bmn bmx ba br bu bf) = Ok tt.
Proof.
  intros Wa Wb N1 N2. pose proof (wfx_ftarget _ _ _ _ _ _ Wb) as T.
  destruct Wa as (Hmn & Hmx & _ & _ & _ & _ & _ & Hord).
  destruct (fix_pv_float _ Hmn) as (L1 & L2 & F1). destruct (fix_pv_float _ Hmx) as (U1 & U2 & F2).
  apply flt_false in Hord; [|apply finite_notnan, F2|apply finite_notnan, F1].
  destruct (float_call_finite amn L1 L2) as (glo & Clo & Flo & Elo).
  destruct (float_call_finite amx U1 U2) as (ghi & Chi & Fhi & Ehi).
  apply keys_of_fle in N1 as (_ & _ & N1). apply keys_of_fle in N2 as (_ & _ & N2).
  rewrite (key_finite _ F1) in *. rewrite (key_finite _ F2) in *.
  rewrite (key_finite _ (ft_mn _ _ _ _ T)) in N1. rewrite (key_finite _ (ft_mx _ _ _ _ T)) in N2.
  cbn [compat]. apply vboth_intro; unfold accepts; cbn [erase dt_validate].
  - apply (float_validate_chk_ok _ _ _ _ _ _ Clo). apply (fchk_inside _ _ _ _ T); [exact Flo|]. rewrite Elo. lra.
  - apply (float_validate_chk_ok _ _ _ _ _ _ Chi). apply (fchk_inside _ _ _ _ T); [exact Fhi|]. rewrite Ehi. lra.
Qed.

(* ------------------------------------------------------------------ IntRange -> FloatRange *)
Lemma unl_facts : fle (fopp fmaxval) (of_Z (- UNL)) = true /\ fle (of_Z UNL) fmaxval = true.
Proof. split; vm_compute; reflexivity. Qed.

Lemma float_call_int z : (- UNL <= z <= UNL)%Z ->
  float_call (PInt z) = Ok (PFloat (of_Z z)) /\ is_finite (of_Z z) = true.
Proof.
  intros [H1 H2]. destruct fmax_facts as (Hle & Fl & Fh & _). destruct unl_facts as [A B].
  apply keys_of_fle in A as (Nl & _ & A). apply keys_of_fle in B as (_ & Nh & B).
  pose proof (of_Z_mono _ _ H1) as M1. pose proof (of_Z_mono _ _ H2) as M2. destruct (of_Z_key z) as [Nz _].
  assert (Fz : is_finite (of_Z z) = true).
  { pose proof (finite_key_bound _ Fl). pose proof (finite_key_bound _ Fh). apply finite_of_key; [exact Nz|lra]. }
  split; [|exact Fz]. unfold float_call. cbn [py_add0]. unfold float_of_Z.
  replace (fis_finite (of_Z z)) with true by (rewrite fis_finite_is_finite; symmetry; exact Fz).
  cbn [wrap_wrong]. do 2 f_equal.
  destruct (fclamp_between (fopp fmaxval) (of_Z z) fmaxval Nl Nz Nh Hle) as (_ & _ & C).
  apply C; apply fle_of_keys; try assumption; lra.
Qed.

Lemma wfx_int_range mn mx : wfx (XInt mn mx) -> (- UNL <= mn <= UNL)%Z /\ (- UNL <= mx <= UNL)%Z /\ (mn <= mx)%Z.
Proof.
  intros (H1 & H2 & H3). unfold fixz, pv_intU in H1, H2.
  apply int_validate_int in H1 as [_ H1]. apply int_validate_int in H2 as [_ H2]. apply Z.ltb_ge in H3. auto.
Qed.

Theorem compat_int_float_sound amn amx bmn bmx ba br bu bf :
  wfx (XInt amn amx) -> wfx (XFloat bmn bmx ba br bu bf) ->
  lo_guard bmn br (of_Z amn) = true -> hi_guard bmx br (of_Z amx) = true ->
  compat (XInt amn amx) (XFloat bmn bmx ba br bu bf) = Ok tt ->
  forall v, in_setb (erase (XInt amn amx)) v = true -> accepts (XFloat bmn bmx ba br bu bf) v.
Proof.
  intros Wa Wb GL GU HC v HV. pose proof (wfx_ftarget _ _ _ _ _ _ Wb) as T.
  destruct (wfx_int_range _ _ Wa) as (R1 & R2 & _).
  cbn [erase in_setb] in HV. destruct v as [| |z| | | | | | | |]; try discriminate.
  apply andb_prop in HV as [V1 V2]. apply Z.leb_le in V1, V2.
  destruct (float_call_int amn R1) as [Clo Flo]. destruct (float_call_int amx R2) as [Chi Fhi].
  destruct (float_call_int z ltac:(lia)) as [Cz Fz].
  cbn [compat] in HC. apply vboth_ok in HC as [[r1 A1] [r2 A2]]. cbn [erase dt_validate] in A1, A2.
  apply (float_validate_ok_chk _ _ _ _ _ _ _ Clo) in A1. apply (float_validate_ok_chk _ _ _ _ _ _ _ Chi) in A2.
  unfold accepts. cbn [erase dt_validate]. apply (float_validate_chk_ok _ _ _ _ _ _ Cz).
  pose proof (of_Z_mono _ _ V1) as M1. pose proof (of_Z_mono _ _ V2) as M2.
  rewrite (key_finite _ Flo), (key_finite _ Fz) in M1. rewrite (key_finite _ Fhi), (key_finite _ Fz) in M2.
  apply (fchk_between _ _ _ _ T (of_Z amn) (of_Z z) (of_Z amx) Flo Fz Fhi); try assumption.
  - lra.
  - apply (lo_guard_R bmn br (of_Z amn)); try assumption; [apply T|apply T|reflexivity].
  - apply (hi_guard_R bmx br (of_Z amx)); try assumption; [apply T|apply T|reflexivity].
Qed.

Theorem compat_int_float_complete amn amx bmn bmx ba br bu bf :
  wfx (XInt amn amx) -> wfx (XFloat bmn bmx ba br bu bf) ->
  fle bmn (of_Z amn) = true -> fle (of_Z amx) bmx = true ->
  compat (XInt amn amx) (XFloat bmn bmx ba br bu bf) = Ok tt.
Proof.
  intros Wa Wb N1 N2. pose proof (wfx_ftarget _ _ _ _ _ _ Wb) as T.
  destruct (wfx_int_range _ _ Wa) as (R1 & R2 & Hord).
  destruct (float_call_int amn R1) as [Clo Flo]. destruct (float_call_int amx R2) as [Chi Fhi].
  pose proof (of_Z_mono _ _ Hord) as M.
  apply keys_of_fle in N1 as (_ & _ & N1). apply keys_of_fle in N2 as (_ & _ & N2).
  rewrite (key_finite _ Flo) in *. rewrite (key_finite _ Fhi) in *.
  rewrite (key_finite _ (ft_mn _ _ _ _ T)) in N1. rewrite (key_finite _ (ft_mx _ _ _ _ T)) in N2.
  cbn [compat]. apply vboth_intro; unfold accepts; cbn [erase dt_validate].
  - apply (float_validate_chk_ok _ _ _ _ _ _ Clo). apply (fchk_inside _ _ _ _ T); [exact Flo|]. lra.
  - apply (float_validate_chk_ok _ _ _ _ _ _ Chi). apply (fchk_inside _ _ _ _ T); [exact Fhi|]. lra.
Qed.

(* exact nesting of an int limit (as a real number) implies nesting after the conversion to float: rounding is
   monotone and leaves the float limit unchanged *)
Lemma exact_nested_lo (bmn : f64) z : is_finite bmn = true -> (B2R bmn <= IZR z)%R -> (- UNL <= z <= UNL)%Z ->
  fle bmn (of_Z z) = true.
Proof.
  intros Fb H R. destruct (float_call_int z R) as [_ Fz]. destruct (of_Z_key z) as [Nz K].
  apply fle_of_keys; [apply finite_notnan, Fb|exact Nz|]. rewrite K, (key_finite _ Fb).
  pose proof (finite_key_bound _ Fb) as Hb. rewrite (key_finite _ Fb) in Hb.
  rewrite <- (sat_id (B2R bmn)) by exact Hb. rewrite <- (rnd_B2R bmn) at 1. apply sat_le, rnd_le, H.
Qed.
Lemma exact_nested_hi (bmx : f64) z : is_finite bmx = true -> (IZR z <= B2R bmx)%R -> (- UNL <= z <= UNL)%Z ->
  fle (of_Z z) bmx = true.
Proof.
  intros Fb H R. destruct (of_Z_key z) as [Nz K].
  apply fle_of_keys; [exact Nz|apply finite_notnan, Fb|]. rewrite K, (key_finite _ Fb).
  pose proof (finite_key_bound _ Fb) as Hb. rewrite (key_finite _ Fb) in Hb.
  rewrite <- (sat_id (B2R bmx)) by exact Hb. rewrite <- (rnd_B2R bmx) at 1. apply sat_le, rnd_le, H.
Qed.

(* ------------------------------------------------------------------ an int within +-UNLIMITED is accepted by int() *)
Lemma int_call_int_ok z : (- UNL <= z <= UNL)%Z -> int_call (PInt z) = Ok (PInt z).
Proof.
  intros R. destruct (float_call_int z R) as [_ Fz]. unfold int_call. cbn [py_add0 py_int_num]. unfold float_of_Z.
  replace (fis_finite (of_Z z)) with true by (rewrite fis_finite_is_finite; symmetry; exact Fz). cbn [bind wrap_wrong].
  destruct (of_Z_integral z Fz) as (n & Hn). rewrite (fround_integral _ _ Hn), (cmp_Z_f_integral _ _ Fz Hn). reflexivity.
Qed.

Lemma int_validate_in_range mn mx z : (- UNL <= z <= UNL)%Z -> (mn <= z <= mx)%Z ->
  int_validate mn mx (PInt z) = Ok (PInt z).
Proof.
  intros R [H1 H2]. unfold int_validate. rewrite (int_call_int_ok z R).
  apply Z.leb_le in H1, H2. rewrite H1, H2. reflexivity.
Qed.
