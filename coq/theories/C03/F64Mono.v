(* C03 (private helper) - monotonicity of the binary64 operations used by FloatRange.validate, through the order
   embedding [key] of Base/F64Lemmas.v: for finite operands the result of + - * is the correctly rounded real result,
   saturated to +-2^1024 (= +-inf) on overflow; rounding and saturation are monotone.  Nothing here is specific to
   frappy. *)
From Coq Require Import ZArith Bool Reals Lra Lia.
From Flocq Require Import Core.Zaux Core.Raux Core.Defs Core.Float_prop Core.Generic_fmt Core.Round_NE Core.FLT Core.FIX
  IEEE754.BinarySingleNaN.
Require Import FV.Base.F64 FV.Base.F64Lemmas.

Local Open Scope R_scope.

#[local] Instance vexp64 : Valid_exp (SpecFloat.fexp prec emax) := fexp_correct prec emax prec_gt_0_64.

Definition rnd (x : R) : R := round radix2 (SpecFloat.fexp prec emax) ZnearestE x.
Definition sat (y : R) : R := Rmax (- BIG) (Rmin BIG y).

Lemma rnd_le x y : x <= y -> rnd x <= rnd y.
Proof. intros H. unfold rnd. apply round_le; auto with typeclass_instances. Qed.
Lemma rnd_B2R (x : f64) : rnd (B2R x) = B2R x.
Proof. unfold rnd. apply round_generic; [auto with typeclass_instances|apply generic_format_B2R]. Qed.
Lemma rnd_0 : rnd 0 = 0.
Proof. unfold rnd. apply round_0. auto with typeclass_instances. Qed.
Lemma rnd_abs x : rnd (Rabs x) = Rabs (rnd x).
Proof. unfold rnd. apply round_NE_abs. auto with typeclass_instances. Qed.
Lemma rnd_nonneg x : 0 <= x -> 0 <= rnd x.
Proof. intros H. rewrite <- rnd_0. apply rnd_le, H. Qed.
Lemma rnd_nonpos x : x <= 0 -> rnd x <= 0.
Proof. intros H. rewrite <- rnd_0. apply rnd_le, H. Qed.

Lemma sat_le x y : x <= y -> sat x <= sat y.
Proof. intros H. unfold sat. apply Rle_max_compat_l. apply Rle_min_compat_l. exact H. Qed.
Lemma sat_id y : - BIG < y < BIG -> sat y = y.
Proof. intros [H1 H2]. unfold sat. rewrite Rmin_right by lra. rewrite Rmax_right by lra. reflexivity. Qed.
Lemma sat_hi y : BIG <= y -> sat y = BIG.
Proof. intros H. pose proof BIG_pos. unfold sat. rewrite Rmin_left by lra. rewrite Rmax_right by lra. reflexivity. Qed.
Lemma sat_lo y : y <= - BIG -> sat y = - BIG.
Proof. intros H. pose proof BIG_pos. unfold sat. rewrite Rmin_right by lra. rewrite Rmax_left by lra. reflexivity. Qed.
Lemma sat_nonneg y : 0 <= y -> 0 <= sat y.
Proof.
  intros H. pose proof BIG_pos. unfold sat. apply Rle_trans with (Rmin BIG y); [|apply Rmax_r].
  apply Rmin_glb; lra.
Qed.
Lemma sat_bounds y : - BIG <= sat y <= BIG.
Proof.
  pose proof BIG_pos. unfold sat. split; [apply Rmax_l|]. apply Rmax_lub; [lra|apply Rmin_l].
Qed.

Lemma finite_notnan (x : f64) : is_finite x = true -> notnan x.
Proof. destruct x; try discriminate; reflexivity. Qed.
Lemma key_finite (x : f64) : is_finite x = true -> key x = B2R x.
Proof. destruct x as [s|s| |s m e B]; try discriminate; reflexivity. Qed.
Lemma key_bounds (x : f64) : notnan x -> - BIG <= key x <= BIG.
Proof.
  intros Hn. pose proof BIG_pos. destruct (is_finite x) eqn:F.
  - pose proof (finite_key_bound x F). lra.
  - destruct x as [s|[|]| |s m e B]; try discriminate; cbn [key]; lra.
Qed.
Lemma finite_of_key (x : f64) : notnan x -> - BIG < key x < BIG -> is_finite x = true.
Proof. intros Hn H. destruct x as [s|[|]| |s m e B]; try discriminate; try reflexivity; cbn [key] in H; lra. Qed.
Lemma pos_inf_of_key (x : f64) : notnan x -> BIG <= key x -> x = B754_infinity false.
Proof.
  intros Hn H. pose proof BIG_pos. destruct (is_finite x) eqn:F.
  - pose proof (finite_key_bound x F). lra.
  - destruct x as [s|[|]| |s m e B]; try discriminate; try reflexivity. cbn [key] in H. lra.
Qed.

Lemma inf_of_SF (z : f64) s : B2SF z = SpecFloat.S754_infinity s -> z = B754_infinity s.
Proof. destruct z; cbn; intros H; try discriminate. injection H as ->. reflexivity. Qed.

Lemma sign_nonpos (x : f64) : is_finite x = true -> Bsign x = true -> B2R x <= 0.
Proof.
  destruct x as [s|s| |s m e B]; cbn; intros F S; try discriminate; try lra. subst s.
  apply F2R_le_0. cbn. lia.
Qed.
Lemma sign_nonneg (x : f64) : is_finite x = true -> Bsign x = false -> 0 <= B2R x.
Proof.
  destruct x as [s|s| |s m e B]; cbn; intros F S; try discriminate; try lra. subst s.
  apply F2R_ge_0. cbn. lia.
Qed.

Lemma abs_ge_big_nonneg y : 0 <= y -> BIG <= Rabs y -> BIG <= y.
Proof. intros H1 H2. rewrite Rabs_pos_eq in H2; assumption. Qed.
Lemma abs_ge_big_nonpos y : y <= 0 -> BIG <= Rabs y -> y <= - BIG.
Proof. intros H1 H2. rewrite Rabs_left1 in H2 by assumption. lra. Qed.

(* ------------------------------------------------------------------ + and - *)
Lemma fadd_key (x y : f64) : is_finite x = true -> is_finite y = true ->
  notnan (fadd x y) /\ key (fadd x y) = sat (rnd (B2R x + B2R y)).
Proof.
  intros Fx Fy. pose proof (Bplus_correct prec emax _ _ mode_NE x y Fx Fy) as H.
  change (round radix2 (SpecFloat.fexp prec emax) (round_mode mode_NE) (B2R x + B2R y)) with (rnd (B2R x + B2R y)) in H.
  change (bpow radix2 emax) with BIG in H. unfold fadd.
  destruct (Rlt_bool_spec (Rabs (rnd (B2R x + B2R y))) BIG) as [Hlt|Hge].
  - destruct H as (HR & HF & _). split; [apply finite_notnan, HF|].
    rewrite (key_finite _ HF), HR. symmetry. apply sat_id. apply Rabs_def2 in Hlt. lra.
  - destruct H as (HS & Hsign). unfold binary_overflow, overflow_to_inf in HS. apply inf_of_SF in HS. rewrite HS.
    split; [reflexivity|]. cbn [key]. destruct (Bsign x) eqn:Sx.
    + symmetry. apply sat_lo. apply abs_ge_big_nonpos; [|exact Hge]. apply rnd_nonpos.
      pose proof (sign_nonpos x Fx Sx). pose proof (sign_nonpos y Fy (eq_sym Hsign)). lra.
    + symmetry. apply sat_hi. apply abs_ge_big_nonneg; [|exact Hge]. apply rnd_nonneg.
      pose proof (sign_nonneg x Fx Sx). pose proof (sign_nonneg y Fy (eq_sym Hsign)). lra.
Qed.

Lemma fsub_key (x y : f64) : is_finite x = true -> is_finite y = true ->
  notnan (fsub x y) /\ key (fsub x y) = sat (rnd (B2R x - B2R y)).
Proof.
  intros Fx Fy. pose proof (Bminus_correct prec emax _ _ mode_NE x y Fx Fy) as H.
  change (round radix2 (SpecFloat.fexp prec emax) (round_mode mode_NE) (B2R x - B2R y)) with (rnd (B2R x - B2R y)) in H.
  change (bpow radix2 emax) with BIG in H. unfold fsub.
  destruct (Rlt_bool_spec (Rabs (rnd (B2R x - B2R y))) BIG) as [Hlt|Hge].
  - destruct H as (HR & HF & _). split; [apply finite_notnan, HF|].
    rewrite (key_finite _ HF), HR. symmetry. apply sat_id. apply Rabs_def2 in Hlt. lra.
  - destruct H as (HS & Hsign). unfold binary_overflow, overflow_to_inf in HS. apply inf_of_SF in HS. rewrite HS.
    split; [reflexivity|]. cbn [key]. destruct (Bsign x) eqn:Sx.
    + symmetry. apply sat_lo. apply abs_ge_big_nonpos; [|exact Hge]. apply rnd_nonpos.
      pose proof (sign_nonpos x Fx Sx). assert (Sy : Bsign y = false) by (destruct (Bsign y); [discriminate|reflexivity]).
      pose proof (sign_nonneg y Fy Sy). lra.
    + symmetry. apply sat_hi. apply abs_ge_big_nonneg; [|exact Hge]. apply rnd_nonneg.
      pose proof (sign_nonneg x Fx Sx). assert (Sy : Bsign y = true) by (destruct (Bsign y); [reflexivity|discriminate]).
      pose proof (sign_nonpos y Fy Sy). lra.
Qed.

Lemma fsub_pinf (b : f64) : is_finite b = true -> fsub b (B754_infinity false) = B754_infinity true.
Proof. destruct b; try discriminate; reflexivity. Qed.
Lemma fadd_pinf (b : f64) : is_finite b = true -> fadd b (B754_infinity false) = B754_infinity false.
Proof. destruct b; try discriminate; reflexivity. Qed.

(* x + 0.0 of a finite number is that number (as a number: -0.0 becomes 0.0) *)
Lemma fadd_zero (x : f64) : is_finite x = true -> is_finite (fadd x fzero) = true /\ B2R (fadd x fzero) = B2R x.
Proof.
  intros Fx. pose proof (Bplus_correct prec emax _ _ mode_NE x fzero Fx eq_refl) as H.
  change (round radix2 (SpecFloat.fexp prec emax) (round_mode mode_NE) (B2R x + B2R fzero)) with (rnd (B2R x + B2R fzero)) in H.
  change (B2R fzero) with 0 in H. rewrite Rplus_0_r, rnd_B2R in H.
  rewrite Rlt_bool_true in H by apply abs_B2R_lt_emax. destruct H as (HR & HF & _). split; assumption.
Qed.

(* the subtrahend / addend is a tolerance: not nan, not negative, possibly +inf *)
Lemma fsub_antimono (b p p' : f64) : is_finite b = true -> notnan p -> notnan p' -> 0 <= key p -> key p <= key p' ->
  notnan (fsub b p) /\ notnan (fsub b p') /\ key (fsub b p') <= key (fsub b p).
Proof.
  intros Fb Np Np' H0 Hle. pose proof BIG_pos as HB.
  destruct (Rlt_dec (key p') BIG) as [Hf'|Hi'].
  - assert (Fp' : is_finite p' = true) by (apply finite_of_key; [assumption|lra]).
    assert (Fp : is_finite p = true) by (apply finite_of_key; [assumption|lra]).
    destruct (fsub_key b p Fb Fp) as [N1 K1]. destruct (fsub_key b p' Fb Fp') as [N2 K2].
    split; [exact N1|]. split; [exact N2|]. rewrite K1, K2. apply sat_le, rnd_le.
    rewrite (key_finite _ Fp), (key_finite _ Fp') in Hle. lra.
  - assert (E' : p' = B754_infinity false) by (apply pos_inf_of_key; [assumption|lra]).
    subst p'. rewrite (fsub_pinf b Fb).
    destruct (Rlt_dec (key p) BIG) as [Hf|Hi].
    + assert (Fp : is_finite p = true) by (apply finite_of_key; [assumption|lra]).
      destruct (fsub_key b p Fb Fp) as [N1 K1]. split; [exact N1|]. split; [reflexivity|].
      cbn [key]. apply (key_bounds _ N1).
    + assert (E : p = B754_infinity false) by (apply pos_inf_of_key; [assumption|lra]).
      subst p. rewrite (fsub_pinf b Fb). split; [reflexivity|]. split; [reflexivity|]. lra.
Qed.

Lemma fadd_mono (b p p' : f64) : is_finite b = true -> notnan p -> notnan p' -> 0 <= key p -> key p <= key p' ->
  notnan (fadd b p) /\ notnan (fadd b p') /\ key (fadd b p) <= key (fadd b p').
Proof.
  intros Fb Np Np' H0 Hle. pose proof BIG_pos as HB.
  destruct (Rlt_dec (key p') BIG) as [Hf'|Hi'].
  - assert (Fp' : is_finite p' = true) by (apply finite_of_key; [assumption|lra]).
    assert (Fp : is_finite p = true) by (apply finite_of_key; [assumption|lra]).
    destruct (fadd_key b p Fb Fp) as [N1 K1]. destruct (fadd_key b p' Fb Fp') as [N2 K2].
    split; [exact N1|]. split; [exact N2|]. rewrite K1, K2. apply sat_le, rnd_le.
    rewrite (key_finite _ Fp), (key_finite _ Fp') in Hle. lra.
  - assert (E' : p' = B754_infinity false) by (apply pos_inf_of_key; [assumption|lra]).
    subst p'. rewrite (fadd_pinf b Fb).
    destruct (Rlt_dec (key p) BIG) as [Hf|Hi].
    + assert (Fp : is_finite p = true) by (apply finite_of_key; [assumption|lra]).
      destruct (fadd_key b p Fb Fp) as [N1 K1]. split; [exact N1|]. split; [reflexivity|].
      cbn [key]. apply (key_bounds _ N1).
    + assert (E : p = B754_infinity false) by (apply pos_inf_of_key; [assumption|lra]).
      subst p. rewrite (fadd_pinf b Fb). split; [reflexivity|]. split; [reflexivity|]. lra.
Qed.

Lemma fsub_le_self (b p : f64) : is_finite b = true -> notnan p -> 0 <= key p ->
  notnan (fsub b p) /\ key (fsub b p) <= key b.
Proof.
  intros Fb Np H0. destruct (fsub_antimono b fzero p Fb eq_refl Np) as (N0 & N1 & H); [cbn; lra|exact H0|].
  split; [exact N1|]. destruct (fsub_key b fzero Fb eq_refl) as [_ K]. rewrite K in H.
  change (B2R fzero) with 0 in H. rewrite Rminus_0_r, rnd_B2R, sat_id in H.
  - rewrite (key_finite _ Fb). exact H.
  - pose proof (finite_key_bound b Fb) as Hb. rewrite (key_finite _ Fb) in Hb. exact Hb.
Qed.

Lemma fadd_ge_self (b p : f64) : is_finite b = true -> notnan p -> 0 <= key p ->
  notnan (fadd b p) /\ key b <= key (fadd b p).
Proof.
  intros Fb Np H0. destruct (fadd_mono b fzero p Fb eq_refl Np) as (N0 & N1 & H); [cbn; lra|exact H0|].
  split; [exact N1|]. destruct (fadd_key b fzero Fb eq_refl) as [_ K]. rewrite K in H.
  change (B2R fzero) with 0 in H. rewrite Rplus_0_r, rnd_B2R, sat_id in H.
  - rewrite (key_finite _ Fb). exact H.
  - pose proof (finite_key_bound b Fb) as Hb. rewrite (key_finite _ Fb) in Hb. exact Hb.
Qed.

(* ------------------------------------------------------------------ |x * r| for a factor r >= 0 *)
Lemma fmulabs_key (x r : f64) : is_finite x = true -> is_finite r = true -> 0 <= B2R r ->
  notnan (fabs (fmul x r)) /\ key (fabs (fmul x r)) = sat (rnd (Rabs (B2R x) * B2R r)).
Proof.
  intros Fx Fr Hr. pose proof (Bmult_correct prec emax _ _ mode_NE x r) as H.
  change (round radix2 (SpecFloat.fexp prec emax) (round_mode mode_NE) (B2R x * B2R r)) with (rnd (B2R x * B2R r)) in H.
  change (bpow radix2 emax) with BIG in H. unfold fabs, fmul.
  assert (E : rnd (Rabs (B2R x) * B2R r) = Rabs (rnd (B2R x * B2R r))).
  { rewrite <- rnd_abs, Rabs_mult, (Rabs_pos_eq (B2R r)) by exact Hr. reflexivity. }
  destruct (Rlt_bool_spec (Rabs (rnd (B2R x * B2R r))) BIG) as [Hlt|Hge].
  - destruct H as (HR & HF & _). rewrite Fx, Fr in HF. cbn in HF.
    assert (HFa : is_finite (Babs (Bmult mode_NE x r)) = true) by (rewrite is_finite_Babs; exact HF).
    split; [apply finite_notnan, HFa|].
    rewrite (key_finite _ HFa), B2R_Babs, HR, E. symmetry. apply sat_id.
    pose proof (Rabs_pos (rnd (B2R x * B2R r))). pose proof BIG_pos. lra.
  - unfold binary_overflow, overflow_to_inf in H. apply inf_of_SF in H. rewrite H. cbn [Babs key].
    split; [reflexivity|]. rewrite E. symmetry. apply sat_hi. exact Hge.
Qed.

Lemma pymax_key (u v : f64) : notnan u -> notnan v -> notnan (pymax u v) /\ key (pymax u v) = Rmax (key u) (key v).
Proof.
  intros Nu Nv. unfold pymax. destruct (flt u v) eqn:E.
  - apply flt_true in E; [|assumption|assumption]. split; [exact Nv|]. rewrite Rmax_right by lra. reflexivity.
  - apply flt_false in E; [|assumption|assumption]. split; [exact Nu|]. rewrite Rmax_left by lra. reflexivity.
Qed.

(* the tolerance of FloatRange.validate: max(abs(x * relres), absres) *)
Definition tol (r a x : f64) : f64 := pymax (fabs (fmul x r)) a.

Lemma tol_key (r a x : f64) : is_finite x = true -> is_finite r = true -> 0 <= B2R r -> notnan a ->
  notnan (tol r a x) /\ key (tol r a x) = Rmax (sat (rnd (Rabs (B2R x) * B2R r))) (key a) /\ 0 <= key (tol r a x).
Proof.
  intros Fx Fr Hr Na. destruct (fmulabs_key x r Fx Fr Hr) as [N K].
  destruct (pymax_key _ a N Na) as [N' K']. unfold tol. split; [exact N'|]. rewrite K', K. split; [reflexivity|].
  apply Rle_trans with (sat (rnd (Rabs (B2R x) * B2R r))); [|apply Rmax_l].
  apply sat_nonneg, rnd_nonneg. apply Rmult_le_pos; [apply Rabs_pos|exact Hr].
Qed.

Lemma tol_mono (r a x y : f64) : is_finite x = true -> is_finite y = true -> is_finite r = true -> 0 <= B2R r -> notnan a ->
  Rabs (B2R x) <= Rabs (B2R y) -> key (tol r a x) <= key (tol r a y).
Proof.
  intros Fx Fy Fr Hr Na H. destruct (tol_key r a x Fx Fr Hr Na) as (_ & K1 & _). destruct (tol_key r a y Fy Fr Hr Na) as (_ & K2 & _).
  rewrite K1, K2. apply Rle_max_compat_r. apply sat_le, rnd_le. apply Rmult_le_compat_r; assumption.
Qed.

Lemma tol_const (r a x y : f64) : is_finite x = true -> is_finite y = true -> is_finite r = true -> B2R r = 0 -> notnan a ->
  key (tol r a x) = key (tol r a y).
Proof.
  intros Fx Fy Fr Hr Na. assert (Hr' : 0 <= B2R r) by lra.
  destruct (tol_key r a x Fx Fr Hr' Na) as (_ & K1 & _). destruct (tol_key r a y Fy Fr Hr' Na) as (_ & K2 & _).
  rewrite K1, K2, Hr, !Rmult_0_r. reflexivity.
Qed.

(* ------------------------------------------------------------------ int -> float *)
Lemma of_Z_key (z : Z) : notnan (of_Z z) /\ key (of_Z z) = sat (rnd (IZR z)).
Proof.
  pose proof (binary_normalize_correct prec emax _ _ mode_NE z 0 false) as H. cbv zeta in H.
  assert (E : F2R (Float radix2 z 0) = IZR z) by (unfold F2R; cbn; lra).
  rewrite E in H.
  change (round radix2 (SpecFloat.fexp prec emax) (round_mode mode_NE) (IZR z)) with (rnd (IZR z)) in H.
  change (bpow radix2 emax) with BIG in H. unfold of_Z, fmk.
  destruct (Rlt_bool_spec (Rabs (rnd (IZR z))) BIG) as [Hlt|Hge].
  - destruct H as (HR & HF & _). split; [apply finite_notnan, HF|].
    rewrite (key_finite _ HF), HR. symmetry. apply sat_id. apply Rabs_def2 in Hlt. lra.
  - unfold binary_overflow, overflow_to_inf in H. apply inf_of_SF in H. rewrite H. split; [reflexivity|]. cbn [key].
    destruct (Rlt_bool_spec (IZR z) 0) as [Hn|Hp].
    + symmetry. apply sat_lo. apply abs_ge_big_nonpos; [|exact Hge]. apply rnd_nonpos. lra.
    + symmetry. apply sat_hi. apply abs_ge_big_nonneg; [|exact Hge]. apply rnd_nonneg. exact Hp.
Qed.

Lemma of_Z_mono (z z' : Z) : (z <= z')%Z -> key (of_Z z) <= key (of_Z z').
Proof.
  intros H. destruct (of_Z_key z) as [_ K]. destruct (of_Z_key z') as [_ K']. rewrite K, K'.
  apply sat_le, rnd_le, IZR_le, H.
Qed.

Lemma feq_key (a b : f64) : notnan a -> notnan b -> feq a b = true -> key a = key b.
Proof.
  intros Na Nb. unfold feq, Beqb, SpecFloat.SFeqb. fold (Bcompare a b). rewrite (compare_key a b Na Nb).
  case Rcompare_spec; intros H E; try discriminate. exact H.
Qed.

Lemma fle_of_keys (a b : f64) : notnan a -> notnan b -> key a <= key b -> fle a b = true.
Proof. intros Na Nb H. apply fle_true; assumption. Qed.
Lemma keys_of_fle (a b : f64) : fle a b = true -> notnan a /\ notnan b /\ key a <= key b.
Proof.
  intros H. destruct (fle_true_notnan _ _ H) as [Na Nb]. split; [exact Na|]. split; [exact Nb|].
  apply fle_true in H; assumption.
Qed.

(* ------------------------------------------------------------------ an int converted to float is integral: round()
   gives it back and the exact int/float comparison says "equal" (same argument as C02/LemmasNum.v, repeated here so
   that C03 does not depend on the files of another property) *)
Lemma rnd_int_is_int z : exists n, rnd (IZR z) = IZR n.
Proof.
  unfold rnd. destruct (Z_lt_le_dec (cexp radix2 (SpecFloat.fexp prec emax) (IZR z)) 0) as [Hc|Hc].
  - exists z. apply round_generic; [auto with typeclass_instances|].
    replace (IZR z) with (F2R (Float radix2 z 0)) by (unfold F2R; cbn; lra).
    apply generic_format_F2R. intros _. replace (F2R (Float radix2 z 0)) with (IZR z) by (unfold F2R; cbn; lra). cbn. lia.
  - exists (ZnearestE (scaled_mantissa radix2 (SpecFloat.fexp prec emax) (IZR z)) * 2 ^ cexp radix2 (SpecFloat.fexp prec emax) (IZR z))%Z.
    unfold round, F2R. cbn [Fnum Fexp]. rewrite mult_IZR. f_equal.
    symmetry. apply (IZR_Zpower radix2). exact Hc.
Qed.

Lemma of_Z_integral z : is_finite (of_Z z) = true -> exists n, B2R (of_Z z) = IZR n.
Proof.
  intros Hf. destruct (of_Z_key z) as [_ K]. rewrite (key_finite _ Hf) in K.
  pose proof (finite_key_bound _ Hf) as Hb. rewrite (key_finite _ Hf), K in Hb.
  destruct (rnd_int_is_int z) as [n Hn]. exists n. rewrite K, <- Hn.
  pose proof BIG_pos. unfold sat in *.
  destruct (Rle_dec BIG (rnd (IZR z))) as [H1|H1].
  - rewrite Rmin_left, Rmax_right in Hb by lra. lra.
  - rewrite Rmin_right in * by lra. destruct (Rle_dec (rnd (IZR z)) (- BIG)) as [H2|H2].
    + rewrite Rmax_left in Hb by lra. lra.
    + rewrite Rmax_right by lra. reflexivity.
Qed.

Lemma fround_integral (y : f64) n : B2R y = IZR n -> fround y = n.
Proof.
  intros Hy. unfold fround. apply eq_IZR. rewrite Btrunc_correct.
  destruct (Bnearbyint_correct prec emax _ mode_NE y) as (H & _). rewrite H, Hy.
  rewrite !round_FIX_IZR. rewrite (Zrnd_IZR (round_mode mode_NE)). rewrite (Zrnd_IZR Ztrunc). reflexivity. exact prec_lt_emax_64.
Qed.

Lemma cmp_Z_f_integral (y : f64) n : is_finite y = true -> B2R y = IZR n -> cmp_Z_f n y = Some Eq.
Proof.
  destruct y as [s|s| |s m e B]; cbn [is_finite]; try discriminate; intros _ Hy; cbn [cmp_Z_f].
  - cbn in Hy. apply eq_IZR in Hy. subst. reflexivity.
  - cbn [B2R] in Hy. unfold F2R in Hy. cbn [Fnum Fexp] in Hy. f_equal.
    destruct (0 <=? e)%Z eqn:He.
    + apply Z.leb_le in He. apply Z.compare_eq_iff. apply eq_IZR. rewrite <- Hy, mult_IZR.
      f_equal. symmetry. apply (IZR_Zpower radix2). exact He.
    + apply Z.leb_gt in He. apply Z.compare_eq_iff. apply eq_IZR. rewrite mult_IZR.
      rewrite (IZR_Zpower radix2) by lia. rewrite <- Hy. rewrite Rmult_assoc, <- bpow_plus.
      replace (e + - e)%Z with 0%Z by lia. cbn. ring.
Qed.

(* the value of a literal m * 2^e that needs no rounding *)
Lemma B2R_fmk_exact m e : (Z.abs m < 2 ^ prec)%Z -> (3 - emax - prec <= e)%Z -> (e <= emax - prec)%Z ->
  B2R (fmk m e) = F2R (Float radix2 m e).
Proof.
  intros Hm He1 He2. pose proof (binary_normalize_correct prec emax _ _ mode_NE m e false) as H. cbv zeta in H.
  assert (G : generic_format radix2 (SpecFloat.fexp prec emax) (F2R (Float radix2 m e))).
  { apply generic_format_FLT. exists (Float radix2 m e); [reflexivity|exact Hm|exact He1]. }
  rewrite round_generic in H by (auto with typeclass_instances).
  rewrite Rlt_bool_true in H; [apply H|].
  apply F2R_lt_bpow. cbn [Fnum Fexp]. apply Z.lt_le_trans with (2 ^ prec)%Z; [exact Hm|].
  change (radix2 ^ (emax - e))%Z with (2 ^ (emax - e))%Z. apply Z.pow_le_mono_r; unfold prec, emax in *; lia.
Qed.
