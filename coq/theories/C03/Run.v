(* C03 - correspondence driver: a case carries the inputs and what the implementation did;
   check_case re-runs the model and compares (floats bit-exact, exceptions by class). *)
From Coq Require Import ZArith NArith Bool List.
Import ListNotations.
Require Import FV.Base.Util FV.Base.F64 FV.Base.PyVal FV.C01.Model FV.Gen.C03 FV.C03.Model.

Definition members_eqb (a b : list (str * Z)) : bool :=
  list_eqb (fun p q : str * Z => str_eqb (fst p) (fst q) && Z.eqb (snd p) (snd q)) a b.

Fixpoint xt_eqb (a b : xt) {struct a} : bool :=
  match a, b with
  | XFloat a1 a2 a3 a4 u f, XFloat b1 b2 b3 b4 u' f' =>
      fsame a1 b1 && fsame a2 b2 && fsame a3 b3 && fsame a4 b4 && str_eqb u u' && str_eqb f f'
  | XInt a1 a2, XInt b1 b2 => Z.eqb a1 b1 && Z.eqb a2 b2
  | XScaled s a1 a2 a3 a4 u f, XScaled s' b1 b2 b3 b4 u' f' =>
      fsame s s' && fsame a1 b1 && fsame a2 b2 && fsame a3 b3 && fsame a4 b4 && str_eqb u u' && str_eqb f f'
  | XBool, XBool => true
  | XEnum n ms, XEnum n' ms' => str_eqb n n' && members_eqb ms ms'
  | XString a1 a2 u t, XString b1 b2 u' t' => Z.eqb a1 b1 && Z.eqb a2 b2 && Bool.eqb u u' && Bool.eqb t t'
  | XBlob a1 a2, XBlob b1 b2 => Z.eqb a1 b1 && Z.eqb a2 b2
  | XArray e a1 a2, XArray e' b1 b2 => xt_eqb e e' && Z.eqb a1 b1 && Z.eqb a2 b2
  | XTuple es, XTuple es' =>
      (fix go (l l' : list xt) : bool :=
         match l, l' with
         | [], [] => true
         | e :: r, e' :: r' => xt_eqb e e' && go r r'
         | _, _ => false
         end) es es'
  | XStruct ms opt c, XStruct ms' opt' c' =>
      (fix go (l l' : list (str * xt)) : bool :=
         match l, l' with
         | [], [] => true
         | (n, e) :: r, (n', e') :: r' => str_eqb n n' && xt_eqb e e' && go r r'
         | _, _ => false
         end) ms ms' && list_eqb str_eqb opt opt' && Bool.eqb c c'
  | _, _ => false
  end.

Definition res_eqb {A} (eqb : A -> A -> bool) (a b : res A) : bool :=
  match a, b with
  | Ok x, Ok y => eqb x y
  | Err e, Err e' => exc_eqb e e'
  | _, _ => false
  end.

Inductive case :=
| CRebuild (x : xt) (pname : str)
           (o_exp : res pyval)              (* export_datatype() *)
           (o_reb : res (option xt))        (* get_datatype(json round trip of it, pname), described *)
           (o_exp2 : res pyval)             (* export_datatype() of the rebuilt type *)
| CCopy (x : xt) (o : res xt)               (* copy(), described *)
| CCompat (a b : xt) (o : res unit)         (* a.compatible(b) *)
| CGet (pname : str) (j : pyval) (o : res (option xt)).   (* get_datatype of an arbitrary description *)

Definition out_of_model {A} (r : res A) : bool := match r with Err EOther => true | _ => false end.

Definition model_rebuild (x : xt) (pname : str) : res pyval * res (option xt) * res pyval :=
  let e := xt_export x in
  let r := match e with Ok j => get_datatype pname j | Err e => Err e end in
  let e2 := match r with Ok (Some x') => xt_export x' | Ok None => Err EOther | Err e => Err e end in
  (e, r, e2).

Definition check_case (c : case) : bool :=
  match c with
  | CRebuild x pname o_exp o_reb o_exp2 =>
      let '(e, r, e2) := model_rebuild x pname in
      res_same e o_exp &&
      match o_exp with
      | Ok _ => res_eqb (opt_eqb xt_eqb) r o_reb &&
                match o_reb with Ok _ => res_same e2 o_exp2 | Err _ => true end
      | Err _ => true
      end
  | CCopy x o => res_eqb xt_eqb (xt_copy x) o
  | CCompat a b o => res_eqb (fun _ _ => true) (compat a b) o
  | CGet pname j o =>
      let r := get_datatype pname j in
      out_of_model r || res_eqb (opt_eqb xt_eqb) r o
  end.

(* for diagnosis in replay files *)
Inductive shown :=
| SRebuild (e : res pyval) (r : res (option xt)) (e2 : res pyval)
| SCopy (r : res xt) | SCompat (r : res unit) | SGet (r : res (option xt)).
Definition model_result (c : case) : shown :=
  match c with
  | CRebuild x pname _ _ _ => let '(e, r, e2) := model_rebuild x pname in SRebuild e r e2
  | CCopy x _ => SCopy (xt_copy x)
  | CCompat a b _ => SCompat (compat a b)
  | CGet pname j _ => SGet (get_datatype pname j)
  end.
