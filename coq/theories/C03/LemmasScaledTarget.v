(* C03 - compatible() with a ScaledInteger as second type and a FloatRange or IntRange as first: the two end points
   are validated; ScaledInteger.validate compares the offered number with min - scale and max + scale (a constant
   tolerance) and the rounding to the grid succeeds for every finite quotient, so every value in between is accepted
   too.  No side condition beyond constructibility. *)
From Coq Require Import String Ascii.
From Coq Require Import ZArith NArith Bool List Lia Reals Lra.
Import ListNotations.
From Flocq Require Import Core.Zaux Core.Raux Core.Defs Core.Generic_fmt Core.FLT IEEE754.BinarySingleNaN.
Require Import FV.Base.Util FV.Base.F64 FV.Base.F64Lemmas FV.Base.F64Repr FV.Base.PyVal FV.C01.Model FV.C01.Lemmas FV.Gen.C03
  FV.C03.Model FV.C03.Lemmas FV.C03.F64Mono FV.C03.LemmasCompat FV.C03.LemmasNum.

#[local] Transparent pv_float pv_float0 pv_scale pv_intU.

(* ------------------------------------------------------------------ the quotient x / scale *)
Lemma fdiv_finite_iff (f s : f64) : is_finite f = true -> (B2R s <> 0)%R ->
  (is_finite (fdiv f s) = true <-> (Rabs (rnd (B2R f / B2R s)) < BIG)%R).
Proof.
  intros Ff Hs. pose proof (Bdiv_correct prec emax _ _ mode_NE f s Hs) as H.
  change (round radix2 (SpecFloat.fexp prec emax) (round_mode mode_NE) (B2R f / B2R s)) with (rnd (B2R f / B2R s)) in H.
  change (bpow radix2 emax) with BIG in H. unfold fdiv.
  destruct (Rlt_bool_spec (Rabs (rnd (B2R f / B2R s))) BIG) as [Hlt|Hge].
  - destruct H as (_ & HF & _). rewrite HF, Ff. split; auto.
  - unfold binary_overflow, overflow_to_inf in H. apply inf_of_SF in H. rewrite H. cbn [is_finite]. split; [discriminate|intros X; lra].
Qed.

Lemma fdiv_finite_between (lo x hi s : f64) : is_finite lo = true -> is_finite x = true -> is_finite hi = true ->
  (0 < B2R s)%R -> (B2R lo <= B2R x <= B2R hi)%R ->
  is_finite (fdiv lo s) = true -> is_finite (fdiv hi s) = true -> is_finite (fdiv x s) = true.
Proof.
  intros Fl Fx Fh Hs [H1 H2] Ql Qh. assert (Hs' : (B2R s <> 0)%R) by lra.
  apply (fdiv_finite_iff _ _ Fl Hs') in Ql. apply (fdiv_finite_iff _ _ Fh Hs') in Qh. apply (fdiv_finite_iff _ _ Fx Hs').
  assert (M1 : (rnd (B2R lo / B2R s) <= rnd (B2R x / B2R s))%R).
  { apply rnd_le. unfold Rdiv. apply Rmult_le_compat_r; [left; apply Rinv_0_lt_compat; exact Hs|exact H1]. }
  assert (M2 : (rnd (B2R x / B2R s) <= rnd (B2R hi / B2R s))%R).
  { apply rnd_le. unfold Rdiv. apply Rmult_le_compat_r; [left; apply Rinv_0_lt_compat; exact Hs|exact H2]. }
  apply Rabs_def2 in Ql. apply Rabs_def2 in Qh. apply Rabs_def1; lra.
Qed.

(* ------------------------------------------------------------------ ScaledInteger.__call__ succeeds exactly when the
   number converts to float and the quotient is finite *)
Lemma scaled_call_ok_iff s v : (exists r, scaled_call s v = Ok r) <-> (exists f, py_add0 v = Ok f /\ fis_finite (fdiv f s) = true).
Proof.
  unfold scaled_call. destruct (py_add0 v) as [f|e]; cbn [wrap_wrong].
  - unfold py_round. split.
    + intros [r H]. exists f. split; [reflexivity|].
      destruct (fis_nan (fdiv f s)) eqn:En; [discriminate|]. destruct (fis_inf (fdiv f s)) eqn:Ei; [discriminate|].
      destruct (fdiv f s); cbn in *; congruence.
    + intros (f' & E & Fq). injection E as <-.
      assert (En : fis_nan (fdiv f s) = false) by (destruct (fdiv f s); cbn in *; congruence).
      assert (Ei : fis_inf (fdiv f s) = false) by (destruct (fdiv f s); cbn in *; congruence).
      rewrite En, Ei. destruct (fround_representable _ Fq) as [zf Hz]. unfold py_int_mul_float. rewrite Hz.
      eexists. reflexivity.
  - split; [intros [r H]; discriminate|intros (f & H & _); discriminate].
Qed.

(* the parts of ScaledInteger.validate *)
Lemma scaled_validate_ok_iff s mn mx v :
  (exists r, scaled_validate s mn mx v = Ok r) <->
  ((exists q, scaled_call s v = Ok q) /\ f_lt_num (fsub mn s) v = true /\ num_lt_f v (fadd mx s) = true /\
   (exists l, scaled_call s (PFloat mn) = Ok l) /\ (exists h, scaled_call s (PFloat mx) = Ok h)).
Proof.
  unfold scaled_validate. pose proof (scaled_call_float s v) as F1.
  pose proof (scaled_call_float s (PFloat mn)) as F2. pose proof (scaled_call_float s (PFloat mx)) as F3.
  destruct (scaled_call s v) as [q|e].
  - destruct (F1 q eq_refl) as [r ->].
    destruct (f_lt_num (fsub mn s) v); [|split; [intros [x H]; discriminate|intros (_ & H & _); discriminate]].
    destruct (num_lt_f v (fadd mx s)); [|split; [intros [x H]; discriminate|intros (_ & _ & H & _); discriminate]].
    cbn [andb].
    destruct (scaled_call s (PFloat mn)) as [l|e1].
    + destruct (F2 l eq_refl) as [lo ->]. destruct (scaled_call s (PFloat mx)) as [h|e2].
      * destruct (F3 h eq_refl) as [hi ->]. split; [intros _; repeat split; eauto|intros _; eauto].
      * split; [intros [x H]; discriminate|intros (_ & _ & _ & _ & [h H]); discriminate].
    + split; [intros [x H]; discriminate|intros (_ & _ & _ & [l H] & _); discriminate].
  - split; [intros [x H]; discriminate|intros ([q H] & _); discriminate].
Qed.

(* ------------------------------------------------------------------ exact int/float comparison is monotone *)
Lemma cmp_Z_f_gt_mono (a : f64) z z' : cmp_Z_f z a = Some Gt -> (z <= z')%Z -> cmp_Z_f z' a = Some Gt.
Proof.
  destruct a as [s|s| |s m e B]; cbn [cmp_Z_f]; intros H L; try discriminate.
  - injection H as H. f_equal. apply Z.compare_gt_iff in H. apply Z.compare_gt_iff. lia.
  - exact H.
  - injection H as H. f_equal. destruct (0 <=? e)%Z eqn:He.
    + apply Z.compare_gt_iff in H. apply Z.compare_gt_iff. lia.
    + apply Z.leb_gt in He. apply Z.compare_gt_iff in H. apply Z.compare_gt_iff.
      assert (P : (0 < 2 ^ (- e))%Z) by (apply Z.pow_pos_nonneg; lia). revert H P. generalize (2 ^ (- e))%Z. intros p H P. nia.
Qed.
Lemma cmp_Z_f_lt_mono (a : f64) z z' : cmp_Z_f z a = Some Lt -> (z' <= z)%Z -> cmp_Z_f z' a = Some Lt.
Proof.
  destruct a as [s|s| |s m e B]; cbn [cmp_Z_f]; intros H L; try discriminate.
  - injection H as H. f_equal. change (z < 0)%Z in H. change (z' < 0)%Z. lia.
  - exact H.
  - injection H as H. f_equal. destruct (0 <=? e)%Z eqn:He.
    + change (z < SpecFloat.cond_Zopp s (Z.pos m) * 2 ^ e)%Z in H. change (z' < SpecFloat.cond_Zopp s (Z.pos m) * 2 ^ e)%Z. lia.
    + apply Z.leb_gt in He. change (z * 2 ^ (- e) < SpecFloat.cond_Zopp s (Z.pos m))%Z in H.
      change (z' * 2 ^ (- e) < SpecFloat.cond_Zopp s (Z.pos m))%Z.
      assert (P : (0 < 2 ^ (- e))%Z) by (apply Z.pow_pos_nonneg; lia). revert H P. generalize (2 ^ (- e))%Z. intros p H P. nia.
Qed.

Lemma f_lt_int_mono a z z' : f_lt_num a (PInt z) = true -> (z <= z')%Z -> f_lt_num a (PInt z') = true.
Proof.
  cbn [f_lt_num]. intros H L. destruct (cmp_Z_f z a) as [[]|] eqn:E; try discriminate.
  rewrite (cmp_Z_f_gt_mono _ _ _ E L). reflexivity.
Qed.
Lemma int_lt_f_mono a z z' : num_lt_f (PInt z) a = true -> (z' <= z)%Z -> num_lt_f (PInt z') a = true.
Proof.
  cbn [num_lt_f]. intros H L. destruct (cmp_Z_f z a) as [[]|] eqn:E; try discriminate.
  rewrite (cmp_Z_f_lt_mono _ _ _ E L). reflexivity.
Qed.
Lemma f_lt_float_mono a x x' : flt a x = true -> fle x x' = true -> flt a x' = true.
Proof.
  intros H L. destruct (flt_true_notnan _ _ H) as [Na Nx]. apply keys_of_fle in L as (_ & Nx' & L).
  apply flt_true in H; try assumption. apply flt_true; try assumption. lra.
Qed.
Lemma float_lt_f_mono a x x' : flt x a = true -> fle x' x = true -> flt x' a = true.
Proof.
  intros H L. destruct (flt_true_notnan _ _ H) as [Nx Na]. apply keys_of_fle in L as (Nx' & _ & L).
  apply flt_true in H; try assumption. apply flt_true; try assumption. lra.
Qed.

(* ------------------------------------------------------------------ what wfx says about the scale *)
Lemma dblmin_facts : fle dblmin fmaxval = true /\ is_finite dblmin = true /\ flt fzero dblmin = true.
Proof. repeat split; vm_compute; reflexivity. Qed.

Lemma wfx_scale_pos s mn mx a r u f : wfx (XScaled s mn mx a r u f) -> is_finite s = true /\ (0 < B2R s)%R.
Proof.
  intros (Hs & _). destruct dblmin_facts as (A & B & C). destruct fmax_facts as (_ & _ & Fh & _).
  unfold fixf, pv_scale in Hs. destruct (float_validate_fix_range dblmin fmaxval _ _ s A B Fh Hs) as (L & _ & Fs).
  split; [exact Fs|]. apply keys_of_fle in L as (_ & _ & L). apply flt_true in C; [|reflexivity|apply finite_notnan, B].
  rewrite (key_finite _ Fs) in L. change (key fzero) with 0%R in C. lra.
Qed.

(* ------------------------------------------------------------------ floats between two finite limits -> ScaledInteger *)
Lemma float_src_into_scaled amn amx s bmn bmx : is_finite amn = true -> is_finite amx = true -> is_finite s = true ->
  (0 < B2R s)%R ->
  (exists r, scaled_validate s bmn bmx (PFloat amn) = Ok r) -> (exists r, scaled_validate s bmn bmx (PFloat amx) = Ok r) ->
  forall x, fle amn x = true -> fle x amx = true -> exists r, scaled_validate s bmn bmx (PFloat x) = Ok r.
Proof.
  intros F1 F2 Fs Ps A1 A2 x V1 V2.
  apply scaled_validate_ok_iff in A1 as (Q1 & L1 & _ & ML & MH). apply scaled_validate_ok_iff in A2 as (Q2 & _ & U2 & _ & _).
  apply scaled_validate_ok_iff. split; [|split; [|split; [|split; assumption]]].
  - apply scaled_call_ok_iff in Q1 as (f1 & E1 & Q1). apply scaled_call_ok_iff in Q2 as (f2 & E2 & Q2).
    cbn [py_add0] in E1, E2. injection E1 as <-. injection E2 as <-.
    apply scaled_call_ok_iff. exists (fadd x fzero). split; [reflexivity|].
    pose proof V1 as K1. pose proof V2 as K2. apply keys_of_fle in K1 as (_ & Nx & K1). apply keys_of_fle in K2 as (_ & _ & K2).
    assert (Fx : is_finite x = true).
    { pose proof (finite_key_bound _ F1). pose proof (finite_key_bound _ F2). apply finite_of_key; [exact Nx|lra]. }
    rewrite (key_finite _ F1), (key_finite _ Fx) in K1. rewrite (key_finite _ F2), (key_finite _ Fx) in K2.
    destruct (fadd_zero _ F1) as [G1 B1]. destruct (fadd_zero _ Fx) as [Gx Bx]. destruct (fadd_zero _ F2) as [G2 B2].
    rewrite fis_finite_is_finite in *.
    apply (fdiv_finite_between (fadd amn fzero) (fadd x fzero) (fadd amx fzero) s); try assumption. rewrite B1, Bx, B2. lra.
  - cbn [f_lt_num] in *. eapply f_lt_float_mono; eassumption.
  - cbn [num_lt_f] in *. eapply float_lt_f_mono; eassumption.
Qed.

Theorem compat_float_scaled_sound amn amx aa ar au af s bmn bmx ba br bu bf :
  wfx (XFloat amn amx aa ar au af) -> wfx (XScaled s bmn bmx ba br bu bf) ->
  compat (XFloat amn amx aa ar au af) (XScaled s bmn bmx ba br bu bf) = Ok tt ->
  forall v, in_setb (erase (XFloat amn amx aa ar au af)) v = true -> accepts (XScaled s bmn bmx ba br bu bf) v.
Proof.
  intros Wa Wb HC v HV. destruct (wfx_scale_pos _ _ _ _ _ _ _ Wb) as [Fs Ps].
  destruct Wa as (Hmn & Hmx & _). destruct (fix_pv_float _ Hmn) as (_ & _ & F1). destruct (fix_pv_float _ Hmx) as (_ & _ & F2).
  cbn [erase in_setb] in HV. destruct v as [| | |x| | | | | | |]; try discriminate. apply andb_prop in HV as [V1 V2].
  cbn [compat] in HC. apply vboth_ok in HC as [A1 A2]. unfold accepts in *. cbn [erase dt_validate] in *.
  exact (float_src_into_scaled _ _ _ _ _ F1 F2 Fs Ps A1 A2 x V1 V2).
Qed.

(* ScaledInteger -> ScaledInteger (first type with its grid-rounded limits inside its limits) *)
Theorem compat_scaled_scaled_sound sa amn amx aa ar au af s bmn bmx ba br bu bf :
  wfx (XScaled sa amn amx aa ar au af) -> wfx (XScaled s bmn bmx ba br bu bf) -> grid_inside sa amn amx = true ->
  compat (XScaled sa amn amx aa ar au af) (XScaled s bmn bmx ba br bu bf) = Ok tt ->
  forall v, in_setb (erase (XScaled sa amn amx aa ar au af)) v = true -> accepts (XScaled s bmn bmx ba br bu bf) v.
Proof.
  intros Wa Wb GI HC v HV. destruct (wfx_scale_pos _ _ _ _ _ _ _ Wb) as [Fs Ps].
  destruct (wfx_scaled_limits _ _ _ _ _ _ _ Wa) as [[L1 L2] [U1 U2]].
  pose proof (finite_in_fmax _ L1 L2) as F1. pose proof (finite_in_fmax _ U1 U2) as F2.
  cbn [erase] in HV. destruct (scaled_set_inside _ _ _ _ GI HV) as (x & -> & V1 & V2).
  cbn [compat] in HC. apply vboth_ok in HC as [A1 A2]. unfold accepts in *. cbn [erase dt_validate] in *.
  exact (float_src_into_scaled _ _ _ _ _ F1 F2 Fs Ps A1 A2 x V1 V2).
Qed.

(* ------------------------------------------------------------------ IntRange -> ScaledInteger *)
Theorem compat_int_scaled_sound amn amx s bmn bmx ba br bu bf :
  wfx (XInt amn amx) -> wfx (XScaled s bmn bmx ba br bu bf) ->
  compat (XInt amn amx) (XScaled s bmn bmx ba br bu bf) = Ok tt ->
  forall v, in_setb (erase (XInt amn amx)) v = true -> accepts (XScaled s bmn bmx ba br bu bf) v.
Proof.
  intros Wa Wb HC v HV. destruct (wfx_scale_pos _ _ _ _ _ _ _ Wb) as [Fs Ps].
  destruct (wfx_int_range _ _ Wa) as (R1 & R2 & _).
  cbn [erase in_setb] in HV. destruct v as [| |z| | | | | | | |]; try discriminate.
  apply andb_prop in HV as [V1 V2]. apply Z.leb_le in V1, V2.
  cbn [compat] in HC. apply vboth_ok in HC as [A1 A2]. unfold accepts in *. cbn [erase dt_validate] in *.
  apply scaled_validate_ok_iff in A1 as (Q1 & L1 & _ & ML & MH). apply scaled_validate_ok_iff in A2 as (Q2 & _ & U2 & _ & _).
  apply scaled_validate_ok_iff. split; [|split; [|split; [|split; assumption]]].
  - apply scaled_call_ok_iff in Q1 as (f1 & E1 & Q1). apply scaled_call_ok_iff in Q2 as (f2 & E2 & Q2).
    destruct (float_call_int amn R1) as [_ F1]. destruct (float_call_int amx R2) as [_ F2].
    destruct (float_call_int z ltac:(lia)) as [_ Fz].
    assert (PA : forall k, is_finite (of_Z k) = true -> py_add0 (PInt k) = Ok (of_Z k)).
    { intros k Fk. cbn [py_add0]. unfold float_of_Z. rewrite fis_finite_is_finite, Fk. reflexivity. }
    rewrite (PA _ F1) in E1. rewrite (PA _ F2) in E2. injection E1 as <-. injection E2 as <-.
    apply scaled_call_ok_iff. exists (of_Z z). split; [apply PA, Fz|]. rewrite fis_finite_is_finite in *.
    pose proof (of_Z_mono _ _ V1) as M1. pose proof (of_Z_mono _ _ V2) as M2.
    rewrite (key_finite _ F1), (key_finite _ Fz) in M1. rewrite (key_finite _ F2), (key_finite _ Fz) in M2.
    apply (fdiv_finite_between (of_Z amn) (of_Z z) (of_Z amx) s); try assumption. lra.
  - eapply f_lt_int_mono; eassumption.
  - eapply int_lt_f_mono; eassumption.
Qed.
