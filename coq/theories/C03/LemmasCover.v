(* C03 - soundness of the compatibility verdict for all pairings (a ScaledInteger as first type against a FloatRange or
   ScaledInteger needs its grid-rounded limits within its declared limits):
     compat a b = Ok tt -> every value of a's value set (C01's in_setb) is accepted by b.validate
   by structural induction over nested types.  Two guards exclude exactly the pairs of the two open findings
   (struct member optional in the first and mandatory in the second; float target whose tolerance the verdict relies
   on towards the zero side of an end point).  Also: the verdicts that are exact (enum into enum, int range into enum),
   the one that is conservative (enum into number never passes), completeness (nested limits pass). *)
From Coq Require Import String Ascii.
From Coq Require Import ZArith NArith Bool List Lia FinFun.
Import ListNotations.
From Flocq Require Import IEEE754.BinarySingleNaN.
Require Import FV.Base.Util FV.Base.F64 FV.Base.F64Lemmas FV.Base.PyVal FV.C01.Model FV.C01.Lemmas FV.Gen.C03 FV.C03.Model
  FV.C03.Lemmas FV.C03.F64Mono FV.C03.LemmasCompat FV.C03.LemmasNum FV.C03.LemmasScaledTarget.

#[local] Transparent pv_intU pv_int0 pv_int0U.

(* ------------------------------------------------------------------ small list / string facts *)
Lemma str_eqb_iff a b : str_eqb a b = true <-> a = b.
Proof. split; [apply str_eqb_eq|intros ->; apply str_eqb_refl]. Qed.

Lemma mem_str_In k l : mem_str k l = true <-> In k l.
Proof.
  induction l as [|x l IH]; cbn; [split; [discriminate|contradiction]|].
  rewrite orb_true_iff, IH, str_eqb_iff. split; intros [H|H]; auto.
Qed.

Lemma in_setb_none d : in_setb d PNone = false.
Proof. destruct d; reflexivity. Qed.

Lemma assoc_xt_In k l m : assoc_xt k l = Some m -> In (k, m) l.
Proof.
  induction l as [|[k' v] l IH]; cbn; [discriminate|]. destruct (str_eqb k k') eqn:E.
  - intros H. injection H as ->. apply str_eqb_eq in E. subst. left. reflexivity.
  - intros H. right. apply IH, H.
Qed.
Lemma assoc_xt_mem k l m : assoc_xt k l = Some m -> mem_str k (map fst l) = true.
Proof. intros H. apply mem_str_In. apply assoc_xt_In in H. apply (in_map fst) in H. exact H. Qed.
Lemma assoc_xt_of_mem k l : mem_str k (map fst l) = true -> exists m, assoc_xt k l = Some m.
Proof.
  induction l as [|[k' v] l IH]; cbn; [discriminate|]. destruct (str_eqb k k'); [eauto|]. cbn. exact IH.
Qed.

Lemma atk_wrong_ok (r : res unit) : atk_wrong r = Ok tt <-> r = Ok tt.
Proof. destruct r as [[]|[]]; cbn; split; intros H; try discriminate; reflexivity. Qed.

Definition emap (ms : list (str * xt)) : list (str * dtype) := map (fun p => (fst p, erase (snd p))) ms.
Lemma emap_names ms : map fst (emap ms) = map fst ms.
Proof. unfold emap. rewrite map_map. reflexivity. Qed.

(* ------------------------------------------------------------------ EnumType as first type *)
Definition enum_loop (d : dtype) : list (str * Z) -> res unit :=
  fix go (l : list (str * Z)) : res unit :=
    match l with [] => Ok tt | (n, z) :: r => dt_call d (PEnum n z) >>= fun _ => go r end.

Lemma compat_enum n ms b : compat (XEnum n ms) b = enum_loop (erase b) ms.
Proof. reflexivity. Qed.

Lemma enum_loop_ok d ms : enum_loop d ms = Ok tt <-> (forall n z, In (n, z) ms -> exists r, dt_call d (PEnum n z) = Ok r).
Proof.
  induction ms as [|[n z] ms IH]; cbn [enum_loop].
  - split; [intros _ n z []|reflexivity].
  - split.
    + intros H. apply bind_ok in H as (r & Hr & H). intros n' z' [E|Hin]; [injection E as <- <-; eauto|].
      apply (proj1 IH H), Hin.
    + intros H. destruct (H n z (or_introl eq_refl)) as [r Hr]. rewrite Hr. cbn [bind].
      apply IH. intros n' z' Hin. apply H. right. exact Hin.
Qed.

(* an EnumMember is accepted by __call__ only of an enum or a bool, and there validate is __call__ *)
Lemma call_enum_validate d n z r : dt_call d (PEnum n z) = Ok r -> dt_validate d (PEnum n z) PNone = Ok r.
Proof. destruct d; cbn; try discriminate; auto. Qed.

Lemma in_set_enum ms v : in_setb (TEnum ms) v = true -> exists n z, v = PEnum n z /\ In (n, z) ms.
Proof.
  destruct v; cbn; try discriminate. intros H. apply existsb_exists in H as ([n z] & Hin & H).
  apply andb_prop in H as [H1 H2]. cbn in H1, H2. apply str_eqb_eq in H1. apply Z.eqb_eq in H2. subst. eauto.
Qed.

(* EnumType against ANY type *)
Theorem compat_enum_sound n ms b : compat (XEnum n ms) b = Ok tt ->
  forall v, in_setb (erase (XEnum n ms)) v = true -> accepts b v.
Proof.
  rewrite compat_enum. intros HC v HV. cbn [erase] in HV. apply in_set_enum in HV as (n' & z & -> & Hin).
  destruct (proj1 (enum_loop_ok _ _) HC n' z Hin) as [r Hr]. exists r. apply call_enum_validate, Hr.
Qed.

(* exact: enum into enum passes iff every code of the first is a code of the second *)
Theorem compat_enum_enum_iff n ms n' ms' :
  compat (XEnum n ms) (XEnum n' ms') = Ok tt <-> (forall k z, In (k, z) ms -> enum_by_value z ms' <> None).
Proof.
  rewrite compat_enum, enum_loop_ok. cbn [erase dt_call]. split; intros H k z Hin.
  - destruct (H k z Hin) as [r Hr]. cbn in Hr. destruct (enum_by_value z ms'); [discriminate|discriminate Hr].
  - specialize (H k z Hin). cbn. destruct (enum_by_value z ms') as [[a c]|]; [eauto|contradiction].
Qed.

Definition is_number_type (b : xt) : bool :=
  match b with XFloat _ _ _ _ _ _ | XInt _ _ | XScaled _ _ _ _ _ _ _ => true | _ => false end.

(* conservative: an enum is never compatible with a number type (an EnumMember is not a number for __call__) *)
Theorem compat_enum_number_never n ms b : ms <> [] -> is_number_type b = true -> compat (XEnum n ms) b = Err EWrongType.
Proof.
  intros Hne Hb. rewrite compat_enum. destruct ms as [|[k z] ms]; [contradiction|].
  destruct b; try discriminate; reflexivity.
Qed.

(* ------------------------------------------------------------------ IntRange into EnumType *)
Lemma int_loop_sound d : forall fuel i mx, int_loop d fuel i mx = Ok tt ->
  forall z, (i <= z <= mx)%Z -> exists r, dt_call d (PInt z) = Ok r.
Proof.
  induction fuel as [|f IH]; intros i mx H z Hz; [discriminate|]. cbn [int_loop] in H.
  destruct (mx <? i)%Z eqn:C; [apply Z.ltb_lt in C; lia|].
  apply bind_ok in H as (r & Hr & H). destruct (Z.eq_dec z i) as [->|Hne]; [eauto|].
  apply (IH _ _ H). lia.
Qed.

Lemma int_loop_complete d : forall fuel i mx,
  (forall z, (i <= z <= mx)%Z -> exists r, dt_call d (PInt z) = Ok r) ->
  (Z.max 0 (mx - i + 1) < Z.of_nat fuel)%Z -> int_loop d fuel i mx = Ok tt.
Proof.
  induction fuel as [|f IH]; intros i mx H Hf; [lia|]. cbn [int_loop].
  destruct (mx <? i)%Z eqn:C; [reflexivity|]. apply Z.ltb_ge in C.
  destruct (H i ltac:(lia)) as [r Hr]. rewrite Hr. cbn [bind]. apply IH; [intros z Hz; apply H; lia|lia].
Qed.

Theorem compat_int_enum_sound mn mx n ms : compat (XInt mn mx) (XEnum n ms) = Ok tt ->
  forall v, in_setb (erase (XInt mn mx)) v = true -> accepts (XEnum n ms) v.
Proof.
  cbn [compat erase]. intros HC v HV. destruct v; try discriminate. cbn [in_setb] in HV.
  apply andb_prop in HV as [H1 H2]. apply Z.leb_le in H1, H2.
  destruct (int_loop_sound _ _ _ _ HC z ltac:(lia)) as [r Hr]. exists r. exact Hr.
Qed.

Lemma enum_by_value_In z ms p : enum_by_value z ms = Some p -> In z (map snd ms).
Proof.
  induction ms as [|[n v] ms IH]; cbn; [discriminate|]. destruct (Z.eqb z v) eqn:E.
  - apply Z.eqb_eq in E. subst. intros _. left. reflexivity.
  - intros H. right. apply IH, H.
Qed.

Definition zrange (mn : Z) (n : nat) : list Z := map (fun k => (mn + Z.of_nat k)%Z) (seq 0 n).
Lemma zrange_nodup mn n : NoDup (zrange mn n).
Proof.
  unfold zrange. apply FinFun.Injective_map_NoDup; [|apply seq_NoDup]. intros a b H. lia.
Qed.
Lemma zrange_in mn n z : In z (zrange mn n) <-> (mn <= z < mn + Z.of_nat n)%Z.
Proof.
  unfold zrange. rewrite in_map_iff. split.
  - intros (k & <- & Hk). apply in_seq in Hk. lia.
  - intros H. exists (Z.to_nat (z - mn)). split; [lia|]. apply in_seq. lia.
Qed.

(* a range all of whose values are codes of the enum has at most as many values as the enum has members *)
Lemma range_fits_enum mn mx ms : (forall z, (mn <= z <= mx)%Z -> enum_by_value z ms <> None) ->
  (mx - mn + 1 <= Z.of_nat (length ms))%Z.
Proof.
  intros H. destruct (Z_lt_le_dec mx mn) as [Hlt|Hle]; [lia|].
  pose (n := Z.to_nat (mx - mn + 1)).
  assert (L : length (zrange mn n) <= length (map snd ms)).
  { apply NoDup_incl_length; [apply zrange_nodup|]. intros z Hz. apply zrange_in in Hz.
    specialize (H z ltac:(lia)). destruct (enum_by_value z ms) as [p|] eqn:E; [|contradiction].
    eapply enum_by_value_In; eauto. }
  unfold zrange in L. rewrite !map_length, seq_length in L. lia.
Qed.

(* exact: an int range into an enum passes iff every value of the range is a code of the enum *)
Theorem compat_int_enum_iff mn mx n ms :
  compat (XInt mn mx) (XEnum n ms) = Ok tt <-> (forall z, (mn <= z <= mx)%Z -> enum_by_value z ms <> None).
Proof.
  cbn [compat erase]. split.
  - intros HC z Hz. destruct (int_loop_sound _ _ _ _ HC z Hz) as [r Hr]. cbn in Hr.
    destruct (enum_by_value z ms); [discriminate|discriminate Hr].
  - intros H. apply int_loop_complete.
    + intros z Hz. specialize (H z Hz). cbn. destruct (enum_by_value z ms) as [[a c]|]; [eauto|contradiction].
    + pose proof (range_fits_enum _ _ _ H). lia.
Qed.

(* ------------------------------------------------------------------ leaves of the same kind: a value of b's value
   set is accepted by b.validate *)
Lemma string_accepts a b u s : str_ok a b u s = true -> string_call a b u (PStr s) = Ok (PStr s).
Proof.
  unfold str_ok. intros H. apply andb_prop in H as [H H4]. apply andb_prop in H as [H H3]. apply andb_prop in H as [H1 H2].
  unfold string_call. apply Z.leb_le in H2, H3.
  replace (negb u && negb (forallb (fun c => N.ltb c 128) s)) with false
    by (destruct u, (forallb (fun c => N.ltb c 128) s); try reflexivity; discriminate).
  destruct (Z.of_nat (length s) <? a)%Z eqn:C1; [apply Z.ltb_lt in C1; lia|].
  destruct (b <? Z.of_nat (length s))%Z eqn:C2; [apply Z.ltb_lt in C2; lia|].
  apply negb_true_iff in H4. rewrite H4. reflexivity.
Qed.

Lemma blob_accepts a b s : ((a <=? Z.of_nat (length s))%Z && (Z.of_nat (length s) <=? b)%Z) = true ->
  blob_call a b (PBytes s) = Ok (PBytes s).
Proof.
  intros H. apply andb_prop in H as [H1 H2]. apply Z.leb_le in H1, H2. unfold blob_call.
  destruct (Z.of_nat (length s) <? a)%Z eqn:C1; [apply Z.ltb_lt in C1; lia|].
  destruct (b <? Z.of_nat (length s))%Z eqn:C2; [apply Z.ltb_lt in C2; lia|]. reflexivity.
Qed.

Theorem compat_int_int_sound amn amx bmn bmx : wfx (XInt bmn bmx) -> compat (XInt amn amx) (XInt bmn bmx) = Ok tt ->
  forall v, in_setb (erase (XInt amn amx)) v = true -> accepts (XInt bmn bmx) v.
Proof.
  intros Wb HC v HV. pose proof (compat_only_if_nested (XInt amn amx) (XInt bmn bmx) I HC) as [N1 N2].
  destruct (wfx_int_range _ _ Wb) as (R1 & R2 & _).
  cbn [erase in_setb] in HV. destruct v; try discriminate. apply andb_prop in HV as [H1 H2]. apply Z.leb_le in H1, H2.
  exists (PInt z). cbn [erase dt_validate]. apply int_validate_in_range; lia.
Qed.

Theorem compat_string_sound a1 a2 u t b1 b2 u' t' : compat (XString a1 a2 u t) (XString b1 b2 u' t') = Ok tt ->
  forall v, in_setb (erase (XString a1 a2 u t)) v = true -> accepts (XString b1 b2 u' t') v.
Proof.
  intros HC v HV. pose proof (compat_sound_same_kind (XString a1 a2 u t) (XString b1 b2 u' t') I HC v HV) as H.
  cbn [erase in_setb] in H. destruct v; try discriminate. exists (PStr s). cbn [erase dt_validate]. apply string_accepts, H.
Qed.

Theorem compat_blob_sound a1 a2 b1 b2 : compat (XBlob a1 a2) (XBlob b1 b2) = Ok tt ->
  forall v, in_setb (erase (XBlob a1 a2)) v = true -> accepts (XBlob b1 b2) v.
Proof.
  intros HC v HV. pose proof (compat_sound_same_kind (XBlob a1 a2) (XBlob b1 b2) I HC v HV) as H.
  cbn [erase in_setb] in H. destruct v; try discriminate. exists (PBytes b). cbn [erase dt_validate]. apply blob_accepts, H.
Qed.

(* ------------------------------------------------------------------ containers: validate succeeds when it succeeds
   on every element *)
Lemma map_res_all_ok (f : pyval -> res pyval) l : (forall x, In x l -> exists y, f x = Ok y) -> exists ys, map_res f l = Ok ys.
Proof.
  induction l as [|x l IH]; intros H; [eexists; reflexivity|].
  destruct (H x (or_introl eq_refl)) as [y Hy]. destruct IH as [ys Hys]; [intros; apply H; right; assumption|].
  exists (y :: ys). cbn [map_res]. rewrite Hy. cbn [bind]. fold (map_res f). rewrite Hys. reflexivity.
Qed.

Lemma array_accepts e b1 b2 l : (b1 <= Z.of_nat (length l) <= b2)%Z ->
  (forall x, In x l -> exists r, dt_validate e x PNone = Ok r) ->
  exists r, dt_validate (TArray e b1 b2) (PTuple l) PNone = Ok r.
Proof.
  intros [L1 L2] H. cbn [dt_validate]. unfold array_check. cbn [is_str_bytes_dict py_len py_iter py_truthy].
  destruct (Z.of_nat (length l) <? b1)%Z eqn:C1; [apply Z.ltb_lt in C1; lia|].
  destruct (b2 <? Z.of_nat (length l))%Z eqn:C2; [apply Z.ltb_lt in C2; lia|]. cbn [bind].
  destruct (map_res_all_ok (fun x => dt_validate e x PNone) l H) as [ys Hys]. rewrite Hys. eexists. reflexivity.
Qed.

Lemma mapd_res_all_ok (f : dtype -> pyval -> res pyval) : forall ds l,
  Forall2 (fun d x => exists r, f d x = Ok r) ds l -> exists ys, mapd_res f ds l = Ok ys.
Proof.
  induction 1 as [|d x ds l [r Hr] _ [ys Hys]]; [eexists; reflexivity|].
  exists (r :: ys). cbn [mapd_res]. rewrite Hr. cbn [bind]. fold (mapd_res f). rewrite Hys. reflexivity.
Qed.

Lemma F2_length {A B} (R : A -> B -> Prop) l l' : Forall2 R l l' -> length l = length l'.
Proof. induction 1; cbn; congruence. Qed.

Lemma tuple_accepts ds l : Forall2 (fun d x => exists r, dt_validate d x PNone = Ok r) ds l ->
  exists r, dt_validate (TTuple ds) (PTuple l) PNone = Ok r.
Proof.
  intros H. pose proof (F2_length _ _ _ H) as L. cbn [dt_validate]. unfold tuple_check. cbn [is_str_bytes_dict py_len py_iter].
  rewrite L, Z.eqb_refl. cbn [bind].
  destruct (mapd_res_all_ok (fun d x => dt_validate d x PNone) ds l H) as [ys Hys]. rewrite Hys. eexists. reflexivity.
Qed.

Lemma dict_set_keys {A} n k (y : A) acc : mem_str n (map fst (dict_set k y acc)) = str_eqb n k || mem_str n (map fst acc).
Proof.
  induction acc as [|[k' v'] acc IH]; cbn; [reflexivity|]. destruct (str_eqb k k') eqn:E; cbn.
  - apply str_eqb_eq in E. subst. destruct (str_eqb n k'); reflexivity.
  - rewrite IH. destruct (str_eqb n k), (str_eqb n k'); reflexivity.
Qed.

Lemma struct_fold_all_ok (f : dtype -> pyval -> res pyval) ms : forall kv acc,
  (forall k x, In (k, x) kv -> x <> PNone /\ exists y, member_res f k x ms = Ok y) ->
  exists out, struct_fold f true ms kv acc = Ok out /\
              forall n, mem_str n (map fst acc) = true \/ mem_str n (map fst kv) = true -> mem_str n (map fst out) = true.
Proof.
  induction kv as [|[k x] kv IH]; intros acc H.
  - exists acc. split; [reflexivity|]. intros n [Hn|Hn]; [exact Hn|discriminate].
  - destruct (H k x (or_introl eq_refl)) as [Hx [y Hy]].
    destruct (IH (dict_set k y acc)) as (out & Hout & Hkeys); [intros; apply H; right; assumption|].
    exists out. split.
    + cbn [struct_fold]. fold (struct_fold f true ms).
      assert (Hgen : member_res f k x ms >>= (fun y => struct_fold f true ms kv (dict_set k y acc)) = Ok out)
        by (rewrite Hy; exact Hout).
      destruct x; try exact Hgen. contradiction.
    + intros n Hn. apply Hkeys. rewrite dict_set_keys. cbn [map fst mem_str] in Hn.
      destruct Hn as [Hn|Hn]; [left; rewrite Hn; apply orb_true_r|].
      apply orb_prop in Hn as [Hn|Hn]; [left; rewrite Hn; reflexivity|right; exact Hn].
Qed.

Lemma missing_nil names opt present :
  (forall n, In n names -> mem_str n opt = true \/ mem_str n present = true) ->
  filter (fun n => negb (mem_str n opt)) (filter (fun n => negb (mem_str n present)) names) = [].
Proof.
  induction names as [|n names IH]; intros H; [reflexivity|]. cbn [filter].
  assert (IH' := IH (fun m Hm => H m (or_intror Hm))).
  destruct (H n (or_introl eq_refl)) as [Ho|Hp].
  - destruct (mem_str n present); cbn [negb]; [exact IH'|]. cbn [filter]. rewrite Ho. exact IH'.
  - rewrite Hp. exact IH'.
Qed.

Lemma struct_accepts MS opt c kv :
  (forall k x, In (k, x) kv -> x <> PNone /\ mem_str k (map fst MS) = true /\
                              exists y, member_res (fun d v => dt_validate d v PNone) k x MS = Ok y) ->
  (forall n, In n (map fst MS) -> mem_str n opt = true \/ mem_str n (map fst kv) = true) ->
  exists r, dt_validate (TStruct MS opt c) (PDict kv) PNone = Ok r.
Proof.
  intros H1 H2. cbn [dt_validate].
  assert (Hc : struct_check (map fst MS) opt c true (PDict kv) = Ok tt).
  { unfold struct_check. destruct (existsb _ kv) eqn:E.
    - apply existsb_exists in E as ([k x] & Hin & E). destruct (H1 k x Hin) as (_ & Hm & _). cbn in E. rewrite Hm in E. discriminate.
    - rewrite orb_true_r, (missing_nil _ _ _ H2). reflexivity. }
  rewrite Hc. cbn [bind py_truthy is_dict negb dict_items].
  destruct (struct_fold_all_ok (fun d v => dt_validate d v PNone) MS kv []) as (out & Hout & Hkeys).
  { intros k x Hin. destruct (H1 k x Hin) as (A & _ & B). split; assumption. }
  rewrite Hout. cbn [wrap_elem bind].
  assert (Hm : check_missing (map fst MS) opt true out = Ok tt).
  { unfold check_missing. rewrite missing_nil; [reflexivity|]. intros n Hn. destruct (H2 n Hn) as [Ho|Hp]; [left; exact Ho|].
    right. apply Hkeys. right. exact Hp. }
  rewrite Hm. eexists. reflexivity.
Qed.

Lemma entry_ok_emap ms k x : entry_ok in_setb (emap ms) (k, x) = true ->
  exists m, assoc_xt k ms = Some m /\ in_setb (erase m) x = true.
Proof.
  induction ms as [|[n m] ms IH]; [discriminate|].
  change (entry_ok in_setb (emap ((n, m) :: ms)) (k, x)) with
    (if str_eqb k n then in_setb (erase m) x else entry_ok in_setb (emap ms) (k, x)).
  cbn [assoc_xt]. destruct (str_eqb k n); [eauto|exact IH].
Qed.

Lemma member_res_emap (f : dtype -> pyval -> res pyval) k x ms m : assoc_xt k ms = Some m ->
  member_res f k x (emap ms) = f (erase m) x.
Proof.
  induction ms as [|[n m0] ms IH]; [discriminate|].
  change (member_res f k x (emap ((n, m0) :: ms))) with (if str_eqb k n then f (erase m0) x else member_res f k x (emap ms)).
  cbn [assoc_xt]. destruct (str_eqb k n); [intros H; injection H as ->; reflexivity|exact IH].
Qed.

(* ------------------------------------------------------------------ compat on containers, with named loops *)
Definition tuple_loop (c : xt -> xt -> res unit) : list xt -> list xt -> res unit :=
  fix go (l l' : list xt) : res unit :=
    match l, l' with
    | e :: r, e' :: r' => c e e' >>= fun _ => go r r'
    | _, _ => Ok tt
    end.
Definition struct_loop (c : xt -> xt -> res unit) (ms' : list (str * xt)) : list (str * xt) -> res unit :=
  fix go (l : list (str * xt)) : res unit :=
    match l with
    | [] => Ok tt
    | (k, m) :: r => match assoc_xt k ms' with None => Err EKey | Some m' => c m m' >>= fun _ => go r end
    end.

Lemma compat_tuple es es' : compat (XTuple es) (XTuple es') =
  if negb (Nat.eqb (length es) (length es')) then W else tuple_loop compat es es'.
Proof. reflexivity. Qed.

Lemma compat_struct ms opt c ms' opt' c' : compat (XStruct ms opt c) (XStruct ms' opt' c') =
  atk_wrong (struct_loop compat ms' ms >>= fun _ =>
             if existsb (fun k => negb (mem_str k opt') && negb (mem_str k (map fst ms))) (map fst ms') then W else Ok tt).
Proof. reflexivity. Qed.

Lemma struct_loop_ok c ms' : forall ms, struct_loop c ms' ms = Ok tt <->
  (forall k m, In (k, m) ms -> exists m', assoc_xt k ms' = Some m' /\ c m m' = Ok tt).
Proof.
  induction ms as [|[k m] ms IH]; cbn [struct_loop].
  - split; [intros _ k m []|reflexivity].
  - split.
    + intros H. destruct (assoc_xt k ms') as [m'|] eqn:E; [|discriminate].
      apply bind_ok in H as ([] & Hc & H). intros k0 m0 [Eq|Hin]; [injection Eq as <- <-; eauto|].
      apply (proj1 IH H), Hin.
    + intros H. destruct (H k m (or_introl eq_refl)) as (m' & -> & Hc). rewrite Hc. cbn [bind].
      apply IH. intros k0 m0 Hin. apply H. right. exact Hin.
Qed.

(* ------------------------------------------------------------------ the two boolean side conditions.
   [walk leaf a b] follows a and b through arrays, tuples (position by position) and structs (member of the same name)
   as long as both sides are containers of the same kind, and asks [leaf] at every other pair and at every pair of
   structs. *)
Definition walk_list (w : xt -> xt -> bool) : list xt -> list xt -> bool :=
  fix go (l l' : list xt) : bool :=
    match l, l' with
    | e :: r, e' :: r' => w e e' && go r r'
    | _, _ => true
    end.
Definition walk_members (w : xt -> xt -> bool) (ms' : list (str * xt)) : list (str * xt) -> bool :=
  fix go (l : list (str * xt)) : bool :=
    match l with
    | [] => true
    | (k, m) :: r => match assoc_xt k ms' with Some m' => w m m' | None => true end && go r
    end.

Fixpoint walk (leaf : xt -> xt -> bool) (a b : xt) {struct a} : bool :=
  match a with
  | XArray e _ _ => match b with XArray e' _ _ => walk leaf e e' | _ => leaf a b end
  | XTuple es =>
      match b with
      | XTuple es' =>
          (fix go (l l' : list xt) : bool :=
             match l, l' with
             | e :: r, e' :: r' => walk leaf e e' && go r r'
             | _, _ => true
             end) es es'
      | _ => leaf a b
      end
  | XStruct ms _ _ =>
      match b with
      | XStruct ms' _ _ =>
          leaf a b &&
          (fix go (l : list (str * xt)) : bool :=
             match l with
             | [] => true
             | (k, m) :: r => match assoc_xt k ms' with Some m' => walk leaf m m' | None => true end && go r
             end) ms
      | _ => leaf a b
      end
  | _ => leaf a b
  end.

Lemma walk_tuple leaf es es' : walk leaf (XTuple es) (XTuple es') = walk_list (walk leaf) es es'.
Proof. reflexivity. Qed.
Lemma walk_struct leaf ms o c ms' o' c' : walk leaf (XStruct ms o c) (XStruct ms' o' c') =
  leaf (XStruct ms o c) (XStruct ms' o' c') && walk_members (walk leaf) ms' ms.
Proof. reflexivity. Qed.

Lemma walk_members_In w ms' : forall ms k m m', walk_members w ms' ms = true -> In (k, m) ms -> assoc_xt k ms' = Some m' ->
  w m m' = true.
Proof.
  induction ms as [|[k0 m0] ms IH]; intros k m m' H Hin E; [destruct Hin|]. cbn [walk_members] in H.
  apply andb_prop in H as [H1 H2]. destruct Hin as [Eq|Hin].
  - injection Eq as -> ->. rewrite E in H1. exact H1.
  - eapply IH; eauto.
Qed.

(* the only side condition on the kinds: a ScaledInteger as FIRST type of a FloatRange or ScaledInteger must have its
   grid-rounded limits within its declared limits (its value set is bounded by the former, the verdict probes the latter) *)
Definition covered_leaf (a b : xt) : bool :=
  match a, b with
  | XScaled s mn mx _ _ _ _, (XFloat _ _ _ _ _ _ | XScaled _ _ _ _ _ _ _) => grid_inside s mn mx
  | _, _ => true
  end.
Definition covered : xt -> xt -> bool := walk covered_leaf.

(* the exact exception class of the finding struct-optional-into-mandatory: a member of the first struct that is
   optional there, and a mandatory member of the second *)
Definition struct_guard (ms : list (str * xt)) (opt : list str) (ms' : list (str * xt)) (opt' : list str) : bool :=
  forallb (fun k => negb (mem_str k opt && mem_str k (map fst ms') && negb (mem_str k opt'))) (map fst ms).

(* pairs of the open findings *)
Definition guard_leaf (a b : xt) : bool :=
  match a, b with
  | XFloat amn amx _ _ _ _, XFloat bmn bmx _ br _ _ => lo_guard bmn br amn && hi_guard bmx br amx
  | XInt amn amx, XFloat bmn bmx _ br _ _ => lo_guard bmn br (of_Z amn) && hi_guard bmx br (of_Z amx)
  | XScaled _ amn amx _ _ _ _, XFloat bmn bmx _ br _ _ => lo_guard bmn br amn && hi_guard bmx br amx
  | XStruct ms opt _, XStruct ms' opt' _ => struct_guard ms opt ms' opt'
  | _, _ => true
  end.
Definition finding_free : xt -> xt -> bool := walk guard_leaf.

(* ------------------------------------------------------------------ the umbrella theorem *)
Definition sound_at (a : xt) : Prop :=
  forall b, wfx a -> wfx b -> covered a b = true -> finding_free a b = true -> compat a b = Ok tt ->
  forall v, in_setb (erase a) v = true -> accepts b v.

Lemma wfx_tuple_Forall es : wfx (XTuple es) -> Forall wfx es.
Proof. intros [_ H]. apply all_Forall in H. exact H. Qed.
Lemma wfx_struct_Forall ms o c : wfx (XStruct ms o c) -> Forall (fun q => wfx (snd q)) ms.
Proof. intros (_ & _ & _ & H). apply (all_Forall (fun q : str * xt => wfx (snd q))) in H. exact H. Qed.

Lemma tuple_sound_aux : forall es es' l,
  Forall sound_at es -> Forall wfx es -> Forall wfx es' -> length es = length es' ->
  walk_list covered es es' = true -> walk_list finding_free es es' = true ->
  tuple_loop compat es es' = Ok tt -> all2 in_setb (map erase es) l = true ->
  Forall2 (fun d x => exists r, dt_validate d x PNone = Ok r) (map erase es') l.
Proof.
  induction es as [|e es IH]; intros es' l HS Wa Wb L C G HC HV.
  - destruct es'; [|discriminate]. destruct l; [constructor|discriminate].
  - destruct es' as [|e' es']; [discriminate|]. destruct l as [|x l]; [discriminate|].
    cbn [map all2] in HV. apply andb_prop in HV as [V1 V2].
    cbn [walk_list] in C, G. apply andb_prop in C as [C1 C2]. apply andb_prop in G as [G1 G2].
    cbn [tuple_loop] in HC. apply bind_ok in HC as ([] & HC1 & HC2).
    inversion HS; inversion Wa; inversion Wb; subst. cbn [map]. constructor.
    + exact (H1 e' H5 H9 C1 G1 HC1 x V1).
    + apply IH; try assumption. cbn in L. lia.
Qed.

Theorem compat_sound : forall a, sound_at a.
Proof.
  induction a using xt_ind2; intros b0 Wa Wb C G HC v HV.
  - (* FloatRange *)
    destruct b0; try discriminate HC; try discriminate C.
    + unfold finding_free in G. cbn [walk guard_leaf] in G. apply andb_prop in G as [G1 G2].
      exact (compat_float_float_sound _ _ _ _ _ _ _ _ _ _ _ _ Wa Wb G1 G2 HC v HV).
    + exact (compat_float_scaled_sound _ _ _ _ _ _ _ _ _ _ _ _ _ Wa Wb HC v HV).
  - (* IntRange *)
    destruct b0; try discriminate HC; try discriminate C.
    + unfold finding_free in G. cbn [walk guard_leaf] in G. apply andb_prop in G as [G1 G2]. exact (compat_int_float_sound _ _ _ _ _ _ _ _ Wa Wb G1 G2 HC v HV).
    + exact (compat_int_int_sound _ _ _ _ Wb HC v HV).
    + exact (compat_int_scaled_sound _ _ _ _ _ _ _ _ _ Wa Wb HC v HV).
    + destruct v; try discriminate HV. destruct (wfx_int_range _ _ Wa) as (_ & _ & Hle).
      eapply compat_int_bool_sound; eassumption.
    + eapply compat_int_enum_sound; eassumption.
  - (* ScaledInteger *)
    destruct b0; try discriminate HC.
    + unfold covered in C. cbn [walk covered_leaf] in C. unfold finding_free in G. cbn [walk guard_leaf] in G.
      apply andb_prop in G as [G1 G2]. exact (compat_scaled_float_sound _ _ _ _ _ _ _ _ _ _ _ _ _ Wa Wb C G1 G2 HC v HV).
    + unfold covered in C. cbn [walk covered_leaf] in C.
      exact (compat_scaled_scaled_sound _ _ _ _ _ _ _ _ _ _ _ _ _ _ Wa Wb C HC v HV).
  - (* BoolType *) eapply compat_bool_sound; eassumption.
  - (* EnumType *) eapply compat_enum_sound; eassumption.
  - (* StringType *) destruct b0; try discriminate HC. eapply compat_string_sound; eassumption.
  - (* BLOBType *) destruct b0; try discriminate HC. eapply compat_blob_sound; eassumption.
  - (* ArrayOf *)
    destruct b0 as [| | | | | | |e' b1 b2| |]; try discriminate HC.
    cbn [compat] in HC. destruct ((a0 <? b1)%Z || (b2 <? b)%Z) eqn:E; [discriminate|].
    apply orb_false_elim in E as [E1 E2]. apply Z.ltb_ge in E1, E2. apply (proj1 (attr_wrong_ok _)) in HC.
    destruct Wa as (Wa & _). destruct Wb as (Wb & _).
    cbn [erase in_setb] in HV. destruct v; try discriminate. apply andb_prop in HV as [HV V3]. apply andb_prop in HV as [V1 V2].
    apply Z.leb_le in V1, V2. unfold accepts. cbn [erase]. apply array_accepts; [lia|].
    intros x Hx. rewrite forallb_forall in V3. exact (IHa e' Wa Wb C G HC x (V3 x Hx)).
  - (* TupleOf *)
    destruct b0 as [| | | | | | | |es'|]; try discriminate HC.
    rewrite compat_tuple in HC. destruct (Nat.eqb (length es) (length es')) eqn:L; [|discriminate]. cbn [negb] in HC.
    apply Nat.eqb_eq in L. unfold covered in C. unfold finding_free in G. rewrite walk_tuple in C, G.
    cbn [erase] in HV. destruct v; try discriminate. rewrite in_setb_tuple in HV.
    unfold accepts. cbn [erase]. apply tuple_accepts.
    apply tuple_sound_aux with (es := es); try assumption; [apply wfx_tuple_Forall, Wa|apply wfx_tuple_Forall, Wb].
  - (* StructOf *)
    destruct b0 as [| | | | | | | | |ms' opt' c']; try discriminate HC.
    rewrite compat_struct in HC. apply (proj1 (atk_wrong_ok _)) in HC. apply bind_ok in HC as ([] & HL & HM).
    destruct (existsb _ (map fst ms')) eqn:EM; [discriminate|]. clear HM.
    unfold covered in C. unfold finding_free in G. rewrite walk_struct in C, G.
    apply andb_prop in C as [_ C]. apply andb_prop in G as [GS G]. cbn [guard_leaf] in GS.
    pose proof (wfx_struct_Forall _ _ _ Wa) as WA. pose proof (wfx_struct_Forall _ _ _ Wb) as WB.
    rewrite Forall_forall in H, WA, WB. pose proof (proj1 (struct_loop_ok _ _ _) HL) as HL'.
    cbn [erase] in HV. fold (emap ms) in HV. destruct v; try discriminate. rewrite in_setb_struct in HV.
    apply andb_prop in HV as [V1 V2]. rewrite forallb_forall in V1, V2. rewrite emap_names in V2.
    unfold accepts. cbn [erase]. fold (emap ms'). apply struct_accepts.
    + intros k x Hin. destruct (entry_ok_emap _ _ _ (V1 _ Hin)) as (m & Em & Vm).
      pose proof (assoc_xt_In _ _ _ Em) as Im. destruct (HL' k m Im) as (m' & Em' & Cm).
      split; [intros ->; rewrite in_setb_none in Vm; discriminate|].
      split; [rewrite emap_names; eapply assoc_xt_mem; eauto|].
      rewrite (member_res_emap _ _ _ _ _ Em').
      exact (H (k, m) Im m' (WA _ Im) (WB _ (assoc_xt_In _ _ _ Em')) (walk_members_In _ _ _ _ _ _ C Im Em')
               (walk_members_In _ _ _ _ _ _ G Im Em') Cm x Vm).
    + rewrite emap_names. intros n Hn.
      destruct (mem_str n opt') eqn:Eo; [left; reflexivity|right].
      (* n is mandatory in the second struct: the verdict says it is a member of the first ... *)
      assert (Hna : mem_str n (map fst ms) = true).
      { destruct (mem_str n (map fst ms)) eqn:E; [reflexivity|]. exfalso.
        assert (X : existsb (fun k => negb (mem_str k opt') && negb (mem_str k (map fst ms))) (map fst ms') = true).
        { apply existsb_exists. exists n. split; [exact Hn|]. rewrite Eo, E. reflexivity. }
        congruence. }
      (* ... the guard says it is mandatory there too, so every value of the first struct has it *)
      apply mem_str_In in Hna. unfold struct_guard in GS. rewrite forallb_forall in GS. specialize (GS n Hna).
      rewrite Eo, (proj2 (mem_str_In n (map fst ms')) Hn) in GS. cbn in GS. rewrite !andb_true_r in GS. apply negb_true_iff in GS.
      specialize (V2 n Hna). rewrite GS in V2. exact V2.
Qed.

(* ------------------------------------------------------------------ completeness: the supported pairings pass when
   the value sets are nested.  [nested a b] is the limit-wise description of nesting for each supported pairing (for a
   struct: every member of a is a member of b with nested types, every mandatory member of b is a member of a -
   which is what the code tests and is implied by "mandatory in a"). *)
Definition nested_list (n : xt -> xt -> Prop) : list xt -> list xt -> Prop :=
  fix go (l l' : list xt) : Prop :=
    match l, l' with
    | [], [] => True
    | e :: r, e' :: r' => n e e' /\ go r r'
    | _, _ => False
    end.
Definition nested_members (n : xt -> xt -> Prop) (ms' : list (str * xt)) : list (str * xt) -> Prop :=
  fix go (l : list (str * xt)) : Prop :=
    match l with
    | [] => True
    | (k, m) :: r => match assoc_xt k ms' with Some m' => n m m' | None => False end /\ go r
    end.

Fixpoint nested (a b : xt) {struct a} : Prop :=
  match a with
  | XFloat a1 a2 _ _ _ _ =>
      match b with XFloat b1 b2 _ _ _ _ => fle b1 a1 = true /\ fle a2 b2 = true | _ => False end
  | XInt a1 a2 =>
      match b with
      | XInt b1 b2 => (b1 <= a1 /\ a2 <= b2)%Z
      | XFloat b1 b2 _ _ _ _ => fle b1 (of_Z a1) = true /\ fle (of_Z a2) b2 = true
      | XBool => (0 <= a1 /\ a2 <= 1)%Z
      | XEnum _ ms => forall z, (a1 <= z <= a2)%Z -> enum_by_value z ms <> None
      | _ => False
      end
  | XScaled _ _ _ _ _ _ _ => False
  | XBool => accepts b (PBool false) /\ accepts b (PBool true)
  | XEnum _ ms =>
      match b with
      | XEnum _ ms' => forall k z, In (k, z) ms -> enum_by_value z ms' <> None
      | XBool => forall k z, In (k, z) ms -> z = 0%Z \/ z = 1%Z
      | _ => False
      end
  | XString a1 a2 u _ =>
      match b with XString b1 b2 u' _ => (b1 <= a1 /\ a2 <= b2)%Z /\ (u = true -> u' = true) | _ => False end
  | XBlob a1 a2 => match b with XBlob b1 b2 => (b1 <= a1 /\ a2 <= b2)%Z | _ => False end
  | XArray e a1 a2 => match b with XArray e' b1 b2 => nested e e' /\ (b1 <= a1 /\ a2 <= b2)%Z | _ => False end
  | XTuple es =>
      match b with
      | XTuple es' =>
          (fix go (l l' : list xt) : Prop :=
             match l, l' with
             | [], [] => True
             | e :: r, e' :: r' => nested e e' /\ go r r'
             | _, _ => False
             end) es es'
      | _ => False
      end
  | XStruct ms _ _ =>
      match b with
      | XStruct ms' opt' _ =>
          (fix go (l : list (str * xt)) : Prop :=
             match l with
             | [] => True
             | (k, m) :: r => match assoc_xt k ms' with Some m' => nested m m' | None => False end /\ go r
             end) ms /\
          (forall k, In k (map fst ms') -> mem_str k opt' = false -> mem_str k (map fst ms) = true)
      | _ => False
      end
  end.

Lemma nested_tuple es es' : nested (XTuple es) (XTuple es') = nested_list nested es es'.
Proof. reflexivity. Qed.
Lemma nested_struct ms o c ms' o' c' : nested (XStruct ms o c) (XStruct ms' o' c') =
  (nested_members nested ms' ms /\ (forall k, In k (map fst ms') -> mem_str k o' = false -> mem_str k (map fst ms) = true)).
Proof. reflexivity. Qed.

Definition complete_at (a : xt) : Prop := forall b, wfx a -> wfx b -> nested a b -> compat a b = Ok tt.

Lemma tuple_complete_aux : forall es es', Forall complete_at es -> Forall wfx es -> Forall wfx es' ->
  nested_list nested es es' -> length es = length es' /\ tuple_loop compat es es' = Ok tt.
Proof.
  induction es as [|e es IH]; intros es' HP Wa Wb N; destruct es' as [|e' es']; try contradiction.
  - split; reflexivity.
  - destruct N as [N1 N2]. inversion HP; inversion Wa; inversion Wb; subst.
    destruct (IH es' H2 H6 H10 N2) as [L T]. split; [cbn; congruence|].
    cbn [tuple_loop]. rewrite (H1 e' H5 H9 N1). cbn [bind]. exact T.
Qed.

Theorem compat_complete : forall a, complete_at a.
Proof.
  induction a using xt_ind2; intros b0 Wa Wb N.
  - destruct b0; try contradiction. destruct N as [N1 N2]. apply compat_float_float_complete; assumption.
  - destruct b0; try contradiction.
    + destruct N as [N1 N2]. apply compat_int_float_complete; assumption.
    + apply compat_if_nested; assumption.
    + destruct (wfx_int_range _ _ Wa) as (_ & _ & Hle). apply (compat_int_bool_iff mn mx Hle). exact N.
    + apply compat_int_enum_iff. exact N.
  - contradiction.
  - destruct N as [N1 N2]. apply compat_bool_complete; assumption.
  - destruct b0; try contradiction.
    + rewrite compat_enum. apply enum_loop_ok. intros k z Hin. destruct (N k z Hin) as [-> | ->]; eexists; reflexivity.
    + apply compat_enum_enum_iff. exact N.
  - destruct b0; try contradiction. apply compat_if_nested; assumption.
  - destruct b0; try contradiction. apply compat_if_nested; assumption.
  - destruct b0 as [| | | | | | |e' b1 b2| |]; try contradiction. destruct N as [Ne [N1 N2]].
    destruct Wa as (Wa & _). destruct Wb as (Wb & _). cbn [compat].
    destruct (a0 <? b1)%Z eqn:C1; [apply Z.ltb_lt in C1; lia|].
    destruct (b2 <? b)%Z eqn:C2; [apply Z.ltb_lt in C2; lia|]. cbn [orb].
    rewrite (IHa e' Wa Wb Ne). reflexivity.
  - destruct b0 as [| | | | | | | |es'|]; try contradiction. rewrite nested_tuple in N.
    destruct (tuple_complete_aux es es' H (wfx_tuple_Forall _ Wa) (wfx_tuple_Forall _ Wb) N) as [L T].
    rewrite compat_tuple. rewrite L, Nat.eqb_refl. exact T.
  - destruct b0 as [| | | | | | | | |ms' opt' c']; try contradiction. rewrite nested_struct in N. destruct N as [NM NO].
    pose proof (wfx_struct_Forall _ _ _ Wa) as WA. pose proof (wfx_struct_Forall _ _ _ Wb) as WB.
    rewrite Forall_forall in WB.
    rewrite compat_struct.
    assert (HL : struct_loop compat ms' ms = Ok tt).
    { clear NO Wa. induction ms as [|[k m] ms IH]; [reflexivity|].
      destruct NM as [N1 N2]. inversion H; inversion WA; subst. cbn [struct_loop].
      destruct (assoc_xt k ms') as [m'|] eqn:E; [|contradiction].
      cbn [snd] in *. rewrite (H2 m' H6 (WB _ (assoc_xt_In _ _ _ E)) N1). cbn [bind]. apply IH; assumption. }
    rewrite HL. cbn [bind].
    destruct (existsb _ (map fst ms')) eqn:E; [|reflexivity]. exfalso.
    apply existsb_exists in E as (k & Hk & E). apply andb_prop in E as [E1 E2].
    apply negb_true_iff in E1, E2. rewrite (NO k Hk E1) in E2. discriminate.
Qed.
