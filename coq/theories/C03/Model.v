(* C03 - executable model of the descriptive side of frappy/datatypes.py:
     export_datatype / get_info / exportProperties   -> xt_export
     DATATYPES + get_datatype (must-ignore policy)    -> get_dt / get_datatype   (driven by the facts of FV.Gen.C03)
     copy() with its per-class overrides              -> xt_copy
     compatible() branch by branch                    -> compat
   The validation behaviour of a described type is the C01 model applied to [erase x].  No proofs here. *)
From Coq Require Import String Ascii.
From Coq Require Import ZArith NArith Bool List.
Import ListNotations.
Require Import FV.Base.Util FV.Base.F64 FV.Base.PyVal FV.C01.Model FV.Gen.C03.

(* ------------------------------------------------------------------ described datatypes *)
Inductive xt :=
| XFloat (mn mx absres relres : f64) (unit fmt : str)
| XInt (mn mx : Z)
| XScaled (scale mn mx absres relres : f64) (unit fmt : str)
| XBool
| XEnum (name : str) (members : list (str * Z))
| XString (minc maxc : Z) (utf8 : bool) (text : bool)          (* text: the TextType subclass *)
| XBlob (minb maxb : Z)
| XArray (elem : xt) (minlen maxlen : Z)
| XTuple (elems : list xt)
| XStruct (members : list (str * xt)) (optional : list str) (client : bool).

Fixpoint erase (x : xt) : dtype :=
  match x with
  | XFloat mn mx a r _ _ => TFloat mn mx a r
  | XInt mn mx => TInt mn mx
  | XScaled s mn mx _ _ _ _ => TScaled s mn mx
  | XBool => TBool
  | XEnum _ ms => TEnum ms
  | XString a b u _ => TString a b u
  | XBlob a b => TBlob a b
  | XArray e a b => TArray (erase e) a b
  | XTuple es => TTuple (map erase es)
  | XStruct ms opt c => TStruct (map (fun p => (fst p, erase (snd p))) ms) opt c
  end.

(* ------------------------------------------------------------------ keys and constants *)
Fixpoint s2l (s : String.string) : str :=
  match s with
  | String.EmptyString => []
  | String.String a r => Ascii.N_of_ascii a :: s2l r
  end.
Notation "$ s" := (s2l s%string) (at level 1, only parsing).

Definition UNL : Z := 18446744073709551616.                     (* UNLIMITED = 1 << 64 *)
Definition DEF_MIN : Z := (-16777216)%Z.
Definition DEF_MAX : Z := 16777216%Z.
Definition dblmin : f64 := fmk 1 (-1022).                       (* sys.float_info.min *)
Definition rel0 : f64 := fmk (fst float_relres_default) (snd float_relres_default).
Definition fmt0 : str := $"%g".

(* the datatypes of the datatype properties (frappy validates every property value with them) *)
Definition pv_float (v : pyval) := float_validate (fopp fmaxval) fmaxval fzero rel0 v.     (* FloatRange() *)
Definition pv_float0 (v : pyval) := float_validate fzero fmaxval fzero rel0 v.              (* FloatRange(0) *)
Definition pv_scale (v : pyval) := float_validate dblmin fmaxval fzero rel0 v.              (* FloatRange(float_info.min) *)
Definition pv_intU (v : pyval) := int_validate (- UNL) UNL v.                                (* IntRange(-UNLIMITED, UNLIMITED) *)
Definition pv_int0 (v : pyval) := int_validate 0 DEF_MAX v.                                  (* IntRange(0) *)
Definition pv_int0U (v : pyval) := int_validate 0 UNL v.                                     (* IntRange(0, UNLIMITED) *)
Definition pv_unit (v : pyval) := string_call 0 UNL true v.                                  (* StringType(isUTF8=True) *)
Definition pv_fmt (v : pyval) := string_call 0 UNL false v.                                  (* StringType() *)

Definition W {A} : res A := Err EWrongType.
Definition as_f (r : res pyval) : res f64 := match r with Ok (PFloat f) => Ok f | _ => W end.
Definition as_z (r : res pyval) : res Z := match r with Ok (PInt z) => Ok z | _ => W end.
Definition as_s (r : res pyval) : res str := match r with Ok (PStr s) => Ok s | _ => W end.
Definition as_b (r : res pyval) : res bool := match r with Ok (PBool b) => Ok b | _ => W end.

(* ------------------------------------------------------------------ export_datatype *)
Definition ent (c : bool) (k : str) (v : pyval) : list (str * pyval) := if c then [(k, v)] else [].
Definition has_pct (s : str) : bool := existsb (N.eqb 37) s.

(* python != on two floats *)
Definition fne (a b : f64) : bool := negb (feq a b).

(* set(optional) != set(members) *)
Definition incl_str (a b : list str) : bool := forallb (fun k => mem_str k b) a.
Definition set_neq (a b : list str) : bool := negb (incl_str a b && incl_str b a).

(* int(round(x / scale)) *)
Definition scaled_int (x scale : f64) : res Z := py_round (fdiv x scale).

(* keys are emitted in code point order (the harness sorts the keys of the implementation's dicts likewise; the
   entries of a "members" object keep their order) *)
Fixpoint xt_export (x : xt) : res pyval :=
  match x with
  | XFloat mn mx a r u f =>
      Ok (PDict (ent (fne a fzero) $"absolute_resolution" (PFloat a) ++ ent (negb (str_eqb f fmt0)) $"fmtstr" (PStr f) ++
                 ent (fne mx fmaxval) $"max" (PFloat mx) ++ ent (fne mn (fopp fmaxval)) $"min" (PFloat mn) ++
                 ent (fne r rel0) $"relative_resolution" (PFloat r) ++ [($"type", PStr $"double")] ++
                 ent (negb (str_eqb u [])) $"unit" (PStr u)))
  | XInt mn mx => Ok (PDict [($"max", PInt mx); ($"min", PInt mn); ($"type", PStr $"int")])
  | XScaled s mn mx a r u f =>
      scaled_int mn s >>= fun kmin => scaled_int mx s >>= fun kmax =>
      Ok (PDict ((if feq a fzero then [($"absolute_resolution", PInt 0)]
                  else if feq a s then [] else [($"absolute_resolution", PFloat a)]) ++
                 ent (negb (str_eqb f fmt0)) $"fmtstr" (PStr f) ++
                 [($"max", PInt kmax); ($"min", PInt kmin)] ++
                 ent (fne r rel0) $"relative_resolution" (PFloat r) ++
                 [($"scale", PFloat s); ($"type", PStr $"scaled")] ++              (* mandatory: always exported *)
                 ent (negb (str_eqb u [])) $"unit" (PStr u)))
  | XBool => Ok (PDict [($"type", PStr $"bool")])
  | XEnum _ ms => Ok (PDict [($"members", PDict (map (fun p => (fst p, PInt (snd p))) ms)); ($"type", PStr $"enum")])
  | XString a b u _ =>
      Ok (PDict (ent u $"isUTF8" (PBool u) ++ ent (negb (Z.eqb b UNL)) $"maxchars" (PInt b) ++
                 ent (negb (Z.eqb a 0)) $"minchars" (PInt a) ++ [($"type", PStr $"string")]))
  | XBlob a b =>
      Ok (PDict ([($"maxbytes", PInt b)] ++ ent (negb (Z.eqb a 0)) $"minbytes" (PInt a) ++    (* maxbytes is mandatory *)
                 [($"type", PStr $"blob")]))
  | XArray e a b =>
      xt_export e >>= fun je =>
      Ok (PDict [($"maxlen", PInt b); ($"members", je); ($"minlen", PInt a); ($"type", PStr $"array")])
  | XTuple es =>
      (fix go (l : list xt) : res (list pyval) :=
         match l with
         | [] => Ok []
         | e :: r => xt_export e >>= fun j => go r >>= fun js => Ok (j :: js)
         end) es >>= fun js =>
      Ok (PDict [($"members", PList js); ($"type", PStr $"tuple")])
  | XStruct ms opt _ =>
      (fix go (l : list (str * xt)) : res (list (str * pyval)) :=
         match l with
         | [] => Ok []
         | (n, e) :: r => xt_export e >>= fun j => go r >>= fun js => Ok ((n, j) :: js)
         end) ms >>= fun js =>
      Ok (PDict ([($"members", PDict js)] ++
                 ent (set_neq opt (map fst ms)) $"optional" (PList (map PStr opt)) ++ [($"type", PStr $"struct")]))
  end.

(* ------------------------------------------------------------------ get_datatype *)
(* the source text of a lambda default, as a value *)
Definition dflt_val (s : str) : pyval :=
  if str_eqb s $"None" then PNone
  else if str_eqb s $"0" then PInt 0
  else if str_eqb s $"False" then PBool false
  else if str_eqb s $"''" then PStr []
  else POpaque.

Definition tbl_params (ty : str) : option (list (str * option str)) := assoc_str ty dt_params.
Definition tbl_kwds (ty : str) : bool := match assoc_str ty dt_has_kwds with Some b => b | None => false end.
Definition tbl_forwarded (ty kw : str) : bool :=
  match assoc_str ty dt_forwards with
  | Some l => match assoc_str kw l with Some p => str_eqb p kw | None => false end
  | None => false
  end.
Definition tbl_floatargs (ty : str) : bool := match assoc_str ty dt_uses_floatargs with Some b => b | None => false end.

(* kw=<CONST> if <p> is None else <p> *)
Definition const_val (c : str) : pyval := if str_eqb c $"UNLIMITED" then PInt UNL else POpaque.
Definition tbl_none_default (ty kw : str) (v : pyval) : pyval :=
  match v with
  | PNone =>
      match assoc_str ty dt_none_defaults with
      | Some l => match assoc_str kw l with Some c => const_val c | None => v end
      | None => v
      end
  | _ => v
  end.

(* what a constructor does with a keyword it is not given *)
Definition ctor_default (k : str) : pyval :=
  if str_eqb k $"minbytes" || str_eqb k $"minlen" || str_eqb k $"minchars" then PInt 0
  else if str_eqb k $"isUTF8" then PBool false else PNone.

(* binding of the call DATATYPES[base](pname=pname, **kwargs): a required parameter must be present, unknown keys
   need **kwds, a key "pname" collides with the explicit keyword *)
Definition binds_ok (ty : str) (kw : list (str * pyval)) : bool :=
  match tbl_params ty with
  | None => false
  | Some ps =>
      negb (mem_str $"pname" (map fst kw)) &&
      forallb (fun p : str * option str =>
                 match snd p with Some _ => true | None => mem_str (fst p) (map fst kw) end) ps &&
      (tbl_kwds ty || forallb (fun k => mem_str k (map fst ps)) (map fst kw))
  end.

(* value of lambda parameter k as seen by the constructor keyword of the same name *)
Definition arg (ty k : str) (kw : list (str * pyval)) : pyval :=
  let bound := match assoc_str k kw with
               | Some v => v
               | None => match tbl_params ty with
                         | Some ps => match assoc_str k ps with Some (Some d) => dflt_val d | _ => PNone end
                         | None => PNone
                         end
               end in
  if tbl_forwarded ty k then tbl_none_default ty k bound else ctor_default k.
(* value of lambda parameter k where it is used positionally / inside an expression *)
Definition arg_pos (ty k : str) (kw : list (str * pyval)) : pyval :=
  match assoc_str k kw with
  | Some v => v
  | None => match tbl_params ty with
            | Some ps => match assoc_str k ps with Some (Some d) => dflt_val d | _ => PNone end
            | None => PNone
            end
  end.
(* floatargs(kwds)[k] *)
Definition farg (ty k : str) (kw : list (str * pyval)) : option pyval :=
  if tbl_floatargs ty && mem_str k floatargs_keys then
    match tbl_params ty with
    | Some ps => if mem_str k (map fst ps) then None else assoc_str k kw
    | None => None
    end
  else None.

Definition opt_or (o : option pyval) (d : pyval) : pyval := match o with Some v => v | None => d end.

(* python numbers *)
Definition is_intlike (v : pyval) : option Z :=
  match v with PBool b => Some (if b then 1 else 0)%Z | PInt z => Some z | _ => None end.
Definition py_float (v : pyval) : res f64 :=
  match v with
  | PBool b => Ok (if b then of_Z 1 else fzero)
  | PInt z => match float_of_Z z with Some f => Ok f | None => Err EOverflow end
  | PFloat f => Ok f
  | _ => Err EType
  end.
Definition py_mul (a b : pyval) : res pyval :=
  match is_intlike a, is_intlike b with
  | Some x, Some y => Ok (PInt (x * y))
  | _, _ => py_float a >>= fun x => py_float b >>= fun y => Ok (PFloat (fmul x y))
  end.

Definition mk_int (mn mx : pyval) : res xt :=
  as_z (pv_intU (match mn with PNone => PInt DEF_MIN | v => v end)) >>= fun a =>
  as_z (pv_intU (match mx with PNone => PInt DEF_MAX | v => v end)) >>= fun b =>
  if (b <? a)%Z then W else Ok (XInt a b).

Definition float_props (unit fmt absr relr : option pyval) (absd : f64) : res (f64 * f64 * str * str) :=
  as_s (match unit with Some v => pv_unit v | None => Ok (PStr []) end) >>= fun u =>
  as_s (match fmt with Some v => pv_fmt v | None => Ok (PStr fmt0) end) >>= fun f =>
  as_f (match absr with Some v => pv_float0 v | None => Ok (PFloat absd) end) >>= fun a =>
  as_f (match relr with Some v => pv_float0 v | None => Ok (PFloat rel0) end) >>= fun r =>
  if has_pct f then Ok (a, r, u, f) else W.

Definition mk_float (mn mx : pyval) (unit fmt absr relr : option pyval) : res xt :=
  as_f (pv_float (match mn with PNone => PFloat (fopp fmaxval) | v => v end)) >>= fun a =>
  as_f (pv_float (match mx with PNone => PFloat fmaxval | v => v end)) >>= fun b =>
  float_props unit fmt absr relr fzero >>= fun '(ar, rr, u, f) =>
  if flt b a then W else Ok (XFloat a b ar rr u f).

(* ScaledInteger(scale=scale, min=min*scale, max=max*scale, absolute_resolution=..., unit/fmtstr/relative_resolution) *)
Definition mk_scaled (scale mn mx : pyval) (unit fmt absr relr : option pyval) : res xt :=
  py_mul mn scale >>= fun mns => py_mul mx scale >>= fun mxs =>
  py_float scale >>= fun sf =>
  py_float mns >>= fun mnf => py_float mxs >>= fun mxf =>
  as_f (pv_scale (PFloat sf)) >>= fun s =>
  as_f (pv_float (PFloat mnf)) >>= fun a =>
  as_f (pv_float (PFloat mxf)) >>= fun b =>
  (* absolute_resolution=None means: the scale *)
  float_props unit fmt (Some (match absr with Some PNone | None => PFloat sf | Some v => v end)) relr fzero
    >>= fun '(ar, rr, u, f) =>
  if flt b a then W else Ok (XScaled s a b ar rr u f).

(* <limit> = <other> or <dflt> when None *)
Definition none_or (v other : pyval) (dflt : Z) : pyval :=
  match v with PNone => if py_truthy other then other else PInt dflt | _ => v end.

Definition mk_blob (minb maxb : pyval) : res xt :=
  as_z (pv_int0 minb) >>= fun a => as_z (pv_int0 (none_or maxb minb 255)) >>= fun b =>
  if (b <? a)%Z then W else Ok (XBlob a b).

Definition mk_string (minc maxc utf8 : pyval) : res xt :=
  as_z (pv_int0U minc) >>= fun a => as_z (pv_int0U (none_or maxc minc UNL)) >>= fun b =>
  as_b (bool_call utf8) >>= fun u =>
  if (b <? a)%Z then W else Ok (XString a b u false).

Definition mk_array (e : option xt) (minlen maxlen : pyval) : res xt :=
  match e with
  | None => W
  | Some e =>
      as_z (pv_int0 minlen) >>= fun a => as_z (pv_int0 (none_or maxlen minlen 100)) >>= fun b =>
      if (b <? a)%Z then W else Ok (XArray e a b)
  end.

(* Enum(name, members): values must be integral, names and values unique, members sorted by value *)
Definition enum_value (v : pyval) : res Z :=
  match v with
  | PBool b => Ok (if b then 1 else 0)%Z
  | PInt z => Ok z
  | PFloat f => if fis_finite f then match cmp_Z_f (ftrunc f) f with Some Eq => Ok (ftrunc f) | _ => W end else W
  | _ => W
  end.
Fixpoint enum_insert (n : str) (z : Z) (l : list (str * Z)) : list (str * Z) :=
  match l with
  | [] => [(n, z)]
  | (n', z') :: r => if (z <? z')%Z then (n, z) :: l else (n', z') :: enum_insert n z r
  end.
Fixpoint enum_add (kv : list (str * pyval)) (acc : list (str * Z)) : res (list (str * Z)) :=
  match kv with
  | [] => Ok acc
  | (n, v) :: r =>
      enum_value v >>= fun z =>
      if existsb (fun p : str * Z => Z.eqb (snd p) z || str_eqb (fst p) n) acc then W
      else enum_add r (enum_insert n z acc)
  end.
Definition mk_enum (pname : str) (members : pyval) : res xt :=
  match members with
  | PDict kv => enum_add kv [] >>= fun ms => match ms with [] => W | _ => Ok (XEnum pname ms) end
  | _ => W
  end.

Definition mk_struct (ms : list (str * xt)) (optional : pyval) (client : bool) : res xt :=
  match ms with
  | [] => W
  | _ =>
      match optional with
      | PNone => Ok (XStruct ms (map fst ms) client)
      | _ =>
          match py_iter optional with
          | None => W
          | Some items =>
              (fix go (l : list pyval) : res (list str) :=
                 match l with
                 | [] => Ok []
                 | PStr s :: r => if mem_str s (map fst ms) then go r >>= fun ss => Ok (s :: ss) else W
                 | _ :: _ => W
                 end) items >>= fun opt => Ok (XStruct ms opt client)
          end
      end
  end.

Definition remove_key (k : str) (kv : list (str * pyval)) : list (str * pyval) :=
  filter (fun p => negb (str_eqb (fst p) k)) kv.

(* the non-recursive part of get_datatype: None | [base, kwargs] | {type: base, **kwargs} *)
Definition split_json (j : pyval) : res (option (pyval * list (str * pyval))) :=
  match j with
  | PNone => if get_datatype_none_passthrough then Ok None else W
  | PList [b; PDict kw] => if get_datatype_old_syntax then Ok (Some (b, kw)) else W
  | PDict kv =>
      match assoc_str $"type" kv with
      | Some b => Ok (Some (b, remove_key $"type" kv))
      | None => W
      end
  | _ => W
  end.

(* table entries without nested descriptions *)
Definition leaf_of (pname ty : str) (kw : list (str * pyval)) : option (res xt) :=
  if str_eqb ty $"bool" then Some (Ok XBool)
  else if str_eqb ty $"int" then Some (mk_int (arg ty $"min" kw) (arg ty $"max" kw))
  else if str_eqb ty $"double" then
    Some (mk_float (arg ty $"min" kw) (arg ty $"max" kw) (farg ty $"unit" kw) (farg ty $"fmtstr" kw)
                   (farg ty $"absolute_resolution" kw) (farg ty $"relative_resolution" kw))
  else if str_eqb ty $"scaled" then
    Some (mk_scaled (arg ty $"scale" kw) (arg_pos ty $"min" kw) (arg_pos ty $"max" kw) (farg ty $"unit" kw)
                    (farg ty $"fmtstr" kw) (farg ty $"absolute_resolution" kw) (farg ty $"relative_resolution" kw))
  else if str_eqb ty $"blob" then Some (mk_blob (arg ty $"minbytes" kw) (arg ty $"maxbytes" kw))
  else if str_eqb ty $"string" then
    Some (mk_string (arg ty $"minchars" kw) (arg ty $"maxchars" kw) (arg ty $"isUTF8" kw))
  else if str_eqb ty $"enum" then Some (mk_enum pname (arg ty $"members" kw))
  else None.

Definition some_xt (r : res xt) : res (option xt) := r >>= fun x => Ok (Some x).
Definition need_xt (o : option xt) : res xt := match o with Some e => Ok e | None => W end.

(* get_datatype(json, pname): Ok None for None, every failure is WrongTypeError.  fuel bounds the nesting depth. *)
Fixpoint get_dt (fuel : nat) (pname : str) (j : pyval) {struct fuel} : res (option xt) :=
  match fuel with
  | O => Err EOther
  | S fuel' =>
      split_json j >>= fun o =>
      match o with
      | None => Ok None
      | Some (PStr ty, kw) =>
          if negb (binds_ok ty kw) then W
          else
            match leaf_of pname ty kw with
            | Some r => some_xt r
            | None =>
                if str_eqb ty $"array" then
                  get_dt fuel' pname (arg_pos ty $"members" kw) >>= fun e =>
                  some_xt (mk_array e (arg ty $"minlen" kw) (arg ty $"maxlen" kw))
                else if str_eqb ty $"tuple" then
                  match arg_pos ty $"members" kw with
                  | PList (j1 :: js) =>
                      (fix go (l : list pyval) : res (list xt) :=
                         match l with
                         | [] => Ok []
                         | t :: r =>
                             get_dt fuel' pname t >>= need_xt >>= fun e => go r >>= fun es => Ok (e :: es)
                         end) (j1 :: js) >>= fun es => Ok (Some (XTuple es))
                  | _ => W
                  end
                else if str_eqb ty $"struct" then
                  match arg_pos ty $"members" kw with
                  | PDict mkv =>
                      (fix go (l : list (str * pyval)) : res (list (str * xt)) :=
                         match l with
                         | [] => Ok []
                         | (n, t) :: r =>
                             get_dt fuel' pname t >>= need_xt >>= fun e => go r >>= fun es => Ok ((n, e) :: es)
                         end) mkv >>= fun ms =>
                      some_xt (mk_struct ms (arg_pos ty $"optional" kw) get_datatype_sets_client)
                  | _ => W
                  end
                else if str_eqb ty $"command" || str_eqb ty $"limit" then Err EOther   (* outside the model *)
                else W
            end
      | Some (_, _) => W
      end
  end.

Definition FUEL : nat := 12.

Definition get_datatype (pname : str) (j : pyval) : res (option xt) :=
  match get_dt FUEL pname j with
  | Ok o => Ok o
  | Err EOther => Err EOther                                    (* outside the model *)
  | Err _ => Err EWrongType
  end.

(* ------------------------------------------------------------------ copy *)
Definition rebuild (fuel : nat) (x : xt) : res xt :=
  xt_export x >>= fun j =>
  match get_dt fuel [] j with
  | Ok (Some x') => Ok x'
  | Ok None => Err EOther
  | Err EOther => Err EOther
  | Err _ => Err EWrongType
  end.

Fixpoint xt_copy (x : xt) : res xt :=
  match x with
  | XEnum n ms => Ok (XEnum n ms)                                (* EnumType(self._enum) *)
  | XString a b u true => Ok (XString 0 b false true)            (* TextType(self.maxchars) *)
  | XArray e a b => xt_copy e >>= fun e' => Ok (XArray e' a b)
  | XTuple es =>
      (fix go (l : list xt) : res (list xt) :=
         match l with
         | [] => Ok []
         | e :: r => xt_copy e >>= fun e' => go r >>= fun es' => Ok (e' :: es')
         end) es >>= fun es' => Ok (XTuple es')
  | XStruct ms opt _ =>
      (fix go (l : list (str * xt)) : res (list (str * xt)) :=
         match l with
         | [] => Ok []
         | (n, e) :: r => xt_copy e >>= fun e' => go r >>= fun es' => Ok ((n, e') :: es')
         end) ms >>= fun ms' => Ok (XStruct ms' opt false)
  | _ => rebuild 2 x                                             (* DataType.copy: get_datatype(self.export_datatype()) *)
  end.

(* ------------------------------------------------------------------ compatible *)
Definition vboth (b : xt) (v1 v2 : pyval) : res unit :=
  dt_validate (erase b) v1 PNone >>= fun _ => dt_validate (erase b) v2 PNone >>= fun _ => Ok tt.

(* for i in range(min, max + 1): other(i) -- stops at the first value that is not accepted *)
Fixpoint int_loop (d : dtype) (fuel : nat) (i mx : Z) : res unit :=
  match fuel with
  | O => Err EOther                                             (* not reached: see the fuel at the call sites *)
  | S f => if (mx <? i)%Z then Ok tt else dt_call d (PInt i) >>= fun _ => int_loop d f (i + 1) mx
  end.

(* except AttributeError / (AttributeError, TypeError, KeyError): raise WrongTypeError *)
Definition attr_wrong {A} (r : res A) : res A := match r with Err EAttr => Err EWrongType | _ => r end.
Definition atk_wrong {A} (r : res A) : res A :=
  match r with Err EAttr | Err EType | Err EKey => Err EWrongType | _ => r end.

Fixpoint assoc_xt (k : str) (l : list (str * xt)) : option xt :=
  match l with [] => None | (k', v) :: r => if str_eqb k k' then Some v else assoc_xt k r end.

Fixpoint compat (a b : xt) {struct a} : res unit :=
  match a with
  | XFloat mn mx _ _ _ _ =>
      match b with XFloat _ _ _ _ _ _ | XScaled _ _ _ _ _ _ _ => vboth b (PFloat mn) (PFloat mx) | _ => W end
  | XScaled _ mn mx _ _ _ _ =>
      match b with XFloat _ _ _ _ _ _ | XScaled _ _ _ _ _ _ _ => vboth b (PFloat mn) (PFloat mx) | _ => W end
  | XInt mn mx =>
      match b with
      | XInt _ _ | XFloat _ _ _ _ _ _ | XScaled _ _ _ _ _ _ _ => vboth b (PInt mn) (PInt mx)
      (* an enum of n members accepts at most n consecutive ints, a bool at most 2: one more round ends the loop *)
      | XEnum _ ms => int_loop (erase b) (S (S (length ms))) mn mx
      | XBool => int_loop (erase b) 4 mn mx
      | _ => W
      end
  | XEnum _ ms =>
      (fix go (l : list (str * Z)) : res unit :=
         match l with
         | [] => Ok tt
         | (n, z) :: r => dt_call (erase b) (PEnum n z) >>= fun _ => go r
         end) ms
  | XBool => vboth b (PBool false) (PBool true)                  (* other.validate(False); other.validate(True) *)
  | XBlob a1 a2 =>
      match b with
      | XBlob b1 b2 => if (a1 <? b1)%Z || (b2 <? a2)%Z then Err ERange else Ok tt
      | _ => W
      end
  | XString a1 a2 u _ =>
      match b with
      | XString b1 b2 u' _ => if (a1 <? b1)%Z || (b2 <? a2)%Z || (u && negb u') then Err ERange else Ok tt
      | _ => W
      end
  | XArray e a1 a2 =>
      match b with
      | XArray e' b1 b2 => if (a1 <? b1)%Z || (b2 <? a2)%Z then Err ERange else attr_wrong (compat e e')
      | _ => W
      end
  | XTuple es =>
      match b with
      | XTuple es' =>
          if negb (Nat.eqb (length es) (length es')) then W
          else (fix go (l : list xt) (l' : list xt) : res unit :=
                  match l, l' with
                  | e :: r, e' :: r' => compat e e' >>= fun _ => go r r'
                  | _, _ => Ok tt
                  end) es es'
      | _ => W
      end
  | XStruct ms _ _ =>
      match b with
      | XStruct ms' opt' _ =>
          atk_wrong
            ((fix go (l : list (str * xt)) : res unit :=
                match l with
                | [] => Ok tt
                | (k, m) :: r =>
                    match assoc_xt k ms' with
                    | None => Err EKey
                    | Some m' => compat m m' >>= fun _ => go r
                    end
                end) ms >>= fun _ =>
             if existsb (fun k => negb (mem_str k opt') && negb (mem_str k (map fst ms))) (map fst ms')
             then W else Ok tt)
      | _ => W
      end
  end.
