(* C08 - executable model of the subscription machinery of frappy/protocol/dispatcher.py (Dispatcher.handle_request,
   handle_activate, handle_deactivate, handle__ident, subscribe, unsubscribe, reset_connection, remove_connection,
   broadcast_event, announce_update, make_update), the announce path of frappy/modulebase.py (Module.announceUpdate)
   and the connection life cycle of frappy/protocol/interface/handler.py (RequestHandler.setup / handle / finish),
   as a transition system whose atomic steps end exactly at the synchronisation points of the implementation:
   acquire of Dispatcher._lock, acquire of Module.updateLock (by driver threads in announceUpdate and, since the
   repair c1c8ab8, by handle_activate around the initial updates of each module), entry of make_update, send_reply
   of a connection, receive of a connection, and - inside Dispatcher.subscribe and Dispatcher.reset_connection - every
   set operation on a connection (set.add after the lookup-or-create of the per-event set; one set.discard per event
   and one for the generic subscribers): a disconnect (remove_connection runs WITHOUT the dispatcher lock) can be
   interleaved between the two steps of a subscribe of another connection.  The subscription table is a list of set
   objects with an identity, so that `the set a thread looked up` and `the set bound to the event now` are different
   notions.  No proofs in this file. *)
From Coq Require Import List Arith Bool.
Import ListNotations.

Definition conn := nat.
Definition pid := (nat * nat)%type.             (* (module index, parameter index) *)
Definition pid_eqb (a b : pid) : bool := Nat.eqb (fst a) (fst b) && Nat.eqb (snd a) (snd b).

(* the node: per module its export flag and the export flags of its parameters (in the order of accessibles) *)
Definition node := list (bool * list bool).

Inductive scope := SG | SM (m : nat) | SP (m p : nat).      (* whole node, one module, one parameter *)

Definition scope_eqb (a b : scope) : bool :=
  match a, b with
  | SG, SG => true
  | SM m, SM m' => Nat.eqb m m'
  | SP m p, SP m' p' => Nat.eqb m m' && Nat.eqb p p'
  | _, _ => false
  end.

(* the scope contains the parameter *)
Definition covers (sc : scope) (p : pid) : bool :=
  match sc with
  | SG => true
  | SM m => Nat.eqb m (fst p)
  | SP m q => Nat.eqb m (fst p) && Nat.eqb q (snd p)
  end.

Inductive req :=
| RAct (sc : scope) (data : bool)        (* activate [specifier] [data]; data must be absent *)
| RDeact (sc : scope) (data : bool)
| RIdn                                   (* the identification request *)
| RBogus                                 (* a request line whose action is '_ident': not a SECoP action *)
| RClose.                                (* the peer closes the connection: receive raises ConnectionClose *)

Inductive reply :=
| RpActive (sc : scope)
| RpInactive
| RpIdent
| RpErr (e : nat).                       (* 0 ProtocolError, 1 NoSuchModule, 2 NoSuchParameter *)

(* per-connection log: what the connection object was handed (updates, replies), plus two markers written by
   the connection itself: a request was received, the connection was closed and removed *)
Inductive entry :=
| EReq (r : req)
| EUpd (p : pid) (v : nat)
| ERep (r : reply)
| EClose.

(* a set object of Dispatcher._subscriptions: identity, the event name it was created for, members *)
Record sentry := { e_id : nat; e_key : scope; e_mem : list conn }.
(* what reset_connection discards the connection from: a per-event set (by identity: the loop runs over
   list(self._subscriptions.items()), a snapshot of the (event, set object) pairs), the generic subscribers *)
Inductive target := TSet (id : nat) | TActv.
(* where reset_connection was called from *)
Inductive dcont := KIdent | KClose.

(* program counters; the name says at which synchronisation point the thread is parked *)
Inductive cpc :=
| CStart
| CRecv                                             (* receive *)
| CAcq (r : req)                                    (* acquire of Dispatcher._lock in handle_request *)
| CAcqU (sc : scope) (groups : list (nat * list nat))
    (* handle_activate: acquire of the updateLock of the module of the head group; a group = (module, indices of
       the parameters whose initial update is still to be sent) *)
| CBuild (sc : scope) (m : nat) (todo : list nat) (groups : list (nat * list nat))
    (* updateLock of m held: entry of make_update for parameter (m, head of todo) *)
| CSendU (sc : scope) (m : nat) (i : nat) (v : nat) (todo : list nat) (groups : list (nat * list nat))
    (* updateLock of m held: send_reply of the built update of (m, i) *)
| CSendR (r : reply)                                (* handle: send_reply of the reply, lock released *)
| CAdd (sc : scope) (id : nat)
    (* subscribe: setdefault returned the set object id (looked up or created); parked before set.add *)
| CDisc (ts : list target) (k : dcont)
    (* reset_connection: parked before the discard from the head of ts *)
| CDone.

Inductive upc :=
| UStart
| UAcq                                              (* acquire of updateLock for the head of the script *)
| UBuild (p : pid)                                  (* value stored, lock held: entry of make_update *)
| USend (p : pid) (v : nat) (all pend : list conn)  (* broadcast_event: send_reply to a member of pend *)
| UDone.

Record cthread := { c_pc : cpc; c_script : list req }.
Record uthread := { u_pc : upc; u_script : list (pid * nat) }.

Inductive tid := TC (c : conn) | TU (u : nat).

Record state := {
  actv : list conn;                  (* Dispatcher._active_connections *)
  tbl : list sentry;                 (* Dispatcher._subscriptions: the set objects bound to an event, in dict order *)
  nsets : nat;                       (* number of set objects created so far = identity of the next one *)
  cache : pid -> nat;                (* Parameter.value of every parameter *)
  logs : conn -> list entry;
  dlock : option conn;               (* owner of Dispatcher._lock *)
  ulock : nat -> option tid;         (* owner of Module.updateLock, per module *)
  cth : conn -> cthread;
  uth : nat -> uthread;
  bcasts : list (pid * nat * list conn);   (* ghost: completed broadcasts (parameter, value, selected listeners) *)
}.

Definition set_actv s v := {| actv := v; tbl := tbl s; nsets := nsets s; cache := cache s; logs := logs s; dlock := dlock s; ulock := ulock s; cth := cth s; uth := uth s; bcasts := bcasts s |}.
Definition set_tbl s v := {| actv := actv s; tbl := v; nsets := nsets s; cache := cache s; logs := logs s; dlock := dlock s; ulock := ulock s; cth := cth s; uth := uth s; bcasts := bcasts s |}.
Definition set_nsets s v := {| actv := actv s; tbl := tbl s; nsets := v; cache := cache s; logs := logs s; dlock := dlock s; ulock := ulock s; cth := cth s; uth := uth s; bcasts := bcasts s |}.
Definition set_cache s v := {| actv := actv s; tbl := tbl s; nsets := nsets s; cache := v; logs := logs s; dlock := dlock s; ulock := ulock s; cth := cth s; uth := uth s; bcasts := bcasts s |}.
Definition set_logs s v := {| actv := actv s; tbl := tbl s; nsets := nsets s; cache := cache s; logs := v; dlock := dlock s; ulock := ulock s; cth := cth s; uth := uth s; bcasts := bcasts s |}.
Definition set_dlock s v := {| actv := actv s; tbl := tbl s; nsets := nsets s; cache := cache s; logs := logs s; dlock := v; ulock := ulock s; cth := cth s; uth := uth s; bcasts := bcasts s |}.
Definition set_ulock s v := {| actv := actv s; tbl := tbl s; nsets := nsets s; cache := cache s; logs := logs s; dlock := dlock s; ulock := v; cth := cth s; uth := uth s; bcasts := bcasts s |}.
Definition set_cth s v := {| actv := actv s; tbl := tbl s; nsets := nsets s; cache := cache s; logs := logs s; dlock := dlock s; ulock := ulock s; cth := v; uth := uth s; bcasts := bcasts s |}.
Definition set_uth s v := {| actv := actv s; tbl := tbl s; nsets := nsets s; cache := cache s; logs := logs s; dlock := dlock s; ulock := ulock s; cth := cth s; uth := v; bcasts := bcasts s |}.
Definition set_bcasts s v := {| actv := actv s; tbl := tbl s; nsets := nsets s; cache := cache s; logs := logs s; dlock := dlock s; ulock := ulock s; cth := cth s; uth := uth s; bcasts := v |}.

(* function update *)
Definition upd {A} (f : nat -> A) (k : nat) (v : A) : nat -> A := fun k' => if Nat.eqb k' k then v else f k'.
Definition updp {A} (f : pid -> A) (k : pid) (v : A) : pid -> A := fun k' => if pid_eqb k' k then v else f k'.

Definition log_add (s : state) (c : conn) (e : entry) : state := set_logs s (upd (logs s) c (logs s c ++ [e])).
Definition set_cpc (s : state) (c : conn) (pc : cpc) : state :=
  set_cth s (upd (cth s) c {| c_pc := pc; c_script := c_script (cth s c) |}).
Definition set_upc (s : state) (u : nat) (pc : upc) : state :=
  set_uth s (upd (uth s) u {| u_pc := pc; u_script := u_script (uth s u) |}).

Fixpoint memc (c : conn) (l : list conn) : bool :=
  match l with [] => false | x :: r => Nat.eqb c x || memc c r end.
Fixpoint mems (c : conn) (sc : scope) (l : list (conn * scope)) : bool :=
  match l with [] => false | (x, y) :: r => (Nat.eqb c x && scope_eqb sc y) || mems c sc r end.
Definition remc (c : conn) (l : list conn) : list conn := filter (fun x => negb (Nat.eqb x c)) l.

(* ---- the node *)
Definition mod_exported (nd : node) (m : nat) : bool :=
  match nth_error nd m with Some (e, _) => e | None => false end.
Definition exported (nd : node) (p : pid) : bool :=
  match nth_error nd (fst p) with Some (e, ps) => e && nth (snd p) ps false | None => false end.
(* the exported parameters of a module in the order of its accessibles (empty for a module that is not exported) *)
Definition pidx_of (nd : node) (m : nat) : list nat :=
  match nth_error nd m with
  | Some (true, ps) => filter (fun i => nth i ps false) (seq 0 (length ps))
  | _ => []
  end.
Definition params_of (nd : node) (m : nat) : list pid := map (fun i => (m, i)) (pidx_of nd m).
(* what handle_activate sends, in its order: one group per module of secnode.export (whole node), the module, or
   the single parameter; every group is sent under the updateLock of its module *)
Definition snapshot_groups (nd : node) (sc : scope) : list (nat * list nat) :=
  match sc with
  | SG => map (fun m => (m, pidx_of nd m)) (filter (mod_exported nd) (seq 0 (length nd)))
  | SM m => [(m, pidx_of nd m)]
  | SP m p => [(m, [p])]
  end.
Definition group_pids (g : nat * list nat) : list pid := map (fun i => (fst g, i)) (snd g).
Definition flat (groups : list (nat * list nat)) : list pid := flat_map group_pids groups.
Definition snapshot_list (nd : node) (sc : scope) : list pid := flat (snapshot_groups nd sc).

(* the checks of handle_activate on the specifier: None = accepted, Some e = error reply *)
Definition act_error (nd : node) (sc : scope) : option nat :=
  match sc with
  | SG => None
  | SM m => if mod_exported nd m then None else Some 1
  | SP m p => if mod_exported nd m then (if exported nd (m, p) then None else Some 2) else Some 1
  end.

(* ---- subscription tables *)
(* the table as the set of (connection, event name) pairs: membership in the set object bound to the event *)
Definition subs (s : state) : list (conn * scope) :=
  flat_map (fun e => map (fun c => (c, e_key e)) (e_mem e)) (tbl s).
(* broadcast_event: subscribers of module:param, subscribers of module, generic subscribers *)
Definition listens (s : state) (c : conn) (p : pid) : bool :=
  mems c (SP (fst p) (snd p)) (subs s) || mems c (SM (fst p)) (subs s) || memc c (actv s).
Definition covering (p : pid) (e : conn * scope) : bool :=
  match snd e with SG => false | SM m => Nat.eqb m (fst p) | SP m q => Nat.eqb m (fst p) && Nat.eqb q (snd p) end.
Definition listeners (s : state) (p : pid) : list conn :=
  nodup Nat.eq_dec (map fst (filter (covering p) (subs s)) ++ actv s).

(* _active_connections.add (activate of the whole node; one step with the checks of handle_activate) *)
Definition register_g (s : state) (c : conn) : state := set_actv s (c :: actv s).

(* subscribe, first half: self._subscriptions.setdefault(eventname, set()) - the set object bound to the event, a new
   empty one (bound at the end of the dict) if there is none *)
Definition find_key (sc : scope) (t : list sentry) : option nat :=
  match find (fun e => scope_eqb (e_key e) sc) t with Some e => Some (e_id e) | None => None end.
Definition lookup (s : state) (sc : scope) : state * nat :=
  match find_key sc (tbl s) with
  | Some id => (s, id)
  | None => (set_nsets (set_tbl s (tbl s ++ [{| e_id := nsets s; e_key := sc; e_mem := [] |}])) (S (nsets s)), nsets s)
  end.
(* subscribe, second half: .add(conn) on the set object that was returned - whether it is still bound or not *)
Definition mem_add (c : conn) (id : nat) (e : sentry) : sentry :=
  if Nat.eqb (e_id e) id then {| e_id := e_id e; e_key := e_key e; e_mem := c :: e_mem e |} else e.
Definition add_to (s : state) (c : conn) (id : nat) : state := set_tbl s (map (mem_add c id) (tbl s)).

(* conns.discard(conn) on a set object *)
Definition mem_del (c : conn) (id : nat) (e : sentry) : sentry :=
  if Nat.eqb (e_id e) id then {| e_id := e_id e; e_key := e_key e; e_mem := remc c (e_mem e) |} else e.
Definition discard_from (s : state) (c : conn) (id : nat) : state := set_tbl s (map (mem_del c id) (tbl s)).
(* NOT what the code does (del = false everywhere except in Refuted.v): the variant of reset_connection that removes
   the entry of a set that has become empty (`if not conns: del self._subscriptions[evt]`) *)
Definition is_nil {A} (l : list A) : bool := match l with [] => true | _ => false end.
Definition drop_empty (s : state) (id : nat) : state :=
  set_tbl s (filter (fun e => negb (Nat.eqb (e_id e) id && is_nil (e_mem e))) (tbl s)).
Definition discard_target (del : bool) (s : state) (c : conn) (t : target) : state :=
  match t with
  | TActv => set_actv s (remc c (actv s))
  | TSet id => let s1 := discard_from s c id in if del then drop_empty s1 id else s1
  end.
(* reset_connection: list(self._subscriptions.items()) is taken when the loop starts; self._active_connections last *)
Definition reset_targets (s : state) : list target := map (fun e => TSet (e_id e)) (tbl s) ++ [TActv].

(* which events unsubscribe(conn, eventname) discards from: the event itself and, for a module, everything below it *)
Definition key_hits (sc key : scope) : bool :=
  match sc, key with
  | SM m, SM m' => Nat.eqb m m'
  | SM m, SP m' _ => Nat.eqb m m'
  | SP m p, SP m' p' => Nat.eqb m m' && Nat.eqb p p'
  | _, _ => false
  end.
Definition mem_unsub (c : conn) (sc : scope) (e : sentry) : sentry :=
  if key_hits sc (e_key e) then {| e_id := e_id e; e_key := e_key e; e_mem := remc c (e_mem e) |} else e.
(* handle_deactivate (one step: it runs under the dispatcher lock and contains no switch point) *)
Definition unregister (s : state) (c : conn) (sc : scope) : state :=
  match sc with
  | SG => set_actv s (remc c (actv s))
  | _ => set_tbl s (map (mem_unsub c sc) (tbl s))
  end.

(* Dispatcher.unsubscribe(conn, eventname) transcribed statement by statement (what handle_deactivate calls for a
   specifier):
       if ':' not in eventname:                                  -- a module event
           for k, v in self._subscriptions.items():             -- ALWAYS: every entry of the table, whether or not the
               if k.startswith(f'{eventname}:'):                    bare event itself has an entry
                   v.discard(conn)
       if eventname in self._subscriptions:                      -- the entry of the event itself, if there is one
           self._subscriptions[eventname].discard(conn)             (keys of a dict are unique: at most one)
   `unregister` above is the same function (Unsubscribe.v: unregister_is_code). *)
Definition below (m : nat) (key : scope) : bool := match key with SP m' _ => Nat.eqb m m' | _ => false end.
Definition mem_remc (c : conn) (e : sentry) : sentry := {| e_id := e_id e; e_key := e_key e; e_mem := remc c (e_mem e) |}.
Definition discard_below (c : conn) (m : nat) (t : list sentry) : list sentry :=
  map (fun e => if below m (e_key e) then mem_remc c e else e) t.
Definition discard_event (c : conn) (sc : scope) (t : list sentry) : list sentry :=
  map (fun e => if scope_eqb (e_key e) sc then mem_remc c e else e) t.
Definition unsubscribe_code (s : state) (c : conn) (sc : scope) : state :=
  match sc with
  | SG => s                                                           (* not called without specifier *)
  | SM m => set_tbl s (discard_event c sc (discard_below c m (tbl s)))
  | SP _ _ => set_tbl s (discard_event c sc (tbl s))
  end.
(* NOT what the code does (only used in Refuted.v): the variant that returns early when the event has no entry in the
   table (`conns = self._subscriptions.get(eventname); if conns is None: return`), skipping the loop over the more
   specific events *)
Definition unsubscribe_early_return (s : state) (c : conn) (sc : scope) : state :=
  match find_key sc (tbl s) with
  | None => s
  | Some _ => unsubscribe_code s c sc
  end.

(* ---- one step of a connection thread *)
(* go on to the next module of the snapshot, or leave the handler (release Dispatcher._lock) with the reply *)
Definition enter_groups (s : state) (c : conn) (sc : scope) (groups : list (nat * list nat)) : state :=
  match groups with
  | [] => set_cpc (set_dlock s None) c (CSendR (RpActive sc))
  | _ => set_cpc s c (CAcqU sc groups)
  end.

Definition handle (nd : node) (s : state) (c : conn) (r : req) : state :=
  match r with
  | RIdn => set_cpc (set_dlock s (Some c)) c (CDisc (reset_targets s) KIdent)
  | RDeact sc data =>
      if data then set_cpc s c (CSendR (RpErr 0))
      else set_cpc (unregister s c sc) c (CSendR RpInactive)
  | RAct sc data =>
      if data then set_cpc s c (CSendR (RpErr 0))
      else match act_error nd sc with
           | Some e => set_cpc s c (CSendR (RpErr e))
           | None =>
               match sc with
               | SG => enter_groups (set_dlock (register_g s c) (Some c)) c sc (snapshot_groups nd sc)
               | _ => set_cpc (set_dlock (fst (lookup s sc)) (Some c)) c (CAdd sc (snd (lookup s sc)))
               end
           end
  | RBogus => set_cpc s c (CSendR (RpErr 0))      (* since bfc762a: ProtocolError, the identification handler is not reached *)
  | RClose => set_cpc s c (CSendR (RpErr 0))      (* not a request: never reaches the dispatcher *)
  end.

(* reset_connection has returned: to handle__ident (reply, the dispatcher lock is released) or to finish *)
Definition after_reset (s : state) (c : conn) (k : dcont) : state :=
  match k with
  | KIdent => set_cpc (set_dlock s None) c (CSendR RpIdent)
  | KClose => set_cpc s c CDone
  end.

Definition pop_script (s : state) (c : conn) (pc : cpc) : state :=
  set_cth s (upd (cth s) c {| c_pc := pc; c_script := tl (c_script (cth s c)) |}).

Definition cenabled (s : state) (c : conn) : bool :=
  match c_pc (cth s c) with
  | CRecv => match c_script (cth s c) with [] => false | _ => true end
  | CAcq _ => match dlock s with None => true | Some _ => false end
  | CAcqU _ ((m, _) :: _) => match ulock s m with None => true | Some _ => false end
  | CAcqU _ [] => false
  | CDisc [] _ => false
  | CDone => false
  | _ => true
  end.

(* del = false: the code; del = true: the refuted variant of reset_connection (Refuted.v) *)
Definition cstep_conn_gen (del : bool) (nd : node) (s : state) (c : conn) : state :=
  if negb (cenabled s c) then s else
  match c_pc (cth s c) with
  | CStart => set_cpc s c CRecv
  | CRecv =>
      match c_script (cth s c) with
      | [] => s
      | RClose :: _ => pop_script (log_add s c EClose) c (CDisc (reset_targets s) KClose)
      | r :: _ => pop_script (log_add s c (EReq r)) c (CAcq r)
      end
  | CAcq r => handle nd s c r
  | CAcqU sc [] => s
  | CAcqU sc ((m, []) :: rest) => enter_groups s c sc rest          (* nothing to send: acquired and released *)
  | CAcqU sc ((m, todo) :: rest) => set_cpc (set_ulock s (upd (ulock s) m (Some (TC c)))) c (CBuild sc m todo rest)
  | CBuild sc m [] rest => s
  | CBuild sc m (i :: todo) rest => set_cpc s c (CSendU sc m i (cache s (m, i)) todo rest)
  | CSendU sc m i v [] rest =>
      let s1 := log_add s c (EUpd (m, i) v) in enter_groups (set_ulock s1 (upd (ulock s1) m None)) c sc rest
  | CSendU sc m i v todo rest => set_cpc (log_add s c (EUpd (m, i) v)) c (CBuild sc m todo rest)
  | CSendR r => set_cpc (log_add s c (ERep r)) c CRecv
  | CAdd sc id => enter_groups (add_to s c id) c sc (snapshot_groups nd sc)
  | CDisc [] k => s
  | CDisc [t] k => after_reset (discard_target del s c t) c k
  | CDisc (t :: ts) k => set_cpc (discard_target del s c t) c (CDisc ts k)
  | CDone => s
  end.
Definition cstep_conn := cstep_conn_gen false.

(* ---- one step of a driver thread *)
Definition next_upd (s : state) (u : nat) : state :=
  match u_script (uth s u) with
  | [] => set_upc s u UDone
  | _ => set_upc s u UAcq
  end.
Definition release (s : state) (u : nat) (m : nat) : state := next_upd (set_ulock s (upd (ulock s) m None)) u.

Definition uenabled (s : state) (u : nat) (target : conn) : bool :=
  match u_pc (uth s u) with
  | UAcq => match u_script (uth s u) with
            | [] => false
            | (p, _) :: _ => match ulock s (fst p) with None => true | Some _ => false end
            end
  | USend _ _ _ pend => memc target pend
  | UDone => false
  | _ => true
  end.

Definition cstep_upd (nd : node) (s : state) (u : nat) (target : conn) : state :=
  if negb (uenabled s u target) then s else
  match u_pc (uth s u) with
  | UStart => next_upd s u
  | UAcq =>
      match u_script (uth s u) with
      | [] => s
      | (p, v) :: rest =>
          let s1 := set_cache s (updp (cache s) p v) in
          let s2 := set_uth s1 (upd (uth s1) u {| u_pc := UAcq; u_script := rest |}) in
          if exported nd p
          then set_upc (set_ulock s2 (upd (ulock s2) (fst p) (Some (TU u)))) u (UBuild p)
          else next_upd s2 u
      end
  | UBuild p =>
      match listeners s p with
      | [] => release s u (fst p)
      | l => set_upc s u (USend p (cache s p) l l)
      end
  | USend p v all pend =>
      let s1 := log_add s target (EUpd p v) in
      match remc target pend with
      | [] => release (set_bcasts s1 ((p, v, all) :: bcasts s1)) u (fst p)
      | pend' => set_upc s1 u (USend p v all pend')
      end
  | UDone => s
  end.

(* a step: (thread, target connection of a broadcast send; ignored by all other steps) *)
Definition cstep_gen (del : bool) (nd : node) (s : state) (st : tid * conn) : state :=
  match fst st with
  | TC c => cstep_conn_gen del nd s c
  | TU u => cstep_upd nd s u (snd st)
  end.
Definition cstep := cstep_gen false.

Definition init (cs : list (list req)) (us : list (list (pid * nat))) : state :=
  {| actv := []; tbl := []; nsets := 0; cache := fun _ => 0; logs := fun _ => []; dlock := None; ulock := fun _ => None;
     cth := fun c => {| c_pc := CStart; c_script := nth c cs [] |};
     uth := fun u => {| u_pc := UStart; u_script := nth u us [] |};
     bcasts := [] |}.

Definition run_from_gen (del : bool) (nd : node) (s : state) (sched : list (tid * conn)) : state :=
  fold_left (cstep_gen del nd) sched s.
Definition run_from (nd : node) (s : state) (sched : list (tid * conn)) : state := fold_left (cstep nd) sched s.
Definition run (nd : node) (cs : list (list req)) (us : list (list (pid * nat))) (sched : list (tid * conn)) : state :=
  run_from nd (init cs us) sched.
