(* C08 - executable model of the subscription machinery of frappy/protocol/dispatcher.py (Dispatcher.handle_request,
   handle_activate, handle_deactivate, handle__ident, subscribe, unsubscribe, reset_connection, remove_connection,
   broadcast_event, announce_update, make_update), the announce path of frappy/modulebase.py (Module.announceUpdate)
   and the connection life cycle of frappy/protocol/interface/handler.py (RequestHandler.setup / handle / finish),
   as a transition system whose atomic steps end exactly at the synchronisation points of the implementation:
   acquire of Dispatcher._lock, acquire of Module.updateLock (by driver threads in announceUpdate and, since the
   repair c1c8ab8, by handle_activate around the initial updates of each module), entry of make_update, send_reply
   of a connection, receive of a connection.  No proofs in this file. *)
From Coq Require Import List Arith Bool.
Import ListNotations.

Definition conn := nat.
Definition pid := (nat * nat)%type.             (* (module index, parameter index) *)
Definition pid_eqb (a b : pid) : bool := Nat.eqb (fst a) (fst b) && Nat.eqb (snd a) (snd b).

(* the node: per module its export flag and the export flags of its parameters (in the order of accessibles) *)
Definition node := list (bool * list bool).

Inductive scope := SG | SM (m : nat) | SP (m p : nat).      (* whole node, one module, one parameter *)

Definition scope_eqb (a b : scope) : bool :=
  match a, b with
  | SG, SG => true
  | SM m, SM m' => Nat.eqb m m'
  | SP m p, SP m' p' => Nat.eqb m m' && Nat.eqb p p'
  | _, _ => false
  end.

(* the scope contains the parameter *)
Definition covers (sc : scope) (p : pid) : bool :=
  match sc with
  | SG => true
  | SM m => Nat.eqb m (fst p)
  | SP m q => Nat.eqb m (fst p) && Nat.eqb q (snd p)
  end.

Inductive req :=
| RAct (sc : scope) (data : bool)        (* activate [specifier] [data]; data must be absent *)
| RDeact (sc : scope) (data : bool)
| RIdn                                   (* the identification request *)
| RBogus                                 (* a request line whose action is '_ident': not a SECoP action *)
| RClose.                                (* the peer closes the connection: receive raises ConnectionClose *)

Inductive reply :=
| RpActive (sc : scope)
| RpInactive
| RpIdent
| RpErr (e : nat).                       (* 0 ProtocolError, 1 NoSuchModule, 2 NoSuchParameter *)

(* per-connection log: what the connection object was handed (updates, replies), plus two markers written by
   the connection itself: a request was received, the connection was closed and removed *)
Inductive entry :=
| EReq (r : req)
| EUpd (p : pid) (v : nat)
| ERep (r : reply)
| EClose.

(* program counters; the name says at which synchronisation point the thread is parked *)
Inductive cpc :=
| CStart
| CRecv                                             (* receive *)
| CAcq (r : req)                                    (* acquire of Dispatcher._lock in handle_request *)
| CAcqU (sc : scope) (groups : list (nat * list nat))
    (* handle_activate: acquire of the updateLock of the module of the head group; a group = (module, indices of
       the parameters whose initial update is still to be sent) *)
| CBuild (sc : scope) (m : nat) (todo : list nat) (groups : list (nat * list nat))
    (* updateLock of m held: entry of make_update for parameter (m, head of todo) *)
| CSendU (sc : scope) (m : nat) (i : nat) (v : nat) (todo : list nat) (groups : list (nat * list nat))
    (* updateLock of m held: send_reply of the built update of (m, i) *)
| CSendR (r : reply)                                (* handle: send_reply of the reply, lock released *)
| CDone.

Inductive upc :=
| UStart
| UAcq                                              (* acquire of updateLock for the head of the script *)
| UBuild (p : pid)                                  (* value stored, lock held: entry of make_update *)
| USend (p : pid) (v : nat) (all pend : list conn)  (* broadcast_event: send_reply to a member of pend *)
| UDone.

Record cthread := { c_pc : cpc; c_script : list req }.
Record uthread := { u_pc : upc; u_script : list (pid * nat) }.

Inductive tid := TC (c : conn) | TU (u : nat).

Record state := {
  actv : list conn;                  (* Dispatcher._active_connections *)
  subs : list (conn * scope);        (* Dispatcher._subscriptions as a set of (connection, event name) *)
  cache : pid -> nat;                (* Parameter.value of every parameter *)
  logs : conn -> list entry;
  dlock : option conn;               (* owner of Dispatcher._lock *)
  ulock : nat -> option tid;         (* owner of Module.updateLock, per module *)
  cth : conn -> cthread;
  uth : nat -> uthread;
  bcasts : list (pid * nat * list conn);   (* ghost: completed broadcasts (parameter, value, selected listeners) *)
}.

Definition set_actv s v := {| actv := v; subs := subs s; cache := cache s; logs := logs s; dlock := dlock s; ulock := ulock s; cth := cth s; uth := uth s; bcasts := bcasts s |}.
Definition set_subs s v := {| actv := actv s; subs := v; cache := cache s; logs := logs s; dlock := dlock s; ulock := ulock s; cth := cth s; uth := uth s; bcasts := bcasts s |}.
Definition set_cache s v := {| actv := actv s; subs := subs s; cache := v; logs := logs s; dlock := dlock s; ulock := ulock s; cth := cth s; uth := uth s; bcasts := bcasts s |}.
Definition set_logs s v := {| actv := actv s; subs := subs s; cache := cache s; logs := v; dlock := dlock s; ulock := ulock s; cth := cth s; uth := uth s; bcasts := bcasts s |}.
Definition set_dlock s v := {| actv := actv s; subs := subs s; cache := cache s; logs := logs s; dlock := v; ulock := ulock s; cth := cth s; uth := uth s; bcasts := bcasts s |}.
Definition set_ulock s v := {| actv := actv s; subs := subs s; cache := cache s; logs := logs s; dlock := dlock s; ulock := v; cth := cth s; uth := uth s; bcasts := bcasts s |}.
Definition set_cth s v := {| actv := actv s; subs := subs s; cache := cache s; logs := logs s; dlock := dlock s; ulock := ulock s; cth := v; uth := uth s; bcasts := bcasts s |}.
Definition set_uth s v := {| actv := actv s; subs := subs s; cache := cache s; logs := logs s; dlock := dlock s; ulock := ulock s; cth := cth s; uth := v; bcasts := bcasts s |}.
Definition set_bcasts s v := {| actv := actv s; subs := subs s; cache := cache s; logs := logs s; dlock := dlock s; ulock := ulock s; cth := cth s; uth := uth s; bcasts := v |}.

(* function update *)
Definition upd {A} (f : nat -> A) (k : nat) (v : A) : nat -> A := fun k' => if Nat.eqb k' k then v else f k'.
Definition updp {A} (f : pid -> A) (k : pid) (v : A) : pid -> A := fun k' => if pid_eqb k' k then v else f k'.

Definition log_add (s : state) (c : conn) (e : entry) : state := set_logs s (upd (logs s) c (logs s c ++ [e])).
Definition set_cpc (s : state) (c : conn) (pc : cpc) : state :=
  set_cth s (upd (cth s) c {| c_pc := pc; c_script := c_script (cth s c) |}).
Definition set_upc (s : state) (u : nat) (pc : upc) : state :=
  set_uth s (upd (uth s) u {| u_pc := pc; u_script := u_script (uth s u) |}).

Fixpoint memc (c : conn) (l : list conn) : bool :=
  match l with [] => false | x :: r => Nat.eqb c x || memc c r end.
Fixpoint mems (c : conn) (sc : scope) (l : list (conn * scope)) : bool :=
  match l with [] => false | (x, y) :: r => (Nat.eqb c x && scope_eqb sc y) || mems c sc r end.
Definition remc (c : conn) (l : list conn) : list conn := filter (fun x => negb (Nat.eqb x c)) l.

(* ---- the node *)
Definition mod_exported (nd : node) (m : nat) : bool :=
  match nth_error nd m with Some (e, _) => e | None => false end.
Definition exported (nd : node) (p : pid) : bool :=
  match nth_error nd (fst p) with Some (e, ps) => e && nth (snd p) ps false | None => false end.
(* the exported parameters of a module in the order of its accessibles (empty for a module that is not exported) *)
Definition pidx_of (nd : node) (m : nat) : list nat :=
  match nth_error nd m with
  | Some (true, ps) => filter (fun i => nth i ps false) (seq 0 (length ps))
  | _ => []
  end.
Definition params_of (nd : node) (m : nat) : list pid := map (fun i => (m, i)) (pidx_of nd m).
(* what handle_activate sends, in its order: one group per module of secnode.export (whole node), the module, or
   the single parameter; every group is sent under the updateLock of its module *)
Definition snapshot_groups (nd : node) (sc : scope) : list (nat * list nat) :=
  match sc with
  | SG => map (fun m => (m, pidx_of nd m)) (filter (mod_exported nd) (seq 0 (length nd)))
  | SM m => [(m, pidx_of nd m)]
  | SP m p => [(m, [p])]
  end.
Definition group_pids (g : nat * list nat) : list pid := map (fun i => (fst g, i)) (snd g).
Definition flat (groups : list (nat * list nat)) : list pid := flat_map group_pids groups.
Definition snapshot_list (nd : node) (sc : scope) : list pid := flat (snapshot_groups nd sc).

(* the checks of handle_activate on the specifier: None = accepted, Some e = error reply *)
Definition act_error (nd : node) (sc : scope) : option nat :=
  match sc with
  | SG => None
  | SM m => if mod_exported nd m then None else Some 1
  | SP m p => if mod_exported nd m then (if exported nd (m, p) then None else Some 2) else Some 1
  end.

(* ---- subscription tables *)
(* broadcast_event: subscribers of module:param, subscribers of module, generic subscribers *)
Definition listens (s : state) (c : conn) (p : pid) : bool :=
  mems c (SP (fst p) (snd p)) (subs s) || mems c (SM (fst p)) (subs s) || memc c (actv s).
Definition covering (p : pid) (e : conn * scope) : bool :=
  match snd e with SG => false | SM m => Nat.eqb m (fst p) | SP m q => Nat.eqb m (fst p) && Nat.eqb q (snd p) end.
Definition listeners (s : state) (p : pid) : list conn :=
  nodup Nat.eq_dec (map fst (filter (covering p) (subs s)) ++ actv s).

(* subscribe / _active_connections.add *)
Definition register (s : state) (c : conn) (sc : scope) : state :=
  match sc with
  | SG => set_actv s (c :: actv s)
  | _ => set_subs s ((c, sc) :: subs s)
  end.
(* which entries unsubscribe(conn, eventname) removes: the event itself and, for a module, everything below it *)
Definition unsub_hits (c : conn) (sc : scope) (e : conn * scope) : bool :=
  Nat.eqb (fst e) c &&
  match sc, snd e with
  | SM m, SM m' => Nat.eqb m m'
  | SM m, SP m' _ => Nat.eqb m m'
  | SP m p, SP m' p' => Nat.eqb m m' && Nat.eqb p p'
  | _, _ => false
  end.
(* handle_deactivate *)
Definition unregister (s : state) (c : conn) (sc : scope) : state :=
  match sc with
  | SG => set_actv s (remc c (actv s))
  | _ => set_subs s (filter (fun e => negb (unsub_hits c sc e)) (subs s))
  end.
(* reset_connection *)
Definition reset (s : state) (c : conn) : state :=
  set_actv (set_subs s (filter (fun e => negb (Nat.eqb (fst e) c)) (subs s))) (remc c (actv s)).

(* ---- one step of a connection thread *)
(* go on to the next module of the snapshot, or leave the handler (release Dispatcher._lock) with the reply *)
Definition enter_groups (s : state) (c : conn) (sc : scope) (groups : list (nat * list nat)) : state :=
  match groups with
  | [] => set_cpc (set_dlock s None) c (CSendR (RpActive sc))
  | _ => set_cpc s c (CAcqU sc groups)
  end.

Definition handle (nd : node) (s : state) (c : conn) (r : req) : state :=
  match r with
  | RIdn => set_cpc (reset s c) c (CSendR RpIdent)
  | RDeact sc data =>
      if data then set_cpc s c (CSendR (RpErr 0))
      else set_cpc (unregister s c sc) c (CSendR RpInactive)
  | RAct sc data =>
      if data then set_cpc s c (CSendR (RpErr 0))
      else match act_error nd sc with
           | Some e => set_cpc s c (CSendR (RpErr e))
           | None => enter_groups (set_dlock (register s c sc) (Some c)) c sc (snapshot_groups nd sc)
           end
  | RBogus => set_cpc s c (CSendR (RpErr 0))      (* since bfc762a: ProtocolError, the identification handler is not reached *)
  | RClose => set_cpc s c (CSendR (RpErr 0))      (* not a request: never reaches the dispatcher *)
  end.

Definition pop_script (s : state) (c : conn) (pc : cpc) : state :=
  set_cth s (upd (cth s) c {| c_pc := pc; c_script := tl (c_script (cth s c)) |}).

Definition cenabled (s : state) (c : conn) : bool :=
  match c_pc (cth s c) with
  | CRecv => match c_script (cth s c) with [] => false | _ => true end
  | CAcq _ => match dlock s with None => true | Some _ => false end
  | CAcqU _ ((m, _) :: _) => match ulock s m with None => true | Some _ => false end
  | CAcqU _ [] => false
  | CDone => false
  | _ => true
  end.

Definition cstep_conn (nd : node) (s : state) (c : conn) : state :=
  if negb (cenabled s c) then s else
  match c_pc (cth s c) with
  | CStart => set_cpc s c CRecv
  | CRecv =>
      match c_script (cth s c) with
      | [] => s
      | RClose :: _ => pop_script (log_add (reset s c) c EClose) c CDone
      | r :: _ => pop_script (log_add s c (EReq r)) c (CAcq r)
      end
  | CAcq r => handle nd s c r
  | CAcqU sc [] => s
  | CAcqU sc ((m, []) :: rest) => enter_groups s c sc rest          (* nothing to send: acquired and released *)
  | CAcqU sc ((m, todo) :: rest) => set_cpc (set_ulock s (upd (ulock s) m (Some (TC c)))) c (CBuild sc m todo rest)
  | CBuild sc m [] rest => s
  | CBuild sc m (i :: todo) rest => set_cpc s c (CSendU sc m i (cache s (m, i)) todo rest)
  | CSendU sc m i v [] rest =>
      let s1 := log_add s c (EUpd (m, i) v) in enter_groups (set_ulock s1 (upd (ulock s1) m None)) c sc rest
  | CSendU sc m i v todo rest => set_cpc (log_add s c (EUpd (m, i) v)) c (CBuild sc m todo rest)
  | CSendR r => set_cpc (log_add s c (ERep r)) c CRecv
  | CDone => s
  end.

(* ---- one step of a driver thread *)
Definition next_upd (s : state) (u : nat) : state :=
  match u_script (uth s u) with
  | [] => set_upc s u UDone
  | _ => set_upc s u UAcq
  end.
Definition release (s : state) (u : nat) (m : nat) : state := next_upd (set_ulock s (upd (ulock s) m None)) u.

Definition uenabled (s : state) (u : nat) (target : conn) : bool :=
  match u_pc (uth s u) with
  | UAcq => match u_script (uth s u) with
            | [] => false
            | (p, _) :: _ => match ulock s (fst p) with None => true | Some _ => false end
            end
  | USend _ _ _ pend => memc target pend
  | UDone => false
  | _ => true
  end.

Definition cstep_upd (nd : node) (s : state) (u : nat) (target : conn) : state :=
  if negb (uenabled s u target) then s else
  match u_pc (uth s u) with
  | UStart => next_upd s u
  | UAcq =>
      match u_script (uth s u) with
      | [] => s
      | (p, v) :: rest =>
          let s1 := set_cache s (updp (cache s) p v) in
          let s2 := set_uth s1 (upd (uth s1) u {| u_pc := UAcq; u_script := rest |}) in
          if exported nd p
          then set_upc (set_ulock s2 (upd (ulock s2) (fst p) (Some (TU u)))) u (UBuild p)
          else next_upd s2 u
      end
  | UBuild p =>
      match listeners s p with
      | [] => release s u (fst p)
      | l => set_upc s u (USend p (cache s p) l l)
      end
  | USend p v all pend =>
      let s1 := log_add s target (EUpd p v) in
      match remc target pend with
      | [] => release (set_bcasts s1 ((p, v, all) :: bcasts s1)) u (fst p)
      | pend' => set_upc s1 u (USend p v all pend')
      end
  | UDone => s
  end.

(* a step: (thread, target connection of a broadcast send; ignored by all other steps) *)
Definition cstep (nd : node) (s : state) (st : tid * conn) : state :=
  match fst st with
  | TC c => cstep_conn nd s c
  | TU u => cstep_upd nd s u (snd st)
  end.

Definition init (cs : list (list req)) (us : list (list (pid * nat))) : state :=
  {| actv := []; subs := []; cache := fun _ => 0; logs := fun _ => []; dlock := None; ulock := fun _ => None;
     cth := fun c => {| c_pc := CStart; c_script := nth c cs [] |};
     uth := fun u => {| u_pc := UStart; u_script := nth u us [] |};
     bcasts := [] |}.

Definition run_from (nd : node) (s : state) (sched : list (tid * conn)) : state := fold_left (cstep nd) sched s.
Definition run (nd : node) (cs : list (list req)) (us : list (list (pid * nat))) (sched : list (tid * conn)) : state :=
  run_from nd (init cs us) sched.
