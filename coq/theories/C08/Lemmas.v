(* C08 - basic lemmas: equality tests, function update, subscription tables, snapshot list, and the case analysis
   of one step (cstep_cases / handle_cases) on which all invariants are built. *)
From Coq Require Import List Arith Bool Lia.
Import ListNotations.
Require Import FV.C08.Model.

(* ---- equality tests *)
Lemma pid_eqb_eq : forall a b, pid_eqb a b = true <-> a = b.
Proof.
  intros [a1 a2] [b1 b2]; unfold pid_eqb; simpl. rewrite andb_true_iff, !Nat.eqb_eq.
  split; [intros [-> ->]; reflexivity | intros H; inversion H; auto].
Qed.
Lemma pid_eqb_refl : forall a, pid_eqb a a = true.
Proof. intros; apply pid_eqb_eq; reflexivity. Qed.
Lemma pid_eqb_neq : forall a b, pid_eqb a b = false <-> a <> b.
Proof.
  intros a b; split; intros H.
  - intros E; apply pid_eqb_eq in E; congruence.
  - destruct (pid_eqb a b) eqn:E; auto. apply pid_eqb_eq in E; contradiction.
Qed.
Lemma scope_eqb_eq : forall a b, scope_eqb a b = true <-> a = b.
Proof.
  intros [|m|m p] [|m'|m' p']; simpl; try (split; [discriminate | congruence]); try tauto.
  - rewrite Nat.eqb_eq; split; congruence.
  - rewrite andb_true_iff, !Nat.eqb_eq; split; [intros [-> ->]; auto | intros H; inversion H; auto].
Qed.
Lemma scope_eqb_refl : forall a, scope_eqb a a = true.
Proof. intros; apply scope_eqb_eq; reflexivity. Qed.

(* ---- function update *)
Lemma upd_same : forall A (f : nat -> A) k v, upd f k v k = v.
Proof. intros; unfold upd; rewrite Nat.eqb_refl; reflexivity. Qed.
Lemma upd_other : forall A (f : nat -> A) k v k', k' <> k -> upd f k v k' = f k'.
Proof. intros; unfold upd. destruct (Nat.eqb k' k) eqn:E; auto. apply Nat.eqb_eq in E; contradiction. Qed.
Lemma updp_same : forall A (f : pid -> A) k v, updp f k v k = v.
Proof. intros; unfold updp; rewrite pid_eqb_refl; reflexivity. Qed.
Lemma updp_other : forall A (f : pid -> A) k v k', k' <> k -> updp f k v k' = f k'.
Proof. intros; unfold updp. destruct (pid_eqb k' k) eqn:E; auto. apply pid_eqb_eq in E; contradiction. Qed.

(* ---- membership *)
Lemma memc_In : forall c l, memc c l = true <-> In c l.
Proof.
  induction l; simpl; [split; [discriminate | tauto] |].
  rewrite orb_true_iff, Nat.eqb_eq, IHl. split; intros [H | H]; auto.
Qed.
Lemma mems_In : forall c sc l, mems c sc l = true <-> In (c, sc) l.
Proof.
  induction l as [| [x y] l]; simpl; [split; [discriminate | tauto] |].
  rewrite orb_true_iff, andb_true_iff, Nat.eqb_eq, scope_eqb_eq, IHl.
  split; intros [H | H]; auto.
  - destruct H; subst; auto.
  - inversion H; auto.
Qed.
Lemma In_remc : forall c x l, In c (remc x l) <-> In c l /\ c <> x.
Proof.
  intros; unfold remc; rewrite filter_In, negb_true_iff, Nat.eqb_neq; tauto.
Qed.
Lemma memc_remc_self : forall c l, memc c (remc c l) = false.
Proof.
  intros. destruct (memc c (remc c l)) eqn:E; auto. apply memc_In, In_remc in E. destruct E; congruence.
Qed.
Lemma memc_remc_other : forall c x l, c <> x -> memc c (remc x l) = memc c l.
Proof.
  intros. destruct (memc c l) eqn:E.
  - apply memc_In. apply In_remc. split; auto. apply memc_In; auto.
  - destruct (memc c (remc x l)) eqn:F; auto. apply memc_In, In_remc in F. destruct F as [F _].
    apply memc_In in F; congruence.
Qed.
Lemma mems_filter : forall c sc f l, mems c sc (filter f l) = mems c sc l && f (c, sc).
Proof.
  intros. destruct (mems c sc (filter f l)) eqn:E.
  - apply mems_In, filter_In in E. destruct E as [E F]. apply mems_In in E. rewrite E, F; auto.
  - destruct (mems c sc l) eqn:F; auto. destruct (f (c, sc)) eqn:G; auto.
    assert (X : mems c sc (filter f l) = true) by (apply mems_In, filter_In; split; auto; apply mems_In; auto).
    congruence.
Qed.

(* ---- listeners *)
Lemma listeners_spec : forall s p c, In c (listeners s p) <-> listens s c p = true.
Proof.
  intros. unfold listeners, listens. rewrite nodup_In, in_app_iff, !orb_true_iff, !mems_In, memc_In, in_map_iff.
  split.
  - intros [[[x sc] [E H]] | H]; auto. simpl in E; subst x. apply filter_In in H. destruct H as [H C].
    unfold covering in C; simpl in C. destruct sc; try discriminate.
    + apply Nat.eqb_eq in C; subst; auto.
    + apply andb_true_iff in C. destruct C as [C1 C2]. apply Nat.eqb_eq in C1, C2; subst.
      destruct p; simpl; auto.
  - intros [[H | H] | H]; auto; left; eexists; (split; [| apply filter_In; split; [exact H |]]); simpl; auto;
      unfold covering; simpl; rewrite ?Nat.eqb_refl; auto.
Qed.
Lemma listeners_nodup : forall s p, NoDup (listeners s p).
Proof. intros; apply NoDup_nodup. Qed.

Lemma covers_SP : forall m q p, covers (SP m q) p = true <-> p = (m, q).
Proof.
  intros m q [a b]; simpl. rewrite andb_true_iff, !Nat.eqb_eq. split; [intros [-> ->]; auto | intros H; inversion H; auto].
Qed.

(* registration: exactly the covered parameters of that connection start to listen *)
Lemma listens_register : forall s c sc c' p,
  listens (register s c sc) c' p = listens s c' p || (Nat.eqb c' c && covers sc p).
Proof.
  intros. unfold listens, register. destruct sc as [| m | m q]; simpl.
  - rewrite andb_true_r. destruct (Nat.eqb c' c); simpl; rewrite ?orb_true_r, ?orb_false_r; auto.
  - destruct (Nat.eqb c' c) eqn:E; simpl; rewrite ?orb_false_r; auto.
    rewrite (Nat.eqb_sym m (fst p)). destruct (Nat.eqb (fst p) m) eqn:F; simpl; rewrite ?orb_false_r; auto.
    rewrite !orb_true_r; auto.
  - destruct (Nat.eqb c' c) eqn:E; simpl; rewrite ?orb_false_r; auto.
    rewrite (Nat.eqb_sym m (fst p)), (Nat.eqb_sym q (snd p)).
    destruct (Nat.eqb (fst p) m && Nat.eqb (snd p) q) eqn:F; simpl; rewrite ?orb_false_r, ?orb_true_r; auto.
Qed.

(* deactivation of one scope: what remains for this connection, nothing changes for the others *)
Lemma listens_unregister_other : forall s c sc c' p, c' <> c -> listens (unregister s c sc) c' p = listens s c' p.
Proof.
  intros. unfold listens, unregister. destruct sc; simpl.
  - rewrite memc_remc_other; auto.
  - rewrite !mems_filter. unfold unsub_hits; simpl. apply Nat.eqb_neq in H. rewrite H; simpl. rewrite !andb_true_r; auto.
  - rewrite !mems_filter. unfold unsub_hits; simpl. apply Nat.eqb_neq in H. rewrite H; simpl. rewrite !andb_true_r; auto.
Qed.
Lemma listens_unregister_self : forall s c sc p,
  listens (unregister s c sc) c p =
  match sc with
  | SG => mems c (SP (fst p) (snd p)) (subs s) || mems c (SM (fst p)) (subs s)
  | SM m => if Nat.eqb m (fst p) then memc c (actv s) else listens s c p
  | SP m q => if Nat.eqb m (fst p) && Nat.eqb q (snd p) then mems c (SM (fst p)) (subs s) || memc c (actv s)
              else listens s c p
  end.
Proof.
  intros. unfold listens, unregister. destruct sc as [| m | m q]; simpl.
  - rewrite memc_remc_self, orb_false_r; auto.
  - rewrite !mems_filter. unfold unsub_hits; simpl. rewrite Nat.eqb_refl; simpl.
    destruct (Nat.eqb m (fst p)) eqn:E; simpl; rewrite ?andb_false_r, ?andb_true_r; auto.
  - rewrite !mems_filter. unfold unsub_hits; simpl. rewrite Nat.eqb_refl; simpl.
    destruct (Nat.eqb m (fst p) && Nat.eqb q (snd p)) eqn:E; simpl; rewrite ?andb_false_r, ?andb_true_r; auto.
Qed.
Lemma listens_unregister_le : forall s c sc c' p, listens (unregister s c sc) c' p = true -> listens s c' p = true.
Proof.
  intros s c sc c' p. destruct (Nat.eq_dec c' c) as [-> | N].
  - rewrite listens_unregister_self. unfold listens. destruct sc as [| m | m q].
    + intros H; rewrite H; auto.
    + destruct (Nat.eqb m (fst p)); auto. intros ->; rewrite orb_true_r; auto.
    + destruct (Nat.eqb m (fst p) && Nat.eqb q (snd p)); auto. rewrite <- orb_assoc. intros ->; rewrite orb_true_r; auto.
  - rewrite listens_unregister_other; auto.
Qed.

Lemma listens_reset_self : forall s c p, listens (reset s c) c p = false.
Proof.
  intros. unfold listens, reset; simpl. rewrite !mems_filter; simpl. rewrite Nat.eqb_refl; simpl.
  rewrite !andb_false_r, memc_remc_self; auto.
Qed.
Lemma listens_reset_other : forall s c c' p, c' <> c -> listens (reset s c) c' p = listens s c' p.
Proof.
  intros. unfold listens, reset; simpl. rewrite !mems_filter; simpl. apply Nat.eqb_neq in H. rewrite H; simpl.
  rewrite !andb_true_r, memc_remc_other; auto. apply Nat.eqb_neq; auto.
Qed.

(* ---- the snapshot list is the set of exported parameters of the scope *)
Lemma pidx_of_spec : forall nd m i, In i (pidx_of nd m) <-> exported nd (m, i) = true.
Proof.
  intros nd m i. unfold pidx_of, exported; simpl.
  destruct (nth_error nd m) as [[e ps] |] eqn:E; [| simpl; split; [tauto | discriminate]].
  destruct e; [| simpl; split; [tauto | discriminate]]. simpl. rewrite filter_In, in_seq. split; [tauto |].
  intros H. split; auto. split; [lia |]. simpl.
  destruct (Nat.lt_ge_cases i (length ps)); auto. rewrite nth_overflow in H; auto; discriminate.
Qed.
Lemma params_of_spec : forall nd m p, In p (params_of nd m) <-> fst p = m /\ exported nd p = true.
Proof.
  intros nd m [a b]. unfold params_of. rewrite in_map_iff. simpl. split.
  - intros [i [H F]]. inversion H; subst. split; auto. apply pidx_of_spec; auto.
  - intros [-> H]. exists b; split; auto. apply pidx_of_spec; auto.
Qed.
Lemma exported_mod : forall nd p, exported nd p = true -> mod_exported nd (fst p) = true /\ fst p < length nd.
Proof.
  intros nd p H. unfold exported in H. unfold mod_exported.
  destruct (nth_error nd (fst p)) as [[e ps] |] eqn:E; [| discriminate]. apply andb_true_iff in H. destruct H as [-> _].
  split; auto. apply nth_error_Some. congruence.
Qed.
Lemma in_flat : forall groups p, In p (flat groups) <-> exists g, In g groups /\ fst p = fst g /\ In (snd p) (snd g).
Proof.
  intros groups [a b]. unfold flat, group_pids. rewrite in_flat_map. simpl. split.
  - intros [g [G H]]. apply in_map_iff in H. destruct H as [i [E I]]. inversion E; subst. exists g; auto.
  - intros [g [G [E I]]]. exists g. split; auto. apply in_map_iff. exists b. subst a; auto.
Qed.
Lemma snapshot_list_spec : forall nd sc p, act_error nd sc = None ->
  (In p (snapshot_list nd sc) <-> covers sc p = true /\ exported nd p = true).
Proof.
  intros nd sc p A. unfold snapshot_list. rewrite in_flat. destruct sc as [| m | m q]; simpl.
  - split.
    + intros [g [G [E I]]]. apply in_map_iff in G. destruct G as [m [<- _]]. simpl in *.
      split; auto. apply pidx_of_spec in I. rewrite <- E in I. destruct p; auto.
    + intros [_ H]. exists (fst p, pidx_of nd (fst p)). simpl. destruct (exported_mod nd p H) as [M L].
      split; [| split; auto; apply pidx_of_spec; destruct p; auto].
      apply in_map_iff. exists (fst p). split; auto. apply filter_In. split; auto. apply in_seq. lia.
  - rewrite Nat.eqb_eq. split.
    + intros [g [[<- | []] [E I]]]. simpl in *. split; auto. apply pidx_of_spec in I. rewrite <- E in I. destruct p; auto.
    + intros [-> H]. exists (fst p, pidx_of nd (fst p)). simpl. split; [left; reflexivity | split; [reflexivity |]]. apply pidx_of_spec. destruct p; auto.
  - simpl in A. destruct (mod_exported nd m); [| discriminate]. destruct (exported nd (m, q)) eqn:E; [| discriminate].
    split.
    + destruct p as [a b]. intros [g [[<- | []] [F [I | []]]]]. simpl in *. subst. rewrite !Nat.eqb_refl; auto.
    + intros [H _]. apply covers_SP in H. subst p. exists (m, [q]); simpl; auto.
Qed.
Lemma snapshot_list_covers : forall nd sc p, In p (snapshot_list nd sc) -> covers sc p = true.
Proof.
  intros nd sc p. unfold snapshot_list. rewrite in_flat. destruct sc as [| m | m q]; simpl; auto.
  - intros [g [[<- | []] [E _]]]. simpl in E. subst. apply Nat.eqb_refl.
  - destruct p as [a b]. intros [g [[<- | []] [E [I | []]]]]. simpl in *. subst. rewrite !Nat.eqb_refl; auto.
Qed.
Lemma snapshot_list_complete : forall nd sc p,
  covers sc p = true -> exported nd p = true -> In p (snapshot_list nd sc).
Proof.
  intros nd sc p C E. unfold snapshot_list. apply in_flat. destruct sc as [| m | m q]; simpl.
  - exists (fst p, pidx_of nd (fst p)). simpl. destruct (exported_mod nd p E) as [M L].
    split; [| split; auto; apply pidx_of_spec; destruct p; auto].
    apply in_map_iff. exists (fst p). split; auto. apply filter_In. split; auto. apply in_seq. lia.
  - simpl in C. apply Nat.eqb_eq in C. subst m. exists (fst p, pidx_of nd (fst p)). simpl. split; [left; reflexivity | split; [reflexivity |]].
    apply pidx_of_spec. destruct p; auto.
  - apply covers_SP in C. subst p. exists (m, [q]); simpl; auto.
Qed.

(* ---- case analysis of one step.  R is a property of the successor state. *)
Lemma cstep_cases (nd : node) (s : state) (st : tid * conn) (R : state -> Prop) :
  R s ->
  (forall c, fst st = TC c -> c_pc (cth s c) = CStart -> R (set_cpc s c CRecv)) ->
  (forall c rest, fst st = TC c -> c_pc (cth s c) = CRecv -> c_script (cth s c) = RClose :: rest ->
     R (pop_script (log_add (reset s c) c EClose) c CDone)) ->
  (forall c r rest, fst st = TC c -> c_pc (cth s c) = CRecv -> c_script (cth s c) = r :: rest -> r <> RClose ->
     R (pop_script (log_add s c (EReq r)) c (CAcq r))) ->
  (forall c r, fst st = TC c -> c_pc (cth s c) = CAcq r -> dlock s = None -> R (handle nd s c r)) ->
  (forall c sc m rest, fst st = TC c -> c_pc (cth s c) = CAcqU sc ((m, []) :: rest) -> ulock s m = None ->
     R (enter_groups s c sc rest)) ->
  (forall c sc m i todo rest, fst st = TC c -> c_pc (cth s c) = CAcqU sc ((m, i :: todo) :: rest) -> ulock s m = None ->
     R (set_cpc (set_ulock s (upd (ulock s) m (Some (TC c)))) c (CBuild sc m (i :: todo) rest))) ->
  (forall c sc m i todo rest, fst st = TC c -> c_pc (cth s c) = CBuild sc m (i :: todo) rest ->
     R (set_cpc s c (CSendU sc m i (cache s (m, i)) todo rest))) ->
  (forall c sc m i v rest, fst st = TC c -> c_pc (cth s c) = CSendU sc m i v [] rest ->
     R (let s1 := log_add s c (EUpd (m, i) v) in enter_groups (set_ulock s1 (upd (ulock s1) m None)) c sc rest)) ->
  (forall c sc m i v j todo rest, fst st = TC c -> c_pc (cth s c) = CSendU sc m i v (j :: todo) rest ->
     R (set_cpc (log_add s c (EUpd (m, i) v)) c (CBuild sc m (j :: todo) rest))) ->
  (forall c r, fst st = TC c -> c_pc (cth s c) = CSendR r -> R (set_cpc (log_add s c (ERep r)) c CRecv)) ->
  (forall u, fst st = TU u -> u_pc (uth s u) = UStart -> R (next_upd s u)) ->
  (forall u p v rest, fst st = TU u -> u_pc (uth s u) = UAcq -> u_script (uth s u) = (p, v) :: rest ->
     ulock s (fst p) = None -> exported nd p = true ->
     R (let s1 := set_cache s (updp (cache s) p v) in
        let s2 := set_uth s1 (upd (uth s1) u {| u_pc := UAcq; u_script := rest |}) in
        set_upc (set_ulock s2 (upd (ulock s2) (fst p) (Some (TU u)))) u (UBuild p))) ->
  (forall u p v rest, fst st = TU u -> u_pc (uth s u) = UAcq -> u_script (uth s u) = (p, v) :: rest ->
     ulock s (fst p) = None -> exported nd p = false ->
     R (let s1 := set_cache s (updp (cache s) p v) in
        let s2 := set_uth s1 (upd (uth s1) u {| u_pc := UAcq; u_script := rest |}) in
        next_upd s2 u)) ->
  (forall u p, fst st = TU u -> u_pc (uth s u) = UBuild p -> listeners s p = [] -> R (release s u (fst p))) ->
  (forall u p, fst st = TU u -> u_pc (uth s u) = UBuild p -> listeners s p <> [] ->
     R (set_upc s u (USend p (cache s p) (listeners s p) (listeners s p)))) ->
  (forall u p v all pend, fst st = TU u -> u_pc (uth s u) = USend p v all pend -> In (snd st) pend ->
     remc (snd st) pend = [] ->
     R (let s1 := log_add s (snd st) (EUpd p v) in release (set_bcasts s1 ((p, v, all) :: bcasts s1)) u (fst p))) ->
  (forall u p v all pend, fst st = TU u -> u_pc (uth s u) = USend p v all pend -> In (snd st) pend ->
     remc (snd st) pend <> [] ->
     R (set_upc (log_add s (snd st) (EUpd p v)) u (USend p v all (remc (snd st) pend)))) ->
  R (cstep nd s st).
Proof.
  intros H0 H1 H2 H3 H4 A1 A2 H5 H6 H6' H7 H8 H9 H10 H11 H12 H13 H14.
  destruct st as [[c | u] x]; unfold cstep; simpl in *.
  - unfold cstep_conn, cenabled.
    destruct (c_pc (cth s c)) eqn:PC; simpl; auto.
    + destruct (c_script (cth s c)) as [| r rest] eqn:SC; simpl; auto.
      destruct r; try (eapply H3; eauto; discriminate). eapply H2; eauto.
    + destruct (dlock s) eqn:DL; simpl; auto.
    + destruct groups as [| [m todo] rest]; simpl; auto.
      destruct (ulock s m) eqn:UL; simpl; auto. destruct todo; [eapply A1 | eapply A2]; eauto.
    + destruct todo; auto.
    + destruct todo; [eapply H6 | eapply H6']; eauto.
  - unfold cstep_upd, uenabled.
    destruct (u_pc (uth s u)) eqn:PC; simpl; auto.
    + destruct (u_script (uth s u)) as [| [p v] rest] eqn:SC; simpl; auto.
      destruct (ulock s (fst p)) eqn:UL; simpl; auto.
      destruct (exported nd p) eqn:EX; [eapply H9 | eapply H10]; eauto.
    + destruct (listeners s p) eqn:L; [apply H11; auto |]. rewrite <- L. apply H12; auto. congruence.
    + destruct (memc x pend) eqn:M; simpl; auto. apply memc_In in M.
      destruct (remc x pend) eqn:RM; [eapply H13 | rewrite <- RM; eapply H14]; eauto. congruence.
Qed.

(* the request handlers, run under the dispatcher lock *)
Lemma handle_cases (nd : node) (s : state) (c : conn) (r : req) (R : state -> Prop) :
  (r = RIdn -> R (set_cpc (reset s c) c (CSendR RpIdent))) ->
  (forall sc, r = RDeact sc true -> R (set_cpc s c (CSendR (RpErr 0)))) ->
  (forall sc, r = RDeact sc false -> R (set_cpc (unregister s c sc) c (CSendR RpInactive))) ->
  (forall sc, r = RAct sc true -> R (set_cpc s c (CSendR (RpErr 0)))) ->
  (forall sc e, r = RAct sc false -> act_error nd sc = Some e -> R (set_cpc s c (CSendR (RpErr e)))) ->
  (forall sc, r = RAct sc false -> act_error nd sc = None ->
     R (enter_groups (set_dlock (register s c sc) (Some c)) c sc (snapshot_groups nd sc))) ->
  (r = RClose -> R (set_cpc s c (CSendR (RpErr 0)))) ->
  (r = RBogus -> R (set_cpc s c (CSendR (RpErr 0)))) ->
  R (handle nd s c r).
Proof.
  intros H1 H2 H3 H4 H5 H6 H8 H9. destruct r as [sc d | sc d | | |]; simpl; auto.
  - destruct d; [eapply H4; eauto |]. destruct (act_error nd sc) eqn:A; [eapply H5; eauto |]. apply H6; auto.
  - destruct d; [eapply H2 | eapply H3]; eauto.
Qed.

(* ---- induction over schedules *)
Lemma run_from_app : forall nd s a b, run_from nd s (a ++ b) = run_from nd (run_from nd s a) b.
Proof. intros; unfold run_from; apply fold_left_app. Qed.

Lemma run_invariant (nd : node) (I : state -> Prop) :
  (forall s st, I s -> I (cstep nd s st)) ->
  forall sched s, I s -> I (run_from nd s sched).
Proof.
  intros STEP sched. induction sched as [| st r IH]; simpl; intros s H; auto.
Qed.

(* ---- frame lemmas for the table operations *)
Lemma logs_register : forall s c sc, logs (register s c sc) = logs s. Proof. destruct sc; reflexivity. Qed.
Lemma cth_register : forall s c sc, cth (register s c sc) = cth s. Proof. destruct sc; reflexivity. Qed.
Lemma uth_register : forall s c sc, uth (register s c sc) = uth s. Proof. destruct sc; reflexivity. Qed.
Lemma cache_register : forall s c sc, cache (register s c sc) = cache s. Proof. destruct sc; reflexivity. Qed.
Lemma ulock_register : forall s c sc, ulock (register s c sc) = ulock s. Proof. destruct sc; reflexivity. Qed.
Lemma bcasts_register : forall s c sc, bcasts (register s c sc) = bcasts s. Proof. destruct sc; reflexivity. Qed.
Lemma logs_unregister : forall s c sc, logs (unregister s c sc) = logs s. Proof. destruct sc; reflexivity. Qed.
Lemma cth_unregister : forall s c sc, cth (unregister s c sc) = cth s. Proof. destruct sc; reflexivity. Qed.
Lemma uth_unregister : forall s c sc, uth (unregister s c sc) = uth s. Proof. destruct sc; reflexivity. Qed.
Lemma cache_unregister : forall s c sc, cache (unregister s c sc) = cache s. Proof. destruct sc; reflexivity. Qed.
Lemma ulock_unregister : forall s c sc, ulock (unregister s c sc) = ulock s. Proof. destruct sc; reflexivity. Qed.
Lemma bcasts_unregister : forall s c sc, bcasts (unregister s c sc) = bcasts s. Proof. destruct sc; reflexivity. Qed.

(* listens only looks at the two tables *)
Lemma listens_ext : forall s s' c p, actv s' = actv s -> subs s' = subs s -> listens s' c p = listens s c p.
Proof. intros. unfold listens. rewrite H, H0; reflexivity. Qed.
Lemma listeners_ext : forall s s' p, actv s' = actv s -> subs s' = subs s -> listeners s' p = listeners s p.
Proof. intros. unfold listeners. rewrite H, H0; reflexivity. Qed.

Lemma logs_next_upd : forall s u, logs (next_upd s u) = logs s. Proof. intros; unfold next_upd; destruct (u_script (uth s u)); reflexivity. Qed.
Lemma cth_next_upd : forall s u, cth (next_upd s u) = cth s. Proof. intros; unfold next_upd; destruct (u_script (uth s u)); reflexivity. Qed.
Lemma cache_next_upd : forall s u, cache (next_upd s u) = cache s. Proof. intros; unfold next_upd; destruct (u_script (uth s u)); reflexivity. Qed.
Lemma ulock_next_upd : forall s u, ulock (next_upd s u) = ulock s. Proof. intros; unfold next_upd; destruct (u_script (uth s u)); reflexivity. Qed.
Lemma dlock_next_upd : forall s u, dlock (next_upd s u) = dlock s. Proof. intros; unfold next_upd; destruct (u_script (uth s u)); reflexivity. Qed.
Lemma actv_next_upd : forall s u, actv (next_upd s u) = actv s. Proof. intros; unfold next_upd; destruct (u_script (uth s u)); reflexivity. Qed.
Lemma subs_next_upd : forall s u, subs (next_upd s u) = subs s. Proof. intros; unfold next_upd; destruct (u_script (uth s u)); reflexivity. Qed.
Lemma bcasts_next_upd : forall s u, bcasts (next_upd s u) = bcasts s. Proof. intros; unfold next_upd; destruct (u_script (uth s u)); reflexivity. Qed.
Lemma uth_next_upd_other : forall s u u', u' <> u -> uth (next_upd s u) u' = uth s u'.
Proof. intros; unfold next_upd; destruct (u_script (uth s u)); simpl; apply upd_other; auto. Qed.
(* a thread that goes on to its next announcement is not inside a broadcast *)
Lemma uth_next_upd_self : forall s u,
  u_script (uth (next_upd s u) u) = u_script (uth s u) /\ (u_pc (uth (next_upd s u) u) = UDone \/ u_pc (uth (next_upd s u) u) = UAcq).
Proof. intros; unfold next_upd; destruct (u_script (uth s u)) eqn:E; simpl; rewrite upd_same; simpl; auto. Qed.
Lemma listens_next_upd : forall s u c p, listens (next_upd s u) c p = listens s c p.
Proof. intros; apply listens_ext; [apply actv_next_upd | apply subs_next_upd]. Qed.

(* ---- enter_groups: either the reply (snapshot finished, dispatcher lock released) or the next module lock *)
Lemma enter_groups_cases (s : state) (c : conn) (sc : scope) (groups : list (nat * list nat)) (R : state -> Prop) :
  (groups = [] -> R (set_cpc (set_dlock s None) c (CSendR (RpActive sc)))) ->
  (groups <> [] -> R (set_cpc s c (CAcqU sc groups))) ->
  R (enter_groups s c sc groups).
Proof. intros H1 H2. destruct groups; simpl; [apply H1; auto | apply H2; discriminate]. Qed.
Lemma logs_enter : forall s c sc g, logs (enter_groups s c sc g) = logs s. Proof. destruct g; reflexivity. Qed.
Lemma uth_enter : forall s c sc g, uth (enter_groups s c sc g) = uth s. Proof. destruct g; reflexivity. Qed.
Lemma cache_enter : forall s c sc g, cache (enter_groups s c sc g) = cache s. Proof. destruct g; reflexivity. Qed.
Lemma ulock_enter : forall s c sc g, ulock (enter_groups s c sc g) = ulock s. Proof. destruct g; reflexivity. Qed.
Lemma actv_enter : forall s c sc g, actv (enter_groups s c sc g) = actv s. Proof. destruct g; reflexivity. Qed.
Lemma subs_enter : forall s c sc g, subs (enter_groups s c sc g) = subs s. Proof. destruct g; reflexivity. Qed.
Lemma bcasts_enter : forall s c sc g, bcasts (enter_groups s c sc g) = bcasts s. Proof. destruct g; reflexivity. Qed.
Lemma cth_enter_other : forall s c sc g c', c' <> c -> cth (enter_groups s c sc g) c' = cth s c'.
Proof. intros. destruct g; simpl; apply upd_other; auto. Qed.
Lemma cth_enter_self : forall s c sc g,
  c_script (cth (enter_groups s c sc g) c) = c_script (cth s c) /\
  ((g = [] /\ c_pc (cth (enter_groups s c sc g) c) = CSendR (RpActive sc)) \/
   (g <> [] /\ c_pc (cth (enter_groups s c sc g) c) = CAcqU sc g)).
Proof. intros. destruct g; simpl; rewrite upd_same; simpl; split; auto. right; split; auto; discriminate. Qed.
Lemma listens_enter : forall s c sc g c' p, listens (enter_groups s c sc g) c' p = listens s c' p.
Proof. intros; apply listens_ext; [apply actv_enter | apply subs_enter]. Qed.

Ltac unf := unfold pop_script, set_cpc, set_upc, log_add, release, reset in *; simpl in *;
  rewrite ?logs_next_upd, ?cth_next_upd, ?cache_next_upd, ?ulock_next_upd, ?dlock_next_upd, ?actv_next_upd,
    ?subs_next_upd, ?bcasts_next_upd, ?listens_next_upd, ?logs_enter, ?uth_enter, ?cache_enter, ?ulock_enter,
    ?actv_enter, ?subs_enter, ?bcasts_enter, ?listens_enter in *; simpl in *;
  rewrite ?logs_register, ?cth_register, ?uth_register, ?cache_register, ?ulock_register, ?bcasts_register,
    ?logs_unregister, ?cth_unregister, ?uth_unregister, ?cache_unregister, ?ulock_unregister, ?bcasts_unregister in *;
  simpl in *.
Ltac split_c c0 c := destruct (Nat.eq_dec c0 c) as [-> | ?N]; [rewrite ?upd_same in * | rewrite ?upd_other in * by auto]; simpl in *.


