(* C08 - basic lemmas: equality tests, function update, subscription tables, snapshot list, and the case analysis
   of one step (cstep_cases / handle_cases) on which all invariants are built. *)
From Coq Require Import List Arith Bool Lia Btauto.
Import ListNotations.
Require Import FV.C08.Model.

(* ---- equality tests *)
Lemma pid_eqb_eq : forall a b, pid_eqb a b = true <-> a = b.
Proof.
  intros [a1 a2] [b1 b2]; unfold pid_eqb; simpl. rewrite andb_true_iff, !Nat.eqb_eq.
  split; [intros [-> ->]; reflexivity | intros H; inversion H; auto].
Qed.
Lemma pid_eqb_refl : forall a, pid_eqb a a = true.
Proof. intros; apply pid_eqb_eq; reflexivity. Qed.
Lemma pid_eqb_neq : forall a b, pid_eqb a b = false <-> a <> b.
Proof.
  intros a b; split; intros H.
  - intros E; apply pid_eqb_eq in E; congruence.
  - destruct (pid_eqb a b) eqn:E; auto. apply pid_eqb_eq in E; contradiction.
Qed.
Lemma scope_eqb_eq : forall a b, scope_eqb a b = true <-> a = b.
Proof.
  intros [|m|m p] [|m'|m' p']; simpl; try (split; [discriminate | congruence]); try tauto.
  - rewrite Nat.eqb_eq; split; congruence.
  - rewrite andb_true_iff, !Nat.eqb_eq; split; [intros [-> ->]; auto | intros H; inversion H; auto].
Qed.
Lemma scope_eqb_refl : forall a, scope_eqb a a = true.
Proof. intros; apply scope_eqb_eq; reflexivity. Qed.

(* ---- function update *)
Lemma upd_same : forall A (f : nat -> A) k v, upd f k v k = v.
Proof. intros; unfold upd; rewrite Nat.eqb_refl; reflexivity. Qed.
Lemma upd_other : forall A (f : nat -> A) k v k', k' <> k -> upd f k v k' = f k'.
Proof. intros; unfold upd. destruct (Nat.eqb k' k) eqn:E; auto. apply Nat.eqb_eq in E; contradiction. Qed.
Lemma updp_same : forall A (f : pid -> A) k v, updp f k v k = v.
Proof. intros; unfold updp; rewrite pid_eqb_refl; reflexivity. Qed.
Lemma updp_other : forall A (f : pid -> A) k v k', k' <> k -> updp f k v k' = f k'.
Proof. intros; unfold updp. destruct (pid_eqb k' k) eqn:E; auto. apply pid_eqb_eq in E; contradiction. Qed.

(* ---- membership *)
Lemma memc_In : forall c l, memc c l = true <-> In c l.
Proof.
  induction l; simpl; [split; [discriminate | tauto] |].
  rewrite orb_true_iff, Nat.eqb_eq, IHl. split; intros [H | H]; auto.
Qed.
Lemma mems_In : forall c sc l, mems c sc l = true <-> In (c, sc) l.
Proof.
  induction l as [| [x y] l]; simpl; [split; [discriminate | tauto] |].
  rewrite orb_true_iff, andb_true_iff, Nat.eqb_eq, scope_eqb_eq, IHl.
  split; intros [H | H]; auto.
  - destruct H; subst; auto.
  - inversion H; auto.
Qed.
Lemma In_remc : forall c x l, In c (remc x l) <-> In c l /\ c <> x.
Proof.
  intros; unfold remc; rewrite filter_In, negb_true_iff, Nat.eqb_neq; tauto.
Qed.
Lemma memc_remc_self : forall c l, memc c (remc c l) = false.
Proof.
  intros. destruct (memc c (remc c l)) eqn:E; auto. apply memc_In, In_remc in E. destruct E; congruence.
Qed.
Lemma memc_remc_other : forall c x l, c <> x -> memc c (remc x l) = memc c l.
Proof.
  intros. destruct (memc c l) eqn:E.
  - apply memc_In. apply In_remc. split; auto. apply memc_In; auto.
  - destruct (memc c (remc x l)) eqn:F; auto. apply memc_In, In_remc in F. destruct F as [F _].
    apply memc_In in F; congruence.
Qed.
Lemma mems_filter : forall c sc f l, mems c sc (filter f l) = mems c sc l && f (c, sc).
Proof.
  intros. destruct (mems c sc (filter f l)) eqn:E.
  - apply mems_In, filter_In in E. destruct E as [E F]. apply mems_In in E. rewrite E, F; auto.
  - destruct (mems c sc l) eqn:F; auto. destruct (f (c, sc)) eqn:G; auto.
    assert (X : mems c sc (filter f l) = true) by (apply mems_In, filter_In; split; auto; apply mems_In; auto).
    congruence.
Qed.

(* ---- the table: membership through the set objects *)
Definition memt (c : conn) (sc : scope) (t : list sentry) : bool :=
  existsb (fun e => scope_eqb sc (e_key e) && memc c (e_mem e)) t.

Lemma mems_app : forall c sc l1 l2, mems c sc (l1 ++ l2) = mems c sc l1 || mems c sc l2.
Proof. induction l1 as [| [x y] l1]; simpl; intros; auto. rewrite IHl1, orb_assoc; auto. Qed.
Lemma mems_map_key : forall c sc key l, mems c sc (map (fun x => (x, key)) l) = scope_eqb sc key && memc c l.
Proof.
  induction l; simpl; [rewrite andb_false_r; auto |]. rewrite IHl.
  destruct (scope_eqb sc key); simpl; [rewrite andb_true_r; auto | rewrite andb_false_r; auto].
Qed.
Lemma mems_subs : forall s c sc, mems c sc (subs s) = memt c sc (tbl s).
Proof.
  intros. unfold subs, memt. induction (tbl s) as [| e t IH]; simpl; auto.
  rewrite mems_app, mems_map_key, IH; auto.
Qed.
Lemma listens_memt : forall s c p,
  listens s c p = memt c (SP (fst p) (snd p)) (tbl s) || memt c (SM (fst p)) (tbl s) || memc c (actv s).
Proof. intros. unfold listens. rewrite !mems_subs; auto. Qed.
Lemma memt_true : forall c sc t, memt c sc t = true <-> exists e, In e t /\ e_key e = sc /\ In c (e_mem e).
Proof.
  intros. unfold memt. rewrite existsb_exists. split; intros [e [I H]]; exists e; split; auto.
  - apply andb_true_iff in H. destruct H as [H1 H2]. apply scope_eqb_eq in H1. apply memc_In in H2. auto.
  - destruct H as [H1 H2]. apply andb_true_iff. split; [apply scope_eqb_eq; auto | apply memc_In; auto].
Qed.

(* set.add on the set object id *)
Lemma memt_add : forall c id c' sc t,
  memt c' sc (map (mem_add c id) t) =
  memt c' sc t || (Nat.eqb c' c && existsb (fun e => Nat.eqb (e_id e) id && scope_eqb sc (e_key e)) t).
Proof.
  intros. unfold memt. induction t as [| e t IH]; simpl; [rewrite andb_false_r; auto |]. rewrite IH. clear IH.
  unfold mem_add. destruct (Nat.eqb (e_id e) id); simpl; [| btauto].
  destruct (Nat.eqb c' c); simpl; btauto.
Qed.
(* set.discard on the set object id *)
Lemma memt_del_other : forall c id c' sc t, c' <> c -> memt c' sc (map (mem_del c id) t) = memt c' sc t.
Proof.
  intros. unfold memt. induction t as [| e t IH]; simpl; auto. rewrite IH. f_equal.
  unfold mem_del. destruct (Nat.eqb (e_id e) id); simpl; auto. rewrite memc_remc_other; auto.
Qed.
Lemma memt_del_le : forall c id c' sc t, memt c' sc (map (mem_del c id) t) = true -> memt c' sc t = true.
Proof.
  intros c id c' sc t. unfold memt. induction t as [| e t IH]; simpl; auto. rewrite !orb_true_iff.
  intros [H | H]; [left | right; auto]. unfold mem_del in H. destruct (Nat.eqb (e_id e) id); simpl in *; auto.
  apply andb_true_iff in H. destruct H as [H1 H2]. rewrite H1; simpl. apply memc_In in H2. apply In_remc in H2.
  apply memc_In; tauto.
Qed.
Lemma memt_filter_le : forall f c sc t, memt c sc (filter f t) = true -> memt c sc t = true.
Proof.
  intros f c sc t H. apply memt_true in H. destruct H as [e [I H]]. apply filter_In in I. apply memt_true. exists e; tauto.
Qed.
(* unsubscribe *)
Lemma memt_unsub : forall c sc c' sc' t,
  memt c' sc' (map (mem_unsub c sc) t) = memt c' sc' t && negb (Nat.eqb c' c && key_hits sc sc').
Proof.
  intros. unfold memt. induction t as [| e t IH]; simpl; auto. rewrite IH. clear IH.
  unfold mem_unsub. destruct (scope_eqb sc' (e_key e)) eqn:K; simpl.
  - apply scope_eqb_eq in K. subst sc'. destruct (key_hits sc (e_key e)); simpl.
    + destruct (Nat.eqb c' c) eqn:E; simpl.
      * apply Nat.eqb_eq in E. subst c'. rewrite scope_eqb_refl, memc_remc_self; simpl. rewrite !andb_false_r; auto.
      * rewrite scope_eqb_refl; simpl. apply Nat.eqb_neq in E. rewrite memc_remc_other by auto. rewrite !andb_true_r; auto.
    + rewrite scope_eqb_refl; simpl. rewrite !andb_false_r; simpl. rewrite !andb_true_r; auto.
  - destruct (key_hits sc (e_key e)); simpl; rewrite K; simpl; auto.
Qed.

(* ---- listeners *)
Lemma listeners_spec : forall s p c, In c (listeners s p) <-> listens s c p = true.
Proof.
  intros. unfold listeners, listens. rewrite nodup_In, in_app_iff, !orb_true_iff, !mems_In, memc_In, in_map_iff.
  split.
  - intros [[[x sc] [E H]] | H]; auto. simpl in E; subst x. apply filter_In in H. destruct H as [H C].
    unfold covering in C; simpl in C. destruct sc; try discriminate.
    + apply Nat.eqb_eq in C; subst; auto.
    + apply andb_true_iff in C. destruct C as [C1 C2]. apply Nat.eqb_eq in C1, C2; subst.
      destruct p; simpl; auto.
  - intros [[H | H] | H]; auto; left; eexists; (split; [| apply filter_In; split; [exact H |]]); simpl; auto;
      unfold covering; simpl; rewrite ?Nat.eqb_refl; auto.
Qed.
Lemma listeners_nodup : forall s p, NoDup (listeners s p).
Proof. intros; apply NoDup_nodup. Qed.

Lemma covers_SP : forall m q p, covers (SP m q) p = true <-> p = (m, q).
Proof.
  intros m q [a b]; simpl. rewrite andb_true_iff, !Nat.eqb_eq. split; [intros [-> ->]; auto | intros H; inversion H; auto].
Qed.

(* listens only looks at the tables *)
Lemma listens_ext : forall s s' c p, actv s' = actv s -> tbl s' = tbl s -> listens s' c p = listens s c p.
Proof. intros. rewrite !listens_memt. rewrite H, H0; reflexivity. Qed.
Lemma subs_ext : forall s s', tbl s' = tbl s -> subs s' = subs s.
Proof. intros. unfold subs. rewrite H; reflexivity. Qed.
Lemma listeners_ext : forall s s' p, actv s' = actv s -> tbl s' = tbl s -> listeners s' p = listeners s p.
Proof. intros. unfold listeners. rewrite H, (subs_ext s s') by auto; reflexivity. Qed.

(* activate of the whole node *)
Lemma listens_register_g : forall s c c' p, listens (register_g s c) c' p = listens s c' p || Nat.eqb c' c.
Proof.
  intros. rewrite !listens_memt. simpl. destruct (Nat.eqb c' c); simpl; rewrite ?orb_true_r, ?orb_false_r; auto.
Qed.

(* subscribe, first half: the table gains at most an empty set *)
Lemma lookup_cases (s : state) (sc : scope) (R : state * nat -> Prop) :
  (forall id, find_key sc (tbl s) = Some id -> R (s, id)) ->
  (find_key sc (tbl s) = None ->
   R (set_nsets (set_tbl s (tbl s ++ [{| e_id := nsets s; e_key := sc; e_mem := [] |}])) (S (nsets s)), nsets s)) ->
  R (lookup s sc).
Proof. intros H1 H2. unfold lookup. destruct (find_key sc (tbl s)) eqn:E; auto. Qed.
Lemma memt_app_empty : forall c sc t e, e_mem e = [] -> memt c sc (t ++ [e]) = memt c sc t.
Proof. intros. unfold memt. rewrite existsb_app; simpl. rewrite H; simpl. rewrite andb_false_r; simpl. apply orb_false_r. Qed.
Lemma listens_lookup : forall s sc c p, listens (fst (lookup s sc)) c p = listens s c p.
Proof.
  intros. apply (lookup_cases s sc (fun r => listens (fst r) c p = listens s c p)); simpl; intros; auto.
  rewrite !listens_memt. simpl. rewrite !memt_app_empty by auto. auto.
Qed.
Lemma find_key_In : forall sc t id, find_key sc t = Some id -> exists e, In e t /\ e_id e = id /\ e_key e = sc.
Proof.
  intros sc t id. unfold find_key. destruct (find (fun e => scope_eqb (e_key e) sc) t) as [e |] eqn:F; [| discriminate].
  intros H; inversion H; subst. apply find_some in F. destruct F as [I K]. apply scope_eqb_eq in K. exists e; auto.
Qed.
Lemma find_key_None : forall sc t, find_key sc t = None -> forall e, In e t -> e_key e <> sc.
Proof.
  intros sc t. unfold find_key. destruct (find (fun e => scope_eqb (e_key e) sc) t) as [e |] eqn:F; [discriminate |].
  intros _ e I K. apply (find_none _ _ F) in I. apply scope_eqb_eq in K. congruence.
Qed.
(* the set object that was returned is bound to the event *)
Lemma lookup_live : forall s sc,
  exists e, In e (tbl (fst (lookup s sc))) /\ e_id e = snd (lookup s sc) /\ e_key e = sc.
Proof.
  intros. apply (lookup_cases s sc (fun r => exists e, In e (tbl (fst r)) /\ e_id e = snd r /\ e_key e = sc)); simpl.
  - intros id F. apply find_key_In; auto.
  - intros _. eexists. split; [apply in_or_app; right; left; reflexivity |]. auto.
Qed.

(* subscribe, second half *)
Lemma listens_add_other : forall s c id c' p, c' <> c -> listens (add_to s c id) c' p = listens s c' p.
Proof.
  intros. rewrite !listens_memt. simpl. rewrite !memt_add. apply Nat.eqb_neq in H. rewrite H; simpl. rewrite !orb_false_r; auto.
Qed.
Lemma listens_add_ge : forall s c id c' p, listens s c' p = true -> listens (add_to s c id) c' p = true.
Proof.
  intros s c id c' p. rewrite !listens_memt. simpl. rewrite !memt_add. rewrite !orb_true_iff. tauto.
Qed.
Definition key_covers (key : scope) (p : pid) : bool :=
  match key with SG => false | _ => covers key p end.
Lemma key_covers_cases : forall key p, key_covers key p = true <-> key = SP (fst p) (snd p) \/ key = SM (fst p).
Proof.
  intros [| m | m q] p; simpl.
  - split; [discriminate | intros [H | H]; discriminate].
  - rewrite Nat.eqb_eq. split; [intros ->; auto | intros [H | H]; inversion H; auto].
  - rewrite andb_true_iff, !Nat.eqb_eq. split; [intros [-> ->]; auto | intros [H | H]; inversion H; auto].
Qed.
Lemma key_covers_split : forall key p,
  key_covers key p = scope_eqb (SP (fst p) (snd p)) key || scope_eqb (SM (fst p)) key.
Proof.
  intros [| m | m q] p; simpl; auto.
  - apply Nat.eqb_sym.
  - rewrite orb_false_r. rewrite (Nat.eqb_sym m), (Nat.eqb_sym q); auto.
Qed.
Lemma existsb_key_covers : forall id p t,
  existsb (fun e => Nat.eqb (e_id e) id && key_covers (e_key e) p) t =
  existsb (fun e => Nat.eqb (e_id e) id && scope_eqb (SP (fst p) (snd p)) (e_key e)) t
  || existsb (fun e => Nat.eqb (e_id e) id && scope_eqb (SM (fst p)) (e_key e)) t.
Proof.
  induction t as [| e t IH]; [reflexivity |]. cbn [existsb]. rewrite IH, key_covers_split. btauto.
Qed.
(* after the add, the connection is a member of every bound set with that identity *)
Lemma listens_add_self : forall s c id p,
  listens (add_to s c id) c p =
  listens s c p || existsb (fun e => Nat.eqb (e_id e) id && key_covers (e_key e) p) (tbl s).
Proof.
  intros. rewrite !listens_memt. cbn [add_to set_tbl tbl actv]. rewrite !memt_add, Nat.eqb_refl, existsb_key_covers. btauto.
Qed.
Lemma listens_add_live : forall s c id sc p,
  (exists e, In e (tbl s) /\ e_id e = id /\ e_key e = sc) -> sc <> SG -> covers sc p = true ->
  listens (add_to s c id) c p = true.
Proof.
  intros s c id sc p [e [I [E K]]] N C. rewrite listens_add_self. apply orb_true_iff. right.
  apply existsb_exists. exists e. split; auto. rewrite E, Nat.eqb_refl, K. simpl. destruct sc; simpl; auto; congruence.
Qed.
Lemma listens_add_only : forall s c id sc p,
  (forall e, In e (tbl s) -> e_id e = id -> e_key e = sc) ->
  listens (add_to s c id) c p = true -> listens s c p = true \/ covers sc p = true.
Proof.
  intros s c id sc p U. rewrite listens_add_self, orb_true_iff. intros [H | H]; auto. right.
  apply existsb_exists in H. destruct H as [e [I H]]. apply andb_true_iff in H. destruct H as [H1 H2].
  apply Nat.eqb_eq in H1. rewrite (U e I H1) in H2. destruct sc; simpl in *; auto.
Qed.

(* one discard of reset_connection (the code: del = false) *)
Lemma listens_discard_other : forall s c t c' p, c' <> c -> listens (discard_target false s c t) c' p = listens s c' p.
Proof.
  intros. rewrite !listens_memt. destruct t as [id |]; simpl.
  - rewrite !memt_del_other by auto. auto.
  - rewrite memc_remc_other; auto.
Qed.
Lemma listens_discard_le : forall s c t c' p, listens (discard_target false s c t) c' p = true -> listens s c' p = true.
Proof.
  intros s c t c' p. rewrite !listens_memt. destruct t as [id |]; simpl; rewrite !orb_true_iff.
  - intros [[H | H] | H]; auto; apply memt_del_le in H; auto.
  - intros [H | H]; auto. right. apply memc_In in H. apply In_remc in H. apply memc_In; tauto.
Qed.

(* deactivation of one scope: what remains for this connection, nothing changes for the others *)
Lemma listens_unregister_other : forall s c sc c' p, c' <> c -> listens (unregister s c sc) c' p = listens s c' p.
Proof.
  intros. rewrite !listens_memt. unfold unregister. apply Nat.eqb_neq in H. destruct sc; simpl.
  - rewrite memc_remc_other; auto. apply Nat.eqb_neq; auto.
  - rewrite !memt_unsub. rewrite H; simpl. rewrite !andb_true_r; auto.
  - rewrite !memt_unsub. rewrite H; simpl. rewrite !andb_true_r; auto.
Qed.
Lemma listens_unregister_self : forall s c sc p,
  listens (unregister s c sc) c p =
  match sc with
  | SG => mems c (SP (fst p) (snd p)) (subs s) || mems c (SM (fst p)) (subs s)
  | SM m => if Nat.eqb m (fst p) then memc c (actv s) else listens s c p
  | SP m q => if Nat.eqb m (fst p) && Nat.eqb q (snd p) then mems c (SM (fst p)) (subs s) || memc c (actv s)
              else listens s c p
  end.
Proof.
  intros. rewrite !listens_memt, !mems_subs. unfold unregister. destruct sc as [| m | m q]; simpl.
  - rewrite memc_remc_self, orb_false_r; auto.
  - rewrite !memt_unsub. simpl. rewrite Nat.eqb_refl; simpl.
    destruct (Nat.eqb m (fst p)) eqn:E; simpl; rewrite ?andb_false_r, ?andb_true_r; auto.
  - rewrite !memt_unsub. simpl. rewrite Nat.eqb_refl; simpl.
    destruct (Nat.eqb m (fst p) && Nat.eqb q (snd p)) eqn:E; simpl; rewrite ?andb_false_r, ?andb_true_r; auto.
Qed.
Lemma listens_unregister_le : forall s c sc c' p, listens (unregister s c sc) c' p = true -> listens s c' p = true.
Proof.
  intros s c sc c' p. destruct (Nat.eq_dec c' c) as [-> | N].
  - rewrite listens_unregister_self. unfold listens. destruct sc as [| m | m q].
    + intros H; rewrite H; auto.
    + destruct (Nat.eqb m (fst p)); auto. intros ->; rewrite orb_true_r; auto.
    + destruct (Nat.eqb m (fst p) && Nat.eqb q (snd p)); auto. rewrite <- orb_assoc. intros ->; rewrite orb_true_r; auto.
  - rewrite listens_unregister_other; auto.
Qed.

(* ---- the snapshot list is the set of exported parameters of the scope *)
Lemma pidx_of_spec : forall nd m i, In i (pidx_of nd m) <-> exported nd (m, i) = true.
Proof.
  intros nd m i. unfold pidx_of, exported; simpl.
  destruct (nth_error nd m) as [[e ps] |] eqn:E; [| simpl; split; [tauto | discriminate]].
  destruct e; [| simpl; split; [tauto | discriminate]]. simpl. rewrite filter_In, in_seq. split; [tauto |].
  intros H. split; auto. split; [lia |]. simpl.
  destruct (Nat.lt_ge_cases i (length ps)); auto. rewrite nth_overflow in H; auto; discriminate.
Qed.
Lemma params_of_spec : forall nd m p, In p (params_of nd m) <-> fst p = m /\ exported nd p = true.
Proof.
  intros nd m [a b]. unfold params_of. rewrite in_map_iff. simpl. split.
  - intros [i [H F]]. inversion H; subst. split; auto. apply pidx_of_spec; auto.
  - intros [-> H]. exists b; split; auto. apply pidx_of_spec; auto.
Qed.
Lemma exported_mod : forall nd p, exported nd p = true -> mod_exported nd (fst p) = true /\ fst p < length nd.
Proof.
  intros nd p H. unfold exported in H. unfold mod_exported.
  destruct (nth_error nd (fst p)) as [[e ps] |] eqn:E; [| discriminate]. apply andb_true_iff in H. destruct H as [-> _].
  split; auto. apply nth_error_Some. congruence.
Qed.
Lemma in_flat : forall groups p, In p (flat groups) <-> exists g, In g groups /\ fst p = fst g /\ In (snd p) (snd g).
Proof.
  intros groups [a b]. unfold flat, group_pids. rewrite in_flat_map. simpl. split.
  - intros [g [G H]]. apply in_map_iff in H. destruct H as [i [E I]]. inversion E; subst. exists g; auto.
  - intros [g [G [E I]]]. exists g. split; auto. apply in_map_iff. exists b. subst a; auto.
Qed.
Lemma snapshot_list_spec : forall nd sc p, act_error nd sc = None ->
  (In p (snapshot_list nd sc) <-> covers sc p = true /\ exported nd p = true).
Proof.
  intros nd sc p A. unfold snapshot_list. rewrite in_flat. destruct sc as [| m | m q]; simpl.
  - split.
    + intros [g [G [E I]]]. apply in_map_iff in G. destruct G as [m [<- _]]. simpl in *.
      split; auto. apply pidx_of_spec in I. rewrite <- E in I. destruct p; auto.
    + intros [_ H]. exists (fst p, pidx_of nd (fst p)). simpl. destruct (exported_mod nd p H) as [M L].
      split; [| split; auto; apply pidx_of_spec; destruct p; auto].
      apply in_map_iff. exists (fst p). split; auto. apply filter_In. split; auto. apply in_seq. lia.
  - rewrite Nat.eqb_eq. split.
    + intros [g [[<- | []] [E I]]]. simpl in *. split; auto. apply pidx_of_spec in I. rewrite <- E in I. destruct p; auto.
    + intros [-> H]. exists (fst p, pidx_of nd (fst p)). simpl. split; [left; reflexivity | split; [reflexivity |]]. apply pidx_of_spec. destruct p; auto.
  - simpl in A. destruct (mod_exported nd m); [| discriminate]. destruct (exported nd (m, q)) eqn:E; [| discriminate].
    split.
    + destruct p as [a b]. intros [g [[<- | []] [F [I | []]]]]. simpl in *. subst. rewrite !Nat.eqb_refl; auto.
    + intros [H _]. apply covers_SP in H. subst p. exists (m, [q]); simpl; auto.
Qed.
Lemma snapshot_list_covers : forall nd sc p, In p (snapshot_list nd sc) -> covers sc p = true.
Proof.
  intros nd sc p. unfold snapshot_list. rewrite in_flat. destruct sc as [| m | m q]; simpl; auto.
  - intros [g [[<- | []] [E _]]]. simpl in E. subst. apply Nat.eqb_refl.
  - destruct p as [a b]. intros [g [[<- | []] [E [I | []]]]]. simpl in *. subst. rewrite !Nat.eqb_refl; auto.
Qed.
Lemma snapshot_list_complete : forall nd sc p,
  covers sc p = true -> exported nd p = true -> In p (snapshot_list nd sc).
Proof.
  intros nd sc p C E. unfold snapshot_list. apply in_flat. destruct sc as [| m | m q]; simpl.
  - exists (fst p, pidx_of nd (fst p)). simpl. destruct (exported_mod nd p E) as [M L].
    split; [| split; auto; apply pidx_of_spec; destruct p; auto].
    apply in_map_iff. exists (fst p). split; auto. apply filter_In. split; auto. apply in_seq. lia.
  - simpl in C. apply Nat.eqb_eq in C. subst m. exists (fst p, pidx_of nd (fst p)). simpl. split; [left; reflexivity | split; [reflexivity |]].
    apply pidx_of_spec. destruct p; auto.
  - apply covers_SP in C. subst p. exists (m, [q]); simpl; auto.
Qed.

(* ---- case analysis of one step.  R is a property of the successor state. *)
Lemma cstep_cases (nd : node) (s : state) (st : tid * conn) (R : state -> Prop) :
  R s ->
  (forall c, fst st = TC c -> c_pc (cth s c) = CStart -> R (set_cpc s c CRecv)) ->
  (forall c rest, fst st = TC c -> c_pc (cth s c) = CRecv -> c_script (cth s c) = RClose :: rest ->
     R (pop_script (log_add s c EClose) c (CDisc (reset_targets s) KClose))) ->
  (forall c r rest, fst st = TC c -> c_pc (cth s c) = CRecv -> c_script (cth s c) = r :: rest -> r <> RClose ->
     R (pop_script (log_add s c (EReq r)) c (CAcq r))) ->
  (forall c r, fst st = TC c -> c_pc (cth s c) = CAcq r -> dlock s = None -> R (handle nd s c r)) ->
  (forall c sc m rest, fst st = TC c -> c_pc (cth s c) = CAcqU sc ((m, []) :: rest) -> ulock s m = None ->
     R (enter_groups s c sc rest)) ->
  (forall c sc m i todo rest, fst st = TC c -> c_pc (cth s c) = CAcqU sc ((m, i :: todo) :: rest) -> ulock s m = None ->
     R (set_cpc (set_ulock s (upd (ulock s) m (Some (TC c)))) c (CBuild sc m (i :: todo) rest))) ->
  (forall c sc m i todo rest, fst st = TC c -> c_pc (cth s c) = CBuild sc m (i :: todo) rest ->
     R (set_cpc s c (CSendU sc m i (cache s (m, i)) todo rest))) ->
  (forall c sc m i v rest, fst st = TC c -> c_pc (cth s c) = CSendU sc m i v [] rest ->
     R (let s1 := log_add s c (EUpd (m, i) v) in enter_groups (set_ulock s1 (upd (ulock s1) m None)) c sc rest)) ->
  (forall c sc m i v j todo rest, fst st = TC c -> c_pc (cth s c) = CSendU sc m i v (j :: todo) rest ->
     R (set_cpc (log_add s c (EUpd (m, i) v)) c (CBuild sc m (j :: todo) rest))) ->
  (forall c r, fst st = TC c -> c_pc (cth s c) = CSendR r -> R (set_cpc (log_add s c (ERep r)) c CRecv)) ->
  (forall c sc id, fst st = TC c -> c_pc (cth s c) = CAdd sc id ->
     R (enter_groups (add_to s c id) c sc (snapshot_groups nd sc))) ->
  (forall c t k, fst st = TC c -> c_pc (cth s c) = CDisc [t] k -> R (after_reset (discard_target false s c t) c k)) ->
  (forall c t t' ts k, fst st = TC c -> c_pc (cth s c) = CDisc (t :: t' :: ts) k ->
     R (set_cpc (discard_target false s c t) c (CDisc (t' :: ts) k))) ->
  (forall u, fst st = TU u -> u_pc (uth s u) = UStart -> R (next_upd s u)) ->
  (forall u p v rest, fst st = TU u -> u_pc (uth s u) = UAcq -> u_script (uth s u) = (p, v) :: rest ->
     ulock s (fst p) = None -> exported nd p = true ->
     R (let s1 := set_cache s (updp (cache s) p v) in
        let s2 := set_uth s1 (upd (uth s1) u {| u_pc := UAcq; u_script := rest |}) in
        set_upc (set_ulock s2 (upd (ulock s2) (fst p) (Some (TU u)))) u (UBuild p))) ->
  (forall u p v rest, fst st = TU u -> u_pc (uth s u) = UAcq -> u_script (uth s u) = (p, v) :: rest ->
     ulock s (fst p) = None -> exported nd p = false ->
     R (let s1 := set_cache s (updp (cache s) p v) in
        let s2 := set_uth s1 (upd (uth s1) u {| u_pc := UAcq; u_script := rest |}) in
        next_upd s2 u)) ->
  (forall u p, fst st = TU u -> u_pc (uth s u) = UBuild p -> listeners s p = [] -> R (release s u (fst p))) ->
  (forall u p, fst st = TU u -> u_pc (uth s u) = UBuild p -> listeners s p <> [] ->
     R (set_upc s u (USend p (cache s p) (listeners s p) (listeners s p)))) ->
  (forall u p v all pend, fst st = TU u -> u_pc (uth s u) = USend p v all pend -> In (snd st) pend ->
     remc (snd st) pend = [] ->
     R (let s1 := log_add s (snd st) (EUpd p v) in release (set_bcasts s1 ((p, v, all) :: bcasts s1)) u (fst p))) ->
  (forall u p v all pend, fst st = TU u -> u_pc (uth s u) = USend p v all pend -> In (snd st) pend ->
     remc (snd st) pend <> [] ->
     R (set_upc (log_add s (snd st) (EUpd p v)) u (USend p v all (remc (snd st) pend)))) ->
  R (cstep nd s st).
Proof.
  intros H0 H1 H2 H3 H4 A1 A2 H5 H6 H6' H7 B1 B2 B3 H8 H9 H10 H11 H12 H13 H14.
  destruct st as [[c | u] x]; unfold cstep, cstep_gen; simpl in *.
  - unfold cstep_conn_gen, cenabled.
    destruct (c_pc (cth s c)) eqn:PC; simpl; auto.
    + destruct (c_script (cth s c)) as [| r rest] eqn:SC; simpl; auto.
      destruct r; try (eapply H3; eauto; discriminate). eapply H2; eauto.
    + destruct (dlock s) eqn:DL; simpl; auto.
    + destruct groups as [| [m todo] rest]; simpl; auto.
      destruct (ulock s m) eqn:UL; simpl; auto. destruct todo; [eapply A1 | eapply A2]; eauto.
    + destruct todo; auto.
    + destruct todo; [eapply H6 | eapply H6']; eauto.
    + destruct ts as [| t [| t' ts]]; simpl; auto; try (eapply B2; eauto; fail); try (eapply B3; eauto).
  - unfold cstep_upd, uenabled.
    destruct (u_pc (uth s u)) eqn:PC; simpl; auto.
    + destruct (u_script (uth s u)) as [| [p v] rest] eqn:SC; simpl; auto.
      destruct (ulock s (fst p)) eqn:UL; simpl; auto.
      destruct (exported nd p) eqn:EX; [eapply H9 | eapply H10]; eauto.
    + destruct (listeners s p) eqn:L; [apply H11; auto |]. rewrite <- L. apply H12; auto. congruence.
    + destruct (memc x pend) eqn:M; simpl; auto. apply memc_In in M.
      destruct (remc x pend) eqn:RM; [eapply H13 | rewrite <- RM; eapply H14]; eauto. congruence.
Qed.

(* the request handlers, run under the dispatcher lock *)
Lemma handle_cases (nd : node) (s : state) (c : conn) (r : req) (R : state -> Prop) :
  (r = RIdn -> R (set_cpc (set_dlock s (Some c)) c (CDisc (reset_targets s) KIdent))) ->
  (forall sc, r = RDeact sc true -> R (set_cpc s c (CSendR (RpErr 0)))) ->
  (forall sc, r = RDeact sc false -> R (set_cpc (unregister s c sc) c (CSendR RpInactive))) ->
  (forall sc, r = RAct sc true -> R (set_cpc s c (CSendR (RpErr 0)))) ->
  (forall sc e, r = RAct sc false -> act_error nd sc = Some e -> R (set_cpc s c (CSendR (RpErr e)))) ->
  (r = RAct SG false -> R (enter_groups (set_dlock (register_g s c) (Some c)) c SG (snapshot_groups nd SG))) ->
  (forall sc, r = RAct sc false -> act_error nd sc = None -> sc <> SG ->
     R (set_cpc (set_dlock (fst (lookup s sc)) (Some c)) c (CAdd sc (snd (lookup s sc))))) ->
  (r = RClose -> R (set_cpc s c (CSendR (RpErr 0)))) ->
  (r = RBogus -> R (set_cpc s c (CSendR (RpErr 0)))) ->
  R (handle nd s c r).
Proof.
  intros H1 H2 H3 H4 H5 H6 H7 H8 H9. destruct r as [sc d | sc d | | |]; simpl; auto.
  - destruct d; [eapply H4; eauto |]. destruct (act_error nd sc) eqn:A; [eapply H5; eauto |].
    destruct sc; [apply H6; auto | apply H7; auto; discriminate | apply H7; auto; discriminate].
  - destruct d; [eapply H2 | eapply H3]; eauto.
Qed.

(* ---- induction over schedules *)
Lemma run_from_app : forall nd s a b, run_from nd s (a ++ b) = run_from nd (run_from nd s a) b.
Proof. intros; unfold run_from; apply fold_left_app. Qed.

Lemma run_invariant (nd : node) (I : state -> Prop) :
  (forall s st, I s -> I (cstep nd s st)) ->
  forall sched s, I s -> I (run_from nd s sched).
Proof.
  intros STEP sched. induction sched as [| st r IH]; simpl; intros s H; auto.
Qed.

(* ---- frame lemmas for the table operations *)
Lemma logs_unregister : forall s c sc, logs (unregister s c sc) = logs s. Proof. destruct sc; reflexivity. Qed.
Lemma cth_unregister : forall s c sc, cth (unregister s c sc) = cth s. Proof. destruct sc; reflexivity. Qed.
Lemma uth_unregister : forall s c sc, uth (unregister s c sc) = uth s. Proof. destruct sc; reflexivity. Qed.
Lemma cache_unregister : forall s c sc, cache (unregister s c sc) = cache s. Proof. destruct sc; reflexivity. Qed.
Lemma ulock_unregister : forall s c sc, ulock (unregister s c sc) = ulock s. Proof. destruct sc; reflexivity. Qed.
Lemma bcasts_unregister : forall s c sc, bcasts (unregister s c sc) = bcasts s. Proof. destruct sc; reflexivity. Qed.
Lemma logs_lookup : forall s sc, logs (fst (lookup s sc)) = logs s. Proof. intros; unfold lookup; destruct (find_key sc (tbl s)); reflexivity. Qed.
Lemma cth_lookup : forall s sc, cth (fst (lookup s sc)) = cth s. Proof. intros; unfold lookup; destruct (find_key sc (tbl s)); reflexivity. Qed.
Lemma uth_lookup : forall s sc, uth (fst (lookup s sc)) = uth s. Proof. intros; unfold lookup; destruct (find_key sc (tbl s)); reflexivity. Qed.
Lemma cache_lookup : forall s sc, cache (fst (lookup s sc)) = cache s. Proof. intros; unfold lookup; destruct (find_key sc (tbl s)); reflexivity. Qed.
Lemma ulock_lookup : forall s sc, ulock (fst (lookup s sc)) = ulock s. Proof. intros; unfold lookup; destruct (find_key sc (tbl s)); reflexivity. Qed.
Lemma bcasts_lookup : forall s sc, bcasts (fst (lookup s sc)) = bcasts s. Proof. intros; unfold lookup; destruct (find_key sc (tbl s)); reflexivity. Qed.
Lemma actv_lookup : forall s sc, actv (fst (lookup s sc)) = actv s. Proof. intros; unfold lookup; destruct (find_key sc (tbl s)); reflexivity. Qed.
Lemma logs_discard : forall s c t, logs (discard_target false s c t) = logs s. Proof. destruct t; reflexivity. Qed.
Lemma cth_discard : forall s c t, cth (discard_target false s c t) = cth s. Proof. destruct t; reflexivity. Qed.
Lemma uth_discard : forall s c t, uth (discard_target false s c t) = uth s. Proof. destruct t; reflexivity. Qed.
Lemma cache_discard : forall s c t, cache (discard_target false s c t) = cache s. Proof. destruct t; reflexivity. Qed.
Lemma ulock_discard : forall s c t, ulock (discard_target false s c t) = ulock s. Proof. destruct t; reflexivity. Qed.
Lemma bcasts_discard : forall s c t, bcasts (discard_target false s c t) = bcasts s. Proof. destruct t; reflexivity. Qed.
Lemma dlock_discard : forall s c t, dlock (discard_target false s c t) = dlock s. Proof. destruct t; reflexivity. Qed.

Lemma logs_next_upd : forall s u, logs (next_upd s u) = logs s. Proof. intros; unfold next_upd; destruct (u_script (uth s u)); reflexivity. Qed.
Lemma cth_next_upd : forall s u, cth (next_upd s u) = cth s. Proof. intros; unfold next_upd; destruct (u_script (uth s u)); reflexivity. Qed.
Lemma cache_next_upd : forall s u, cache (next_upd s u) = cache s. Proof. intros; unfold next_upd; destruct (u_script (uth s u)); reflexivity. Qed.
Lemma ulock_next_upd : forall s u, ulock (next_upd s u) = ulock s. Proof. intros; unfold next_upd; destruct (u_script (uth s u)); reflexivity. Qed.
Lemma dlock_next_upd : forall s u, dlock (next_upd s u) = dlock s. Proof. intros; unfold next_upd; destruct (u_script (uth s u)); reflexivity. Qed.
Lemma actv_next_upd : forall s u, actv (next_upd s u) = actv s. Proof. intros; unfold next_upd; destruct (u_script (uth s u)); reflexivity. Qed.
Lemma tbl_next_upd : forall s u, tbl (next_upd s u) = tbl s. Proof. intros; unfold next_upd; destruct (u_script (uth s u)); reflexivity. Qed.
Lemma nsets_next_upd : forall s u, nsets (next_upd s u) = nsets s. Proof. intros; unfold next_upd; destruct (u_script (uth s u)); reflexivity. Qed.
Lemma bcasts_next_upd : forall s u, bcasts (next_upd s u) = bcasts s. Proof. intros; unfold next_upd; destruct (u_script (uth s u)); reflexivity. Qed.
Lemma uth_next_upd_other : forall s u u', u' <> u -> uth (next_upd s u) u' = uth s u'.
Proof. intros; unfold next_upd; destruct (u_script (uth s u)); simpl; apply upd_other; auto. Qed.
(* a thread that goes on to its next announcement is not inside a broadcast *)
Lemma uth_next_upd_self : forall s u,
  u_script (uth (next_upd s u) u) = u_script (uth s u) /\ (u_pc (uth (next_upd s u) u) = UDone \/ u_pc (uth (next_upd s u) u) = UAcq).
Proof. intros; unfold next_upd; destruct (u_script (uth s u)) eqn:E; simpl; rewrite upd_same; simpl; auto. Qed.
Lemma listens_next_upd : forall s u c p, listens (next_upd s u) c p = listens s c p.
Proof. intros; apply listens_ext; [apply actv_next_upd | apply tbl_next_upd]. Qed.

(* ---- enter_groups: either the reply (snapshot finished, dispatcher lock released) or the next module lock *)
Lemma enter_groups_cases (s : state) (c : conn) (sc : scope) (groups : list (nat * list nat)) (R : state -> Prop) :
  (groups = [] -> R (set_cpc (set_dlock s None) c (CSendR (RpActive sc)))) ->
  (groups <> [] -> R (set_cpc s c (CAcqU sc groups))) ->
  R (enter_groups s c sc groups).
Proof. intros H1 H2. destruct groups; simpl; [apply H1; auto | apply H2; discriminate]. Qed.
Lemma logs_enter : forall s c sc g, logs (enter_groups s c sc g) = logs s. Proof. destruct g; reflexivity. Qed.
Lemma uth_enter : forall s c sc g, uth (enter_groups s c sc g) = uth s. Proof. destruct g; reflexivity. Qed.
Lemma cache_enter : forall s c sc g, cache (enter_groups s c sc g) = cache s. Proof. destruct g; reflexivity. Qed.
Lemma ulock_enter : forall s c sc g, ulock (enter_groups s c sc g) = ulock s. Proof. destruct g; reflexivity. Qed.
Lemma actv_enter : forall s c sc g, actv (enter_groups s c sc g) = actv s. Proof. destruct g; reflexivity. Qed.
Lemma tbl_enter : forall s c sc g, tbl (enter_groups s c sc g) = tbl s. Proof. destruct g; reflexivity. Qed.
Lemma nsets_enter : forall s c sc g, nsets (enter_groups s c sc g) = nsets s. Proof. destruct g; reflexivity. Qed.
Lemma bcasts_enter : forall s c sc g, bcasts (enter_groups s c sc g) = bcasts s. Proof. destruct g; reflexivity. Qed.
Lemma cth_enter_other : forall s c sc g c', c' <> c -> cth (enter_groups s c sc g) c' = cth s c'.
Proof. intros. destruct g; simpl; apply upd_other; auto. Qed.
Lemma cth_enter_self : forall s c sc g,
  c_script (cth (enter_groups s c sc g) c) = c_script (cth s c) /\
  ((g = [] /\ c_pc (cth (enter_groups s c sc g) c) = CSendR (RpActive sc)) \/
   (g <> [] /\ c_pc (cth (enter_groups s c sc g) c) = CAcqU sc g)).
Proof. intros. destruct g; simpl; rewrite upd_same; simpl; split; auto. right; split; auto; discriminate. Qed.
Lemma listens_enter : forall s c sc g c' p, listens (enter_groups s c sc g) c' p = listens s c' p.
Proof. intros; apply listens_ext; [apply actv_enter | apply tbl_enter]. Qed.

(* ---- after_reset: the reply of the identification request (dispatcher lock released) or the end of the thread *)
Lemma logs_after : forall s c k, logs (after_reset s c k) = logs s. Proof. destruct k; reflexivity. Qed.
Lemma uth_after : forall s c k, uth (after_reset s c k) = uth s. Proof. destruct k; reflexivity. Qed.
Lemma cache_after : forall s c k, cache (after_reset s c k) = cache s. Proof. destruct k; reflexivity. Qed.
Lemma ulock_after : forall s c k, ulock (after_reset s c k) = ulock s. Proof. destruct k; reflexivity. Qed.
Lemma actv_after : forall s c k, actv (after_reset s c k) = actv s. Proof. destruct k; reflexivity. Qed.
Lemma tbl_after : forall s c k, tbl (after_reset s c k) = tbl s. Proof. destruct k; reflexivity. Qed.
Lemma nsets_after : forall s c k, nsets (after_reset s c k) = nsets s. Proof. destruct k; reflexivity. Qed.
Lemma bcasts_after : forall s c k, bcasts (after_reset s c k) = bcasts s. Proof. destruct k; reflexivity. Qed.
Lemma cth_after_other : forall s c k c', c' <> c -> cth (after_reset s c k) c' = cth s c'.
Proof. intros. destruct k; simpl; apply upd_other; auto. Qed.
Lemma cth_after_self : forall s c k,
  c_script (cth (after_reset s c k) c) = c_script (cth s c) /\
  c_pc (cth (after_reset s c k) c) = match k with KIdent => CSendR RpIdent | KClose => CDone end.
Proof. intros. destruct k; simpl; rewrite upd_same; simpl; split; auto. Qed.
Lemma listens_after : forall s c k c' p, listens (after_reset s c k) c' p = listens s c' p.
Proof. intros; apply listens_ext; [apply actv_after | apply tbl_after]. Qed.

Ltac unf := unfold pop_script, set_cpc, set_upc, log_add, release in *; simpl in *;
  rewrite ?logs_next_upd, ?cth_next_upd, ?cache_next_upd, ?ulock_next_upd, ?dlock_next_upd, ?actv_next_upd,
    ?tbl_next_upd, ?nsets_next_upd, ?bcasts_next_upd, ?listens_next_upd, ?logs_enter, ?uth_enter, ?cache_enter, ?ulock_enter,
    ?actv_enter, ?tbl_enter, ?nsets_enter, ?bcasts_enter, ?listens_enter,
    ?logs_after, ?uth_after, ?cache_after, ?ulock_after, ?actv_after, ?tbl_after, ?nsets_after, ?bcasts_after, ?listens_after in *;
  simpl in *;
  rewrite ?logs_unregister, ?cth_unregister, ?uth_unregister, ?cache_unregister, ?ulock_unregister, ?bcasts_unregister,
    ?logs_lookup, ?cth_lookup, ?uth_lookup, ?cache_lookup, ?ulock_lookup, ?bcasts_lookup, ?actv_lookup,
    ?logs_discard, ?cth_discard, ?uth_discard, ?cache_discard, ?ulock_discard, ?bcasts_discard, ?dlock_discard in *;
  simpl in *.
Ltac split_c c0 c := destruct (Nat.eq_dec c0 c) as [-> | ?N]; [rewrite ?upd_same in * | rewrite ?upd_other in * by auto]; simpl in *.
