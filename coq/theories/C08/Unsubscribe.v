(* C08 - a module-wide deactivate ends every parameter scope of the module, whatever the history of the table: the loop
   of Dispatcher.unsubscribe over the more specific events does not depend on the bare module event having an entry. *)
From Coq Require Import List Arith Bool Lia.
Import ListNotations.
Require Import FV.C08.Model FV.C08.Lemmas FV.C08.Table FV.C08.Snapshot FV.C08.Silence FV.C08.Subscribe.

(* the one-pass model of unsubscribe is the statement-by-statement transcription *)
Lemma unregister_is_code : forall s c sc, sc <> SG -> unregister s c sc = unsubscribe_code s c sc.
Proof.
  intros s c sc N. destruct sc as [| m | m q]; [congruence | |]; unfold unregister, unsubscribe_code; f_equal.
  - unfold discard_event, discard_below. rewrite map_map. apply map_ext. intros [id key mem].
    unfold mem_unsub, mem_remc; destruct key as [| m' | m' q']; simpl; auto.
    + rewrite (Nat.eqb_sym m' m). destruct (Nat.eqb m m'); auto.
    + destruct (Nat.eqb m m'); simpl; auto.
  - unfold discard_event. apply map_ext. intros [id key mem].
    unfold mem_unsub, mem_remc; destruct key as [| m' | m' q']; simpl; auto.
    rewrite (Nat.eqb_sym m' m), (Nat.eqb_sym q' q). destruct (Nat.eqb m m' && Nat.eqb q q'); auto.
Qed.

(* when the event has an entry the early-return variant is the code; without one it does nothing at all *)
Lemma early_return_bound : forall s c sc id, find_key sc (tbl s) = Some id ->
  unsubscribe_early_return s c sc = unsubscribe_code s c sc.
Proof. intros. unfold unsubscribe_early_return. rewrite H. reflexivity. Qed.
Lemma early_return_fresh : forall s c sc, find_key sc (tbl s) = None -> unsubscribe_early_return s c sc = s.
Proof. intros. unfold unsubscribe_early_return. rewrite H. reflexivity. Qed.

(* the deactivate step *)
Lemma deactivate_step : forall nd s c x sc, c_pc (cth s c) = CAcq (RDeact sc false) -> dlock s = None ->
  cstep nd s (TC c, x) = set_cpc (unregister s c sc) c (CSendR RpInactive).
Proof. intros. rewrite (cstep_acq nd s c x _ H H0). reflexivity. Qed.

Lemma others_keep : forall nd others s c, Forall (fun st : tid * conn => fst st <> TC c) others ->
  cth (run_from nd s others) c = cth s c /\ forall p, listens (run_from nd s others) c p = listens s c p.
Proof.
  intros nd others. induction others as [| st r IH]; intros s c F; simpl; [split; auto |].
  inversion F; subst. destruct (listening_persists nd s st c H1) as [E L].
  destruct (IH (cstep nd s st) c H2) as [E' L']. unfold run_from in *. split; [rewrite E'; auto |].
  intros p. rewrite L'. auto.
Qed.

Lemma deactivate_module_clears : forall nd s c x m,
  c_pc (cth s c) = CAcq (RDeact (SM m) false) -> dlock s = None ->
  let s1 := cstep nd s (TC c, x) in
  c_pc (cth s1 c) = CSendR RpInactive /\
  tbl s1 = tbl (unsubscribe_code s c (SM m)) /\
  (forall q, mems c (SP m q) (subs s1) = false) /\ mems c (SM m) (subs s1) = false /\
  (forall c' sc', mems c' sc' (subs s1) = mems c' sc' (subs s) && negb (Nat.eqb c' c && key_hits (SM m) sc')) /\
  actv s1 = actv s /\
  (forall others, Forall (fun st : tid * conn => fst st <> TC c) others ->
     let s2 := run_from nd s1 others in
     c_pc (cth s2 c) = CSendR RpInactive /\ forall q, listens s2 c (m, q) = memc c (actv s)) /\
  (forall q sched, tbl_wf s -> memc c (actv s) = false -> ~ uflight s c (m, q) ->
     ~ Exists (act_covering (m, q)) (c_script (cth s c)) ->
     updates_of (m, q) (logs (run_from nd s1 sched) c) = updates_of (m, q) (logs s c)).
Proof.
  intros nd s c x m PC DL s1.
  assert (E : s1 = set_cpc (unregister s c (SM m)) c (CSendR RpInactive)) by (apply deactivate_step; auto).
  assert (P1 : c_pc (cth s1 c) = CSendR RpInactive) by (rewrite E; simpl; rewrite upd_same; reflexivity).
  assert (M : forall c' sc', mems c' sc' (subs s1) = mems c' sc' (subs s) && negb (Nat.eqb c' c && key_hits (SM m) sc')).
  { intros. rewrite !mems_subs, E. simpl. apply memt_unsub. }
  assert (L : forall q, listens s1 c (m, q) = memc c (actv s)).
  { intros q. unfold s1. rewrite (deactivate_removes nd s c x (SM m) (m, q) PC DL). simpl. rewrite Nat.eqb_refl. reflexivity. }
  split; [exact P1 |]. split; [rewrite E, <- unregister_is_code by discriminate; reflexivity |].
  split; [intros q; rewrite M; simpl; rewrite !Nat.eqb_refl; simpl; apply andb_false_r |].
  split; [rewrite M; simpl; rewrite !Nat.eqb_refl; simpl; apply andb_false_r |].
  split; [exact M |]. split; [rewrite E; reflexivity |]. split.
  - intros others F s2. destruct (others_keep nd others s1 c F) as [EC EL]. split.
    + unfold s2. rewrite EC. exact P1.
    + intros q. unfold s2. rewrite EL. apply L.
  - intros q sched WF A U W.
    assert (WF1 : tbl_wf s1) by (apply wf_step; auto).
    assert (S : silent s1 c (m, q)).
    { unfold silent. rewrite L. split; [exact A |]. split; [| split].
      - intros [u [v [all [pend [X I]]]]]. apply U. exists u, v, all, pend. split; auto.
        rewrite E in X. simpl in X. exact X.
      - unfold cflight. rewrite P1. simpl. auto.
      - unfold wants. rewrite P1. intros [[] | X]. apply W. rewrite E in X. simpl in X. rewrite upd_same in X. exact X. }
    destruct (silent_forever nd sched s1 c (m, q) WF1 S) as [_ R]. rewrite R.
    rewrite E. simpl. reflexivity.
Qed.
