(* C08 - refutations on the faithful model: the race of the current code that is still open (late update).  The
   witness schedules are real executions of the implementation (corpus/C08).  The stale-snapshot witness is gone: since
   the repair c1c8ab8 freshness at quiescence is a theorem for all schedules (Fresh.v). *)
From Coq Require Import List Arith Bool.
Import ListNotations.
Require Import FV.C08.Model FV.C08.Lemmas FV.C08.Silence FV.C08.Fresh.

(* every step of the schedule is enabled (no stuttering step) *)
Fixpoint all_enabled (nd : node) (s : state) (sched : list (tid * conn)) : bool :=
  match sched with
  | [] => true
  | st :: r => match fst st with TC c => cenabled s c | TU u => uenabled s u (snd st) end
               && all_enabled nd (cstep nd s st) r
  end.

Definition one : node := [(true, [true])].
Definition P00 : pid := (0, 0).

(* deactivate racing with a broadcast: listeners selected before, send after the 'inactive' reply.
   c0: start recv acquire:disp acquire:upd0 build send | u0: start acquire:upd0 build |
   c0: send(active) recv acquire:disp send(inactive) | u0: send *)
Definition late_sched : list (tid * conn) :=
  [(TC 0, 0); (TC 0, 0); (TC 0, 0); (TC 0, 0); (TC 0, 0); (TC 0, 0); (TU 0, 0); (TU 0, 0); (TU 0, 0);
   (TC 0, 0); (TC 0, 0); (TC 0, 0); (TC 0, 0); (TU 0, 0)].

Lemma refuted_late_update :
  exists nd cs us sched c p,
    all_enabled nd (init cs us) sched = true /\
    let s := run nd cs us sched in
    listens s c p = false /\
    logs s c = [EReq (RAct SG false); EUpd p 0; ERep (RpActive SG); EReq (RDeact SG false); ERep RpInactive; EUpd p 1].
Proof.
  exists one, [[RAct SG false; RDeact SG false]], [[(P00, 1)]], late_sched, 0, P00. vm_compute. repeat split; reflexivity.
Qed.

(* the same after a disconnect: the update is handed to a connection that was already removed *)
Definition late_close_sched : list (tid * conn) :=
  [(TC 0, 0); (TC 0, 0); (TC 0, 0); (TC 0, 0); (TC 0, 0); (TC 0, 0); (TU 0, 0); (TU 0, 0); (TU 0, 0);
   (TC 0, 0); (TC 0, 0); (TU 0, 0)].

Lemma refuted_late_update_after_close :
  exists nd cs us sched c p,
    all_enabled nd (init cs us) sched = true /\
    let s := run nd cs us sched in
    c_pc (cth s c) = CDone /\
    logs s c = [EReq (RAct (SP 0 0) false); EUpd p 0; ERep (RpActive (SP 0 0)); EClose; EUpd p 1].
Proof.
  exists one, [[RAct (SP 0 0) false; RClose]], [[(P00, 1)]], late_close_sched, 0, P00. vm_compute. repeat split; reflexivity.
Qed.
