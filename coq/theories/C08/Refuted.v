(* C08 - refutations on the faithful model: the race of the current code that is still open (late update).  The
   witness schedules are real executions of the implementation (corpus/C08).  The stale-snapshot witness is gone: since
   the repair c1c8ab8 freshness at quiescence is a theorem for all schedules (Fresh.v).
   Last: the VARIANT of reset_connection that deletes the entry of a set that has become empty (del = true; not the
   code) loses a subscription - the counterpart of Subscribe.v. *)
From Coq Require Import List Arith Bool.
Import ListNotations.
Require Import FV.C08.Model FV.C08.Lemmas FV.C08.Silence FV.C08.Fresh.

(* every step of the schedule is enabled (no stuttering step) *)
Fixpoint all_enabled_gen (del : bool) (nd : node) (s : state) (sched : list (tid * conn)) : bool :=
  match sched with
  | [] => true
  | st :: r => match fst st with TC c => cenabled s c | TU u => uenabled s u (snd st) end
               && all_enabled_gen del nd (cstep_gen del nd s st) r
  end.
Definition all_enabled := all_enabled_gen false.

Definition one : node := [(true, [true])].
Definition P00 : pid := (0, 0).

(* deactivate racing with a broadcast: listeners selected before, send after the 'inactive' reply.
   c0: start recv acquire:disp acquire:upd0 build send | u0: start acquire:upd0 build |
   c0: send(active) recv acquire:disp send(inactive) | u0: send *)
Definition late_sched : list (tid * conn) :=
  [(TC 0, 0); (TC 0, 0); (TC 0, 0); (TC 0, 0); (TC 0, 0); (TC 0, 0); (TU 0, 0); (TU 0, 0); (TU 0, 0);
   (TC 0, 0); (TC 0, 0); (TC 0, 0); (TC 0, 0); (TU 0, 0)].

Lemma refuted_late_update :
  exists nd cs us sched c p,
    all_enabled nd (init cs us) sched = true /\
    let s := run nd cs us sched in
    listens s c p = false /\
    logs s c = [EReq (RAct SG false); EUpd p 0; ERep (RpActive SG); EReq (RDeact SG false); ERep RpInactive; EUpd p 1].
Proof.
  exists one, [[RAct SG false; RDeact SG false]], [[(P00, 1)]], late_sched, 0, P00. vm_compute. repeat split; reflexivity.
Qed.

(* the same after a disconnect: the update is handed to a connection that was already removed *)
(* c0: start recv acquire:disp add acquire:upd0 build send send(active) | u0: start acquire:upd0 build |
   c0: recv(close) discard discard | u0: send *)
Definition late_close_sched : list (tid * conn) :=
  [(TC 0, 0); (TC 0, 0); (TC 0, 0); (TC 0, 0); (TC 0, 0); (TC 0, 0); (TC 0, 0); (TC 0, 0); (TU 0, 0); (TU 0, 0); (TU 0, 0);
   (TC 0, 0); (TC 0, 0); (TC 0, 0); (TU 0, 0)].

Lemma refuted_late_update_after_close :
  exists nd cs us sched c p,
    all_enabled nd (init cs us) sched = true /\
    let s := run nd cs us sched in
    c_pc (cth s c) = CDone /\
    logs s c = [EReq (RAct (SP 0 0) false); EUpd p 0; ERep (RpActive (SP 0 0)); EClose; EUpd p 1].
Proof.
  exists one, [[RAct (SP 0 0) false; RClose]], [[(P00, 1)]], late_close_sched, 0, P00. vm_compute. repeat split; reflexivity.
Qed.

(* ---- the variant that deletes empty entries: connection 0 (the only subscriber of module 0) disconnects between the
   two halves of the subscribe of connection 1.
   c0: start recv acquire:disp add acquire:upd0 build send send(active) | c1: start recv acquire:disp (lookup: the set of c0) |
   c0: recv(close) discard (set empty: entry deleted) discard | c1: add (into the orphaned set) acquire:upd0 build send
   send(active) recv-end | u0: start acquire:upd0 build (no listener) *)
Definition lost_sched : list (tid * conn) :=
  [(TC 0, 0); (TC 0, 0); (TC 0, 0); (TC 0, 0); (TC 0, 0); (TC 0, 0); (TC 0, 0); (TC 0, 0);
   (TC 1, 0); (TC 1, 0); (TC 1, 0);
   (TC 0, 0); (TC 0, 0); (TC 0, 0);
   (TC 1, 0); (TC 1, 0); (TC 1, 0); (TC 1, 0); (TC 1, 0);
   (TU 0, 0); (TU 0, 0); (TU 0, 0)].

Lemma refuted_variant_loses_subscription :
  exists nd cs us sched c p,
    all_enabled_gen true nd (init cs us) sched = true /\
    let s := run_from_gen true nd (init cs us) sched in
    logs s c = [EReq (RAct (SM 0) false); EUpd p 0; ERep (RpActive (SM 0))] /\
    c_pc (cth s c) = CRecv /\ c_script (cth s c) = [] /\
    cache s p = 1 /\ u_pc (uth s 0) = UDone /\ listens s c p = false /\ tbl s = [].
Proof.
  exists one, [[RAct (SM 0) false; RClose]; [RAct (SM 0) false]], [[(P00, 1)]], lost_sched, 1, P00.
  vm_compute. repeat split; reflexivity.
Qed.

(* the same interleaving on the model of the code: the update is delivered *)
Lemma code_keeps_subscription :
  let sched := lost_sched ++ [(TU 0, 1)] in
  let s := run one [[RAct (SM 0) false; RClose]; [RAct (SM 0) false]] [[(P00, 1)]] sched in
  all_enabled one (init [[RAct (SM 0) false; RClose]; [RAct (SM 0) false]] [[(P00, 1)]]) sched = true /\
  logs s 1 = [EReq (RAct (SM 0) false); EUpd P00 0; ERep (RpActive (SM 0)); EUpd P00 1] /\ listens s 1 P00 = true.
Proof. vm_compute. repeat split; reflexivity. Qed.

(* NOT the code: the variant of unsubscribe that returns early when the event itself has no entry in the table
   (unsubscribe_early_return), skipping the loop over the more specific events.  Fresh table: connection 0 has activated
   m0:value only (c0: start recv acquire:disp add acquire:upd0 build send send(active)) and nobody ever the bare module
   m0.  `deactivate m0`: the variant leaves the connection listening to m0:value, the code removes it. *)
Definition fresh_sched : list (tid * conn) := repeat (TC 0, 0) 8.
Lemma refuted_early_return_keeps_parameter_scope :
  exists nd cs us sched c m q,
    all_enabled nd (init cs us) sched = true /\
    let s := run nd cs us sched in
    logs s c = [EReq (RAct (SP m q) false); EUpd (m, q) 0; ERep (RpActive (SP m q))] /\
    find_key (SM m) (tbl s) = None /\
    listens (unsubscribe_early_return s c (SM m)) c (m, q) = true /\
    listens (unsubscribe_code s c (SM m)) c (m, q) = false.
Proof.
  exists one, [[RAct (SP 0 0) false]], [], fresh_sched, 0, 0, 0. vm_compute. repeat split; reflexivity.
Qed.
(* control: once anybody (here connection 1, which has left again) has activated the bare module, its entry stays in
   the table for good and the variant behaves like the code - the defect of the variant shows on a fresh table only *)
Definition control_sched : list (tid * conn) := repeat (TC 1, 0) 11 ++ repeat (TC 0, 0) 8.
Lemma early_return_control :
  let cs := [[RAct (SP 0 0) false]; [RAct (SM 0) false; RDeact (SM 0) false]] in
  let s := run one cs [] control_sched in
  all_enabled one (init cs []) control_sched = true /\
  find_key (SM 0) (tbl s) = Some 0 /\ listens s 0 P00 = true /\
  listens (unsubscribe_early_return s 0 (SM 0)) 0 P00 = false /\
  listens (unsubscribe_code s 0 (SM 0)) 0 P00 = false.
Proof. vm_compute. repeat split; reflexivity. Qed.
