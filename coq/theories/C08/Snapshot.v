(* C08 - the snapshot of an activation is complete: invariant over all schedules *)
From Coq Require Import List Arith Bool Lia.
Import ListNotations.
Require Import FV.C08.Model FV.C08.Lemmas.

Definition is_upd (e : entry) : Prop := match e with EUpd _ _ => True | _ => False end.

(* the log ends with: request r, then only update messages *)
Definition since_req (log : list entry) (r : req) (seg : list entry) : Prop :=
  exists pre, log = pre ++ EReq r :: seg /\ Forall is_upd seg.

(* since the activate request every parameter of the snapshot list was delivered, except those in rest *)
Definition snap_ok (nd : node) (log : list entry) (sc : scope) (rest : list pid) : Prop :=
  exists seg, since_req log (RAct sc false) seg /\
    forall p, In p (snapshot_list nd sc) -> In p rest \/ exists v, In (EUpd p v) seg.

(* the activation in progress: its scope and the parameters whose initial update is still to be sent *)
Definition pending_snapshot (pc : cpc) : option (scope * list pid) :=
  match pc with
  | CAcqU sc g => Some (sc, flat g)
  | CBuild sc m todo g => Some (sc, map (fun i => (m, i)) todo ++ flat g)
  | CSendU sc m i _ todo g => Some (sc, (m, i) :: map (fun j => (m, j)) todo ++ flat g)
  | CSendR (RpActive sc) => Some (sc, [])
  | _ => None
  end.

Definition snap_inv_of (nd : node) (pc : cpc) (log : list entry) : Prop :=
  match pc with
  | CAcq r => exists seg, since_req log r seg
  | CAdd sc _ => exists seg, since_req log (RAct sc false) seg
  | _ => match pending_snapshot pc with Some (sc, rest) => snap_ok nd log sc rest | None => True end
  end.
Definition snap_inv (nd : node) (s : state) (c : conn) : Prop := snap_inv_of nd (c_pc (cth s c)) (logs s c).

Lemma since_req_app_upd : forall log r seg p v,
  since_req log r seg -> since_req (log ++ [EUpd p v]) r (seg ++ [EUpd p v]).
Proof.
  intros log r seg p v [pre [E F]]. exists pre. split.
  - rewrite E, <- app_assoc; reflexivity.
  - apply Forall_app; split; auto. constructor; simpl; auto.
Qed.
Lemma since_req_new : forall log r, since_req (log ++ [EReq r]) r [].
Proof. intros. exists log. split; auto. Qed.

Lemma snap_ok_app_upd : forall nd log sc rest p v,
  snap_ok nd log sc rest -> snap_ok nd (log ++ [EUpd p v]) sc rest.
Proof.
  intros nd log sc rest p v [seg [S H]]. exists (seg ++ [EUpd p v]). split; [apply since_req_app_upd; auto |].
  intros q Q. destruct (H q Q) as [I | [w I]]; auto. right; exists w; apply in_or_app; auto.
Qed.
Lemma snap_ok_send : forall nd log sc p v todo,
  snap_ok nd log sc (p :: todo) -> snap_ok nd (log ++ [EUpd p v]) sc todo.
Proof.
  intros nd log sc p v todo [seg [S H]]. exists (seg ++ [EUpd p v]). split; [apply since_req_app_upd; auto |].
  intros q Q. destruct (H q Q) as [[<- | I] | [w I]]; auto.
  - right; exists v; apply in_or_app; right; simpl; auto.
  - right; exists w; apply in_or_app; auto.
Qed.

(* an update appended to the log of a connection keeps its invariant *)
Lemma snap_inv_app_upd : forall nd pc log p v, snap_inv_of nd pc log -> snap_inv_of nd pc (log ++ [EUpd p v]).
Proof.
  intros nd pc log p v. unfold snap_inv_of. destruct pc; simpl; auto; try apply snap_ok_app_upd.
  - intros [seg H]. eexists; apply since_req_app_upd; eauto.
  - destruct r; auto. apply snap_ok_app_upd.
  - intros [seg H]. eexists; apply since_req_app_upd; eauto.
Qed.

Lemma snap_inv_after : forall nd s c k c0,
  (c0 <> c -> snap_inv nd s c0) -> snap_inv nd (after_reset s c k) c0.
Proof.
  intros nd s c k c0 O. unfold snap_inv. rewrite logs_after. destruct (Nat.eq_dec c0 c) as [-> | N].
  - destruct (cth_after_self s c k) as [_ E]. rewrite E. destruct k; simpl; auto.
  - rewrite cth_after_other by auto. apply O; auto.
Qed.

Lemma snap_inv_enter : forall nd s c sc g c0,
  (c0 <> c -> snap_inv nd s c0) -> snap_ok nd (logs s c) sc (flat g) ->
  snap_inv nd (enter_groups s c sc g) c0.
Proof.
  intros nd s c sc g c0 O K. unfold snap_inv. rewrite logs_enter. destruct (Nat.eq_dec c0 c) as [-> | N].
  - destruct (cth_enter_self s c sc g) as [_ [[-> E] | [G E]]]; rewrite E; simpl; auto.
  - rewrite cth_enter_other by auto. apply O; auto.
Qed.

Lemma snap_inv_step : forall nd s st, (forall c, snap_inv nd s c) -> forall c, snap_inv nd (cstep nd s st) c.
Proof.
  intros nd s st I. apply (cstep_cases nd s st (fun s' => forall c, snap_inv nd s' c)); [exact I | ..]; intros.
  - (* start *) unfold snap_inv; unf. split_c c0 c; auto. apply (I c0).
  - (* close *) unfold snap_inv; unf. split_c c0 c; auto. apply (I c0).
  - (* request received *) unfold snap_inv; unf. split_c c0 c; [| apply (I c0)].
    exists []. apply since_req_new.
  - (* handler *) pose proof (I c) as Ic. unfold snap_inv in Ic. rewrite H0 in Ic.
    apply handle_cases; intros; subst r; try (unfold snap_inv; unf; split_c c0 c; auto; apply (I c0)).
    apply snap_inv_enter.
    + intros N. unfold snap_inv; unf. apply (I c0).
    + unf. destruct Ic as [seg S]. exists seg. split; auto.
  - (* module lock, nothing to send *) pose proof (I c) as Ic. unfold snap_inv in Ic. rewrite H0 in Ic.
    apply snap_inv_enter; [intros; apply (I c0) | exact Ic].
  - (* module lock *) pose proof (I c) as Ic. unfold snap_inv in *; unf. split_c c0 c; [| apply (I c0)].
    rewrite H0 in Ic. exact Ic.
  - (* build *) pose proof (I c) as Ic. unfold snap_inv in *; unf. split_c c0 c; [| apply (I c0)].
    rewrite H0 in Ic; exact Ic.
  - (* last snapshot message of a module *) pose proof (I c) as Ic. unfold snap_inv in Ic. rewrite H0 in Ic.
    apply snap_inv_enter.
    + intros N. unfold snap_inv; unf. rewrite upd_other by auto. apply (I c0).
    + unf. rewrite upd_same. apply snap_ok_send. exact Ic.
  - (* snapshot message *) pose proof (I c) as Ic. unfold snap_inv in Ic. rewrite H0 in Ic.
    unfold snap_inv; unf. split_c c0 c; [| apply (I c0)]. apply snap_ok_send. exact Ic.
  - (* reply *) unfold snap_inv; unf. split_c c0 c; auto. apply (I c0).
  - (* subscribe, second half *) pose proof (I c) as Ic. unfold snap_inv in Ic. rewrite H0 in Ic.
    apply snap_inv_enter.
    + intros N. unfold snap_inv; unf. apply (I c0).
    + unf. destruct Ic as [seg S]. exists seg. split; auto.
  - (* last discard of reset_connection *) apply snap_inv_after. intros N. unfold snap_inv; unf. apply (I c0).
  - (* discard *) unfold snap_inv; unf. split_c c0 c; auto. apply (I c0).
  - (* driver thread start *) unfold snap_inv; unf; apply (I c).
  - unfold snap_inv; unf; apply (I c).
  - unfold snap_inv; unf; apply (I c).
  - unfold snap_inv; unf; apply (I c).
  - unfold snap_inv; unf; apply (I c).
  - (* last send of a broadcast *) unfold snap_inv; unf;
      (split_c c (snd st); [apply snap_inv_app_upd; apply (I (snd st)) | apply (I c)]).
  - unfold snap_inv; unf. split_c c (snd st); [apply snap_inv_app_upd; apply (I (snd st)) | apply (I c)].
Qed.

Lemma snap_inv_init : forall nd cs us c, snap_inv nd (init cs us) c.
Proof. intros; unfold snap_inv; simpl; auto. Qed.

(* all schedules: when the 'active' reply is about to be sent, the log of the connection since the activate request
   consists of update messages only and contains one for every exported parameter of the scope *)
Lemma snapshot_complete : forall nd cs us sched c sc,
  let s := run nd cs us sched in
  c_pc (cth s c) = CSendR (RpActive sc) ->
  exists pre seg, logs s c = pre ++ EReq (RAct sc false) :: seg /\ Forall is_upd seg /\
    forall p, In p (snapshot_list nd sc) -> exists v, In (EUpd p v) seg.
Proof.
  intros nd cs us sched c sc s H.
  assert (I : forall c, snap_inv nd s c).
  { unfold s, run. apply (run_invariant nd (fun s => forall c, snap_inv nd s c)).
    - intros; apply snap_inv_step; auto.
    - intros; apply snap_inv_init. }
  specialize (I c). unfold snap_inv in I. rewrite H in I. simpl in I. destruct I as [seg [[pre [E F]] K]].
  exists pre, seg. repeat split; auto. intros p P. destruct (K p P) as [[] | X]; auto.
Qed.
