(* C08 - the snapshot of an activation is complete: invariant over all schedules *)
From Coq Require Import List Arith Bool Lia.
Import ListNotations.
Require Import FV.C08.Model FV.C08.Lemmas.

Definition is_upd (e : entry) : Prop := match e with EUpd _ _ => True | _ => False end.

(* the log ends with: request r, then only update messages *)
Definition since_req (log : list entry) (r : req) (seg : list entry) : Prop :=
  exists pre, log = pre ++ EReq r :: seg /\ Forall is_upd seg.

(* since the activate request every parameter of the snapshot list was delivered, except those in rest *)
Definition snap_ok (nd : node) (log : list entry) (sc : scope) (rest : list pid) : Prop :=
  exists seg, since_req log (RAct sc false) seg /\
    forall p, In p (snapshot_list nd sc) -> In p rest \/ exists v, In (EUpd p v) seg.

Definition snap_inv (nd : node) (s : state) (c : conn) : Prop :=
  match c_pc (cth s c) with
  | CAcq r => exists seg, since_req (logs s c) r seg
  | CBuild sc todo => snap_ok nd (logs s c) sc todo
  | CSendU sc p v todo => snap_ok nd (logs s c) sc (p :: todo)
  | CSendR (RpActive sc) => snap_ok nd (logs s c) sc []
  | _ => True
  end.

Lemma since_req_app_upd : forall log r seg p v,
  since_req log r seg -> since_req (log ++ [EUpd p v]) r (seg ++ [EUpd p v]).
Proof.
  intros log r seg p v [pre [E F]]. exists pre. split.
  - rewrite E, <- app_assoc; reflexivity.
  - apply Forall_app; split; auto. constructor; simpl; auto.
Qed.
Lemma since_req_new : forall log r, since_req (log ++ [EReq r]) r [].
Proof. intros. exists log. split; auto. Qed.

Lemma snap_ok_app_upd : forall nd log sc rest p v,
  snap_ok nd log sc rest -> snap_ok nd (log ++ [EUpd p v]) sc rest.
Proof.
  intros nd log sc rest p v [seg [S H]]. exists (seg ++ [EUpd p v]). split; [apply since_req_app_upd; auto |].
  intros q Q. destruct (H q Q) as [I | [w I]]; auto. right; exists w; apply in_or_app; auto.
Qed.
Lemma snap_ok_send : forall nd log sc p v todo,
  snap_ok nd log sc (p :: todo) -> snap_ok nd (log ++ [EUpd p v]) sc todo.
Proof.
  intros nd log sc p v todo [seg [S H]]. exists (seg ++ [EUpd p v]). split; [apply since_req_app_upd; auto |].
  intros q Q. destruct (H q Q) as [[<- | I] | [w I]]; auto.
  - right; exists v; apply in_or_app; right; simpl; auto.
  - right; exists w; apply in_or_app; auto.
Qed.

(* an update appended to the log of a connection keeps its invariant *)
Lemma snap_inv_app_upd : forall nd pc log p v,
  match pc with
  | CAcq r => exists seg, since_req log r seg
  | CBuild sc todo => snap_ok nd log sc todo
  | CSendU sc q _ todo => snap_ok nd log sc (q :: todo)
  | CSendR (RpActive sc) => snap_ok nd log sc []
  | _ => True
  end ->
  match pc with
  | CAcq r => exists seg, since_req (log ++ [EUpd p v]) r seg
  | CBuild sc todo => snap_ok nd (log ++ [EUpd p v]) sc todo
  | CSendU sc q _ todo => snap_ok nd (log ++ [EUpd p v]) sc (q :: todo)
  | CSendR (RpActive sc) => snap_ok nd (log ++ [EUpd p v]) sc []
  | _ => True
  end.
Proof.
  intros nd pc log p v. destruct pc; auto.
  - intros [seg H]. eexists; apply since_req_app_upd; eauto.
  - apply snap_ok_app_upd.
  - apply snap_ok_app_upd.
  - destruct r; auto. apply snap_ok_app_upd.
Qed.

Lemma snap_inv_step : forall nd s st, (forall c, snap_inv nd s c) -> forall c, snap_inv nd (cstep nd s st) c.
Proof.
  intros nd s st I. apply (cstep_cases nd s st (fun s' => forall c, snap_inv nd s' c)); [exact I | ..]; intros.
  - (* start *) unfold snap_inv; unf. split_c c0 c; auto. apply (I c0).
  - (* close *) unfold snap_inv; unf. split_c c0 c; auto. apply (I c0).
  - (* request received *) unfold snap_inv; unf. split_c c0 c; [| apply (I c0)].
    exists []. apply since_req_new.
  - (* handler *) pose proof (I c) as Ic. unfold snap_inv in Ic. rewrite H0 in Ic.
    apply handle_cases; intros; subst r; unfold snap_inv; unf; split_c c0 c; auto; try apply (I c0).
    + destruct Ic as [seg S]. exists seg. split; auto. rewrite H4; simpl; tauto.
    + destruct Ic as [seg S]. exists seg. split; auto.
  - (* build *) pose proof (I c) as Ic. unfold snap_inv in *; unf. split_c c0 c; [| apply (I c0)].
    rewrite H0 in Ic; auto.
  - (* send of a snapshot message *) pose proof (I c) as Ic. unfold snap_inv in Ic. rewrite H0 in Ic.
    unfold after_snapshot. destruct todo; unfold snap_inv; unf; split_c c0 c; try apply (I c0);
      apply snap_ok_send; auto.
  - (* reply *) unfold snap_inv; unf. split_c c0 c; auto. apply (I c0).
  - (* driver thread start *) unfold snap_inv; unf; apply (I c).
  - unfold snap_inv; unf; apply (I c).
  - unfold snap_inv; unf; apply (I c).
  - unfold snap_inv; unf; apply (I c).
  - unfold snap_inv; unf; apply (I c).
  - (* last send of a broadcast *) unfold snap_inv; unf;
      (split_c c (snd st); [apply snap_inv_app_upd; apply (I (snd st)) | apply (I c)]).
  - unfold snap_inv; unf. split_c c (snd st); [apply snap_inv_app_upd; apply (I (snd st)) | apply (I c)].
Qed.

Lemma snap_inv_init : forall nd cs us c, snap_inv nd (init cs us) c.
Proof. intros; unfold snap_inv; simpl; auto. Qed.

(* all schedules: when the 'active' reply is about to be sent, the log of the connection since the activate request
   consists of update messages only and contains one for every exported parameter of the scope *)
Lemma snapshot_complete : forall nd cs us sched c sc,
  let s := run nd cs us sched in
  c_pc (cth s c) = CSendR (RpActive sc) ->
  exists pre seg, logs s c = pre ++ EReq (RAct sc false) :: seg /\ Forall is_upd seg /\
    forall p, In p (snapshot_list nd sc) -> exists v, In (EUpd p v) seg.
Proof.
  intros nd cs us sched c sc s H.
  assert (I : forall c, snap_inv nd s c).
  { unfold s, run. apply (run_invariant nd (fun s => forall c, snap_inv nd s c)).
    - intros; apply snap_inv_step; auto.
    - intros; apply snap_inv_init. }
  specialize (I c). unfold snap_inv in I. rewrite H in I. destruct I as [seg [[pre [E F]] K]].
  exists pre, seg. repeat split; auto. intros p P. destruct (K p P) as [[] | X]; auto.
Qed.
