(* C08 - the subscription table as a collection of set objects: entries are only appended (never removed or rebound),
   the identities are distinct, and the set object a thread holds between the two halves of Dispatcher.subscribe is the
   one bound to its event.  Invariants over all schedules of the model of the code (del = false). *)
From Coq Require Import List Arith Bool Lia.
Import ListNotations.
Require Import FV.C08.Model FV.C08.Lemmas.

(* identity and event name of the bound set objects, in dict order *)
Definition shape (s : state) : list (nat * scope) := map (fun e => (e_id e, e_key e)) (tbl s).
(* the set object id is bound to the event sc *)
Definition live (s : state) (sc : scope) (id : nat) : Prop := In (id, sc) (shape s).

Lemma live_spec : forall s sc id, live s sc id <-> exists e, In e (tbl s) /\ e_id e = id /\ e_key e = sc.
Proof.
  intros. unfold live, shape. rewrite in_map_iff. split.
  - intros [e [E I]]. inversion E; subst. exists e; auto.
  - intros [e [I [E K]]]. exists e. subst; auto.
Qed.

Lemma shape_ext : forall s s', tbl s' = tbl s -> shape s' = shape s.
Proof. intros. unfold shape. rewrite H; reflexivity. Qed.
Lemma shape_map : forall f t, (forall e, e_id (f e) = e_id e /\ e_key (f e) = e_key e) ->
  map (fun e => (e_id e, e_key e)) (map f t) = map (fun e => (e_id e, e_key e)) t.
Proof. intros f t H. rewrite map_map. apply map_ext. intros e. destruct (H e) as [-> ->]. reflexivity. Qed.
Lemma shape_add : forall s c id, shape (add_to s c id) = shape s.
Proof. intros. unfold shape, add_to; simpl. apply shape_map. intros e. unfold mem_add. destruct (Nat.eqb (e_id e) id); auto. Qed.
Lemma shape_discard : forall s c t, shape (discard_target false s c t) = shape s.
Proof.
  intros. destruct t as [id |]; [| reflexivity]. unfold shape; simpl. apply shape_map. intros e. unfold mem_del.
  destruct (Nat.eqb (e_id e) id); auto.
Qed.
Lemma shape_unregister : forall s c sc, shape (unregister s c sc) = shape s.
Proof.
  intros. destruct sc; try reflexivity; unfold shape; simpl; apply shape_map; intros e; unfold mem_unsub;
    destruct (key_hits _ (e_key e)); auto.
Qed.
Lemma nsets_discard : forall s c t, nsets (discard_target false s c t) = nsets s. Proof. destruct t; reflexivity. Qed.
Lemma nsets_unregister : forall s c sc, nsets (unregister s c sc) = nsets s. Proof. destruct sc; reflexivity. Qed.

(* lookup-or-create: nothing, or one new entry with a new identity at the end *)
Lemma shape_lookup : forall s sc,
  (shape (fst (lookup s sc)) = shape s /\ nsets (fst (lookup s sc)) = nsets s /\ live s sc (snd (lookup s sc)))
  \/ (shape (fst (lookup s sc)) = shape s ++ [(nsets s, sc)] /\ nsets (fst (lookup s sc)) = S (nsets s) /\
      snd (lookup s sc) = nsets s /\ forall id, ~ live s sc id).
Proof.
  intros. apply (lookup_cases s sc (fun r =>
    (shape (fst r) = shape s /\ nsets (fst r) = nsets s /\ live s sc (snd r))
    \/ (shape (fst r) = shape s ++ [(nsets s, sc)] /\ nsets (fst r) = S (nsets s) /\ snd r = nsets s /\ forall id, ~ live s sc id))); simpl.
  - intros id F. left. repeat split; auto. apply live_spec. apply find_key_In; auto.
  - intros F. right. repeat split; auto.
    + unfold shape; simpl. rewrite map_app; reflexivity.
    + intros id L. apply live_spec in L. destruct L as [e [I [_ K]]]. eapply find_key_None; eauto.
Qed.

(* ---- one step: the shape is kept or extended by one entry with the next identity; R relates old and new state *)
Definition grows (s s' : state) : Prop :=
  (shape s' = shape s /\ nsets s' = nsets s)
  \/ exists sc, shape s' = shape s ++ [(nsets s, sc)] /\ nsets s' = S (nsets s) /\ forall id, ~ live s sc id.

Lemma grows_same : forall s s', tbl s' = tbl s -> nsets s' = nsets s -> grows s s'.
Proof. intros. left. split; auto. apply shape_ext; auto. Qed.

Lemma step_grows : forall nd s st, grows s (cstep nd s st).
Proof.
  intros nd s st. apply (cstep_cases nd s st (fun s' => grows s s')); intros;
    try (apply grows_same; unf; auto; fail).
  - apply handle_cases; intros; try (apply grows_same; unf; auto; fail).
    + left. split; [rewrite <- (shape_unregister s c sc); apply shape_ext; reflexivity |].
      rewrite <- (nsets_unregister s c sc); reflexivity.
    + destruct (shape_lookup s sc) as [[E [N _]] | [E [N [_ F]]]].
      * left. split; [rewrite <- E; apply shape_ext; reflexivity | rewrite <- N; reflexivity].
      * right. exists sc. split; [rewrite <- E; apply shape_ext; reflexivity |]. split; [rewrite <- N; reflexivity | auto].
  - left. split; [rewrite <- (shape_add s c id); apply shape_ext; unf; reflexivity | unf; reflexivity].
  - left. split; [rewrite <- (shape_discard s c t); apply shape_ext; unf; reflexivity |].
    rewrite <- (nsets_discard s c t). unf; reflexivity.
  - left. split; [rewrite <- (shape_discard s c t); apply shape_ext; unf; reflexivity |].
    rewrite <- (nsets_discard s c t). unf; reflexivity.
Qed.

Lemma grows_live : forall s s' sc id, grows s s' -> live s sc id -> live s' sc id.
Proof.
  intros s s' sc id [[E _] | [sc' [E _]]] L; unfold live in *; rewrite E; auto. apply in_or_app; auto.
Qed.

(* all schedules: the bound set objects of an earlier state are still bound, to the same events, at the same places *)
Lemma run_shape_prefix : forall nd sched s, exists ext, shape (run_from nd s sched) = shape s ++ ext.
Proof.
  intros nd sched. induction sched as [| st r IH]; intros s.
  - exists []. rewrite app_nil_r; reflexivity.
  - change (run_from nd s (st :: r)) with (run_from nd (cstep nd s st) r).
    destruct (IH (cstep nd s st)) as [ext E]. rewrite E.
    destruct (step_grows nd s st) as [[F _] | [sc [F _]]]; rewrite F.
    + exists ext; reflexivity.
    + exists ((nsets s, sc) :: ext). rewrite <- app_assoc; reflexivity.
Qed.

Lemma NoDup_snoc : forall (l : list nat) a, NoDup l -> ~ In a l -> NoDup (l ++ [a]).
Proof.
  induction l as [| x l IH]; simpl; intros a D N; [constructor; auto; constructor |].
  inversion D; subst. constructor.
  - rewrite in_app_iff. simpl. intros [I | [E | []]]; auto.
  - apply IH; auto.
Qed.

(* ---- well-formed tables *)
Definition tbl_wf (s : state) : Prop :=
  NoDup (map fst (shape s)) /\ (forall x, In x (shape s) -> fst x < nsets s) /\
  (forall c sc id, c_pc (cth s c) = CAdd sc id -> live s sc id /\ sc <> SG).

Lemma wf_grows : forall s s', tbl_wf s -> grows s s' ->
  (forall c sc id, c_pc (cth s' c) = CAdd sc id -> c_pc (cth s c) = CAdd sc id \/ (live s' sc id /\ sc <> SG)) -> tbl_wf s'.
Proof.
  intros s s' [D [B L]] G P. split; [| split].
  - destruct G as [[E _] | [sc [E _]]]; rewrite E; auto. rewrite map_app; simpl.
    apply NoDup_snoc; auto. intros I. apply in_map_iff in I. destruct I as [x [X I]]. apply B in I. lia.
  - destruct G as [[E N] | [sc [E [N _]]]]; rewrite E, N; auto. intros x I. apply in_app_or in I.
    destruct I as [I | [<- | []]]; [apply B in I; lia | simpl; lia].
  - intros c sc id H. destruct (P c sc id H) as [H' | H']; auto. destruct (L c sc id H') as [L1 L2].
    split; auto. eapply grows_live; eauto.
Qed.

(* a thread is between the two halves of subscribe only after its own lookup, which returned a bound set object *)
Ltac origin_plain c :=
  match goal with P : c_pc (cth _ ?c0) = CAdd _ _ |- _ =>
    let N := fresh "N" in
    destruct (Nat.eq_dec c0 c) as [-> | N];
    [ exfalso; revert P; unf; rewrite ?upd_same; simpl; discriminate
    | left; revert P; unf; rewrite ?upd_other by auto; auto ] end.
Ltac origin_enter c :=
  match goal with P : c_pc (cth _ ?c0) = CAdd _ _ |- _ =>
    cbv zeta in P;
    match type of P with c_pc (cth (enter_groups ?s0 _ ?sc0 ?g0) _) = _ =>
      let N := fresh "N" in let E := fresh "E" in
      destruct (Nat.eq_dec c0 c) as [-> | N];
      [ exfalso; destruct (cth_enter_self s0 c sc0 g0) as [_ [[_ E] | [_ E]]]; rewrite E in P; discriminate
      | left; rewrite cth_enter_other in P by auto; revert P; unf; rewrite ?upd_other by auto; auto ] end end.

Lemma cadd_origin : forall nd s st c0 sc id,
  c_pc (cth (cstep nd s st) c0) = CAdd sc id ->
  c_pc (cth s c0) = CAdd sc id \/ (live (cstep nd s st) sc id /\ sc <> SG).
Proof.
  intros nd s st.
  apply (cstep_cases nd s st (fun s' => forall c0 sc id, c_pc (cth s' c0) = CAdd sc id ->
    c_pc (cth s c0) = CAdd sc id \/ (live s' sc id /\ sc <> SG))); intros; auto;
    try (match goal with H : fst st = TC ?c |- _ => origin_plain c end; fail);
    try (match goal with H : fst st = TC ?c |- _ => origin_enter c end; fail);
    try (left; match goal with P : c_pc (cth _ _) = CAdd _ _ |- _ => revert P; unf; auto end; fail).
  - match goal with P : c_pc (cth _ _) = CAdd _ _ |- _ => revert c0 sc id P end.
    apply handle_cases; intros; try (origin_plain c; fail); try (origin_enter c; fail).
    match goal with P : c_pc (cth _ ?c0) = CAdd _ _ |- _ => destruct (Nat.eq_dec c0 c) as [-> | N] end.
    + right. match goal with P : c_pc (cth _ _) = CAdd _ _ |- _ => revert P end.
      unf. rewrite upd_same; simpl. intros E; inversion E; subst. split; auto.
      apply live_spec. apply lookup_live.
    + left. match goal with P : c_pc (cth _ _) = CAdd _ _ |- _ => revert P end. unf. rewrite upd_other by auto. auto.
  - match goal with P : c_pc (cth _ ?c0) = CAdd _ _ |- _ => destruct (Nat.eq_dec c0 c) as [-> | N] end.
    + exfalso. destruct (cth_after_self (discard_target false s c t) c k) as [_ E].
      match goal with P : c_pc (cth _ _) = CAdd _ _ |- _ => rewrite E in P; destruct k; discriminate end.
    + left. match goal with P : c_pc (cth _ _) = CAdd _ _ |- _ => rewrite cth_after_other in P by auto; revert P; unf; auto end.
Qed.

Lemma wf_step : forall nd s st, tbl_wf s -> tbl_wf (cstep nd s st).
Proof.
  intros nd s st W. apply (wf_grows s); auto; [apply step_grows | apply cadd_origin].
Qed.
Lemma wf_init : forall cs us, tbl_wf (init cs us).
Proof.
  intros. split; [constructor | split]; simpl; [intros x [] | intros c sc id E; discriminate].
Qed.
Lemma wf_run_from : forall nd sched s, tbl_wf s -> tbl_wf (run_from nd s sched).
Proof. intros nd sched s W. apply (run_invariant nd tbl_wf); auto. intros; apply wf_step; auto. Qed.
Lemma wf_run : forall nd cs us sched, tbl_wf (run nd cs us sched).
Proof. intros. apply wf_run_from. apply wf_init. Qed.

(* in a well-formed table an identity names one set object, bound to one event *)
Lemma nodup_fst_unique : forall (l : list (nat * scope)) i k k', NoDup (map fst l) -> In (i, k) l -> In (i, k') l -> k = k'.
Proof.
  induction l as [| [j x] l IH]; simpl; [tauto |]. intros i k k' D. inversion D; subst.
  intros [L | L] [L' | L'].
  - congruence.
  - inversion L; subst. exfalso. apply H1. apply in_map_iff. exists (i, k'); auto.
  - inversion L'; subst. exfalso. apply H1. apply in_map_iff. exists (i, k); auto.
  - eapply IH; eauto.
Qed.
Lemma wf_live : forall s c sc id, tbl_wf s -> c_pc (cth s c) = CAdd sc id -> live s sc id /\ sc <> SG.
Proof. intros s c sc id [_ [_ K]] H. eapply K; eauto. Qed.
Lemma wf_unique : forall s sc id, tbl_wf s -> live s sc id -> forall e, In e (tbl s) -> e_id e = id -> e_key e = sc.
Proof.
  intros s sc id [D _] L e I E. unfold live in L.
  assert (I2 : In (id, e_key e) (shape s)) by (unfold shape; apply in_map_iff; exists e; rewrite E; auto).
  eapply nodup_fst_unique; eauto.
Qed.
