(* C08 - vacuity audit: every theorem of Properties.v is applied to ONE concrete, non-trivial run of the model.
   The instance is built exactly the way Run.v (`final` / `follow`) builds its states: `init (k_conns k) (k_upds k)` folded
   with `cstep (k_node k)` along a schedule; there is no oracle / environment parameter in C08 (closed transition
   system), so the premises of the theorems are reachability conditions on program counters, locks and tables.

   The run: node with 3 modules (module 0 exported with parameters exported / hidden / exported, module 1 exported with
   one exported parameter, module 2 hidden), 3 connections (global + module scope + deactivate + *IDN?; module +
   parameter scope + deactivate + close; parameter scope + deactivate), 2 driver threads (7 updates, one of a hidden
   parameter); 88 steps, every one enabled (no stuttering), all 5 threads interleaved: updates race with the snapshots of
   two activations, a close (without the dispatcher lock) is interleaved with the two halves of a subscribe, a connection
   thread and a driver thread hold two different updateLocks at the same time.  P1 .. P14 are prefixes of that run.

   No Axiom / Parameter / Admitted; proofs are `apply <theorem>` + vm_compute on closed boolean / constructor goals. *)
From Coq Require Import List Arith Bool Lia.
Import ListNotations.
Require Import FV.Gen.C08 FV.C08.Model FV.C08.Lemmas FV.C08.Table FV.C08.Snapshot FV.C08.Silence FV.C08.Subscribe
               FV.C08.Fresh FV.C08.Refuted FV.C08.Run FV.C08.Properties.

Definition ndA : node := [(true, [true; false; true]); (true, [true]); (false, [true])].
Definition csA : list (list req) :=
  [[RAct SG false; RAct (SM 1) false; RDeact SG false; RIdn];
   [RAct (SM 0) false; RAct (SP 1 0) false; RDeact (SM 0) false; RClose];
   [RAct (SP 0 2) false; RDeact (SP 0 2) false]].
Definition usA : list (list (pid * nat)) :=
  [[((0, 0), 5); ((0, 2), 7); ((0, 2), 8); ((0, 0), 6)]; [((1, 0), 9); ((0, 1), 3); ((1, 0), 11)]].
Definition c (n : nat) : tid * conn := (TC n, 0).
Definition u (n t : nat) : tid * conn := (TU n, t).

(* u0 parked at make_update of (0,0): nobody listens to it yet *)
Definition P1 := [c 2; c 2; c 2; c 1; c 1; c 0; c 0; u 0 0; u 1 0; c 2; u 0 0].
Definition P2 := P1 ++ [u 0 0].
(* c1 parked at send_reply('active', module 0); its snapshot raced with the update (0,0) := 5 *)
Definition P3 := P2 ++ [c 2; c 2; u 1 0; c 2; c 1; u 1 0; c 2; c 1; c 1; c 1; c 1; c 1; c 1].
(* u0 parked at make_update of (0,2): three listeners (parameter, module, generic), c0 is inside its activate *)
Definition P4 := P3 ++ [c 0; c 1; c 1; u 0 0].
Definition P5 := P4 ++ [u 0 0].
Definition P6 := P5 ++ [u 0 1; u 0 0; u 0 2].
(* c0 holds updateLock(0) at send_reply of an initial update, u1 holds updateLock(1) inside its broadcast *)
Definition P7 := P6 ++ [u 1 0; c 0; c 0; u 1 0; u 1 0].
(* c0 parked at send_reply('active', whole node) *)
Definition P8 := P7 ++ [c 0; c 0; c 0; u 1 0; c 0; c 0; c 0].
(* c1 parked at the dispatcher lock with `deactivate module 0`, lock free *)
Definition P9 := P8 ++ [c 1; c 0; c 0; c 1; c 1; c 1; c 1; c 1; c 1].
(* c1 has its 'inactive' reply, only `close` left; u0 still has (0,2) := 8 and (0,0) := 6 to announce *)
Definition P10 := P9 ++ [c 1; c 1].
(* continuation: broadcast of (0,2) := 8 to c2 and c0, c1 disconnects WITHOUT the dispatcher lock while c0 is between
   the two halves of subscribe(module 1) *)
Definition K11 := [u 0 0; c 0; c 1; u 0 0; c 1; u 0 2; c 1; c 0; u 0 0; c 1; c 1; c 1].
Definition P11 := P10 ++ K11.
(* c0 parked at the dispatcher lock with the global deactivate, c2 with `deactivate 0:2`, lock free *)
Definition P12 := P11 ++ [c 0; c 0; c 0; c 0; c 0; c 2].
(* c0 parked at send_reply of the identification reply, c1 done *)
Definition P13 := P12 ++ [c 0; c 0; c 0; c 0; u 0 0; c 0; c 0; u 0 0; c 0; c 0; c 0].
Definition P14 := P13 ++ [c 2; c 2; c 0].

Notation runA := (run ndA csA usA).

Ltac in_tac := vm_compute; repeat (try (left; reflexivity); right).

(* ---- the run itself: 88 enabled steps, all threads finished, logs with raced snapshots *)
Definition LA0 : list entry :=
  [EReq (RAct SG false); EUpd (0, 2) 7; EUpd (0, 0) 5; EUpd (0, 2) 7; EUpd (1, 0) 11; EUpd (1, 0) 11; ERep (RpActive SG);
   EReq (RAct (SM 1) false); EUpd (0, 2) 8; EUpd (1, 0) 11; ERep (RpActive (SM 1));
   EReq (RDeact SG false); ERep RpInactive; EReq RIdn; ERep RpIdent].
Definition LA1 : list entry :=
  [EReq (RAct (SM 0) false); EUpd (0, 0) 5; EUpd (0, 2) 0; ERep (RpActive (SM 0));
   EReq (RAct (SP 1 0) false); EUpd (0, 2) 7; EUpd (1, 0) 11; ERep (RpActive (SP 1 0));
   EReq (RDeact (SM 0) false); ERep RpInactive; EClose].
Definition LA2 : list entry :=
  [EReq (RAct (SP 0 2) false); EUpd (0, 2) 0; ERep (RpActive (SP 0 2)); EUpd (0, 2) 7; EUpd (0, 2) 8;
   EReq (RDeact (SP 0 2) false); ERep RpInactive].

Example C08_nv_run :
  length P14 = 88 /\ all_enabled ndA (init csA usA) P14 = true /\
  map (fun i => c_pc (cth (runA P14) i)) [0; 1; 2] = [CRecv; CDone; CRecv] /\
  map (fun i => c_script (cth (runA P14) i)) [0; 1; 2] = [[]; []; []] /\
  map (fun i => u_pc (uth (runA P14) i)) [0; 1] = [UDone; UDone] /\
  dlock (runA P14) = None /\
  map (logs (runA P14)) [0; 1; 2] = [LA0; LA1; LA2] /\
  bcasts (runA P14) = [((0, 2), 8, [2; 0]); ((1, 0), 11, [0]); ((0, 2), 7, [2; 1; 0])].
Proof. vm_compute. repeat split; reflexivity. Qed.

(* ---- the instance has the form of a harness case (Run.v): the state check_case examines IS `run` along the trace, and
   the audit run, written as a case (thread + label of the synchronisation point per step, observed logs / cache /
   tables), passes check_case *)
Lemma follow_is_run : forall nd tr s n s',
  follow nd s tr n = (s', None) -> s' = run_from nd s (map (fun tl => (fst tl, target (snd tl))) tr).
Proof.
  induction tr as [| [t l] r IH]; simpl; intros s n s' H.
  - inversion H; reflexivity.
  - destruct (lab_ok s t l && enabled s t (target l)); [apply IH in H; exact H | discriminate].
Qed.
Lemma check_case_state_is_run : forall k, check_case k = true ->
  fst (final k) = run (k_node k) (k_conns k) (k_upds k) (map (fun tl => (fst tl, target (snd tl))) (k_trace k)).
Proof.
  intros k. unfold check_case, final, run.
  destruct (follow (k_node k) (init (k_conns k) (k_upds k)) (k_trace k) 0) as [s [b |]] eqn:E; [discriminate |].
  intros _. simpl. apply (follow_is_run _ _ _ _ _ E).
Qed.

Definition lab_of (s : state) (st : tid * conn) : lab :=
  match fst st with
  | TC x => match c_pc (cth s x) with
            | CStart => LStart | CRecv => LRecv | CAcq _ => LAcqD
            | CAcqU _ ((m, _) :: _) => LAcqU m
            | CBuild _ m (i :: _) _ => LBuild (m, i)
            | CSendU _ _ _ _ _ _ | CSendR _ => LSend x
            | CAdd _ _ => LAdd | CDisc _ _ => LDisc | _ => LStart
            end
  | TU y => match u_pc (uth s y) with
            | UStart => LStart
            | UAcq => match u_script (uth s y) with (p, _) :: _ => LAcqU (fst p) | [] => LStart end
            | UBuild q => LBuild q
            | USend _ _ _ _ => LSend (snd st)
            | UDone => LStart
            end
  end.
Fixpoint mk_trace (nd : node) (s : state) (sched : list (tid * conn)) : list (tid * lab) :=
  match sched with [] => [] | st :: r => (fst st, lab_of s st) :: mk_trace nd (cstep nd s st) r end.
Definition kA : case :=
  {| k_node := ndA; k_conns := csA; k_upds := usA; k_trace := mk_trace ndA (init csA usA) P14;
     k_logs := [LA0; LA1; LA2]; k_cache := [((0, 0), 6); ((0, 1), 3); ((0, 2), 8); ((1, 0), 11); ((2, 0), 0)];
     k_actv := []; k_subs := []; k_keys := [SP 0 2; SM 0; SP 1 0; SM 1] |}.
Example C08_nv_check_case : check_case kA = true /\ length (k_trace kA) = 88.
Proof. vm_compute. split; reflexivity. Qed.
Example C08_nv_check_case_state :
  fst (final kA) = run ndA csA usA (map (fun tl => (fst tl, target (snd tl))) (k_trace kA)).
Proof. apply (check_case_state_is_run kA). vm_compute. reflexivity. Qed.

(* ---- C08_source_facts: no premise (closed booleans regenerated from /repo) *)
Example C08_source_facts_applies : reset_shape = true /\ subscribe_shape = true.
Proof. destruct C08_source_facts as [_ [_ [_ [_ [_ [_ [_ [S [_ [_ [_ [R _]]]]]]]]]]]]. split; assumption. Qed.

(* ---- C08_snapshot_complete: premise = a connection parked at send_reply of 'active' *)
Example C08_nonvacuous_snapshot_complete :
  c_pc (cth (runA P8) 0) = CSendR (RpActive SG) /\ c_pc (cth (runA P3) 1) = CSendR (RpActive (SM 0)) /\
  (* the inner premises `covers sc p = true -> exported nd p = true` hold for several p and fail for others *)
  map (fun p => covers SG p && exported ndA p) [(0, 0); (0, 1); (0, 2); (1, 0); (2, 0)] = [true; false; true; true; false] /\
  map (fun p => covers (SM 0) p && exported ndA p) [(0, 0); (0, 1); (0, 2); (1, 0)] = [true; false; true; false].
Proof. vm_compute. repeat split; reflexivity. Qed.

Example C08_snapshot_complete_applies_global :
  exists pre seg, logs (runA P8) 0 = pre ++ EReq (RAct SG false) :: seg /\ Forall is_upd seg /\
    forall p, covers SG p = true -> exported ndA p = true -> exists v, In (EUpd p v) seg.
Proof. apply (C08_snapshot_complete ndA csA usA P8 0 SG). vm_compute. reflexivity. Qed.

Example C08_snapshot_complete_applies_module :
  exists pre seg, logs (runA P3) 1 = pre ++ EReq (RAct (SM 0) false) :: seg /\ Forall is_upd seg /\
    forall p, covers (SM 0) p = true -> exported ndA p = true -> exists v, In (EUpd p v) seg.
Proof. apply (C08_snapshot_complete ndA csA usA P3 1 (SM 0)). vm_compute. reflexivity. Qed.

(* the segment of the global activation contains broadcast messages that raced with it *)
Example C08_snapshot_complete_segment :
  logs (runA P8) 0 = [EReq (RAct SG false); EUpd (0, 2) 7; EUpd (0, 0) 5; EUpd (0, 2) 7; EUpd (1, 0) 11; EUpd (1, 0) 11].
Proof. vm_compute. reflexivity. Qed.

(* ---- C08_broadcast_selects_all_listeners: premise = a driver thread parked at make_update.  Both branches of the
   conclusion occur: three listeners (second branch), no listener (first branch) *)
Example C08_broadcast_selects_applies_listeners :
  let s := runA P4 in let s' := cstep ndA s (TU 0, 0) in
  ((forall x, listens s x (0, 2) = false) /\ (u_pc (uth s' 0) = UDone \/ u_pc (uth s' 0) = UAcq)
   \/ exists all, u_pc (uth s' 0) = USend (0, 2) (cache s (0, 2)) all all /\ NoDup all /\
        forall x, In x all <-> listens s x (0, 2) = true) /\
  (* which branch: *)
  u_pc (uth s' 0) = USend (0, 2) 7 [2; 1; 0] [2; 1; 0] /\
  map (fun x => listens s x (0, 2)) [0; 1; 2; 3] = [true; true; true; false].
Proof.
  cbv zeta. split.
  - apply (C08_broadcast_selects_all_listeners ndA (runA P4) 0 0 (0, 2)). vm_compute. reflexivity.
  - vm_compute. split; reflexivity.
Qed.

Example C08_broadcast_selects_applies_no_listener :
  let s := runA P1 in let s' := cstep ndA s (TU 0, 0) in
  ((forall x, listens s x (0, 0) = false) /\ (u_pc (uth s' 0) = UDone \/ u_pc (uth s' 0) = UAcq)
   \/ exists all, u_pc (uth s' 0) = USend (0, 0) (cache s (0, 0)) all all /\ NoDup all /\
        forall x, In x all <-> listens s x (0, 0) = true) /\
  u_pc (uth s' 0) = UAcq /\ cache s (0, 0) = 5.
Proof.
  cbv zeta. split.
  - apply (C08_broadcast_selects_all_listeners ndA (runA P1) 0 0 (0, 0)). vm_compute. reflexivity.
  - vm_compute. split; reflexivity.
Qed.

(* ---- C08_every_listener_receives: premise = a completed broadcast with a selected listener *)
Example C08_every_listener_receives_applies :
  In (EUpd (0, 2) 7) (logs (runA P11) 1) /\ In (EUpd (0, 2) 8) (logs (runA P11) 0) /\ In (EUpd (1, 0) 11) (logs (runA P11) 0).
Proof.
  split; [| split].
  - apply (C08_every_listener_receives ndA csA usA P11 (0, 2) 7 [2; 1; 0] 1); in_tac.
  - apply (C08_every_listener_receives ndA csA usA P11 (0, 2) 8 [2; 0] 0); in_tac.
  - apply (C08_every_listener_receives ndA csA usA P11 (1, 0) 11 [0] 0); in_tac.
Qed.

(* ---- C08_scope_isolation: premise a <> b only; instance: the (enabled, effective) deactivate step of c1 while c0 and
   c2 listen and u0 has updates left *)
Example C08_scope_isolation_applies :
  let s := runA P9 in let s' := cstep ndA s (TC 1, 0) in
  (logs s' 0 = logs s 0 /\ cth s' 0 = cth s 0 /\ (forall p, listens s' 0 p = listens s 0 p) /\
   uth s' = uth s /\ cache s' = cache s /\ bcasts s' = bcasts s) /\
  (* the step is not a stuttering step: it changes what c1 listens to *)
  cenabled s 1 = true /\ listens s 1 (0, 0) = true /\ listens s' 1 (0, 0) = false /\ listens s 0 (0, 0) = true.
Proof.
  cbv zeta. split.
  - apply (C08_scope_isolation ndA (runA P9) 1 0 0). discriminate.
  - vm_compute. repeat split; reflexivity.
Qed.

(* ---- C08_deactivate_removes_its_scope: premises = parked at the dispatcher lock with a valid deactivate, lock free.
   All three scope kinds; results both true and false *)
Example C08_nonvacuous_deactivate :
  c_pc (cth (runA P9) 1) = CAcq (RDeact (SM 0) false) /\ dlock (runA P9) = None /\
  c_pc (cth (runA P12) 0) = CAcq (RDeact SG false) /\ c_pc (cth (runA P12) 2) = CAcq (RDeact (SP 0 2) false) /\
  dlock (runA P12) = None.
Proof. vm_compute. repeat split; reflexivity. Qed.

Example C08_deactivate_removes_applies_module :
  let s := runA P9 in
  listens (cstep ndA s (TC 1, 0)) 1 (0, 2) = memc 1 (actv s) /\
  listens (cstep ndA s (TC 1, 0)) 1 (1, 0) = listens s 1 (1, 0) /\
  listens s 1 (0, 2) = true /\ memc 1 (actv s) = false /\ listens s 1 (1, 0) = true.
Proof.
  cbv zeta. split; [| split].
  - apply (C08_deactivate_removes_its_scope ndA (runA P9) 1 0 (SM 0) (0, 2)); vm_compute; reflexivity.
  - apply (C08_deactivate_removes_its_scope ndA (runA P9) 1 0 (SM 0) (1, 0)); vm_compute; reflexivity.
  - vm_compute. repeat split; reflexivity.
Qed.

Example C08_deactivate_removes_applies_global :
  let s := runA P12 in
  listens (cstep ndA s (TC 0, 0)) 0 (1, 0) = mems 0 (SP 1 0) (subs s) || mems 0 (SM 1) (subs s) /\
  listens (cstep ndA s (TC 0, 0)) 0 (0, 2) = mems 0 (SP 0 2) (subs s) || mems 0 (SM 0) (subs s) /\
  mems 0 (SM 1) (subs s) = true /\ mems 0 (SP 0 2) (subs s) || mems 0 (SM 0) (subs s) = false /\ listens s 0 (0, 2) = true.
Proof.
  cbv zeta. split; [| split].
  - apply (C08_deactivate_removes_its_scope ndA (runA P12) 0 0 SG (1, 0)); vm_compute; reflexivity.
  - apply (C08_deactivate_removes_its_scope ndA (runA P12) 0 0 SG (0, 2)); vm_compute; reflexivity.
  - vm_compute. repeat split; reflexivity.
Qed.

Example C08_deactivate_removes_applies_parameter :
  let s := runA P12 in
  listens (cstep ndA s (TC 2, 0)) 2 (0, 2) = mems 2 (SM 0) (subs s) || memc 2 (actv s) /\
  listens (cstep ndA s (TC 2, 0)) 2 (0, 0) = listens s 2 (0, 0) /\
  listens s 2 (0, 2) = true /\ mems 2 (SM 0) (subs s) || memc 2 (actv s) = false.
Proof.
  cbv zeta. split; [| split].
  - apply (C08_deactivate_removes_its_scope ndA (runA P12) 2 0 (SP 0 2) (0, 2)); vm_compute; reflexivity.
  - apply (C08_deactivate_removes_its_scope ndA (runA P12) 2 0 (SP 0 2) (0, 0)); vm_compute; reflexivity.
  - vm_compute. repeat split; reflexivity.
Qed.

(* ---- C08_ident_and_disconnect_remove_all *)
Example C08_ident_and_disconnect_applies :
  (* part 1, identification: c0 listened (module 1) before, parked at the reply now *)
  (c_pc (cth (runA P13) 0) = CSendR RpIdent /\ listens (runA P12) 0 (1, 0) = true /\ forall p, listens (runA P13) 0 p = false) /\
  (* part 1, disconnect: c1 listened ((1,0)) before its close, finished now *)
  (c_pc (cth (runA P11) 1) = CDone /\ listens (runA P10) 1 (1, 0) = true /\ forall p, listens (runA P11) 1 p = false) /\
  (* part 2: c1 parked at receive, `close` next, other requests of other threads pending *)
  (let s := runA P10 in let s' := cstep ndA s (TC 1, 0) in
   c_pc (cth s 1) = CRecv /\ c_script (cth s 1) = [RClose] /\
   logs s' 1 = logs s 1 ++ [EClose] /\ c_pc (cth s' 1) = CDisc (reset_targets s) KClose /\
   (forall p, listens s' 1 p = listens s 1 p) /\ reset_targets s = [TSet 0; TSet 1; TSet 2; TActv]).
Proof.
  destruct C08_ident_and_disconnect_remove_all as [I1 I2]. split; [| split].
  - split; [vm_compute; reflexivity |]. split; [vm_compute; reflexivity |].
    apply (I1 ndA csA usA P13 0). left. vm_compute. reflexivity.
  - split; [vm_compute; reflexivity |]. split; [vm_compute; reflexivity |].
    apply (I1 ndA csA usA P11 1). right. vm_compute. reflexivity.
  - cbv zeta.
    assert (A : c_pc (cth (runA P10) 1) = CRecv) by (vm_compute; reflexivity).
    assert (B : c_script (cth (runA P10) 1) = RClose :: []) by (vm_compute; reflexivity).
    destruct (I2 ndA (runA P10) 1 0 [] A B) as [L [Q R]].
    split; [exact A |]. split; [exact B |]. split; [exact L |]. split; [exact Q |]. split; [exact R |].
    vm_compute. reflexivity.
Qed.

(* ---- C08_subscribe_survives_concurrent_disconnect: no outer premise; inner premises:
   (3) a connection inside its activation, (4) a step of another thread *)
Definition Q11 := P10 ++ firstn 8 K11.   (* c0 after the add of subscribe(module 1), c1 in the middle of its disconnect *)
Example C08_subscribe_survives_applies :
  (* the state: c0 inside `activate module 1`, c1 inside reset_connection (no dispatcher lock), u0 inside a broadcast *)
  (c_pc (cth (runA Q11) 0) = CAcqU (SM 1) [(1, [0])] /\ c_pc (cth (runA Q11) 1) = CDisc [TSet 2; TSet 3; TActv] KClose /\
   u_pc (uth (runA Q11) 0) = USend (0, 2) 8 [2; 0] [0] /\ dlock (runA Q11) = Some 0) /\
  tbl_wf (runA Q11) /\
  (* (2) with a non-empty extension *)
  (shape (runA P7) = [(0, SP 0 2); (1, SM 0)] /\ shape (runA (P7 ++ skipn (length P7) P14)) = shape (runA P7) ++ [(2, SP 1 0); (3, SM 1)]) /\
  (* (3) at two program counters and two scope kinds *)
  (listens (runA Q11) 0 (1, 0) = true /\ listens (runA P7) 0 (0, 2) = true /\ listens (runA P7) 0 (1, 0) = true) /\
  (* (4) for the next discard of the disconnecting c1 and for a send of the driver *)
  (forall p, listens (cstep ndA (runA Q11) (TC 1, 0)) 0 p = listens (runA Q11) 0 p) /\
  (forall p, listens (cstep ndA (runA Q11) (TU 0, 0)) 0 p = listens (runA Q11) 0 p).
Proof.
  destruct (C08_subscribe_survives_concurrent_disconnect ndA csA usA Q11) as [W [_ [A L]]].
  destruct (C08_subscribe_survives_concurrent_disconnect ndA csA usA P7) as [_ [S [A7 _]]].
  split; [vm_compute; repeat split; reflexivity |]. split; [exact W |]. split; [| split; [| split]].
  - split; [vm_compute; reflexivity |]. destruct (S (skipn (length P7) P14)) as [ext E].
    vm_compute. reflexivity.
  - split; [| split].
    + apply (A 0 (SM 1)); vm_compute; reflexivity.
    + apply (A7 0 SG); vm_compute; reflexivity.
    + apply (A7 0 SG); vm_compute; reflexivity.
  - apply (L 0 (TC 1, 0)). simpl. discriminate.
  - apply (L 0 (TU 0, 0)). simpl. discriminate.
Qed.

(* ---- C08_silent_after_scope_ended_except_late_update: all five premises at a reachable state with a non-trivial
   continuation (the parameter is updated and broadcast to two other connections, c1 itself goes on to disconnect) *)
Lemma no_usend_P10 : forall x, match u_pc (uth (runA P10) x) with USend _ _ _ _ | UBuild _ => False | _ => True end.
Proof. intros [| [| x]]; vm_compute; exact I. Qed.

Example C08_nonvacuous_silent :
  let s := runA P10 in
  tbl_wf s /\ listens s 1 (0, 2) = false /\ ~ cflight s 1 (0, 2) /\ ~ wants s 1 (0, 2) /\ ~ uflight s 1 (0, 2).
Proof.
  cbv zeta.
  assert (A : c_pc (cth (runA P10) 1) = CRecv) by (vm_compute; reflexivity).
  assert (B : c_script (cth (runA P10) 1) = [RClose]) by (vm_compute; reflexivity).
  split; [apply wf_run |]. split; [vm_compute; reflexivity |]. split; [| split].
  - unfold cflight. rewrite A. simpl. tauto.
  - unfold wants. rewrite A, B. intros [[] | E]. inversion E as [? ? H | ? ? H]; [exact H | inversion H].
  - intros [x [v [al [pe [E _]]]]]. pose proof (no_usend_P10 x) as N. rewrite E in N. exact N.
Qed.

Example C08_silent_applies :
  let s := runA P10 in
  updates_of (0, 2) (logs (run_from ndA s K11) 1) = updates_of (0, 2) (logs s 1) /\
  (* non-trivial: c1 holds updates of the parameter, the continuation broadcasts a new value to the others, and the
     log of c1 itself grows *)
  updates_of (0, 2) (logs s 1) = [EUpd (0, 2) 0; EUpd (0, 2) 7] /\
  bcasts (run_from ndA s K11) = ((0, 2), 8, [2; 0]) :: bcasts s /\
  updates_of (0, 2) (logs (run_from ndA s K11) 2) = updates_of (0, 2) (logs s 2) ++ [EUpd (0, 2) 8] /\
  logs (run_from ndA s K11) 1 = logs s 1 ++ [EClose] /\
  all_enabled ndA s K11 = true.
Proof.
  cbv zeta. destruct C08_nonvacuous_silent as [W [L [C [Wn U]]]]. split.
  - exact (C08_silent_after_scope_ended_except_late_update ndA (runA P10) K11 1 (0, 2) W L C Wn U).
  - vm_compute. repeat split; reflexivity.
Qed.

(* ---- C08_quiescent_fresh: four premises; c2 idle and listening while c0 is in the middle of another activation;
   then c0 itself (three parameters, two of them raced with broadcasts) *)
Lemma upd_idle_P11 : forall x, upd_idle (runA P11) x.
Proof. intros [| [| x]]; vm_compute; exact I. Qed.
Lemma upd_idle_P12 : forall x, upd_idle (runA P12) x.
Proof. intros [| [| x]]; vm_compute; exact I. Qed.

Example C08_quiescent_fresh_applies :
  (last_upd (0, 2) (logs (runA P11) 2) = Some (cache (runA P11) (0, 2)) /\ cache (runA P11) (0, 2) = 8 /\
   c_pc (cth (runA P11) 0) = CAcqU (SM 1) [(1, [0])]) /\
  (last_upd (0, 0) (logs (runA P12) 0) = Some (cache (runA P12) (0, 0)) /\
   last_upd (0, 2) (logs (runA P12) 0) = Some (cache (runA P12) (0, 2)) /\
   last_upd (1, 0) (logs (runA P12) 0) = Some (cache (runA P12) (1, 0)) /\
   map (cache (runA P12)) [(0, 0); (0, 2); (1, 0)] = [5; 8; 11]).
Proof.
  split.
  - split; [| vm_compute; split; reflexivity].
    apply (C08_quiescent_fresh ndA csA usA P11 2 (0, 2));
      [vm_compute; reflexivity | vm_compute; reflexivity | apply upd_idle_P11 | vm_compute; exact I].
  - split; [| split; [| split; [| vm_compute; reflexivity]]].
    + apply (C08_quiescent_fresh ndA csA usA P12 0 (0, 0));
        [vm_compute; reflexivity | vm_compute; reflexivity | apply upd_idle_P12 | vm_compute; exact I].
    + apply (C08_quiescent_fresh ndA csA usA P12 0 (0, 2));
        [vm_compute; reflexivity | vm_compute; reflexivity | apply upd_idle_P12 | vm_compute; exact I].
    + apply (C08_quiescent_fresh ndA csA usA P12 0 (1, 0));
        [vm_compute; reflexivity | vm_compute; reflexivity | apply upd_idle_P12 | vm_compute; exact I].
Qed.

(* ---- C08_update_lock_discipline: no outer premise; the inner premises (somebody holds an updateLock / a built
   message) at a state in which a connection thread and a driver thread hold two different module locks *)
Example C08_update_lock_discipline_applies :
  let s := runA P7 in
  (c_pc (cth s 0) = CSendU SG 0 0 5 [2] [(1, [0])] /\ u_pc (uth s 1) = USend (1, 0) 11 [0] [0]) /\
  holds s (TC 0) 0 /\ holds s (TU 1) 1 /\
  ulock s 0 = Some (TC 0) /\ ulock s 1 = Some (TU 1) /\ cache s (1, 0) = 11 /\ cache s (0, 0) = 5.
Proof.
  cbv zeta. destruct (C08_update_lock_discipline ndA csA usA P7) as [L [V1 V2]].
  assert (A : c_pc (cth (runA P7) 0) = CSendU SG 0 0 5 [2] [(1, [0])]) by (vm_compute; reflexivity).
  assert (B : u_pc (uth (runA P7) 1) = USend (1, 0) 11 [0] [0]) by (vm_compute; reflexivity).
  assert (H0 : holds (runA P7) (TC 0) 0) by (unfold holds; rewrite A; reflexivity).
  assert (H1 : holds (runA P7) (TU 1) 1).
  { exists (1, 0). split; [| reflexivity]. right. exists 11, [0], [0]. exact B. }
  split; [split; [exact A | exact B] |]. split; [exact H0 |]. split; [exact H1 |].
  split; [apply (L (TC 0) 0 H0) |]. split; [apply (L (TU 1) 1 H1) |].
  split; [apply (V1 1 (1, 0) 11 [0] [0] B) | apply (V2 0 SG 0 0 5 [2] [(1, [0])] A)].
Qed.

(* ---- the refutation theorems are closed existential statements (their witnesses are in Refuted.v, every step of the
   witness schedules enabled); the audit run above also contains the refuted pattern's guard: at P5 the broadcast of
   (0,2) with c1 pending is in flight, i.e. `uflight` - the premise `~ uflight` of the silence theorem is a real
   restriction, not an always-true one *)
Example C08_uflight_occurs : uflight (runA P5) 1 (0, 2) /\ uflight (runA P5) 0 (0, 2).
Proof. split; exists 0, 7, [2; 1; 0], [2; 1; 0]; (split; [vm_compute; reflexivity | in_tac]). Qed.

Print Assumptions C08_snapshot_complete_applies_global.
Print Assumptions C08_silent_applies.
Print Assumptions C08_quiescent_fresh_applies.
Print Assumptions C08_subscribe_survives_applies.
Print Assumptions C08_update_lock_discipline_applies.
